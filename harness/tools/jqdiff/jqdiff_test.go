//go:build jqdiff

// Package jqdiff validates the reference interpreter against the jq 1.6
// binary of the sandbox (a development aid, not a registered check: jq 1.6 and
// gojq differ on purpose in many natives, so the differences are triaged by
// hand and only disagreements about the core forms are acted upon).
//
//	cd /verif/harness && JQDIFF_MODE=enum|random JQDIFF_N=20000 JQDIFF_SHARD=i JQDIFF_SHARDS=n \
//	    ../bin/vgo test -tags 'verif jqdiff' -run TestJQDiff -count=1 -timeout 0 ./tools/jqdiff
package jqdiff

import (
	"bytes"
	"context"
	"encoding/json"
	"fmt"
	"math"
	"math/big"
	"os"
	"os/exec"
	"sort"
	"strconv"
	"strings"
	"testing"
	"time"

	"github.com/itchyny/gojq"
	"pgregory.net/rapid"

	"verif/internal/gen"
	"verif/internal/refjq"
	"verif/internal/univ"
)

var model *refjq.Interp

// norm maps a value to a form comparable across the two implementations:
// every number becomes float64; ok=false if a number does not fit.
func norm(v any) (any, bool) {
	switch v := v.(type) {
	case nil, bool, string:
		return v, true
	case int:
		if v > 1<<53 || v < -(1<<53) {
			return nil, false
		}
		return float64(v), true
	case float64:
		if math.IsNaN(v) || math.IsInf(v, 0) || math.Abs(v) > 1e17 {
			return nil, false
		}
		return v, true
	case *big.Int:
		return nil, false
	case json.Number:
		f, err := strconv.ParseFloat(string(v), 64)
		if err != nil || math.Abs(f) > 1e17 {
			return nil, false
		}
		return f, true
	case []any:
		out := make([]any, len(v))
		for i, x := range v {
			y, ok := norm(x)
			if !ok {
				return nil, false
			}
			out[i] = y
		}
		return out, true
	case map[string]any:
		out := make(map[string]any, len(v))
		for k, x := range v {
			y, ok := norm(x)
			if !ok {
				return nil, false
			}
			out[k] = y
		}
		return out, true
	}
	return nil, false
}

func show(vs []any) string {
	var sb strings.Builder
	for _, v := range vs {
		b, _ := json.Marshal(v)
		sb.Write(b)
		sb.WriteByte(' ')
	}
	return sb.String()
}

type diffRec struct {
	key, query, input, model, jq string
}

// compare returns "" or a description; skip=true when the case cannot be compared.
func compare(src string, in any) (d string, skip bool) {
	q, err := gojq.Parse(src)
	if err != nil {
		return "", true
	}
	nin, ok := norm(in)
	if !ok {
		return "", true
	}
	want := model.Run(q, univ.Copy(in), nil, 60000, 300)
	if want.Discard() != "" || model.EmptyIdentity {
		return "", true
	}
	var wv []any
	for _, v := range want.Vals {
		n, ok := norm(v)
		if !ok {
			return "", true
		}
		wv = append(wv, n)
	}
	inText, _ := json.Marshal(nin)
	ctx, cancel := context.WithTimeout(context.Background(), 5*time.Second)
	defer cancel()
	cmd := exec.CommandContext(ctx, "jq", "-c", src)
	cmd.Stdin = bytes.NewReader(inText)
	var so, se bytes.Buffer
	cmd.Stdout, cmd.Stderr = &so, &se
	runErr := cmd.Run()
	code := 0
	if ee, ok := runErr.(*exec.ExitError); ok {
		code = ee.ExitCode()
	} else if runErr != nil {
		return "", true
	}
	if ctx.Err() != nil {
		return "", true
	}
	if code == 3 || code == 2 { // jq compile error / usage: outside the common language
		return "", true
	}
	var jv []any
	dec := json.NewDecoder(&so)
	for {
		var v any
		if err := dec.Decode(&v); err != nil {
			break
		}
		n, ok := norm(v)
		if !ok {
			return "", true
		}
		jv = append(jv, n)
	}
	werr, jerr := want.Err != nil, code == 5
	if refjq.IsBreak(want.Err) {
		return "", true
	}
	if _, halt := want.Err.(*gojq.HaltError); halt {
		return "", true
	}
	a, b := show(wv), show(jv)
	if a != b || werr != jerr {
		es := ""
		if want.Err != nil {
			es = " ERR " + want.Err.Error()
		}
		js := ""
		if jerr {
			js = " ERR " + strings.TrimSpace(se.String())
		}
		return fmt.Sprintf("model: %s%s\n    jq:    %s%s", a, es, b, js), false
	}
	return "", false
}

func TestJQDiff(t *testing.T) {
	var err error
	if model, err = refjq.New(); err != nil {
		t.Fatal(err)
	}
	shard, _ := strconv.Atoi(os.Getenv("JQDIFF_SHARD"))
	shards, _ := strconv.Atoi(os.Getenv("JQDIFF_SHARDS"))
	if shards == 0 {
		shards = 1
	}
	n, _ := strconv.Atoi(os.Getenv("JQDIFF_N"))
	if n == 0 {
		n = 2000
	}
	out, _ := os.Create(fmt.Sprintf("/tmp/jqdiff-%s-%d.txt", os.Getenv("JQDIFF_MODE"), shard))
	defer out.Close()
	total, diffs, skipped := 0, 0, 0
	byKey := map[string]int{}
	report := func(key, src string, in any, d string) {
		diffs++
		byKey[key]++
		if byKey[key] <= 6 {
			b, _ := json.Marshal(in)
			fmt.Fprintf(out, "=== [%s] %s\n    input %s\n    %s\n", key, src, b, d)
		}
	}
	if os.Getenv("JQDIFF_MODE") == "enum" {
		en := gen.NewEnumerator()
		inputs := []any{nil, 1, "a", []any{1, []any{2}}, map[string]any{"a": 1, "b": []any{2}}, []any{map[string]any{"a": []any{3}}, 0}}
		maxN, _ := strconv.Atoi(os.Getenv("JQDIFF_SIZE"))
		if maxN == 0 {
			maxN = 3
		}
		count := 0
		for size := 1; size <= maxN; size++ {
			for _, src := range en.Programs(size, 0) {
				count++
				if count%shards != shard {
					continue
				}
				for _, in := range inputs {
					d, skip := compare(src, in)
					total++
					if skip {
						skipped++
						continue
					}
					if d != "" {
						// key: the multiset of constructors, roughly
						key := constructorKey(src)
						report(key, src, in, d)
					}
				}
			}
		}
	} else {
		conf := gen.Conf{AltPat: true, AltPatFree: true, Paths: true, Builtins: os.Getenv("JQDIFF_BUILTINS") != "", MaxNodes: 25, Halt: false}
		progs := gen.Program(conf)
		inputs := rapid.SampledFrom([]any{nil, 0, 1, "a", true, []any{}, map[string]any{}, []any{1, 2, 3}, []any{0, []any{1, 2}, map[string]any{"a": 1}}, map[string]any{"a": 1, "b": 2},
			map[string]any{"a": []any{1, 2, map[string]any{"b": nil}}, "b": "x", "c": map[string]any{"a": 1}}, map[string]any{"a": "b", "b": "c", "c": "a"},
			map[string]any{"a": []any{10, 20, 30}, "b": 1, "c": 2}, []any{[]any{1, 2, 3}, 1, 2}, map[string]any{"a": nil, "b": false, "c": 0}})
		seed := 1000 + shard
		for i := 0; i < n; i++ {
			p := progs.Example(seed*1000003 + i)
			in := inputs.Example(seed*7919 + i)
			d, skip := compare(p.Src, in)
			total++
			if skip {
				skipped++
				continue
			}
			if d != "" {
				fs := append([]string{}, p.Features...)
				sort.Strings(fs)
				report(strings.Join(fs, ","), p.Src, in, d)
			}
		}
	}
	fmt.Fprintf(out, "TOTAL %d skipped %d diffs %d\n", total, skipped, diffs)
	keys := make([]string, 0, len(byKey))
	for k := range byKey {
		keys = append(keys, k)
	}
	sort.Slice(keys, func(i, j int) bool { return byKey[keys[i]] > byKey[keys[j]] })
	for _, k := range keys {
		fmt.Fprintf(out, "%6d %s\n", byKey[k], k)
	}
	t.Logf("total %d skipped %d diffs %d", total, skipped, diffs)
}

func constructorKey(src string) string {
	var ks []string
	for _, w := range []string{"try", "catch", "?//", "//", "label", "break", "reduce", "foreach", "first(", "limit(", "isempty(", "path(", "def ", "as ", "if ", "\\(", ".[]?", ")?", "error", "empty", " + ", ", ", "{("} {
		if strings.Contains(src, w) {
			ks = append(ks, strings.TrimSpace(w))
		}
	}
	return strings.Join(ks, " ")
}
