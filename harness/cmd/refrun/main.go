// refrun evaluates a query with gojq and with the reference interpreter (debugging aid).
package main

import (
	"encoding/json"
	"fmt"
	"os"

	"github.com/itchyny/gojq"

	"verif/internal/refjq"
	"verif/internal/run"
	"verif/internal/univ"
)

func main() {
	if len(os.Args) < 3 {
		fmt.Println("usage: refrun QUERY INPUT-JSON")
		os.Exit(2)
	}
	var in any
	if err := json.Unmarshal([]byte(os.Args[2]), &in); err != nil {
		panic(err)
	}
	q, err := gojq.Parse(os.Args[1])
	if err != nil {
		fmt.Println("parse:", err)
		return
	}
	m, _ := refjq.New()
	want := m.Run(q, univ.Copy(in), nil, 100000, 100)
	fmt.Println("model:", univ.ShowAll(want.Vals), "err:", want.Err, "discard:", want.Discard())
	code, err := gojq.Compile(q)
	if err != nil {
		fmt.Println("compile:", err)
		return
	}
	got := run.Exec(code, univ.Copy(in), 100000, 100)
	fmt.Println("gojq: ", univ.ShowAll(got.Vals), "err:", got.Err)
}
