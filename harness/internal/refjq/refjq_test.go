package refjq

import (
	"time"
	"strings"
	"testing"

	"github.com/itchyny/gojq"

	"verif/internal/corpus"
	"verif/internal/univ"
)

// TestCorpus validates the model against the outputs recorded by the
// maintainers in cli/test.yaml (ground truth independent of the VM).
func TestCorpus(t *testing.T) {
	in, err := New()
	if err != nil {
		t.Fatal(err)
	}
	cs, err := corpus.Load()
	if err != nil {
		t.Fatal(err)
	}
	used, unsupported, fuel, bad := 0, map[string]int{}, 0, 0
	for _, c := range cs {
		if !c.Plain || c.Query == "" {
			continue
		}
		q, err := gojq.Parse(c.Query)
		if err != nil {
			continue
		}
		if _, err := gojq.Compile(q); err != nil {
			continue
		}
		var inputs []any
		if c.NullInput {
			inputs = []any{nil}
		} else {
			inputs, err = corpus.Docs(c.Input)
			if err != nil {
				continue
			}
		}
		want, err := corpus.Docs(c.Expected)
		if err != nil {
			continue
		}
		var got []any
		t0 := time.Now()
		skip, hadErr := false, false
		for _, input := range inputs {
			r := in.Run(q, input, nil, 300000, 20000)
			if d := r.Discard(); d != "" {
				if strings.HasPrefix(d, "unsupported") {
					unsupported[d]++
				} else {
					fuel++
				}
				skip = true
				break
			}
			got = append(got, r.Vals...)
			if r.Err != nil {
				hadErr = true
				if h, ok := r.Err.(*gojq.HaltError); ok {
					hadErr = h.ExitCode() != 0 || h.Value() != nil
					break
				}
			}
		}
		if d := time.Since(t0); d > 2*time.Second {
			t.Logf("SLOW %v %q %q", d, c.Name, c.Query)
		}
		if skip {
			continue
		}
		used++
		if strings.Contains(strings.ToLower(c.Query), "env") {
			continue
		}
		// the expected text went through the command's encoder: NaN -> null, inf -> max double
		for i, g := range got {
			b, _ := gojq.Marshal(g)
			ds, _ := corpus.Docs(string(b))
			if len(ds) == 1 {
				got[i] = ds[0]
			}
		}
		if !univ.EqualStreams(got, want) || hadErr != (c.Error != "" || c.ExitCode != 0) {
			bad++
			t.Errorf("case %q query %q\n got  %s (err=%v)\n want %s (error %q exit %d)", c.Name, c.Query, univ.ShowAll(got), hadErr, univ.ShowAll(want), c.Error, c.ExitCode)
		}
	}
	t.Logf("used=%d bad=%d fuel=%d unsupported=%v", used, bad, fuel, unsupported)
}
