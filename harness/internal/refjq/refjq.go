// Package refjq is the reference model of jq's backtracking-generator
// semantics used as oracle by C01, C02 and C04: a deliberately naive
// continuation-passing evaluator over gojq's *parsed* AST.  There is no
// bytecode, no fork stack, no register file, no frame reuse: a filter is a Go
// function that calls its continuation once per output, backtracking is the Go
// call stack returning, environments are immutable linked lists.
//
// Trusted base (stated in DESIGN.md 2.5): gojq.Parse (decided by C09), and the
// *native* builtins/operators, which are applied by running the one-call query
// `name($a0; $a1; ...)` through gojq on already evaluated arguments (they are
// decided by C03/C10/C11/C13/C14).  Builtins defined in jq are evaluated by
// this interpreter from the text of /repo/builtin.jq.
package refjq

import (
	"encoding/json"
	"errors"
	"math/big"
	"fmt"
	"math"
	"os"
	"path/filepath"
	"reflect"
	"sort"
	"strings"

	"github.com/itchyny/gojq"
)

// ---------------------------------------------------------------------------
// errors

// Unsupported means the program left the sub-language the model covers; the
// case is discarded, never judged.
type Unsupported struct{ What string }

func (u *Unsupported) Error() string { return "refjq: unsupported: " + u.What }

// OutOfFuel means the evaluation budget ran out; the case is discarded.
var OutOfFuel = errors.New("refjq: out of fuel")

// Scope means a name could not be resolved although gojq compiled the program.
type Scope struct{ What string }

func (s *Scope) Error() string { return "refjq: unresolved name: " + s.What }

type breakErr struct {
	id   int
	name string
}

func (b *breakErr) Error() string { return "break " + b.name }

// IsBreak reports whether err is an uncaught break.
func IsBreak(err error) bool { _, ok := err.(*breakErr); return ok }

// markErr wraps an error that came back from the continuation of a try body,
// so that the try does not intercept it (one mark per enclosing try).
type markErr struct{ err error }

func (m *markErr) Error() string { return m.err.Error() }

func fatal(err error) bool {
	if err == OutOfFuel {
		return true
	}
	switch err.(type) {
	case *Unsupported, *Scope, *NativePanic:
		return true
	}
	return false
}

func isHalt(err error) bool {
	for {
		if m, ok := err.(*markErr); ok {
			err = m.err
			continue
		}
		_, ok := err.(*gojq.HaltError)
		return ok
	}
}

// ---------------------------------------------------------------------------
// environments and closures

type closure struct {
	def  *gojq.FuncDef // nil for a filter argument
	body *gojq.Query   // for a filter argument
	env  *env          // definition environment (for def: includes itself)
	self *env
}

type env struct {
	parent  *env
	name    string // "$x" for variables, "f" for functions/filter params, "*l" for labels
	arity   int
	val     any
	clo     *closure
	labelID int
	builtin bool // barrier: below this only builtins are visible
}

func (e *env) bindVar(name string, v any) *env {
	return &env{parent: e, name: name, arity: -1, val: v}
}

func (e *env) bindClo(name string, arity int, c *closure) *env {
	return &env{parent: e, name: name, arity: arity, clo: c}
}

func (e *env) lookupLabel(name string) (int, bool) {
	for x := e; x != nil; x = x.parent {
		if x.arity == -2 && x.name == name {
			return x.labelID, true
		}
	}
	return 0, false
}

// ---------------------------------------------------------------------------
// path tracking state (thread state, like the VM's path stack)

type pnode struct {
	parent *pnode
	key    any
}

// Track is nil outside path(); otherwise the current location.
type Track struct {
	off  int    // > 0: inside a sub-expression, navigation is not recorded
	path *pnode // reversed list of keys
	val  any    // value at the current location
}

func (t *Track) sub() *Track {
	if t == nil {
		return nil
	}
	return &Track{off: t.off + 1, path: t.path, val: t.val}
}

func (t *Track) active() bool { return t != nil && t.off == 0 }

func (t *Track) extend(key, val any) *Track {
	return &Track{path: &pnode{t.path, key}, val: val}
}

func (t *Track) keys() []any {
	var ks []any
	for p := t.path; p != nil; p = p.parent {
		ks = append(ks, p.key)
	}
	for i, j := 0, len(ks)-1; i < j; i, j = i+1, j-1 {
		ks[i], ks[j] = ks[j], ks[i]
	}
	if ks == nil {
		ks = []any{}
	}
	return ks
}

// intact: is v the value at the current location?  Containers by identity
// (backing pointer and length), scalars by equality, NaN equal to NaN.
func intact(v, w any) bool {
	switch v := v.(type) {
	case []any, map[string]any:
		switch w.(type) {
		case []any, map[string]any:
			a, b := reflect.ValueOf(v), reflect.ValueOf(w)
			if a.Kind() == reflect.Slice && b.Kind() == reflect.Slice && a.Len() == 0 && b.Len() == 0 {
				return true // empty arrays have no identity (C05.F2)
			}
			return a.Pointer() == b.Pointer() && a.Len() == b.Len()
		}
		return false
	case float64:
		if w, ok := w.(float64); ok {
			return v == w || math.IsNaN(v) && math.IsNaN(w)
		}
		return false
	}
	switch w.(type) {
	case []any, map[string]any:
		return false
	}
	return v == w
}

// ---------------------------------------------------------------------------

type cont func(v any, tr *Track) error

// Interp holds the builtin definitions and the caches.
type Interp struct {
	defs    map[string][]*gojq.FuncDef
	natives map[string]*gojq.Code
	consts  map[string]any
	root    *env
	fuel    int
	depth   int
	labels  int
	// EmptyIdentity is set when a path-mode identity test compared two empty
	// containers (their Go identity is an accident of allocation); such cases
	// are not judged.
	EmptyIdentity bool
}

const refDefs = `
def _assign(p; $x): reduce path(p) as $q (.; setpath($q; $x));
def _modify(p; f): reduce path(p) as $q ([., []]; . as [$v, $d] | label $l | ((($v | setpath($q; $v | getpath($q) | f)) as $w | [$w, $d] | ., break $l), [$v, $d + [$q]])) | . as [$v, $d] | $v | delpaths($d);
`

// New parses builtin.jq from the repository under test.
func New() (*Interp, error) {
	repo := os.Getenv("VERIF_REPO")
	if repo == "" {
		repo = "/repo"
	}
	b, err := os.ReadFile(filepath.Join(repo, "builtin.jq"))
	if err != nil {
		return nil, err
	}
	return NewFromText(string(b))
}

func NewFromText(builtinJQ string) (*Interp, error) {
	in := &Interp{defs: map[string][]*gojq.FuncDef{}, natives: map[string]*gojq.Code{}, consts: map[string]any{}}
	for _, src := range []string{builtinJQ, refDefs} {
		q, err := gojq.Parse(src + " .")
		if err != nil {
			return nil, fmt.Errorf("refjq: builtin definitions: %w", err)
		}
		for _, fd := range q.FuncDefs {
			in.defs[fd.Name] = append(in.defs[fd.Name], fd)
		}
	}
	in.root = &env{builtin: true, arity: -3}
	return in, nil
}

// Result of a reference evaluation.
type Result struct {
	Vals []any
	Err  error // terminal error: a gojq error value, *breakErr, or a discard reason (Unsupported, OutOfFuel, Scope)
}

// Discard reports why the case must not be judged ("" if it can be).
func (r Result) Discard() string {
	switch e := r.Err.(type) {
	case *Unsupported:
		if strings.HasPrefix(e.What, "resource") {
			return e.What
		}
		return "unsupported:" + e.What
	case *Scope:
		return ""
	}
	if r.Err == OutOfFuel {
		return "fuel"
	}
	return ""
}

// Run evaluates q on input; vars binds "$name" -> value.
func (in *Interp) Run(q *gojq.Query, input any, vars map[string]any, fuel, maxOut int) Result {
	in.fuel, in.depth, in.labels, in.EmptyIdentity = fuel, 0, 0, false
	e := &env{parent: in.root, arity: -3}
	names := make([]string, 0, len(vars))
	for n := range vars {
		names = append(names, n)
	}
	sort.Strings(names)
	for _, n := range names {
		e = e.bindVar(n, vars[n])
	}
	var res Result
	if len(q.Imports) > 0 || q.Meta != nil {
		res.Err = &Unsupported{"modules"}
		return res
	}
	stop := errors.New("stop")
	big := errors.New("big")
	err := in.eval(q, e, input, nil, func(v any, _ *Track) error {
		if treeSize(v, MaxValueNodes) > MaxValueNodes {
			return big
		}
		res.Vals = append(res.Vals, v)
		if len(res.Vals) >= maxOut {
			return stop
		}
		return nil
	})
	for {
		m, ok := err.(*markErr)
		if !ok {
			break
		}
		err = m.err
	}
	if err == stop {
		err = OutOfFuel
	}
	if err == big {
		err = &Unsupported{"resource: value too large"}
	}
	res.Err = err
	return res
}

func (in *Interp) tick() error {
	in.fuel--
	if in.fuel < 0 || in.depth > 6000 {
		return OutOfFuel
	}
	return nil
}

// ---------------------------------------------------------------------------
// delegation of natives and of VM-raised error values to gojq

func (in *Interp) nativeCode(name string, argc int) (*gojq.Code, error) {
	key := fmt.Sprintf("%s/%d", name, argc)
	if c, ok := in.natives[key]; ok {
		if c == nil {
			return nil, &Unsupported{"native " + key}
		}
		return c, nil
	}
	vars := make([]string, argc)
	for i := range vars {
		vars[i] = fmt.Sprintf("$__a%d", i)
	}
	src := name
	if argc > 0 {
		src += "(" + strings.Join(vars, "; ") + ")"
	}
	q, err := gojq.Parse(src)
	if err != nil {
		in.natives[key] = nil
		return nil, &Unsupported{"native " + key + ": " + err.Error()}
	}
	c, err := gojq.Compile(q, gojq.WithVariables(vars))
	if err != nil {
		in.natives[key] = nil
		return nil, &Unsupported{"native " + key + ": " + err.Error()}
	}
	in.natives[key] = c
	return c, nil
}

// native applies a native function; it may yield several values (_range).
func (in *Interp) native(name string, input any, args []any, k func(v any) error) error {
	c, err := in.nativeCode(name, len(args))
	if err != nil {
		return err
	}
	// resource guard: values that are exponentially large as trees (DAGs built
	// by repeated duplication) or numbers that turn into huge allocations
	// (array growth by setpath, string repetition) are outside the claim
	n := treeSize(input, MaxValueNodes)
	for _, a := range args {
		n += treeSize(a, MaxValueNodes)
	}
	if n > MaxValueNodes {
		return &Unsupported{"resource: value too large"}
	}
	// value-semantics natives copy their input: charge fuel by size
	in.fuel -= size(input) / 8
	for _, a := range args {
		in.fuel -= size(a) / 8
	}
	if name == "jn" || name == "yn" {
		// Bessel functions of order n take time proportional to n
		for _, a := range args {
			if num, ok := toFloatAny(a); ok && (math.Abs(num) >= 20000 || math.IsInf(num, 0)) {
				return &Unsupported{"resource: mid-band number"}
			}
		}
	}
	if name == "setpath" || name == "_multiply" || name == "implode" || name == "delpaths" || name == "getpath" {
		if hasMidBand(input, 3) {
			return &Unsupported{"resource: mid-band number"}
		}
		for _, a := range args {
			if hasMidBand(a, 3) {
				return &Unsupported{"resource: mid-band number"}
			}
		}
	}
	it := c.Run(input, args...)
	for {
		if err := in.tick(); err != nil {
			return err
		}
		v, ok, pan := safeNext(it)
		if pan != "" {
			return &NativePanic{Name: name, What: pan}
		}
		if !ok {
			return nil
		}
		if e, isErr := v.(error); isErr {
			return e
		}
		if err := k(v); err != nil {
			return err
		}
	}
}

// MaxValueNodes bounds the tree size of any value handed to a native.
const MaxValueNodes = 20000

// treeSize counts nodes of v as a tree, giving up beyond limit.
func treeSize(v any, limit int) int {
	n := 1
	switch v := v.(type) {
	case []any:
		for _, x := range v {
			n += treeSize(x, limit-n)
			if n > limit {
				return n
			}
		}
	case map[string]any:
		for _, x := range v {
			n += treeSize(x, limit-n)
			if n > limit {
				return n
			}
		}
	case string:
		n += len(v) / 4
	}
	return n
}

// TreeSize is exported for the checks' own guards.
func TreeSize(v any, limit int) int { return treeSize(v, limit) }

// hasMidBand: a number n with 20000 <= |n| < 2^62 within depth levels; such
// numbers used as array indices or repeat counts demand huge allocations.
func hasMidBand(v any, depth int) bool {
	mid := func(f float64) bool { f = math.Abs(f); return f >= 20000 && f < 4.6e18 }
	switch v := v.(type) {
	case int:
		return mid(float64(v))
	case float64:
		return mid(v)
	case json.Number:
		f, err := v.Float64()
		return err == nil && mid(f)
	case *big.Int:
		f, _ := new(big.Float).SetInt(v).Float64()
		return mid(f)
	case []any:
		if depth > 0 {
			for _, x := range v {
				if hasMidBand(x, depth-1) {
					return true
				}
			}
		}
	case map[string]any:
		if depth > 0 {
			for _, x := range v {
				if hasMidBand(x, depth-1) {
					return true
				}
			}
		}
	}
	return false
}

func toFloatAny(v any) (float64, bool) {
	switch v := v.(type) {
	case int:
		return float64(v), true
	case float64:
		return v, true
	case json.Number:
		f, _ := v.Float64()
		return f, true
	case *big.Int:
		f, _ := new(big.Float).SetInt(v).Float64()
		return f, true
	}
	return 0, false
}

func size(v any) int {
	switch v := v.(type) {
	case []any:
		return len(v)
	case map[string]any:
		return len(v)
	case string:
		return len(v) / 8
	}
	return 0
}

// NativePanic: a gojq native panicked when the model applied it; this is a
// crash of the code under test, reported by every check as a violation.
type NativePanic struct{ Name, What string }

func (n *NativePanic) Error() string { return "gojq native " + n.Name + " panicked: " + n.What }

// IsNativePanic reports whether err is a native panic.
func IsNativePanic(err error) bool {
	for {
		if m, ok := err.(*markErr); ok {
			err = m.err
			continue
		}
		_, ok := err.(*NativePanic)
		return ok
	}
}

func safeNext(it gojq.Iter) (v any, ok bool, pan string) {
	defer func() {
		if r := recover(); r != nil {
			pan = fmt.Sprint(r)
		}
	}()
	v, ok = it.Next()
	return v, ok, ""
}

func (in *Interp) native1(name string, input any, args ...any) (any, error) {
	var out any
	n := 0
	err := in.native(name, input, args, func(v any) error { out = v; n++; return nil })
	if err != nil {
		return nil, err
	}
	if n != 1 {
		return nil, &Unsupported{fmt.Sprintf("native %s gave %d outputs", name, n)}
	}
	return out, nil
}

var microCache = map[string]*gojq.Code{}

func micro(src string, vars ...string) *gojq.Code {
	if c, ok := microCache[src]; ok {
		return c
	}
	q, err := gojq.Parse(src)
	if err != nil {
		panic(err)
	}
	c, err := gojq.Compile(q, gojq.WithVariables(vars))
	if err != nil {
		panic(err)
	}
	microCache[src] = c
	return c
}

// vmError obtains from gojq the error value that the given micro query
// raises, so that message wording is implementation-neutral.
func vmError(c *gojq.Code, input any, vars ...any) error {
	it := c.Run(input, vars...)
	for {
		v, ok := it.Next()
		if !ok {
			return &Unsupported{"micro query raised no error"}
		}
		if e, isErr := v.(error); isErr {
			return e
		}
	}
}

func iterError(v any) error         { return vmError(micro(".[]"), v) }
func keyError(k any) error          { return vmError(micro("{(.): 1}"), k) }
func expectedArrayError(v any) error { return vmError(micro(". as [$a] | 1"), v) }

func sentinelFor(v any) any {
	if v == true {
		return false
	}
	return true
}

func invalidPathError(v any) error {
	return vmError(micro("path($__v)", "$__v"), sentinelFor(v), v)
}

func invalidPathIterError(v any) error {
	return vmError(micro("path($__v | .[])", "$__v"), sentinelFor(v), v)
}

func (in *Interp) constant(num string) (any, error) {
	if v, ok := in.consts[num]; ok {
		return v, nil
	}
	q, err := gojq.Parse(num)
	if err != nil {
		return nil, &Unsupported{"number literal " + num}
	}
	it := q.Run(nil)
	v, ok := it.Next()
	if !ok {
		return nil, &Unsupported{"number literal " + num}
	}
	if e, isErr := v.(error); isErr {
		return nil, e
	}
	in.consts[num] = v
	return v, nil
}

// ---------------------------------------------------------------------------
// evaluation

var opFunc = map[gojq.Operator]string{
	gojq.OpAdd: "_add", gojq.OpSub: "_subtract", gojq.OpMul: "_multiply", gojq.OpDiv: "_divide", gojq.OpMod: "_modulo",
	gojq.OpEq: "_equal", gojq.OpNe: "_notequal", gojq.OpGt: "_greater", gojq.OpLt: "_less", gojq.OpGe: "_greatereq", gojq.OpLe: "_lesseq",
	gojq.OpUpdateAdd: "_add", gojq.OpUpdateSub: "_subtract", gojq.OpUpdateMul: "_multiply", gojq.OpUpdateDiv: "_divide", gojq.OpUpdateMod: "_modulo", gojq.OpUpdateAlt: "_alternative",
}

func truthy(v any) bool { return v != nil && v != false }

func (in *Interp) eval(q *gojq.Query, e *env, v any, tr *Track, k cont) error {
	if err := in.tick(); err != nil {
		return err
	}
	in.depth++
	defer func() { in.depth-- }()
	for _, fd := range q.FuncDefs {
		c := &closure{def: fd}
		e = e.bindClo(fd.Name, len(fd.Args), c)
		c.env = e
	}
	if q.Term != nil {
		return in.evalTerm(q.Term, e, v, tr, k)
	}
	switch q.Op {
	case gojq.OpPipe:
		if len(q.Patterns) > 0 {
			return in.evalBind(q, e, v, tr, k)
		}
		return in.eval(q.Left, e, v, tr, func(x any, tr1 *Track) error {
			return in.eval(q.Right, e, x, tr1, k)
		})
	case gojq.OpComma:
		if err := in.eval(q.Left, e, v, tr, k); err != nil {
			return err
		}
		return in.eval(q.Right, e, v, tr, k)
	case gojq.OpAlt:
		found := false
		err := in.eval(q.Left, e, v, tr, func(x any, tr1 *Track) error {
			if !truthy(x) {
				return nil
			}
			found = true
			return k(x, tr1)
		})
		if err != nil {
			return err
		}
		if found {
			return nil
		}
		return in.eval(q.Right, e, v, tr, k)
	case gojq.OpOr:
		return in.eval(q.Left, e, v, tr.sub(), func(l any, _ *Track) error {
			if truthy(l) {
				return k(true, tr)
			}
			return in.eval(q.Right, e, v, tr.sub(), func(r any, _ *Track) error {
				return k(truthy(r), tr)
			})
		})
	case gojq.OpAnd:
		return in.eval(q.Left, e, v, tr.sub(), func(l any, _ *Track) error {
			if !truthy(l) {
				return k(false, tr)
			}
			return in.eval(q.Right, e, v, tr.sub(), func(r any, _ *Track) error {
				return k(truthy(r), tr)
			})
		})
	case gojq.OpAssign:
		return in.callNamed("_assign", []*gojq.Query{q.Left, q.Right}, e, v, tr, k)
	case gojq.OpModify:
		return in.callNamed("_modify", []*gojq.Query{q.Left, q.Right}, e, v, tr, k)
	case gojq.OpUpdateAdd, gojq.OpUpdateSub, gojq.OpUpdateMul, gojq.OpUpdateDiv, gojq.OpUpdateMod, gojq.OpUpdateAlt:
		// L op= R  ==  R as $x | _modify(L; . op $x), R evaluated on the input
		return in.eval(q.Right, e, v, tr, func(x any, tr1 *Track) error {
			e2 := e.bindVar("$%0", x)
			body := &gojq.Query{Term: &gojq.Term{Type: gojq.TermTypeFunc, Func: &gojq.Func{Name: opFunc[q.Op], Args: []*gojq.Query{
				{Term: &gojq.Term{Type: gojq.TermTypeIdentity}},
				{Term: &gojq.Term{Type: gojq.TermTypeFunc, Func: &gojq.Func{Name: "$%0"}}},
			}}}}
			return in.callNamed("_modify", []*gojq.Query{q.Left, body}, e2, v, tr1, k)
		})
	default:
		name, ok := opFunc[q.Op]
		if !ok {
			return &Unsupported{"operator " + q.Op.String()}
		}
		return in.callNative(name, []*gojq.Query{q.Left, q.Right}, e, v, tr, k)
	}
}

// callNative evaluates the arguments on v, the last one in the outermost
// loop, threading the tracking state through them, then applies the native.
func (in *Interp) callNative(name string, args []*gojq.Query, e *env, v any, tr *Track, k cont) error {
	vals := make([]any, len(args))
	var rec func(i int, tr *Track) error
	rec = func(i int, tr *Track) error {
		if i < 0 {
			cp := append([]any(nil), vals...)
			return in.native(name, v, cp, func(w any) error { return k(w, tr) })
		}
		return in.eval(args[i], e, v, tr, func(x any, tr1 *Track) error {
			vals[i] = x
			return rec(i-1, tr1)
		})
	}
	return rec(len(args)-1, tr)
}

// navigate applies one index/slice step with path bookkeeping.
func (in *Interp) navigate(from any, key any, w any, tr *Track, k cont) error {
	if tr.active() {
		if !in.isIntact(from, tr.val) {
			return invalidPathError(from)
		}
		return k(w, tr.extend(key, w))
	}
	return k(w, tr)
}

func isEmptyContainer(v any) bool {
	switch v := v.(type) {
	case []any:
		return len(v) == 0
	case map[string]any:
		return len(v) == 0
	}
	return false
}

func (in *Interp) isIntact(v, w any) bool {
	if isEmptyContainer(v) && isEmptyContainer(w) {
		in.EmptyIdentity = true
	}
	return intact(v, w)
}

func (in *Interp) evalIndex(term *gojq.Term, x *gojq.Index, e *env, v any, tr *Track, k cont) error {
	// index expressions are sub-expressions (tracking off), evaluated before
	// the term: start outermost, then end, then the term.
	evalTerm := func(next func(tv any, tr1 *Track) error) error {
		return in.evalTerm(term, e, v, tr, next)
	}
	switch {
	case x.Name != "":
		return evalTerm(func(tv any, tr1 *Track) error {
			w, err := in.native1("_index", nil, tv, x.Name)
			if err != nil {
				return err
			}
			return in.navigate(tv, x.Name, w, tr1, k)
		})
	case x.Str != nil:
		return in.evalString(x.Str, nil, e, v, tr.sub(), func(key any, _ *Track) error {
			return evalTerm(func(tv any, tr1 *Track) error {
				w, err := in.native1("_index", nil, tv, key)
				if err != nil {
					return err
				}
				return in.navigate(tv, key, w, tr1, k)
			})
		})
	case !x.IsSlice:
		return in.eval(x.Start, e, v, tr.sub(), func(key any, _ *Track) error {
			return evalTerm(func(tv any, tr1 *Track) error {
				w, err := in.native1("_index", nil, tv, key)
				if err != nil {
					return err
				}
				return in.navigate(tv, key, w, tr1, k)
			})
		})
	default:
		null := &gojq.Query{Term: &gojq.Term{Type: gojq.TermTypeNull}}
		start, end := x.Start, x.End
		if start == nil {
			start = null
		}
		if end == nil {
			end = null
		}
		return in.eval(start, e, v, tr.sub(), func(s any, _ *Track) error {
			return in.eval(end, e, v, tr.sub(), func(en any, _ *Track) error {
				return evalTerm(func(tv any, tr1 *Track) error {
					w, err := in.native1("_slice", nil, tv, en, s)
					if err != nil {
						return err
					}
					return in.navigate(tv, map[string]any{"start": s, "end": en}, w, tr1, k)
				})
			})
		})
	}
}

func (in *Interp) iterate(tv any, tr *Track, k cont) error {
	switch c := tv.(type) {
	case []any:
		if tr.active() && !in.isIntact(tv, tr.val) {
			return invalidPathIterError(tv)
		}
		for i, x := range c {
			if err := in.tick(); err != nil {
				return err
			}
			t2 := tr
			if tr.active() {
				t2 = tr.extend(i, x)
			}
			if err := k(x, t2); err != nil {
				return err
			}
		}
		return nil
	case map[string]any:
		if tr.active() && !in.isIntact(tv, tr.val) {
			return invalidPathIterError(tv)
		}
		keys := make([]string, 0, len(c))
		for key := range c {
			keys = append(keys, key)
		}
		sort.Strings(keys)
		for _, key := range keys {
			if err := in.tick(); err != nil {
				return err
			}
			t2 := tr
			if tr.active() {
				t2 = tr.extend(key, c[key])
			}
			if err := k(c[key], t2); err != nil {
				return err
			}
		}
		return nil
	default:
		return iterError(tv)
	}
}

func (in *Interp) evalTerm(t *gojq.Term, e *env, v any, tr *Track, k cont) error {
	if n := len(t.SuffixList); n > 0 {
		s := t.SuffixList[n-1]
		prefix := *t
		prefix.SuffixList = t.SuffixList[:n-1]
		switch {
		case s.Index != nil:
			return in.evalIndex(&prefix, s.Index, e, v, tr, k)
		case s.Iter:
			return in.evalTerm(&prefix, e, v, tr, func(tv any, tr1 *Track) error {
				return in.iterate(tv, tr1, k)
			})
		case s.Optional:
			// `t?` is try around the last index/iterate suffix only, around
			// the whole term when the last suffix is not of that kind.
			if m := len(prefix.SuffixList); m > 0 {
				last := prefix.SuffixList[m-1]
				if last.Index != nil || last.Iter {
					pp := prefix
					pp.SuffixList = prefix.SuffixList[:m-1]
					if last.Iter {
						u := &gojq.Term{Type: gojq.TermTypeIdentity, SuffixList: []*gojq.Suffix{{Iter: true}}}
						return in.evalTerm(&pp, e, v, tr, func(x any, tr1 *Track) error {
							return in.evalTry(&gojq.Query{Term: u}, nil, e, x, tr1, k)
						})
					}
					// jq: the key expressions of `t[k]?` are sub-expressions
					// evaluated on the input of the whole term (not on t's
					// value) and outside the try, start outermost, then end,
					// then t; only the index step itself is optional.
					x := last.Index
					varQ := func(name string) *gojq.Query {
						return &gojq.Query{Term: &gojq.Term{Type: gojq.TermTypeFunc, Func: &gojq.Func{Name: name}}}
					}
					step := func(e2 *env, ix *gojq.Index) error {
						u := &gojq.Term{Type: gojq.TermTypeIndex, Index: ix}
						return in.evalTerm(&pp, e, v, tr, func(tv any, tr1 *Track) error {
							return in.evalTry(&gojq.Query{Term: u}, nil, e2, tv, tr1, k)
						})
					}
					switch {
					case x.Name != "":
						return step(e, x)
					case x.Str != nil:
						return in.evalString(x.Str, nil, e, v, tr.sub(), func(key any, _ *Track) error {
							return step(e.bindVar("$%s", key), &gojq.Index{Start: varQ("$%s")})
						})
					case !x.IsSlice:
						return in.eval(x.Start, e, v, tr.sub(), func(key any, _ *Track) error {
							return step(e.bindVar("$%s", key), &gojq.Index{Start: varQ("$%s")})
						})
					default:
						withStart := func(next func(e2 *env, start *gojq.Query) error) error {
							if x.Start == nil {
								return next(e, nil)
							}
							return in.eval(x.Start, e, v, tr.sub(), func(sv any, _ *Track) error {
								return next(e.bindVar("$%s", sv), varQ("$%s"))
							})
						}
						return withStart(func(e2 *env, start *gojq.Query) error {
							if x.End == nil {
								return step(e2, &gojq.Index{Start: start, IsSlice: true})
							}
							return in.eval(x.End, e, v, tr.sub(), func(ev any, _ *Track) error {
								return step(e2.bindVar("$%e", ev), &gojq.Index{Start: start, End: varQ("$%e"), IsSlice: true})
							})
						})
					}
				}
			}
			return in.evalTry(&gojq.Query{Term: &prefix}, nil, e, v, tr, k)
		default:
			return &Unsupported{"suffix"}
		}
	}
	switch t.Type {
	case gojq.TermTypeIdentity:
		return k(v, tr)
	case gojq.TermTypeRecurse:
		return in.callNamed("recurse", nil, e, v, tr, k)
	case gojq.TermTypeNull:
		return k(nil, tr)
	case gojq.TermTypeTrue:
		return k(true, tr)
	case gojq.TermTypeFalse:
		return k(false, tr)
	case gojq.TermTypeIndex:
		return in.evalIndex(&gojq.Term{Type: gojq.TermTypeIdentity}, t.Index, e, v, tr, k)
	case gojq.TermTypeFunc:
		return in.callNamed(t.Func.Name, t.Func.Args, e, v, tr, k)
	case gojq.TermTypeObject:
		return in.evalObject(t.Object, e, v, tr, k)
	case gojq.TermTypeArray:
		if t.Array.Query == nil {
			return k([]any{}, tr)
		}
		arr := []any{}
		err := in.eval(t.Array.Query, e, v, tr, func(x any, _ *Track) error {
			arr = append(arr, x)
			return nil
		})
		if err != nil {
			return err
		}
		return k(arr, tr)
	case gojq.TermTypeNumber:
		c, err := in.constant(t.Number)
		if err != nil {
			return err
		}
		return k(c, tr)
	case gojq.TermTypeUnary:
		name := "_negate"
		if t.Unary.Op == gojq.OpAdd {
			name = "_plus"
		}
		return in.evalTerm(t.Unary.Term, e, v, tr, func(x any, tr1 *Track) error {
			w, err := in.native1(name, x)
			if err != nil {
				return err
			}
			return k(w, tr1)
		})
	case gojq.TermTypeFormat:
		f := formatFunc(t.Format)
		if t.Str == nil {
			return in.callNamed(f.Name, f.Args, e, v, tr, k)
		}
		return in.evalString(t.Str, f, e, v, tr, k)
	case gojq.TermTypeString:
		return in.evalString(t.Str, nil, e, v, tr, k)
	case gojq.TermTypeIf:
		return in.evalIf(t.If.Cond, t.If.Then, t.If.Elif, t.If.Else, e, v, tr, k)
	case gojq.TermTypeTry:
		return in.evalTry(t.Try.Body, t.Try.Catch, e, v, tr, k)
	case gojq.TermTypeReduce:
		return in.evalReduce(t.Reduce, e, v, tr, k)
	case gojq.TermTypeForeach:
		return in.evalForeach(t.Foreach, e, v, tr, k)
	case gojq.TermTypeLabel:
		in.labels++
		id := in.labels
		e2 := &env{parent: e, name: t.Label.Ident, arity: -2, labelID: id}
		err := in.eval(t.Label.Body, e2, v, tr, k)
		if b, ok := err.(*breakErr); ok && b.id == id {
			return nil
		}
		return err
	case gojq.TermTypeBreak:
		id, ok := e.lookupLabel(t.Break)
		if !ok {
			return &Scope{"label " + t.Break}
		}
		return &breakErr{id, t.Break}
	case gojq.TermTypeQuery:
		return in.eval(t.Query, e, v, tr, k)
	}
	return &Unsupported{fmt.Sprintf("term type %d", t.Type)}
}

func formatFunc(format string) *gojq.Func {
	names := map[string]string{"@text": "tostring", "@json": "tojson", "@html": "_tohtml", "@uri": "_touri", "@urid": "_tourid",
		"@csv": "_tocsv", "@tsv": "_totsv", "@sh": "_tosh", "@base64": "_tobase64", "@base64d": "_tobase64d"}
	if n, ok := names[format]; ok {
		return &gojq.Func{Name: n}
	}
	return &gojq.Func{Name: "format", Args: []*gojq.Query{{Term: &gojq.Term{Type: gojq.TermTypeString, Str: &gojq.String{Str: format[1:]}}}}}
}

// evalString: interpolation is the left-nested `+` chain of the parts, each
// non-literal part piped into tostring or the format.
func (in *Interp) evalString(s *gojq.String, f *gojq.Func, e *env, v any, tr *Track, k cont) error {
	if s.Queries == nil {
		return k(s.Str, tr)
	}
	if f == nil {
		f = &gojq.Func{Name: "tostring"}
	}
	var q *gojq.Query
	for _, part := range s.Queries {
		p := part
		if part.Term == nil || part.Term.Str == nil {
			p = &gojq.Query{Left: part, Op: gojq.OpPipe, Right: &gojq.Query{Term: &gojq.Term{Type: gojq.TermTypeFunc, Func: f}}}
		}
		if q == nil {
			q = p
		} else {
			q = &gojq.Query{Left: q, Op: gojq.OpAdd, Right: p}
		}
	}
	return in.eval(q, e, v, tr, k)
}

func (in *Interp) evalIf(cond, then *gojq.Query, elif []*gojq.IfElif, els *gojq.Query, e *env, v any, tr *Track, k cont) error {
	return in.eval(cond, e, v, tr.sub(), func(c any, _ *Track) error {
		if truthy(c) {
			return in.eval(then, e, v, tr, k)
		}
		if len(elif) > 0 {
			return in.evalIf(elif[0].Cond, elif[0].Then, elif[1:], els, e, v, tr, k)
		}
		if els != nil {
			return in.eval(els, e, v, tr, k)
		}
		return k(v, tr)
	})
}

func (in *Interp) evalTry(body, catch *gojq.Query, e *env, v any, tr *Track, k cont) error {
	err := in.eval(body, e, v, tr, func(x any, tr1 *Track) error {
		if err := k(x, tr1); err != nil {
			if fatal(err) {
				return err
			}
			return &markErr{err}
		}
		return nil
	})
	if err == nil {
		return nil
	}
	if fatal(err) {
		return err
	}
	switch er := err.(type) {
	case *markErr:
		return er.err
	case *breakErr, *gojq.HaltError:
		return err
	}
	if catch == nil {
		return nil
	}
	var ev any
	if ve, ok := err.(gojq.ValueError); ok {
		ev = ve.Value()
	} else {
		ev = err.Error()
	}
	return in.eval(catch, e, ev, tr, k)
}

func patternVars(p *gojq.Pattern, out []string) []string {
	if p.Name != "" {
		return append(out, p.Name)
	}
	for _, q := range p.Array {
		out = patternVars(q, out)
	}
	for _, kv := range p.Object {
		if kv.Key != "" && kv.Key[0] == '$' {
			out = append(out, kv.Key)
		}
		if kv.Val != nil {
			out = patternVars(kv.Val, out)
		}
	}
	return out
}

// destructure binds the variables of p against x; object-pattern keys may be
// generators.  track is the tracking state used for the index steps (bind:
// off; reduce/foreach: only simple variable patterns are supported when
// tracking is on).
func (in *Interp) destructure(p *gojq.Pattern, x any, e *env, benv *env, k func(*env) error) error {
	switch {
	case p.Name != "":
		return k(benv.bindVar(p.Name, x))
	case len(p.Array) > 0:
		if x != nil {
			if _, ok := x.([]any); !ok {
				return expectedArrayError(x)
			}
		}
		var rec func(i int, b *env) error
		rec = func(i int, b *env) error {
			if i == len(p.Array) {
				return k(b)
			}
			w, err := in.native1("_index", nil, x, i)
			if err != nil {
				return err
			}
			return in.destructure(p.Array[i], w, e, b, func(b2 *env) error { return rec(i+1, b2) })
		}
		return rec(0, benv)
	case len(p.Object) > 0:
		var rec func(i int, b *env) error
		rec = func(i int, b *env) error {
			if i == len(p.Object) {
				return k(b)
			}
			kv := p.Object[i]
			withKey := func(key any, name string) error {
				w, err := in.native1("_index", nil, x, key)
				if err != nil {
					return err
				}
				b2 := b
				if name != "" {
					b2 = b2.bindVar(name, w)
				}
				if kv.Val != nil {
					return in.destructure(kv.Val, w, e, b2, func(b3 *env) error { return rec(i+1, b3) })
				}
				return rec(i+1, b2)
			}
			switch {
			case kv.Key != "":
				if kv.Key[0] == '$' {
					return withKey(kv.Key[1:], kv.Key)
				}
				return withKey(kv.Key, "")
			case kv.KeyString != nil:
				if kv.KeyString.Queries == nil {
					return withKey(kv.KeyString.Str, "")
				}
				// key expressions see the variables bound so far and run on
				// the value being destructured
				return in.evalString(kv.KeyString, nil, b, x, nil, func(key any, _ *Track) error { return withKey(key, "") })
			case kv.KeyQuery != nil:
				return in.eval(kv.KeyQuery, b, x, nil, func(key any, _ *Track) error { return withKey(key, "") })
			}
			return &Unsupported{"pattern key"}
		}
		return rec(0, benv)
	}
	return &Unsupported{"pattern"}
}

// evalBind: `S as P1 ?// P2 ... | B`.
func (in *Interp) evalBind(q *gojq.Query, e *env, v any, tr *Track, k cont) error {
	var all []string
	for _, p := range q.Patterns {
		all = patternVars(p, all)
	}
	return in.eval(q.Left, e, v, tr.sub(), func(x any, _ *Track) error {
		n := len(q.Patterns)
		for i, p := range q.Patterns {
			base := e
			if n > 1 {
				for _, name := range all {
					base = base.bindVar(name, nil)
				}
			}
			err := in.destructure(p, x, e, base, func(b *env) error {
				return in.eval(q.Right, b, v, tr, k)
			})
			if err == nil {
				return nil
			}
			if i == n-1 || fatal(err) || isHalt(err) {
				return err
			}
			// any other error abandons this alternative
		}
		return nil
	})
}

func simplePattern(p *gojq.Pattern) bool { return p.Name != "" }

func (in *Interp) evalReduce(r *gojq.Reduce, e *env, v any, tr *Track, k cont) error {
	if tr.active() && !simplePattern(r.Pattern) {
		return &Unsupported{"destructuring reduce inside path()"}
	}
	return in.eval(r.Start, e, v, tr, func(s0 any, tr1 *Track) error {
		state := s0
		err := in.eval(r.Query, e, v, tr1, func(x any, tr2 *Track) error {
			return in.destructure(r.Pattern, x, e, e, func(b *env) error {
				return in.eval(r.Update, b, state, tr2, func(u any, _ *Track) error {
					state = u
					return nil
				})
			})
		})
		if err != nil {
			return err
		}
		return k(state, tr1)
	})
}

func (in *Interp) evalForeach(f *gojq.Foreach, e *env, v any, tr *Track, k cont) error {
	if tr.active() && !simplePattern(f.Pattern) {
		return &Unsupported{"destructuring foreach inside path()"}
	}
	return in.eval(f.Start, e, v, tr, func(s0 any, tr1 *Track) error {
		state := s0
		return in.eval(f.Query, e, v, tr1, func(x any, tr2 *Track) error {
			return in.destructure(f.Pattern, x, e, e, func(b *env) error {
				cur := state
				return in.eval(f.Update, b, cur, tr2, func(u any, tr3 *Track) error {
					state = u
					if f.Extract == nil {
						return k(u, tr3)
					}
					return in.eval(f.Extract, b, u, tr3, k)
				})
			})
		})
	})
}

func (in *Interp) evalObject(o *gojq.Object, e *env, v any, tr *Track, k cont) error {
	if len(o.KeyVals) == 0 {
		return k(map[string]any{}, tr)
	}
	n := len(o.KeyVals)
	keys, vals := make([]any, n), make([]any, n)
	var rec func(i int, tr *Track) error
	rec = func(i int, tr *Track) error {
		if i == n {
			m := make(map[string]any, n)
			for j := n - 1; j >= 0; j-- {
				s, ok := keys[j].(string)
				if !ok {
					return keyError(keys[j])
				}
				if _, dup := m[s]; !dup {
					m[s] = vals[j]
				}
			}
			return k(m, tr)
		}
		kv := o.KeyVals[i]
		withKey := func(key any, tr1 *Track) error {
			keys[i] = key
			if kv.Val != nil {
				return in.eval(kv.Val, e, v, tr1, func(x any, tr2 *Track) error {
					vals[i] = x
					return rec(i+1, tr2)
				})
			}
			return &Unsupported{"object shorthand"}
		}
		switch {
		case kv.Key != "":
			if kv.Key[0] == '$' {
				if kv.Val == nil { // {$x} == {x: $x}
					return in.callNamed(kv.Key, nil, e, v, tr, func(x any, tr1 *Track) error {
						keys[i], vals[i] = kv.Key[1:], x
						return rec(i+1, tr1)
					})
				}
				// {$x: v}: the key is the value of $x
				return in.callNamed(kv.Key, nil, e, v, tr, withKey)
			}
			if kv.Val == nil { // {a} == {a: .a}
				keys[i] = kv.Key
				w, err := in.native1("_index", nil, v, kv.Key)
				if err != nil {
					return err
				}
				return in.navigate(v, kv.Key, w, tr, func(x any, tr1 *Track) error {
					vals[i] = x
					return rec(i+1, tr1)
				})
			}
			return withKey(kv.Key, tr)
		case kv.KeyString != nil:
			if kv.KeyString.Queries == nil {
				if kv.Val == nil {
					keys[i] = kv.KeyString.Str
					w, err := in.native1("_index", nil, v, kv.KeyString.Str)
					if err != nil {
						return err
					}
					return in.navigate(v, kv.KeyString.Str, w, tr, func(x any, tr1 *Track) error {
						vals[i] = x
						return rec(i+1, tr1)
					})
				}
				return withKey(kv.KeyString.Str, tr)
			}
			return in.evalString(kv.KeyString, nil, e, v, tr, func(key any, tr1 *Track) error {
				if kv.Val == nil {
					keys[i] = key
					w, err := in.native1("_index", nil, v, key)
					if err != nil {
						return err
					}
					return in.navigate(v, key, w, tr1, func(x any, tr2 *Track) error {
						vals[i] = x
						return rec(i+1, tr2)
					})
				}
				return withKey(key, tr1)
			})
		case kv.KeyQuery != nil:
			return in.eval(kv.KeyQuery, e, v, tr, withKey)
		}
		return &Unsupported{"object key"}
	}
	return rec(0, tr)
}

var unsupportedNames = map[string]bool{
	"input": true, "inputs": true, "debug": true, "stderr": true, "input_filename": true, "now": true, "localtime": true, "strflocaltime": true,
	"modulemeta": true, "builtins": true, "input_line_number": true, "get_search_list": true, "mktime": false, "date": true, "getpath": false,
}

// callNamed resolves name/arity as the compiler does: user scopes inside-out,
// then the special forms, then jq-defined builtins (evaluated from
// builtin.jq, closed over the builtin scope), then natives.
func (in *Interp) callNamed(name string, args []*gojq.Query, e *env, v any, tr *Track, k cont) error {
	if err := in.tick(); err != nil {
		return err
	}
	argc := len(args)
	if argc == 0 && name[0] == '$' {
		if x, ok := e.lookupVarScoped(name); ok {
			return k(x, tr)
		}
		if name == "$ENV" {
			return k(map[string]any{}, tr)
		}
		if name == "$__loc__" || name == "$__prog_args" {
			return &Unsupported{name}
		}
		return &Scope{name}
	}
	if c := e.lookupFuncScoped(name, argc); c != nil {
		return in.callClosure(c, args, e, v, tr, k)
	}
	if argc == 0 && name == "env" {
		return k(map[string]any{}, tr)
	}
	if unsupportedNames[name] {
		return &Unsupported{name}
	}
	// jq-defined builtins
	for _, fd := range in.defs[name] {
		if len(fd.Args) == argc {
			c := &closure{def: fd}
			c.env = in.root.bindClo(fd.Name, argc, c)
			return in.callClosure(c, args, e, v, tr, k)
		}
	}
	switch {
	case name == "empty" && argc == 0:
		return nil
	case name == "path" && argc == 1:
		start := &Track{val: v}
		return in.eval(args[0], e, v, start, func(x any, t2 *Track) error {
			if !in.isIntact(x, t2.val) {
				return invalidPathError(x)
			}
			return k(t2.keys(), tr)
		})
	case name == "_last" && argc == 1:
		var last any
		found := false
		err := in.eval(args[0], e, v, tr, func(x any, _ *Track) error {
			last, found = x, true
			return nil
		})
		if err != nil {
			return err
		}
		if tr.active() {
			return &Unsupported{"last/1 inside path()"}
		}
		if found {
			return k(last, tr)
		}
		return nil
	case name == "getpath" && argc == 1:
		return in.eval(args[0], e, v, tr.sub(), func(p any, _ *Track) error {
			w, err := in.native1("getpath", v, p)
			if err != nil {
				return err
			}
			if tr.active() {
				if !in.isIntact(v, tr.val) {
					return invalidPathError(v)
				}
				t2 := tr
				ps, _ := p.([]any)
				for _, key := range ps {
					t2 = t2.extend(key, w)
				}
				return k(w, t2)
			}
			return k(w, tr)
		})
	case (name == "_index" && argc == 2) || (name == "_slice" && argc == 3):
		// callable by name with the same shape as the suffix forms
		var x *gojq.Index
		if name == "_index" {
			x = &gojq.Index{Start: args[1]}
		} else {
			x = &gojq.Index{IsSlice: true, Start: args[2], End: args[1]}
		}
		return in.evalIndex(&gojq.Term{Type: gojq.TermTypeQuery, Query: args[0]}, x, e, v, tr, k)
	}
	return in.callNative(name, args, e, v, tr, k)
}

// lookupVarScoped / lookupFuncScoped stop at the builtin barrier: jq-defined
// builtins are closed over the builtin scope and must not see user names.
func (e *env) lookupVarScoped(name string) (any, bool) {
	for x := e; x != nil; x = x.parent {
		if x.builtin {
			return nil, false
		}
		if x.arity == -1 && x.name == name {
			return x.val, true
		}
	}
	return nil, false
}

func (e *env) lookupFuncScoped(name string, arity int) *closure {
	for x := e; x != nil; x = x.parent {
		if x.builtin {
			return nil
		}
		if x.clo != nil && x.name == name && x.arity == arity {
			return x.clo
		}
	}
	return nil
}

func (in *Interp) callClosure(c *closure, args []*gojq.Query, caller *env, v any, tr *Track, k cont) error {
	if c.def == nil {
		// filter argument: runs in its defining environment, in the current
		// tracking mode
		return in.eval(c.body, c.env, v, tr, k)
	}
	fd := c.def
	if len(fd.Args) != len(args) {
		return &Scope{fmt.Sprintf("%s/%d called with %d arguments", fd.Name, len(fd.Args), len(args))}
	}
	b := c.env
	type vp struct {
		name string
		clo  *closure
	}
	var valueParams []vp
	for i, p := range fd.Args {
		ac := &closure{body: args[i], env: caller}
		if p[0] == '$' {
			b = b.bindClo(p[1:], 0, ac)
			valueParams = append(valueParams, vp{p, ac})
		} else {
			b = b.bindClo(p, 0, ac)
		}
	}
	var rec func(i int, b *env) error
	rec = func(i int, b *env) error {
		if i == len(valueParams) {
			return in.eval(fd.Body, b, v, tr, k)
		}
		p := valueParams[i]
		return in.eval(p.clo.body, p.clo.env, v, tr.sub(), func(x any, _ *Track) error {
			return rec(i+1, b.bindVar(p.name, x))
		})
	}
	return rec(0, b)
}
