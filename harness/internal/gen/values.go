// Package gen holds the shared rapid generators: JSON values in every Go
// representation gojq supports, hostile strings, and (in other files) jq
// programs.  Every random choice goes through rapid.
package gen

import (
	"encoding/json"
	"math"
	"math/big"
	"strings"

	"pgregory.net/rapid"
)

// Alphabet pieces for hostile strings: ASCII, quote, backslash, control,
// DEL, 2/3/4-byte runes, combining mark, newline, NUL.
var Pieces = []string{"a", "b", "c", "A", "0", "1", " ", "\"", "\\", "/", "\n", "\t", "\r", "\x00", "\x01", "\x1f", "\x7f",
	"\u00e9", "\u00df", "\u3042", "\u6f22", "\U0001F600", "\U0001D11E", "\u0301", "\u00a0", "\ufeff", "\ufffd", "\u2028", "<", "&", "'", "%", "+", "=", ",", ":", "$", "e", "E", "-", "."}

// Invalid UTF-8 fragments (only for Go-level inputs).
var BadPieces = []string{"\xff", "\x80", "\xc2", "\xe2\x82", "\xf0\x9f\x98", "\xed\xa0\x80", "\xc0\xaf"}

// Str generates strings over Pieces (valid UTF-8).
func Str(maxLen int) *rapid.Generator[string] {
	return rapid.Custom(func(t *rapid.T) string {
		n := rapid.IntRange(0, maxLen).Draw(t, "len")
		var sb strings.Builder
		for i := 0; i < n; i++ {
			sb.WriteString(rapid.SampledFrom(Pieces).Draw(t, "piece"))
		}
		return sb.String()
	})
}

// StrBad generates strings that may contain invalid UTF-8.
func StrBad(maxLen int) *rapid.Generator[string] {
	all := append(append([]string{}, Pieces...), BadPieces...)
	return rapid.Custom(func(t *rapid.T) string {
		n := rapid.IntRange(0, maxLen).Draw(t, "len")
		var sb strings.Builder
		for i := 0; i < n; i++ {
			sb.WriteString(rapid.SampledFrom(all).Draw(t, "piece"))
		}
		return sb.String()
	})
}

// Key generates object keys: short, often colliding, sometimes hostile.
func Key() *rapid.Generator[string] {
	return rapid.OneOf(
		rapid.SampledFrom([]string{"a", "b", "c", "d", "", "a b", "é", "😀", "\"", "\\", "\n", "0", "1", "key", "value", "name", "start", "end", "__loc__", "$x", "a.b"}),
		rapid.SampledFrom([]string{"a", "b", "c"}),
		Str(3),
	)
}

// Opt controls value generation.
type Opt struct {
	// Reps: carry numbers in all Go representations (int, float64, *big.Int,
	// json.Number); otherwise only int and float64 (what a JSON decode into
	// gojq-normalised form gives).
	Reps bool
	// Special: allow NaN and infinities.
	Special bool
	// BadUTF8: allow invalid UTF-8 in strings and keys.
	BadUTF8 bool
	// MaxDepth / MaxWidth bound containers.
	MaxDepth, MaxWidth int
	// SmallInts: draw most integers from -3..5 so that they work as indices.
	SmallInts bool
}

var bigs = []string{"9223372036854775808", "-9223372036854775809", "18446744073709551616", "100000000000000000000", "-100000000000000000000", "123456789012345678901234567890", "1000000000000000000000000000000"}

// Number generates one number.
func Number(o Opt) *rapid.Generator[any] {
	return rapid.Custom(func(t *rapid.T) any {
		k := rapid.IntRange(0, 11).Draw(t, "numkind")
		if !o.Reps && k >= 7 {
			k = k % 7
		}
		switch k {
		case 0, 1, 2:
			if o.SmallInts || k < 2 {
				return rapid.IntRange(-3, 5).Draw(t, "small")
			}
			return rapid.SampledFrom([]int{0, 1, -1, 2, 10, 100, 255, 256, 65536, 1 << 31, -(1 << 31), 1<<53 - 1, 1 << 53, 1<<53 + 1, math.MaxInt64, math.MinInt64, math.MaxInt64 - 1, math.MinInt64 + 1}).Draw(t, "int")
		case 3:
			return rapid.SampledFrom([]float64{0.5, -0.5, 1.5, -1.5, 2.5, 0.1, 1e-7, 1e21, 1e300, -1e300, 3.7, 1.0, 2.0, -1.0, 0.0, math.Copysign(0, -1), 1 << 53, 1e17, 4294967296.0, 0.9999999999999999}).Draw(t, "float")
		case 4:
			if o.Special {
				return rapid.SampledFrom([]float64{math.NaN(), math.Inf(1), math.Inf(-1)}).Draw(t, "special")
			}
			return rapid.IntRange(-3, 5).Draw(t, "small")
		case 5:
			return rapid.Int().Draw(t, "anyint")
		case 6:
			f := rapid.Float64().Draw(t, "anyfloat")
			if !o.Special && (math.IsNaN(f) || math.IsInf(f, 0)) {
				return 0.25
			}
			return f
		case 7:
			b, _ := new(big.Int).SetString(rapid.SampledFrom(bigs).Draw(t, "big"), 10)
			return b
		case 8:
			return big.NewInt(int64(rapid.IntRange(-3, 5).Draw(t, "smallbig")))
		case 9:
			return json.Number(rapid.SampledFrom([]string{"0", "1", "-1", "2", "3", "-0", "10", "9223372036854775807", "9223372036854775808", "100000000000000000000", "-100000000000000000000"}).Draw(t, "intnum"))
		case 10:
			return json.Number(rapid.SampledFrom([]string{"0.5", "1.5", "-1.5", "1.0", "1e2", "1E-2", "0.10", "1e1000", "-1e1000", "1e-400", "2.50", "1.7976931348623157e308", "0.1234567890123456789012345678901234567890", "0e0", "3.0e0"}).Draw(t, "fracnum"))
		default:
			return json.Number(rapid.SampledFrom([]string{"1", "2", "0", "-2"}).Draw(t, "num"))
		}
	})
}

// Scalar generates a non-container value.
func Scalar(o Opt) *rapid.Generator[any] {
	return rapid.Custom(func(t *rapid.T) any {
		switch rapid.IntRange(0, 9).Draw(t, "scalar") {
		case 0:
			return nil
		case 1:
			return rapid.Bool().Draw(t, "bool")
		case 2, 3, 4:
			return Number(o).Draw(t, "number")
		case 5:
			return rapid.SampledFrom([]string{"", "a", "b", "ab", "abc", "é", "😀", "a b", "1", "true", "null", "[1]", "a,b", "aXbXc", "  x  ", "2015-03-05T23:51:47Z"}).Draw(t, "str")
		default:
			if o.BadUTF8 {
				return StrBad(6).Draw(t, "strbad")
			}
			return Str(6).Draw(t, "str")
		}
	})
}

// Value generates an arbitrary value within the bounds of o.
func Value(o Opt) *rapid.Generator[any] {
	if o.MaxDepth == 0 {
		o.MaxDepth = 3
	}
	if o.MaxWidth == 0 {
		o.MaxWidth = 4
	}
	return valueAt(o, o.MaxDepth)
}

func valueAt(o Opt, depth int) *rapid.Generator[any] {
	return rapid.Custom(func(t *rapid.T) any {
		k := rapid.IntRange(0, 9).Draw(t, "kind")
		if depth <= 0 || k < 4 {
			return Scalar(o).Draw(t, "scalar")
		}
		n := rapid.IntRange(0, o.MaxWidth).Draw(t, "width")
		if k < 7 {
			a := make([]any, n)
			for i := range a {
				a[i] = valueAt(o, depth-1).Draw(t, "elem")
			}
			return a
		}
		m := make(map[string]any, n)
		for i := 0; i < n; i++ {
			var key string
			if o.BadUTF8 && rapid.IntRange(0, 9).Draw(t, "badkey") == 0 {
				key = StrBad(3).Draw(t, "key")
			} else {
				key = Key().Draw(t, "key")
			}
			m[key] = valueAt(o, depth-1).Draw(t, "val")
		}
		return m
	})
}

// U60 is the small universe used for exhaustive tuples: every type,
// empty/singleton/nested containers, negative/fractional/huge numbers,
// multi-byte strings.  special adds NaN/inf, bad adds invalid UTF-8.
func U60(special, bad bool) []any {
	big63, _ := new(big.Int).SetString("9223372036854775808", 10)
	big100, _ := new(big.Int).SetString("1000000000000000000000000000000", 10)
	u := []any{
		nil, false, true,
		0, 1, -1, 2, 3, 10, 0.5, -1.5, 2.5, 1e17, 1 << 53, math.MaxInt64, math.MinInt64, big63, new(big.Int).Neg(big100), big100, 1e300, math.Copysign(0, -1), 1e-7,
		"", "a", "b", "ab", "abc", "é", "😀", "a\u0000b", "1", "true", "a,b", " a ", "\"", "\\", "\n",
		[]any{}, []any{0}, []any{1, 2}, []any{[]any{}}, []any{nil}, []any{[]any{1}, []any{2}}, []any{"a", "b"}, []any{1, "a", nil}, []any{[]any{[]any{[]any{1}}}}, []any{map[string]any{"a": 1}}, []any{0, 1, 2, 3, 4},
		map[string]any{}, map[string]any{"a": 1}, map[string]any{"a": map[string]any{"b": 2}}, map[string]any{"": 0}, map[string]any{"a b": []any{1, map[string]any{"c": nil}}},
		map[string]any{"a": 1, "b": 2}, map[string]any{"b": []any{1}, "a": nil}, map[string]any{"key": "k", "value": "v"}, map[string]any{"a": []any{}, "é": "😀"},
	}
	if special {
		u = append(u, math.NaN(), math.Inf(1), math.Inf(-1))
	}
	if bad {
		u = append(u, "\xff", "a\xffb", "\xe2\x82")
	}
	return u
}
