package gen

import (
	"regexp"
	"fmt"
	"sort"
	"strconv"
	"strings"

	"pgregory.net/rapid"
)

// Program generation: scope-aware (variables, functions with filter and
// $value parameters, labels are drawn from what is in scope), size bounded by
// a node budget, text produced with minimal parentheses by precedence.

// precedence levels (higher binds tighter)
const (
	pPipe = iota
	pComma
	pAlt
	pUpdate
	pOr
	pAnd
	pCmp
	pAdd
	pMul
	pUnary
	pPost // postfix term
)

// FuncSig is a function in scope.
type FuncSig struct {
	Name   string
	Params []string // "g" filter parameter, "$a" value parameter
}

// Conf selects the sub-grammar.
type Conf struct {
	Update   bool // allow update operators (=, |=, op=) and del/delpaths/to_entries...
	Halt     bool // allow halt / halt_error
	AltPat   bool // allow `?//` destructuring alternatives
	AltPatFree bool // allow ?// alternatives that bind different variable sets / re-entered sources
	Paths    bool // allow path(p), paths, getpath...
	Builtins bool // allow calls of assorted jq-defined builtins
	Loops    bool // allow potentially long loops (range(n) with bigger n, repeat under limit)
	Env      bool // allow $ENV / env terms (the caller compiles with EnvLoader; the model's environment is empty)
	MaxNodes int
}

// Prog is a generated program.
type Prog struct {
	Src      string
	Features []string
}

type pctx struct {
	conf   Conf
	vars   []string
	funcs  []FuncSig
	labels []string
	feats  map[string]bool
	budget *int
	depth  int
	inPath bool
	// names already used, to generate shadowing on purpose
}

func (c *pctx) feat(f string) { c.feats[f] = true }

func (c *pctx) child() *pctx {
	d := *c
	d.vars = append([]string(nil), c.vars...)
	d.funcs = append([]FuncSig(nil), c.funcs...)
	d.labels = append([]string(nil), c.labels...)
	d.depth++
	return &d
}

func paren(s string, have, need int) string {
	if have < need {
		return "(" + s + ")"
	}
	return s
}

// Program generates one program of the configured sub-grammar.
func Program(conf Conf) *rapid.Generator[Prog] {
	if conf.MaxNodes == 0 {
		conf.MaxNodes = 40
	}
	return rapid.Custom(func(t *rapid.T) Prog {
		budget := rapid.IntRange(6, conf.MaxNodes).Draw(t, "budget")
		if conf.Halt && rapid.IntRange(0, 7).Draw(t, "allowhalt") > 0 {
			conf.Halt = false
		}
		c := &pctx{conf: conf, feats: map[string]bool{}, budget: &budget}
		s, _ := c.expr(t, pPipe)
		fs := make([]string, 0, len(c.feats))
		for f := range c.feats {
			fs = append(fs, f)
		}
		sort.Strings(fs)
		return Prog{Src: s, Features: fs}
	})
}

var varNames = []string{"$x", "$y", "$z", "$a", "$b"}
var funcNames = []string{"f", "g", "h", "f", "k"}
var labelNames = []string{"$l", "$m", "$out"}
var fieldNames = []string{"a", "b", "c", "a", "b"}

func pick[T any](t *rapid.T, label string, xs []T) T { return rapid.SampledFrom(xs).Draw(t, label) }

// atom returns a leaf expression and its precedence.
func (c *pctx) atom(t *rapid.T) (string, int) {
	type alt struct {
		w int
		f func() (string, int)
	}
	alts := []alt{
		{10, func() (string, int) { return ".", pPost }},
		{10, func() (string, int) { return "." + pick(t, "field", fieldNames), pPost }},
		{6, func() (string, int) { return ".[]", pPost }},
		{3, func() (string, int) { return ".[]?", pPost }},
		{4, func() (string, int) { return ".[" + strconv.Itoa(rapid.IntRange(-2, 2).Draw(t, "idx")) + "]", pPost }},
		{2, func() (string, int) {
			return pick(t, "slice", []string{".[1:]", ".[:1]", ".[:-1]", ".[1:2]", ".[-1:]", ".[0:0]"}), pPost
		}},
		{2, func() (string, int) { return ".[\"" + pick(t, "field", fieldNames) + "\"]", pPost }},
		{8, func() (string, int) { return strconv.Itoa(rapid.IntRange(0, 3).Draw(t, "num")), pPost }},
		{2, func() (string, int) { return pick(t, "lit", []string{"null", "true", "false", "0.5", "-1", "10"}), pPost }},
		{5, func() (string, int) { return "\"" + pick(t, "str", []string{"a", "b", "c", "x", "", "ab"}) + "\"", pPost }},
		{2, func() (string, int) { return pick(t, "cont", []string{"[]", "{}", "[1,2]", "{\"a\":1}", "[[0],[1]]", "{\"a\":[1],\"b\":2}"}), pPost }},
		{3, func() (string, int) { return "empty", pPost }},
		{3, func() (string, int) { c.feat("error"); return pick(t, "err", []string{"error", "error(\"x\")", "error(null)", "error({})", "error(.)"}), pPost }},
		{2, func() (string, int) { return pick(t, "fn0", []string{"length", "type", "keys", "not", "tostring", "add", "first", "last", "reverse", "tojson", "values", "arrays", "numbers", "floor", "abs", "to_entries", "ascii_downcase", "explode", "min", "max", "sort", "unique", "flatten", "any", "all"}), pPost }},
	}
	if len(c.vars) > 0 {
		alts = append(alts, alt{12, func() (string, int) { c.feat("var"); return pick(t, "var", c.vars), pPost }})
	}
	if len(c.labels) > 0 {
		alts = append(alts, alt{5, func() (string, int) { c.feat("break"); return "break " + pick(t, "label", c.labels), pPost }})
	}
	for _, f := range c.funcs {
		if len(f.Params) == 0 {
			alts = append(alts, alt{4, func() (string, int) { c.feat("call0"); return f.Name, pPost }})
		}
	}
	if c.conf.Halt {
		alts = append(alts, alt{1, func() (string, int) {
			c.feat("halt")
			return pick(t, "halt", []string{"halt", "halt_error", "halt_error(1)", "(\"bye\"|halt_error(0))"}), pPost
		}})
	}
	total := 0
	for _, a := range alts {
		total += a.w
	}
	r := rapid.IntRange(0, total-1).Draw(t, "atom")
	for _, a := range alts {
		if r < a.w {
			return a.f()
		}
		r -= a.w
	}
	return ".", pPost
}

// sub generates a sub-expression that will be placed where precedence need
// is required.
func (c *pctx) sub(t *rapid.T, need int) string {
	s, p := c.expr(t, need)
	return paren(s, p, need)
}

func (c *pctx) pattern(t *rapid.T, depth int, bound *[]string) string {
	k := rapid.IntRange(0, 9).Draw(t, "patkind")
	if depth >= 2 || k < 5 {
		v := pick(t, "patvar", varNames)
		*bound = append(*bound, v)
		return v
	}
	c.feat("destructure")
	switch {
	case k < 7:
		n := rapid.IntRange(1, 3).Draw(t, "patlen")
		parts := make([]string, n)
		for i := range parts {
			parts[i] = c.pattern(t, depth+1, bound)
		}
		return "[" + strings.Join(parts, ", ") + "]"
	default:
		n := rapid.IntRange(1, 2).Draw(t, "patlen")
		parts := make([]string, n)
		for i := range parts {
			switch rapid.IntRange(0, 5).Draw(t, "objpat") {
			case 0:
				v := pick(t, "patvar", varNames)
				*bound = append(*bound, v)
				parts[i] = v // {$a}
			case 1:
				v := pick(t, "patvar", varNames)
				*bound = append(*bound, v)
				parts[i] = v + ": " + c.pattern(t, depth+1, bound)
			case 2:
				if rapid.IntRange(0, 2).Draw(t, "patinterp") == 0 {
					c.feat("pattern-keyinterp")
					parts[i] = "\"" + pick(t, "lit", []string{"", "a", "b"}) + "\\(" + c.child().sub(t, pPipe) + ")\": " + c.pattern(t, depth+1, bound)
					break
				}
				parts[i] = "\"" + pick(t, "field", fieldNames) + "\": " + c.pattern(t, depth+1, bound)
			case 3:
				c.feat("pattern-keyexpr")
				key := pick(t, "keyexpr", []string{"\"a\"", "\"a\",\"b\"", "\"b\"", "\"c\",\"a\"",
					// definitions and bindings local to the key query (must not be visible in the body)
					"def f: \"a\"; f", "def g: \"b\"; g", "def h: \"a\", \"c\"; h", "\"a\" as $a | $a", "\"b\" as $x | $x", "def k: \"c\"; k", "GEN"})
				if key == "GEN" {
					key = c.child().sub(t, pPipe)
				}
				parts[i] = "(" + key + "): " + c.pattern(t, depth+1, bound)
			default:
				parts[i] = pick(t, "field", fieldNames) + ": " + c.pattern(t, depth+1, bound)
			}
		}
		return "{" + strings.Join(parts, ", ") + "}"
	}
}

func (c *pctx) expr(t *rapid.T, need int) (string, int) {
	*c.budget--
	if *c.budget <= 0 || c.depth > 7 {
		return c.atom(t)
	}
	type alt struct {
		w int
		f func() (string, int)
	}
	bin := func(op string, prec int, lneed, rneed int) func() (string, int) {
		return func() (string, int) {
			l := c.sub(t, lneed)
			r := c.sub(t, rneed)
			sep := " "
			if op == "," {
				return l + ", " + r, prec
			}
			return l + sep + op + sep + r, prec
		}
	}
	atomW := 14
	if *c.budget > 8 {
		atomW = 3
	}
	alts := []alt{
		{atomW, func() (string, int) { return c.atom(t) }},
		{16, bin("|", pPipe, pComma, pPipe)},
		{10, bin(",", pComma, pComma, pAlt)},
		{5, func() (string, int) { c.feat("alt"); return bin("//", pAlt, pUpdate, pAlt)() }},
		{5, func() (string, int) {
			return bin(pick(t, "arith", []string{"+", "-", "+", "*", "/", "%"}), pAdd, pAdd, pMul)()
		}},
		{4, func() (string, int) {
			return bin(pick(t, "cmp", []string{"==", "!=", "<", "<=", ">", ">="}), pCmp, pAdd, pAdd)()
		}},
		{3, func() (string, int) { return bin(pick(t, "bool", []string{"and", "or"}), pOr, pAnd, pCmp)() }},
		{2, func() (string, int) { return "-" + c.sub(t, pPost), pUnary }},
		// suffixes
		{6, func() (string, int) {
			base := c.sub(t, pPost)
			if strings.HasSuffix(base, ".") || base == ".." || (base[0] >= '0' && base[0] <= '9') || base[0] == '-' {
				base = "(" + base + ")"
			}
			suf := pick(t, "suffix", []string{"[]", "[0]", "[1]", "[-1]", ".a", ".b", "[1:]", "[:1]", "?", "[]?", ".a?", "[\"a\"]", "?", "[K]", "[K]?", "[K]?"})
			if strings.Contains(suf, "K") {
				// computed keys: evaluated on the input of the whole term
				c.feat("computed-index")
				key := func() string {
					if rapid.IntRange(0, 2).Draw(t, "keygen") == 0 {
						return c.child().sub(t, pPipe)
					}
					return pick(t, "key", []string{".b", ".c", ".b", ".[1]", ".[2]", "length", "(.b, .c)", "(.[1], .[2])", "\"a\"", "0", "1", "(keys[0])?", "$__loc__.line", "(.b // 0)", "-1", "null"})
				}
				form := pick(t, "keyform", []string{"[%s]", "[%s]", "[%s]", "[%s:]", "[:%s]", "[%s:%s]", ".\"\\(%s)\"", ".\"a\\(%s)\""})
				for strings.Contains(form, "%s") {
					form = strings.Replace(form, "%s", key(), 1)
				}
				suf = strings.Replace(suf, "[K]", form, 1)
			}
			if suf == "?" || strings.HasSuffix(suf, "?") {
				c.feat("optional")
			}
			return base + suf, pPost
		}},
		{5, func() (string, int) { return "[" + c.sub(t, pPipe) + "]", pPost }},
		{4, func() (string, int) { return c.object(t), pPost }},
		{6, func() (string, int) {
			c.feat("if")
			cc := c.child()
			s := "if " + cc.sub(t, pPipe) + " then " + cc.sub(t, pPipe)
			if rapid.IntRange(0, 4).Draw(t, "elif") == 0 {
				s += " elif " + cc.sub(t, pPipe) + " then " + cc.sub(t, pPipe)
			}
			if rapid.IntRange(0, 3).Draw(t, "else") > 0 {
				s += " else " + cc.sub(t, pPipe)
			}
			return s + " end", pPost
		}},
		{7, func() (string, int) {
			c.feat("try")
			cc := c.child()
			s := "try " + cc.sub(t, pPost)
			if rapid.Bool().Draw(t, "catch") {
				c.feat("catch")
				s += " catch " + cc.sub(t, pPost)
			}
			return s, pPost
		}},
		{5, func() (string, int) {
			c.feat("reduce")
			cc := c.child()
			src := cc.sub(t, pPost)
			var bound []string
			pat := cc.pattern(t, 0, &bound)
			init := cc.sub(t, pPipe)
			cc.vars = append(cc.vars, bound...)
			upd := cc.sub(t, pPipe)
			return "reduce " + src + " as " + pat + " (" + init + "; " + upd + ")", pPost
		}},
		{5, func() (string, int) {
			c.feat("foreach")
			cc := c.child()
			src := cc.sub(t, pPost)
			var bound []string
			pat := cc.pattern(t, 0, &bound)
			init := cc.sub(t, pPipe)
			cc.vars = append(cc.vars, bound...)
			upd := cc.sub(t, pPipe)
			s := "foreach " + src + " as " + pat + " (" + init + "; " + upd
			if rapid.Bool().Draw(t, "extract") {
				s += "; " + cc.sub(t, pPipe)
			}
			return s + ")", pPost
		}},
		{6, func() (string, int) {
			c.feat("label")
			cc := c.child()
			l := pick(t, "labelname", labelNames)
			cc.labels = append(cc.labels, l)
			return "label " + l + " | " + cc.sub(t, pPipe), pPipe
		}},
		{9, func() (string, int) { return c.bind(t) }},
		{8, func() (string, int) { return c.funcdef(t) }},
		{4, func() (string, int) { return c.interp(t), pPost }},
	}
	for _, f := range c.funcs {
		if len(f.Params) > 0 {
			alts = append(alts, alt{5, func() (string, int) {
				c.feat("call-args")
				args := make([]string, len(f.Params))
				for i, p := range f.Params {
					args[i] = c.sub(t, pPipe)
					if p[0] != '$' {
						c.feat("closure-arg")
					}
				}
				return f.Name + "(" + strings.Join(args, "; ") + ")", pPost
			}})
		}
	}
	// forwarding a 0-ary callable (typically a filter parameter) with a suffix
	// as an argument of another call
	var nullary []string
	for _, f := range c.funcs {
		if len(f.Params) == 0 {
			nullary = append(nullary, f.Name)
		}
	}
	if len(nullary) > 0 {
		alts = append(alts, alt{6, func() (string, int) {
			c.feat("forwarded-arg")
			fwd := func() string {
				return pick(t, "fwdname", nullary) + pick(t, "fwdsuffix", []string{"", "[]", ".a", "[0]", "?", "[]?", "[1:]", ".a?", "[\"b\"]", ".a[]", "[]?.a?"})
			}
			var withParams []FuncSig
			for _, f := range c.funcs {
				if len(f.Params) > 0 {
					withParams = append(withParams, f)
				}
			}
			if len(withParams) > 0 && rapid.Bool().Draw(t, "userfn") {
				f := withParams[rapid.IntRange(0, len(withParams)-1).Draw(t, "which")]
				args := make([]string, len(f.Params))
				for i := range args {
					if rapid.IntRange(0, 2).Draw(t, "fwd") > 0 {
						args[i] = fwd()
					} else {
						args[i] = c.sub(t, pPipe)
					}
				}
				return f.Name + "(" + strings.Join(args, "; ") + ")", pPost
			}
			return fmt.Sprintf(pick(t, "fwdbuiltin", []string{"map(%s)", "first(%s)", "[limit(2; %s)]", "select(%s)", "isempty(%s)", "[%s]", "path(%s)", "[recurse(%s; . != null)]?", "any(%s; .)", "with_entries(%s)?", "[.[]? | %s]", "last(%s)", "nth(1; %s)", "(%s) |= 1", "del(%s)", "reduce %s as $v (0; . + 1)", "[foreach %s as $v (0; . + 1)]", "try %s catch .", "(%s) // 0", "{a: %s}", "\"\\(%s)\""}), fwd()), pPost
		}})
	}
	if c.conf.Builtins {
		alts = append(alts, alt{8, func() (string, int) { return c.builtin(t), pPost }})
	}
	if c.conf.Paths {
		alts = append(alts, alt{4, func() (string, int) {
			c.feat("path")
			switch rapid.IntRange(0, 4).Draw(t, "pathform") {
			case 0:
				return "path(" + c.PathExpr(t, 3) + ")", pPost
			case 1:
				return "[paths]", pPost
			case 2:
				return "getpath(" + pick(t, "pathlit", []string{"[\"a\"]", "[\"a\",0]", "[0]", "[]", "[\"b\",\"a\"]"}) + ")", pPost
			case 3:
				return "[path(..)]", pPost
			default:
				return "path(" + c.PathExpr(t, 2) + ")", pPost
			}
		}})
	}
	if c.conf.Update {
		alts = append(alts, alt{8, func() (string, int) { return c.update(t) }})
	}
	total := 0
	for _, a := range alts {
		total += a.w
	}
	r := rapid.IntRange(0, total-1).Draw(t, "kind")
	for _, a := range alts {
		if r < a.w {
			return a.f()
		}
		r -= a.w
	}
	return c.atom(t)
}

func (c *pctx) object(t *rapid.T) string {
	c.feat("object")
	n := rapid.IntRange(1, 3).Draw(t, "pairs")
	parts := make([]string, n)
	for i := range parts {
		var key string
		switch rapid.IntRange(0, 7).Draw(t, "keykind") {
		case 0, 1:
			key = pick(t, "field", fieldNames)
		case 2:
			key = "\"" + pick(t, "field", fieldNames) + "\""
		case 3:
			c.feat("object-keygen")
			key = "(" + c.sub(t, pPipe) + ")"
		case 4:
			c.feat("object-keygen")
			key = "(" + pick(t, "keygen", []string{"\"a\",\"b\"", "\"a\"", ".a", "\"b\",\"a\",\"b\"", "1", "null"}) + ")"
		case 5:
			if len(c.vars) > 0 {
				parts[i] = pick(t, "var", c.vars)
				if parts[i] == "$__loc__" {
					parts[i] = "a: 1"
				}
				continue
			}
			key = "a"
		case 6:
			key = "\"k\\(" + c.sub(t, pPipe) + ")\""
		default:
			switch rapid.IntRange(0, 3).Draw(t, "shorthand") {
			case 0:
				parts[i] = "\"" + pick(t, "field", fieldNames) + "\"" // {"a"} shorthand
			case 1:
				c.feat("object-shorthand-interp")
				parts[i] = "\"" + pick(t, "lit", []string{"", "a", "b"}) + "\\(" + c.sub(t, pPipe) + ")\"" // {"a\(f)"}: key computed once, value .[key]
			case 2:
				parts[i] = pick(t, "kwfield", []string{"if", "and", "or", "then", "reduce", "def", "as", "__loc__"}) + ": " + c.sub(t, pPost) // keyword keys
			default:
				parts[i] = pick(t, "field", fieldNames) // {a} shorthand
			}
			continue
		}
		parts[i] = key + ": " + c.sub(t, pPost)
	}
	return "{" + strings.Join(parts, ", ") + "}"
}

func (c *pctx) interp(t *rapid.T) string {
	c.feat("interp")
	n := rapid.IntRange(1, 3).Draw(t, "parts")
	var sb strings.Builder
	if rapid.IntRange(0, 3).Draw(t, "format") == 0 {
		sb.WriteString(pick(t, "fmt", []string{"@json ", "@base64 ", "@text ", "@html ", "@uri ", "@sh ", "@csv ", "@tsv "}))
	}
	sb.WriteByte('"')
	for i := 0; i < n; i++ {
		sb.WriteString(pick(t, "lit", []string{"", "a", "-", " "}))
		sb.WriteString("\\(" + c.sub(t, pPipe) + ")")
	}
	sb.WriteString(pick(t, "lit", []string{"", "z"}))
	sb.WriteByte('"')
	return sb.String()
}

func (c *pctx) bind(t *rapid.T) (string, int) {
	c.feat("bind")
	cc := c.child()
	src := cc.sub(t, pPost)
	var bound []string
	pat := cc.pattern(t, 0, &bound)
	s := src + " as " + pat
	if c.conf.AltPat && rapid.IntRange(0, 3).Draw(t, "altpat") == 0 {
		c.feat("?//")
		n := rapid.IntRange(1, 2).Draw(t, "nalt")
		for i := 0; i < n; i++ {
			var b2 []string
			var p2 string
			if c.conf.AltPatFree {
				p2 = cc.pattern(t, 0, &b2)
			} else {
				// alternatives binding exactly the same variable set, in
				// another shape
				p2 = samVarsPattern(t, bound)
				b2 = bound
			}
			s += " ?// " + p2
			bound = append(bound, b2...)
		}
	}
	cc.vars = append(cc.vars, bound...)
	return s + " | " + cc.sub(t, pPipe), pPipe
}

// samVarsPattern builds a pattern binding exactly the variables in vars.
func samVarsPattern(t *rapid.T, vars []string) string {
	seen := map[string]bool{}
	var vs []string
	for _, v := range vars {
		if !seen[v] {
			seen[v] = true
			vs = append(vs, v)
		}
	}
	if len(vs) == 1 && rapid.Bool().Draw(t, "plain") {
		return vs[0]
	}
	switch rapid.IntRange(0, 2).Draw(t, "shape") {
	case 0:
		return "[" + strings.Join(vs, ", ") + "]"
	case 1:
		parts := make([]string, len(vs))
		for i, v := range vs {
			parts[i] = pick(t, "field", fieldNames) + ": " + v
		}
		return "{" + strings.Join(parts, ", ") + "}"
	default:
		return "[[" + strings.Join(vs, ", ") + "]]"
	}
}

func (c *pctx) funcdef(t *rapid.T) (string, int) {
	c.feat("def")
	name := pick(t, "fname", funcNames)
	kind := rapid.IntRange(0, 7).Draw(t, "defkind")
	var params []string
	switch kind {
	case 0, 1:
	case 2:
		params = []string{"g"}
	case 3:
		params = []string{"$a"}
	case 4:
		params = []string{"g", "$a"}
	case 5:
		params = []string{"$a", "$b"}
	case 6:
		params = []string{pick(t, "pname", []string{"f", "g", "h"}), pick(t, "pname2", []string{"k", "$x", "$a"})}
	default:
		params = []string{"$n"}
	}
	sig := FuncSig{Name: name, Params: params}
	body := c.child()
	for _, p := range params {
		if p[0] == '$' {
			body.vars = append(body.vars, p)
			body.funcs = append(body.funcs, FuncSig{Name: p[1:]})
			c.feat("value-param")
		} else {
			body.funcs = append(body.funcs, FuncSig{Name: p})
			c.feat("closure-param")
		}
	}
	var bodySrc string
	if kind == 7 {
		// counted recursion: terminates by construction
		c.feat("recursion")
		body.funcs = append(body.funcs, sig)
		step := body.sub(t, pAlt)
		base := body.sub(t, pPipe)
		bodySrc = "if $n > 0 then " + step + ", " + name + "($n - 1) else " + base + " end"
		if rapid.Bool().Draw(t, "tailpipe") {
			bodySrc = "if $n > 0 then " + step + " | " + name + "($n - 1) else " + base + " end"
		}
	} else {
		if rapid.IntRange(0, 3).Draw(t, "selfvisible") == 0 {
			c.feat("recursion")
			body.funcs = append(body.funcs, sig) // free-form recursion (bounded by the budgets)
		}
		bodySrc = body.sub(t, pPipe)
	}
	rest := c.child()
	rest.funcs = append(rest.funcs, sig)
	var restSrc string
	if kind == 7 {
		restSrc = name + "(" + strconv.Itoa(rapid.IntRange(0, 3).Draw(t, "count")) + ")"
		if rapid.Bool().Draw(t, "more") {
			restSrc = rest.sub(t, pPipe)
		}
	} else {
		restSrc = rest.sub(t, pPipe)
	}
	head := "def " + name
	if len(params) > 0 {
		head += "(" + strings.Join(params, "; ") + ")"
	}
	return head + ": " + bodySrc + "; " + restSrc, pPipe
}

func (c *pctx) builtin(t *rapid.T) string {
	c.feat("builtin")
	switch rapid.IntRange(0, 25).Draw(t, "builtin") {
	case 24:
		c.feat("tail-template")
		return pick(t, "tailtemplate", rwTail)
	case 25:
		// the same small programs at sizes that make the interpreter's stacks,
		// fork list and variable table grow several times
		c.feat("scale")
		n := pick(t, "scalen", []string{"3", "17", "33", "65", "129", "257", "600", "1025"})
		return strings.ReplaceAll(pick(t, "scaletemplate", []string{
			"[range(N)] | map(. + 1) | add", "reduce range(N) as $i (0; . + $i)", "[limit(N; repeat(1))] | length", "def f: if . < N then . + 1 | f else . end; 0 | f", "[range(N)] | sort | (length, .[0], .[-1])",
			"[range(N) | tostring] | join(\",\") | length", "[range(N)] as $a | [$a[] | select(. % 7 == 0)] | length", "last(range(N))", "[foreach range(N) as $i (0; . + $i)] | (length, .[-1])",
			"def f: if . == 0 then 0 else (. - 1 | f) + 1 end; N | f", "def f: if . == 0 then [] else [. - 1 | f] end; N | f | tojson | length", "[range(N)] | reverse | .[0]", "[range(N) | [., .]] | map(add) | add",
			"first(range(N) | select(. == N - 1))", "[range(N)] | to_entries | map(.key + .value) | add", "reduce range(N) as $i ([]; . + [$i]) | length", "reduce range(N) as $i ({}; .[\"k\\($i)\"] = $i) | length",
			"[range(N)] | [.[] as $x | $x, -$x] | length", "[range(N)] | [paths] | length", "[range(N)] | del(.[range(0; N; 2)]) | length", "[range(N)] | (.[] |= . + 1) | add", "[range(N)] | [.[] | select(. > N - 3)]",
			"label $out | range(N) | if . == N - 1 then ., break $out else empty end", "[range(N) | try (if . % 2 == 0 then error else . end) catch -1] | add", "[range(N)] | any(. == N - 1), all(. < N)",
			"[recurse(if . < N then . + 1 else empty end)] | length", "[range(N)] | [limit(3; .[])], [first(.[]), last(.[])]", "[range(N) as $i | range($i; $i + 2)] | length", "until(. >= N; . + 1)",
			"[while(. < N; . + 1)] | length", "[range(N)] | map(tojson) | map(fromjson) | add", "[range(N)] | tostream | select(length == 1)", "[range(N)] | [.[:N / 2 | floor], .[N / 2 | floor:]] | map(length)",
			"[range(N)] | . as [$a, $b] | [$a, $b]", "def f(g): [g] | length; f(range(N))", "def f($a; $b): $a + $b; [range(N) | f(.; 1)] | add", "[range(N)] | group_by(. % 5) | map(length)", "[range(N)] | unique | length",
			"[range(N)] | (min, max, add / length)", "[range(N) | {a: ., b: -.}] | (map(.a) | add), (sort_by(.b) | .[0].a)"}), "N", n)
	case 21, 22, 23:
		// lexical scope: a definition or binding made inside a sub-expression
		// must not be visible after it
		c.feat("scope-probe")
		pos := pick(t, "scopepos", []string{". as {(H): $y} | U", ". as [$y] ?// {(H): $y} | U", "reduce . as {(H): $y} (0; U)", "[foreach . as {(H): $y} (0; U)]", "{(H): 1} | U", ".[H]? | U", "\"\\(H)\" | U",
			"if H then U else U end", "[H] | U", "(H) | U", "(H) as $y | U", "try (H) catch . | U", "limit(1; H) | U", "first(H) | U", "(H), U", "(H) // U", "reduce (H) as $y (0; U)", "[foreach (H) as $y (0; U; U)]",
			"label $l | (H) | U", ".a[H:]? , U", "[path(H)?], U", "{a: (H)} | U", "{(H): (H)} | U", "def q(z): z; q(H) | U", "[.[]? | H] | U", "(H)? | U", "(H) as [$y] ?// $y | U", "if . then H else U end", "if . then H elif . then H else U end",
			"if (. | not) then 1 elif H then U else U end", "try error catch (H) | U", "[(H), U]", "{a: U, b: (H), c: U}", "(H) as {(H): $y} | U", "[.[]? as {(H): $y} | U], U", "(. as {a: $y, (H): $z} | U), U", "H | U", "(H | U), U",
			"def r: H; r, U", "def r(z): z | U; r(H)", "[range(2) | H | U], U", "@base64 \"\\(H)\" | U", "(H | ascii_downcase), U", "[H, U][1]", "(try (H | error) catch U), U", "isempty(H), U", "[limit(2; H, U)]", "(H) and U", "U + (H)", "(H) < U",
			// the keys of an optional index are bound before the term: not visible in the term
			"{a: U}[H]?", "{a: U}.a[H:]?", "[{a: U}[H]?, U]", "{a: U, b: 1}[H]?.x?, U", "{a: U}[(H), \"b\"]?"})
		var pre, h, u string
		if rapid.Bool().Draw(t, "scopevar") {
			v := pick(t, "scopename", []string{"$x", "$a"})
			pre, h, u = "\"outer\" as "+v+" | ", "\"a\" as "+v+" | "+v, v
		} else {
			f := pick(t, "scopename", []string{"f", "g"})
			pre, h, u = "def "+f+": \"outer\"; ", "def "+f+": \"a\"; "+f, f
		}
		return pre + strings.ReplaceAll(strings.ReplaceAll(pos, "H", h), "U", u)
	case 18, 19, 20:
		// one container with spare capacity (collected, sliced, grown) is
		// extended or updated twice and both results are kept
		c.feat("fanout")
		src := pick(t, "fansrc", []string{"[.[]?]", "[range(3)]", "[.[]?, .[]?]", "[1,2,3][:2]", "([.[]?] + [0])", "[limit(5; repeat(1))]", "([.[]?] | .[1:])", "[range(6)][:3]", "[range(5)]", "(.[:2]? // [1,2,3])",
			"({a: 1} + (objects // {}))", "[.[]?][:1]", "[range(9)][2:4]", "([range(3)] | .[3] = 3)", "[\"a\", \"b\", \"c\"]", "([.[]?] | map(.))", "[range(3)] | reverse"})
		op := pick(t, "fanop", []string{". + [%s]", ". + [%s]", ".[length] = %s", "setpath([length]; %s)", ". + [%s] | .[0] = %s", ". + [%s, %s]", ".[length:] = [%s]", ".[3] = %s", ". + [%s] | . + [%s]", "[.[], %s]", ".[1:] + [%s]", ".[:2] + [%s]", ". - [1] + [%s]", "(.[0] = %s) + [%s]", "del(.[0]) + [%s]", "{a: .} | .a += [%s] | .a"})
		a, b := pick(t, "fana", []string{"10", "\"x\"", "[7]", "null", ".[0]"}), pick(t, "fanb", []string{"20", "\"y\"", "[8]", "false", ".[1]"})
		opa, opb := op, op
		for strings.Contains(opa, "%s") {
			opa, opb = strings.Replace(opa, "%s", a, 1), strings.Replace(opb, "%s", b, 1)
		}
		switch rapid.IntRange(0, 5).Draw(t, "fanform") {
		case 0:
			return "(" + src + ") as $x | [($x | " + opa + "), ($x | " + opb + ")]"
		case 1:
			return "(" + src + ") | (" + opa + "), (" + opb + ")"
		case 2:
			return "(" + src + ") | [(" + opa + "), (" + opb + "), .]"
		case 3:
			return "(" + src + ") as $x | ($x | " + opa + ") as $y | ($x | " + opb + ") as $z | [$y, $z, $x]"
		case 4:
			return "[(" + src + ") | (" + opa + ", " + opb + ")]"
		default:
			return "(" + src + ") | (" + opa + ") as $y | [(" + opb + "), $y]"
		}
	case 0:
		return "first(" + c.sub(t, pPipe) + ")"
	case 1:
		return "limit(" + strconv.Itoa(rapid.IntRange(0, 3).Draw(t, "n")) + "; " + c.sub(t, pPipe) + ")"
	case 2:
		return "select(" + c.sub(t, pPipe) + ")"
	case 3:
		return "map(" + c.sub(t, pPipe) + ")"
	case 4:
		return "range(" + strconv.Itoa(rapid.IntRange(0, 4).Draw(t, "n")) + ")"
	case 5:
		return "isempty(" + c.sub(t, pPipe) + ")"
	case 6:
		return "[limit(" + strconv.Itoa(rapid.IntRange(1, 4).Draw(t, "n")) + "; repeat(" + c.sub(t, pPipe) + "))]"
	case 7:
		return "last(" + c.sub(t, pPipe) + ")"
	case 8:
		return "any(" + c.sub(t, pPipe) + "; " + c.sub(t, pPipe) + ")"
	case 9:
		return "all(" + c.sub(t, pPipe) + "; " + c.sub(t, pPipe) + ")"
	case 10:
		return "[recurse(" + c.sub(t, pPipe) + "; " + pick(t, "cond", []string{"length > 1", ". != null", "type == \"array\"", ". < 3"}) + ")]"
	case 11:
		return "[.[]?] | " + pick(t, "arrfn", []string{"sort_by(.a?)", "group_by(type)", "unique_by(length?)", "min_by(.a?)", "max_by(.b?)", "map(type)", "add", "any", "all"})
	case 12:
		return "until(" + pick(t, "cond", []string{". > 3", "type != \"number\"", "length == 0"}) + "; " + pick(t, "step", []string{". + 1", ".[1:]", "null"}) + ")"
	case 13:
		return "[while(" + pick(t, "cond", []string{". < 3", "length > 0", "type == \"array\" and length > 0"}) + "; " + pick(t, "step", []string{". + 1", ".[1:]", "\"x\""}) + ")]"
	case 14:
		return "with_entries(" + c.sub(t, pPipe) + ")"
	case 15:
		return "nth(" + strconv.Itoa(rapid.IntRange(0, 2).Draw(t, "n")) + "; " + c.sub(t, pPipe) + ")"
	case 16:
		return "[splits(\"a\")]?"
	default:
		return "walk(" + c.sub(t, pPipe) + ")"
	}
}

// PathExpr generates an expression of the path-safe grammar of C02.
func (c *pctx) PathExpr(t *rapid.T, depth int) string {
	if depth <= 0 {
		return pick(t, "pathatom", []string{".", ".a", ".b", ".[0]", ".[1]", ".[]", ".[-1]", ".a[0]", ".[1:]", ".[:1]", ".a.b", ".[]?", "..", ".c", ".[\"a\"]", ".[0:2]", ".a[]",
			".a[.b]?", ".a[.b]", ".a[.c:]?", ".a[(.b, .c)]?", ".[0][.[1]]?", ".a.\"\\(.b)\"?", ".a[.b]?[.c]?", ".a[:.b]?"})
	}
	switch rapid.IntRange(0, 19).Draw(t, "pathkind") {
	case 18, 19:
		// destructuring binds around navigation (the patterns index their
		// source with path tracking off)
		src := pick(t, "bindsrc", []string{".", ".", ".a", ".[0]", ".[]?", "(.a, .b)", ".c"})
		pat := pick(t, "bindpat", []string{"[$a]", "[$a, $b]", "{$a}", "{a: $a}", "{$a, $b}", "[[$a]]", "{a: [$a]}", "{(\"a\",\"b\"): $a}", "$a", "[$a] ?// $a", "{$a} ?// [$a]"})
		body := pick(t, "bindbody", []string{".[1]?", ".a?", ".[0]?", c.PathExpr(t, depth-1), "$a.x?", "$a[0]?", ".[$a]?", "getpath([$a])?", "(.a?, .[0]?)", ".[]?", "$a | .[0]?", "select($a != null) | .a?", ".b?"})
		return "(" + src + " as " + pat + " | " + body + ")"
	case 0, 1, 2:
		return c.PathExpr(t, 0)
	case 3, 4:
		return c.PathExpr(t, depth-1) + " | " + c.PathExpr(t, depth-1)
	case 5, 6:
		return "(" + c.PathExpr(t, depth-1) + ", " + c.PathExpr(t, depth-1) + ")"
	case 7:
		return "select(" + pick(t, "cond", []string{". != null", "type == \"number\"", "type == \"array\"", "length? > 1", ". == 1", "true", "false", ".a?", "has(\"a\")?"}) + ")"
	case 8:
		return "if " + pick(t, "cond", []string{"type == \"object\"", "type == \"array\"", ". == null", "length? > 1", "true"}) + " then " + c.PathExpr(t, depth-1) + " else " + c.PathExpr(t, depth-1) + " end"
	case 9:
		return "(" + c.PathExpr(t, depth-1) + " // " + c.PathExpr(t, depth-1) + ")"
	case 10:
		return "first(" + c.PathExpr(t, depth-1) + ")"
	case 11:
		return "limit(" + strconv.Itoa(rapid.IntRange(0, 3).Draw(t, "n")) + "; " + c.PathExpr(t, depth-1) + ")"
	case 12:
		return "getpath(" + pick(t, "pathlit", []string{"[\"a\"]", "[\"a\",0]", "[0]", "[]", "[\"b\",\"a\"]", "[1,\"a\"]", "[\"a\",\"b\",\"c\"]"}) + ")"
	case 13:
		return pick(t, "pe", []string{"empty", "error", "error(\"p\")"})
	case 14:
		return "(" + c.PathExpr(t, depth-1) + ")?"
	case 15:
		return "recurse(" + pick(t, "rf", []string{".[]?", ".a?", ".[0]?", ".[1:]? | select(length > 0)"}) + ")"
	case 16:
		return "((" + pick(t, "src", []string{"0", "1", "\"a\"", "0,1", "\"a\",\"b\"", "-1", "length?"}) + ") as $i | .[$i]?)"
	default:
		return ".[" + pick(t, "idxexpr", []string{"0", "1", "-1", "\"a\"", "\"b\"", "0,1", "\"a\",\"b\"", "1:", ":1", "1:2", "-1:", "null:1", "0.5", "1.5:"}) + "]"
	}
}

func (c *pctx) update(t *rapid.T) (string, int) {
	c.feat("update")
	lhs := c.PathExpr(t, rapid.IntRange(0, 2).Draw(t, "lhsdepth"))
	if strings.Contains(lhs, " | ") || strings.Contains(lhs, " as ") {
		lhs = "(" + lhs + ")"
	}
	switch rapid.IntRange(0, 7).Draw(t, "updkind") {
	case 0, 1:
		return lhs + " = " + c.sub(t, pOr), pUpdate
	case 2, 3, 4:
		return lhs + " |= " + c.sub(t, pOr), pUpdate
	case 5:
		return lhs + " " + pick(t, "updop", []string{"+=", "-=", "*=", "/=", "%=", "//="}) + " " + c.sub(t, pOr), pUpdate
	case 6:
		return "del(" + lhs + ")", pPost
	default:
		return pick(t, "updfn", []string{"to_entries", "map_values(" + c.sub(t, pPipe) + ")", "[paths]", "pick(" + lhs + ")", "[tostream]", "delpaths([" + pick(t, "pathlit", []string{"[\"a\"]", "[0]", "[\"a\",0]", "[]"}) + "])", "with_entries(.)"}), pPost
	}
}

// Describe formats features as one class key.
func Describe(fs []string) string { return strings.Join(fs, "+") }

var _ = fmt.Sprint

// ---------------------------------------------------------------------------
// Rewrite-biased programs (C04): shapes that sit on the preconditions of the
// compiler's optimizations.

var rwLiterals = []string{"[1,2,3]", "[1,[2],{\"a\":3}]", "[1,.,3]", "[1,(2,3)]", "[1|2]", "[]", "[[]]", "[-1,-1.5]", "[\"a\",\"b\"]", "[null,true,false]", "[1,2|3]", "[1,2][0]", "[.[]?]",
	"[1,-1,+1]", "[1,2,3][1:]", "[[1,2],[3]]", "[{}]", "[1,\"a\",null,[],{}]", "[-1[0]?]", "[1,2,3,4,5,6,7,8]", "[1,empty,2]", "[1,error?,2]", "[(1,2),(3,4)]", "[1,2] | .[0]", "[.,1]", "[1,.a?]",
	"{\"a\":1,\"b\":[2]}", "{a:1,a:2}", "{a:1,b:.}", "{(1|\"a\"):2}", "{\"a\":{\"b\":{}}}", "{a:-1}", "{\"a\\(\"b\")\":1}", "{a:(1,2)}", "{a:1}|.a", "{\"a\":1}[\"a\"]", "{}", "{a:{}}", "{a:[]}", "{a:[1,{b:2}]}",
	"{\"a\":1,\"a\":2,\"b\":3}", "{a:1,\"a\":2}", "{(\"a\",\"b\"):1}", "{a:1,b:2,c:3,d:4}", "{a:null,b:true,c:false}", "{\"\":1}", "{a:1}.a", "{a:{b:1}}.a.b", "{a:-1,b:-1.5}", "{a:.}", "{a:1,b:empty}", "{@base64 \"x\":1}?",
	"-1", "-1[0]?", "-1.5", "-(1)", "-1 | -.", "+1", "-0", "(-\"a\")?", "(-.a)?", "- 1", "-1e1", "-100000000000000000000", "-(-1)", "1 - -1", "[.[]? | -.]?", "-1 as $x | -$x", "(+.)?", "+.a?",
	".a", ".\"a\"", ".[\"a\"]", ".[0]", ".[-1]", ".[1:2]", ".[:2]", ".[1:]", ".[\"a\"[0:1]]?", ".[0,1]?", ".[(\"a\",\"b\")]?", ".[1:2][0]?", ".[.a]?", ".a.b?", ".a[0]?", ".[0].a?", ".a?.b?", ".[1.5]?", ".[null:1]?", ".[:null]?", ".[-2:]",
	".[\"a\"]?[\"b\"]?", ".a[1:]?", ".[1:][1:]?", ".a as $x | .b?", ".[\"a\",\"b\"]?", ".[1e0]?", ".[-1:][0]?", ".[\"a\" + \"b\"]?", ".[(1|.)]?",
}

var rwArgs = []string{".", "1", "\"a\"", ".a", "-1", "[1]", "{}", "(label $l | .)", "(. as $y | $y)", "empty", "error", ".[]?", "(1,2)", "length", "null", "true", "(label $l | 1)", "(1 as $q | $q)", ".[0]?", "(.a?, .b?)", "\"a\\(.)\"?", "(try error catch .)", "(reduce .[]? as $i (0; . + 1))", "(if . then 1 else 2 end)", "first(1,2)", "[.]", "(label $l | ., break $l)", "$__loc__.line", "(. // 1)", "-(1)", "-.a?", "(.a?)"}

// EnvLoader is the environment the programs of Conf.Env are written for.
func EnvLoader() []string { return []string{"VERIF_A=a", "VERIF_B=", "VERIF_N=1", "VERIF_J=[1]"} }

// terms whose value is known at compile time but which are navigation steps
// all the same (usable as literals and as left-hand sides)
var rwEnvTerms = []string{"$ENV.VERIF_A", "env.VERIF_A", "$ENV[\"VERIF_A\"]", "env[\"VERIF_A\"]", "$ENV.UNSET", "env.UNSET", "$ENV.VERIF_B", "$ENV.VERIF_N", "env.VERIF_J", "$ENV.VERIF_A[0:1]", "$ENV.\"VERIF_A\"",
	"($ENV).VERIF_A", "($ENV | .VERIF_A)", "(env | .UNSET)", "$ENV.VERIF_A.x", "$ENV?.VERIF_A", "$ENV.VERIF_A?", "$ENV[\"VERIF\" + \"_A\"]", "$ENV[(\"VERIF_A\", \"UNSET\")]", "$ENV", "env", "$ENV | length", "[$ENV.VERIF_A, env.VERIF_N]",
	"$__loc__.line", "$__loc__.file", "$__loc__[\"line\"]", "$__loc__.x", "$__loc__", "{a: $ENV.VERIF_A}.a", "[env.VERIF_A][0]", "($ENV.VERIF_J | fromjson)", "$ENV.VERIF_A as $e | $e", ". as $ENV | $ENV.VERIF_A?", "def env: {VERIF_A: 2}; env.VERIF_A",
	"null.a", "null[0]", "null[1:]", "\"abc\"[1:]", "\"abc\"[1:][:1]", "{}.a", "{}.a.b", "[][0]", "[[1]][0][0]", "{a: {b: 1}}.a.b", "{a: 1}[\"a\"]", "[1,2,3][1:][0]", "{\"a\": null}.a", "{a: \"a\"}.a", "[\"a\"][0]", "[null][0]", "1.a?", "\"a\".a?", "[1].a?", "{}[0]?"}

var rwOps = []string{"+", "-", "*", "/", "%", "==", "!=", "<", "<=", ">", ">=", "and", "or", "//"}

var rwPaths = []string{".a", ".a.b", ".[0]", ".a[1:2]", ".[\"a\"]", "(.a)", "(.a).b", ".a[0].b[1:]", ".[-1]", ".a[.b]", ".[1.5]", ".\"a\"", ".a.\"b\"", ".[1:]", ".[:1]", ".a[0]", ".[0][0]", ".a[\"b\"]", ".[\"abc\"[1:]]", ".[-1[0]?]", ".[0:1][0]", ".a[1:][1:]", "(.a[0])", "((.a).b).c", ".[2]", ".a[5]", ".[\"a\"].b[0]", ".a[null:1]", ".[1:null]"}

var rwRHS = []string{"1", ".", ".b", "(1,2)", "empty", "error(\"x\")", "[.]", "null", ".a", "length?", "\"s\"", "{}", "[1,2]", "(.a, 2)",
	// values navigated from constructed containers (not a part of the path when the assignment sits in path())
	"({} | .b)", "{}.b", "[1][0]", "([1] | .[0])", "(\"ab\" | .[1:])", "({a: 1} | .a, .b)", "([.] | .[0])", "(. as $d | $d.a)"}

var rwConds = []string{".", ".a", "true", "false", "null", "(true,false)", "empty", "error?", ".[]?", "(1 as $x | $x)", ". == 1", "length? > 1", ".a?", "(.a?, .b?)", "1", "[]", "(null, 1)", "isempty(.[]?)", "not"}

var rwBranches = []string{"1", "2", "true", "false", "\"a\"", "null", "[]", "{}", ".", ".a?", "empty", "(1,2)", "-1", "[1]", "error(\"e\")"}

var rwTail = []string{
	"def f: if . > 0 then . - 1 | f else . end; f",
	"def f: if length > 3 then . else . + [1] | f end; f",
	"def f: . as $x | if $x > 2 then . else $x + 1 | f end; f",
	"def f: try (if . > 2 then error else . + 1 | f end) catch .; f",
	"def f: if . > 2 then . else (. + 1 | f) + 1 end; f",
	"def f: if . > 2 then . else (. + 1, . + 2) | f end; [f]",
	"def f: if . > 3 then . else . + 1 | f, . end; [f]",
	"def f: def g: if . > 3 then . else . + 1 | f end; g; f",
	"def f(g): if . > 3 then . else g | f(g) end; f(. + 1)",
	"def f: (. + 1 | if . > 5 then . else f end) // .; f",
	"def f: .[1:] | if length > 0 then f else \"done\" end; f",
	"def f: if . < 3 then (. + 1 | f) else empty end; [f]",
	"def f: if . < 3 then ., (. + 1 | f) else . end; [f]",
	"def f: if . < 3 then (. + 1 | f), . else . end; [f]",
	"def f($n): if $n > 0 then f($n - 1) else . end; f(3)",
	"def f: if . < 3 then . + 1 | f | . + 10 else . end; f",
	"def f: if . < 3 then . + 1 | f else . end; f | f",
	"def f: if . < 3 then . + 1 | f else . end; [f, f]",
	"def f: def g: if . < 3 then . + 1 | g else . end; g | if . < 6 then . + 3 | f else . end; f",
	"def f: if . < 4 then (. + 1 | label $l | f) else . end; f",
	"def f: if . < 4 then . + 1 | f? else error end; try f catch \"c\"",
	"def f: if . < 4 then . + 1 | . as [$a] ?// $a | f else . end; f",
	"def f: reduce (1,2) as $i (.; . + $i) | if . < 10 then f else . end; f",
	"def f: if . < 3 then {a: (. + 1 | f)} else . end; f",
	"def f: if . < 3 then [. + 1 | f] else . end; f",
	"def f: if . < 3 then . + 1 | f elif . < 6 then . + 2 | f else . end; f",
	"def f: . + 1 | if . < 3 then f else ., (if . < 5 then f else empty end) end; [f]",
	"def f: if type == \"number\" and . < 3 then (. + 1 | f) // \"alt\" else null end; f",
	"def f: if . < 3 then \"x\\(. + 1 | f)\" else \"\" end; f",
	"def f: if . < 3 then first(. + 1 | f) else . end; f",
	"def f: if . < 3 then . + 1 | f | f else . end; f",
	"def f: def f: 7; if . < 3 then . + 1 | f else . end; f",
	"def f: if . < 3 then (. + 1) as $x | $x | f else . end; f",
	"def g: if . < 2 then . + 1 | g else . end; def f: if . < 4 then . + 1 | g | f else . end; f",
	"[recurse(if . < 3 then . + 1 else empty end)]",
	// self tail calls behind an operator / native call whose operand is a
	// one-instruction generator (nullary generator function, .[], ..)
	"def d: \"0\", \"1\"; def bits: if length >= 3 then . else . + d | bits end; \"\" | [bits]",
	"def d: 1, 2; def f: if . >= 4 then . else . + d | f end; 0 | [f]",
	"def d: 1, 2; def f: if . >= 4 then . else d + . | f end; 0 | [f]",
	"def d: 1, 2; def f: if . >= 6 then . else . * d + 1 | f end; 1 | [limit(6; f)]",
	"def d: \"a\", \"b\"; def f: if length > 2 then . else [.[], d] | f end; [] | [f]",
	"def d: 1, 2; def f: if . > 3 then . else (. + d) as $x | $x | f end; 0 | [f]",
	"def ks: keys[]; def leaf: if type != \"array\" then . else .[ks] | leaf end; [[1,2],[3,[4,5]]] | [leaf]",
	"def leaf: if type != \"array\" then . else .[] | leaf end; [[1,2],[3,[4,5]]] | [leaf]",
	"def d: 3, 4; def climb: if . >= 3 then . else [., d] | max | climb end; 0 | [climb]",
	"def d: 0, 1; def f: if length >= 2 then . else . + [d] | f end; [] | [f]",
	"def d: 1, 2; def f: if . >= 3 then . else . + d | f end; [0 | f] | length",
	"def d: 1, 2; def f: if . >= 3 then . else (. + d | f), -1 end; 0 | [f]",
	"def d: 1, 2; def f: if . >= 3 then . else ., (. + d | f) end; 0 | [f]",
	"def f: if . >= 3 then . else . + (1, 2) | f end; 0 | [f]",
	"def d: 1, 2; def f: if . >= 3 then . else ltrimstr(d) | . + d | f end; 0 | [f]",
	"def d: .[]; def f: if type == \"number\" then . else [d] | add | f end; [[1,2],[3]] | [f]?",
	"def d: 1, 2; def f: if . >= 3 then . else . + d | . + d | f end; 0 | [f]",
	"def d: 1, 2; def g: if . >= 3 then . else . + d | g end; def f: if . >= 5 then . else . + d | g | f end; 0 | [f]",
	"[limit(5; repeat(1))]", "last(range(5))", "[range(0; 10; 3)]", "until(. > 4; . + 1)", "[while(. < 3; . + 1)]",
}

var bareScalar = regexp.MustCompile(`(true|false|null|-?[0-9]+(?:\.[0-9]+)?)`)
var quotedScalar = regexp.MustCompile(`"(true|false|null|-?[0-9]+(?:\.[0-9]+)?|[a-z])"`)

// RewriteBiased generates programs aimed at the optimization preconditions.
func RewriteBiased(conf Conf) *rapid.Generator[Prog] {
	small := conf
	small.MaxNodes = 8
	return rapid.Custom(func(t *rapid.T) Prog {
		budget := rapid.IntRange(2, small.MaxNodes).Draw(t, "budget")
		c := &pctx{conf: small, feats: map[string]bool{}, budget: &budget}
		hole := func() string {
			if rapid.IntRange(0, 3).Draw(t, "holekind") == 0 {
				b := rapid.IntRange(2, 8).Draw(t, "hb")
				c.budget = &b
				return c.sub(t, pPost)
			}
			return pick(t, "arg", rwArgs)
		}
		var core string
		switch rapid.IntRange(0, 9).Draw(t, "rwkind") {
		case 0, 1:
			c.feat("rw/literal")
			if conf.Env && rapid.IntRange(0, 3).Draw(t, "envlit") == 0 {
				c.feat("rw/env-term")
				core = pick(t, "envterm", rwEnvTerms)
			} else if rapid.Bool().Draw(t, "genlit") {
				core = constLiteral(t, 3)
			} else {
				core = pick(t, "lit", rwLiterals)
			}
			if rapid.IntRange(0, 2).Draw(t, "pairlit") == 0 {
				// two constant literals in one program: the same one again, or a
				// look-alike (scalars quoted / unquoted, strings split at blanks)
				c.feat("rw/literal-pair")
				other := core
				switch rapid.IntRange(0, 3).Draw(t, "lookalike") {
				case 0:
					other = bareScalar.ReplaceAllString(core, "\"$1\"")
				case 1:
					other = quotedScalar.ReplaceAllString(core, "$1")
				case 2:
					other = pick(t, "lit2", []string{"[1]", "[\"1\"]", "[true,null]", "[\"true\",null]", "[\"a b\"]", "[\"a\",\"b\"]", "[1,2]", "[\"1 2\"]", "[[1]]", "[\"[1]\"]", "[null]", "[\"<nil>\"]", "[1.5]", "[\"1.5\"]", "{\"a\":[1]}", "{\"a\":[\"1\"]}", "[]", "[[]]", "[\"\"]", "[{}]", "[\"map[]\"]"})
					core = pick(t, "lit1", []string{"[1]", "[\"1\"]", "[true,null]", "[\"a b\"]", "[\"a\",\"b\"]", "[1,2]", "[[1]]", "[null]", "[1.5]", "{\"a\":[1]}", "[]", "[\"\"]", "[{}]"})
				}
				core = strings.NewReplacer("%1", core, "%2", other).Replace(pick(t, "pairform", []string{"(%1), (%2)", "[%1, %2]", "(%1) == (%2)", "{a: %1, b: %2}", "[(%1), (%2), (%1)] | unique | length", "(%2), (%1)", "[(%1) | tojson, ((%2) | tojson)]", "(%1) as $p | (%2) as $q | [$p, $q, $p == $q]", "def f: %1; def g: %2; [f, g, f]"}))
			}
		case 2, 3:
			c.feat("rw/args")
			op := pick(t, "op", rwOps)
			core = "(" + hole() + ") " + op + " (" + hole() + ")"
			if rapid.IntRange(0, 3).Draw(t, "native") == 0 {
				core = pick(t, "nat", []string{"has(%s)?", "ltrimstr(%s)?", "contains(%s)?", "index(%s)?", "join(%s)?", "split(%s)?", "flatten(%s)?", "getpath(%s)?", "setpath([\"a\"]; %s)?", "range(%s)?", "limit(%s; 1,2,3)?", "error(%s)?", "[.[]?] | sort_by(%s)?", "test(%s)?", "splits(%s)?", "ascii_downcase | ltrimstr(%s)?", "tojson | startswith(%s)"})
				core = fmt.Sprintf(core, hole())
			}
		case 4, 5:
			c.feat("rw/const-path")
			upd := func() string {
				if conf.Env && rapid.IntRange(0, 3).Draw(t, "envpath") == 0 {
					c.feat("rw/env-term")
					return pick(t, "envpath", rwEnvTerms) + " " + pick(t, "asg", []string{"=", "=", "|=", "+="}) + " " + pick(t, "rhs", rwRHS)
				}
				return pick(t, "path", rwPaths) + " " + pick(t, "asg", []string{"=", "=", "=", "|=", "+=", "//="}) + " " + pick(t, "rhs", rwRHS)
			}
			core = upd()
			// several updates at one scope depth (unparenthesised pipe), with
			// and without a navigation step in between
			for n := rapid.IntRange(0, 3).Draw(t, "chain"); n > 1; n-- {
				core += pick(t, "link", []string{" | ", " | ", " | .a | ", " | .[0]? | ", " | [.] | "}) + upd()
			}
		case 6, 7:
			c.feat("rw/if")
			switch rapid.IntRange(0, 4).Draw(t, "ifkind") {
			case 0:
				core = "if " + pick(t, "cond", rwConds) + " then " + pick(t, "br", rwBranches) + " else " + pick(t, "br", rwBranches) + " end"
			case 1:
				core = "(" + pick(t, "cond", rwConds) + ") " + pick(t, "bool", []string{"and", "or"}) + " (" + pick(t, "cond", rwConds) + ")"
			case 2:
				core = "if " + pick(t, "cond", rwConds) + " then (if " + pick(t, "cond", rwConds) + " then " + pick(t, "br", rwBranches) + " else " + pick(t, "br", rwBranches) + " end) else (if " + pick(t, "cond", rwConds) + " then " + pick(t, "br", rwBranches) + " else " + pick(t, "br", rwBranches) + " end) end"
			case 3:
				core = "if " + pick(t, "cond", rwConds) + " then " + pick(t, "br", rwBranches) + " elif " + pick(t, "cond", rwConds) + " then " + pick(t, "br", rwBranches) + " else " + pick(t, "br", rwBranches) + " end"
			default:
				core = "((" + pick(t, "cond", rwConds) + ") // (" + pick(t, "cond", rwConds) + ")) // " + pick(t, "br", rwBranches)
			}
		default:
			c.feat("rw/tail")
			core = pick(t, "tail", rwTail)
		}
		// random context around the core
		n := rapid.IntRange(0, 2).Draw(t, "wraps")
		for i := 0; i < n; i++ {
			w := pick(t, "wrap", []string{"[%s]", "(%s) | %a", "%a | (%s)", "((%s)) + (%a)", "(%a) + ((%s))", "(%s), %a", "%a, (%s)", ". as $x | (%s)", "try (%s) catch .", "reduce (%s) as $v (0; . + 1)",
				"first(%s)", "[limit(3; %s)]", "[path(%s)?]", "try path(%s) catch .", "try path(%s) catch .", "{a: (%s)}", "\"i\\(%s)\"", "[(%s) | tojson]", "(%s) as $v | [$v, $v]", "[.[]? | (%s)]", "label $z | (%s)", "(%s)?", "[(%s), (%s)] | length",
				"[foreach (%s) as $v (0; . + 1; [$v, .])]", "(%s) | (%s)", "if (%s) then 1 else 2 end", "((%s) | 3) + 10", "[%a, (%s) | 0] | add?", "isempty(%s)", "1 as $x | ((2, $x) | (%s)) + 10"})
			for strings.Contains(w, "%a") {
				w = strings.Replace(w, "%a", hole(), 1)
			}
			core = strings.ReplaceAll(w, "%s", core)
		}
		fs := make([]string, 0, len(c.feats))
		for f := range c.feats {
			fs = append(fs, f)
		}
		sort.Strings(fs)
		return Prog{Src: core, Features: fs}
	})
}

// PathExprOnly generates expressions of the path-safe grammar of C02.
func PathExprOnly(depth int) *rapid.Generator[string] {
	return rapid.Custom(func(t *rapid.T) string {
		b := 100
		c := &pctx{feats: map[string]bool{}, budget: &b}
		return c.PathExpr(t, rapid.IntRange(0, depth).Draw(t, "pdepth"))
	})
}

// constLiteral generates an array/object literal of constants (with duplicate
// keys, falsy and empty values, signed numbers, every key spelling) and now
// and then one non-constant member.
func constLiteral(t *rapid.T, depth int) string {
	scalar := func() string {
		return pick(t, "cscalar", []string{"null", "false", "true", "0", "1", "-1", "-0", "1.5", "-1.5", "\"\"", "\"a\"", "\"b\"", "[]", "{}", "1e2", "100000000000000000000", "-100000000000000000000"})
	}
	var val func(d int) string
	val = func(d int) string {
		k := rapid.IntRange(0, 9).Draw(t, "ckind")
		if d <= 0 || k < 4 {
			if rapid.IntRange(0, 14).Draw(t, "nonconst") == 0 {
				return pick(t, "nonconst", []string{".", ".a", "(1,2)", "empty", "$__loc__.line", "(1|.)", "(\"a\"|.)", "[.]", "-(1)", "(null)", "1 + 1", "\"x\\(1)\""})
			}
			return scalar()
		}
		n := rapid.IntRange(0, 4).Draw(t, "cwidth")
		if k < 7 {
			parts := make([]string, n)
			for i := range parts {
				parts[i] = val(d - 1)
			}
			return "[" + strings.Join(parts, ",") + "]"
		}
		parts := make([]string, n)
		for i := range parts {
			key := pick(t, "ckey", []string{"a", "a", "b", "\"a\"", "\"b\"", "\"\"", "(\"a\")", "\"a\\(\"\")\"", "c", "@text \"a\"", "$__loc__", "if", "and"})
			if key == "$__loc__" {
				parts[i] = key
				continue
			}
			v := val(d - 1)
			if strings.ContainsAny(v, " +") && !strings.HasPrefix(v, "(") && !strings.HasPrefix(v, "[") && !strings.HasPrefix(v, "{") && !strings.HasPrefix(v, "\"") {
				v = "(" + v + ")"
			}
			parts[i] = key + ":" + v
		}
		return "{" + strings.Join(parts, ",") + "}"
	}
	s := val(depth)
	if !strings.HasPrefix(s, "[") && !strings.HasPrefix(s, "{") {
		s = "[" + s + "]"
	}
	return s
}
