package gen

// MutatingPrograms are programs aimed at in-place updates, structure sharing
// and accumulator reuse (used by the isolation check C05 and, run from many
// goroutines, by C06).
var MutatingPrograms = []string{
	"add", "sort", "sort_by(.a?)", "reverse", "flatten", ".[1:]", ".[:2] + [9]", "to_entries", "walk(.)", "del(.[0])", ".[0] = 9", ". + [1]", ".[1:] |= map(.)", "map_values(.)", "unique", "group_by(.)",
	"transpose", "[.[]]", ".[:1] as $x | $x + [5]", ".a += 1", "delpaths([[0]])", "setpath([0]; 1)", "[limit(2; .[])]", "first(.[])", "tojson", ".. |= .", "[paths]", "getpath([\"a\"]) |= 5", ".a |= . + [7]",
	".a[1:] = [8]", ".c[0] = 1", "del(.a[0], .d)", ".b.a = 2", ".b + {z: 1}", ".b * {a: {q: 1}}", "[.[] | arrays | . + [0]]", ".a + .d", "[.a, .c] | add", ".[0] + .[1]", "map(arrays | .[:1] + [6])",
	"$v", "$v + [1]", "$v | .[0] = 5", "$v | sort", "$v | del(.[0])", "[$v, .]", ". as $x | $v | . + $x", "$v[1:] + [2]", "($v | add) as $s | [$s]", "$v | to_entries", "$v | map_values(. + 1)?", "$v | .[1:] |= [9]",
	"[.[] | .[0]? = 1]", ".[] |= .", "(.a, .c) |= (.[0] = 7)?", "del(.[]?[0]?)", "to_entries | from_entries", "with_entries(.value |= .)", "[.[]?] | sort | .[0] = 1", ".a as [$h] | [$h] + .a", "[.a[], 5]",
	".[2:] + .[:2]", "[.[1:], .[:1]] | add", "[foreach .[] as $x ([]; . + [$x])]", "[foreach .[]? as $x ([]; . + [$x]; .[0] = 0)]", "reduce .[]? as $x ([]; . + [$x]) | .[0] = 1", "[limit(3; repeat(.[:1]))]",
	"[.[]?, .[]?] | unique",
	"[100000000000000000000, 200000000000000000000] | add", "100000000000000000000 as $x | [$x, $x, $x] | add", "[.[]? | numbers] | add", "[.[]?, .[]?] | map(numbers) | add", "[$v[]? | numbers] | add",
	"reduce (.[]? | numbers) as $x (0; . + $x)", "[.[]? | numbers | . + 100000000000000000000] | add", "[.[]? | numbers | -.] | add", "[.[]? | numbers | . * 100000000000000000000] | (add, add)", "[.[]? | numbers] | (min, max, add, sort)",
	"[.[]? | numbers | abs] | add", "([.[]? | numbers] | add) as $s | [$s, $s] | add", "[.[]? | numbers | tostring | tonumber] | add", "[limit(3; .[]? | numbers)] | add", "[.[]? | numbers] | join(\",\")?",
	"[1,2,3] | .[0] = 9", "{\"a\":[1,2]} | .a += [3]", "[[1,2],[3]] | .[0] |= . + [4]", "[3,1,2] | sort", "{\"a\":{\"b\":1}} | del(.a.b)", "[1,2,3] as $c | $c | .[1:] = [7]", "[[1,2],[3]] | add | .[0] = 5",
	"{\"a\":[1,2]} as $c | [$c, ($c | .a[0] = 0), $c]", "[[3,1],[2]] | map(sort)", "[1,2,3] | del(.[0])", "[1,2,3] | to_entries | .[0].value = 9", "{\"a\":{\"b\":1}} | .a.c = 2 | .a", "[[1,2],[3]] | flatten | .[0] = 0",
	"[[1,2]] | .[0] as $x | ($x | .[0] = 9), $x", "{\"a\":[1,2]} | [.a, (.a |= reverse)]", "[1,2,3][1:] | .[0] = 0", "[[1,2,3][1:], [1,2,3][:2]] | add", "min_by(.a?)", "[.[]? | tojson | fromjson]", "tostream", "[tostream] | fromstream(.[])", "path(..)", "[splits(\"a\")]?", "ltrimstr(\"a\")", "ascii_downcase?", "@json", "[.[] | numbers] | add",
	"{a: .a, b: .a} | .a[0] = 1", "[., .] | .[0][0] = 1", "[., .] | .[0] |= del(.[0])", "{x: .} | .x.a = 1", "[.] | flatten(1) | .[0] = 1", "(.a // .) | .[0] = 1", "[.[]?][:2] | .[0] = 1", "(.[:2] | .[0] = 1), .", "(.a |= sort), .a",
	"(.a |= reverse), (.a |= .[1:])", "(del(.a[0])), .a, (.a += [1])", "[(.a, .a) |= . + [1]]", "(.[1:] = [1]), (.[:1] = [2]), .", "[.[]? += 1]?", "(.[0] |= empty), .", "[.. | arrays | .[:1]]", "[.. | arrays] | map(. + [1])",
	// flatten with a small depth (the accumulator must never be one of the operands)
	"flatten(1)", "flatten(2)", "flatten(0)", "[.[0]?, $v] | flatten(1)", "[.a?, .c?] | flatten(1)", "(flatten(1) | length), .[0]?", "[.[]?] | flatten(1)", "[., $v] | flatten(1)", "[.[0]?, [9]] | flatten(1)", "[.[:1][]?, 9] | flatten(1)",
	"[.a?, [8], [9]] | flatten(1)", "[$v, [8]] | flatten(1), $v", "[.[]?, [7]] | (flatten(1), flatten(2)) | length", "[[], ., [1]] | flatten(1)", "[.[0]?, .[0]?] | flatten(1)", "([.[0]?, [5]] | flatten(1)), ([.[0]?, [6]] | flatten(1))",
	// slice paths whose bounds are not Go ints, as constants, variables and parts of the input
	".[0.5:1.5] |= map(.)", ".[0.5:1.5] = [9]", "del(.[0.5:1.5])", "path(.[0.5:1.5]), (.[0.5:1.5] |= .)", "def p: .[0.5:1.5]; path(p), (p |= .)", "def p: .[1.2:]; [path(p)], (p = [1]), [path(p)]", "(.[:1.5] |= .), path(.[:1.5])",
	"{\"start\":0.5,\"end\":1.5} as $s | (.[$s]? |= .), $s", "{\"start\":0.5,\"end\":1.5} as $s | [1,2,3] | (.[$s] |= .), $s", "{\"start\":0.5,\"end\":2.5} as $s | [1,2,3] | delpaths([[$s]]), $s", "{\"start\":1.5,\"end\":null} as $s | [1,2,3] | (.[$s] = [0]), $s",
	"[{\"start\":0.5,\"end\":1.5}] as $p | [1,2,3] | (delpaths([$p]), $p)", "[{\"start\":0.5,\"end\":1.5}] as $p | [1,2,3] | (setpath($p; [9]), getpath($p), $p)", "(.[$v]? |= .), $v", "(try (.[$v] = [1]) catch \"e\"), $v", "(try delpaths([[$v]]) catch \"e\"), $v",
	"(try del(.[$v]) catch \"e\"), $v", "[1,2,3] | (try (.[$v] |= .) catch \"e\"), $v", "[1,2,3] | (try delpaths([[$v]]) catch \"e\")", ". as $p | [1,2,3] | (try delpaths([[$p]]) catch \"e\"), $p", ". as $p | [1,2,3] | (try (.[$p] |= map(. + 1)) catch \"e\"), $p",
	". as $p | [1,2,3] | (try (to_entries | .[$p] = []) catch \"e\")", "[1,2,3,4] | (.[1.5:2.5] |= [9]), (.[1.5:2.5] |= [8])", "[paths(type == \"number\")] as $ps | .[0.5:1.5] |= ., $ps",
	// constructed (possibly empty) arrays navigated in path context: the verdict
	// must not depend on where an empty array happens to live in memory
	"try ([.[]?][]?.a = 1) catch \"invalid\"", "try path([.[]?][]) catch \"invalid\"", "try ([.[]?][0] = 1) catch \"invalid\"", "try path(.[:0] | .[]) catch \"invalid\"", "try path(.a[1:1]?[]?) catch \"invalid\"",
	"[.[]? | try path([.[]?][]) catch \"invalid\"]", "try path(map(.)? | .[]) catch \"invalid\"", "try path((. + [])? | .[]) catch \"invalid\"", "[.. | arrays | try path([.[]][]) catch \"invalid\"]", "[.. | arrays | try path(.[:0][]) catch \"invalid\"]",
	"try path([] | .[]) catch \"invalid\"", "try path(.a? | [.[]?] | .[]) catch \"invalid\"", "[.[]?] as $c | try path($c | .[]) catch \"invalid\"", "try ([.[]?] | .[] |= 1) catch \"invalid\"", "try (del([.[]?][])) catch \"invalid\"",
	"try path(.[0:0]?[0]) catch \"invalid\"", "try path([.[]?][:0][]) catch \"invalid\"", "try path(($v | arrays | .[:0]) | .[]) catch \"invalid\"", "try path($v | [.[]?][]) catch \"invalid\"", "[paths(arrays)] | length",
	// accumulators that start empty and may adopt one of their operands
	"[{}, {\"a\":1}, .] | add", ".[1]?, add?, .[1]?", "[[], .[0]?, [1]] | add", "[{}, .[]?] | add?", "[null, {}, .[]?] | add?", "reduce .[]? as $x ({}; . + $x)?", "[{}, {a:1}, {b:2}] | (.[1], add, .[1])",
	"({} + . + {z:1})?", "([] + . + [1])?", "[{}, .] | add? | .zz? = 1", "[.[]?] | add? | (.zz = 1)?", "[[], .[]?] | add? | (.[0] = 1)?", "({} * .)?", "[{}, $v[2]?, {b:2}] | add?", "[[], $v, [1]] | add?",
	"[{}, {\"a\":1}, .] | add | ., .", "[.[]? | [{}, .] | add?]", "[\"\", (.[]? | strings)] | add", "[{}, (.[]? | objects), (.[]? | objects)] | add",
	// messages and listings derived from (wide) objects: identical on every run
	"try (.b + 1) catch .", "try (.[2] + 1) catch .", "try (.b | implode) catch .", "try (.b[0]) catch .", "try (.a.b | .[0]) catch .", "try (.b - 1) catch .", "try ({} | .[$v]) catch .", "try error catch .", "try (.b | error) catch (. | tostring)",
	"(.b | . + 1)?, (try (.c * 2) catch .)", "try (.[2] | ltrimstr(1) | test(\"a\")) catch .", "[.. | objects | try (. + 1) catch .]", "try (.b | tonumber) catch .", "try ([.b] | implode) catch .", "try (.b | splits(\"a\")) catch .",
	"try (1 - .b) catch .", "try (.b | .[1:]) catch .", "try ([1] | .[.b]) catch .", "[.b, .c] | map(try (. + 1) catch .)", ".b | [keys, to_entries[0], (tojson | length), tostring[:20]]?", "try (.[2] | has(0)) catch .", "try (.b | sort) catch .",
	"(.b + 1)", ".[2] + 1", ".b | implode", ".b - 1",
	// operands that outlive the operation, looked at by set-like and ordering natives (also long ones)
	"[0,7] - .", ". - [0,7]", ". - .", "$v - .", ". - $v", "(.[0]?, ([0,7] - . | length)?, .[0]?)", "[range(40;0;-1)] | .[0], ([0,7] - . | length), .[0]", "[range(40;0;-1)] as $r | ([1] - $r | length), $r[0]", "(. - $v | length)?, $v[0]?, .[0]?",
	"(.a - .c)?, .c[0]?", "[.[]?] - [.[]?] | length", "(index(.[1]?))?, .[0]?", "(indices(.[1]?) | length)?, .", "(inside(.))?, .[0]?", "(contains([.[0]?]))?, .[0]?", "(unique | length)?, .[0]?", "(group_by(.) | length)?, .[0]?", "(sort | .[0])?, .[0]?",
	"(min, max)?, .[0]?", "(bsearch(.[0]?))?, .[0]?", "(any, all)?, .[0]?", "(flatten | length)?, .[0]?", "(join(\",\") | length)?, .[0]?", "(tojson | length), .[0]?", "(map(tostring) | add | length)?, .[0]?", "([limit(3; .[]?)] | length), .[0]?",
	"(to_entries | length)?, .[0]?", "([paths] | length), .[0]?", "(implode? | length), .[0]?", "(@csv | length)?, .[0]?", "(transpose? | length), .[0]?", "([.[]? | numbers] | add), .[0]?", "(reverse | .[0])?, .[0]?", "($v | sort | .[0])?, $v[0]?", "($v | unique | length)?, $v[0]?",
}
