package gen

import "fmt"

// Bounded-exhaustive enumeration of core-grammar programs: every program of
// exactly n nodes over a reduced alphabet.  Contexts track which names are in
// scope so that every enumerated program compiles.

const (
	ctxVar   = 1 << iota // $x bound
	ctxLabel             // $l in scope
	ctxFunc              // f/0 in scope
	ctxParam             // g/0 (filter parameter) in scope
	ctxValP              // $a (value parameter) in scope
)

type enumKey struct {
	n   int
	ctx int
}

// Enumerator memoises the program lists.
type Enumerator struct {
	memo map[enumKey][]string
}

func NewEnumerator() *Enumerator { return &Enumerator{memo: map[enumKey][]string{}} }

func (e *Enumerator) atoms(ctx int) []string {
	a := []string{".", ".a", ".[]", ".[0]", "1", "null", "\"s\"", "empty", "error", "(1,2)"}
	if ctx&ctxVar != 0 {
		a = append(a, "$x")
	}
	if ctx&ctxLabel != 0 {
		a = append(a, "break $l")
	}
	if ctx&ctxFunc != 0 {
		a = append(a, "f")
	}
	if ctx&ctxParam != 0 {
		a = append(a, "g")
	}
	if ctx&ctxValP != 0 {
		a = append(a, "$a")
	}
	return a
}

// Programs returns every program with exactly n nodes in context ctx.
func (e *Enumerator) Programs(n, ctx int) []string {
	if n <= 0 {
		return nil
	}
	k := enumKey{n, ctx}
	if v, ok := e.memo[k]; ok {
		return v
	}
	var out []string
	if n == 1 {
		out = e.atoms(ctx)
		e.memo[k] = out
		return out
	}
	// unary constructors over a sub-program of n-1 nodes
	for _, s := range e.Programs(n-1, ctx) {
		out = append(out, "["+s+"]", "try ("+s+")", "("+s+")?", "first("+s+")", "\"i\\("+s+")\"", "isempty("+s+")", "path("+s+")", "("+s+") | .[]?")
	}
	for _, s := range e.Programs(n-1, ctx|ctxLabel) {
		out = append(out, "label $l | ("+s+")")
	}
	// binary constructors: sizes a + b = n-1
	for a := 1; a <= n-2; a++ {
		b := n - 1 - a
		A := e.Programs(a, ctx)
		for _, x := range A {
			for _, y := range e.Programs(b, ctx) {
				out = append(out, "("+x+") | ("+y+")", "("+x+"), ("+y+")", "("+x+") // ("+y+")", "("+x+") + ("+y+")", "try ("+x+") catch ("+y+")", "{(" + x + "): (" + y + ")}", "limit(1; ("+x+"), ("+y+"))")
			}
			for _, y := range e.Programs(b, ctx|ctxVar) {
				out = append(out, "("+x+") as $x | ("+y+")", "("+x+") as [$x] | ("+y+")", "("+x+") as [$x] ?// $x | ("+y+")", "("+x+") as {a: $x} | ("+y+")")
			}
		}
		// def f: X; Y   (X may call f recursively only under a budget: not here)
		for _, x := range A {
			for _, y := range e.Programs(b, ctx|ctxFunc) {
				out = append(out, "def f: ("+x+"); ("+y+")")
			}
		}
		// def f(g): X(g); f(Y)
		for _, x := range e.Programs(a, ctx|ctxParam) {
			for _, y := range e.Programs(b, ctx) {
				out = append(out, "def h(g): ("+x+"); h("+y+")")
			}
		}
		for _, x := range e.Programs(a, ctx|ctxValP) {
			for _, y := range e.Programs(b, ctx) {
				out = append(out, "def h($a): ("+x+"); h("+y+")")
			}
		}
	}
	// ternary constructors: a + b + c = n-1
	for a := 1; a <= n-3; a++ {
		for b := 1; a+b <= n-2; b++ {
			c := n - 1 - a - b
			for _, x := range e.Programs(a, ctx) {
				for _, y := range e.Programs(b, ctx) {
					for _, z := range e.Programs(c, ctx) {
						out = append(out, "if ("+x+") then ("+y+") else ("+z+") end")
					}
					for _, z := range e.Programs(c, ctx|ctxVar) {
						out = append(out, "reduce ("+x+") as $x ("+y+"; "+z+")", "foreach ("+x+") as $x ("+y+"; "+z+")")
					}
				}
			}
		}
	}
	e.memo[k] = out
	return out
}

// Count of programs with exactly n nodes.
func (e *Enumerator) Count(n int) int { return len(e.Programs(n, 0)) }

func (e *Enumerator) String() string {
	return fmt.Sprintf("enumerator(%d memo entries)", len(e.memo))
}
