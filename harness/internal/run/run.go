// Package run executes gojq queries under a deterministic step budget.
package run

import (
	"context"
	"fmt"
	"runtime/debug"
	"time"

	"github.com/itchyny/gojq"
)

// CountCtx is a context whose Done() counts how often it is polled and
// starts returning a closed channel at the Limit-th poll (1-based); with
// Limit <= 0 it never fires.  No clock is involved.
type CountCtx struct {
	Polls  int
	Limit  int
	closed chan struct{}
	open   chan struct{}
	fired  bool
}

func NewCountCtx(limit int) *CountCtx {
	c := &CountCtx{Limit: limit, closed: make(chan struct{}), open: make(chan struct{})}
	close(c.closed)
	return c
}

func (c *CountCtx) Deadline() (time.Time, bool) { return time.Time{}, false }
func (c *CountCtx) Value(any) any               { return nil }
func (c *CountCtx) Done() <-chan struct{} {
	c.Polls++
	if c.Limit > 0 && c.Polls >= c.Limit {
		c.fired = true
		return c.closed
	}
	return c.open
}
func (c *CountCtx) Err() error {
	if c.fired {
		return context.Canceled
	}
	return nil
}
func (c *CountCtx) Fired() bool { return c.fired }

// Result of a bounded run.
type Result struct {
	Vals   []any
	Err    error // terminal error (first error value emitted), nil if none
	Budget bool  // the step or output budget ran out: the case must not be judged
	Polls  int
	Panic  string // non-empty: gojq panicked (value and a short stack)
}

// Exec runs code on input collecting outputs until the iterator ends, emits
// an error, or the budget (VM steps, number of outputs) is exhausted.
func Exec(code *gojq.Code, input any, maxSteps, maxOut int, vars ...any) (res Result) {
	ctx := NewCountCtx(maxSteps)
	defer func() {
		if r := recover(); r != nil {
			st := string(debug.Stack())
			if len(st) > 1500 {
				st = st[:1500]
			}
			res.Panic = fmt.Sprintf("panic: %v\n%s", r, st)
			res.Polls = ctx.Polls
		}
	}()
	it := code.RunWithContext(ctx, input, vars...)
	for {
		v, ok := it.Next()
		if !ok {
			break
		}
		if err, isErr := v.(error); isErr {
			if ctx.Fired() && err == context.Canceled {
				res.Budget = true
			} else {
				res.Err = err
			}
			break
		}
		res.Vals = append(res.Vals, v)
		if len(res.Vals) >= maxOut {
			res.Budget = true
			break
		}
	}
	res.Polls = ctx.Polls
	return res
}

// Compile parses and compiles.
func Compile(src string, opts ...gojq.CompilerOption) (*gojq.Code, error) {
	q, err := gojq.Parse(src)
	if err != nil {
		return nil, fmt.Errorf("parse %q: %w", src, err)
	}
	c, err := gojq.Compile(q, opts...)
	if err != nil {
		return nil, fmt.Errorf("compile %q: %w", src, err)
	}
	return c, nil
}

// MustCompile panics on failure (for fixed harness queries).
func MustCompile(src string, opts ...gojq.CompilerOption) *gojq.Code {
	c, err := Compile(src, opts...)
	if err != nil {
		panic(err)
	}
	return c
}

// One runs a fixed query expecting exactly one output or an error.
func One(code *gojq.Code, input any, vars ...any) (any, error) {
	it := code.Run(input, vars...)
	v, ok := it.Next()
	if !ok {
		return nil, fmt.Errorf("no output")
	}
	if err, isErr := v.(error); isErr {
		return nil, err
	}
	return v, nil
}

// ErrValue extracts what `try ... catch .` would see for err.
func ErrValue(err error) any {
	if ve, ok := err.(gojq.ValueError); ok {
		return ve.Value()
	}
	return err.Error()
}
