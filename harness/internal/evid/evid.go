// Package evid is the bookkeeping shared by all property checks: per-shard
// counters, the set of distinct non-trivial case hashes, class histograms, a
// deterministic sample reservoir, the in-flight journal used to attribute
// process deaths, violations with their replay cases, and known-finding
// handling.  One Rec per test process; the python driver (bin/check) merges
// the per-shard result files into evidence/<id>.json.
package evid

import (
	"encoding/binary"
	"encoding/json"
	"flag"
	"fmt"
	"hash/fnv"
	"os"
	"path/filepath"
	"sort"
	"strconv"
	"strings"
	"sync"
	"testing"

	"pgregory.net/rapid"
)

// Violation is one failing case, already minimised by rapid where applicable.
type Violation struct {
	Sub   string          `json:"sub"`
	Case  json.RawMessage `json:"case"`
	Msg   string          `json:"msg"`
	Known string          `json:"known,omitempty"` // id of the known finding it reproduces (replay tier only)
}

// Finding is an entry of /verif/known_findings/<id>.json.
type Finding struct {
	ID       string          `json:"id"`
	Property string          `json:"property"`
	Status   string          `json:"status"` // "known" | "fixed"
	Commit   string          `json:"commit,omitempty"`
	What     string          `json:"what"`
	Sub      string          `json:"sub"`
	Repro    json.RawMessage `json:"repro"`
	Class    string          `json:"class,omitempty"`
}

type Rec struct {
	mu sync.Mutex

	// ShrinkTime, if set, bounds rapid's minimisation (e.g. "10s") for checks
	// whose failing cases are slow to re-run.
	ShrinkTime string

	ID     string
	Tier   string
	Seed   int64
	Shard  int
	Shards int
	out    string
	root   string // /verif

	evals      int64
	nt         map[uint64]struct{}
	classes    map[string]int64
	samples    []json.RawMessage
	sampleSeen int64
	excluded   map[string]int64
	discarded  map[string]int64
	exhaustive map[string]bool
	extra      map[string]any
	violations []Violation
	knownSeen  map[string]string
	lastFail   *Violation
	journal    *os.File
	findings   []Finding
	replay     string
	shrinking  bool
	curSub     string
	cur        any
}

func envInt(name string, def int64) int64 {
	if s := os.Getenv(name); s != "" {
		if n, err := strconv.ParseInt(s, 10, 64); err == nil {
			return n
		}
	}
	return def
}

// Open reads the shard configuration from the environment.
func Open(id string) *Rec {
	r := &Rec{
		ID:         id,
		Tier:       os.Getenv("VERIF_TIER"),
		Seed:       envInt("VERIF_SEED", 1),
		Shard:      int(envInt("VERIF_SHARD", 0)),
		Shards:     int(envInt("VERIF_SHARDS", 1)),
		out:        os.Getenv("VERIF_OUT"),
		root:       os.Getenv("VERIF_ROOT"),
		replay:     os.Getenv("VERIF_REPLAY"),
		nt:         map[uint64]struct{}{},
		classes:    map[string]int64{},
		excluded:   map[string]int64{},
		discarded:  map[string]int64{},
		exhaustive: map[string]bool{},
		extra:      map[string]any{},
		knownSeen:  map[string]string{},
	}
	if r.Tier == "" {
		r.Tier = "quick"
	}
	if r.root == "" {
		r.root = "/verif"
	}
	if r.Shards < 1 {
		r.Shards = 1
	}
	if jf := os.Getenv("VERIF_JOURNAL"); jf != "" {
		f, err := os.OpenFile(jf, os.O_CREATE|os.O_RDWR|os.O_TRUNC, 0o644)
		if err == nil {
			r.journal = f
		}
	}
	if b, err := os.ReadFile(filepath.Join(r.root, "known_findings", id+".json")); err == nil {
		var all struct {
			Findings []Finding `json:"findings"`
		}
		if err := json.Unmarshal(b, &all); err == nil {
			for _, f := range all.Findings {
				if f.Property == id {
					r.findings = append(r.findings, f)
				}
			}
		} else {
			fmt.Fprintf(os.Stderr, "evid: known_findings/<id>.json: %v\n", err)
			os.Exit(2)
		}
	}
	return r
}

func (r *Rec) Thorough() bool { return r.Tier == "thorough" }

// Scale returns q in the quick tier and t in the thorough tier.
func (r *Rec) Scale(q, t int) int {
	if r.Thorough() {
		return t
	}
	// conf.json "quick_scale": a per-check multiplier of the quick case counts
	if m, err := strconv.Atoi(os.Getenv("VERIF_QUICK_SCALE")); err == nil && m > 1 && q*m < t {
		return q * m
	}
	return q
}

// ReplayPath is non-empty when the process was started to replay one file.
func (r *Rec) ReplayPath() string { return r.replay }

func Hash(s string) uint64 {
	h := fnv.New64a()
	h.Write([]byte(s))
	return h.Sum64()
}

func (r *Rec) Eval() {
	r.mu.Lock()
	r.evals++
	r.mu.Unlock()
}

func (r *Rec) EvalN(n int64) {
	r.mu.Lock()
	r.evals += n
	r.mu.Unlock()
}

// NT records a distinct non-trivial case identified by key.
func (r *Rec) NT(key string) {
	h := Hash(key)
	r.mu.Lock()
	r.nt[h] = struct{}{}
	r.mu.Unlock()
}

func (r *Rec) Class(c string) {
	r.mu.Lock()
	r.classes[c]++
	r.mu.Unlock()
}

func (r *Rec) Excluded(class string) {
	r.mu.Lock()
	r.excluded[class]++
	r.mu.Unlock()
}

func (r *Rec) Discard(why string) {
	r.mu.Lock()
	r.discarded[why]++
	r.mu.Unlock()
}

func (r *Rec) Exhaustive(name string, complete bool) {
	r.mu.Lock()
	r.exhaustive[name] = complete
	r.mu.Unlock()
}

func (r *Rec) Extra(k string, v any) {
	r.mu.Lock()
	r.extra[k] = v
	r.mu.Unlock()
}

// Sample offers a case to the deterministic reservoir: the first 6, then the
// cases whose ordinal is a power of two, at most 24 in total.
func (r *Rec) Sample(v any) {
	r.mu.Lock()
	defer r.mu.Unlock()
	r.sampleSeen++
	n := r.sampleSeen
	if n > 6 && n&(n-1) != 0 {
		return
	}
	if len(r.samples) >= 24 {
		return
	}
	b, err := json.Marshal(v)
	if err != nil {
		b, _ = json.Marshal(fmt.Sprint(v))
	}
	if len(b) > 2000 {
		b, _ = json.Marshal(string(b[:2000]) + "...(truncated)")
	}
	r.samples = append(r.samples, b)
}

// Journal writes the in-flight case so that a process death can be
// attributed to it by the driver.
func (r *Rec) Journal(sub string, c any) {
	r.mu.Lock()
	r.curSub, r.cur = sub, c
	r.mu.Unlock()
	if r.journal == nil {
		return
	}
	b, err := json.Marshal(map[string]any{"sub": sub, "case": c})
	if err != nil {
		return
	}
	var hdr [8]byte
	binary.LittleEndian.PutUint64(hdr[:], uint64(len(b)))
	r.journal.WriteAt(hdr[:], 0)
	r.journal.WriteAt(b, 8)
}

// Fail records the failing case; the caller then fails the rapid/testing T.
// During shrinking rapid calls the property many times; the last recorded
// failure is the minimal one (rapid re-runs the minimal case at the end).
func (r *Rec) Fail(sub string, c any, format string, args ...any) string {
	msg := fmt.Sprintf(format, args...)
	b, err := json.Marshal(c)
	if err != nil {
		b, _ = json.Marshal(fmt.Sprint(c))
	}
	r.mu.Lock()
	r.lastFail = &Violation{Sub: sub, Case: b, Msg: msg}
	r.mu.Unlock()
	return msg
}

// Commit turns the last recorded failure (if any) into a violation.
func (r *Rec) Commit() {
	r.mu.Lock()
	defer r.mu.Unlock()
	if r.lastFail != nil {
		r.violations = append(r.violations, *r.lastFail)
		r.lastFail = nil
	}
}

// Direct records a violation immediately (enumerations, no shrinking).
func (r *Rec) Direct(sub string, c any, format string, args ...any) {
	r.Fail(sub, c, format, args...)
	r.Commit()
}

func (r *Rec) Violations() int {
	r.mu.Lock()
	defer r.mu.Unlock()
	return len(r.violations)
}

// Rapid runs one rapid property as a sub-test with the shard's seed.  The
// property reports a failure through rec.Fail + t.Fatalf (see Check).
func (r *Rec) Rapid(t *testing.T, sub string, checks int, prop func(t *rapid.T)) {
	if r.replay != "" {
		return
	}
	per := checks / r.Shards
	if per < 1 {
		per = 1
	}
	seed := Mix(uint64(r.Seed), r.ID+"/"+sub, uint64(r.Shard))
	flag.Set("rapid.checks", strconv.Itoa(per))
	flag.Set("rapid.seed", strconv.FormatUint(seed, 10))
	flag.Set("rapid.nofailfile", "true")
	if r.ShrinkTime != "" {
		flag.Set("rapid.shrinktime", r.ShrinkTime)
	}
	t.Run(sub, func(t *testing.T) {
		defer r.Commit()
		rapid.Check(t, func(rt *rapid.T) {
			r.mu.Lock()
			r.cur = nil
			r.mu.Unlock()
			defer func() {
				// a panic escaping the property (from the code under test or from
				// the harness) must not lose the case: record the journalled
				// in-flight case, then let rapid see the panic
				if p := recover(); p != nil {
					tn := fmt.Sprintf("%T", p)
					if !strings.Contains(tn, "stopTest") && !strings.Contains(tn, "invalidData") {
						r.mu.Lock()
						cur, cs := r.cur, r.curSub
						r.mu.Unlock()
						if cur != nil {
							r.Fail(cs, cur, "panic while checking the case: %v", p)
						} else {
							r.Fail(sub, map[string]any{"note": "no journalled case"}, "panic before the case was journalled: %v", p)
						}
					}
					panic(p)
				}
			}()
			prop(rt)
		})
	})
}

// Mix derives a non-zero rapid seed from the run seed, a name and the shard.
func Mix(seed uint64, name string, shard uint64) uint64 {
	h := fnv.New64a()
	var b [16]byte
	binary.LittleEndian.PutUint64(b[:8], seed)
	binary.LittleEndian.PutUint64(b[8:], shard)
	h.Write(b[:])
	h.Write([]byte(name))
	v := h.Sum64()
	v ^= v >> 29
	v *= 0xbf58476d1ce4e5b9
	v ^= v >> 32
	if v == 0 {
		v = 1
	}
	return v
}

// Mine reports whether index i of an enumeration belongs to this shard.
func (r *Rec) Mine(i int) bool { return i%r.Shards == r.Shard }

// Replays runs, through run(sub, case), (1) the file named by VERIF_REPLAY if
// set, otherwise on shard 0 (2) every known_findings.json entry of this
// property and (3) every file under replays/<id>/.  run returns a non-empty
// message when the case violates the property.  A still-failing "known"
// entry is reported as a known finding; anything else is a violation.
func (r *Rec) Replays(run func(sub string, c json.RawMessage) string) {
	if r.replay != "" {
		b, err := os.ReadFile(r.replay)
		if err != nil {
			fmt.Fprintf(os.Stderr, "evid: replay: %v\n", err)
			os.Exit(2)
		}
		var v Violation
		if err := json.Unmarshal(b, &v); err != nil || v.Case == nil {
			fmt.Fprintf(os.Stderr, "evid: replay file malformed: %v\n", err)
			os.Exit(2)
		}
		r.Eval()
		r.Journal(v.Sub, v.Case)
		if msg := run(v.Sub, v.Case); msg != "" {
			r.mu.Lock()
			r.violations = append(r.violations, Violation{Sub: v.Sub, Case: v.Case, Msg: msg})
			r.mu.Unlock()
		}
		return
	}
	if r.Shard != 0 {
		return
	}
	for _, f := range r.findings {
		if f.Repro == nil {
			continue
		}
		r.Eval()
		r.Class("replay/known-findings")
		r.Journal(f.Sub, f.Repro)
		msg := run(f.Sub, f.Repro)
		if msg == "" {
			continue
		}
		if f.Status == "known" {
			r.mu.Lock()
			r.knownSeen[f.ID] = f.What
			r.mu.Unlock()
		} else {
			r.mu.Lock()
			r.violations = append(r.violations, Violation{Sub: f.Sub, Case: f.Repro, Msg: "regression of fixed finding " + f.ID + ": " + msg})
			r.mu.Unlock()
		}
	}
	files, _ := filepath.Glob(filepath.Join(r.root, "replays", r.ID, "*.json"))
	sort.Strings(files)
	for _, fn := range files {
		b, err := os.ReadFile(fn)
		if err != nil {
			continue
		}
		var v Violation
		if err := json.Unmarshal(b, &v); err != nil || v.Case == nil {
			continue
		}
		r.Eval()
		r.Class("replay/saved")
		r.Journal(v.Sub, v.Case)
		if msg := run(v.Sub, v.Case); msg != "" {
			if v.Known != "" && r.isKnown(v.Known) {
				r.mu.Lock()
				r.knownSeen[v.Known] = r.whatOf(v.Known)
				r.mu.Unlock()
				continue
			}
			r.mu.Lock()
			r.violations = append(r.violations, Violation{Sub: v.Sub, Case: v.Case, Msg: msg})
			r.mu.Unlock()
		}
	}
}

func (r *Rec) isKnown(id string) bool {
	for _, f := range r.findings {
		if f.ID == id && f.Status == "known" {
			return true
		}
	}
	return false
}

func (r *Rec) whatOf(id string) string {
	for _, f := range r.findings {
		if f.ID == id {
			return f.What
		}
	}
	return ""
}

// KnownClass reports whether a finding with the given class is listed as
// "known" (not fixed); generators use it to exclude that class by
// construction.
func (r *Rec) KnownClass(class string) bool {
	for _, f := range r.findings {
		if f.Class == class && f.Status == "known" {
			return true
		}
	}
	return false
}

// Close writes the shard result for the driver.
func (r *Rec) Close() {
	r.mu.Lock()
	defer r.mu.Unlock()
	if r.out == "" {
		if len(r.violations) > 0 {
			for _, v := range r.violations {
				fmt.Printf("violation sub=%s msg=%s case=%s\n", v.Sub, v.Msg, v.Case)
			}
		}
		fmt.Printf("evid: %s evals=%d nontrivial=%d classes=%v excluded=%v discarded=%v known=%v\n",
			r.ID, r.evals, len(r.nt), r.classes, r.excluded, r.discarded, r.knownSeen)
		return
	}
	hashes := make([]string, 0, len(r.nt))
	for h := range r.nt {
		hashes = append(hashes, strconv.FormatUint(h, 36))
	}
	sort.Strings(hashes)
	res := map[string]any{
		"id":         r.ID,
		"tier":       r.Tier,
		"seed":       r.Seed,
		"shard":      r.Shard,
		"evals":      r.evals,
		"nt":         strings.Join(hashes, " "),
		"classes":    r.classes,
		"samples":    r.samples,
		"excluded":   r.excluded,
		"discarded":  r.discarded,
		"exhaustive": r.exhaustive,
		"extra":      r.extra,
		"violations": r.violations,
		"known_seen": r.knownSeen,
	}
	b, err := json.Marshal(res)
	if err != nil {
		fmt.Fprintf(os.Stderr, "evid: marshal: %v\n", err)
		os.Exit(2)
	}
	tmp := r.out + ".tmp"
	if err := os.WriteFile(tmp, b, 0o644); err != nil {
		fmt.Fprintf(os.Stderr, "evid: write: %v\n", err)
		os.Exit(2)
	}
	os.Rename(tmp, r.out)
}
