// Package custom holds Go functions of an embedding program that KEEP what
// they are given (they return their argument slice, their input, or an iterator
// over them), as callers' functions may, their jq-defined equivalents for the
// reference model, and programs that call them repeatedly from one call site.
package custom

import "github.com/itchyny/gojq"

// Funcs: Go functions of the embedding program that KEEP what they are
// given (they return their argument slice, their input, or an iterator over
// them), as callers' functions may: whatever they were handed must stay what it
// was when the call site is evaluated again, in this run or a later one.
var Funcs = []gojq.CompilerOption{
	gojq.WithFunction("cf_args", 1, 3, func(_ any, xs []any) any { return xs }),
	gojq.WithFunction("cf_pair", 2, 2, func(_ any, xs []any) any { return xs }),
	gojq.WithFunction("cf_self", 0, 0, func(x any, _ []any) any { return x }),
	gojq.WithFunction("cf_wrap", 1, 1, func(x any, xs []any) any { return []any{x, xs} }),
	gojq.WithIterFunction("cf_each", 1, 3, func(_ any, xs []any) gojq.Iter { return gojq.NewIter(xs...) }),
	// iterates over the input array itself (NewIter adopts the slice it is given)
	gojq.WithIterFunction("cf_elems", 0, 0, func(x any, _ []any) gojq.Iter {
		if a, ok := x.([]any); ok {
			return gojq.NewIter(a...)
		}
		return gojq.NewIter[any]()
	}),
	gojq.WithIterFunction("cf_twice", 1, 1, func(_ any, xs []any) gojq.Iter { return gojq.NewIter[any](xs, xs) }),
}

const Defs = `def cf_args($a): [$a]; def cf_args($a; $b): [$a, $b]; def cf_args($a; $b; $c): [$a, $b, $c]; def cf_pair($a; $b): [$a, $b]; def cf_self: .; def cf_wrap($a): [., [$a]];
def cf_each($a): $a; def cf_each($a; $b): $a, $b; def cf_each($a; $b; $c): $a, $b, $c; def cf_twice($a): [$a], [$a]; def cf_elems: if type == "array" then .[] else empty end; `

var Programs = []string{
	"[cf_elems], [cf_elems]", "(.a? | [cf_elems]), .a?", "[.[]? | [cf_elems]]", "($v | [cf_elems]), $v", "[cf_elems] | length, .", "first(cf_elems), [cf_elems]", "[limit(2; cf_elems)], .", "[.[]?] | ([cf_elems] | length), .",
	".[]? | cf_pair(.; \"x\")", "cf_pair(.a?; .b?)", "[.[]? | cf_args(.)]", "[.[]? | cf_args(.; 1; [.])]", "[cf_pair(1; 2), cf_pair(3; 4)]", "[range(3) | cf_pair(.; . + 1)]", "[.[]? | cf_wrap(.)]", "[cf_each(.[]?)]", "[.[]? | cf_each(.; [.])]",
	"[.[]? | cf_twice(.)]", "def f: cf_pair(.; 0); [.[]? | f]", "reduce .[]? as $x ([]; . + [cf_args($x)])", "[foreach .[]? as $x (0; . + 1; cf_pair($x; .))]", "[.[]? | cf_self] | .[0]? |= 1", "[limit(2; repeat(cf_args(.)))]",
	"[cf_pair(.[]?; $v)]", "cf_args($v) | .[0][0]? = 9", "[.[]? | cf_pair(.; .) | .[0]? = 5]", "[.[]? | [cf_each(.; .)]]", "[paths | cf_args(.)]", "(cf_args(.) | .[0]), .", "[cf_args(.[]?), cf_args(.[]?)]", "[.[]? as $x | cf_pair($x; [$x])] | map(.[1])",
}
