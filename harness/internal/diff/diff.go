// Package diff compares a gojq run with a reference-interpreter run.
package diff

import (
	"fmt"
	"strings"

	"github.com/itchyny/gojq"

	"verif/internal/refjq"
	"verif/internal/run"
	"verif/internal/univ"
)

// Verdict of one comparison.
type Verdict struct {
	Discard string // non-empty: the case must not be judged (why)
	Msg     string // non-empty: disagreement
	Outputs int
	Errored bool
}

// ErrKey renders an error for comparison: kind + what `catch` would see.
func ErrKey(err error) string {
	if err == nil {
		return ""
	}
	if h, ok := err.(*gojq.HaltError); ok {
		return fmt.Sprintf("halt(%d):%s", h.ExitCode(), univ.Show(h.Value()))
	}
	if refjq.IsBreak(err) {
		return "break"
	}
	if ve, ok := err.(gojq.ValueError); ok {
		return "value:" + univ.Show(normalize(ve.Value()))
	}
	return "error:" + err.Error()
}

func normalize(v any) any { return v }

// Streams compares value streams and terminal errors.
func Streams(got run.Result, want refjq.Result) Verdict {
	if got.Budget {
		return Verdict{Discard: "budget/gojq"}
	}
	if refjq.IsNativePanic(want.Err) {
		return Verdict{Msg: want.Err.Error()}
	}
	if d := want.Discard(); d != "" {
		return Verdict{Discard: d}
	}
	v := Verdict{Outputs: len(got.Vals), Errored: got.Err != nil}
	if !univ.EqualStreams(got.Vals, want.Vals) {
		v.Msg = fmt.Sprintf("outputs differ:\n  gojq  %s\n  model %s", univ.ShowAll(got.Vals), univ.ShowAll(want.Vals))
		if got.Err != nil || want.Err != nil {
			v.Msg += fmt.Sprintf("\n  gojq error %q, model error %q", errText(got.Err), errText(want.Err))
		}
		return v
	}
	gk, wk := ErrKey(got.Err), ErrKey(want.Err)
	if gk != wk {
		if (got.Err != nil) && (want.Err != nil) {
			if gv, ok := got.Err.(gojq.ValueError); ok {
				if wv, ok := want.Err.(gojq.ValueError); ok && univ.Equal(gv.Value(), wv.Value()) {
					if _, h1 := got.Err.(*gojq.HaltError); !h1 {
						if _, h2 := want.Err.(*gojq.HaltError); !h2 {
							return v
						}
					}
				}
			}
		}
		// a native wrapping the same inner error with context ("setpath(..) cannot
		// be applied to ..: <inner>") is the same failure
		if got.Err != nil && want.Err != nil && !isValueErr(got.Err) && !isValueErr(want.Err) {
			g, w := got.Err.Error(), want.Err.Error()
			if strings.HasSuffix(g, ": "+w) || strings.HasSuffix(w, ": "+g) {
				return v
			}
		}
		v.Msg = fmt.Sprintf("terminal errors differ after %d equal outputs %s:\n  gojq  %s\n  model %s", len(got.Vals), univ.ShowAll(got.Vals), orNone(gk), orNone(wk))
	}
	return v
}

func isValueErr(err error) bool { _, ok := err.(gojq.ValueError); return ok }

func errText(err error) string {
	if err == nil {
		return "<none>"
	}
	return err.Error()
}

func orNone(s string) string {
	if s == "" {
		return "<no error>"
	}
	return s
}
