// Package modfix is a fixed directory of jq modules and JSON data files plus
// programs written against it (imports, includes, modulemeta, $v, $ENV), for
// the checks that exercise compile options.
package modfix

import (
	"os"
	"path/filepath"
	"sync"

	"github.com/itchyny/gojq"
)

// Files of the module directory.
var Files = map[string]string{
	"m1.jq":    `module {"name":"m1","v":[1,{"a":2}]}; def f: . as $x | [$x, 1]; def k: {"a":[1,2]} | del(.a[0]); def c: [3,1,2] | sort;`,
	"m2.jq":    `module {"name":"m2"}; import "m1" as m1; import "d" as $d; def g(x): [x, (1 | m1::f), $d::d[0]]; def h: $d::d | .[0].a += [1]; def w: $d::d[0] | del(.b.c);`,
	"m3/m3.jq": `import "m1" as a; import "m2" as b; def f: [a::c, b::h, "m3"]; def r: test("A+b"; "i");`,
	"m4.jq":    `include "m1"; include "m3"; def q: [f, k];`,
	"d.json":   `{"a":[1,2],"b":{"c":null,"d":[{"e":1}]}} [3,[4]]`,
	"e.json":   `[{"a":{"q":1}},{"a":{"q":2}}]`,
}

// Programs compile with Options (some need $v).
var Programs = []string{
	`import "m1" as m; m::f`, `import "m1" as m; [m::k, m::c, (.[]? | m::f)]`, `include "m1"; f, k, c`,
	`import "m2" as m; m::g(.)`, `import "m2" as m; [m::h, m::w, m::h]`, `include "m2"; [g(1), h, w]`,
	`import "m3" as m; m::f`, `import "m3" as m; [("ab", "aab", "b") | m::r]`, `include "m4"; q`, `import "m4" as m; m::q, m::f`,
	`import "d" as $d; $d`, `import "d" as $d; $d::d[0] | del(.a[0])`, `import "d" as $d; [$d[0], ($d[0] | .b.d[0].e = 9), $d[0]]`, `import "d" as $d; $d | map(tojson)`,
	`import "e" as $e; $e::e[0] | map(del(.a.q))`, `import "e" as $e; import "d" as $d; [$e, $d] | map(.[0] | length)`, `import "e" as $e; $e[0] | sort_by(.a.q) | reverse`,
	`"m1" | modulemeta`, `"m2" | modulemeta`, `[("m1", "m2", "m3", "m4") | modulemeta | .deps | length]`, `("m1", "m2") | modulemeta | .defs`, `try ("nope" | modulemeta) catch .`,
	`"m3" | modulemeta | .deps | map(.relpath)`, `[limit(6; repeat("m1", "m4")) | modulemeta | .defs | length]`, `"m1" | modulemeta | .v | .[1].a += 1`, `"m1" | modulemeta | del(.v[0])`,
	`import "m2" as m; [m::g(.), ("m2" | modulemeta | .deps[0].relpath)]`, `import "m1" as m; ("m1" | modulemeta | .name) as $n | [$n, m::f]`, `[.[]? | strings | try modulemeta catch "bad"]`,
	`import "m1" as m; import "m2" as n; import "m3" as o; import "m4" as p; [m::c, n::h, o::f, p::q] | length`,
	`$v`, `$v | del(.a)?`, `($v | .a.q = 1)?, $v`, `[$v, $v] | map(tojson)`, `$v | (.. |= .)`, `[$v | .[]?] | sort`, `$v | to_entries?`, `$v | tostream`, `[$v | paths]`, `. as $x | $v | [., $x]`,
	`$v | (.[0] |= . + 1)?`, `$v | (.a += [1])?`, `try ($v | delpaths([["a","q"]])) catch .`, `$v | add?`, `$v | (unique, sort, reverse)?`, `$v | (.[1:] = [7])?`, `[$v] | flatten`, `$v | walk(.)`,
	`$ENV.VERIF_A`, `env | .VERIF_B`, `$ENV | keys`, `[$ENV, env] | map(length)`, `$ENV | del(.VERIF_A) | keys`, `env.VERIF_A |= . + "x"`, `[env[]] | sort`,
	`import "m1" as m; [$v, m::f, $ENV.VERIF_A, ("m1" | modulemeta | .name)]`, `include "m2"; [g($v), $ENV.VERIF_B] | tojson`,
}

var (
	modOnce sync.Once
	modRoot string
)

// Dir creates the directory on first use.
func Dir() string {
	modOnce.Do(func() {
		d, err := os.MkdirTemp("", "c06-modules-")
		if err != nil {
			panic(err)
		}
		for name, src := range Files {
			p := filepath.Join(d, name)
			if err := os.MkdirAll(filepath.Dir(p), 0o755); err != nil {
				panic(err)
			}
			if err := os.WriteFile(p, []byte(src), 0o644); err != nil {
				panic(err)
			}
		}
		modRoot = d
	})
	return modRoot
}

// Remove deletes the directory.
func Remove() {
	if modRoot != "" {
		os.RemoveAll(modRoot)
	}
}

// Environ is the fixed environment of Options.
func Environ() []string { return []string{"VERIF_A=a", "VERIF_B=b=c", "VERIF_C="} }

// Options: a fresh module loader over Dir, $v, the fixed environment.
func Options() []gojq.CompilerOption {
	return []gojq.CompilerOption{gojq.WithModuleLoader(gojq.NewModuleLoader([]string{Dir()})), gojq.WithVariables([]string{"$v"}), gojq.WithEnvironLoader(Environ)}
}
