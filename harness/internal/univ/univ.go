// Package univ holds the JSON value universes, Go representation variants,
// and representation-aware deep copy / equality / encoding used by the checks.
package univ

import (
	"encoding/hex"
	"encoding/json"
	"fmt"
	"math"
	"math/big"
	"sort"
	"strconv"
	"strings"
	"unicode/utf8"
)

// ---------------------------------------------------------------------------
// Tagged encoding (replay files, samples): keeps the Go representation.

// Enc converts a gojq value into a JSON-marshalable tagged form.
func Enc(v any) any {
	switch v := v.(type) {
	case nil:
		return nil
	case bool:
		return v
	case int:
		return map[string]any{"i": v}
	case float64:
		return map[string]any{"f": fmtFloat(v)}
	case *big.Int:
		return map[string]any{"b": v.String()}
	case json.Number:
		return map[string]any{"n": string(v)}
	case string:
		return encStr(v)
	case []any:
		a := make([]any, len(v))
		for i, x := range v {
			a[i] = Enc(x)
		}
		return a
	case map[string]any:
		ks := make([]string, 0, len(v))
		for k := range v {
			ks = append(ks, k)
		}
		sort.Strings(ks)
		a := make([]any, len(ks))
		for i, k := range ks {
			a[i] = []any{encStr(k), Enc(v[k])}
		}
		return map[string]any{"o": a}
	default:
		return map[string]any{"?": fmt.Sprintf("%T:%v", v, v)}
	}
}

func encStr(s string) any {
	if utf8.ValidString(s) {
		return s
	}
	return map[string]any{"x": hex.EncodeToString([]byte(s))}
}

func fmtFloat(f float64) string {
	switch {
	case math.IsNaN(f):
		return "NaN"
	case math.IsInf(f, 1):
		return "+Inf"
	case math.IsInf(f, -1):
		return "-Inf"
	}
	if f == 0 && math.Signbit(f) {
		return "-0"
	}
	return strconv.FormatFloat(f, 'g', -1, 64)
}

// Dec is the inverse of Enc on its JSON form (decoded with encoding/json
// into any, numbers as float64 or json.Number are not expected bare).
func Dec(x any) (any, error) {
	switch x := x.(type) {
	case nil:
		return nil, nil
	case bool:
		return x, nil
	case string:
		return x, nil
	case []any:
		a := make([]any, len(x))
		for i, e := range x {
			v, err := Dec(e)
			if err != nil {
				return nil, err
			}
			a[i] = v
		}
		return a, nil
	case float64:
		if x == math.Trunc(x) && math.Abs(x) < 1e15 {
			return int(x), nil
		}
		return x, nil
	case json.Number:
		if n, err := strconv.Atoi(string(x)); err == nil {
			return n, nil
		}
		f, err := strconv.ParseFloat(string(x), 64)
		return f, err
	case map[string]any:
		if len(x) != 1 {
			return nil, fmt.Errorf("univ.Dec: bad tagged object %v", x)
		}
		for k, val := range x {
			switch k {
			case "i":
				switch n := val.(type) {
				case float64:
					return int(n), nil
				case json.Number:
					i, err := strconv.Atoi(string(n))
					return i, err
				}
			case "f":
				s, _ := val.(string)
				switch s {
				case "NaN":
					return math.NaN(), nil
				case "+Inf":
					return math.Inf(1), nil
				case "-Inf":
					return math.Inf(-1), nil
				case "-0":
					return math.Copysign(0, -1), nil
				}
				f, err := strconv.ParseFloat(s, 64)
				return f, err
			case "b":
				s, _ := val.(string)
				b, ok := new(big.Int).SetString(s, 10)
				if !ok {
					return nil, fmt.Errorf("univ.Dec: bad big %q", s)
				}
				return b, nil
			case "n":
				s, _ := val.(string)
				return json.Number(s), nil
			case "x":
				s, _ := val.(string)
				b, err := hex.DecodeString(s)
				return string(b), err
			case "o":
				a, _ := val.([]any)
				m := make(map[string]any, len(a))
				for _, kv := range a {
					p, _ := kv.([]any)
					if len(p) != 2 {
						return nil, fmt.Errorf("univ.Dec: bad object entry")
					}
					kk, err := Dec(p[0])
					if err != nil {
						return nil, err
					}
					ks, ok := kk.(string)
					if !ok {
						return nil, fmt.Errorf("univ.Dec: bad key")
					}
					vv, err := Dec(p[1])
					if err != nil {
						return nil, err
					}
					m[ks] = vv
				}
				return m, nil
			}
		}
	}
	return nil, fmt.Errorf("univ.Dec: cannot decode %T %v", x, x)
}

// V is a value that marshals in tagged form.
type V struct{ X any }

func (v V) MarshalJSON() ([]byte, error) { return json.Marshal(Enc(v.X)) }
func (v *V) UnmarshalJSON(b []byte) error {
	var x any
	if err := json.Unmarshal(b, &x); err != nil {
		return err
	}
	y, err := Dec(x)
	if err != nil {
		return err
	}
	v.X = y
	return nil
}

// ---------------------------------------------------------------------------
// Show: readable text with representation marks, for messages.

func Show(v any) string {
	var sb strings.Builder
	show(&sb, v, 0)
	return sb.String()
}

func show(sb *strings.Builder, v any, depth int) {
	if depth > 200 {
		sb.WriteString("<deep>")
		return
	}
	switch v := v.(type) {
	case nil:
		sb.WriteString("null")
	case bool:
		fmt.Fprint(sb, v)
	case int:
		fmt.Fprint(sb, v)
	case float64:
		sb.WriteString(fmtFloat(v))
		sb.WriteString("f")
	case *big.Int:
		sb.WriteString(v.String())
		sb.WriteString("B")
	case json.Number:
		sb.WriteString(string(v))
		sb.WriteString("N")
	case string:
		sb.WriteString(strconv.Quote(v))
	case []any:
		sb.WriteByte('[')
		for i, x := range v {
			if i > 0 {
				sb.WriteByte(',')
			}
			show(sb, x, depth+1)
		}
		sb.WriteByte(']')
	case map[string]any:
		ks := make([]string, 0, len(v))
		for k := range v {
			ks = append(ks, k)
		}
		sort.Strings(ks)
		sb.WriteByte('{')
		for i, k := range ks {
			if i > 0 {
				sb.WriteByte(',')
			}
			sb.WriteString(strconv.Quote(k))
			sb.WriteByte(':')
			show(sb, v[k], depth+1)
		}
		sb.WriteByte('}')
	case error:
		fmt.Fprintf(sb, "<error %T %q>", v, v.Error())
	default:
		fmt.Fprintf(sb, "<%T %v>", v, v)
	}
}

// ShowAll shows a stream.
func ShowAll(vs []any) string {
	ss := make([]string, len(vs))
	for i, v := range vs {
		ss[i] = Show(v)
	}
	return "(" + strings.Join(ss, " ; ") + ")"
}

// ---------------------------------------------------------------------------
// Deep copy and equality.

// Copy makes a deep copy preserving representations (big.Int copied too).
func Copy(v any) any {
	switch v := v.(type) {
	case *big.Int:
		return new(big.Int).Set(v)
	case []any:
		if v == nil {
			return v
		}
		a := make([]any, len(v))
		for i, x := range v {
			a[i] = Copy(x)
		}
		return a
	case map[string]any:
		if v == nil {
			return v
		}
		m := make(map[string]any, len(v))
		for k, x := range v {
			m[k] = Copy(x)
		}
		return m
	default:
		return v
	}
}

// Num is the exact mathematical content of a numeric value.
type Num struct {
	Int *big.Int // non-nil for exact integers
	F   float64  // otherwise
}

// ToNum classifies a number of any representation.  ok is false for
// non-numbers.  Integral floats of magnitude <= 2^53 are exact integers.
func ToNum(v any) (Num, bool) {
	switch v := v.(type) {
	case int:
		return Num{Int: big.NewInt(int64(v))}, true
	case *big.Int:
		return Num{Int: v}, true
	case float64:
		return floatNum(v), true
	case json.Number:
		s := string(v)
		if IsIntLit(s) {
			b, ok := new(big.Int).SetString(s, 10)
			if ok {
				return Num{Int: b}, true
			}
		}
		f, err := strconv.ParseFloat(s, 64)
		if err != nil && !math.IsInf(f, 0) {
			return Num{}, false
		}
		return floatNum(f), true
	}
	return Num{}, false
}

func floatNum(f float64) Num {
	if f == math.Trunc(f) && math.Abs(f) <= 1<<53 {
		return Num{Int: big.NewInt(int64(f))}
	}
	return Num{F: f}
}

// IsIntLit reports whether s is an optional minus sign followed by digits.
func IsIntLit(s string) bool {
	if s == "" {
		return false
	}
	i := 0
	if s[0] == '-' {
		i = 1
	}
	if i == len(s) {
		return false
	}
	for ; i < len(s); i++ {
		if s[i] < '0' || s[i] > '9' {
			return false
		}
	}
	return true
}

func numEq(a, b Num) bool {
	if a.Int != nil && b.Int != nil {
		return a.Int.Cmp(b.Int) == 0
	}
	if a.Int != nil || b.Int != nil {
		// big integer vs non-integral/huge float: equal iff the float is the
		// nearest double of the integer (this is how gojq compares them).
		var i *big.Int
		var f float64
		if a.Int != nil {
			i, f = a.Int, b.F
		} else {
			i, f = b.Int, a.F
		}
		g, _ := new(big.Float).SetInt(i).Float64()
		return g == f
	}
	if math.IsNaN(a.F) && math.IsNaN(b.F) {
		return true
	}
	return a.F == b.F
}

// Equal is equality of jq values: numbers by mathematical value (NaN equal
// to NaN so that streams containing NaN can be compared), containers
// structurally.
func Equal(a, b any) bool {
	if na, ok := ToNum(a); ok {
		nb, ok := ToNum(b)
		return ok && numEq(na, nb)
	}
	switch a := a.(type) {
	case nil:
		return b == nil
	case bool:
		bb, ok := b.(bool)
		return ok && a == bb
	case string:
		bb, ok := b.(string)
		return ok && a == bb
	case []any:
		bb, ok := b.([]any)
		if !ok || len(a) != len(bb) {
			return false
		}
		for i := range a {
			if !Equal(a[i], bb[i]) {
				return false
			}
		}
		return true
	case map[string]any:
		bb, ok := b.(map[string]any)
		if !ok || len(a) != len(bb) {
			return false
		}
		for k, x := range a {
			y, ok := bb[k]
			if !ok || !Equal(x, y) {
				return false
			}
		}
		return true
	}
	return false
}

// Same is strict equality: same Go representation everywhere (float64 by
// bits except that all NaNs are alike; -0 differs from 0).
func Same(a, b any) bool {
	switch a := a.(type) {
	case nil:
		return b == nil
	case bool:
		bb, ok := b.(bool)
		return ok && a == bb
	case int:
		bb, ok := b.(int)
		return ok && a == bb
	case float64:
		bb, ok := b.(float64)
		if !ok {
			return false
		}
		if math.IsNaN(a) && math.IsNaN(bb) {
			return true
		}
		return math.Float64bits(a) == math.Float64bits(bb)
	case *big.Int:
		bb, ok := b.(*big.Int)
		return ok && a.Cmp(bb) == 0
	case json.Number:
		bb, ok := b.(json.Number)
		return ok && a == bb
	case string:
		bb, ok := b.(string)
		return ok && a == bb
	case []any:
		bb, ok := b.([]any)
		if !ok || len(a) != len(bb) {
			return false
		}
		for i := range a {
			if !Same(a[i], bb[i]) {
				return false
			}
		}
		return true
	case map[string]any:
		bb, ok := b.(map[string]any)
		if !ok || len(a) != len(bb) {
			return false
		}
		for k, x := range a {
			y, ok := bb[k]
			if !ok || !Same(x, y) {
				return false
			}
		}
		return true
	}
	return false
}

// EqualStreams compares two value sequences with Equal.
func EqualStreams(a, b []any) bool {
	if len(a) != len(b) {
		return false
	}
	for i := range a {
		if !Equal(a[i], b[i]) {
			return false
		}
	}
	return true
}

// Depth of a value (scalars 0).
func Depth(v any) int {
	d := 0
	switch v := v.(type) {
	case []any:
		for _, x := range v {
			if e := Depth(x) + 1; e > d {
				d = e
			}
		}
		if d == 0 {
			d = 1
		}
	case map[string]any:
		for _, x := range v {
			if e := Depth(x) + 1; e > d {
				d = e
			}
		}
		if d == 0 {
			d = 1
		}
	}
	return d
}

// Valid reports whether v consists only of the Go types gojq supports.
func Valid(v any) bool {
	switch v := v.(type) {
	case nil, bool, int, float64, *big.Int, json.Number, string:
		return true
	case []any:
		for _, x := range v {
			if !Valid(x) {
				return false
			}
		}
		return true
	case map[string]any:
		for _, x := range v {
			if !Valid(x) {
				return false
			}
		}
		return true
	}
	return false
}

// HasNaN reports whether a NaN occurs anywhere in v.
func HasNaN(v any) bool {
	switch v := v.(type) {
	case float64:
		return math.IsNaN(v)
	case []any:
		for _, x := range v {
			if HasNaN(x) {
				return true
			}
		}
	case map[string]any:
		for _, x := range v {
			if HasNaN(x) {
				return true
			}
		}
	}
	return false
}

// JSONText renders v as JSON text with encoding/json semantics for strings
// and exact digits for numbers (independent of gojq's encoder).  NaN and
// infinities are not representable and yield ok=false.
func JSONText(v any) (string, bool) {
	var sb strings.Builder
	ok := jsonText(&sb, v)
	return sb.String(), ok
}

func jsonText(sb *strings.Builder, v any) bool {
	switch v := v.(type) {
	case nil:
		sb.WriteString("null")
	case bool:
		fmt.Fprint(sb, v)
	case int:
		fmt.Fprint(sb, v)
	case *big.Int:
		sb.WriteString(v.String())
	case json.Number:
		sb.WriteString(string(v))
	case float64:
		if math.IsNaN(v) || math.IsInf(v, 0) {
			return false
		}
		b, _ := json.Marshal(v)
		sb.Write(b)
	case string:
		b, _ := json.Marshal(v)
		sb.Write(b)
	case []any:
		sb.WriteByte('[')
		for i, x := range v {
			if i > 0 {
				sb.WriteByte(',')
			}
			if !jsonText(sb, x) {
				return false
			}
		}
		sb.WriteByte(']')
	case map[string]any:
		ks := make([]string, 0, len(v))
		for k := range v {
			ks = append(ks, k)
		}
		sort.Strings(ks)
		sb.WriteByte('{')
		for i, k := range ks {
			if i > 0 {
				sb.WriteByte(',')
			}
			b, _ := json.Marshal(k)
			sb.Write(b)
			sb.WriteByte(':')
			if !jsonText(sb, v[k]) {
				return false
			}
		}
		sb.WriteByte('}')
	default:
		return false
	}
	return true
}
