// Package cmdline runs the gojq command built from the tree under test.
package cmdline

import (
	"bytes"
	"context"
	"errors"
	"fmt"
	"os"
	"os/exec"
	"strings"
	"time"
)

// Path of the gojq binary (built by the driver from /repo's current tree).
func Path() string {
	p := os.Getenv("VERIF_GOJQ")
	if p == "" {
		fmt.Fprintln(os.Stderr, "cmdline: VERIF_GOJQ not set (run through bin/check)")
		os.Exit(2)
	}
	return p
}

type Result struct {
	Stdout, Stderr string
	Exit           int
	TimedOut       bool
}

// Opt configures a run.
type Opt struct {
	Env   []string // extra NAME=value (the base environment is minimal and fixed)
	Dir   string
	Stdin []byte
	// NoStdin connects stdin to /dev/null instead of a pipe.
	NoStdin bool
	// Timeout of the harness watchdog (default 120 s).
	Timeout time.Duration
	// MaxOutput caps the captured stdout/stderr (default 64 MiB); more is dropped.
	MaxOutput int
}

type capWriter struct {
	buf bytes.Buffer
	max int
}

func (w *capWriter) Write(p []byte) (int, error) {
	if room := w.max - w.buf.Len(); room > 0 {
		if len(p) <= room {
			w.buf.Write(p)
		} else {
			w.buf.Write(p[:room])
		}
	}
	return len(p), nil
}

// Run executes gojq with args.  A 120 s watchdog guards the harness itself;
// hitting it is reported through TimedOut and is never a verdict.
func Run(o Opt, args ...string) Result {
	if o.Timeout == 0 {
		o.Timeout = 120 * time.Second
	}
	if o.MaxOutput == 0 {
		o.MaxOutput = 64 << 20
	}
	ctx, cancel := context.WithTimeout(context.Background(), o.Timeout)
	defer cancel()
	cmd := exec.CommandContext(ctx, Path(), args...)
	cmd.Env = append([]string{"PATH=/usr/bin:/bin", "HOME=/nonexistent", "LANG=C", "TZ=UTC", "GOTRACEBACK=single"}, o.Env...)
	cmd.Dir = o.Dir
	if !o.NoStdin {
		cmd.Stdin = bytes.NewReader(o.Stdin)
	}
	so, se := &capWriter{max: o.MaxOutput}, &capWriter{max: o.MaxOutput}
	cmd.Stdout, cmd.Stderr = so, se
	err := cmd.Run()
	r := Result{Stdout: so.buf.String(), Stderr: se.buf.String()}
	if ctx.Err() != nil {
		r.TimedOut = true
		r.Exit = -1
		return r
	}
	var ee *exec.ExitError
	if errors.As(err, &ee) {
		r.Exit = ee.ExitCode()
	} else if err != nil {
		r.Exit = -2
		r.Stderr += "\nexec error: " + err.Error()
	}
	return r
}

// Crashed reports whether the output shows a Go panic or runtime fatal error.
func (r Result) Crashed() bool {
	return r.Exit == 2 && (strings.Contains(r.Stderr, "goroutine ") && strings.Contains(r.Stderr, "panic:")) ||
		strings.Contains(r.Stderr, "fatal error:") && strings.Contains(r.Stderr, "goroutine ") ||
		strings.Contains(r.Stderr, "panic: ") && strings.Contains(r.Stderr, "[running]") ||
		r.Exit < -1 || r.Exit > 128
}
