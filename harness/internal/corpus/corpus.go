// Package corpus extracts the queries of /repo/cli/test.yaml (re-read from the
// tree under test at run time) together with their inputs and the outputs the
// maintainers recorded.
package corpus

import (
	"encoding/json"
	"io"
	"os"
	"path/filepath"
	"strings"

	"github.com/itchyny/go-yaml"
)

type Case struct {
	Name     string
	Args     []string
	Query    string // "" if the case has no single identifiable query
	Input    string
	Expected string
	Error    string
	ExitCode int
	// Plain: args are just the query plus at most -c / -n (so that the
	// expected text is the compact or indented JSON stream of the outputs).
	Plain     bool
	NullInput bool
	Env       []string
}

func repo() string {
	if r := os.Getenv("VERIF_REPO"); r != "" {
		return r
	}
	return "/repo"
}

// Load reads every test case.
func Load() ([]Case, error) {
	f, err := os.Open(filepath.Join(repo(), "cli", "test.yaml"))
	if err != nil {
		return nil, err
	}
	defer f.Close()
	var raw []struct {
		Name     string
		Args     []string
		Input    string
		Env      []string
		Expected string
		Error    string
		ExitCode int `yaml:"exit_code"`
	}
	if err := yaml.NewDecoder(f).Decode(&raw); err != nil {
		return nil, err
	}
	out := make([]Case, 0, len(raw))
	for _, r := range raw {
		c := Case{Name: r.Name, Args: r.Args, Input: r.Input, Expected: r.Expected, Error: r.Error, ExitCode: r.ExitCode, Env: r.Env}
		plain := true
		var query string
		nq := 0
		for _, a := range r.Args {
			switch a {
			case "-c", "--compact-output":
			case "-n", "--null-input":
				c.NullInput = true
			case "-nc", "-cn":
				c.NullInput = true
			default:
				if strings.HasPrefix(a, "-") && a != "-" && len(a) > 1 && !strings.HasPrefix(a, "-1") && !strings.HasPrefix(a, "- ") && !strings.ContainsAny(a, " .|(") {
					plain = false
				} else {
					query = a
					nq++
				}
			}
		}
		if len(r.Args) == 0 {
			query, nq = ".", 1
		}
		if nq == 1 {
			c.Query = query
			c.Plain = plain && len(r.Env) == 0
		}
		out = append(out, c)
	}
	return out, nil
}

// Docs parses a JSON stream with UseNumber off-normalisation left to the
// caller: numbers are json.Number, exactly what the command feeds the query.
func Docs(s string) ([]any, error) {
	dec := json.NewDecoder(strings.NewReader(s))
	dec.UseNumber()
	var vs []any
	for {
		var v any
		if err := dec.Decode(&v); err != nil {
			if err == io.EOF {
				return vs, nil
			}
			return vs, err
		}
		vs = append(vs, v)
	}
}

// Queries returns the distinct query strings of the corpus.
func Queries() ([]string, error) {
	cs, err := Load()
	if err != nil {
		return nil, err
	}
	seen := map[string]bool{}
	var qs []string
	for _, c := range cs {
		if c.Query != "" && !seen[c.Query] {
			seen[c.Query] = true
			qs = append(qs, c.Query)
		}
	}
	return qs, nil
}
