// Package deps pins the modules needed to build cmd/gojq and to use the YAML
// and width libraries from the harness, so that go.mod/go.sum stay complete.
package deps

import (
	_ "github.com/itchyny/go-yaml"
	_ "github.com/itchyny/gojq/cli"
	_ "github.com/mattn/go-runewidth"
)
