// C16 — input modes and argument flags mean what their in-language
// equivalents mean.
//
// Every sub-check is a relation between two invocations of cmd/gojq, or
// between one invocation and a value computed here by an independent reader
// of JSON text (refjson_test.go) / a model of the argument list / a model of a
// queue of input values.  Nothing expected is computed by gojq.
package c16

import (
	"encoding/json"
	"errors"
	"fmt"
	"io"
	"os"
	"path/filepath"
	"strconv"
	"strings"
	"testing"

	"pgregory.net/rapid"

	"verif/internal/cmdline"
	"verif/internal/evid"
)

var rec *evid.Rec

const skipMsg = "\x00skip"

func finish(msg string) string {
	if msg == skipMsg {
		rec.Discard("cli-not-run")
		return ""
	}
	return msg
}

// ---------------------------------------------------------------------------
// plumbing

func setup(files []srcFile) (string, error) {
	dir, err := os.MkdirTemp("", "c16-")
	if err != nil {
		return "", err
	}
	for _, f := range files {
		if err := os.WriteFile(filepath.Join(dir, f.Name), []byte(f.Text), 0o644); err != nil {
			os.RemoveAll(dir)
			return "", err
		}
	}
	return dir, nil
}

type runRes struct {
	cmdline.Result
	Args []string
}

func (r runRes) String() string {
	return fmt.Sprintf("gojq %q -> exit %d, stdout %q, stderr %q", r.Args, r.Exit, clip(r.Stdout), clip(r.Stderr))
}

// gojq runs the command; the second result is a verdict that ends the check
// (skip on harness timeout, violation on a crash).
func gojq(dir, stdin string, args ...string) (runRes, string) {
	r := cmdline.Run(cmdline.Opt{Stdin: []byte(stdin), Dir: dir}, args...)
	if r.Exit == -2 { // the process could not be started (loaded machine): once more, then give up
		r = cmdline.Run(cmdline.Opt{Stdin: []byte(stdin), Dir: dir}, args...)
	}
	rr := runRes{r, args}
	if r.TimedOut || r.Exit == -2 {
		return rr, skipMsg
	}
	if r.Crashed() {
		return rr, "crash: " + rr.String()
	}
	return rr, ""
}

func decodeOut(s string) ([]any, error) {
	dec := json.NewDecoder(strings.NewReader(s))
	dec.UseNumber()
	out := []any{}
	for {
		var v any
		if err := dec.Decode(&v); err != nil {
			if errors.Is(err, io.EOF) {
				return out, nil
			}
			return out, err
		}
		out = append(out, v)
	}
}

func errLines(stderr string) int {
	n := 0
	for _, l := range strings.Split(stderr, "\n") {
		if strings.HasPrefix(l, "gojq: ") {
			n++
		}
	}
	return n
}

func cat(parts ...[]string) []string {
	var out []string
	for _, p := range parts {
		out = append(out, p...)
	}
	return out
}

// consumed reads every consumed source with the reference reader: the
// complete documents in stream order up to the first malformed one.
func consumed(in inputs) (docs []*node, bad bool) {
	for _, text := range in.texts() {
		d, b := readStream(text)
		docs = append(docs, d...)
		if b {
			return docs, true
		}
	}
	return docs, false
}

func modeFlags(mode string) []string {
	switch mode {
	case "stream":
		return []string{"--stream"}
	case "raw":
		return []string{"-R"}
	}
	return nil
}

func rawLines(text string) []string {
	ls := strings.Split(text, "\n")
	if ls[len(ls)-1] == "" {
		ls = ls[:len(ls)-1]
	}
	return ls
}

// linesDefined: `-R` over several sources is only specified here when every
// source but the last ends with a newline (or is empty).
func linesDefined(texts []string) bool {
	for i, s := range texts {
		if i < len(texts)-1 && s != "" && !strings.HasSuffix(s, "\n") {
			return false
		}
	}
	return true
}

// queue: the values the command reads in the given mode, in stream order.
func queue(in inputs, mode string) (vals_ []any, ok bool) {
	switch mode {
	case "raw":
		if !linesDefined(in.texts()) {
			return nil, false
		}
		out := []any{}
		for _, s := range in.texts() {
			for _, l := range rawLines(s) {
				out = append(out, l)
			}
		}
		return out, true
	}
	docs, bad := consumed(in)
	if bad {
		return nil, false
	}
	if mode == "stream" {
		return allEvents(docs), true
	}
	return vals(docs), true
}

// ---------------------------------------------------------------------------
// slurp:  `-s .`  ==  `-n [inputs]`

type slurpCase struct {
	In   inputs `json:"in"`
	Mode string `json:"mode"` // json | stream
}

func checkSlurp(c slurpCase) string { return finish(checkSlurp1(c)) }

func checkSlurp1(c slurpCase) string {
	dir, err := setup(c.In.Files)
	if err != nil {
		return skipMsg
	}
	defer os.RemoveAll(dir)
	base := cat([]string{"-c"}, modeFlags(c.Mode))
	a, v := gojq(dir, c.In.Stdin, cat(base, []string{"-s", "."}, c.In.Operands)...)
	if v != "" {
		return v
	}
	b, v := gojq(dir, c.In.Stdin, cat(base, []string{"-n", "[inputs]"}, c.In.Operands)...)
	if v != "" {
		return v
	}
	if a.Stdout != b.Stdout || a.Exit != b.Exit {
		return fmt.Sprintf("`-s .` and `-n [inputs]` differ:\n  %s\n  %s", a, b)
	}
	want, ok := queue(c.In, c.Mode)
	if !ok { // a malformed document somewhere: an error, and no array
		if a.Exit != 5 {
			return fmt.Sprintf("malformed input but exit %d: %s", a.Exit, a)
		}
		return ""
	}
	if a.Exit != 0 {
		return fmt.Sprintf("well-formed input but %s", a)
	}
	got, err := decodeOut(a.Stdout)
	if err != nil || len(got) != 1 {
		return fmt.Sprintf("expected one array: %s", a)
	}
	if !same(got[0], want) {
		return fmt.Sprintf("slurped array is %s, the documents are %s (%s)", show(got[0]), show(want), a)
	}
	return ""
}

// ---------------------------------------------------------------------------
// order: with -n, input/inputs consume a queue

type op struct {
	Kind string `json:"kind"`
	K    int    `json:"k,omitempty"`
}

var opKinds = []string{"input", "all", "limit", "first", "try", "pair", "swap", "count", "skip", "each", "def", "range", "mark", "input", "try"}

func (o op) text() string {
	switch o.Kind {
	case "input":
		return "input"
	case "all":
		return "[inputs]"
	case "limit":
		return fmt.Sprintf("[limit(%d; inputs)]", o.K)
	case "first":
		return "first(inputs)"
	case "try":
		return `(try input catch "END")`
	case "pair":
		return "[input, input]"
	case "swap":
		return "(input as $x | input as $y | [$y, $x])"
	case "count":
		return "(reduce inputs as $x (0; . + 1))"
	case "skip":
		return "(input | empty)"
	case "each":
		return "inputs"
	case "def":
		return "(def f: input; [f, f])"
	case "range":
		return fmt.Sprintf("[range(%d) | input]", o.K)
	case "mark":
		return `"MARK"`
	}
	return "error(\"bad op\")"
}

// simulate runs the ops against the queue; failed = an `input` found the queue
// empty outside try (the program ends with an error there).
func simulate(q []any, ops []op) (out []any, failed bool) {
	out = []any{}
	pop := func() (any, bool) {
		if len(q) == 0 {
			return nil, false
		}
		v := q[0]
		q = q[1:]
		return v, true
	}
	for _, o := range ops {
		switch o.Kind {
		case "input":
			v, ok := pop()
			if !ok {
				return out, true
			}
			out = append(out, v)
		case "all":
			out = append(out, append([]any{}, q...))
			q = nil
		case "limit":
			n := min(o.K, len(q))
			out = append(out, append([]any{}, q[:n]...))
			q = q[n:]
		case "first":
			if v, ok := pop(); ok {
				out = append(out, v)
			}
		case "try":
			if v, ok := pop(); ok {
				out = append(out, v)
			} else {
				out = append(out, "END")
			}
		case "pair", "def":
			x, ok1 := pop()
			y, ok2 := pop()
			if !ok1 || !ok2 {
				return out, true
			}
			out = append(out, []any{x, y})
		case "swap":
			x, ok1 := pop()
			y, ok2 := pop()
			if !ok1 || !ok2 {
				return out, true
			}
			out = append(out, []any{y, x})
		case "count":
			out = append(out, json.Number(strconv.Itoa(len(q))))
			q = nil
		case "skip":
			if _, ok := pop(); !ok {
				return out, true
			}
		case "each":
			out = append(out, q...)
			q = nil
		case "range":
			arr := []any{}
			for i := 0; i < o.K; i++ {
				v, ok := pop()
				if !ok {
					return out, true
				}
				arr = append(arr, v)
			}
			out = append(out, arr)
		case "mark":
			out = append(out, "MARK")
		}
	}
	return out, false
}

type orderCase struct {
	In     inputs `json:"in"`
	Mode   string `json:"mode"` // json | stream | raw
	Ops    []op   `json:"ops"`
	NFirst bool   `json:"nfirst"` // -n before the program (else after the operands)
}

func checkOrder(c orderCase) string { return finish(checkOrder1(c)) }

func checkOrder1(c orderCase) string {
	q, ok := queue(c.In, c.Mode)
	if !ok {
		rec.Discard("order-unspecified-input")
		return ""
	}
	dir, err := setup(c.In.Files)
	if err != nil {
		return skipMsg
	}
	defer os.RemoveAll(dir)
	var parts []string
	for _, o := range c.Ops {
		parts = append(parts, o.text())
	}
	prog := strings.Join(parts, ", ")
	if len(parts) == 0 {
		prog = "empty"
	}
	var args []string
	if c.NFirst {
		args = cat([]string{"-c", "-n"}, modeFlags(c.Mode), []string{prog}, c.In.Operands)
	} else {
		args = cat([]string{"-c"}, modeFlags(c.Mode), []string{prog}, c.In.Operands, []string{"--null-input"})
	}
	r, v := gojq(dir, c.In.Stdin, args...)
	if v != "" {
		return v
	}
	want, failed := simulate(q, c.Ops)
	got, err := decodeOut(r.Stdout)
	if err != nil {
		return fmt.Sprintf("unreadable output (%v): %s", err, r)
	}
	if !sameList(got, want) {
		return fmt.Sprintf("inputs %s consumed by `%s`: got %s, want %s (%s)", showList(q), prog, showList(got), showList(want), r)
	}
	if failed {
		if r.Exit != 5 || errLines(r.Stderr) != 1 {
			return fmt.Sprintf("`input` past the end must be one error (exit 5): %s", r)
		}
	} else if r.Exit != 0 || r.Stderr != "" {
		return fmt.Sprintf("no error expected: %s", r)
	}
	return ""
}

// ---------------------------------------------------------------------------
// stream: complete documents

type streamCase struct {
	In      inputs `json:"in"`
	Rebuild int    `json:"rebuild"`
}

var rebuilds = [][]string{
	{"-n", "fromstream(inputs)"},
	{"-s", "fromstream(.[])"},
	{"-n", "[inputs] | fromstream(.[])"},
}

func checkStream(c streamCase) string { return finish(checkStream1(c)) }

func checkStream1(c streamCase) string {
	docs, bad := consumed(c.In)
	if bad {
		return "bad case: malformed document"
	}
	dir, err := setup(c.In.Files)
	if err != nil {
		return skipMsg
	}
	defer os.RemoveAll(dir)
	// (1) the events, exactly, members in text order
	r, v := gojq(dir, c.In.Stdin, cat([]string{"--stream", "-c", "."}, c.In.Operands)...)
	if v != "" {
		return v
	}
	got, err := decodeOut(r.Stdout)
	if err != nil || r.Exit != 0 || r.Stderr != "" {
		return fmt.Sprintf("--stream on well-formed input: %s", r)
	}
	want := allEvents(docs)
	if !sameList(got, want) {
		return fmt.Sprintf("--stream events are %s, the documents' events are %s (%s)", showList(got), showList(want), r)
	}
	// (2) fromstream rebuilds every document
	rb := rebuilds[c.Rebuild%len(rebuilds)]
	r2, v := gojq(dir, c.In.Stdin, cat([]string{"--stream", "-c"}, rb, c.In.Operands)...)
	if v != "" {
		return v
	}
	got2, err := decodeOut(r2.Stdout)
	if err != nil || r2.Exit != 0 || r2.Stderr != "" {
		return fmt.Sprintf("fromstream over --stream: %s", r2)
	}
	if !sameList(got2, vals(docs)) {
		return fmt.Sprintf("fromstream rebuilt %s from documents %s (%s)", showList(got2), showList(vals(docs)), r2)
	}
	// (3) equal to tostream up to object key order
	r3, v := gojq(dir, c.In.Stdin, cat([]string{"-c", "tostream"}, c.In.Operands)...)
	if v != "" {
		return v
	}
	got3, err := decodeOut(r3.Stdout)
	if err != nil || r3.Exit != 0 {
		return fmt.Sprintf("tostream: %s", r3)
	}
	l1, c1, ok1 := canonEvents(got)
	l3, c3, ok3 := canonEvents(got3)
	if !ok1 || !ok3 || !eqStrings(l1, l3) || !eqStrings(c1, c3) {
		return fmt.Sprintf("--stream events %s and tostream events %s differ by more than object key order", showList(got), showList(got3))
	}
	return ""
}

// ---------------------------------------------------------------------------
// trunc: a document cut after Cut bytes

type truncCase struct {
	Prefix string `json:"prefix"` // complete documents (and whitespace) before
	Doc    string `json:"doc"`
	Cut    int    `json:"cut"`  // bytes of Doc kept, 1..len(Doc)
	File   bool   `json:"file"` // read from a file operand instead of stdin
}

const classPartialNumber = "C16/stream-cut-inside-number"

func checkTrunc(c truncCase, strict bool) string { return finish(checkTrunc1(c, strict)) }

func checkTrunc1(c truncCase, strict bool) string {
	pre, bad := readStream(c.Prefix)
	if bad {
		return "bad case: prefix"
	}
	ds, bad := readStream(c.Doc)
	if bad || len(ds) != 1 || ds[0].Start != 0 || ds[0].End != len(c.Doc) || c.Cut < 1 || c.Cut > len(c.Doc) {
		return "bad case: doc"
	}
	if c.Prefix != "" && !isWS(c.Prefix[len(c.Prefix)-1]) && !delim(c.Prefix[len(c.Prefix)-1]) && !delim(c.Doc[0]) {
		return "bad case: separator"
	}
	doc := ds[0]
	if doc.Kind == 'n' && c.Cut < len(c.Doc) {
		return "bad case: a top-level number has no inside"
	}
	text := c.Prefix + c.Doc[:c.Cut]
	var files []srcFile
	args := []string{"--stream", "-c", "."}
	stdin := text
	if c.File {
		files = []srcFile{{Name: "t.json", Text: text}}
		args = append(args, "t.json")
		stdin = ""
	}
	dir, err := setup(files)
	if err != nil {
		return skipMsg
	}
	defer os.RemoveAll(dir)
	r, v := gojq(dir, stdin, args...)
	if v != "" {
		return v
	}
	got, err := decodeOut(r.Stdout)
	if err != nil {
		return fmt.Sprintf("unreadable output (%v): %s", err, r)
	}
	before := allEvents(pre)
	if c.Cut == len(c.Doc) {
		want := append(before, allEvents(ds)...)
		if !sameList(got, want) || r.Exit != 0 || r.Stderr != "" {
			return fmt.Sprintf("complete document: want events %s and no error: %s", showList(want), r)
		}
		return ""
	}
	must, atEnd, partial := truncEvents(doc, c.Doc, c.Cut)
	want := append(before, must...)
	okOut := sameList(got, want)
	alt := ""
	if !okOut && atEnd != nil {
		okOut = sameList(got, append(append([]any{}, want...), atEnd))
		alt = " (optionally followed by " + show(atEnd) + ")"
	}
	if !okOut && partial != nil && !strict {
		okOut = sameList(got, append(append([]any{}, want...), partial))
	}
	if !okOut {
		return fmt.Sprintf("input %q (document %q cut after %d bytes): events %s, want the events before the cut %s%s; %s",
			text, c.Doc, c.Cut, showList(got), showList(want), alt, r)
	}
	if r.Exit != 5 || errLines(r.Stderr) != 1 {
		return fmt.Sprintf("input %q (document cut after %d bytes): want exactly one error and exit 5: %s", text, c.Cut, r)
	}
	return ""
}

// cutsInsideNumber reports whether the cut splits a number token whose read
// part is itself a number (the structural class of finding C16.F1).
func cutInsideNumber(c truncCase) bool {
	ds, bad := readStream(c.Doc)
	if bad || len(ds) != 1 || c.Cut >= len(c.Doc) {
		return false
	}
	_, _, partial := truncEvents(ds[0], c.Doc, c.Cut)
	return partial != nil
}

// ---------------------------------------------------------------------------
// raw: -R lines, -Rs whole text

type rawCase struct {
	In      inputs `json:"in"`
	Variant string `json:"variant"`
}

var rawVariants = map[string][]string{
	"lines":    {"-R", "-c", "."},
	"lines-n":  {"-c", "--raw-input", "-n", "[inputs]"},
	"lines-nR": {"-nRc", "[inputs]"},
	"text":     {"-Rs", "-c", "."},
	"text2":    {"-c", "--slurp", "-R", "."},
	"text-n":   {"-sRn", "-c", "[inputs]"},
}
var rawVariantNames = []string{"lines", "lines-n", "lines-nR", "text", "text2", "text-n"}

func checkRaw(c rawCase) string { return finish(checkRaw1(c)) }

func checkRaw1(c rawCase) string {
	flags, ok := rawVariants[c.Variant]
	if !ok {
		return "bad case: variant"
	}
	texts := c.In.texts()
	var want []any
	switch c.Variant {
	case "lines", "lines-n", "lines-nR":
		if !linesDefined(texts) {
			rec.Discard("raw-lines-across-unterminated-file")
			return ""
		}
		ls := []any{}
		for _, s := range texts {
			for _, l := range rawLines(s) {
				ls = append(ls, l)
			}
		}
		if c.Variant == "lines" {
			want = ls
		} else {
			want = []any{ls}
		}
	case "text", "text2":
		want = []any{strings.Join(texts, "")}
	case "text-n":
		want = []any{[]any{strings.Join(texts, "")}}
	}
	dir, err := setup(c.In.Files)
	if err != nil {
		return skipMsg
	}
	defer os.RemoveAll(dir)
	r, v := gojq(dir, c.In.Stdin, cat(flags, c.In.Operands)...)
	if v != "" {
		return v
	}
	got, err := decodeOut(r.Stdout)
	if err != nil || r.Exit != 0 || r.Stderr != "" {
		return fmt.Sprintf("raw input: %s", r)
	}
	if !sameList(got, want) {
		return fmt.Sprintf("texts %q read with %q: got %s, want %s", texts, flags, showList(got), showList(want))
	}
	return ""
}

// ---------------------------------------------------------------------------
// args: named and positional arguments

type argItem struct {
	Kind string `json:"kind"` // arg argjson slurpfile rawfile | args jsonargs | pos | query | ddash
	Name string `json:"name,omitempty"`
	Text string `json:"text,omitempty"` // value; file contents for slurpfile/rawfile
}

type argsCase struct {
	Lead  []string  `json:"lead"`
	Items []argItem `json:"items"`
	// Mode: "" = the binding flags alone (Lead holds -n).  Otherwise the name
	// of an input-mode cluster whose flag tokens are "flag" items among Items;
	// the main input Stdin is valid in that mode and the program also reports
	// `.` for every main input.
	Mode     string   `json:"mode,omitempty"`
	Stdin    string   `json:"stdin,omitempty"`
	MainWant []string `json:"mainwant,omitempty"` // yaml mode: the main input values as JSON texts
}

// argModes: the input-mode clusters and the spellings of their flags.
var argModes = map[string][][]string{
	"json":        {{}},
	"stream":      {{"--stream"}},
	"raw":         {{"-R"}, {"--raw-input"}},
	"rawslurp":    {{"-Rs"}, {"-sR"}, {"-R", "-s"}, {"--slurp", "--raw-input"}},
	"slurp":       {{"-s"}, {"--slurp"}},
	"null":        {{"-n"}, {"--null-input"}},
	"yaml":        {{"--yaml-input"}},
	"streamslurp": {{"--stream", "-s"}, {"-s", "--stream"}, {"--slurp", "--stream"}},
	"nullraw":     {{"-nR"}, {"-Rn"}, {"-n", "--raw-input"}},
}
var argModeNames = []string{"json", "stream", "raw", "rawslurp", "slurp", "null", "yaml", "streamslurp", "nullraw"}

// mainValues: what the mode alone makes of the main input.
func mainValues(c argsCase) ([]any, bool) {
	switch c.Mode {
	case "null", "nullraw":
		return []any{nil}, true
	case "raw":
		out := []any{}
		for _, l := range rawLines(c.Stdin) {
			out = append(out, l)
		}
		return out, true
	case "rawslurp":
		return []any{c.Stdin}, true
	case "yaml":
		out := []any{}
		for _, w := range c.MainWant {
			vs, err := decodeOut(w)
			if err != nil || len(vs) != 1 {
				return nil, false
			}
			out = append(out, vs[0])
		}
		return out, true
	}
	docs, bad := readStream(c.Stdin)
	if bad {
		return nil, false
	}
	switch c.Mode {
	case "json":
		return vals(docs), true
	case "stream":
		return allEvents(docs), true
	case "slurp":
		return []any{vals(docs)}, true
	case "streamslurp":
		return []any{allEvents(docs)}, true
	}
	return nil, false
}

func checkArgs(c argsCase) string { return finish(checkArgs1(c)) }

func checkArgs1(c argsCase) string {
	named := map[string]any{}
	var names []string
	positional := []any{}
	jsonMode, switched, haveQuery, dd := false, false, false, false
	var files []srcFile
	args := append([]string{}, c.Lead...)
	qAt := -1
	one := func(text string) (any, bool) {
		ds, bad := readStream(text)
		if bad || len(ds) != 1 {
			return nil, false
		}
		return ds[0].val(), true
	}
	for i, it := range c.Items {
		switch it.Kind {
		case "arg", "argjson", "slurpfile", "rawfile":
			if dd || it.Name == "" {
				return "bad case: named argument"
			}
			var val any
			value := it.Text
			switch it.Kind {
			case "arg":
				val = it.Text
			case "argjson":
				v, ok := one(it.Text)
				if !ok {
					return "bad case: argjson text"
				}
				val = v
			case "slurpfile":
				ds, bad := readStream(it.Text)
				if bad {
					return "bad case: slurpfile text"
				}
				val = vals(ds)
				value = fmt.Sprintf("v%d.dat", i)
				files = append(files, srcFile{Name: value, Text: it.Text})
			case "rawfile":
				val = it.Text
				value = fmt.Sprintf("v%d.dat", i)
				files = append(files, srcFile{Name: value, Text: it.Text})
			}
			if _, ok := named[it.Name]; !ok { // first binding wins
				named[it.Name] = val
				names = append(names, it.Name)
			}
			args = append(args, "--"+it.Kind, it.Name, value)
		case "args", "jsonargs":
			if dd {
				return "bad case: switch after --"
			}
			jsonMode, switched = it.Kind == "jsonargs", true
			args = append(args, "--"+it.Kind)
		case "ddash":
			dd = true
			args = append(args, "--")
		case "flag":
			if dd || len(it.Text) < 2 || it.Text[0] != '-' {
				return "bad case: flag item"
			}
			args = append(args, it.Text)
		case "query":
			if haveQuery {
				return "bad case: two queries"
			}
			haveQuery = true
			qAt = len(args)
			args = append(args, "")
		case "pos":
			if !haveQuery || !switched {
				return "bad case: positional before the query or --args"
			}
			if !dd && len(it.Text) > 1 && it.Text[0] == '-' && !(it.Text[1] >= '0' && it.Text[1] <= '9' || it.Text[1] == '.') {
				return "bad case: positional looks like a flag"
			}
			if jsonMode {
				v, ok := one(it.Text)
				if !ok {
					return "bad case: jsonargs text"
				}
				positional = append(positional, v)
			} else {
				positional = append(positional, it.Text)
			}
			args = append(args, it.Text)
		default:
			return "bad case: item kind"
		}
	}
	if !haveQuery {
		return "bad case: no query"
	}
	vars := make([]string, len(names))
	wantVars := make([]any, len(names))
	for i, n := range names {
		vars[i] = "$" + n
		wantVars[i] = named[n]
	}
	args[qAt] = "[$ARGS, [" + strings.Join(vars, ", ") + "], $ARGS.named, $ARGS.positional]"
	want := []any{map[string]any{"named": named, "positional": positional}, wantVars, named, positional}

	dir, err := setup(files)
	if err != nil {
		return skipMsg
	}
	defer os.RemoveAll(dir)
	if c.Mode != "" {
		mains, ok := mainValues(c)
		if !ok {
			return "bad case: main input"
		}
		args[qAt] = "[., $ARGS, [" + strings.Join(vars, ", ") + "], $ARGS.named, $ARGS.positional]"
		r, v := gojq(dir, c.Stdin, args...)
		if v != "" {
			return v
		}
		got, err := decodeOut(r.Stdout)
		if err != nil || r.Exit != 0 || r.Stderr != "" {
			return fmt.Sprintf("argument flags with input mode %s: %s", c.Mode, r)
		}
		if len(got) != len(mains) {
			return fmt.Sprintf("gojq %q on %q: %d results for the %d main inputs %s of mode %s: %s", args, c.Stdin, len(got), len(mains), showList(mains), c.Mode, r)
		}
		for i, g := range got {
			w := append([]any{mains[i]}, want...)
			if !same(g, w) {
				return fmt.Sprintf("gojq %q on %q (mode %s): [., $ARGS, [vars], $ARGS.named, $ARGS.positional] = %s, want %s", args, c.Stdin, c.Mode, show(g), show(w))
			}
		}
		return ""
	}
	r, v := gojq(dir, "\"UNREAD-STDIN\"", args...)
	if v != "" {
		return v
	}
	got, err := decodeOut(r.Stdout)
	if err != nil || r.Exit != 0 || r.Stderr != "" || len(got) != 1 {
		return fmt.Sprintf("argument flags: %s", r)
	}
	if !same(got[0], want) {
		return fmt.Sprintf("gojq %q: [$ARGS, [vars], $ARGS.named, $ARGS.positional] = %s, want %s", args, show(got[0]), show(want))
	}
	return ""
}

// ---------------------------------------------------------------------------
// fromfile:  -f file  ==  the file's text as the program argument

const qMark = "\x00QUERY"

type fileCase struct {
	Base  string   `json:"base"`  // the undecorated program
	Query string   `json:"query"` // the program text (file contents)
	Args  []string `json:"args"`  // command line; qMark stands for the program / the file name
	FFlag string   `json:"fflag"` // -f | --from-file | clump
	FPos  int      `json:"fpos"`  // where the flag is inserted
	In    inputs   `json:"in"`    // stdin, files, operands (the operands are also in Args)
}

func checkFile(c fileCase) string { return finish(checkFile1(c)) }

func checkFile1(c fileCase) string {
	var a, b []string
	for i, x := range c.Args {
		if c.FFlag != "clump" && i == c.FPos {
			b = append(b, c.FFlag)
		}
		if x == qMark {
			a = append(a, c.Query)
			b = append(b, "prog.jq")
			continue
		}
		a = append(a, x)
		if c.FFlag == "clump" && i == c.FPos {
			if len(x) < 2 || x[0] != '-' || x[1] == '-' {
				return "bad case: clump target"
			}
			x += "f"
		}
		b = append(b, x)
	}
	if c.FFlag != "clump" && c.FPos >= len(c.Args) {
		b = append(b, c.FFlag)
	}
	files := append(append([]srcFile{}, c.In.Files...), srcFile{Name: "prog.jq", Text: c.Query})
	dir, err := setup(files)
	if err != nil {
		return skipMsg
	}
	defer os.RemoveAll(dir)
	ra, v := gojq(dir, c.In.Stdin, a...)
	if v != "" {
		return v
	}
	rb, v := gojq(dir, c.In.Stdin, b...)
	if v != "" {
		return v
	}
	if ra.Stdout != rb.Stdout || ra.Exit != rb.Exit {
		return fmt.Sprintf("program as argument and from file differ:\n  %s\n  %s", ra, rb)
	}
	if (ra.Exit == 0 || ra.Exit == 5) && ra.Stderr != rb.Stderr {
		return fmt.Sprintf("program as argument and from file differ on stderr:\n  %s\n  %s", ra, rb)
	}
	if ra.Exit == 2 {
		return fmt.Sprintf("bad case: usage error: %s", ra)
	}
	rec.Class(fmt.Sprintf("fromfile/exit%d", ra.Exit))
	if c.Base == "." && ra.Exit == 0 {
		// an independent anchor so that the relation is not vacuous
		docs, bad := consumed(c.In)
		nullInput, compact := false, false
		for _, x := range c.Args {
			if x == "-n" || x == "--null-input" {
				nullInput = true
			}
			if x == "-c" {
				compact = true
			}
		}
		if !bad && !nullInput && compact {
			got, err := decodeOut(rb.Stdout)
			if err != nil || !sameList(got, vals(docs)) {
				return fmt.Sprintf("`-f file` with program `.`: got %s, the documents are %s (%s)", showList(got), showList(vals(docs)), rb)
			}
		}
	}
	return ""
}

// ---------------------------------------------------------------------------
// malformed: every complete value before, one error, end of input

type malCase struct {
	In      inputs `json:"in"` // only the last consumed source may be malformed
	Variant string `json:"variant"`
}

var malVariants = []string{"main", "inputs", "try", "main", "inputs-stdin-order"}

func checkMal(c malCase) string { return finish(checkMal1(c)) }

func checkMal1(c malCase) string {
	texts := c.In.texts()
	var docs []*node
	bad := false
	for i, s := range texts {
		d, b := readStream(s)
		docs = append(docs, d...)
		if b && i < len(texts)-1 {
			return "bad case: malformed document before the last source"
		}
		bad = b
	}
	dir, err := setup(c.In.Files)
	if err != nil {
		return skipMsg
	}
	defer os.RemoveAll(dir)
	var args []string
	want := vals(docs)
	wantExit := 0
	if bad {
		wantExit = 5
	}
	switch c.Variant {
	case "main":
		args = cat([]string{"-c", "."}, c.In.Operands)
	case "inputs", "inputs-stdin-order":
		args = cat([]string{"-c", "-n", "inputs"}, c.In.Operands)
	case "try":
		args = cat([]string{"-n", "-c", `(try inputs catch "ERROR"), (try input catch "END"), (try input catch "END")`}, c.In.Operands)
		if bad {
			want = append(want, "ERROR")
		}
		want = append(want, "END", "END")
		wantExit = 0
	default:
		return "bad case: variant"
	}
	r, v := gojq(dir, c.In.Stdin, args...)
	if v != "" {
		return v
	}
	got, err := decodeOut(r.Stdout)
	if err != nil {
		return fmt.Sprintf("unreadable output (%v): %s", err, r)
	}
	if !sameList(got, want) {
		return fmt.Sprintf("texts %q: got %s, want %s (%s)", texts, showList(got), showList(want), r)
	}
	if r.Exit != wantExit {
		return fmt.Sprintf("texts %q: want exit %d: %s", texts, wantExit, r)
	}
	wantErrs := 0
	if wantExit == 5 {
		wantErrs = 1
	}
	if errLines(r.Stderr) != wantErrs {
		return fmt.Sprintf("texts %q: want %d error message(s): %s", texts, wantErrs, r)
	}
	return ""
}

// ---------------------------------------------------------------------------
// replay

func replayCase(sub string, raw json.RawMessage) string {
	un := func(v any) string {
		if err := json.Unmarshal(raw, v); err != nil {
			return "bad replay: " + err.Error()
		}
		return ""
	}
	switch sub {
	case "slurp":
		var c slurpCase
		if m := un(&c); m != "" {
			return m
		}
		return checkSlurp(c)
	case "order":
		var c orderCase
		if m := un(&c); m != "" {
			return m
		}
		return checkOrder(c)
	case "stream", "stream-shapes":
		var c streamCase
		if m := un(&c); m != "" {
			return m
		}
		return checkStream(c)
	case "trunc", "trunc-shapes":
		var c truncCase
		if m := un(&c); m != "" {
			return m
		}
		return checkTrunc(c, true)
	case "raw":
		var c rawCase
		if m := un(&c); m != "" {
			return m
		}
		return checkRaw(c)
	case "args", "args-mode":
		var c argsCase
		if m := un(&c); m != "" {
			return m
		}
		return checkArgs(c)
	case "fromfile":
		var c fileCase
		if m := un(&c); m != "" {
			return m
		}
		return checkFile(c)
	case "malformed":
		var c malCase
		if m := un(&c); m != "" {
			return m
		}
		return checkMal(c)
	case "multi-bad":
		var c multiCase
		if m := un(&c); m != "" {
			return m
		}
		return checkMulti(c)
	case "yaml-trunc":
		var c yamlCase
		if m := un(&c); m != "" {
			return m
		}
		return checkYAML(c, false, false) // replays ignore the exclusions
	}
	return "unknown sub " + sub
}

// ---------------------------------------------------------------------------
// helpers for the generators that need the case types

func key(v any) string {
	b, _ := json.Marshal(v)
	return string(b)
}

func containers(ms []*node) int {
	n := 0
	for _, m := range ms {
		if m.container() {
			n++
		}
	}
	return n
}

// selfCheck: the reference reader must read back exactly the models that were
// rendered (guards the harness, not gojq).
func selfCheck(t *rapid.T, in inputs, models []*node) {
	docs, bad := consumed(in)
	if bad || len(docs) != len(models) {
		t.Fatalf("HARNESS BUG: rendered %d documents, read back %d (bad=%v): %q", len(models), len(docs), bad, in.texts())
	}
	for i := range docs {
		if !same(docs[i].val(), models[i].val()) || !sameKeys(docs[i], models[i]) {
			t.Fatalf("HARNESS BUG: document %d read back as %s, model %s", i, show(docs[i].val()), show(models[i].val()))
		}
	}
}

func sameKeys(a, b *node) bool {
	if a.Kind != b.Kind || len(a.Elems) != len(b.Elems) || len(a.Keys) != len(b.Keys) {
		return false
	}
	for i := range a.Keys {
		if a.Keys[i] != b.Keys[i] {
			return false
		}
	}
	for i := range a.Elems {
		if !sameKeys(a.Elems[i], b.Elems[i]) {
			return false
		}
	}
	return true
}

// ---------------------------------------------------------------------------
// bounded-exhaustive document shapes for --stream

// shapes enumerates every document with at most n nodes over the leaves
// 12, "s", [], {} (and true when rich) and the containers array / object
// (object members keyed b, a, c in that text order).
func shapes(n int, rich bool) []string {
	leaves := []string{"12", `"s"`, "[]", "{}"}
	if rich {
		leaves = append(leaves, "true")
	}
	keys := []string{"b", "a", "c", "d"}
	// forests[k][m]: all sequences of m trees with k nodes in total
	memoT := map[int][]string{}
	var trees func(k int) []string
	var forests func(k, m int) [][]string
	memoF := map[[2]int][][]string{}
	forests = func(k, m int) [][]string {
		if m == 0 {
			if k == 0 {
				return [][]string{{}}
			}
			return nil
		}
		if r, ok := memoF[[2]int{k, m}]; ok {
			return r
		}
		var out [][]string
		for first := 1; first <= k-(m-1); first++ {
			for _, t := range trees(first) {
				for _, rest := range forests(k-first, m-1) {
					out = append(out, append([]string{t}, rest...))
				}
			}
		}
		memoF[[2]int{k, m}] = out
		return out
	}
	trees = func(k int) []string {
		if r, ok := memoT[k]; ok {
			return r
		}
		var out []string
		if k == 1 {
			out = append(out, leaves...)
		}
		for m := 1; m <= k-1 && m <= len(keys); m++ {
			for _, f := range forests(k-1, m) {
				out = append(out, "["+strings.Join(f, ",")+"]")
				var sb strings.Builder
				sb.WriteByte('{')
				for i, c := range f {
					if i > 0 {
						sb.WriteByte(',')
					}
					sb.WriteString(`"` + keys[i] + `":` + c)
				}
				sb.WriteByte('}')
				out = append(out, sb.String())
			}
		}
		memoT[k] = out
		return out
	}
	var all []string
	for k := 1; k <= n; k++ {
		all = append(all, trees(k)...)
	}
	return all
}

// ---------------------------------------------------------------------------

func TestC16(t *testing.T) {
	rec = evid.Open("C16")
	defer rec.Close()
	rec.Replays(replayCase)
	if rec.ReplayPath() != "" {
		return
	}
	strictNumbers := !rec.KnownClass(classPartialNumber)

	// (E) every small document shape, complete and cut after every byte
	{
		docs := shapes(rec.Scale(4, 5), rec.Thorough())
		complete := true
		cuts := 0
		for i, d := range docs {
			if !rec.Mine(i) {
				continue
			}
			prefix := ""
			if i%3 == 1 {
				prefix = `{"p":[0]}` + []string{"", " ", "\n"}[i/3%3]
			}
			sc := streamCase{In: inputs{Stdin: prefix + d + "\n"}, Rebuild: i}
			rec.Eval()
			rec.Class("shapes/complete")
			if d[0] == '[' || d[0] == '{' {
				rec.NT("shape/" + prefix + d)
			}
			if msg := checkStream(sc); msg != "" {
				rec.Direct("stream-shapes", sc, "%s", msg)
				complete = false
			}
			if d == "12" {
				continue
			}
			for cut := 1; cut < len(d); cut++ {
				c := truncCase{Prefix: prefix, Doc: d, Cut: cut, File: (i+cut)%2 == 0}
				strict := strictNumbers
				if cutInsideNumber(c) {
					rec.Class("shapes/cut-inside-number")
					if !strict {
						rec.Excluded(classPartialNumber)
					}
				}
				rec.Eval()
				cuts++
				rec.Class("shapes/cut")
				if len(d) > 2 {
					rec.NT(fmt.Sprintf("cut/%s%s/%d", prefix, d, cut))
				}
				if msg := checkTrunc(c, strict); msg != "" {
					rec.Direct("trunc-shapes", c, "%s", msg)
					complete = false
					if rec.Violations() > 20 {
						t.Fatalf("too many violations")
					}
				}
			}
		}
		rec.Exhaustive(fmt.Sprintf("stream-shapes(%d documents of <= %d nodes, every cut)", len(docs), rec.Scale(4, 5)), complete)
		rec.Extra("shape_documents", len(docs))
	}

	rec.Rapid(t, "slurp", rec.Scale(1200, 20000), func(t *rapid.T) {
		in, models := genJSONInputs(t, 3)
		selfCheck(t, in, models)
		c := slurpCase{In: in, Mode: pick(t, "mode", []string{"json", "json", "stream"})}
		if chance(t, "malformed", 6) {
			c.In = appendBad(t, c.In)
			rec.Class("slurp/malformed")
		} else {
			rec.Class("slurp/" + c.Mode)
		}
		rec.Eval()
		rec.Class(fmt.Sprintf("layout/operands=%d", len(c.In.Operands)))
		if len(models) >= 2 && containers(models) >= 1 {
			rec.NT("slurp/" + key(c))
		}
		rec.Sample(c)
		if msg := checkSlurp(c); msg != "" {
			t.Fatalf("%s", rec.Fail("slurp", c, "%s", msg))
		}
	})

	rec.Rapid(t, "order", rec.Scale(2400, 40000), func(t *rapid.T) {
		c := orderCase{Mode: pick(t, "mode", []string{"json", "json", "json", "stream", "raw"}), NFirst: !chance(t, "nlast", 4)}
		nvals := 0
		if c.Mode == "raw" {
			c.In = genRawInputs(t, true)
			q, _ := queue(c.In, "raw")
			nvals = len(q)
		} else {
			in, models := genJSONInputs(t, 3)
			selfCheck(t, in, models)
			c.In = in
			nvals = len(models)
			if c.Mode == "stream" {
				q, _ := queue(c.In, "stream")
				nvals = len(q)
			}
		}
		for i, n := 0, rapid.IntRange(1, 5).Draw(t, "nops"); i < n; i++ {
			o := op{Kind: pick(t, "op", opKinds)}
			if o.Kind == "limit" || o.Kind == "range" {
				o.K = rapid.IntRange(0, 3).Draw(t, "k")
			}
			c.Ops = append(c.Ops, o)
		}
		rec.Eval()
		rec.Class("order/" + c.Mode)
		rec.Class(fmt.Sprintf("layout/operands=%d", len(c.In.Operands)))
		if _, failed := simulate(make([]any, nvals), c.Ops); failed {
			rec.Class("order/past-the-end")
		}
		if nvals >= 2 && len(c.In.Operands) >= 2 {
			rec.Class("order/multi-source")
		}
		if nvals >= 2 {
			rec.NT("order/" + key(c))
		}
		rec.Sample(c)
		if msg := checkOrder(c); msg != "" {
			t.Fatalf("%s", rec.Fail("order", c, "%s", msg))
		}
	})

	rec.Rapid(t, "stream", rec.Scale(1200, 20000), func(t *rapid.T) {
		in, models := genJSONInputs(t, 3)
		selfCheck(t, in, models)
		c := streamCase{In: in, Rebuild: rapid.IntRange(0, len(rebuilds)-1).Draw(t, "rebuild")}
		rec.Eval()
		rec.Class("stream/complete")
		if len(models) >= 2 && containers(models) >= 1 {
			rec.NT("stream/" + key(c))
		}
		rec.Sample(c)
		if msg := checkStream(c); msg != "" {
			t.Fatalf("%s", rec.Fail("stream", c, "%s", msg))
		}
	})

	// one rapid case = one document, cut after every byte
	rec.Rapid(t, "trunc", rec.Scale(400, 6000), func(t *rapid.T) {
		var pre []string
		for i, n := 0, rapid.IntRange(0, 2).Draw(t, "npre")*rapid.IntRange(0, 1).Draw(t, "pre?"); i < n; i++ {
			pre = append(pre, renderDoc(t, genNode(t, 2, false)))
		}
		m := genNode(t, rapid.IntRange(1, 3).Draw(t, "depth"), !chance(t, "scalar", 8))
		if m.Kind == 'n' {
			m = &node{Kind: 's', Str: m.Num}
		}
		doc := renderDoc(t, m)
		prefix := ""
		if len(pre) > 0 {
			prefix = joinDocs(t, pre)
			if !isWS(prefix[len(prefix)-1]) && !(delim(prefix[len(prefix)-1]) && chance(t, "nosep", 2)) {
				prefix += pick(t, "sep", []string{" ", "\n", "\t"})
			}
		}
		file := rapid.Bool().Draw(t, "file")
		if len(doc) > 400 {
			rec.Discard("trunc-long-document")
			return
		}
		for cut := 1; cut <= len(doc); cut++ {
			c := truncCase{Prefix: prefix, Doc: doc, Cut: cut, File: file}
			strict := strictNumbers
			inside := cutInsideNumber(c)
			if inside {
				rec.Class("trunc/cut-inside-number")
				if !strict {
					rec.Excluded(classPartialNumber)
				}
			}
			rec.Eval()
			rec.Class("trunc/cut")
			if m.container() && cut < len(doc) {
				rec.NT(fmt.Sprintf("trunc/%s|%s|%d", prefix, doc, cut))
			}
			if cut == len(doc)/2 {
				rec.Sample(c)
			}
			if msg := checkTrunc(c, strict); msg != "" {
				t.Fatalf("%s", rec.Fail("trunc", c, "%s", msg))
			}
		}
	})

	rec.Rapid(t, "raw", rec.Scale(1200, 20000), func(t *rapid.T) {
		c := rawCase{Variant: pick(t, "variant", rawVariantNames)}
		c.In = genRawInputs(t, strings.HasPrefix(c.Variant, "lines"))
		rec.Eval()
		rec.Class("raw/" + c.Variant)
		all := strings.Join(c.In.texts(), "")
		if strings.Contains(all, "\r\n") {
			rec.Class("raw/crlf")
		}
		if all != "" && !strings.HasSuffix(all, "\n") {
			rec.Class("raw/no-final-newline")
		}
		if strings.Count(all, "\n") >= 2 {
			rec.NT("raw/" + key(c))
		}
		rec.Sample(c)
		if msg := checkRaw(c); msg != "" {
			t.Fatalf("%s", rec.Fail("raw", c, "%s", msg))
		}
	})

	rec.Rapid(t, "args", rec.Scale(2400, 40000), func(t *rapid.T) {
		c := genArgsCase(t)
		rec.Eval()
		seen := map[string]bool{}
		repeated, switches, pos := false, 0, 0
		for _, it := range c.Items {
			switch it.Kind {
			case "arg", "argjson", "slurpfile", "rawfile":
				if seen[it.Name] {
					repeated = true
				}
				seen[it.Name] = true
				rec.Class("args/" + it.Kind)
			case "args", "jsonargs":
				switches++
			case "pos":
				pos++
			case "ddash":
				rec.Class("args/double-dash")
			}
		}
		if repeated {
			rec.Class("args/repeated-name")
			rec.NT("args/" + key(c))
		}
		if switches >= 2 && pos >= 2 {
			rec.Class("args/mixed-positional")
			rec.NT("args/" + key(c))
		}
		rec.Sample(c)
		if msg := checkArgs(c); msg != "" {
			t.Fatalf("%s", rec.Fail("args", c, "%s", msg))
		}
	})

	rec.Rapid(t, "args-mode", rec.Scale(2000, 30000), func(t *rapid.T) {
		c := genArgsModeCase(t)
		rec.Eval()
		rec.Class("args-mode/" + c.Mode)
		for _, it := range c.Items {
			switch it.Kind {
			case "arg", "argjson", "slurpfile", "rawfile", "args", "jsonargs":
				rec.Class("args-mode/" + c.Mode + "+" + it.Kind)
			}
		}
		if c.Mode != "json" {
			rec.NT("args-mode/" + key(c))
		}
		rec.Sample(c)
		if msg := checkArgs(c); msg != "" {
			t.Fatalf("%s", rec.Fail("args-mode", c, "%s", msg))
		}
	})

	rec.Rapid(t, "fromfile", rec.Scale(1200, 20000), func(t *rapid.T) {
		c := genFileCase(t)
		rec.Eval()
		rec.Class("fromfile/" + c.FFlag)
		if len(c.Args) > 2 {
			rec.NT("fromfile/" + key(c))
		}
		rec.Sample(c)
		if msg := checkFile(c); msg != "" {
			t.Fatalf("%s", rec.Fail("fromfile", c, "%s", msg))
		}
	})

	rec.Rapid(t, "malformed", rec.Scale(2000, 30000), func(t *rapid.T) {
		in, models := genJSONInputs(t, 3)
		selfCheck(t, in, models)
		c := malCase{In: in, Variant: pick(t, "variant", malVariants)}
		if !chance(t, "wellformed", 8) {
			c.In = appendBad(t, c.In)
		}
		docs, bad := consumed(c.In)
		if bad && len(docs) < len(models) {
			t.Fatalf("HARNESS BUG: complete documents lost by appending a malformed one: %q", c.In.texts())
		}
		rec.Eval()
		if bad {
			rec.Class("malformed/" + c.Variant)
		} else {
			rec.Class("malformed/none")
		}
		if bad && len(docs) >= 2 && containers(docs) >= 1 {
			rec.NT("malformed/" + key(c))
		}
		rec.Sample(c)
		if msg := checkMal(c); msg != "" {
			t.Fatalf("%s", rec.Fail("malformed", c, "%s", msg))
		}
	})

	rec.Rapid(t, "multi-bad", rec.Scale(2400, 40000), func(t *rapid.T) {
		c := genMultiCase(t)
		rec.Eval()
		rec.Class("multi/" + c.Mode + "/" + c.Variant)
		nt := false
		for i, s := range c.Srcs {
			_, bad, _ := s.expect(c.Mode, i == len(c.Srcs)-1)
			if !bad {
				continue
			}
			pos := "middle"
			if i == 0 {
				pos = "first"
			} else if i == len(c.Srcs)-1 {
				pos = "last"
			}
			rec.Class("multi/bad-" + pos)
			if s.Op == "-" {
				rec.Class("multi/bad-stdin")
			}
			if s.Kind != "text" {
				rec.Class("multi/bad-" + s.Kind)
			}
			for j := i + 1; j < len(c.Srcs); j++ {
				if vs, _, _ := c.Srcs[j].expect(c.Mode, j == len(c.Srcs)-1); len(vs) > 0 {
					nt = true
				}
			}
		}
		if nt {
			rec.Class("multi/values-after-bad-source")
			rec.NT("multi/" + key(c))
		}
		rec.Sample(c)
		if msg := checkMulti(c); msg != "" {
			t.Fatalf("%s", rec.Fail("multi-bad", c, "%s", msg))
		}
	})

	lenientLookahead, lenientUTF8 := rec.KnownClass(classYAMLLookahead), rec.KnownClass(classYAMLUTF8)
	rec.Rapid(t, "yaml-trunc", rec.Scale(1500, 30000), func(t *rapid.T) {
		c := genYAMLCase(t)
		rec.Eval()
		rec.Class("yaml/" + c.Variant)
		tk := c.Tail.Kind
		if tk == "scanner" {
			tk = fmt.Sprintf("scanner@%d", c.Tail.At)
		}
		rec.Class("yaml/tail-" + tk)
		if c.inLookaheadClass() {
			rec.Class("yaml/in-lookahead-class")
			if lenientLookahead {
				rec.Excluded(classYAMLLookahead)
			}
		}
		if c.inUTF8Class() && lenientUTF8 {
			rec.Excluded(classYAMLUTF8)
		}
		if c.Tail.Kind != "none" && len(c.Docs) >= 2 {
			rec.NT("yaml/" + key(c))
		}
		rec.Sample(c)
		if msg := checkYAML(c, lenientLookahead, lenientUTF8); msg != "" {
			t.Fatalf("%s", rec.Fail("yaml-trunc", c, "%s", msg))
		}
	})
}
