// multi-bad: consumption across several sources when a source in ANY position
// (first, middle, last, also `-`) is malformed, truncated, missing or a
// directory.  Established on the unchanged tree and asserted here: every
// source delivers its complete values, then one error, and then the NEXT
// source continues; an error ends the evaluation that pulled it (`[inputs]`,
// `inputs`, `-s`), `try input` resumes with the next source.
package c16

import (
	"fmt"
	"os"
	"path/filepath"
	"strings"

	"pgregory.net/rapid"
)

type msrc struct {
	Op   string `json:"op"`   // operand: a file name or "-" (stdin)
	Kind string `json:"kind"` // text | dir | missing
	Text string `json:"text,omitempty"`
	// json / stream modes: after the complete documents of Text either a
	// malformed snippet Tail (optionally followed by After, never delivered)
	// or the document Doc cut after Cut bytes.
	Tail  string `json:"tail,omitempty"`
	After string `json:"after,omitempty"`
	Doc   string `json:"doc,omitempty"`
	Cut   int    `json:"cut,omitempty"`
}

type multiCase struct {
	Mode    string `json:"mode"`    // json | stream | raw
	Variant string `json:"variant"` // main | try | array | resume | inputs | slurp
	Srcs    []msrc `json:"srcs"`
}

func (s msrc) content() string {
	if s.Doc != "" && s.Cut >= 0 && s.Cut <= len(s.Doc) {
		return s.Text + s.Doc[:s.Cut]
	}
	return s.Text + s.Tail + s.After
}

// expect: the values the source delivers before it ends, and whether it ends
// with an error.
func (s msrc) expect(mode string, last bool) (out []any, bad bool, ok bool) {
	out = []any{}
	if s.Kind == "dir" || s.Kind == "missing" {
		return out, true, s.Op != "-"
	}
	if s.Kind != "text" {
		return nil, false, false
	}
	if mode == "raw" {
		if s.Tail != "" || s.Doc != "" || !last && s.Text != "" && !strings.HasSuffix(s.Text, "\n") {
			return nil, false, false
		}
		for _, l := range rawLines(s.Text) {
			out = append(out, l)
		}
		return out, false, true
	}
	pre, b := readStream(s.Text)
	if b {
		return nil, false, false
	}
	if mode == "stream" {
		out = allEvents(pre)
	} else {
		out = vals(pre)
	}
	if s.Tail == "" && s.Doc == "" {
		return out, false, true
	}
	if s.Text != "" && !isWS(s.Text[len(s.Text)-1]) {
		return nil, false, false
	}
	if s.Doc != "" {
		ds, b := readStream(s.Doc)
		if s.Tail != "" || b || len(ds) != 1 || ds[0].Kind == 'n' || ds[0].End != len(s.Doc) || s.Cut < 1 || s.Cut >= len(s.Doc) {
			return nil, false, false
		}
		if mode == "stream" {
			must, atEnd, partial := truncEvents(ds[0], s.Doc, s.Cut)
			if atEnd != nil || partial != nil {
				return nil, false, false // ambiguous cut: not generated
			}
			out = append(out, must...)
		}
		return out, true, true
	}
	if ds, b := readStream(s.Tail + " "); !b || len(ds) != 0 {
		return nil, false, false
	}
	if s.After != "" && !isWS(s.After[0]) {
		return nil, false, false
	}
	if mode == "stream" && (s.Tail[0] == '[' || s.Tail[0] == '{') {
		return nil, false, false // events of the malformed container itself are not modelled
	}
	return out, true, true
}

func multiArgs(c multiCase, nvals, nbad int) []string {
	args := []string{"-c"}
	args = append(args, modeFlags(c.Mode)...)
	switch c.Variant {
	case "main":
		args = append(args, ".")
	case "inputs":
		args = append(args, "-n", "inputs")
	case "array":
		args = append(args, "-n", "[inputs]")
	case "slurp":
		args = append(args, "-s", ".")
	case "try":
		parts := make([]string, nvals+nbad+2)
		for i := range parts {
			parts[i] = `(try input catch "E")`
		}
		args = append(args, "-n", strings.Join(parts, ", "))
	case "resume":
		parts := make([]string, nbad+1)
		for i := range parts {
			parts[i] = `(try [inputs] catch "E")`
		}
		args = append(args, "-n", strings.Join(parts, ", "))
	default:
		return nil
	}
	for _, s := range c.Srcs {
		args = append(args, s.Op)
	}
	return args
}

func checkMulti(c multiCase) string { return finish(checkMulti1(c)) }

func checkMulti1(c multiCase) string {
	if c.Mode != "json" && c.Mode != "stream" && c.Mode != "raw" || len(c.Srcs) == 0 {
		return "bad case: mode"
	}
	type exp struct {
		vals []any
		bad  bool
	}
	var exps []exp
	nvals, nbad := 0, 0
	stdin := "\"UNREAD-STDIN\"\n"
	dashes := 0
	var files []srcFile
	seen := map[string]bool{}
	for i, s := range c.Srcs {
		vs, bad, ok := s.expect(c.Mode, i == len(c.Srcs)-1)
		if !ok || s.Op == "" || seen[s.Op] || strings.HasPrefix(s.Op, "-") && s.Op != "-" {
			return fmt.Sprintf("bad case: source %d", i)
		}
		seen[s.Op] = true
		exps = append(exps, exp{vs, bad})
		nvals += len(vs)
		if bad {
			nbad++
		}
		switch {
		case s.Op == "-":
			dashes++
			stdin = s.content()
		case s.Kind == "text":
			files = append(files, srcFile{Name: s.Op, Text: s.content()})
		}
	}
	if dashes > 1 {
		return "bad case: stdin twice"
	}
	args := multiArgs(c, nvals, nbad)
	if args == nil {
		return "bad case: variant"
	}
	dir, err := setup(files)
	if err != nil {
		return skipMsg
	}
	defer os.RemoveAll(dir)
	for _, s := range c.Srcs {
		if s.Kind == "dir" {
			if err := os.Mkdir(filepath.Join(dir, s.Op), 0o755); err != nil {
				return skipMsg
			}
		}
	}
	r, v := gojq(dir, stdin, args...)
	if v != "" {
		return v
	}
	got, err := decodeOut(r.Stdout)
	if err != nil {
		return fmt.Sprintf("unreadable output (%v): %s", err, r)
	}

	var want []any
	wantExit, wantErrs := 0, 0
	all := []any{}
	for _, e := range exps {
		all = append(all, e.vals...)
	}
	switch c.Variant {
	case "main": // every source: its values, one message, the next source continues
		want = all
		wantErrs = nbad
	case "inputs": // the first error ends the evaluation
		want = []any{}
		for _, e := range exps {
			want = append(want, e.vals...)
			if e.bad {
				wantErrs = 1
				break
			}
		}
	case "array", "slurp":
		if nbad > 0 {
			want, wantErrs = []any{}, 1
		} else if c.Mode == "raw" && c.Variant == "slurp" {
			var sb strings.Builder
			for _, s := range c.Srcs {
				sb.WriteString(s.Text)
			}
			want = []any{sb.String()}
		} else {
			want = []any{all}
		}
	case "try": // "E" where a source ends with an error, then the next source; "E" past the end
		want = []any{}
		for _, e := range exps {
			want = append(want, e.vals...)
			if e.bad {
				want = append(want, "E")
			}
		}
		want = append(want, "E", "E")
	case "resume": // each [inputs] runs up to the next error; the last one collects the rest
		want = []any{}
		rest := []any{}
		for _, e := range exps {
			rest = append(rest, e.vals...)
			if e.bad {
				want = append(want, "E")
				rest = []any{}
			}
		}
		want = append(want, rest)
	}
	if wantErrs > 0 {
		wantExit = 5
	}
	describe := func() string {
		var sb strings.Builder
		for i, s := range c.Srcs {
			fmt.Fprintf(&sb, " [%d] %s ", i, s.Op)
			if s.Kind == "text" {
				fmt.Fprintf(&sb, "%q", clip(s.content()))
			} else {
				sb.WriteString("(" + s.Kind + ")")
			}
			if exps[i].bad {
				sb.WriteString(" ends with an error;")
			} else {
				sb.WriteString(" well-formed;")
			}
		}
		return sb.String()
	}
	if c.Mode == "raw" && c.Variant == "slurp" && nbad == 0 {
		// -Rs: one string
		if len(got) != 1 || !same(got[0], want[0]) {
			return fmt.Sprintf("sources%s: -Rs gave %s, want %s; %s", describe(), showList(got), showList(want), r)
		}
	} else if !sameList(got, want) {
		return fmt.Sprintf("sources%s: got %s, want %s; %s", describe(), showList(got), showList(want), r)
	}
	if r.Exit != wantExit || errLines(r.Stderr) != wantErrs {
		return fmt.Sprintf("sources%s: want %d error message(s) and exit %d; %s", describe(), wantErrs, wantExit, r)
	}
	return ""
}

// streamSafeTails: malformed snippets that fail at their first token and do
// not begin a container (no events under --stream).
func streamSafeTails() []string {
	var out []string
	for _, s := range badSnippets {
		if s[0] != '[' && s[0] != '{' {
			out = append(out, s)
		}
	}
	return out
}

var multiNames = []string{"s0.json", "s1.json", "s 2.json", "s3.txt"}

func genMultiCase(t *rapid.T) multiCase {
	c := multiCase{
		Mode:    pick(t, "mode", []string{"json", "json", "stream", "raw"}),
		Variant: pick(t, "variant", []string{"main", "main", "try", "try", "array", "resume", "inputs", "slurp"}),
	}
	n := rapid.IntRange(2, 4).Draw(t, "nsrc")
	forced := rapid.IntRange(0, n-2).Draw(t, "badAt") // a bad source that is not the last one
	dash := -1
	if chance(t, "dash", 3) {
		dash = rapid.IntRange(0, n-1).Draw(t, "dashAt")
	}
	for i := 0; i < n; i++ {
		s := msrc{Op: multiNames[i], Kind: "text"}
		bad := i == forced && !chance(t, "noforced", 8) || chance(t, "bad", 4)
		last := i == n-1
		if i == dash {
			s.Op = "-"
		}
		if bad && s.Op != "-" && (c.Mode == "raw" || chance(t, "nofile", 5)) {
			s.Kind = pick(t, "nokind", []string{"dir", "missing"})
			c.Srcs = append(c.Srcs, s)
			continue
		}
		if c.Mode == "raw" {
			s.Text = genRawText(t, !last)
			c.Srcs = append(c.Srcs, s)
			continue
		}
		_, ts := genDocs(t, 0, 3)
		s.Text = joinDocs(t, ts)
		if bad {
			if s.Text != "" && !isWS(s.Text[len(s.Text)-1]) {
				s.Text += pick(t, "sep", []string{" ", "\n"})
			}
			if rapid.Bool().Draw(t, "truncated") {
				m := genNode(t, 2, rapid.IntRange(0, 3).Draw(t, "container") > 0)
				if m.Kind == 'n' {
					m = &node{Kind: 's', Str: m.Num}
				}
				doc := renderDoc(t, m)
				ds, _ := readStream(doc)
				var cuts []int
				for cut := 1; cut < len(doc); cut++ {
					if !utf8Boundary(doc, cut) {
						continue
					}
					if c.Mode == "stream" {
						if _, atEnd, partial := truncEvents(ds[0], doc, cut); atEnd != nil || partial != nil {
							continue
						}
					}
					cuts = append(cuts, cut)
				}
				if len(cuts) > 0 {
					s.Doc, s.Cut = doc, pick(t, "cut", cuts)
				}
			}
			if s.Doc == "" {
				if c.Mode == "stream" {
					s.Tail = pick(t, "tail", streamSafeTails())
				} else {
					s.Tail = pick(t, "tail", badSnippets)
				}
				if chance(t, "after", 2) {
					_, as := genDocs(t, 1, 2)
					s.After = pick(t, "asep", []string{" ", "\n"}) + joinDocs(t, as)
				}
			}
		}
		c.Srcs = append(c.Srcs, s)
	}
	return c
}

// utf8Boundary: cutting there does not split a multi-byte character (the case
// must stay representable as JSON text).
func utf8Boundary(s string, i int) bool {
	return i >= len(s) || s[i]&0xC0 != 0x80
}
