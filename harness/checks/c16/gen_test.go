// Generators: document models, their text renderings (escapes, whitespace,
// key order all drawn through rapid), multi-source layouts.
package c16

import (
	"fmt"
	"strconv"
	"strings"
	"unicode/utf8"

	"pgregory.net/rapid"
)

func pick[T any](t *rapid.T, label string, xs []T) T { return rapid.SampledFrom(xs).Draw(t, label) }
func chance(t *rapid.T, label string, outOf int) bool {
	return rapid.IntRange(0, outOf-1).Draw(t, label) == 0
}

func digits(t *rapid.T, label string, n int, first bool) string {
	var sb strings.Builder
	for i := 0; i < n; i++ {
		lo := 0
		if first && i == 0 {
			lo = 1
		}
		sb.WriteByte(byte('0' + rapid.IntRange(lo, 9).Draw(t, label)))
	}
	return sb.String()
}

var specialNums = []string{"0", "-0", "1.000", "1.0", "0.10", "-0.0", "1e1000", "-1E-400", "9007199254740993", "18446744073709551616",
	"9223372036854775807", "9223372036854775808", "-9223372036854775809", "100000000000000000000000000000.5", "1E+2", "1e-2", "0e0", "1.5e300",
	"123456789012345678901234567890", "3.141592653589793238462643383279", "0.000", "5e+0", "10", "12", "-1"}

func genNum(t *rapid.T) string {
	switch rapid.IntRange(0, 6).Draw(t, "numkind") {
	case 0, 1:
		return strconv.Itoa(rapid.IntRange(-20, 120).Draw(t, "small"))
	case 2:
		return strconv.FormatInt(rapid.Int64().Draw(t, "i64"), 10)
	case 3:
		s := digits(t, "bigd", rapid.IntRange(19, 40).Draw(t, "bign"), true)
		if rapid.Bool().Draw(t, "neg") {
			s = "-" + s
		}
		return s
	case 4:
		s := strconv.Itoa(rapid.IntRange(-30, 30).Draw(t, "ip")) + "." + digits(t, "fd", rapid.IntRange(1, 6).Draw(t, "fn"), false)
		if chance(t, "tz", 2) {
			s += strings.Repeat("0", rapid.IntRange(1, 3).Draw(t, "tzn"))
		}
		return s
	case 5:
		s := strconv.Itoa(rapid.IntRange(-99, 99).Draw(t, "m"))
		if rapid.Bool().Draw(t, "frac") {
			s += "." + digits(t, "fd", rapid.IntRange(1, 3).Draw(t, "fn"), false)
		}
		return s + pick(t, "e", []string{"e", "E"}) + pick(t, "es", []string{"", "+", "-"}) + digits(t, "ed", rapid.IntRange(1, 3).Draw(t, "en"), false)
	default:
		return pick(t, "special", specialNums)
	}
}

var runePool = []rune{'a', 'b', 'z', 'A', '0', '9', ' ', ' ', '_', '-', '"', '\\', '/', '\n', '\t', '\r', '\b', '\f', 0x01, 0x1f, 0x7f,
	'é', 'ß', 'Ω', '日', '本', 0x2028, 0xfffd, 0xffff, 0x1F600, 0x10000, 0x10FFFF, '<', '&', '\'', '{', '[', ',', ':', '#'}

func genStr(t *rapid.T, max int) string {
	n := rapid.IntRange(0, max).Draw(t, "strlen")
	var sb strings.Builder
	for i := 0; i < n; i++ {
		sb.WriteRune(pick(t, "rune", runePool))
	}
	return sb.String()
}

var keyPool = []string{"a", "b", "c", "z", "", "A", "é", "k k", "1", "0", "q\"", "\n", "aa", "ab", "日本", "\U0001F600", "a\\b", "named", "positional"}

func genKey(t *rapid.T) string {
	if chance(t, "randkey", 6) {
		return genStr(t, 5)
	}
	return pick(t, "key", keyPool)
}

// genNode draws a document model.  Objects are duplicate-free, members in the
// drawn (arbitrary) order.
func genNode(t *rapid.T, depth int, wantContainer bool) *node {
	k := rapid.IntRange(0, 9).Draw(t, "kind")
	if wantContainer {
		k = 7 + rapid.IntRange(0, 1).Draw(t, "ckind")*2
	}
	if depth <= 0 && k >= 6 && !wantContainer {
		k = k - 6
	}
	switch k {
	case 0, 1:
		return &node{Kind: 'n', Num: genNum(t)}
	case 2:
		return &node{Kind: 's', Str: genStr(t, 8)}
	case 3:
		return &node{Kind: pick(t, "lit", []byte{'t', 'f', 'z'})}
	case 4:
		return &node{Kind: 'a'}
	case 5:
		return &node{Kind: 'o'}
	case 6, 7:
		n := &node{Kind: 'a'}
		for i, m := 0, rapid.IntRange(0, 4).Draw(t, "alen"); i < m; i++ {
			n.Elems = append(n.Elems, genNode(t, depth-1, false))
		}
		return n
	default:
		n := &node{Kind: 'o'}
		seen := map[string]bool{}
		for i, m := 0, rapid.IntRange(0, 4).Draw(t, "olen"); i < m; i++ {
			key := genKey(t)
			if seen[key] {
				continue
			}
			seen[key] = true
			n.Keys = append(n.Keys, key)
			n.Elems = append(n.Elems, genNode(t, depth-1, false))
		}
		return n
	}
}

var gaps = []string{" ", "\n", "\t", "\r", "\r\n", "  ", " \n\t"}

type style struct {
	spaced bool // whitespace between tokens
	esc    int  // 0: minimal escapes, 1: mixed, 2: everything possible as \uXXXX
}

func genStyle(t *rapid.T) style {
	return style{spaced: chance(t, "spaced", 3), esc: rapid.IntRange(0, 2).Draw(t, "esc")}
}

func (st style) gap(t *rapid.T) string {
	if !st.spaced || rapid.IntRange(0, 2).Draw(t, "gap?") > 0 {
		return ""
	}
	return pick(t, "gap", gaps)
}

func u4(r rune, upper bool) string {
	if upper {
		return fmt.Sprintf("\\u%04X", r)
	}
	return fmt.Sprintf("\\u%04x", r)
}

func renderStr(t *rapid.T, st style, s string) string {
	var sb strings.Builder
	sb.WriteByte('"')
	for _, r := range s {
		mode := 0 // raw when possible
		if st.esc == 2 || st.esc == 1 && rapid.Bool().Draw(t, "escape?") {
			mode = 1
		}
		upper := st.esc > 0 && rapid.Bool().Draw(t, "upperhex")
		short := map[rune]string{'"': `\"`, '\\': `\\`, '\n': `\n`, '\t': `\t`, '\r': `\r`, '\b': `\b`, '\f': `\f`, '/': `\/`}
		switch {
		case r == '"' || r == '\\' || r < 0x20:
			if sh, ok := short[r]; ok && (mode == 0 || rapid.Bool().Draw(t, "short")) {
				sb.WriteString(sh)
			} else {
				sb.WriteString(u4(r, upper))
			}
		case mode == 0:
			sb.WriteRune(r)
		case r == '/':
			sb.WriteString(`\/`)
		case r >= 0x10000:
			r -= 0x10000
			sb.WriteString(u4(0xD800+(r>>10), upper))
			sb.WriteString(u4(0xDC00+(r&0x3ff), upper))
		default:
			sb.WriteString(u4(r, upper))
		}
	}
	sb.WriteByte('"')
	return sb.String()
}

func render(t *rapid.T, st style, n *node, sb *strings.Builder) {
	switch n.Kind {
	case 'n':
		sb.WriteString(n.Num)
	case 's':
		sb.WriteString(renderStr(t, st, n.Str))
	case 't':
		sb.WriteString("true")
	case 'f':
		sb.WriteString("false")
	case 'z':
		sb.WriteString("null")
	case 'a':
		sb.WriteByte('[')
		sb.WriteString(st.gap(t))
		for i, e := range n.Elems {
			if i > 0 {
				sb.WriteByte(',')
				sb.WriteString(st.gap(t))
			}
			render(t, st, e, sb)
			sb.WriteString(st.gap(t))
		}
		sb.WriteByte(']')
	case 'o':
		sb.WriteByte('{')
		sb.WriteString(st.gap(t))
		for i, e := range n.Elems {
			if i > 0 {
				sb.WriteByte(',')
				sb.WriteString(st.gap(t))
			}
			sb.WriteString(renderStr(t, st, n.Keys[i]))
			sb.WriteString(st.gap(t))
			sb.WriteByte(':')
			sb.WriteString(st.gap(t))
			render(t, st, e, sb)
			sb.WriteString(st.gap(t))
		}
		sb.WriteByte('}')
	}
}

func renderDoc(t *rapid.T, n *node) string {
	var sb strings.Builder
	render(t, genStyle(t), n, &sb)
	return sb.String()
}

func delim(c byte) bool { return c == '[' || c == ']' || c == '{' || c == '}' || c == '"' }

// joinDocs renders documents into one text with any JSON whitespace between
// them (none only where a bracket or quote separates the tokens anyway).
func joinDocs(t *rapid.T, docs []string) string {
	var sb strings.Builder
	if chance(t, "lead", 4) {
		sb.WriteString(pick(t, "leadws", gaps))
	}
	for i, d := range docs {
		if i > 0 {
			prev := docs[i-1]
			if (delim(prev[len(prev)-1]) || delim(d[0])) && chance(t, "nosep", 4) {
				// no separator
			} else {
				sb.WriteString(pick(t, "sep", []string{" ", "\n", "\n", "\t", "\r\n", "\n\n", " \t ", "\r"}))
			}
		}
		sb.WriteString(d)
	}
	if len(docs) > 0 && !chance(t, "notrail", 3) {
		sb.WriteString(pick(t, "trail", []string{"\n", "\n", " ", "\r\n", "\n\n"}))
	}
	return sb.String()
}

// genDocs draws n documents and their texts.
func genDocs(t *rapid.T, min, max int) (models []*node, texts []string) {
	n := rapid.IntRange(min, max).Draw(t, "ndocs")
	for i := 0; i < n; i++ {
		m := genNode(t, rapid.IntRange(0, 3).Draw(t, "depth"), false)
		models = append(models, m)
		texts = append(texts, renderDoc(t, m))
	}
	return
}

// ---------------------------------------------------------------------------
// input layouts

type srcFile struct {
	Name string `json:"name"`
	Text string `json:"text"`
}

// inputs describes what the command reads: the bytes on stdin, the files that
// exist, and the file operands in command-line order ("-" is stdin; no
// operands: stdin is read).
type inputs struct {
	Stdin    string    `json:"stdin"`
	Files    []srcFile `json:"files"`
	Operands []string  `json:"operands"`
}

// texts returns the texts consumed in stream order.
func (in inputs) texts() []string {
	if len(in.Operands) == 0 {
		return []string{in.Stdin}
	}
	var out []string
	for _, op := range in.Operands {
		if op == "-" {
			out = append(out, in.Stdin)
			continue
		}
		for _, f := range in.Files {
			if f.Name == op {
				out = append(out, f.Text)
				break
			}
		}
	}
	return out
}

var fileNames = []string{"f0.json", "f1.json", "in 2.json", "données.txt"}

// genLayout distributes the chunk texts produced by chunk(i) (i = position in
// stream order, last = true for the final one) over stdin and 1..3 files.
// unread is what is put on stdin when stdin is not an operand: it must not
// show up anywhere.
func genLayout(t *rapid.T, unread string, chunk func(i int, last bool) string) inputs {
	var in inputs
	switch rapid.IntRange(0, 3).Draw(t, "layout") {
	case 0: // stdin only
		in.Stdin = chunk(0, true)
		return in
	}
	nf := rapid.IntRange(1, 3).Draw(t, "nfiles")
	withStdin := chance(t, "dash", 3)
	n := nf
	if withStdin {
		n++
	}
	dashAt := -1
	if withStdin {
		dashAt = rapid.IntRange(0, n-1).Draw(t, "dashAt")
	} else {
		in.Stdin = unread
	}
	fi := 0
	for i := 0; i < n; i++ {
		last := i == n-1
		if i == dashAt {
			in.Stdin = chunk(i, last)
			in.Operands = append(in.Operands, "-")
			continue
		}
		name := fileNames[fi]
		fi++
		in.Files = append(in.Files, srcFile{Name: name, Text: chunk(i, last)})
		in.Operands = append(in.Operands, name)
	}
	return in
}

// bulk: many small documents, enough text to cross the reader's 16 KB buffer
// boundaries several times.
func bulk(n int, sep string) ([]*node, string) {
	var ms []*node
	var sb strings.Builder
	for i := 0; i < n; i++ {
		num := &node{Kind: 'n', Num: strconv.Itoa(i)}
		switch i % 4 {
		case 0:
			ms = append(ms, &node{Kind: 'a', Elems: []*node{num}})
			sb.WriteString("[" + num.Num + "]")
		case 1:
			ms = append(ms, &node{Kind: 'o', Keys: []string{"k"}, Elems: []*node{num}})
			sb.WriteString("{\"k\":" + num.Num + "}")
		case 2:
			ms = append(ms, &node{Kind: 's', Str: "s" + num.Num})
			sb.WriteString("\"s" + num.Num + "\"")
		default:
			ms = append(ms, num)
			sb.WriteString(num.Num + "\n")
		}
		sb.WriteString(sep)
	}
	return ms, sb.String()
}

// genJSONInputs: a valid multi-document stream split over the sources.
func genJSONInputs(t *rapid.T, maxPerSource int) (inputs, []*node) {
	var models []*node
	in := genLayout(t, "\"UNREAD-STDIN\"\n", func(i int, last bool) string {
		if chance(t, "bulk", 40) {
			ms, text := bulk(pick(t, "bulkn", []int{700, 3000, 9000}), pick(t, "bulksep", []string{"\n", " ", ""}))
			models = append(models, ms...)
			return text
		}
		ms, ts := genDocs(t, 0, maxPerSource)
		models = append(models, ms...)
		return joinDocs(t, ts)
	})
	return in, models
}

// ---------------------------------------------------------------------------
// malformed tails

// badSnippets: texts that are malformed from their first token on, whatever
// follows them after whitespace (verified against the reference reader in
// TestSnippets-like init below).
var badSnippets = []string{
	"]", "}", ",", ":", "x", "NaN", "'a'", "+1", ".5", "tru", "nul", "fals", "-", "1.", "1e", "1e+", "True", "nulL",
	"[,1]", "[1,,2]", "[1,]", `{"a":1,}`, `{"a" 1}`, `{a:1}`, "[1}", `{"a":1]`, "[01]", "[1 2]", "[1.]", "[-]", "[tru]",
	`{"a":}`, `{"a":1 "b":2}`, `{1:2}`, `["a":1]`, `"a\qb"`, "\"a\x01b\"", `["\u12G4"]`, `{"a"}`, `{,}`, `["a" "b"]`, `"\u00"`,
	`[[1,2],[3,}]`, `{"a":{"b":[1,2,{"c":}]}}`, "[1,2,3,4,5,6,7,8,9,10,11,12,13,14,15,16,17,18,19,20,]",
}

func init() {
	for _, s := range badSnippets {
		for _, tail := range []string{"", " ", "\n1 [2]"} {
			if docs, bad := readStream(s + tail); !bad || len(docs) != 0 {
				panic("c16: bad snippet list: " + s)
			}
		}
	}
}

var mutChars = []rune{'[', ']', '{', '}', ',', ':', '"', '\\', ' ', '0', '1', '-', '.', 'e', 't', 'n', 'x', '\n'}

// appendBad appends a malformed document to the last consumed source.
func appendBad(t *rapid.T, in inputs) inputs {
	target := &in.Stdin
	if n := len(in.Operands); n > 0 && in.Operands[n-1] != "-" {
		files := append([]srcFile{}, in.Files...)
		in.Files = files
		for i := range files {
			if files[i].Name == in.Operands[n-1] {
				target = &files[i].Text
			}
		}
	}
	src := *target
	if src != "" && !isWS(src[len(src)-1]) {
		src += pick(t, "badsep", []string{" ", "\n"})
	}
	follow := func() string {
		if chance(t, "follow", 2) {
			_, ts := genDocs(t, 1, 2)
			return pick(t, "fsep", []string{" ", "\n"}) + joinDocs(t, ts)
		}
		return pick(t, "end", []string{"", "", "\n", " "})
	}
	switch rapid.IntRange(0, 3).Draw(t, "badkind") {
	case 0, 1:
		src += pick(t, "snippet", badSnippets) + follow()
	case 2: // unterminated: a document cut strictly inside, at the end of the source
		m := genNode(t, 2, rapid.Bool().Draw(t, "container"))
		if m.Kind == 'n' {
			m = &node{Kind: 's', Str: m.Num}
		}
		d := renderDoc(t, m)
		src += d[:rapid.IntRange(1, len(d)-1).Draw(t, "cut")]
		if !utf8.ValidString(src) { // the cut split a character
			src = strings.ToValidUTF8(src, "")
		}
	default: // one character changed inside a container (may stay well-formed)
		m := genNode(t, 2, true)
		d := []rune(renderDoc(t, m))
		if len(d) > 2 {
			p := rapid.IntRange(1, len(d)-2).Draw(t, "mutpos")
			c := pick(t, "mutchar", mutChars)
			switch rapid.IntRange(0, 2).Draw(t, "mutop") {
			case 0:
				d[p] = c
			case 1:
				d = append(d[:p], d[p+1:]...)
			default:
				d = append(d[:p], append([]rune{c}, d[p:]...)...)
			}
		}
		src += string(d) + follow()
	}
	*target = src
	return in
}

// ---------------------------------------------------------------------------
// raw texts

var lineSegs = []string{"", "a", "hello world", "x\r", "\ttab", `{"a":1}`, `"q"`, "é日本", "\U0001F600", `a\b`, "\x00", " ", "\r", "1", "in\rside", "b", "# c", "trailing ", " "}

func genRawText(t *rapid.T, endNL bool) string {
	n := rapid.IntRange(0, 5).Draw(t, "nlines")
	if n == 0 {
		return ""
	}
	eol := pick(t, "eol", []string{"\n", "\n", "\r\n"})
	var sb strings.Builder
	for i := 0; i < n; i++ {
		if i > 0 {
			sb.WriteString(eol)
		}
		if chance(t, "long", 60) {
			sb.WriteString(strings.Repeat(pick(t, "longc", []string{"x", "é", "ab "}), pick(t, "longn", []int{4095, 4096, 4097, 5000, 70000})))
		} else {
			sb.WriteString(pick(t, "seg", lineSegs))
		}
	}
	if endNL || rapid.Bool().Draw(t, "finalnl") {
		sb.WriteString(eol)
	}
	return sb.String()
}

func genRawInputs(t *rapid.T, lines bool) inputs {
	return genLayout(t, "UNREAD-STDIN\n", func(i int, last bool) string {
		return genRawText(t, lines && !last)
	})
}

// ---------------------------------------------------------------------------
// argument lists

var argNames = []string{"a", "b", "a", "x1", "_y", "Foo", "named", "positional", "b"}
var argValues = []string{"", "1", "null", "--arg", "-n", "a b", "日本\n", `{"x":1}`, "$a", "\\", "'", "\"", "1.000"}
var posValues = []string{"a", "", "b c", "1", "null", "-", "-1", "-.5", "é", "{", "x=y", "1.000", "[1", "\n", "a\tb", "$x"}
var flagLike = []string{"-n", "--arg", "--", "-f", "--args", "--jsonargs", "-s", "-e", "--stream", "-h"}

func genJSONText(t *rapid.T) string {
	d := renderDoc(t, genNode(t, 2, false))
	if chance(t, "pad", 4) {
		d = pick(t, "padl", []string{" ", "\n", ""}) + d + pick(t, "padr", []string{" ", "\n", ""})
	}
	return d
}

func genNamed(t *rapid.T) argItem {
	it := argItem{Kind: pick(t, "nkind", []string{"arg", "arg", "argjson", "argjson", "slurpfile", "rawfile"}), Name: pick(t, "name", argNames)}
	switch it.Kind {
	case "arg":
		if rapid.Bool().Draw(t, "poolval") {
			it.Text = pick(t, "val", argValues)
		} else {
			it.Text = genStr(t, 6)
			it.Text = strings.ReplaceAll(it.Text, "\x00", "") // not representable in argv
		}
	case "argjson":
		it.Text = genJSONText(t)
	case "slurpfile":
		_, ts := genDocs(t, 0, 3)
		it.Text = joinDocs(t, ts)
	case "rawfile":
		it.Text = genRawText(t, false)
	}
	return it
}

// genArgsModeCase: the binding flags together with an input-mode cluster in a
// drawn flag order, and a main input that is valid in that mode.
func genArgsModeCase(t *rapid.T) argsCase {
	c := genArgsCase(t)
	c.Lead = []string{pick(t, "out", []string{"-c", "--compact-output"})}
	// at least two bindings from files
	for i, n := 0, rapid.IntRange(1, 2).Draw(t, "nfilebind"); i < n; i++ {
		it := argItem{Kind: pick(t, "fkind", []string{"slurpfile", "slurpfile", "rawfile"}), Name: pick(t, "fname", []string{"sf", "rf", "a", "x1"})}
		if it.Kind == "slurpfile" {
			_, ts := genDocs(t, 1, 3)
			it.Text = joinDocs(t, ts)
		} else {
			it.Text = pick(t, "rawtext", []string{"é日本\n", "line1\nline2", "a\r\nb\r\n", "\U0001F600", "x\n\n", "[1,2] {\"k\":1}\n", ""}) + pick(t, "rawend", []string{"", "\n"})
		}
		at := rapid.IntRange(0, len(c.Items)).Draw(t, "bindAt")
		for j, x := range c.Items { // not behind "--"
			if x.Kind == "ddash" && at > j {
				at = j
			}
		}
		c.Items = append(c.Items[:at], append([]argItem{it}, c.Items[at:]...)...)
	}
	c.Mode = pick(t, "mode", argModeNames)
	switch c.Mode {
	case "raw", "rawslurp", "nullraw":
		c.Stdin = genRawText(t, false)
		if c.Stdin == "" && c.Mode == "raw" {
			c.Stdin = "only\n"
		}
	case "yaml":
		for i, n := 0, rapid.IntRange(1, 3).Draw(t, "nyaml"); i < n; i++ {
			d := pick(t, "ydoc", yamlDocPool)
			if i > 0 {
				c.Stdin += "---\n"
			}
			c.Stdin += d.Text
			c.MainWant = append(c.MainWant, d.Want)
		}
	default:
		_, ts := genDocs(t, 1, 3)
		c.Stdin = joinDocs(t, ts)
	}
	for _, tok := range pick(t, "spelling", argModes[c.Mode]) {
		limit := len(c.Items)
		for j, x := range c.Items {
			if x.Kind == "ddash" {
				limit = j
			}
		}
		at := rapid.IntRange(0, limit).Draw(t, "flagAt")
		c.Items = append(c.Items[:at], append([]argItem{{Kind: "flag", Text: tok}}, c.Items[at:]...)...)
	}
	return c
}

func genArgsCase(t *rapid.T) argsCase {
	c := argsCase{Lead: pick(t, "lead", [][]string{{"-n", "-c"}, {"-nc"}, {"-cn"}, {"-c", "-n"}, {"--null-input", "--compact-output"}})}
	jsonMode, switched := false, false
	item := func(allowPos bool) {
		switch k := rapid.IntRange(0, 9).Draw(t, "item"); {
		case k <= 2:
			c.Items = append(c.Items, genNamed(t))
		case k <= 4:
			kind := pick(t, "switch", []string{"args", "jsonargs"})
			jsonMode, switched = kind == "jsonargs", true
			c.Items = append(c.Items, argItem{Kind: kind})
		default:
			if !allowPos || !switched {
				return
			}
			if jsonMode {
				c.Items = append(c.Items, argItem{Kind: "pos", Text: strings.ReplaceAll(genJSONText(t), "\x00", "")})
			} else {
				c.Items = append(c.Items, argItem{Kind: "pos", Text: pick(t, "pos", posValues)})
			}
		}
	}
	for i, n := 0, rapid.IntRange(0, 3).Draw(t, "npre"); i < n; i++ {
		item(false)
	}
	c.Items = append(c.Items, argItem{Kind: "query"})
	for i, n := 0, rapid.IntRange(0, 7).Draw(t, "npost"); i < n; i++ {
		item(true)
	}
	if switched && chance(t, "ddash", 4) {
		c.Items = append(c.Items, argItem{Kind: "ddash"})
		for i, n := 0, rapid.IntRange(0, 3).Draw(t, "ndd"); i < n; i++ {
			if jsonMode {
				c.Items = append(c.Items, argItem{Kind: "pos", Text: strings.ReplaceAll(genJSONText(t), "\x00", "")})
			} else {
				c.Items = append(c.Items, argItem{Kind: "pos", Text: pick(t, "ddpos", append(append([]string{}, flagLike...), posValues...))})
			}
		}
	}
	return c
}

// ---------------------------------------------------------------------------
// programs for -f

type progT struct {
	q     string
	named []string // flags the program needs
}

var progs = []progT{
	{".", nil}, {".", nil}, {".[0]?", nil}, {"[.[]?]", nil}, {`"\(.)"`, nil}, {"{a: .}", nil}, {"$ARGS", nil}, {"$ARGS.positional", nil},
	{"[$ARGS.named[]]", nil}, {"input", nil}, {"[inputs]", nil}, {"[., input]", nil}, {"first(inputs)", nil}, {". as $x | [$x, $x]", nil},
	{"def f: . ; f | f", nil}, {`"é 日本 é"`, nil}, {`"a\tb" | ., length`, nil}, {`@base64 "x\(.)"`, nil}, {"..", nil}, {"tojson", nil},
	{"[limit(2; inputs)]", nil}, {"$v", []string{"--arg", "v", "val"}}, {"[$v, $w] | tojson", []string{"--argjson", "w", "{\"k\":[1.000]}", "--arg", "v", "x y"}},
	{`if . then "t" else "f" end`, nil}, {`try error("x") catch .`, nil}, {`error("boom")`, nil}, {"{", nil}, {". |", nil}, {".a.b.c?", nil},
	{"reduce .[]? as $x (0; . + 1)", nil}, {`"#notcomment"`, nil}, {"", nil}, {"empty", nil}, {".. | numbers", nil}, {"[.[]?] | length, (.[]? | tostring)", nil},
	{"$__prog_undefined", nil}, {"input_filename", nil}, {"[., $ARGS.positional[0]]", nil}, {"halt_error", nil}, {`"a" , "b" | ascii_upcase`, nil},
}

var preDeco = []string{"", "", "", " ", "\n", "\t\n ", "# comment\n", "#!/usr/bin/env gojq -f\n", "\r\n", "# a\n# b\n\n"}
var postDeco = []string{"", "", "", "\n", " ", "\n\n", " # trailing", " # c\n", "\r\n", "\n# end\n", "\n\n\n"}

func genFileCase(t *rapid.T) fileCase {
	p := pick(t, "prog", progs)
	body := p.q
	if chance(t, "multiline", 3) {
		body = strings.ReplaceAll(body, " | ", "\n  | ")
	}
	c := fileCase{Base: p.q, Query: pick(t, "pre", preDeco) + body + pick(t, "post", postDeco)}
	in, models := genJSONInputs(t, 2)
	selfCheck(t, in, models)
	c.In = in
	var bounds []int
	var clumpable []int
	add := func(group ...string) {
		bounds = append(bounds, len(c.Args))
		if len(group) == 1 && (group[0] == "-c" || group[0] == "-r" || group[0] == "-cr" || group[0] == "-n") {
			clumpable = append(clumpable, len(c.Args))
		}
		c.Args = append(c.Args, group...)
	}
	named := [][]string{}
	for i := 0; i+3 <= len(p.named); i += 3 {
		named = append(named, p.named[i:i+3])
	}
	if chance(t, "extra-named", 4) {
		named = append(named, []string{"--arg", "extra", "1"})
	}
	split := rapid.IntRange(0, len(named)).Draw(t, "namedsplit")
	add(pick(t, "out", []string{"-c", "-c", "-r", "-cr"}))
	if chance(t, "null", 3) {
		add(pick(t, "nflag", []string{"-n", "--null-input"}))
	}
	for _, g := range named[:split] {
		add(g...)
	}
	add(qMark)
	for _, op := range in.Operands {
		add(op)
	}
	for _, g := range named[split:] {
		add(g...)
	}
	if chance(t, "positional", 2) {
		if rapid.Bool().Draw(t, "jsonargs") {
			add("--jsonargs")
			for i, n := 0, rapid.IntRange(0, 3).Draw(t, "npos"); i < n; i++ {
				add(strings.ReplaceAll(genJSONText(t), "\x00", ""))
			}
		} else {
			add("--args")
			for i, n := 0, rapid.IntRange(0, 3).Draw(t, "npos"); i < n; i++ {
				add(pick(t, "pos", posValues))
			}
		}
	}
	bounds = append(bounds, len(c.Args))
	c.FFlag = pick(t, "fflag", []string{"-f", "-f", "--from-file", "clump"})
	if c.FFlag == "clump" && len(clumpable) > 0 {
		c.FPos = pick(t, "clumpAt", clumpable)
	} else {
		if c.FFlag == "clump" {
			c.FFlag = "-f"
		}
		c.FPos = pick(t, "fpos", bounds)
	}
	return c
}
