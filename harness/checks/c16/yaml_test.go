// yaml-trunc: the last sentence of C16 under --yaml-input.  A stream of 1..4
// complete YAML documents whose values are known (fixed pool, values written
// by hand) is followed by a malformed tail.  Every complete value must come
// out, then exactly one error, then end of input.
package c16

import (
	"fmt"
	"os"
	"strconv"
	"strings"

	"pgregory.net/rapid"
)

type ydoc struct {
	Pre  string `json:"pre,omitempty"` // comment / blank lines before the document
	Text string `json:"text"`
	Want string `json:"want"` // the document's value as JSON text
	Term bool   `json:"term,omitempty"`
}

type ytail struct {
	Name string `json:"name"`
	// Kind: none | scanner (the library's scanner rejects a token) | parser
	// (tokens are fine, the grammar / decoder rejects them) | utf8 (an invalid
	// UTF-8 byte: the library's reader rejects the buffer).
	Kind string `json:"kind"`
	// At: for scanner tails, the ordinal of the rejected token inside the tail
	// document (1 = its first token); 9 = later than the second.
	At     int    `json:"at,omitempty"`
	Quoted string `json:"quoted"` // strconv.Quote of the tail's bytes (may be invalid UTF-8)
	Pre    string `json:"pre,omitempty"`
	Follow string `json:"follow,omitempty"` // text after the tail: must never be read as values
}

type yamlCase struct {
	LeadSep bool   `json:"leadsep,omitempty"`
	Docs    []ydoc `json:"docs"`
	Tail    ytail  `json:"tail"`
	Variant string `json:"variant"` // main | inputs | array | try | slurp
	File    bool   `json:"file,omitempty"`
}

const (
	classYAMLLookahead = "C16/yaml-scanner-lookahead"
	classYAMLUTF8      = "C16/yaml-invalid-utf8"
)

var yamlDocPool = []ydoc{
	{Text: "a: 1\n", Want: `{"a":1}`},
	{Text: "b: 2\n", Want: `{"b":2}`},
	{Text: "b: 2\nc: [x, y]\n", Want: `{"b":2,"c":["x","y"]}`},
	{Text: "- 1\n- two\n- {k: v}\n", Want: `[1,"two",{"k":"v"}]`},
	{Text: "[1, 2, 3]\n", Want: `[1,2,3]`},
	{Text: "{x: 1, y: [true, null]}\n", Want: `{"x":1,"y":[true,null]}`},
	{Text: "hello\n", Want: `"hello"`},
	{Text: "42\n", Want: `42`},
	{Text: "\"quoted # not a comment\"\n", Want: `"quoted # not a comment"`},
	{Text: "'single ''q'''\n", Want: `"single 'q'"`},
	{Text: "k:\n  nested:\n    - a\n    - b\n", Want: `{"k":{"nested":["a","b"]}}`},
	{Text: "key: value # trailing comment\n", Want: `{"key":"value"}`},
	{Text: "# leading comment\nz: 26\n", Want: `{"z":26}`},
	{Text: "~\n", Want: `null`},
	{Text: "true\n", Want: `true`},
	{Text: "- - 1\n  - 2\n- []\n", Want: `[[1,2],[]]`},
	{Text: "s: |\n  line1\n  line2\n", Want: `{"s":"line1\nline2\n"}`},
	{Text: "1.5\n", Want: `1.5`},
	{Text: "é: 日本\n", Want: `{"é":"日本"}`},
	{Text: "{}\n", Want: `{}`},
	{Text: "? complex\n: v\n", Want: `{"complex":"v"}`},
	{Text: "a: &x 1\nb: *x\n", Want: `{"a":1,"b":1}`},
	{Text: "- \"a\\tb\"\n- 'c'\n", Want: `["a\tb","c"]`},
	{Text: "[]\n", Want: `[]`},
}

var yamlPres = []string{"", "", "", "# comment\n", "\n", "# c1\n# c2\n\n"}

type ytailT struct {
	name, kind string
	at         int
	text       string
	follow     bool // a following document may be appended without changing the nature of the error
}

var yamlTails = []ytailT{
	// scanner-level, first token of the tail document
	{"dq-unterminated", "scanner", 1, "\"abc\n", true},
	{"sq-unterminated", "scanner", 1, "'abc\n", true},
	{"at-sign", "scanner", 1, "@x\n", true},
	{"backtick", "scanner", 1, "`x\n", true},
	{"dq-bad-escape", "scanner", 1, "\"a\\qb\"\n", true},
	{"dq-bad-hex-escape", "scanner", 1, "\"\\xZZ\"\n", true},
	// scanner-level, second token
	{"flow-seq-then-at", "scanner", 2, "[@y\n", true},
	{"flow-map-then-at", "scanner", 2, "{@y\n", true},
	{"tag-then-at", "scanner", 2, "!t @y\n", true},
	{"anchor-then-dq-unterminated", "scanner", 2, "&a \"abc\n", true},
	{"flow-seq-then-sq-unterminated", "scanner", 2, "[ 'abc\n", true},
	// scanner-level, later
	{"tab-indentation", "scanner", 9, "k:\n\tx: 1\n", true},
	{"value-at", "scanner", 9, "x: @y\n", true},
	{"second-entry-dq-unterminated", "scanner", 9, "- 1\n- \"abc\n", true},
	{"flow-entry-at", "scanner", 9, "x: [1, @]\n", true},
	{"value-dq-bad-escape", "scanner", 9, "k: \"a\\qb\"\n", true},
	{"entry-at", "scanner", 9, "- @y\n", true},
	{"explicit-key-at", "scanner", 9, "? @y\n", true},
	// parser-level
	{"flow-seq-unclosed", "parser", 0, "[1, 2\n", false},
	{"flow-map-unclosed", "parser", 0, "{a: 1\n", false},
	{"bad-indentation", "parser", 0, "k:\n  x: 1\n y: 2\n", true},
	{"duplicate-key", "parser", 0, "k: 1\nk: 2\n", true},
	{"unknown-alias", "parser", 0, "*unknown\n", true},
	{"unknown-alias-value", "parser", 0, "x: *unknown\n", true},
	{"stray-bracket", "parser", 0, "]\n", true},
	{"flow-seq-unclosed-nested", "parser", 0, "k: [1, [2, 3]\n", false},
	// reader-level: invalid UTF-8
	{"utf8-ff", "utf8", 0, "\xff\n", true},
	{"utf8-ff-value", "utf8", 0, "x: \xff\n", true},
	{"utf8-ff-in-dq", "utf8", 0, "\"a\xffb\"\n", true},
	{"utf8-ff-in-comment", "utf8", 0, "# \xff\nx: 1\n", true},
	{"utf8-truncated-sequence", "utf8", 0, "x: \xc3\n", true},
}

func (c yamlCase) text() (string, bool) {
	var sb strings.Builder
	for i, d := range c.Docs {
		if i > 0 || c.LeadSep {
			sb.WriteString("---\n")
		}
		sb.WriteString(d.Pre)
		sb.WriteString(d.Text)
		if d.Term {
			sb.WriteString("...\n")
		}
	}
	if c.Tail.Kind != "none" {
		tail, err := strconv.Unquote(c.Tail.Quoted)
		if err != nil {
			return "", false
		}
		sb.WriteString("---\n")
		sb.WriteString(c.Tail.Pre)
		sb.WriteString(tail)
		sb.WriteString(c.Tail.Follow)
	}
	return sb.String(), true
}

// inLookaheadClass: the structural class of finding C16.F2.  The library's
// scanner stays two tokens ahead of the parser, so the end of a document is
// only reported after the two tokens behind its last one (`...` if present,
// `---`, the tail's first token(s)) were scanned.
func (c yamlCase) inLookaheadClass() bool {
	if c.Tail.Kind != "scanner" || len(c.Docs) == 0 {
		return false
	}
	return c.Tail.At == 1 || c.Tail.At == 2 && !c.Docs[len(c.Docs)-1].Term
}

func (c yamlCase) inUTF8Class() bool { return c.Tail.Kind == "utf8" && len(c.Docs) > 0 }

const yamlTryExtra = 3

func yamlArgs(variant string, ndocs int) []string {
	switch variant {
	case "main":
		return []string{"--yaml-input", "-c", "."}
	case "inputs":
		return []string{"--yaml-input", "-c", "-n", "inputs"}
	case "array":
		return []string{"--yaml-input", "-c", "-n", "[inputs]"}
	case "slurp":
		return []string{"--yaml-input", "-c", "-s", "."}
	case "try":
		parts := make([]string, 0, ndocs+yamlTryExtra+1)
		for i := 0; i < ndocs+yamlTryExtra; i++ {
			parts = append(parts, "(try input catch .)")
		}
		parts = append(parts, "input")
		return []string{"--yaml-input", "-c", "-n", strings.Join(parts, ", ")}
	}
	return nil
}

func checkYAML(c yamlCase, lenientLookahead, lenientUTF8 bool) string {
	return finish(checkYAML1(c, lenientLookahead, lenientUTF8))
}

func checkYAML1(c yamlCase, lenientLookahead, lenientUTF8 bool) string {
	text, ok := c.text()
	if !ok || len(c.Docs) == 0 {
		return "bad case: text"
	}
	var docs []any
	for _, d := range c.Docs {
		vs, err := decodeOut(d.Want)
		if err != nil || len(vs) != 1 {
			return "bad case: want"
		}
		docs = append(docs, vs[0])
	}
	args := yamlArgs(c.Variant, len(c.Docs))
	if args == nil {
		return "bad case: variant"
	}
	// the acceptable numbers of complete values that come out
	n := len(docs)
	counts := []int{n}
	if lenientLookahead && c.inLookaheadClass() {
		counts = append(counts, n-1)
	}
	if lenientUTF8 && c.inUTF8Class() {
		counts = counts[:0]
		for k := n; k >= 0; k-- {
			counts = append(counts, k)
		}
	}
	bad := c.Tail.Kind != "none"

	var files []srcFile
	stdin := text
	if c.File {
		files = []srcFile{{Name: "in.yaml", Text: text}}
		args = append(args, "in.yaml")
		stdin = "UNREAD: 1\n"
	}
	dir, err := setup(files)
	if err != nil {
		return skipMsg
	}
	defer os.RemoveAll(dir)
	r, v := gojq(dir, stdin, args...)
	if v != "" {
		return v
	}
	got, err := decodeOut(r.Stdout)
	if err != nil {
		return fmt.Sprintf("unreadable output (%v): %s", err, r)
	}
	describe := func() string {
		return fmt.Sprintf("YAML input %q (%d complete documents %s, then %s tail %s)", text, n, showList(docs), c.Tail.Kind, c.Tail.Name)
	}
	observe := func(k int) { // how often the tolerated loss really happens
		if len(counts) > 1 {
			if k == n {
				rec.Class("yaml/known-class-nothing-lost/" + c.Tail.Name)
			} else {
				rec.Class("yaml/known-class-loss-observed")
			}
		}
	}
	prefixOK := func(vals []any) bool {
		for _, k := range counts {
			if sameList(vals, docs[:k]) {
				observe(k)
				return true
			}
		}
		return false
	}

	switch c.Variant {
	case "main", "inputs":
		if !prefixOK(got) {
			return fmt.Sprintf("%s: values printed %s, want every complete document; %s", describe(), showList(got), r)
		}
	case "array", "slurp":
		if bad {
			if len(got) != 0 {
				return fmt.Sprintf("%s: an array was printed although a document is malformed; %s", describe(), r)
			}
		} else if len(got) != 1 || !same(got[0], docs) {
			return fmt.Sprintf("%s: want the array of the documents; %s", describe(), r)
		}
	case "try":
		// reference for "end of input": the same program over the complete
		// documents alone (without the tail) ends with that message.
		ref := c
		ref.Tail = ytail{Kind: "none"}
		refText, _ := ref.text()
		rr, v := gojq(dir, refText, yamlArgs("try", n)...)
		if v != "" {
			return v
		}
		refOut, err := decodeOut(rr.Stdout)
		if err != nil || len(refOut) != n+yamlTryExtra || !sameList(refOut[:n], docs) {
			return fmt.Sprintf("%s: well-formed part alone: %s", describe(), rr)
		}
		end := refOut[n]
		for _, x := range refOut[n:] {
			if _, isStr := x.(string); !isStr || !same(x, end) {
				return fmt.Sprintf("%s: `input` past the end of the well-formed part: %s", describe(), rr)
			}
		}
		if rr.Exit != 5 || errLines(rr.Stderr) != 1 {
			return fmt.Sprintf("%s: a bare `input` past the end must fail: %s", describe(), rr)
		}
		if len(got) != n+yamlTryExtra {
			return fmt.Sprintf("%s: %d values from %d `try input`; %s", describe(), len(got), n+yamlTryExtra, r)
		}
		// values, then (if malformed) one caught error that is not the end
		// message, then only the end message
		k := 0
		for k < len(got) && k < n && same(got[k], docs[k]) {
			k++
		}
		okCount := false
		for _, want := range counts {
			if k == want {
				okCount = true
			}
		}
		if okCount {
			observe(k)
		}
		if !okCount {
			return fmt.Sprintf("%s: `try input` gave %s: %d complete values, want %v; %s", describe(), showList(got), k, counts, r)
		}
		rest := got[k:]
		if bad {
			if s, isStr := rest[0].(string); !isStr || same(rest[0], end) || s == "" {
				return fmt.Sprintf("%s: after the complete values one error is expected, got %s; %s", describe(), show(rest[0]), r)
			}
			rest = rest[1:]
		}
		for _, x := range rest {
			if !same(x, end) {
				return fmt.Sprintf("%s: after the error only the end of input (%s) may follow, got %s; %s", describe(), show(end), showList(got[k:]), r)
			}
		}
		if r.Exit != 5 || errLines(r.Stderr) != 1 {
			return fmt.Sprintf("%s: the final bare `input` must fail with one message: %s", describe(), r)
		}
		return ""
	}
	if bad {
		if r.Exit != 5 || errLines(r.Stderr) != 1 {
			return fmt.Sprintf("%s: want exactly one error message and exit 5; %s", describe(), r)
		}
	} else if r.Exit != 0 || r.Stderr != "" {
		return fmt.Sprintf("%s: well-formed stream: %s", describe(), r)
	}
	return ""
}

func genYAMLCase(t *rapid.T) yamlCase {
	c := yamlCase{
		LeadSep: rapid.Bool().Draw(t, "leadsep"),
		Variant: pick(t, "variant", []string{"main", "main", "inputs", "array", "try", "try", "slurp"}),
		File:    chance(t, "file", 3),
	}
	for i, n := 0, rapid.IntRange(1, 4).Draw(t, "ndocs"); i < n; i++ {
		d := pick(t, "doc", yamlDocPool)
		d.Pre = pick(t, "pre", yamlPres)
		d.Term = chance(t, "term", 3)
		c.Docs = append(c.Docs, d)
	}
	if chance(t, "wellformed", 10) {
		c.Tail = ytail{Name: "none", Kind: "none", Quoted: `""`}
		return c
	}
	kind := pick(t, "tailkind", []string{"scanner1", "scanner1", "scanner2", "scanner9", "parser", "parser", "utf8"})
	var pool []ytailT
	for _, x := range yamlTails {
		k := x.kind
		if k == "scanner" {
			k += strconv.Itoa(x.at)
		}
		if k == kind {
			pool = append(pool, x)
		}
	}
	x := pick(t, "tail", pool)
	c.Tail = ytail{Name: x.name, Kind: x.kind, At: x.at, Quoted: strconv.Quote(x.text), Pre: pick(t, "tailpre", yamlPres)}
	if x.follow && chance(t, "follow", 3) {
		c.Tail.Follow = pick(t, "followtext", []string{"---\nz: 26\n", "\n---\nlater\n...\n", "---\n- 1\n---\n- 2\n"})
	}
	return c
}
