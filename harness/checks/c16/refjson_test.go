// Reference reader for JSON text streams, written for this check only: it is
// the independent side of the C16 oracles.  It keeps what the command must
// keep (number literals verbatim, object members in text order) and records
// byte offsets, so that the streaming events of a document and the point of
// the text at which each of them is determined can be computed without
// consulting gojq or encoding/json.
package c16

import (
	"encoding/json"
	"sort"
	"strconv"
	"strings"
	"unicode/utf8"
)

type node struct {
	Kind  byte // n number, s string, t true, f false, z null, a array, o object
	Num   string
	Str   string
	Elems []*node
	Keys  []string
	Start int // offset of the first byte
	End   int // offset after the last byte
}

func (n *node) container() bool { return n.Kind == 'a' || n.Kind == 'o' }

func (n *node) hasContainer() bool { return n.container() }

// val converts to the representation produced by encoding/json with UseNumber.
func (n *node) val() any {
	switch n.Kind {
	case 'n':
		return json.Number(n.Num)
	case 's':
		return n.Str
	case 't':
		return true
	case 'f':
		return false
	case 'z':
		return nil
	case 'a':
		out := make([]any, len(n.Elems))
		for i, e := range n.Elems {
			out[i] = e.val()
		}
		return out
	default:
		m := make(map[string]any, len(n.Keys))
		for i, k := range n.Keys {
			m[k] = n.Elems[i].val()
		}
		return m
	}
}

// same: strict equality of decoded JSON (numbers by literal text).
func same(a, b any) bool {
	switch a := a.(type) {
	case nil:
		return b == nil
	case bool:
		b, ok := b.(bool)
		return ok && a == b
	case string:
		b, ok := b.(string)
		return ok && a == b
	case json.Number:
		b, ok := b.(json.Number)
		return ok && a == b
	case []any:
		b, ok := b.([]any)
		if !ok || len(a) != len(b) {
			return false
		}
		for i := range a {
			if !same(a[i], b[i]) {
				return false
			}
		}
		return true
	case map[string]any:
		b, ok := b.(map[string]any)
		if !ok || len(a) != len(b) {
			return false
		}
		for k, x := range a {
			y, ok := b[k]
			if !ok || !same(x, y) {
				return false
			}
		}
		return true
	}
	return false
}

func sameList(a, b []any) bool {
	if len(a) != len(b) {
		return false
	}
	for i := range a {
		if !same(a[i], b[i]) {
			return false
		}
	}
	return true
}

func show(v any) string {
	b, err := json.Marshal(v)
	if err != nil {
		return "<" + err.Error() + ">"
	}
	return clip(string(b))
}

func showList(vs []any) string {
	var sb strings.Builder
	for i, v := range vs {
		if i > 0 {
			sb.WriteByte(' ')
		}
		b, _ := json.Marshal(v)
		sb.Write(b)
	}
	return clip(sb.String())
}

func clip(s string) string {
	if len(s) > 600 {
		return s[:600] + "...(" + strconv.Itoa(len(s)) + " bytes)"
	}
	return s
}

// ---------------------------------------------------------------------------
// reader

type reader struct {
	s string
	i int
}

func isWS(c byte) bool { return c == ' ' || c == '\t' || c == '\n' || c == '\r' }

func (r *reader) ws() {
	for r.i < len(r.s) && isWS(r.s[r.i]) {
		r.i++
	}
}

// numberEnd scans the JSON number grammar greedily from i, without
// backtracking ("1.x" is an error, not 1 followed by garbage).
func numberEnd(s string, i int) (int, bool) {
	if i < len(s) && s[i] == '-' {
		i++
	}
	if i >= len(s) {
		return i, false
	}
	switch {
	case s[i] == '0':
		i++
	case s[i] >= '1' && s[i] <= '9':
		for i < len(s) && s[i] >= '0' && s[i] <= '9' {
			i++
		}
	default:
		return i, false
	}
	if i < len(s) && s[i] == '.' {
		i++
		j := i
		for i < len(s) && s[i] >= '0' && s[i] <= '9' {
			i++
		}
		if i == j {
			return i, false
		}
	}
	if i < len(s) && (s[i] == 'e' || s[i] == 'E') {
		i++
		if i < len(s) && (s[i] == '+' || s[i] == '-') {
			i++
		}
		j := i
		for i < len(s) && s[i] >= '0' && s[i] <= '9' {
			i++
		}
		if i == j {
			return i, false
		}
	}
	return i, true
}

func validNumber(s string) bool {
	e, ok := numberEnd(s, 0)
	return ok && e == len(s) && s != ""
}

func hex4(s string) (rune, bool) {
	if len(s) < 4 {
		return 0, false
	}
	var v rune
	for i := 0; i < 4; i++ {
		c := s[i]
		switch {
		case c >= '0' && c <= '9':
			v = v<<4 | rune(c-'0')
		case c >= 'a' && c <= 'f':
			v = v<<4 | rune(c-'a'+10)
		case c >= 'A' && c <= 'F':
			v = v<<4 | rune(c-'A'+10)
		default:
			return 0, false
		}
	}
	return v, true
}

// str reads a string literal starting at the opening quote.
func (r *reader) str() (string, bool) {
	r.i++ // opening quote
	var sb strings.Builder
	for {
		if r.i >= len(r.s) {
			return "", false
		}
		c := r.s[r.i]
		switch {
		case c == '"':
			r.i++
			return sb.String(), true
		case c < 0x20:
			return "", false
		case c == '\\':
			r.i++
			if r.i >= len(r.s) {
				return "", false
			}
			e := r.s[r.i]
			r.i++
			switch e {
			case '"', '\\', '/':
				sb.WriteByte(e)
			case 'b':
				sb.WriteByte('\b')
			case 'f':
				sb.WriteByte('\f')
			case 'n':
				sb.WriteByte('\n')
			case 'r':
				sb.WriteByte('\r')
			case 't':
				sb.WriteByte('\t')
			case 'u':
				v, ok := hex4(r.s[r.i:])
				if !ok {
					return "", false
				}
				r.i += 4
				if v >= 0xD800 && v < 0xDC00 && strings.HasPrefix(r.s[r.i:], "\\u") {
					if lo, ok := hex4(r.s[r.i+2:]); ok && lo >= 0xDC00 && lo < 0xE000 {
						r.i += 6
						v = 0x10000 + (v-0xD800)<<10 + (lo - 0xDC00)
					}
				}
				if v >= 0xD800 && v < 0xE000 {
					v = utf8.RuneError
				}
				sb.WriteRune(v)
			default:
				return "", false
			}
		default:
			sb.WriteByte(c)
			r.i++
		}
	}
}

func (r *reader) value() (*node, bool) {
	if r.i >= len(r.s) {
		return nil, false
	}
	start := r.i
	c := r.s[r.i]
	switch {
	case c == '{':
		r.i++
		n := &node{Kind: 'o', Start: start}
		r.ws()
		if r.i < len(r.s) && r.s[r.i] == '}' {
			r.i++
			n.End = r.i
			return n, true
		}
		for {
			r.ws()
			if r.i >= len(r.s) || r.s[r.i] != '"' {
				return nil, false
			}
			k, ok := r.str()
			if !ok {
				return nil, false
			}
			r.ws()
			if r.i >= len(r.s) || r.s[r.i] != ':' {
				return nil, false
			}
			r.i++
			r.ws()
			v, ok := r.value()
			if !ok {
				return nil, false
			}
			n.Keys = append(n.Keys, k)
			n.Elems = append(n.Elems, v)
			r.ws()
			if r.i >= len(r.s) {
				return nil, false
			}
			if r.s[r.i] == ',' {
				r.i++
				continue
			}
			if r.s[r.i] == '}' {
				r.i++
				n.End = r.i
				return n, true
			}
			return nil, false
		}
	case c == '[':
		r.i++
		n := &node{Kind: 'a', Start: start}
		r.ws()
		if r.i < len(r.s) && r.s[r.i] == ']' {
			r.i++
			n.End = r.i
			return n, true
		}
		for {
			r.ws()
			v, ok := r.value()
			if !ok {
				return nil, false
			}
			n.Elems = append(n.Elems, v)
			r.ws()
			if r.i >= len(r.s) {
				return nil, false
			}
			if r.s[r.i] == ',' {
				r.i++
				continue
			}
			if r.s[r.i] == ']' {
				r.i++
				n.End = r.i
				return n, true
			}
			return nil, false
		}
	case c == '"':
		s, ok := r.str()
		if !ok {
			return nil, false
		}
		return &node{Kind: 's', Str: s, Start: start, End: r.i}, true
	case c == '-' || c >= '0' && c <= '9':
		e, ok := numberEnd(r.s, r.i)
		if !ok {
			return nil, false
		}
		r.i = e
		return &node{Kind: 'n', Num: r.s[start:e], Start: start, End: e}, true
	default:
		for _, lit := range []struct {
			text string
			kind byte
		}{{"true", 't'}, {"false", 'f'}, {"null", 'z'}} {
			if strings.HasPrefix(r.s[r.i:], lit.text) {
				r.i += len(lit.text)
				return &node{Kind: lit.kind, Start: start, End: r.i}, true
			}
		}
		return nil, false
	}
}

// readStream returns the complete documents of a text in order and whether a
// malformed (or unterminated) document follows them.
func readStream(text string) (docs []*node, bad bool) {
	r := &reader{s: text}
	for {
		r.ws()
		if r.i >= len(r.s) {
			return docs, false
		}
		n, ok := r.value()
		if !ok {
			return docs, true
		}
		docs = append(docs, n)
	}
}

func vals(docs []*node) []any {
	out := make([]any, 0, len(docs))
	for _, d := range docs {
		out = append(out, d.val())
	}
	return out
}

// ---------------------------------------------------------------------------
// streaming events (jq manual: tostream / --stream), members in text order

type sev struct {
	Path     []any
	Leaf     any
	Closing  bool
	At       int  // the event is complete once At bytes of the text were read
	Num      bool // the leaf is a number: its end is known only after byte At+1
	NumStart int
}

func (e sev) val() any {
	if e.Closing {
		return []any{e.Path}
	}
	return []any{e.Path, e.Leaf}
}

func idx(i int) any { return json.Number(strconv.Itoa(i)) }

func extend(path []any, x any) []any {
	out := make([]any, 0, len(path)+1)
	out = append(out, path...)
	return append(out, x)
}

func clonePath(path []any) []any { return append(make([]any, 0, len(path)), path...) }

func events(n *node, path []any, out *[]sev) {
	switch {
	case n.Kind == 'a' && len(n.Elems) > 0:
		for i, e := range n.Elems {
			events(e, extend(path, idx(i)), out)
		}
		*out = append(*out, sev{Path: extend(path, idx(len(n.Elems)-1)), Closing: true, At: n.End})
	case n.Kind == 'o' && len(n.Elems) > 0:
		for i, e := range n.Elems {
			events(e, extend(path, n.Keys[i]), out)
		}
		*out = append(*out, sev{Path: extend(path, n.Keys[len(n.Keys)-1]), Closing: true, At: n.End})
	default:
		*out = append(*out, sev{Path: clonePath(path), Leaf: n.val(), At: n.End, Num: n.Kind == 'n', NumStart: n.Start})
	}
}

func docEvents(n *node) []sev {
	var out []sev
	events(n, []any{}, &out)
	return out
}

func allEvents(docs []*node) []any {
	out := []any{}
	for _, d := range docs {
		for _, e := range docEvents(d) {
			out = append(out, e.val())
		}
	}
	return out
}

// truncEvents: the events of a document (text, parsed as doc with offsets
// relative to text) that are determined by its first cut bytes, plus the
// possible event of a number token that ends exactly at / is split by the cut.
//   must     – determined events
//   atEnd    – a number token ends exactly at the cut: its event may or may
//              not be reported (the terminating byte was not read)
//   partial  – the cut splits a number token and the part read is itself a
//              number: the event a reader WITHOUT lookahead would report
func truncEvents(doc *node, text string, cut int) (must []any, atEnd any, partial any) {
	must = []any{}
	for _, e := range docEvents(doc) {
		if e.Num {
			if e.At < cut {
				must = append(must, e.val())
				continue
			}
			if e.NumStart < cut {
				part := text[e.NumStart:cut]
				if cut == e.At {
					atEnd = e.val()
				} else if validNumber(part) {
					partial = []any{e.Path, json.Number(part)}
				}
			}
			return
		}
		if e.At <= cut {
			must = append(must, e.val())
			continue
		}
		return
	}
	return
}

// ---------------------------------------------------------------------------
// comparison "up to object key order" of two event lists: the leaf events as
// multisets, and the containers that are closed as multisets (a closing event
// names the last member, which depends on the member order; the container is
// the path without its last element).

func canonEvents(evs []any) (leaves []string, closed []string, ok bool) {
	for _, e := range evs {
		a, isArr := e.([]any)
		if !isArr || len(a) < 1 || len(a) > 2 {
			return nil, nil, false
		}
		p, isArr := a[0].([]any)
		if !isArr {
			return nil, nil, false
		}
		if len(a) == 2 {
			b, _ := json.Marshal(a) // encoding/json sorts object keys
			leaves = append(leaves, string(b))
		} else {
			if len(p) == 0 {
				return nil, nil, false
			}
			b, _ := json.Marshal(p[:len(p)-1])
			closed = append(closed, string(b))
		}
	}
	sort.Strings(leaves)
	sort.Strings(closed)
	return leaves, closed, true
}

func eqStrings(a, b []string) bool {
	if len(a) != len(b) {
		return false
	}
	for i := range a {
		if a[i] != b[i] {
			return false
		}
	}
	return true
}
