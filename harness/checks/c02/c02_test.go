// C02 — paths and update operators equal their defining reductions.
//
// Oracles: (a) the statement literally: getpath(path_i) == output_i, same
// length, same termination; (b) the reference interpreter's path mode (exact
// path list, in order); (c) the defining reductions, evaluated by the
// reference interpreter under value semantics AND written out as a jq program
// run by gojq itself next to the hand-compiled form; (d) an independent Go
// model of delpaths; (e) invalid-path expectations for navigation from
// computed values.
package c02

import (
	"encoding/json"
	"fmt"
	"sort"
	"strconv"
	"strings"
	"testing"

	"github.com/itchyny/gojq"
	"pgregory.net/rapid"

	"verif/internal/diff"
	"verif/internal/evid"
	"verif/internal/gen"
	"verif/internal/refjq"
	"verif/internal/run"
	"verif/internal/univ"
)

var (
	rec   *evid.Rec
	model *refjq.Interp
)

const (
	steps   = 60000
	fuel    = 120000
	maxOuts = 400
)

// ---------------------------------------------------------------------------
// case kinds

type qCase struct {
	Query string `json:"query"`
	Input univ.V `json:"input"`
	Class string `json:"class,omitempty"`
}

type lawCase struct {
	P     string `json:"p"`
	Input univ.V `json:"input"`
}

type defnCase struct {
	Kind  string `json:"kind"` // assign | modify | arith | del
	P     string `json:"p"`
	Op    string `json:"op,omitempty"`
	Body  string `json:"body"`
	Input univ.V `json:"input"`
	Class string `json:"class,omitempty"`
}

type delCase struct {
	Input univ.V   `json:"input"`
	Paths []univ.V `json:"paths"`
}

type negCase struct {
	Query   string `json:"query"`
	Input   univ.V `json:"input"`
	Expect  string `json:"expect"` // "invalid" | "ok"
	Comment string `json:"comment,omitempty"`
}

func compile(src string) (*gojq.Code, string) {
	q, err := gojq.Parse(src)
	if err != nil {
		return nil, "parse-error"
	}
	c, err := gojq.Compile(q)
	if err != nil {
		return nil, "compile-error"
	}
	return c, ""
}

// gojq vs model on an arbitrary query
func checkModel(c qCase) (msg, discard string) {
	q, err := gojq.Parse(c.Query)
	if err != nil {
		return "", "parse-error"
	}
	code, err := gojq.Compile(q)
	if err != nil {
		return "", "compile-error"
	}
	want := model.Run(q, univ.Copy(c.Input.X), nil, fuel, maxOuts)
	if model.EmptyIdentity {
		return "", "identity-of-empty-containers"
	}
	if d := want.Discard(); d != "" {
		return "", d
	}
	got := run.Exec(code, univ.Copy(c.Input.X), steps, maxOuts)
	if got.Panic != "" {
		return "gojq panicked: " + got.Panic, ""
	}
	v := diff.Streams(got, want)
	if v.Discard != "" {
		return "", v.Discard
	}
	// error wording is not part of C02: an update that fails must fail in
	// both, with any internal (non-user) error
	if v.Msg != "" && univ.EqualStreams(got.Vals, want.Vals) && got.Err != nil && want.Err != nil && !isUserErr(got.Err) && !isUserErr(want.Err) {
		return "", ""
	}
	return v.Msg, ""
}

func isUserErr(err error) bool {
	_, ok := err.(gojq.ValueError)
	return ok
}

// (a) the path law, through gojq only plus an own getpath.
func checkLaw(c lawCase) (msg, discard string) {
	pc, d := compile("path(" + c.P + ")")
	if d != "" {
		return "", d
	}
	vc, d := compile(c.P)
	if d != "" {
		return "", d
	}
	in := c.Input.X
	ps := run.Exec(pc, univ.Copy(in), steps, maxOuts)
	vs := run.Exec(vc, univ.Copy(in), steps, maxOuts)
	if ps.Panic != "" || vs.Panic != "" {
		return "gojq panicked: " + ps.Panic + vs.Panic, ""
	}
	if ps.Budget || vs.Budget {
		return "", "budget"
	}
	if len(ps.Vals) != len(vs.Vals) {
		return fmt.Sprintf("path(p) emitted %d paths, p emitted %d values\n  paths  %s (err %v)\n  values %s (err %v)", len(ps.Vals), len(vs.Vals), univ.ShowAll(ps.Vals), ps.Err, univ.ShowAll(vs.Vals), vs.Err), ""
	}
	if (ps.Err == nil) != (vs.Err == nil) {
		return fmt.Sprintf("path(p) ended with error %v, p with %v, after %d outputs", ps.Err, vs.Err, len(vs.Vals)), ""
	}
	for i, p := range ps.Vals {
		path, ok := p.([]any)
		if !ok {
			return fmt.Sprintf("path(p) emitted a non-array %s", univ.Show(p)), ""
		}
		got, ok := getpathSpec(in, path)
		if !ok {
			// components the Go model does not cover (slices with fractional
			// bounds, ...): use gojq's getpath
			gp := run.MustCompile("getpath($p)", gojq.WithVariables([]string{"$p"}))
			x, err := run.One(gp, univ.Copy(in), p)
			if err != nil {
				return fmt.Sprintf("getpath(%s) fails: %v", univ.Show(p), err), ""
			}
			got = x
		}
		if !univ.Equal(got, vs.Vals[i]) {
			return fmt.Sprintf("output %d: path %s leads to %s but p emitted %s", i, univ.Show(p), univ.Show(got), univ.Show(vs.Vals[i])), ""
		}
	}
	return "", ""
}

// getpathSpec: independent lookup for string keys and integer indices.
func getpathSpec(v any, path []any) (any, bool) {
	for _, k := range path {
		switch key := k.(type) {
		case string:
			switch c := v.(type) {
			case nil:
				v = nil
			case map[string]any:
				v = c[key]
			default:
				return nil, false
			}
		case int:
			switch c := v.(type) {
			case nil:
				v = nil
			case []any:
				i := key
				if i < 0 {
					i += len(c)
				}
				if i < 0 || i >= len(c) {
					v = nil
				} else {
					v = c[i]
				}
			default:
				return nil, false
			}
		default:
			return nil, false
		}
	}
	return v, true
}

// (c) defining reductions run by gojq next to the hand-compiled form.
const modifyDef = `def _m(p; f): reduce path(p) as $q ([., []]; . as [$v, $d] | label $l | ((($v | setpath($q; $v | getpath($q) | f)) as $w | [$w, $d] | ., break $l), [$v, $d + [$q]])) | . as [$v, $d] | $v | delpaths($d); `

func (c defnCase) programs() (string, string) {
	switch c.Kind {
	case "assign":
		return "(" + c.P + ") = (" + c.Body + ")", "(" + c.Body + ") as $x | reduce path(" + c.P + ") as $q (.; setpath($q; $x))"
	case "modify":
		return "(" + c.P + ") |= (" + c.Body + ")", modifyDef + "_m(" + c.P + "; " + c.Body + ")"
	case "arith":
		return "(" + c.P + ") " + c.Op + "= (" + c.Body + ")", modifyDef + "(" + c.Body + ") as $x | _m(" + c.P + "; . " + c.Op + " $x)"
	case "del":
		return "del(" + c.P + ")", "delpaths([path(" + c.P + ")])"
	}
	return "", ""
}

func checkDefn(c defnCase) (msg, discard string) {
	a, b := c.programs()
	ca, d := compile(a)
	if d != "" {
		return "", d
	}
	cb, d := compile(b)
	if d != "" {
		return "", d
	}
	// resource guard through the model
	q, _ := gojq.Parse(b)
	want := model.Run(q, univ.Copy(c.Input.X), nil, fuel, maxOuts)
	if d := want.Discard(); d != "" {
		return "", d
	}
	ra := run.Exec(ca, univ.Copy(c.Input.X), steps, maxOuts)
	rb := run.Exec(cb, univ.Copy(c.Input.X), steps*6, maxOuts)
	if ra.Panic != "" || rb.Panic != "" {
		return "gojq panicked: " + ra.Panic + rb.Panic, ""
	}
	if ra.Budget || rb.Budget {
		return "", "budget"
	}
	if !univ.EqualStreams(ra.Vals, rb.Vals) || (ra.Err == nil) != (rb.Err == nil) {
		return fmt.Sprintf("hand-compiled form and defining reduction disagree:\n  %s\n    => %s err=%v\n  %s\n    => %s err=%v", a, univ.ShowAll(ra.Vals), ra.Err, b, univ.ShowAll(rb.Vals), rb.Err), ""
	}
	if ra.Err != nil && rb.Err != nil && isUserErr(ra.Err) != isUserErr(rb.Err) {
		return fmt.Sprintf("different kinds of error: %v vs %v", ra.Err, rb.Err), ""
	}
	return "", ""
}

// (d) delpaths against an independent Go model working on deep copies:
// sort the paths, delete sequentially from the last.
func delSpec(v any, paths [][]any) (any, bool) {
	ps := append([][]any(nil), paths...)
	ok := true
	sort.SliceStable(ps, func(i, j int) bool { return cmpPath(ps[i], ps[j]) < 0 })
	for i := len(ps) - 1; i >= 0; i-- {
		if i+1 < len(ps) && cmpPath(ps[i], ps[i+1]) == 0 {
			continue // the same location named twice is deleted once
		}
		var good bool
		v, good = delOne(v, ps[i])
		ok = ok && good
	}
	return v, ok
}

func cmpKey(a, b any) int {
	as, aok := a.(string)
	bs, bok := b.(string)
	switch {
	case aok && bok:
		return strings.Compare(as, bs)
	case aok:
		return 1 // numbers sort before strings
	case bok:
		return -1
	}
	return a.(int) - b.(int)
}

func cmpPath(a, b []any) int {
	for i := 0; i < len(a) && i < len(b); i++ {
		if c := cmpKey(a[i], b[i]); c != 0 {
			return c
		}
	}
	return len(a) - len(b)
}

// delOne deletes one path; ok=false when the model does not define the
// result (type mismatch: an error is expected).
func delOne(v any, path []any) (any, bool) {
	if len(path) == 0 {
		return nil, true
	}
	switch key := path[0].(type) {
	case string:
		switch c := v.(type) {
		case nil:
			return nil, true
		case map[string]any:
			x, has := c[key]
			if !has {
				return c, true
			}
			m := make(map[string]any, len(c))
			for k, y := range c {
				m[k] = y
			}
			if len(path) == 1 {
				delete(m, key)
				return m, true
			}
			y, ok := delOne(x, path[1:])
			m[key] = y
			return m, ok
		}
		return nil, false
	case int:
		switch c := v.(type) {
		case nil:
			return nil, true
		case []any:
			i := key
			if i < 0 {
				i += len(c)
			}
			if i < 0 || i >= len(c) {
				return c, true
			}
			if len(path) == 1 {
				a := make([]any, 0, len(c)-1)
				a = append(a, c[:i]...)
				return append(a, c[i+1:]...), true
			}
			y, ok := delOne(c[i], path[1:])
			a := append([]any(nil), c...)
			a[i] = y
			return a, ok
		}
		return nil, false
	}
	return nil, false
}

func checkDel(c delCase) (msg, discard string) {
	paths := make([][]any, len(c.Paths))
	arg := make([]any, len(c.Paths))
	for i, p := range c.Paths {
		pa, _ := p.X.([]any)
		// normalise negative indices against the ORIGINAL value (all deleted
		// paths are interpreted against the original value)
		paths[i] = normPath(c.Input.X, pa)
		arg[i] = pa
	}
	code := run.MustCompile("delpaths($ps)", gojq.WithVariables([]string{"$ps"}))
	in := univ.Copy(c.Input.X)
	snapshot := univ.Copy(in)
	res := run.Exec(code, in, steps, 10, arg)
	if res.Panic != "" {
		return "gojq panicked: " + res.Panic, ""
	}
	if !univ.Same(in, snapshot) {
		return fmt.Sprintf("delpaths modified its input: %s -> %s", univ.Show(snapshot), univ.Show(in)), ""
	}
	want, defined := delSpec(univ.Copy(c.Input.X), paths)
	if !defined {
		// a path through a value of the wrong type: the property does not say
		// what happens (gojq reports an error unless an ancestor is deleted
		// by an earlier path of the list); not judged
		return "", "delpaths-through-wrong-type"
	}
	if res.Err != nil {
		return fmt.Sprintf("delpaths(%s) on %s failed: %v; the model gives %s", univ.Show(arg), univ.Show(c.Input.X), res.Err, univ.Show(want)), ""
	}
	if len(res.Vals) != 1 || !univ.Equal(res.Vals[0], want) {
		return fmt.Sprintf("delpaths(%s) on %s = %s, the model gives %s", univ.Show(arg), univ.Show(c.Input.X), univ.ShowAll(res.Vals), univ.Show(want)), ""
	}
	return "", ""
}

func normPath(v any, p []any) []any {
	out := make([]any, len(p))
	for i, k := range p {
		out[i] = k
		if n, ok := k.(int); ok {
			if a, isArr := v.([]any); isArr && n < 0 {
				if n+len(a) >= 0 {
					out[i] = n + len(a)
				} else {
					out[i] = len(a) + 1000 + i // out of range: deletes nothing
				}
			}
		}
		v, _ = getpathSpec(v, []any{out[i]})
	}
	return out
}

// (e) invalid-path expectations.
func checkNeg(c negCase) (msg, discard string) {
	code, d := compile(c.Query)
	if d != "" {
		return "", d
	}
	in := univ.Copy(c.Input.X)
	snapshot := univ.Copy(in)
	res := run.Exec(code, in, steps, maxOuts)
	if res.Panic != "" {
		return "gojq panicked: " + res.Panic, ""
	}
	if res.Budget {
		return "", "budget"
	}
	if !univ.Same(in, snapshot) {
		return "input modified", ""
	}
	switch c.Expect {
	case "invalid":
		if res.Err == nil {
			return fmt.Sprintf("%s on %s: expected an invalid-path error, got %s", c.Query, univ.Show(c.Input.X), univ.ShowAll(res.Vals)), ""
		}
		if !strings.Contains(strings.ToLower(res.Err.Error()), "invalid path") {
			// another error (a type error computed first) is not a silent
			// update either
			rec.Class("invalid-path/other-error")
		} else {
			rec.Class("invalid-path/exact")
		}
	case "ok":
		if res.Err != nil && strings.Contains(strings.ToLower(res.Err.Error()), "invalid path") {
			return fmt.Sprintf("%s on %s: unexpected invalid-path error %q (the value navigated from equals the value at the location)", c.Query, univ.Show(c.Input.X), res.Err), ""
		}
	}
	return "", ""
}

// ---------------------------------------------------------------------------
// generators

// uniqueLeaf builds a nested value whose leaves are all distinct, so that a
// value identifies its path.
func uniqueLeaf() *rapid.Generator[any] {
	return rapid.Custom(func(t *rapid.T) any {
		n := 100
		var build func(depth int) any
		build = func(depth int) any {
			k := rapid.IntRange(0, 9).Draw(t, "kind")
			if depth <= 0 || k < 3 {
				n++
				switch rapid.IntRange(0, 7).Draw(t, "leaf") {
				case 0:
					return nil
				case 1:
					return "s" + strconv.Itoa(n)
				case 2:
					return float64(n) + 0.5
				default:
					return n
				}
			}
			w := rapid.IntRange(0, 4).Draw(t, "width")
			if k < 6 {
				a := make([]any, w)
				for i := range a {
					a[i] = build(depth - 1)
				}
				return a
			}
			m := map[string]any{}
			keys := []string{"a", "b", "c", "d"}
			for i := 0; i < w; i++ {
				m[keys[i]] = build(depth - 1)
			}
			return m
		}
		d := rapid.IntRange(1, 4).Draw(t, "depth")
		v := build(d)
		switch v.(type) {
		case []any, map[string]any:
			return v
		}
		if rapid.Bool().Draw(t, "wrap") {
			return map[string]any{"a": []any{v, []any{1, 2, map[string]any{"b": 3}}}, "b": map[string]any{"a": 4}}
		}
		return v
	})
}

// allPaths lists every path of v (pre-order, root included).
func allPaths(v any, prefix []any, out *[][]any) {
	*out = append(*out, append([]any(nil), prefix...))
	switch c := v.(type) {
	case []any:
		for i, x := range c {
			allPaths(x, append(prefix, i), out)
		}
	case map[string]any:
		keys := make([]string, 0, len(c))
		for k := range c {
			keys = append(keys, k)
		}
		sort.Strings(keys)
		for _, k := range keys {
			allPaths(c[k], append(prefix, k), out)
		}
	}
}

func renderPath(p []any) string {
	if len(p) == 0 {
		return "."
	}
	var sb strings.Builder
	for i, k := range p {
		switch key := k.(type) {
		case string:
			if key == "a" || key == "b" || key == "c" || key == "d" {
				sb.WriteString("." + key)
			} else {
				if i == 0 {
					sb.WriteString(".")
				}
				sb.WriteString("[" + strconv.Quote(key) + "]")
			}
		case int:
			if i == 0 {
				sb.WriteString(".")
			}
			sb.WriteString("[" + strconv.Itoa(key) + "]")
		case [2]any: // slice
			if i == 0 {
				sb.WriteString(".")
			}
			s, e := "", ""
			if key[0] != nil {
				s = fmt.Sprint(key[0])
			}
			if key[1] != nil {
				e = fmt.Sprint(key[1])
			}
			sb.WriteString("[" + s + ":" + e + "]")
		}
	}
	return sb.String()
}

// overlapping draws 2..4 paths of v related as equal / ancestor /
// descendant / sibling / slice-overlap / growth / negative index, and
// returns the jq path expression plus the relation classes.
// retainScenario: write inside a container, then visit an ancestor (or a
// slice of the parent array covering it, with any start) with a body that may
// retain it, then write inside again (at the old place and at the place a
// duplicate would land).
func retainScenario(t *rapid.T, v any, ps [][]any) (string, []string, bool) {
	var deep [][]any
	for _, p := range ps {
		if len(p) >= 2 {
			deep = append(deep, p)
		}
	}
	if len(deep) == 0 {
		return "", nil, false
	}
	leaf := rapid.SampledFrom(deep).Draw(t, "leaf")
	cut := rapid.IntRange(1, len(leaf)-1).Draw(t, "cut")
	anc := leaf[:cut] // the container that will be retained
	exprs := []string{renderPath(leaf)}
	classes := []string{"scenario-retain"}
	if k, ok := anc[len(anc)-1].(int); ok && k >= 0 && rapid.IntRange(0, 2).Draw(t, "useslice") > 0 {
		s0 := rapid.IntRange(0, k).Draw(t, "s")
		e0 := k + rapid.IntRange(1, 2).Draw(t, "e")
		var sl [2]any
		sl[0], sl[1] = s0, e0
		if rapid.IntRange(0, 3).Draw(t, "open") == 0 {
			sl[1] = nil
		}
		exprs = append(exprs, renderPath(append(append([]any(nil), anc[:len(anc)-1]...), sl)))
		classes = append(classes, "slice-over")
		// the duplicate of element k lands somewhere in s0..k+len: write there as well
		shifted := append([]any(nil), leaf...)
		shifted[cut-1] = k + rapid.IntRange(0, 2).Draw(t, "shift")
		exprs = append(exprs, renderPath(leaf), renderPath(shifted))
	} else {
		exprs = append(exprs, renderPath(anc), renderPath(leaf))
		classes = append(classes, "ancestor")
		if rapid.Bool().Draw(t, "intodup") {
			// into the copies a duplicating body creates: .anc[0]..., .anc.a...
			for _, k := range []any{0, 1, "a", "b"} {
				q := append(append(append([]any(nil), anc...), k), leaf[cut:]...)
				exprs = append(exprs, renderPath(q))
			}
		}
	}
	return "(" + strings.Join(exprs, ", ") + ")", classes, true
}

func overlapping(t *rapid.T, v any) (string, []string) {
	var ps [][]any
	allPaths(v, nil, &ps)
	if rapid.IntRange(0, 5).Draw(t, "scenario") == 0 {
		if e, c, ok := retainScenario(t, v, ps); ok {
			return e, c
		}
	}
	base := rapid.SampledFrom(ps).Draw(t, "base")
	n := rapid.IntRange(2, 4).Draw(t, "npaths")
	exprs := []string{renderPath(base)}
	var classes []string
	for i := 1; i < n; i++ {
		rel := rapid.SampledFrom([]string{"equal", "ancestor", "descendant", "descendant-new", "sibling", "slice-over", "slice-same", "growth", "negative", "any", "iterate"}).Draw(t, "rel")
		var p []any
		switch rel {
		case "equal":
			p = base
		case "ancestor":
			if len(base) == 0 {
				p = base
				rel = "equal"
			} else {
				p = base[:rapid.IntRange(0, len(base)-1).Draw(t, "cut")]
			}
		case "descendant":
			var ds [][]any
			for _, q := range ps {
				if len(q) > len(base) && cmpPrefix(base, q) {
					ds = append(ds, q)
				}
			}
			if len(ds) == 0 {
				p = append(append([]any(nil), base...), "a")
				rel = "descendant-new"
			} else {
				p = rapid.SampledFrom(ds).Draw(t, "desc")
			}
		case "descendant-new":
			p = append(append([]any(nil), base...), rapid.SampledFrom([]any{"a", "x", 0, 1, "b"}).Draw(t, "newkey"))
		case "sibling":
			if len(base) == 0 {
				p = []any{"a"}
			} else {
				p = append(append([]any(nil), base[:len(base)-1]...), rapid.SampledFrom([]any{"a", "b", 0, 1, 2, "x"}).Draw(t, "sib"))
			}
		case "slice-over", "slice-same":
			// a slice on the parent array covering (or equal to) an index
			parent := base
			idx := 0
			if len(base) > 0 {
				if k, ok := base[len(base)-1].(int); ok {
					parent, idx = base[:len(base)-1], k
				}
			}
			s := rapid.IntRange(0, 2).Draw(t, "s")
			e := s + rapid.IntRange(0, 2).Draw(t, "len")
			if rel == "slice-over" && idx >= 0 {
				s = idx
				e = idx + rapid.IntRange(1, 2).Draw(t, "len")
				if s > 0 && rapid.Bool().Draw(t, "earlier") {
					s--
				}
			}
			var sl [2]any
			sl[0], sl[1] = s, e
			if rapid.IntRange(0, 4).Draw(t, "open") == 0 {
				sl[1] = nil
			}
			if rapid.IntRange(0, 6).Draw(t, "open0") == 0 {
				sl[0] = nil
			}
			p = append(append([]any(nil), parent...), sl)
			if rapid.Bool().Draw(t, "into") {
				p = append(p, rapid.IntRange(0, 2).Draw(t, "within"))
			}
		case "growth":
			p = append(append([]any(nil), base...), rapid.IntRange(3, 7).Draw(t, "grow"))
		case "negative":
			p = append(append([]any(nil), base...), -rapid.IntRange(1, 3).Draw(t, "neg"))
		case "iterate":
			exprs = append(exprs, renderPath(base)+"[]?")
			classes = append(classes, rel)
			continue
		default:
			p = rapid.SampledFrom(ps).Draw(t, "anypath")
		}
		classes = append(classes, rel)
		exprs = append(exprs, renderPath(p))
	}
	// random order
	perm := rapid.Permutation(exprs).Draw(t, "order")
	return "(" + strings.Join(perm, ", ") + ")", classes
}

func cmpPrefix(a, b []any) bool {
	for i := range a {
		if i >= len(b) || fmt.Sprint(a[i]) != fmt.Sprint(b[i]) {
			return false
		}
	}
	return true
}

var bodies = []struct{ src, class string }{
	{".", "copy"}, {"[.]", "embed"}, {"[.,.]", "duplicate"}, {"{a:.,b:.}", "duplicate"}, {"7", "const"}, {"\"x\"", "const"}, {"null", "const"}, {"empty", "drop"},
	{"(1,2)", "multi"}, {"error(\"e\")", "error"}, {".+1", "arith"}, {"if type==\"array\" then [.,.] else .+1 end", "type-switch"}, {"if type == \"number\" then . + 1 else . end", "type-switch"},
	{"tostring", "scalar"}, {"length?", "scalar"}, {"[.[]?]", "rebuild"}, {"del(.a?)", "nested-delete"}, {".a? // .", "project"}, {"first(.[]?)", "project"}, {"[]", "const"}, {"{}", "const"},
	{"(., 9)", "multi"}, {"(empty, 5)", "multi"}, {"select(type == \"number\")", "drop-some"}, {"if type == \"number\" then empty else . end", "drop-some"}, {"{a: .}", "embed"}, {"[[.]]", "embed"},
	{".[0]? // 0", "project"}, {"(.a? |= 3)?", "nested-update"}, {"map_values(1)?", "nested-update"}, {". as $x | [$x, $x]", "duplicate"}, {"try error catch .", "copy"}, {"[., 1]", "embed"},
	{". + .", "dup-elements"}, {"if type == \"array\" then . + . else . + 1 end", "dup-elements"}, {"[.[]?, .[]?]", "dup-elements"}, {"if type == \"object\" then {a: .a, b: .a} else . end", "dup-elements"},
	{"if type == \"array\" then [.[], .[]] elif type == \"object\" then {a: .[keys[0]]?, b: .[keys[0]]?} else . + 1 end", "dup-elements"}, {"{a: .[0]?, b: .[0]?}", "dup-elements"}, {"if type == \"array\" then map(., .) else . end", "dup-elements"},
	{"if type == \"number\" then . + 1 else . + . end", "dup-elements"}, {"if type == \"array\" then [.[0], .[0]] else . end", "dup-elements"},
	// removing updates nested in the body (the outer update has removals pending meanwhile)
	{"if type == \"number\" then empty else (.[]? |= empty) end", "nested-remove"}, {"(.[]? |= select(. != null))?", "nested-remove"}, {"map_values(select(type == \"number\"))?", "nested-remove"},
	{"(.[]? |= (if type == \"number\" then empty else . end))?", "nested-remove"}, {"if type == \"number\" then empty else map_values(empty)? end", "nested-remove"}, {"(.a? |= empty)?", "nested-remove"},
	{"if type == \"array\" then (.[] |= empty) elif type == \"number\" then empty else . end", "nested-remove"}, {"if . == null then empty else (.[]? |= (if . == null then empty else . end)) end", "nested-remove"},
	{"walk(if . == null then empty else . end)?", "nested-remove"}, {"(.. |= (if . == null then empty else . end))?", "nested-remove"}, {"(first(.[]?) |= empty)?", "nested-remove"},
	{"if type == \"array\" then .[1:] else . end", "slice-body"}, {"if type == \"array\" then . + [0] else . end", "grow-body"}, {"if type == \"object\" then . + {z: 1} else . end", "grow-body"},
}

var rhsValues = []string{"1", ".", "[.]", "(1,2)", "empty", "error(\"x\")", "null", ".a?", "{}", "[1,2]", "\"s\"", "(.a?, 2)", "length?", "[., .]"}

func setup(t *testing.T) {
	var err error
	if model, err = refjq.New(); err != nil {
		t.Fatal(err)
	}
}

// ---------------------------------------------------------------------------

func replayCase(sub string, raw json.RawMessage) string {
	var msg string
	switch sub {
	case "path-law":
		var c lawCase
		if err := json.Unmarshal(raw, &c); err != nil {
			return "bad replay: " + err.Error()
		}
		msg, _ = checkLaw(c)
	case "consumer-defn":
		var c consCase
		if err := json.Unmarshal(raw, &c); err != nil {
			return "bad replay: " + err.Error()
		}
		m, _ := checkCons(c)
		return m
	case "path-model", "update-model", "builtins", "general":
		var c qCase
		if err := json.Unmarshal(raw, &c); err != nil {
			return "bad replay: " + err.Error()
		}
		msg, _ = checkModel(c)
	case "update-defn":
		var c defnCase
		if err := json.Unmarshal(raw, &c); err != nil {
			return "bad replay: " + err.Error()
		}
		msg, _ = checkDefn(c)
	case "delpaths":
		var c delCase
		if err := json.Unmarshal(raw, &c); err != nil {
			return "bad replay: " + err.Error()
		}
		msg, _ = checkDel(c)
	case "invalid-path":
		var c negCase
		if err := json.Unmarshal(raw, &c); err != nil {
			return "bad replay: " + err.Error()
		}
		msg, _ = checkNeg(c)
	default:
		return "unknown sub " + sub
	}
	return msg
}

type pathGen struct{}

func pathExpr(t *rapid.T) string {
	// reuse the shared path grammar through a throw-away program generator
	return gen.PathExprOnly(3).Draw(t, "pathexpr")
}

// refDefs: the defining reductions of the jq-defined path consumers, written
// from the manual with other names (independent of builtin.jq, which a change
// may alter together with its precompiled form).
const refDefs = `
def r_paths: path(..) | select(length > 0);
def r_paths(f): . as $in | r_paths | select(. as $p | $in | getpath($p) | f);
def r_leaf_paths: r_paths(type != "array" and type != "object");
def r_to_entries: . as $in | [keys[] as $k | {key: $k, value: $in[$k]}];
def r_with_entries(f): r_to_entries | map(f) | from_entries;
def r_map_values(f): .[] |= f;
def r_del(p): delpaths([path(p)]);
def r_pick(p): . as $v | reduce path(p) as $q (null; setpath($q; $v | getpath($q)));
def r_tostream:
  . as $dot
  | if (type != "array" and type != "object") or length == 0 then [[], $dot]
    else keys as $keys | $keys[-1] as $last
      | (($keys[] | . as $key | $dot[$key] | r_tostream | .[0] |= [$key] + .), [[$last]])
    end;
`

type consCase struct {
	Builtin string `json:"builtin"` // e.g. "[tostream]"
	Ref     string `json:"ref"`     // e.g. "[r_tostream]"
	Input   univ.V `json:"input"`
}

// checkCons: the builtin and its defining reduction, both run by gojq on the
// same input, give the same outputs (and both fail or neither).
func checkCons(c consCase) (msg, discard string) {
	qb, err := gojq.Parse(c.Builtin)
	if err != nil {
		return "", "parse-error"
	}
	qr, err := gojq.Parse(refDefs + c.Ref)
	if err != nil {
		return "bad reference query: " + err.Error(), ""
	}
	cb, err := gojq.Compile(qb)
	if err != nil {
		return "", "compile-error"
	}
	cr, err := gojq.Compile(qr)
	if err != nil {
		return "", "compile-error"
	}
	// resource guard: the model runs first
	if d := model.Run(qb, univ.Copy(c.Input.X), nil, fuel, maxOuts).Discard(); strings.HasPrefix(d, "resource") || d == "fuel" {
		return "", d
	}
	got := run.Exec(cb, univ.Copy(c.Input.X), steps, maxOuts)
	want := run.Exec(cr, univ.Copy(c.Input.X), steps*8, maxOuts)
	if got.Panic != "" || want.Panic != "" {
		return "panic: " + got.Panic + want.Panic, ""
	}
	if got.Budget || want.Budget {
		return "", "budget"
	}
	if !univ.EqualStreams(got.Vals, want.Vals) || (got.Err == nil) != (want.Err == nil) {
		return fmt.Sprintf("%s gives %s err=%v, its defining reduction %s gives %s err=%v", c.Builtin, univ.ShowAll(got.Vals), got.Err, c.Ref, univ.ShowAll(want.Vals), want.Err), ""
	}
	return "", ""
}

func finish(t *rapid.T, sub string, c any, key string, nontrivial bool, msg, discard string) {
	if discard != "" {
		rec.Discard(discard)
		return
	}
	if nontrivial {
		rec.NT(sub + "\x00" + key)
	}
	if msg != "" {
		t.Fatalf("%s", rec.Fail(sub, c, "%s", msg))
	}
}

func TestC02(t *testing.T) {
	rec = evid.Open("C02")
	defer rec.Close()
	setup(t)
	rec.Replays(replayCase)
	if rec.ReplayPath() != "" {
		return
	}
	knownSlice := rec.KnownClass("C02/slice-alias")
	knownDup := rec.KnownClass("C02/retained-input-alias")

	inputs := rapid.OneOf(uniqueLeaf(), uniqueLeaf(), gen.Value(gen.Opt{MaxDepth: 3, MaxWidth: 3, SmallInts: true}))

	// (a) the path law
	rec.Rapid(t, "path-law", rec.Scale(40000, 2000000), func(t *rapid.T) {
		c := lawCase{P: pathExpr(t), Input: univ.V{X: inputs.Draw(t, "input")}}
		if strings.Contains(c.P, "$a.x") || strings.Contains(c.P, "$a[0]") || strings.Contains(c.P, "$a | ") {
			// navigation from a bound variable is a negative form (invalid
			// path), decided by path-model; the law speaks about path-safe p
			rec.Discard("negative-form-in-path-law")
			return
		}
		rec.Eval()
		rec.Class("path-law")
		rec.Sample(c)
		msg, d := checkLaw(c)
		finish(t, "path-law", c, c.P+univ.Show(c.Input.X), strings.ContainsAny(c.P, ",[") || strings.Contains(c.P, ".."), msg, d)
	})

	// (b) exact path list against the model's path mode
	rec.Rapid(t, "path-model", rec.Scale(40000, 2000000), func(t *rapid.T) {
		c := qCase{Query: "path(" + pathExpr(t) + ")", Input: univ.V{X: inputs.Draw(t, "input")}}
		rec.Eval()
		rec.Journal("path-model", c)
		rec.Class("path-model")
		rec.Sample(c)
		msg, d := checkModel(c)
		finish(t, "path-model", c, c.Query+univ.Show(c.Input.X), true, msg, d)
	})

	// (c) updates with overlapping paths: model and defining reduction
	rec.Rapid(t, "update-defn", rec.Scale(40000, 2000000), func(t *rapid.T) {
		in := uniqueLeaf().Draw(t, "input")
		if rapid.IntRange(0, 9).Draw(t, "long") == 0 {
			// the same overlap scenarios inside long arrays (capacity growth,
			// in-place branches and sweeps at sizes beyond the small ones)
			m := rapid.SampledFrom([]int{15, 16, 17, 31, 32, 33, 64, 65}).Draw(t, "longn")
			arr := make([]any, m)
			for i := range arr {
				switch i % 6 {
				case 0:
					arr[i] = []any{1000 + i*10, 1001 + i*10}
				case 1:
					arr[i] = map[string]any{"a": 1000 + i*10, "b": []any{1001 + i*10}}
				default:
					arr[i] = 1000 + i*10
				}
			}
			in = arr
			if rapid.Bool().Draw(t, "wrap") {
				in = map[string]any{"a": arr, "b": 5}
			}
		}
		var p string
		var classes []string
		if rapid.IntRange(0, 3).Draw(t, "pathsrc") == 0 {
			p = pathExpr(t)
			classes = []string{"grammar"}
		} else {
			p, classes = overlapping(t, in)
		}
		kind := rapid.SampledFrom([]string{"assign", "modify", "modify", "modify", "arith", "del"}).Draw(t, "kind")
		c := defnCase{Kind: kind, P: p, Input: univ.V{X: in}}
		bodyClass := ""
		switch kind {
		case "assign":
			c.Body = rapid.SampledFrom(rhsValues).Draw(t, "rhs")
		case "modify":
			b := rapid.SampledFrom(bodies).Draw(t, "body")
			c.Body, bodyClass = b.src, b.class
		case "arith":
			c.Op = rapid.SampledFrom([]string{"+", "-", "*", "/", "%", "//"}).Draw(t, "op")
			c.Body = rapid.SampledFrom([]string{"1", "2", "(1,2)", "null", "[1]", "\"s\"", "empty", ".a?", "{a:1}", "0"}).Draw(t, "rhs")
		}
		c.Class = kind + "/" + bodyClass + "/" + strings.Join(classes, "+")
		hasSlice := strings.Contains(p, ":")
		retains := bodyClass == "embed" || bodyClass == "duplicate" || bodyClass == "copy" || bodyClass == "type-switch" || bodyClass == "rebuild" || bodyClass == "multi" || bodyClass == "project" ||
			bodyClass == "dup-elements" || bodyClass == "nested-delete" || bodyClass == "nested-update" || bodyClass == "slice-body" || bodyClass == "grow-body" || bodyClass == "drop-some"
		if kind == "modify" && knownSlice && hasSlice && retains {
			rec.Excluded("C02/slice-alias")
			return
		}
		if kind == "modify" && knownDup && retains && len(classes) >= 2 {
			rec.Excluded("C02/retained-input-alias")
			return
		}
		rec.Eval()
		rec.Journal("update-defn", c)
		rec.Class("update/" + kind)
		for _, cl := range classes {
			rec.Class("overlap/" + cl)
		}
		if bodyClass != "" {
			rec.Class("body/" + bodyClass)
		}
		rec.Sample(c)
		msg, d := checkDefn(c)
		if msg == "" && d == "" {
			a, _ := c.programs()
			msg, d = checkModel(qCase{Query: a, Input: c.Input})
			if msg != "" {
				msg = "against the model: " + msg
			}
		}
		finish(t, "update-defn", c, fmt.Sprint(c.Kind, c.P, c.Op, c.Body)+univ.Show(in), len(classes) >= 1, msg, d)
	})

	// (d) delpaths against the Go model
	rec.Rapid(t, "delpaths", rec.Scale(30000, 1500000), func(t *rapid.T) {
		in := uniqueLeaf().Draw(t, "input")
		n := rapid.IntRange(0, 5).Draw(t, "npaths")
		if rapid.IntRange(0, 7).Draw(t, "long") == 0 {
			// long containers and many paths: the sorting / merging of the path
			// list and the sweep over marked elements at sizes beyond the small ones
			m := rapid.SampledFrom([]int{12, 13, 31, 32, 33, 64, 65, 100}).Draw(t, "longn")
			arr := make([]any, m)
			for i := range arr {
				switch i % 5 {
				case 0:
					arr[i] = []any{i * 10, i*10 + 1}
				case 1:
					arr[i] = map[string]any{"a": i * 10, "b": []any{i*10 + 1}}
				default:
					arr[i] = i * 10
				}
			}
			in = arr
			if rapid.Bool().Draw(t, "wrap") {
				in = map[string]any{"a": arr, "b": 5}
			}
			n = rapid.IntRange(1, 3*m/2).Draw(t, "longpaths")
		}
		var ps [][]any
		allPaths(in, nil, &ps)
		c := delCase{Input: univ.V{X: in}}
		wrongType := false
		for i := 0; i < n; i++ {
			var p []any
			switch rapid.IntRange(0, 6).Draw(t, "pkind") {
			case 0:
				p = append(append([]any(nil), rapid.SampledFrom(ps).Draw(t, "p")...), rapid.SampledFrom([]any{"x", 9, -1, "a", 0}).Draw(t, "ext"))
				wrongType = true
			case 1:
				q := rapid.SampledFrom(ps).Draw(t, "p")
				p = append([]any(nil), q...)
				if len(p) > 0 {
					if k, ok := p[len(p)-1].(int); ok && rapid.Bool().Draw(t, "negate") {
						parent, _ := getpathSpec(in, p[:len(p)-1])
						if a, isArr := parent.([]any); isArr {
							p[len(p)-1] = k - len(a)
						}
					}
				}
			default:
				p = rapid.SampledFrom(ps).Draw(t, "p")
			}
			c.Paths = append(c.Paths, univ.V{X: append([]any{}, p...)})
		}
		rec.Eval()
		rec.Class(fmt.Sprintf("delpaths/%d-paths", n))
		rec.Sample(c)
		msg, d := checkDel(c)
		_ = wrongType
		finish(t, "delpaths", c, univ.Show(in)+fmt.Sprint(c.Paths), n >= 1, msg, d)
	})

	// (e) invalid-path expectations
	rec.Rapid(t, "invalid-path", rec.Scale(20000, 600000), func(t *rapid.T) {
		in := inputs.Draw(t, "input")
		nav := rapid.SampledFrom([]string{".a", ".[0]", ".[]", ".[1:]", ".[\"b\"]", ".a.b", ".[0][0]", ".[-1]", "getpath([\"a\"])", ".[]?", ".a?", "first(.[]?, .a?)", "..", "recurse(.[]?)", "select(true) | .[0]?", "if true then .a? else . end"}).Draw(t, "nav")
		wrap := rapid.SampledFrom([]string{"path(%s)", "[path(%s)]", "(%s) = 1", "(%s) |= 1", "(%s) += 1", "del(%s)", "[paths(%s)]"[:0] + "path(%s | .)", "path(.a? | %s)?" + ""}).Draw(t, "wrap")
		var c negCase
		switch rapid.IntRange(0, 3).Draw(t, "negkind") {
		case 3: // a shorter slice of a variable aliasing the array at the location: computed, not reached
			n := rapid.IntRange(2, 5).Draw(t, "len")
			arr := make([]any, n)
			for i := range arr {
				arr[i] = 100 + i
			}
			a := rapid.IntRange(0, n-2).Draw(t, "a")
			b := rapid.IntRange(a+1, n-1).Draw(t, "b") // strictly shorter than .[a:]
			i := rapid.IntRange(0, n-1).Draw(t, "i")
			w := rapid.SampledFrom([]string{"path(%s)", "(%s) = 1", "(%s) |= 1", "del(%s)"}).Draw(t, "w")
			in = arr
			c = negCase{Query: fmt.Sprintf(".[%d:%d] as $s | ", a, b) + fmt.Sprintf(w, fmt.Sprintf(".[%d:] | $s | .[%d]", a, i)), Input: univ.V{X: in}, Expect: "invalid", Comment: "slice of a variable sharing the array of the location but shorter"}
		case 0: // navigation from a constructed non-empty container: always invalid
			cons := rapid.SampledFrom([]string{"[1,2]", "{\"a\":{\"b\":1},\"b\":2}", "[[1],[2]]", "[.]", "{a:.}", "[.,.]", "{\"a\":[1]}", "(. as $x | [$x])", "[.[]?, 0]", "{a: 1} + {b: 2}", "[1] + [2]", "tojson | fromjson | [., 1]", "[1,2,3] | map(. + 1)", "{a:[{b:1}]} | .a"}).Draw(t, "cons")
			navs := []string{".a", ".[0]", ".[]", ".[1:]", ".[\"b\"]", ".[-1]", "getpath([\"a\"])", "getpath([0])"}
			n := rapid.SampledFrom(navs).Draw(t, "nav")
			// the navigation must be applicable to the constructed value's type
			isArr := strings.HasPrefix(cons, "[") || strings.Contains(cons, "map(") || strings.HasSuffix(cons, "[., 1]")
			if strings.HasSuffix(cons, "| .a") {
				isArr = true
			}
			arrNav := n == ".[0]" || n == ".[1:]" || n == ".[-1]" || n == "getpath([0])" || n == ".[]"
			objNav := n == ".a" || n == ".[\"b\"]" || n == "getpath([\"a\"])" || n == ".[]"
			if (isArr && !arrNav) || (!isArr && !objNav) {
				if isArr {
					n = ".[0]"
				} else {
					n = ".a"
				}
			}
			w := rapid.SampledFrom([]string{"path(%s)", "[path(%s)]", "(%s) = 1", "(%s) |= 1", "(%s) += 1", "del(%s)", "path(. | %s)", "[paths] | path(%s)"}).Draw(t, "w")
			c = negCase{Query: fmt.Sprintf(w, cons+" | "+n), Input: univ.V{X: in}, Expect: "invalid", Comment: "navigation from a constructed container"}
		case 1: // navigation from a scalar equal to the value at the location: fine
			c = negCase{Query: fmt.Sprintf(strings.Replace(wrap, "%s", "null | %s", 1), nav), Input: univ.V{X: nil}, Expect: "ok", Comment: "null navigated from null"}
			if !strings.Contains(wrap, "%s") {
				c.Query = "path(null | " + nav + ")"
			}
		default: // navigation from null when the location holds something else: invalid
			if in == nil {
				in = map[string]any{"a": 1}
			}
			n := rapid.SampledFrom([]string{".a", ".[0]", ".[1:]", ".[\"b\"]", "getpath([\"a\"])", ".[-1]"}).Draw(t, "nav")
			w := rapid.SampledFrom([]string{"path(%s)", "(%s) = 1", "(%s) |= 1", "del(%s)"}).Draw(t, "w")
			c = negCase{Query: fmt.Sprintf(w, "null | "+n), Input: univ.V{X: in}, Expect: "invalid", Comment: "null navigated from a non-null location"}
		}
		rec.Eval()
		rec.Class("invalid-path/" + c.Expect)
		rec.Sample(c)
		msg, d := checkNeg(c)
		finish(t, "invalid-path", c, c.Query+univ.Show(c.Input.X), true, msg, d)
	})

	// jq-defined path consumers against their builtin.jq text under the model
	rec.Rapid(t, "builtins", rec.Scale(30000, 1500000), func(t *rapid.T) {
		in := inputs.Draw(t, "input")
		p := pathExpr(t)
		b := rapid.SampledFrom(bodies).Draw(t, "body").src
		q := rapid.SampledFrom([]string{"to_entries", "with_entries(.)", "with_entries(.value |= " + b + ")", "[tostream]", "[paths]", "[paths(type == \"number\")]", "pick(" + p + ")", "map_values(" + b + ")",
			"del(" + p + ")", "[leaf_paths]?", "fromstream(tostream)", "[path(..)]", "to_entries | from_entries", "with_entries(select(.value != null))", "delpaths([path(" + p + ")])", "[tostream] | fromstream(.[])",
			"reduce path(" + p + ") as $q (.; setpath($q; 1))", "[getpath(path(" + p + "))]", "map_values(empty)", ".[]? |= " + b, "walk(" + b + ")?", "[.. | select(type == \"number\")] | length", "del(..|select(. == null))?", "del(.[]?)", "to_entries? | map(.key)"}).Draw(t, "q")
		c := qCase{Query: q, Input: univ.V{X: in}}
		if knownDup && (strings.Contains(q, "map_values(") || strings.Contains(q, "|= ")) {
			// a single iterate path set cannot overlap itself: no exclusion needed
		}
		rec.Eval()
		rec.Journal("builtins", c)
		rec.Class("builtin/" + strings.SplitN(strings.TrimLeft(q, "[("), "(", 2)[0])
		rec.Sample(c)
		msg, d := checkModel(c)
		finish(t, "builtins", c, q+univ.Show(in), true, msg, d)
	})

	// the same consumers against their defining reductions written from the
	// manual (independent of builtin.jq), both sides run by gojq
	rec.Rapid(t, "consumer-defn", rec.Scale(30000, 1500000), func(t *rapid.T) {
		in := inputs.Draw(t, "input")
		if rapid.IntRange(0, 3).Draw(t, "shape") == 0 {
			// empty containers and nesting of them are leaves of their own kind
			in = rapid.SampledFrom([]any{[]any{}, map[string]any{}, []any{[]any{}}, map[string]any{"a": []any{}, "b": 1}, []any{map[string]any{}, []any{}, 1}, map[string]any{"a": map[string]any{"b": map[string]any{}}},
				[]any{[]any{[]any{}}, map[string]any{"x": []any{}}}, map[string]any{"a": nil, "b": []any{nil, []any{}}}, nil, 1, "s", []any{nil}, map[string]any{"": map[string]any{}}}).Draw(t, "empties")
		}
		p := pathExpr(t)
		b := rapid.SampledFrom(bodies).Draw(t, "body").src
		f := rapid.SampledFrom([]string{"type == \"number\"", ". == null", "type == \"array\"", "length? > 0", "true", "false", "empty", "., ."}).Draw(t, "f")
		pairs := [][2]string{{"[tostream]", "[r_tostream]"}, {"[paths]", "[r_paths]"}, {"[paths(" + f + ")]", "[r_paths(" + f + ")]"}, {"[leaf_paths]", "[r_leaf_paths]"}, {"to_entries", "r_to_entries"},
			{"with_entries(.)", "r_with_entries(.)"}, {"with_entries(.value |= " + b + ")", "r_with_entries(.value |= " + b + ")"}, {"with_entries(select(.value != null))", "r_with_entries(select(.value != null))"},
			{"map_values(" + b + ")", "r_map_values(" + b + ")"}, {"map_values(empty)", "r_map_values(empty)"}, {"del(" + p + ")", "r_del(" + p + ")"}, {"pick(" + p + ")", "r_pick(" + p + ")"},
			{"fromstream(tostream)", "fromstream(r_tostream)"}, {"[tostream] | length", "[r_tostream] | length"}, {"[.[]? | tostream]", "[.[]? | r_tostream]"}, {"[paths(..)]?", "[r_paths(..)]?"}}
		pr := pairs[rapid.IntRange(0, len(pairs)-1).Draw(t, "pair")]
		c := consCase{Builtin: pr[0], Ref: pr[1], Input: univ.V{X: in}}
		rec.Eval()
		rec.Journal("consumer-defn", c)
		rec.Class("consumer-defn/" + strings.SplitN(strings.TrimLeft(pr[0], "[("), "(", 2)[0])
		rec.Sample(c)
		msg, d := checkCons(c)
		finish(t, "consumer-defn", c, pr[0]+univ.Show(in), true, msg, d)
	})

	// general programs with update operators against the model
	general := gen.Program(gen.Conf{AltPat: true, AltPatFree: true, Paths: true, Builtins: true, Update: true, MaxNodes: 30})
	rec.Rapid(t, "general", rec.Scale(30000, 1500000), func(t *rapid.T) {
		p := general.Draw(t, "prog")
		isUpd := false
		for _, f := range p.Features {
			if f == "update" {
				isUpd = true
			}
		}
		c := qCase{Query: p.Src, Input: univ.V{X: inputs.Draw(t, "input")}}
		if (knownSlice || knownDup) && isUpd && strings.Contains(p.Src, "|=") {
			rec.Excluded("C02/general-modify-while-alias-findings-are-open")
			return
		}
		rec.Eval()
		rec.Journal("general", c)
		rec.Class("general")
		msg, d := checkModel(c)
		finish(t, "general", c, c.Query+univ.Show(c.Input.X), isUpd, msg, d)
	})
}
