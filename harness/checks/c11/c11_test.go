// C11 — one total order governs comparison, sorting, grouping and key order.
//
// Oracle: cmpVal below, a comparator written from the order stated in the
// property (null < false < true < numbers < strings by code point < arrays
// lexicographically < objects by sorted key list, then by values); numbers
// are compared as exact rationals (math/big).  Expected results of the eleven
// consumers are computed from cmpVal alone.  Nothing here consults gojq for an
// expected value.
//
// Input domain (the property's precondition, enforced by every generator and
// re-checked by inDomain before a case is judged): no NaN, no infinities,
// every float64 and every non-integer json.Number literal has magnitude below
// 2^53, integers of any size, valid UTF-8 only.
package c11

import (
	"encoding/json"
	"fmt"
	"io"
	"math"
	"math/big"
	"regexp"
	"strconv"
	"strings"
	"testing"
	"unicode"
	"unicode/utf8"

	yaml "github.com/itchyny/go-yaml"
	"github.com/itchyny/gojq"
	"pgregory.net/rapid"

	"verif/internal/cmdline"
	"verif/internal/evid"
	"verif/internal/run"
	"verif/internal/univ"
)

var rec *evid.Rec

// ---------------------------------------------------------------------------
// the oracle: jq's value order, from the statement

func isIntLit(s string) bool {
	s = strings.TrimPrefix(s, "-")
	if s == "" {
		return false
	}
	for i := 0; i < len(s); i++ {
		if s[i] < '0' || s[i] > '9' {
			return false
		}
	}
	return true
}

// ratOf is the mathematical value of a number (nil when not a finite number).
func ratOf(v any) *big.Rat {
	switch v := v.(type) {
	case int:
		return new(big.Rat).SetInt64(int64(v))
	case *big.Int:
		return new(big.Rat).SetInt(v)
	case float64:
		return new(big.Rat).SetFloat64(v) // nil for NaN / infinities
	case json.Number:
		if isIntLit(string(v)) {
			b, _ := new(big.Int).SetString(string(v), 10)
			return new(big.Rat).SetInt(b)
		}
		f, err := strconv.ParseFloat(string(v), 64)
		if err != nil {
			return nil
		}
		return new(big.Rat).SetFloat64(f)
	}
	return nil
}

func rank(v any) int {
	switch v := v.(type) {
	case nil:
		return 0
	case bool:
		if v {
			return 2
		}
		return 1
	case int, float64, *big.Int, json.Number:
		return 3
	case string:
		return 4
	case []any:
		return 5
	case map[string]any:
		return 6
	}
	return -1
}

func sgn(x int) int {
	switch {
	case x < 0:
		return -1
	case x > 0:
		return 1
	}
	return 0
}

// cmpStr orders strings by code point.
func cmpStr(a, b string) int {
	ra, rb := []rune(a), []rune(b)
	for i := 0; i < len(ra) && i < len(rb); i++ {
		if ra[i] != rb[i] {
			return sgn(int(ra[i]) - int(rb[i]))
		}
	}
	return sgn(len(ra) - len(rb))
}

// sortedKeys: the keys of an object in code point order (insertion sort).
func sortedKeys(m map[string]any) []string {
	ks := make([]string, 0, len(m))
	for k := range m {
		ks = append(ks, k)
		for j := len(ks) - 1; j > 0 && cmpStr(ks[j-1], ks[j]) > 0; j-- {
			ks[j-1], ks[j] = ks[j], ks[j-1]
		}
	}
	return ks
}

// cmpVal is the reference order: -1, 0, +1.
func cmpVal(a, b any) int {
	if ra, rb := rank(a), rank(b); ra != rb {
		return sgn(ra - rb)
	}
	switch a := a.(type) {
	case string:
		return cmpStr(a, b.(string))
	case []any:
		bb := b.([]any)
		for i := 0; i < len(a) && i < len(bb); i++ {
			if c := cmpVal(a[i], bb[i]); c != 0 {
				return c
			}
		}
		return sgn(len(a) - len(bb))
	case map[string]any:
		bb := b.(map[string]any)
		ka, kb := sortedKeys(a), sortedKeys(bb)
		for i := 0; i < len(ka) && i < len(kb); i++ {
			if c := cmpStr(ka[i], kb[i]); c != 0 {
				return c
			}
		}
		if c := sgn(len(ka) - len(kb)); c != 0 {
			return c
		}
		for _, k := range ka {
			if c := cmpVal(a[k], bb[k]); c != 0 {
				return c
			}
		}
		return 0
	case nil, bool:
		return 0
	}
	if x, ok := a.(int); ok { // fast path, same meaning
		if y, ok := b.(int); ok {
			switch {
			case x < y:
				return -1
			case x > y:
				return 1
			}
			return 0
		}
	}
	return ratOf(a).Cmp(ratOf(b))
}

const lim53 = float64(1 << 53)

// inDomain: the property's precondition on one value.
func inDomain(v any) bool {
	switch v := v.(type) {
	case nil, bool, int:
		return true
	case *big.Int:
		return v != nil
	case float64:
		return !math.IsNaN(v) && math.Abs(v) < lim53
	case json.Number:
		s := string(v)
		if !json.Valid([]byte(s)) || s == "" || !(s[0] == '-' || s[0] >= '0' && s[0] <= '9') {
			return false
		}
		if isIntLit(s) {
			return true
		}
		f, err := strconv.ParseFloat(s, 64)
		return err == nil && math.Abs(f) < lim53
	case string:
		return utf8.ValidString(v)
	case []any:
		for _, x := range v {
			if !inDomain(x) {
				return false
			}
		}
		return true
	case map[string]any:
		for k, x := range v {
			if !utf8.ValidString(k) || !inDomain(x) {
				return false
			}
		}
		return true
	}
	return false
}

// stableOrder returns the indices of keys in stable ascending order (binary
// insertion: an element goes after every element that is <= it).
func stableOrder(keys []any) []int {
	idx := make([]int, 0, len(keys))
	for i := range keys {
		lo, hi := 0, len(idx)
		for lo < hi {
			m := (lo + hi) / 2
			if cmpVal(keys[idx[m]], keys[i]) <= 0 {
				lo = m + 1
			} else {
				hi = m
			}
		}
		idx = append(idx, 0)
		copy(idx[lo+1:], idx[lo:])
		idx[lo] = i
	}
	return idx
}

// groupsOf partitions the stable order into runs of equal keys.
func groupsOf(keys []any) [][]int {
	var gs [][]int
	for n, i := range stableOrder(keys) {
		if n == 0 || cmpVal(keys[gs[len(gs)-1][0]], keys[i]) != 0 {
			gs = append(gs, []int{i})
		} else {
			gs[len(gs)-1] = append(gs[len(gs)-1], i)
		}
	}
	return gs
}

func hasEqualPair(keys []any) bool { return len(groupsOf(keys)) < len(keys) }

// ---------------------------------------------------------------------------
// (i)/(ii) comparison: Compare, the six operators, the order laws

var ops = []string{"==", "!=", "<", "<=", ">", ">="}
var opCodes = map[string]*gojq.Code{}
var opVarCodes = map[string]*gojq.Code{}

func init() {
	for _, op := range ops {
		opCodes[op] = run.MustCompile(".[0] " + op + " .[1]")
		opVarCodes[op] = run.MustCompile("$a "+op+" $b", gojq.WithVariables([]string{"$a", "$b"}))
	}
}

func project(op string, c int) bool {
	switch op {
	case "==":
		return c == 0
	case "!=":
		return c != 0
	case "<":
		return c < 0
	case "<=":
		return c <= 0
	case ">":
		return c > 0
	}
	return c >= 0
}

type pairCase struct {
	A univ.V `json:"a"`
	B univ.V `json:"b"`
}

func checkPair(c pairCase) string {
	a, b := c.A.X, c.B.X
	if !inDomain(a) || !inDomain(b) {
		return ""
	}
	return judgePair(a, b, cmpVal(a, b))
}

// judgePair: Compare (both argument orders) and the six operators on (a, b)
// as given - no copies, so shared Go structure stays shared - against want.
func judgePair(a, b any, want int) string {
	if got := gojq.Compare(a, b); got != want {
		return fmt.Sprintf("Compare(%s, %s) = %d, the order says %d", univ.Show(a), univ.Show(b), got, want)
	}
	if got := gojq.Compare(b, a); got != -want {
		return fmt.Sprintf("Compare(%s, %s) = %d but Compare of the swapped pair is %d (not antisymmetric)", univ.Show(b), univ.Show(a), got, want)
	}
	if want == 0 { // reflexive on copies as well
		if got := gojq.Compare(a, univ.Copy(a)); got != 0 {
			return fmt.Sprintf("Compare(%s, copy) = %d (not reflexive)", univ.Show(a), got)
		}
	}
	for _, op := range ops {
		for n, res := range []run.Result{run.Exec(opCodes[op], []any{a, b}, 0, 4), run.Exec(opVarCodes[op], nil, 0, 4, a, b)} {
			if res.Err != nil || len(res.Vals) != 1 {
				return fmt.Sprintf("%s %s %s (form %d): err=%v outputs=%s", univ.Show(a), op, univ.Show(b), n, res.Err, univ.ShowAll(res.Vals))
			}
			if g, ok := res.Vals[0].(bool); !ok || g != project(op, want) {
				return fmt.Sprintf("%s %s %s (form %d) = %s, the order (%d) says %v", univ.Show(a), op, univ.Show(b), n, univ.Show(res.Vals[0]), want, project(op, want))
			}
		}
	}
	return ""
}

type tripleCase struct {
	A univ.V `json:"a"`
	B univ.V `json:"b"`
	C univ.V `json:"c"`
}

// lawTriple: transitivity on observed comparison results ab, bc, ac.
func lawTriple(ab, bc, ac int) string {
	if ab <= 0 && bc <= 0 {
		if ac > 0 {
			return "a<=b and b<=c but a>c"
		}
		if (ab < 0 || bc < 0) && ac >= 0 {
			return "a<=b and b<=c with one strict, but not a<c"
		}
	}
	if ab >= 0 && bc >= 0 {
		if ac < 0 {
			return "a>=b and b>=c but a<c"
		}
		if (ab > 0 || bc > 0) && ac <= 0 {
			return "a>=b and b>=c with one strict, but not a>c"
		}
	}
	return ""
}

func checkTriple(c tripleCase) string {
	a, b, cc := c.A.X, c.B.X, c.C.X
	if !inDomain(a) || !inDomain(b) || !inDomain(cc) {
		return ""
	}
	ab, bc, ac := gojq.Compare(a, b), gojq.Compare(b, cc), gojq.Compare(a, cc)
	for _, x := range []int{ab, bc, ac} {
		if x < -1 || x > 1 {
			return fmt.Sprintf("Compare returned %d", x)
		}
	}
	if msg := lawTriple(ab, bc, ac); msg != "" {
		return fmt.Sprintf("not transitive: %s for a=%s b=%s c=%s (Compare: ab=%d bc=%d ac=%d)", msg, univ.Show(a), univ.Show(b), univ.Show(cc), ab, bc, ac)
	}
	for _, p := range [][2]any{{a, b}, {b, cc}, {a, cc}, {a, a}} {
		if msg := checkPair(pairCase{univ.V{X: p[0]}, univ.V{X: p[1]}}); msg != "" {
			return msg
		}
	}
	return ""
}

// ---------------------------------------------------------------------------
// (iii) consumers working on arrays

type arrCase struct {
	Fn  string `json:"fn"`
	Arr univ.V `json:"arr"`
	X   univ.V `json:"x"` // bsearch target, subtrahend, index needle
}

var arrQueries = map[string]string{
	"sort":      "sort",
	"sort_by":   "sort_by(.k)",
	"sort_by2":  "sort_by(.k, .j)",
	"group_by":  "group_by(.k)",
	"group_by2": "group_by(.k, .j)",
	"unique":    "unique",
	"unique_by": "unique_by(.k)",
	"min":       "min",
	"max":       "max",
	"min_by":    "min_by(.k)",
	"max_by":    "max_by(.k)",
	// keys of varying arity: the key of an element is [f], here the members of
	// .k (none when .k is not iterable)
	"sort_byv":   "sort_by(.k[]?)",
	"group_byv":  "group_by(.k[]?)",
	"unique_byv": "unique_by(.k[]?)",
	"min_byv":    "min_by(.k[]?)",
	"max_byv":    "max_by(.k[]?)",
	"bsearch":   ". as [$a, $x] | $a | bsearch($x)",
	"subtract":  ".[0] - .[1]",
	"index":     ". as [$a, $x] | $a | index($x)",
	"rindex":    ". as [$a, $x] | $a | rindex($x)",
	"indices":   ". as [$a, $x] | $a | indices($x)",
}
var arrCodes = map[string]*gojq.Code{}

func init() {
	for fn, q := range arrQueries {
		arrCodes[fn] = run.MustCompile(q)
	}
}

var recordFns = map[string]bool{"sort_by": true, "sort_by2": true, "group_by": true, "group_by2": true, "unique_by": true, "min_by": true, "max_by": true,
	"sort_byv": true, "group_byv": true, "unique_byv": true, "min_byv": true, "max_byv": true}
var pairFns = map[string]bool{"bsearch": true, "subtract": true, "index": true, "rindex": true, "indices": true}

// keysOf gives the sort keys of the elements for fn (nil, false when the
// array is not of the shape fn needs).
func keysOf(fn string, arr []any) ([]any, bool) {
	if !recordFns[fn] {
		return arr, true
	}
	keys := make([]any, len(arr))
	for i, e := range arr {
		r, ok := e.(map[string]any)
		if !ok {
			return nil, false
		}
		if strings.HasSuffix(fn, "2") {
			keys[i] = []any{r["k"], r["j"]}
		} else if strings.HasSuffix(fn, "v") {
			_, vs := children(r["k"])
			keys[i] = append([]any{}, vs...)
		} else {
			keys[i] = r["k"]
		}
	}
	return keys, true
}

func sameAt(got []any, arr []any, idx []int) int {
	for i := range idx {
		if !univ.Same(got[i], arr[idx[i]]) {
			return i
		}
	}
	return -1
}

func isMember(v any, arr []any, g []int) bool {
	for _, i := range g {
		if univ.Same(v, arr[i]) {
			return true
		}
	}
	return false
}

func asInt(v any) (int, bool) {
	n, ok := univ.ToNum(v)
	if !ok || n.Int == nil || !n.Int.IsInt64() {
		return 0, false
	}
	return int(n.Int.Int64()), true
}

func checkArr(c arrCase) string {
	code := arrCodes[c.Fn]
	arr, ok := c.Arr.X.([]any)
	if code == nil || !ok || !inDomain(arr) || !inDomain(c.X.X) {
		return ""
	}
	if _, ok := keysOf(c.Fn, arr); !ok {
		return ""
	}
	return runArr(c.Fn, univ.Copy(arr).([]any), univ.Copy(c.X.X), arr, c.X.X)
}

// runArr runs fn on the Go values arrIn (and xIn) twice and judges both
// results against the oracle computed on oarr / ox (deep copies taken before,
// never shown to gojq).  Besides the order clauses it demands what makes them
// meaningful for a caller: the call leaves its operands as they were, and the
// first result is not changed by the second call.
func runArr(fn string, arrIn []any, xIn any, oarr []any, ox any) string {
	var input any = arrIn
	if pairFns[fn] {
		input = []any{arrIn, xIn}
	}
	where := fmt.Sprintf("%s on %s", arrQueries[fn], univ.Show(input))
	untouched := func(when string) string {
		if !univ.Same(arrIn, oarr) {
			return fmt.Sprintf("%s: the input array was modified by %s; it is now %s", where, when, univ.Show(arrIn))
		}
		if pairFns[fn] && !univ.Same(xIn, ox) {
			return fmt.Sprintf("%s: the right operand was modified by %s; it is now %s", where, when, univ.Show(xIn))
		}
		return ""
	}
	res := run.Exec(arrCodes[fn], input, 0, 4)
	if msg := judgeArr(fn, oarr, ox, res, where); msg != "" {
		return msg
	}
	if msg := untouched("the call"); msg != "" {
		return msg
	}
	first := univ.Copy(res.Vals[0])
	res2 := run.Exec(arrCodes[fn], input, 0, 4)
	if msg := judgeArr(fn, oarr, ox, res2, where+" (second call on the same Go value)"); msg != "" {
		return msg
	}
	if !univ.Same(res.Vals[0], first) {
		return fmt.Sprintf("%s: the first result changed when the consumer ran again on the same value: %s -> %s", where, univ.Show(first), univ.Show(res.Vals[0]))
	}
	return untouched("the second call")
}

// judgeArr: the oracle for one array consumer: res is what gojq produced for
// fn on arr (and x); everything expected is computed from cmpVal on arr / x.
func judgeArr(fn string, arr []any, x any, res run.Result, where string) string {
	keys, ok := keysOf(fn, arr)
	if !ok {
		return ""
	}
	if res.Err != nil || len(res.Vals) != 1 {
		return fmt.Sprintf("%s: err=%v outputs=%s", where, res.Err, univ.ShowAll(res.Vals))
	}
	got := res.Vals[0]
	switch fn {
	case "sort", "sort_by", "sort_by2", "sort_byv":
		out, ok := got.([]any)
		if !ok || len(out) != len(arr) {
			return fmt.Sprintf("%s = %s: not an array of the input's length", where, univ.Show(got))
		}
		okeys, shaped := keysOf(fn, out)
		if shaped {
			for i := 1; i < len(okeys); i++ {
				if cmpVal(okeys[i-1], okeys[i]) > 0 {
					return fmt.Sprintf("%s = %s: not ordered at position %d", where, univ.Show(got), i)
				}
			}
		}
		if i := sameAt(out, arr, stableOrder(keys)); i >= 0 {
			return fmt.Sprintf("%s = %s: position %d is not the element a stable sort puts there (%s)", where, univ.Show(got), i, univ.Show(arr[stableOrder(keys)[i]]))
		}
	case "group_by", "group_by2", "group_byv":
		out, ok := got.([]any)
		gs := groupsOf(keys)
		if !ok || len(out) != len(gs) {
			return fmt.Sprintf("%s = %s: want %d groups", where, univ.Show(got), len(gs))
		}
		for n, g := range gs {
			grp, ok := out[n].([]any)
			if !ok || len(grp) != len(g) || sameAt(grp, arr, g) >= 0 {
				return fmt.Sprintf("%s = %s: group %d is not the run of equal keys of the stably sorted input", where, univ.Show(got), n)
			}
		}
	case "unique", "unique_by", "unique_byv":
		out, ok := got.([]any)
		gs := groupsOf(keys)
		if !ok || len(out) != len(gs) {
			return fmt.Sprintf("%s = %s: want %d elements (sort without adjacent equals)", where, univ.Show(got), len(gs))
		}
		for n, g := range gs {
			if !isMember(out[n], arr, g) {
				return fmt.Sprintf("%s = %s: element %d is not an input element of the %d-th class of the sorted input", where, univ.Show(got), n, n)
			}
		}
	case "min", "max", "min_by", "max_by", "min_byv", "max_byv":
		if len(arr) == 0 {
			if got != nil {
				return fmt.Sprintf("%s = %s, want null", where, univ.Show(got))
			}
			return ""
		}
		best, isMin := 0, strings.HasPrefix(fn, "min")
		for i := 1; i < len(arr); i++ {
			// min: the first minimum; max: the last maximum
			if d := cmpVal(keys[i], keys[best]); isMin && d < 0 || !isMin && d >= 0 {
				best = i
			}
		}
		if !univ.Same(got, arr[best]) {
			which := "first minimum"
			if strings.HasPrefix(fn, "max") {
				which = "last maximum"
			}
			return fmt.Sprintf("%s = %s, the %s is element %d = %s", where, univ.Show(got), which, best, univ.Show(arr[best]))
		}
	case "bsearch":
		for i := 1; i < len(arr); i++ {
			if cmpVal(arr[i-1], arr[i]) > 0 {
				return "" // not a sorted array: outside the claim
			}
		}
		less, eq := 0, 0
		for _, e := range arr {
			switch cmpVal(e, x) {
			case -1:
				less++
			case 0:
				eq++
			}
		}
		r, ok := asInt(got)
		if !ok {
			return fmt.Sprintf("%s = %s: not an integer", where, univ.Show(got))
		}
		if eq > 0 {
			if r < less || r >= less+eq {
				return fmt.Sprintf("%s = %d: equal elements are at %d..%d", where, r, less, less+eq-1)
			}
		} else if r != -1-less {
			return fmt.Sprintf("%s = %d: no equal element, insertion point %d, want %d", where, r, less, -1-less)
		}
	case "subtract":
		sub, ok := x.([]any)
		if !ok {
			return ""
		}
		var keep []int
		for i, e := range arr {
			found := false
			for _, s := range sub {
				if cmpVal(e, s) == 0 {
					found = true
					break
				}
			}
			if !found {
				keep = append(keep, i)
			}
		}
		out, ok := got.([]any)
		if !ok || len(out) != len(keep) || sameAt(out, arr, keep) >= 0 {
			return fmt.Sprintf("%s = %s: want the elements at %v", where, univ.Show(got), keep)
		}
	case "index", "rindex", "indices":
		needle, ok := x.([]any)
		if !ok {
			needle = []any{x}
		}
		if len(needle) == 0 {
			return "" // empty needle: not about the order
		}
		hits := []any{}
		for i := 0; i+len(needle) <= len(arr); i++ {
			if cmpVal(arr[i:i+len(needle)], needle) == 0 {
				hits = append(hits, i)
			}
		}
		var want any = hits
		if fn != "indices" {
			want = nil
			if len(hits) > 0 {
				want = hits[0]
				if fn == "rindex" {
					want = hits[len(hits)-1]
				}
			}
		}
		if !univ.Equal(got, want) || rank(got) != rank(want) {
			return fmt.Sprintf("%s = %s, want %s", where, univ.Show(got), univ.Show(want))
		}
	}
	return ""
}

// ntArr: does the case exercise the order non-trivially (stated rule)?
func ntArr(c arrCase) bool {
	arr, _ := c.Arr.X.([]any)
	keys, ok := keysOf(c.Fn, arr)
	if !ok {
		return false
	}
	switch c.Fn {
	case "bsearch":
		return len(arr) >= 2
	case "subtract", "index", "rindex", "indices":
		// some element of the array equals (by the order) some element of x
		xs, ok := c.X.X.([]any)
		if !ok {
			xs = []any{c.X.X}
		}
		for _, e := range arr {
			for _, x := range xs {
				if cmpVal(e, x) == 0 {
					return true
				}
			}
		}
		return false
	}
	return hasEqualPair(keys)
}

// ---------------------------------------------------------------------------
// values that SHARE Go structure: slices of one array, the same container
// twice.  gojq's slice operator returns vs[start:end] without copying, so such
// values arise in ordinary programs; the order must not depend on identity.

type aliasSpec struct {
	K string `json:"k"` // slice | elem | elemslice | fresh | nest | twice
	I int    `json:"i"`
	J int    `json:"j"`
	E int    `json:"e"`
}

type aliasCase struct {
	Base    univ.V      `json:"base"`    // the array a, length >= 1
	Fn      string      `json:"fn"`      // "compare" or an array consumer
	Via     string      `json:"via"`     // "go": built in Go and passed in; "jq": the query derives them from $a
	Members []aliasSpec `json:"members"` // compare: the pair; otherwise the array's members
	X       []aliasSpec `json:"x"`       // bsearch target / index needle (X[0], or [X...] when Wrap) / subtrahend members
	Wrap    bool        `json:"wrap"`
}

func clamp(x, lo, hi int) int { return max(lo, min(hi, x)) }

// build derives the value from a at Go level (sharing a's storage); jq is the
// jq expression over $a that denotes the same value.
func (s aliasSpec) build(a []any) (any, string) {
	n := len(a)
	i := clamp(s.I, 0, n)
	j := clamp(s.J, i, n)
	e := clamp(s.E, 0, n-1)
	switch s.K {
	case "elem":
		return a[e], fmt.Sprintf("$a[%d]", e)
	case "elemslice":
		if b, ok := a[e].([]any); ok {
			i, j := clamp(s.I, 0, len(b)), clamp(s.J, clamp(s.I, 0, len(b)), len(b))
			return b[i:j], fmt.Sprintf("$a[%d][%d:%d]", e, i, j)
		}
		return a[e], fmt.Sprintf("$a[%d]", e)
	case "fresh": // a new array holding the same element objects
		return append([]any{}, a[i:j]...), fmt.Sprintf("[$a[%d:%d][]]", i, j)
	case "nest": // an array whose elements are slices of a
		return []any{a[i:j], a[:j]}, fmt.Sprintf("[$a[%d:%d], $a[:%d]]", i, j, j)
	case "twice": // the same object placed twice
		return []any{a[e], a[e]}, fmt.Sprintf("[$a[%d], $a[%d]]", e, e)
	}
	return a[i:j], fmt.Sprintf("$a[%d:%d]", i, j)
}

var aliasFns = []string{"compare", "sort", "sort_by", "group_by", "unique", "unique_by", "min", "max", "min_by", "max_by", "bsearch", "subtract", "index", "rindex", "indices"}

func checkAlias(c aliasCase) string {
	base, ok := c.Base.X.([]any)
	if !ok || len(base) == 0 || !inDomain(base) || len(c.Members) == 0 || len(c.Members) > 40 || len(c.X) > 40 {
		return ""
	}
	a := univ.Copy(base).([]any) // the one array everything below shares
	var ms, xs []any
	var mq, xq []string
	for _, s := range c.Members {
		v, q := s.build(a)
		ms, mq = append(ms, v), append(mq, q)
	}
	for _, s := range c.X {
		v, q := s.build(a)
		xs, xq = append(xs, v), append(xq, q)
	}
	exec := func(q string) (run.Result, string) {
		q = ". as $a | " + q
		code, err := run.Compile(q)
		if err != nil {
			return run.Result{Err: err}, q
		}
		return run.Exec(code, a, 0, 4), q + " on " + univ.Show(a)
	}
	if c.Fn == "compare" {
		if len(ms) != 2 {
			return ""
		}
		want := cmpVal(univ.Copy(ms[0]), univ.Copy(ms[1])) // the oracle sees deep copies
		if c.Via != "jq" {
			if msg := judgePair(ms[0], ms[1], want); msg != "" {
				return "values sharing storage (" + mq[0] + " and " + mq[1] + " of $a = " + univ.Show(a) + "): " + msg
			}
			return ""
		}
		res, where := exec(fmt.Sprintf("(%s) as $x | (%s) as $y | [$x == $y, $x != $y, $x < $y, $x <= $y, $x > $y, $x >= $y, (%s) == (%s), (%s) < (%s), (%s) >= (%s)]", mq[0], mq[1], mq[0], mq[1], mq[0], mq[1], mq[0], mq[1]))
		wantv := []any{}
		for _, op := range append(append([]string{}, ops...), "==", "<", ">=") {
			wantv = append(wantv, project(op, want))
		}
		if res.Err != nil || len(res.Vals) != 1 || !univ.Same(res.Vals[0], wantv) {
			return fmt.Sprintf("%s: err=%v outputs=%s, the order (%d) says %s", where, res.Err, univ.ShowAll(res.Vals), want, univ.Show(wantv))
		}
		return ""
	}
	if arrCodes[c.Fn] == nil || strings.HasSuffix(c.Fn, "2") {
		return ""
	}
	if c.Fn == "bsearch" { // the claim is about sorted arrays: put the members in order
		idx := stableOrder(univ.Copy(ms).([]any))
		ms2, mq2 := make([]any, len(ms)), make([]string, len(ms))
		for n, i := range idx {
			ms2[n], mq2[n] = ms[i], mq[i]
		}
		ms, mq = ms2, mq2
	}
	var x any
	xq1 := ""
	if pairFns[c.Fn] {
		if len(xs) == 0 {
			return ""
		}
		x, xq1 = xs[0], xq[0]
		if c.Fn == "subtract" || c.Wrap && c.Fn != "bsearch" {
			x, xq1 = xs, "["+strings.Join(xq, ", ")+"]"
		}
	}
	arr := ms
	arrq := "[" + strings.Join(mq, ", ") + "]"
	if recordFns[c.Fn] {
		arr = make([]any, len(ms))
		for i, m := range ms {
			arr[i] = map[string]any{"k": m, "p": i}
		}
		arrq += " as $m | [range($m | length) | {k: $m[.], p: .}]"
	}
	var res run.Result
	var where string
	if c.Via == "jq" {
		switch c.Fn {
		case "subtract":
			res, where = exec(arrq + " - " + xq1)
		case "bsearch", "index", "rindex", "indices":
			res, where = exec(fmt.Sprintf("%s | %s(%s)", arrq, c.Fn, xq1))
		default:
			res, where = exec(arrq + " | " + arrQueries[c.Fn])
		}
	} else {
		var input any = arr
		if pairFns[c.Fn] {
			input = []any{arr, x}
		}
		res = run.Exec(arrCodes[c.Fn], input, 0, 4)
		where = fmt.Sprintf("%s on %s = %s of $a = %s (storage shared)", arrQueries[c.Fn], univ.Show(input), arrq, univ.Show(a))
	}
	return judgeArr(c.Fn, univ.Copy(arr).([]any), univ.Copy(x), res, where)
}

func genAliasSpec(t *rapid.T, n int) aliasSpec {
	s := aliasSpec{
		K: rapid.SampledFrom([]string{"slice", "slice", "slice", "slice", "elem", "elemslice", "nest", "twice", "fresh"}).Draw(t, "k"),
		I: rapid.IntRange(0, n).Draw(t, "i"),
		J: rapid.IntRange(0, n).Draw(t, "j"),
		E: rapid.IntRange(0, n-1).Draw(t, "e"),
	}
	switch rapid.IntRange(0, 3).Draw(t, "shape") {
	case 0:
		s.I = 0 // prefix
	case 1:
		s.J = n // suffix
	case 2:
		s.I, s.J = 0, n // all of it
	}
	if s.J < s.I && s.K != "elemslice" {
		s.I, s.J = s.J, s.I
	}
	return s
}

func genAliasCase(t *rapid.T) aliasCase {
	n := rapid.IntRange(1, 6).Draw(t, "n")
	base := make([]any, n)
	for i := range base {
		switch rapid.IntRange(0, 3).Draw(t, "elemkind") {
		case 0:
			base[i] = pick(t, "uval", U)
		case 1:
			m := rapid.IntRange(1, 3).Draw(t, "inner")
			in := make([]any, m)
			for j := range in {
				in[j] = genScalar(t)
			}
			base[i] = in
		default:
			base[i] = genVal(t, 2)
		}
	}
	c := aliasCase{Base: univ.V{X: base}, Fn: rapid.SampledFrom(aliasFns).Draw(t, "fn"), Via: rapid.SampledFrom([]string{"go", "jq"}).Draw(t, "via")}
	k := 2
	if c.Fn != "compare" {
		k = rapid.IntRange(2, 6).Draw(t, "members")
	}
	for i := 0; i < k; i++ {
		c.Members = append(c.Members, genAliasSpec(t, n))
	}
	if pairFns[c.Fn] {
		c.Wrap = rapid.Bool().Draw(t, "wrap")
		for i, k := 0, rapid.IntRange(1, 3).Draw(t, "xs"); i < k; i++ {
			c.X = append(c.X, genAliasSpec(t, n))
		}
	}
	return c
}

func doAlias(sub string, c aliasCase) string {
	rec.Eval()
	rec.Class("aliased/" + c.Fn + "/" + c.Via)
	b, _ := json.Marshal(c)
	rec.NT(sub + "/" + string(b))
	return checkAlias(c)
}

// ---------------------------------------------------------------------------
// (iii) consumers working on objects: keys, iteration, key order on output

type objCase struct {
	Form string `json:"form"`
	Val  univ.V `json:"val"`
}

var iterForms = map[string]string{
	"keys":       "keys",
	"iter":       "[.[]]",
	"iter?":      "[.[]?]",
	"path":       "[path(.[])]",
	"to_entries": "to_entries",
	"recurse":    "[..]",
	"paths":      "[paths]",
	"path(..)":   "[path(..)]",
	"tostream":   "[tostream]",
	"reduce":     "reduce .[] as $x ([]; . + [$x])",
	"foreach":    "[foreach .[] as $x (null; $x)]",
	"vars":       "[.[] as $x | $x]",
	"comma":      "[(.[], .[])]",
	"limit":      "[limit(2; .[])]",
	"first":      "[first(.[])]",
	"construct":  "[{x: .[]} | .x]",
	"map":        "map(.)",
	"add":        "map_values([.]) | add // []",
}
var textForms = map[string]string{
	"tojson":       "tojson",
	"tostring":     "tostring",
	"@json":        "@json",
	"@text":        "@text",
	"interp":       "\"\\(.)\"",
	"@json-interp": "@json \"\\(.)\"",
	"nested":       "[.] | tojson",
	"marshal":      "", // gojq.Marshal
}
var objCodes = map[string]*gojq.Code{}
var iterFormNames, textFormNames []string

func init() {
	for f, q := range iterForms {
		objCodes[f] = run.MustCompile(q)
	}
	for f, q := range textForms {
		if q != "" {
			objCodes[f] = run.MustCompile(q)
		}
	}
	iterFormNames = sortedKeys(anyMap(iterForms))
	textFormNames = sortedKeys(anyMap(textForms))
}

func anyMap(m map[string]string) map[string]any {
	r := map[string]any{}
	for k := range m {
		r[k] = nil
	}
	return r
}

// children in the order the property demands (sorted keys / index order).
func children(v any) (ks []any, vs []any) {
	switch v := v.(type) {
	case []any:
		for i, x := range v {
			ks, vs = append(ks, i), append(vs, x)
		}
	case map[string]any:
		for _, k := range sortedKeys(v) {
			ks, vs = append(ks, k), append(vs, v[k])
		}
	}
	return
}

func preorder(v any, path []any, vals, paths *[]any) {
	*vals = append(*vals, v)
	*paths = append(*paths, append([]any{}, path...))
	ks, vs := children(v)
	for i := range ks {
		preorder(vs[i], append(path, ks[i]), vals, paths)
	}
}

func streamOf(v any, path []any, out *[]any) {
	ks, vs := children(v)
	if len(ks) == 0 {
		*out = append(*out, []any{append([]any{}, path...), v})
		return
	}
	for i := range ks {
		streamOf(vs[i], append(path, ks[i]), out)
	}
	*out = append(*out, []any{append(append([]any{}, path...), ks[len(ks)-1])})
}

// marks: the structure of a value with its object keys in required order.
func marks(v any, out *[]string) {
	switch v := v.(type) {
	case []any:
		*out = append(*out, "[")
		for _, x := range v {
			marks(x, out)
		}
		*out = append(*out, "]")
	case map[string]any:
		*out = append(*out, "{")
		for _, k := range sortedKeys(v) {
			*out = append(*out, "key "+strconv.Quote(k))
			marks(v[k], out)
		}
		*out = append(*out, "}")
	default:
		*out = append(*out, "scalar")
	}
}

// tokenMarks reads one JSON value from dec and reports the same marks in the
// order they appear in the text.
func tokenMarks(dec *json.Decoder, out *[]string) error {
	tok, err := dec.Token()
	if err != nil {
		return err
	}
	d, ok := tok.(json.Delim)
	if !ok {
		*out = append(*out, "scalar")
		return nil
	}
	*out = append(*out, string(rune(d)))
	for dec.More() {
		if d == '{' {
			k, err := dec.Token()
			if err != nil {
				return err
			}
			ks, ok := k.(string)
			if !ok {
				return fmt.Errorf("object key %v is not a string", k)
			}
			*out = append(*out, "key "+strconv.Quote(ks))
		}
		if err := tokenMarks(dec, out); err != nil {
			return err
		}
	}
	end, err := dec.Token()
	if err != nil {
		return err
	}
	*out = append(*out, string(rune(end.(json.Delim))))
	return nil
}

func diffMarks(got, want []string) string {
	for i := 0; i < len(got) || i < len(want); i++ {
		g, w := "<end>", "<end>"
		if i < len(got) {
			g = got[i]
		}
		if i < len(want) {
			w = want[i]
		}
		if g != w {
			return fmt.Sprintf("at token %d the text has %s where the order requires %s", i, g, w)
		}
	}
	return ""
}

func checkText(text string, vals []any) string {
	dec := json.NewDecoder(strings.NewReader(text))
	dec.UseNumber()
	for n, v := range vals {
		var got, want []string
		if err := tokenMarks(dec, &got); err != nil {
			return fmt.Sprintf("value %d: cannot read the output: %v", n, err)
		}
		marks(v, &want)
		if msg := diffMarks(got, want); msg != "" {
			return fmt.Sprintf("value %d (%s): %s", n, univ.Show(v), msg)
		}
	}
	if _, err := dec.Token(); err == nil {
		return "more output than values"
	}
	return ""
}

func checkObj(c objCase) string {
	if !inDomain(c.Val.X) {
		return ""
	}
	return checkObjIn(c.Form, c.Val.X, univ.Copy(c.Val.X))
}

// checkObjIn: in is the Go value handed to gojq, v an equal value (a deep
// copy) the oracle works on.
func checkObjIn(form string, v, in any) string {
	c := objCase{Form: form}
	if _, isText := textForms[c.Form]; isText {
		var text string
		if c.Form == "marshal" {
			b, err := gojq.Marshal(in)
			if err != nil {
				return "Marshal: " + err.Error()
			}
			text = string(b)
		} else {
			res := run.Exec(objCodes[c.Form], in, 0, 4)
			s, ok := "", false
			if res.Err == nil && len(res.Vals) == 1 {
				s, ok = res.Vals[0].(string)
			}
			if !ok {
				return fmt.Sprintf("%s on %s: err=%v outputs=%s", textForms[c.Form], univ.Show(v), res.Err, univ.ShowAll(res.Vals))
			}
			text = s
		}
		want := v
		if c.Form == "nested" {
			want = []any{v}
		}
		if _, isStr := v.(string); isStr && (c.Form == "tostring" || c.Form == "@text" || c.Form == "interp") {
			return "" // tostring of a string is the string itself, not JSON text
		}
		if msg := checkText(text, []any{want}); msg != "" {
			return fmt.Sprintf("%s on %s gives %s: %s", c.Form, univ.Show(v), text, msg)
		}
		return ""
	}
	code := objCodes[c.Form]
	if code == nil {
		return ""
	}
	_, isObj := v.(map[string]any)
	ks, vs := children(v)
	var want any
	switch c.Form {
	case "keys":
		if !isObj {
			return ""
		}
		want = append([]any{}, ks...)
	case "iter", "reduce", "foreach", "vars", "construct", "map", "add":
		if !isObj {
			return ""
		}
		want = append([]any{}, vs...)
	case "iter?":
		want = append([]any{}, vs...)
	case "comma":
		if !isObj {
			return ""
		}
		want = append(append([]any{}, vs...), vs...)
	case "limit", "first":
		if !isObj {
			return ""
		}
		n := 2
		if c.Form == "first" {
			n = 1
		}
		want = append([]any{}, vs[:min(n, len(vs))]...)
	case "path":
		if !isObj {
			return ""
		}
		ps := []any{}
		for _, k := range ks {
			ps = append(ps, []any{k})
		}
		want = ps
	case "to_entries":
		if !isObj {
			return ""
		}
		es := []any{}
		for i := range ks {
			es = append(es, map[string]any{"key": ks[i], "value": vs[i]})
		}
		want = es
	case "recurse", "paths", "path(..)":
		var vals, paths []any
		preorder(v, nil, &vals, &paths)
		switch c.Form {
		case "recurse":
			want = vals
		case "paths":
			want = append([]any{}, paths[1:]...)
		default:
			want = paths
		}
	case "tostream":
		out := []any{}
		streamOf(v, nil, &out)
		want = out
	default:
		return ""
	}
	res := run.Exec(code, in, 0, 4)
	if res.Err != nil || len(res.Vals) != 1 {
		return fmt.Sprintf("%s on %s: err=%v outputs=%s", iterForms[c.Form], univ.Show(v), res.Err, univ.ShowAll(res.Vals))
	}
	if !univ.Same(res.Vals[0], want) {
		return fmt.Sprintf("%s on %s = %s, sorted-key order requires %s", iterForms[c.Form], univ.Show(v), univ.Show(res.Vals[0]), univ.Show(want))
	}
	return ""
}

// maxKeys: the largest number of keys of any object inside v.
func maxKeys(v any) int {
	n := 0
	switch v := v.(type) {
	case []any:
		for _, x := range v {
			n = max(n, maxKeys(x))
		}
	case map[string]any:
		n = len(v)
		for _, x := range v {
			n = max(n, maxKeys(x))
		}
	}
	return n
}

// ---------------------------------------------------------------------------
// key order of the command's own encoder (cli/encoder.go)

type cliCase struct {
	Vals  []univ.V `json:"vals"`
	Flags []string `json:"flags"`
	Perm  int      `json:"perm"`
}

var ansi = regexp.MustCompile("\x1b\\[[0-9;]*m")

// render writes v as JSON text, object keys in an order derived from perm
// (a rotation of the sorted keys, reversed when perm is odd).
func render(sb *strings.Builder, v any, perm int) {
	switch v := v.(type) {
	case nil:
		sb.WriteString("null")
	case bool:
		fmt.Fprint(sb, v)
	case int:
		fmt.Fprint(sb, v)
	case *big.Int:
		sb.WriteString(v.String())
	case json.Number:
		sb.WriteString(string(v))
	case float64:
		sb.WriteString(strconv.FormatFloat(v, 'g', -1, 64))
	case string:
		b, _ := json.Marshal(v)
		sb.Write(b)
	case []any:
		sb.WriteByte('[')
		for i, x := range v {
			if i > 0 {
				sb.WriteByte(',')
			}
			render(sb, x, perm+i)
		}
		sb.WriteByte(']')
	case map[string]any:
		ks := sortedKeys(v)
		n := len(ks)
		sb.WriteByte('{')
		for i := range ks {
			j := (i + perm) % n
			if perm%2 == 1 {
				j = n - 1 - j
			}
			if i > 0 {
				sb.WriteByte(',')
			}
			b, _ := json.Marshal(ks[j])
			sb.Write(b)
			sb.WriteByte(':')
			render(sb, v[ks[j]], perm+i+1)
		}
		sb.WriteByte('}')
	}
}

func checkCLI(c cliCase) string {
	var in strings.Builder
	vals := make([]any, len(c.Vals))
	if c.Perm < 0 {
		return ""
	}
	for i, v := range c.Vals {
		if !inDomain(v.X) {
			return ""
		}
		vals[i] = v.X
		render(&in, v.X, c.Perm+i)
		in.WriteByte('\n')
	}
	args := append(append([]string{}, c.Flags...), ".")
	r := cmdline.Run(cmdline.Opt{Stdin: []byte(in.String())}, args...)
	if r.TimedOut {
		rec.Discard("cli-timeout")
		return ""
	}
	if r.Exit != 0 {
		return fmt.Sprintf("gojq %v exited %d: %s", args, r.Exit, r.Stderr)
	}
	yamlOut := false
	for _, f := range c.Flags {
		if f == "-s" {
			vals = []any{vals}
		}
		yamlOut = yamlOut || f == "--yaml-output"
	}
	msg := ""
	if yamlOut {
		msg = checkYAMLText(r.Stdout, vals)
	} else {
		msg = checkText(ansi.ReplaceAllString(r.Stdout, ""), vals)
	}
	if msg != "" {
		return fmt.Sprintf("gojq %v: %s", args, msg)
	}
	return ""
}

// yamlMarks: the marks of one YAML document in text order (the YAML parser
// is plumbing: a mapping node keeps its entries in document order).
func yamlMarks(n *yaml.Node, out *[]string) {
	switch n.Kind {
	case yaml.DocumentNode:
		for _, c := range n.Content {
			yamlMarks(c, out)
		}
	case yaml.MappingNode:
		*out = append(*out, "{")
		for i := 0; i+1 < len(n.Content); i += 2 {
			*out = append(*out, "key "+strconv.Quote(n.Content[i].Value))
			yamlMarks(n.Content[i+1], out)
		}
		*out = append(*out, "}")
	case yaml.SequenceNode:
		*out = append(*out, "[")
		for _, c := range n.Content {
			yamlMarks(c, out)
		}
		*out = append(*out, "]")
	default:
		*out = append(*out, "scalar")
	}
}

func checkYAMLText(text string, vals []any) string {
	dec := yaml.NewDecoder(strings.NewReader(text))
	for n, v := range vals {
		var node yaml.Node
		if err := dec.Decode(&node); err != nil {
			return fmt.Sprintf("value %d: cannot read the YAML output: %v", n, err)
		}
		var got, want []string
		yamlMarks(&node, &got)
		marks(v, &want)
		if msg := diffMarks(got, want); msg != "" {
			return fmt.Sprintf("value %d (%s): %s", n, univ.Show(v), msg)
		}
	}
	var node yaml.Node
	if err := dec.Decode(&node); err != io.EOF {
		return "more YAML output than values"
	}
	return ""
}

// Known finding C11.F1: --yaml-output orders keys by the YAML library's
// "natural" order, which differs from the value order as soon as a key holds a
// character that is not a letter.  Structural class: such a key somewhere.
const yamlClass = "C11/yaml-nonletter-keys"

func hasNonLetterKey(v any) bool {
	switch v := v.(type) {
	case []any:
		for _, x := range v {
			if hasNonLetterKey(x) {
				return true
			}
		}
	case map[string]any:
		for k, x := range v {
			for _, r := range k {
				if !unicode.IsLetter(r) {
					return true
				}
			}
			if hasNonLetterKey(x) {
				return true
			}
		}
	}
	return false
}

var yamlLetters = []string{"a", "b", "B", "A", "z", "Z", "\u00e9", "\u00df", "\u3042", "\u6f22", "\uff46", "\U00010000", "\U0001D400"}
var yamlOthers = []string{"9", "10", "1", "0", "2", "_", "-", " ", ".", "~", "+", "\u0301"}

func genYAMLKey(t *rapid.T, hard bool) string {
	n := rapid.IntRange(0, 3).Draw(t, "klen")
	var sb strings.Builder
	for i := 0; i < n; i++ {
		if hard && rapid.Bool().Draw(t, "other") {
			sb.WriteString(rapid.SampledFrom(yamlOthers).Draw(t, "o"))
		} else {
			sb.WriteString(rapid.SampledFrom(yamlLetters).Draw(t, "l"))
		}
	}
	return sb.String()
}

func genYAMLVal(t *rapid.T, depth int, hard bool) any {
	k := rapid.IntRange(0, 9).Draw(t, "ykind")
	switch {
	case depth <= 0 || k < 3:
		return rapid.SampledFrom([]any{nil, true, false, 0, 1, -1, 2.5, "a", "b", "", "a b"}).Draw(t, "yscalar")
	case k < 5:
		n := rapid.IntRange(0, 3).Draw(t, "yalen")
		a := make([]any, n)
		for i := range a {
			a[i] = genYAMLVal(t, depth-1, hard)
		}
		return a
	}
	n := rapid.IntRange(0, 8).Draw(t, "yolen")
	m := make(map[string]any, n)
	for i := 0; i < n; i++ {
		m[genYAMLKey(t, hard)] = genYAMLVal(t, depth-1, hard)
	}
	return m
}

// ---------------------------------------------------------------------------
// universe

func bigOf(s string) *big.Int {
	b, ok := new(big.Int).SetString(s, 10)
	if !ok {
		panic(s)
	}
	return b
}

var two53 = new(big.Int).Lsh(big.NewInt(1), 53)

// intReps: every representation of the integer b that keeps its value and
// stays inside the precondition.
func intReps(b *big.Int) []any {
	r := []any{}
	if b.IsInt64() {
		r = append(r, int(b.Int64()))
	}
	r = append(r, new(big.Int).Set(b), json.Number(b.String()))
	if new(big.Int).Abs(b).Cmp(two53) < 0 {
		f, _ := new(big.Float).SetInt(b).Float64()
		s := b.String()
		r = append(r, f, json.Number(s+".0"), json.Number(s+"e0"), json.Number(s+"E0"), json.Number(s+".00"))
		if b.Sign() == 0 {
			r = append(r, math.Copysign(0, -1), json.Number("-0"), json.Number("-0.0"))
		} else {
			r = append(r, json.Number(s+"0e-1"))
		}
	}
	return r
}

func floatReps(f float64) []any {
	if f == math.Trunc(f) {
		b, _ := new(big.Float).SetFloat64(f).Int(nil)
		return intReps(b)
	}
	r := []any{f, json.Number(strconv.FormatFloat(f, 'g', -1, 64))}
	if a := math.Abs(f); a > 1e-5 && a < 1e15 {
		r = append(r, json.Number(strconv.FormatFloat(f, 'f', -1, 64)), json.Number(strconv.FormatFloat(f, 'f', -1, 64)+"0"), json.Number(strconv.FormatFloat(f, 'E', -1, 64)))
	}
	return r
}

// repsOf: the value-preserving representations of any in-domain number.
func repsOf(v any) []any {
	r := ratOf(v)
	if r == nil {
		return []any{v}
	}
	if r.IsInt() {
		return intReps(new(big.Int).Set(r.Num()))
	}
	f, _ := r.Float64()
	return floatReps(f)
}

var uniStrings = []string{"", "a", "A", "aa", "ab", "b", "a\x00", "a\x00b", "\x00", " ", "0", "1", "10", "9", "\u007f", "\u0080", "\u00e9", "e\u0301",
	"\u07ff", "\u0800", "\ud7ff", "\ue000", "\uffff", "\ufffd", "\U00010000", "\U0001F600", "\U0010ffff", "a\uffff", "a\U00010000", "true", "null"}

var uniInts = []string{"0", "1", "-1", "2", "3", "10", "-10", "4503599627370496", "9007199254740991", "-9007199254740991", "9007199254740992", "9007199254740993",
	"-9007199254740993", "9223372036854775806", "9223372036854775807", "-9223372036854775808", "-9223372036854775807", "9223372036854775808", "9223372036854775809",
	"-9223372036854775809", "18446744073709551615", "18446744073709551616", "100000000000000000000", "100000000000000000001", "-100000000000000000000", "1000000000000000000000000000000"}

var uniFloats = []float64{0.5, -0.5, 1.5, -1.5, 2.5, 0.1, 0.30000000000000004, 0.3, 1e-7, 5e-324, -5e-324, 2251799813685248.5, 9007199254740990.0, 4503599627370497.0, 0.9999999999999999, 1.0000000000000002}

var uniNumLits = []string{"1.0", "1e0", "1E0", "1.00", "10e-1", "0.0", "-0.0", "0e0", "1.5", "15e-1", "0.1", "0.10", "0.10000000000000001", "2.5E+0", "1E+1", "-1.5", "9007199254740991.0", "0.5", "1e-7", "0.1E1"}

func universe(thorough bool) []any {
	u := []any{nil, false, true}
	var nums []any
	for i, s := range uniInts {
		b := bigOf(s)
		reps := intReps(b)
		small := new(big.Int).Abs(b).Cmp(big.NewInt(3)) <= 0
		extra := 1 + (i*5)%(len(reps)-1)
		for j, r := range reps {
			// quick: the native representation, json.Number, one rotating other
			// representation, and all of int / big / json.Number / float64 for
			// the small values; thorough: every representation
			_, isNum := r.(json.Number)
			if thorough || j == 0 || isNum && isIntLit(string(r.(json.Number))) || j == extra || small && j < 5 {
				nums = append(nums, r)
			}
		}
	}
	nums = append(nums, math.Copysign(0, -1))
	for _, f := range uniFloats {
		nums = append(nums, f)
		if thorough {
			nums = append(nums, floatReps(f)[1:]...)
		}
	}
	for _, s := range uniNumLits {
		nums = append(nums, json.Number(s))
	}
	u = append(u, nums...)
	for _, s := range uniStrings {
		u = append(u, s)
	}
	b20 := bigOf("100000000000000000000")
	u = append(u,
		[]any{}, []any{nil}, []any{[]any{}}, []any{[]any{}, []any{}}, []any{[]any{[]any{}}}, []any{false}, []any{true}, []any{0}, []any{math.Copysign(0, -1)},
		[]any{1}, []any{1.0}, []any{json.Number("1.0")}, []any{big.NewInt(1)}, []any{2}, []any{1, 1}, []any{1, 2}, []any{1, 2, 3}, []any{1, 3}, []any{2, 1}, []any{0, 0, 0},
		[]any{[]any{1}}, []any{[]any{1}, []any{0}}, []any{[]any{1, 2}}, []any{[]any{2}}, []any{"a"}, []any{"a", "b"}, []any{"b"}, []any{""}, []any{nil, nil},
		[]any{map[string]any{}}, []any{map[string]any{"a": 1}}, []any{1, []any{2}}, []any{1, "a"}, []any{1, nil}, []any{"\uffff"}, []any{"\U00010000"}, []any{b20}, []any{1.5},
		[]any{json.Number("100000000000000000000"), 0},
	)
	u = append(u,
		map[string]any{}, map[string]any{"": 0}, map[string]any{"a": 1}, map[string]any{"a": 1.0}, map[string]any{"a": json.Number("1.0")}, map[string]any{"a": 2},
		map[string]any{"a": nil}, map[string]any{"a": []any{}}, map[string]any{"a": map[string]any{}}, map[string]any{"b": 0},
		map[string]any{"a": 1, "b": 2}, map[string]any{"a": 1, "b": 1}, map[string]any{"a": 2, "b": 1}, map[string]any{"a": 2, "b": 0},
		map[string]any{"a": 0, "c": 0}, map[string]any{"b": 0, "c": 0}, map[string]any{"a": 0, "b": 0, "c": 0}, map[string]any{"aa": 0}, map[string]any{"A": 0},
		map[string]any{"\uffff": 0}, map[string]any{"\U00010000": 0}, map[string]any{"\ue000": 0}, map[string]any{"\uffff": 0, "\U00010000": 1},
		map[string]any{"a": map[string]any{"b": 1}}, map[string]any{"a": map[string]any{"b": 2}}, map[string]any{"a": map[string]any{"c": 0}},
		map[string]any{"a": []any{1}}, map[string]any{"a": []any{1, 2}}, map[string]any{"a": "a"}, map[string]any{"a": "b"}, map[string]any{"\u00e9": 0}, map[string]any{"e\u0301": 0},
		map[string]any{"a\x00": 0}, map[string]any{"a": b20}, map[string]any{"a": json.Number("100000000000000000000")}, map[string]any{"a": true}, map[string]any{"a": false},
	)
	if thorough {
		for i, n := range nums {
			u = append(u, []any{n}, map[string]any{"a": n})
			if i%4 == 0 {
				u = append(u, []any{n, 0}, map[string]any{"a": 0, "b": n})
			}
		}
		for _, s := range uniStrings {
			u = append(u, []any{s}, map[string]any{s: 0})
		}
	}
	for _, v := range u {
		if !inDomain(v) {
			panic("universe value outside the precondition: " + univ.Show(v))
		}
	}
	return u
}

// mini universe for the bounded-exhaustive array sub-spaces: few classes,
// several distinguishable members per class.
var miniU = []any{nil, false, 0, math.Copysign(0, -1), 1, 1.0, json.Number("1.0"), big.NewInt(1), 2, "a", "b", []any{1}, []any{1.0}, map[string]any{"a": 1}}

// ---------------------------------------------------------------------------
// generators (rapid only)

var U []any
var uNums []any

var strPieces = []string{"a", "b", "A", "0", "1", " ", "\x00", "\u007f", "\u0080", "\u00e9", "\u07ff", "\u0800", "\ud7ff", "\ue000", "\ufffd", "\uffff", "\U00010000", "\U0001F600", "\U0010ffff", "e", "\u0301", "\"", "\\", "\n"}

func pick(t *rapid.T, label string, xs []any) any {
	return univ.Copy(xs[rapid.IntRange(0, len(xs)-1).Draw(t, label)])
}

func genNumber(t *rapid.T) any {
	switch rapid.IntRange(0, 8).Draw(t, "numkind") {
	case 0, 1:
		return pick(t, "rep", intReps(big.NewInt(int64(rapid.IntRange(-3, 5).Draw(t, "small")))))
	case 2:
		return pick(t, "unum", uNums)
	case 3:
		return pick(t, "rep", intReps(big.NewInt(rapid.Int64().Draw(t, "i64"))))
	case 4:
		k := rapid.SampledFrom([]uint{31, 32, 52, 53, 62, 63, 64, 65, 100}).Draw(t, "k")
		x := new(big.Int).Lsh(big.NewInt(1), k)
		x.Add(x, big.NewInt(int64(rapid.IntRange(-2, 2).Draw(t, "d"))))
		if rapid.Bool().Draw(t, "neg") {
			x.Neg(x)
		}
		return pick(t, "rep", intReps(x))
	case 5:
		n := rapid.IntRange(-3, 5).Draw(t, "n")
		fr := rapid.SampledFrom([]float64{0.5, 0.25, 0.75, 0.1}).Draw(t, "frac")
		return pick(t, "rep", floatReps(float64(n)+fr))
	case 6:
		f := rapid.Float64Range(-9007199254740991, 9007199254740991).Draw(t, "f")
		return pick(t, "rep", floatReps(f))
	case 7:
		f := rapid.Float64Range(-4, 4).Draw(t, "f")
		return pick(t, "rep", floatReps(f))
	default:
		n := rapid.IntRange(1, 30).Draw(t, "digits")
		var sb strings.Builder
		if rapid.Bool().Draw(t, "neg") {
			sb.WriteByte('-')
		}
		sb.WriteByte(byte('1' + rapid.IntRange(0, 8).Draw(t, "d0")))
		for i := 1; i < n; i++ {
			sb.WriteByte(byte('0' + rapid.IntRange(0, 9).Draw(t, "d")))
		}
		return pick(t, "rep", intReps(bigOf(sb.String())))
	}
}

func genString(t *rapid.T) string {
	if rapid.IntRange(0, 2).Draw(t, "ustr") == 0 {
		return rapid.SampledFrom(uniStrings).Draw(t, "str")
	}
	n := rapid.IntRange(0, 4).Draw(t, "len")
	var sb strings.Builder
	for i := 0; i < n; i++ {
		sb.WriteString(rapid.SampledFrom(strPieces).Draw(t, "piece"))
	}
	return sb.String()
}

func genKey(t *rapid.T) string {
	if rapid.IntRange(0, 2).Draw(t, "simplekey") > 0 {
		return rapid.SampledFrom([]string{"a", "b", "c", "d", "", "A", "aa", "ab", "\u00e9", "\uffff", "\U00010000", "\ue000", "k", "p", "0", "10", "9"}).Draw(t, "key")
	}
	return genString(t)
}

func genScalar(t *rapid.T) any {
	switch rapid.IntRange(0, 7).Draw(t, "scalar") {
	case 0:
		return nil
	case 1:
		return rapid.Bool().Draw(t, "bool")
	case 2, 3, 4:
		return genNumber(t)
	default:
		return genString(t)
	}
}

func genVal(t *rapid.T, depth int) any {
	k := rapid.IntRange(0, 9).Draw(t, "kind")
	switch {
	case k == 0:
		return pick(t, "uval", U)
	case depth <= 0 || k < 5:
		return genScalar(t)
	case k < 8:
		n := rapid.IntRange(0, 3).Draw(t, "alen")
		a := make([]any, n)
		for i := range a {
			a[i] = genVal(t, depth-1)
		}
		return a
	default:
		return genObj(t, depth, 3)
	}
}

func genObj(t *rapid.T, depth, width int) map[string]any {
	n := rapid.IntRange(0, width).Draw(t, "olen")
	m := make(map[string]any, n)
	for i := 0; i < n; i++ {
		m[genKey(t)] = genVal(t, depth-1)
	}
	return m
}

// variant: an equal value (by the order) that may differ in the Go
// representation of its numbers.
func variant(t *rapid.T, v any) any {
	switch v := v.(type) {
	case int, float64, *big.Int, json.Number:
		if rapid.Bool().Draw(t, "keeprep") {
			return univ.Copy(v)
		}
		return pick(t, "rep", repsOf(v))
	case []any:
		a := make([]any, len(v))
		for i, x := range v {
			a[i] = variant(t, x)
		}
		return a
	case map[string]any:
		m := make(map[string]any, len(v))
		for _, k := range sortedKeys(v) {
			m[k] = variant(t, v[k])
		}
		return m
	}
	return v
}

// mutate: a near neighbour of v.
func mutate(t *rapid.T, v any) any {
	switch v := v.(type) {
	case int, float64, *big.Int, json.Number:
		r := ratOf(v)
		switch rapid.IntRange(0, 3).Draw(t, "nummut") {
		case 0:
			return pick(t, "rep", repsOf(v))
		case 1:
			if r.IsInt() {
				d := int64(rapid.SampledFrom([]int{-1, 1}).Draw(t, "d"))
				return pick(t, "rep", intReps(new(big.Int).Add(r.Num(), big.NewInt(d))))
			}
			f, _ := r.Float64()
			g := math.Nextafter(f, f+float64(rapid.SampledFrom([]int{-1, 1}).Draw(t, "dir")))
			if math.Abs(g) < lim53 {
				return pick(t, "rep", floatReps(g))
			}
			return univ.Copy(v)
		case 2:
			if f, _ := r.Float64(); math.Abs(f) < 1<<51 {
				return pick(t, "rep", floatReps(f+0.5))
			}
			return univ.Copy(v)
		}
		return genNumber(t)
	case string:
		rs := []rune(v)
		switch rapid.IntRange(0, 3).Draw(t, "strmut") {
		case 0:
			return v + rapid.SampledFrom(strPieces).Draw(t, "piece")
		case 1:
			if len(rs) > 0 {
				return string(rs[:len(rs)-1])
			}
		case 2:
			if len(rs) > 0 {
				return string(rs[:len(rs)-1]) + rapid.SampledFrom(strPieces).Draw(t, "piece")
			}
		}
		return genString(t)
	case []any:
		a := univ.Copy(v).([]any)
		switch rapid.IntRange(0, 3).Draw(t, "arrmut") {
		case 0:
			if len(a) > 0 {
				i := rapid.IntRange(0, len(a)-1).Draw(t, "i")
				a[i] = mutate(t, a[i])
				return a
			}
		case 1:
			if len(a) > 0 {
				return a[:len(a)-1]
			}
		case 2:
			if len(a) > 1 {
				i := rapid.IntRange(0, len(a)-2).Draw(t, "i")
				a[i], a[i+1] = a[i+1], a[i]
				return a
			}
		}
		return append(a, genScalar(t))
	case map[string]any:
		m := univ.Copy(v).(map[string]any)
		ks := sortedKeys(m)
		if len(ks) > 0 {
			k := ks[rapid.IntRange(0, len(ks)-1).Draw(t, "ki")]
			switch rapid.IntRange(0, 3).Draw(t, "objmut") {
			case 0:
				m[k] = mutate(t, m[k])
				return m
			case 1:
				delete(m, k)
				return m
			case 2:
				x := m[k]
				delete(m, k)
				m[mutate(t, k).(string)] = x
				return m
			}
		}
		m[genKey(t)] = genScalar(t)
		return m
	}
	return genScalar(t)
}

// rapid prefers the front of a list: the interesting sizes come first (Go's
// sort switches algorithm above 12 elements).
var arrSizes = []int{14, 5, 17, 3, 24, 9, 13, 33, 2, 50, 6, 12, 4, 70, 1, 0}

// genKeys: n sort keys drawn from a small pool so that equal keys (often in
// different representations) are frequent.
func genKeys(t *rapid.T, n int) []any {
	pn := rapid.IntRange(1, 6).Draw(t, "pool")
	pool := make([]any, pn)
	for i := range pool {
		switch rapid.IntRange(0, 3).Draw(t, "poolkind") {
		case 0:
			pool[i] = pick(t, "uval", U)
		case 1:
			if i > 0 {
				pool[i] = mutate(t, pool[i-1])
				break
			}
			fallthrough
		default:
			pool[i] = genVal(t, 2)
		}
	}
	keys := make([]any, n)
	for i := range keys {
		keys[i] = variant(t, pool[rapid.IntRange(0, pn-1).Draw(t, "pi")])
	}
	return keys
}

func records(fn string, keys []any, t *rapid.T) []any {
	arr := make([]any, len(keys))
	for i, k := range keys {
		r := map[string]any{"k": k, "p": i}
		if strings.HasSuffix(fn, "2") {
			r["j"] = rapid.IntRange(0, 1).Draw(t, "j")
		}
		if strings.HasSuffix(fn, "v") {
			// keys of 0, 1 or 2 members drawn from the same pool, so that
			// [], [x], [x, y] and a non-iterable .k meet in one array
			switch rapid.IntRange(0, 4).Draw(t, "arity") {
			case 0:
				r["k"] = []any{}
			case 1:
				r["k"] = []any{k}
			case 2:
				r["k"] = []any{k, keys[rapid.IntRange(0, len(keys)-1).Draw(t, "k2")]}
			case 3:
				r["k"] = map[string]any{"a": k}
			}
		}
		if rapid.IntRange(0, 15).Draw(t, "nokey") == 0 {
			delete(r, "k") // missing key = null key
		}
		arr[i] = r
	}
	return arr
}

func genArrCase(t *rapid.T, fns ...string) arrCase {
	fn := rapid.SampledFrom(fns).Draw(t, "fn")
	n := rapid.SampledFrom(arrSizes).Draw(t, "n")
	keys := genKeys(t, n)
	c := arrCase{Fn: fn}
	if recordFns[fn] {
		c.Arr.X = records(fn, keys, t)
		return c
	}
	arr := keys
	target := func() any {
		switch k := rapid.IntRange(0, 5).Draw(t, "target"); {
		case k <= 2 && len(arr) > 0:
			return variant(t, arr[rapid.IntRange(0, len(arr)-1).Draw(t, "ti")])
		case k <= 4 && len(arr) > 0:
			return mutate(t, arr[rapid.IntRange(0, len(arr)-1).Draw(t, "ti")])
		}
		return genVal(t, 2)
	}
	switch fn {
	case "bsearch":
		idx := stableOrder(arr)
		s := make([]any, len(arr))
		for i, j := range idx {
			s[i] = arr[j]
		}
		arr = s
		c.X.X = target()
	case "subtract":
		m := rapid.SampledFrom([]int{2, 1, 3, 0, 5, 33, 4, 32, 31, 40}).Draw(t, "m")
		sub := make([]any, m)
		for i := range sub {
			sub[i] = target()
		}
		c.X.X = sub
	case "index", "rindex", "indices":
		if len(arr) > 0 && rapid.IntRange(0, 2).Draw(t, "slice") == 0 {
			i := rapid.IntRange(0, len(arr)-1).Draw(t, "from")
			l := rapid.IntRange(1, min(3, len(arr)-i)).Draw(t, "len")
			c.X.X = variant(t, arr[i:i+l])
		} else {
			c.X.X = target()
		}
	}
	c.Arr.X = arr
	return c
}

func sizeClass(n int) string {
	switch {
	case n <= 1:
		return "n<=1"
	case n <= 12:
		return "n2-12"
	}
	return "n>12"
}

func doArr(sub string, c arrCase) string {
	rec.Eval()
	arr, _ := c.Arr.X.([]any)
	nt := ntArr(c)
	if nt {
		rec.NT(sub + "/" + c.Fn + "/" + univ.Show(c.Arr.X) + "/" + univ.Show(c.X.X))
		rec.Class(c.Fn + "/nontrivial/" + sizeClass(len(arr)))
	} else {
		rec.Class(c.Fn + "/trivial")
	}
	return checkArr(c)
}

// ---------------------------------------------------------------------------

// ---------------------------------------------------------------------------
// size sweep: long arrays / wide objects with many equal keys.  Realistic
// slips are often wrong only beyond a size threshold (Go's sort switches
// algorithm at 12 elements; fast paths for >= 32 operands; previews of 8).
// A case is a handful of parameters; the values are a pure function of them.

var sweepSizes = []int{11, 12, 13, 31, 32, 33, 63, 64, 65, 100, 255, 256, 257, 1000}
var sweepShapes = []string{"random", "nearly-sorted", "reverse", "all-equal", "two-runs"}
var sweepArrFns = []string{"sort", "sort_by", "group_by", "unique", "unique_by", "min", "max", "min_by", "max_by", "bsearch", "subtract", "index", "rindex", "indices"}
var sweepFlagSets = []string{"", "-c", "-C", "--tab", "-s --indent 1"}

type sweepCase struct {
	Kind  string `json:"kind"` // array | object | cli
	Fn    string `json:"fn"`   // array consumer / object form / command flags
	N     int    `json:"n"`
	Shape string `json:"shape"`
	Pool  int    `json:"pool"`
	M     int    `json:"m"` // right operand / needle length (0: one element), bsearch: target selector
	Seed  uint64 `json:"seed"`
}

type prng uint64

func (p *prng) next() uint64 {
	*p += 0x9e3779b97f4a7c15
	z := uint64(*p)
	z = (z ^ z>>30) * 0xbf58476d1ce4e5b9
	z = (z ^ z>>27) * 0x94d049bb133111eb
	return z ^ z>>31
}
func (p *prng) intn(n int) int { return int(p.next() % uint64(n)) }

// sweepPools: each pool is a list of equality classes, each class a list of
// equal values that differ in Go representation.
var sweepPools = func() [][][]any {
	b1 := big.NewInt(1)
	var nums, intstr, bigs [][]any
	for v := int64(0); v < 6; v++ {
		nums = append(nums, intReps(big.NewInt(v))[:7])
	}
	for v := 0; v < 8; v++ {
		intstr = append(intstr, []any{v, float64(v), json.Number(strconv.Itoa(v)), big.NewInt(int64(v))})
	}
	for _, s := range []string{"0", "1", "7", "10", "9", "a", "aa", "a\x00", "é", "\U00010000"} {
		intstr = append(intstr, []any{s})
	}
	for _, s := range []string{"9007199254740993", "9223372036854775807", "-9223372036854775808", "9223372036854775808", "18446744073709551616", "100000000000000000000", "100000000000000000001"} {
		bigs = append(bigs, intReps(bigOf(s)))
	}
	bigs = append(bigs, floatReps(1.5), floatReps(0.5), floatReps(-0.5), intReps(big.NewInt(0)))
	mixed := [][]any{{nil}, {false}, {true}, intReps(b1)[:6], {"a"}, {"ab"}, {"b"}, {"é"}, {"\uffff"}, {"\U00010000"},
		{[]any{1}, []any{1.0}, []any{json.Number("1.0")}, []any{big.NewInt(1)}}, {[]any{1, 2}, []any{1.0, json.Number("2")}}, {[]any{}},
		{map[string]any{"a": 1}, map[string]any{"a": 1.0}, map[string]any{"a": big.NewInt(1)}}, {map[string]any{"a": 2}}, {map[string]any{}}}
	return [][][]any{nums, mixed, intstr, bigs}
}()

// sweepElems draws n elements (class ids and values) from k classes of pool.
func sweepElems(p *prng, pool [][]any, n int, shape string) (cls []int, vals []any) {
	k := 2 + p.intn(min(7, len(pool)-1))
	if shape == "all-equal" {
		k = 1
	}
	classes := make([]int, k)
	for i := range classes {
		classes[i] = p.intn(len(pool))
	}
	cls, vals = make([]int, n), make([]any, n)
	for i := range vals {
		cls[i] = classes[p.intn(k)]
		vals[i] = univ.Copy(pool[cls[i]][p.intn(len(pool[cls[i]]))])
	}
	reorder := func(lo, hi int) { // stable order of vals[lo:hi] by the oracle
		idx := stableOrder(vals[lo:hi])
		c2, v2 := make([]int, hi-lo), make([]any, hi-lo)
		for a, b := range idx {
			c2[a], v2[a] = cls[lo+b], vals[lo+b]
		}
		copy(cls[lo:hi], c2)
		copy(vals[lo:hi], v2)
	}
	switch shape {
	case "nearly-sorted":
		reorder(0, n)
		for s := 0; s < n/16+1; s++ {
			a, b := p.intn(n), p.intn(n)
			cls[a], cls[b], vals[a], vals[b] = cls[b], cls[a], vals[b], vals[a]
		}
	case "reverse":
		reorder(0, n)
		for a, b := 0, n-1; a < b; a, b = a+1, b-1 {
			cls[a], cls[b], vals[a], vals[b] = cls[b], cls[a], vals[b], vals[a]
		}
	case "two-runs":
		reorder(0, n/2)
		reorder(n/2, n)
	case "sorted":
		reorder(0, n)
	}
	return
}

func sweepKey(i int) string {
	return []string{"", "a", "aa", "é", "\uffff", "\U00010000"}[i%6] + strconv.Itoa(i/6)
}

func sweepObject(p *prng, n int) map[string]any {
	m := make(map[string]any, n)
	for i := 0; i < n; i++ {
		var v any = i
		switch {
		case i%17 == 3:
			v = []any{i, map[string]any{"b": i, "a": 1, "é": nil}}
		case i%23 == 5:
			v = map[string]any{"z": i, "a": []any{i}, "a1": 0, "a10": 1, "a9": 2}
		case i%5 == 1:
			v = univ.Copy(sweepPools[0][p.intn(6)][p.intn(7)])
		}
		m[sweepKey(i)] = v
	}
	return m
}

func short(s string) string {
	if len(s) > 1800 {
		return s[:1200] + " ...[cut]... " + s[len(s)-500:]
	}
	return s
}

func checkSweep(c sweepCase) string {
	if c.N < 0 || c.N > 5000 || c.M < 0 || c.M > 5000 || c.Pool < 0 || c.Pool >= len(sweepPools) {
		return ""
	}
	p := prng(c.Seed)
	tag := fmt.Sprintf("sweep %s/%s n=%d shape=%s pool=%d m=%d: ", c.Kind, c.Fn, c.N, c.Shape, c.Pool, c.M)
	switch c.Kind {
	case "object", "cli":
		in := sweepObject(&p, c.N)
		v := univ.Copy(in)
		if c.Kind == "cli" {
			var flags []string
			if c.Fn != "" {
				flags = strings.Split(c.Fn, " ")
			}
			if msg := checkCLI(cliCase{Vals: []univ.V{{X: in}, {X: []any{in}}}, Flags: flags, Perm: int(c.Seed % 1000)}); msg != "" {
				return tag + short(msg)
			}
			return ""
		}
		for _, call := range []string{"first", "second"} {
			if msg := checkObjIn(c.Fn, v, in); msg != "" {
				return tag + call + " call: " + short(msg)
			}
			if !univ.Same(in, v) {
				return tag + "the input object was modified by the " + call + " call"
			}
		}
		return ""
	case "array":
	default:
		return ""
	}
	if arrCodes[c.Fn] == nil || c.N == 0 {
		return ""
	}
	pool := sweepPools[c.Pool]
	shape := c.Shape
	if c.Fn == "bsearch" && shape != "all-equal" {
		shape = "sorted"
	}
	cls, arr := sweepElems(&p, pool, c.N, shape)
	var x any
	switch c.Fn {
	case "bsearch":
		tc := c.M % len(pool)
		x = univ.Copy(pool[tc][p.intn(len(pool[tc]))])
	case "subtract":
		_, x = sweepElems(&p, pool, max(1, c.M), "random")
	case "index", "rindex", "indices":
		if c.M == 0 || c.M > c.N {
			x = univ.Copy(arr[p.intn(c.N)])
			break
		}
		s := p.intn(c.N - c.M + 1)
		needle := make([]any, c.M)
		for i := range needle { // the same classes, representations drawn again
			cl := pool[cls[s+i]]
			needle[i] = univ.Copy(cl[p.intn(len(cl))])
		}
		if p.intn(3) == 0 { // usually absent then
			cl := pool[p.intn(len(pool))]
			needle[p.intn(c.M)] = univ.Copy(cl[0])
		}
		x = needle
	}
	if recordFns[c.Fn] {
		for i, k := range arr {
			arr[i] = map[string]any{"k": k, "p": i}
		}
	}
	if msg := runArr(c.Fn, arr, x, univ.Copy(arr).([]any), univ.Copy(x)); msg != "" {
		return tag + short(msg)
	}
	return ""
}

func replayCase(sub string, raw json.RawMessage) string {
	bad := func(err error) string { return "bad replay: " + err.Error() }
	switch sub {
	case "pairs":
		var c pairCase
		if err := json.Unmarshal(raw, &c); err != nil {
			return bad(err)
		}
		return checkPair(c)
	case "triples", "order":
		var c tripleCase
		if err := json.Unmarshal(raw, &c); err != nil {
			return bad(err)
		}
		return checkTriple(c)
	case "keys", "iter", "text":
		var c objCase
		if err := json.Unmarshal(raw, &c); err != nil {
			return bad(err)
		}
		return checkObj(c)
	case "sweep":
		var c sweepCase
		if err := json.Unmarshal(raw, &c); err != nil {
			return bad(err)
		}
		return checkSweep(c)
	case "aliased", "aliased-small":
		var c aliasCase
		if err := json.Unmarshal(raw, &c); err != nil {
			return bad(err)
		}
		return checkAlias(c)
	case "cli", "cli-yaml":
		var c cliCase
		if err := json.Unmarshal(raw, &c); err != nil {
			return bad(err)
		}
		return checkCLI(c)
	default:
		var c arrCase
		if err := json.Unmarshal(raw, &c); err != nil {
			return bad(err)
		}
		if arrCodes[c.Fn] == nil {
			return "unknown sub " + sub
		}
		return checkArr(c)
	}
}

func classOfPair(a, b any) string {
	names := []string{"null", "false", "true", "number", "string", "array", "object"}
	if rank(a) != rank(b) {
		return "cross-type"
	}
	s := "same-type/" + names[rank(a)]
	if cmpVal(a, b) == 0 {
		s += "/equal"
		if !univ.Same(a, b) {
			s += "-other-representation"
		}
	}
	return s
}

func TestC11(t *testing.T) {
	rec = evid.Open("C11")
	defer rec.Close()
	U = universe(rec.Thorough())
	for _, v := range U {
		if rank(v) == 3 {
			uNums = append(uNums, v)
		}
	}
	rec.Replays(replayCase)
	if rec.ReplayPath() != "" {
		return
	}
	tooMany := func() {
		if rec.Violations() > 20 {
			t.Fatalf("too many violations")
		}
	}

	// (E1) every ordered pair of the universe: Compare and the six operators
	// against the oracle; every ordered triple: transitivity of what Compare
	// returned.
	n := len(U)
	M := make([][]int8, n)
	for i := range M {
		M[i] = make([]int8, n)
		for j := range M[i] {
			M[i][j] = int8(max(-2, min(2, gojq.Compare(U[i], U[j]))))
		}
	}
	complete := true
	var triples, ntTriples int64
	for i := range U {
		if !rec.Mine(i) {
			continue
		}
		for j := range U {
			c := pairCase{univ.V{X: U[i]}, univ.V{X: U[j]}}
			rec.Eval()
			cl := classOfPair(U[i], U[j])
			rec.Class("pairs/" + cl)
			if cl != "cross-type" {
				rec.NT("pair/" + univ.Show(U[i]) + "/" + univ.Show(U[j]))
			}
			if msg := checkPair(c); msg != "" {
				rec.Direct("pairs", c, "%s", msg)
				complete = false
				tooMany()
			}
		}
		for j := range U {
			for k := range U {
				triples++
				if rank(U[i]) == rank(U[j]) || rank(U[j]) == rank(U[k]) || rank(U[i]) == rank(U[k]) {
					ntTriples++
				}
				if msg := lawTriple(int(M[i][j]), int(M[j][k]), int(M[i][k])); msg != "" {
					c := tripleCase{univ.V{X: U[i]}, univ.V{X: U[j]}, univ.V{X: U[k]}}
					m2 := checkTriple(c)
					if m2 == "" {
						m2 = "matrix: " + msg
					}
					rec.Direct("triples", c, "%s", m2)
					complete = false
					tooMany()
				}
			}
		}
	}
	rec.Exhaustive(fmt.Sprintf("ordered pairs and ordered triples of the %d-value universe", n), complete)
	rec.Extra("universe_size", n)
	rec.Extra("sum_triples_checked", triples)
	rec.Extra("sum_triples_nontrivial", ntTriples)

	// (E2) every array of length <= L over the mini universe through every
	// array consumer; every needle / target of the mini universe.
	L := rec.Scale(3, 4)
	var arrays [][]any
	var build func(prefix []any)
	build = func(prefix []any) {
		arrays = append(arrays, append([]any{}, prefix...))
		if len(prefix) == L {
			return
		}
		for _, v := range miniU {
			build(append(prefix, v))
		}
	}
	build(nil)
	complete = true
	direct := func(c arrCase) {
		if msg := doArr("small-arrays", c); msg != "" {
			rec.Direct("small-arrays", c, "%s", msg)
			complete = false
			tooMany()
		}
	}
	for i, arr := range arrays {
		if !rec.Mine(i) {
			continue
		}
		for _, fn := range []string{"sort", "unique", "min", "max"} {
			direct(arrCase{Fn: fn, Arr: univ.V{X: arr}})
		}
		recs := make([]any, len(arr))
		for p, k := range arr {
			recs[p] = map[string]any{"k": k, "p": p}
		}
		for _, fn := range []string{"sort_by", "group_by", "unique_by", "min_by", "max_by", "sort_byv", "group_byv", "unique_byv", "min_byv", "max_byv"} {
			direct(arrCase{Fn: fn, Arr: univ.V{X: recs}})
		}
		sorted := true
		for p := 1; p < len(arr); p++ {
			sorted = sorted && cmpVal(arr[p-1], arr[p]) <= 0
		}
		for _, x := range miniU {
			for _, fn := range []string{"index", "rindex", "indices"} {
				direct(arrCase{Fn: fn, Arr: univ.V{X: arr}, X: univ.V{X: x}})
			}
			direct(arrCase{Fn: "subtract", Arr: univ.V{X: arr}, X: univ.V{X: []any{x}}})
			direct(arrCase{Fn: "subtract", Arr: univ.V{X: arr}, X: univ.V{X: []any{"b", x, nil}}})
			if sorted {
				direct(arrCase{Fn: "bsearch", Arr: univ.V{X: arr}, X: univ.V{X: x}})
			}
		}
	}
	rec.Exhaustive(fmt.Sprintf("arrays of length <= %d over the %d-value mini universe x 14 consumers", L, len(miniU)), complete)

	// (E4) size sweep: lengths on both sides of 12 / 32 / 64 / 256 and 1000,
	// every array consumer, every object form and text writer, the command;
	// thorough: the whole grid, quick: a sample that rotates with the seed but
	// always holds every (length, consumer) pair twice.
	complete = true
	si := 0
	rot := int(rec.Seed % 1000)
	sweep := func(c sweepCase, inQuick bool) {
		si++
		if !(inQuick || rec.Thorough()) || !rec.Mine(si) {
			return
		}
		c.Seed = evid.Mix(uint64(rec.Seed), "sweep", uint64(si))
		rec.Eval()
		rec.Class(fmt.Sprintf("sweep/%s/%s/%s", c.Kind, c.Fn, sizeClass(c.N)))
		rec.Class(fmt.Sprintf("sweep/n=%d", c.N))
		b, _ := json.Marshal(c)
		rec.NT("sweep/" + string(b))
		rec.Sample(c)
		if msg := checkSweep(c); msg != "" {
			rec.Direct("sweep", c, "%s", msg)
			complete = false
			tooMany()
		}
	}
	for ni, n := range sweepSizes {
		for fi, fn := range sweepArrFns {
			ms := []int{0}
			switch fn {
			case "subtract":
				ms = []int{32, 31, 33, 1, 64, 257, 1000}
			case "index", "rindex", "indices":
				ms = []int{0, 3, 32, n / 2, n}
			case "bsearch":
				ms = []int{0, 1, 2, 3, 5, 8}
			}
			var combos []sweepCase
			for _, shape := range sweepShapes {
				for pool := range sweepPools {
					for _, m := range ms {
						if fn == "subtract" && n*m > 300000 {
							m = 300000 / n
						}
						combos = append(combos, sweepCase{Kind: "array", Fn: fn, N: n, Shape: shape, Pool: pool, M: m})
					}
				}
			}
			qa := (ni*11 + fi*3 + rot) % len(combos)
			qb := (ni*29 + fi*13 + rot*7 + 61) % len(combos)
			if qb == qa {
				qb = (qa + 1) % len(combos)
			}
			for k, c := range combos {
				sweep(c, k == qa || k == qb)
			}
		}
		forms := append(append([]string{}, iterFormNames...), textFormNames...)
		for fi, form := range forms {
			sweep(sweepCase{Kind: "object", Fn: form, N: n}, (ni+fi+rot)%3 == 0)
		}
		for fi, flags := range sweepFlagSets {
			sweep(sweepCase{Kind: "cli", Fn: flags, N: n}, (ni+rot)%len(sweepFlagSets) == fi)
		}
	}
	if rec.Thorough() {
		rec.Exhaustive(fmt.Sprintf("size sweep: %d lengths x 14 array consumers x 5 shapes x 4 pools x operand lengths, %d object forms, %d command flag sets", len(sweepSizes), len(iterFormNames)+len(textFormNames), len(sweepFlagSets)), complete)
	}

	// (E3) values sharing Go storage: every pair of slices of one 4-element
	// array through Compare / the operators, every triple (pair + needle for
	// the binary consumers) of its prefixes and suffixes through the array
	// consumers; built in Go and derived by the query itself.
	abase := []any{1, []any{2, 3}, map[string]any{"a": 1}, "x"}
	var slices, ends []aliasSpec
	for i := 0; i <= len(abase); i++ {
		for j := i; j <= len(abase); j++ {
			slices = append(slices, aliasSpec{K: "slice", I: i, J: j})
			if (i == 0 || j == len(abase)) && i < j {
				ends = append(ends, aliasSpec{K: "slice", I: i, J: j})
			}
		}
	}
	ends = append(ends, aliasSpec{K: "elemslice", E: 1, I: 0, J: 1}, aliasSpec{K: "elem", E: 1}, aliasSpec{K: "nest", I: 0, J: 2})
	complete = true
	ai := 0
	adirect := func(c aliasCase) {
		ai++
		if !rec.Mine(ai) {
			return
		}
		for _, via := range []string{"go", "jq"} {
			c.Via = via
			if msg := doAlias("aliased-small", c); msg != "" {
				rec.Direct("aliased-small", c, "%s", msg)
				complete = false
				tooMany()
			}
		}
	}
	for _, x := range slices {
		for _, y := range slices {
			adirect(aliasCase{Base: univ.V{X: abase}, Fn: "compare", Members: []aliasSpec{x, y}})
		}
	}
	for _, x := range ends {
		for _, y := range ends {
			for _, z := range ends {
				for _, fn := range aliasFns[1:10] {
					adirect(aliasCase{Base: univ.V{X: abase}, Fn: fn, Members: []aliasSpec{x, y, z}})
				}
			}
			for _, z := range ends {
				for _, fn := range aliasFns[10:] {
					adirect(aliasCase{Base: univ.V{X: abase}, Fn: fn, Members: []aliasSpec{x, y}, X: []aliasSpec{z}})
					adirect(aliasCase{Base: univ.V{X: abase}, Fn: fn, Members: []aliasSpec{x, y}, X: []aliasSpec{z}, Wrap: true})
				}
			}
		}
	}
	rec.Exhaustive(fmt.Sprintf("storage-sharing slices of one array: %d x %d pairs, %d^3 member triples x consumers", len(slices), len(slices), len(ends)), complete)

	// (R0) random arrays, random storage-sharing derivations
	rec.Rapid(t, "aliased", rec.Scale(48000, 900000), func(t *rapid.T) {
		c := genAliasCase(t)
		if !inDomain(c.Base.X) {
			t.Fatalf("%s", rec.Fail("aliased", c, "harness: generated value outside the precondition"))
		}
		rec.Sample(c)
		if msg := doAlias("aliased", c); msg != "" {
			t.Fatalf("%s", rec.Fail("aliased", c, "%s", msg))
		}
	})

	// (R1) random deep values: pairs and triples, near neighbours, equal
	// values in other representations.
	rec.Rapid(t, "order", rec.Scale(100000, 1800000), func(t *rapid.T) {
		a := genVal(t, 3)
		next := func(label string, from ...any) any {
			src := from[rapid.IntRange(0, len(from)-1).Draw(t, label+"src")]
			switch rapid.IntRange(0, 3).Draw(t, label) {
			case 0:
				return genVal(t, 3)
			case 1:
				return variant(t, src)
			default:
				return mutate(t, src)
			}
		}
		b := next("b", a)
		cc := next("c", a, b)
		c := tripleCase{univ.V{X: a}, univ.V{X: b}, univ.V{X: cc}}
		if !inDomain(a) || !inDomain(b) || !inDomain(cc) {
			rec.Discard("generator-left-the-domain")
			t.Fatalf("%s", rec.Fail("order", c, "harness: generated value outside the precondition"))
		}
		rec.Eval()
		rec.Class("order/ab/" + classOfPair(a, b))
		same := 0
		for _, p := range [][2]any{{a, b}, {b, cc}, {a, cc}} {
			if rank(p[0]) == rank(p[1]) {
				same++
			}
		}
		if same > 0 {
			rec.NT("order/" + univ.Show(a) + "/" + univ.Show(b) + "/" + univ.Show(cc))
		}
		rec.Sample(c)
		if msg := checkTriple(c); msg != "" {
			t.Fatalf("%s", rec.Fail("order", c, "%s", msg))
		}
	})

	// (R2) the array consumers, one rapid property each
	arrSubs := []struct {
		sub string
		q   int
		th  int
		fns []string
	}{
		{"sort", 36000, 550000, []string{"sort"}},
		{"sort_by", 36000, 550000, []string{"sort_by", "sort_by", "sort_by2", "sort_byv"}},
		{"group_by", 30000, 450000, []string{"group_by", "group_by", "group_by2", "group_byv"}},
		{"unique", 24000, 350000, []string{"unique"}},
		{"unique_by", 24000, 350000, []string{"unique_by", "unique_by", "unique_byv"}},
		{"minmax", 36000, 450000, []string{"min", "max"}},
		{"minmax_by", 36000, 450000, []string{"min_by", "max_by", "min_by", "max_by", "min_byv", "max_byv"}},
		{"bsearch", 48000, 700000, []string{"bsearch"}},
		{"subtract", 30000, 450000, []string{"subtract"}},
		{"index", 48000, 700000, []string{"index", "rindex", "indices"}},
	}
	for _, s := range arrSubs {
		s := s
		rec.Rapid(t, s.sub, rec.Scale(s.q, s.th), func(t *rapid.T) {
			c := genArrCase(t, s.fns...)
			if !inDomain(c.Arr.X) || !inDomain(c.X.X) {
				t.Fatalf("%s", rec.Fail(s.sub, c, "harness: generated value outside the precondition"))
			}
			rec.Sample(c)
			if msg := doArr(s.sub, c); msg != "" {
				t.Fatalf("%s", rec.Fail(s.sub, c, "%s", msg))
			}
		})
	}

	// (R3) keys, object iteration, key order of the library encoder
	objProp := func(sub string, forms []string, top func(t *rapid.T) any) func(t *rapid.T) {
		return func(t *rapid.T) {
			c := objCase{Form: rapid.SampledFrom(forms).Draw(t, "form"), Val: univ.V{X: top(t)}}
			if !inDomain(c.Val.X) {
				t.Fatalf("%s", rec.Fail(sub, c, "harness: generated value outside the precondition"))
			}
			rec.Eval()
			if mk := maxKeys(c.Val.X); mk >= 2 {
				rec.NT(sub + "/" + c.Form + "/" + univ.Show(c.Val.X))
				rec.Class(sub + "/" + c.Form + "/object-with->=2-keys")
			} else {
				rec.Class(sub + "/" + c.Form + "/trivial")
			}
			rec.Sample(c)
			if msg := checkObj(c); msg != "" {
				t.Fatalf("%s", rec.Fail(sub, c, "%s", msg))
			}
		}
	}
	wideObj := func(t *rapid.T) any {
		if rapid.IntRange(0, 4).Draw(t, "wide") == 0 {
			return genObj(t, 2, 14)
		}
		return genObj(t, 3, 5)
	}
	anyTop := func(t *rapid.T) any {
		if rapid.IntRange(0, 3).Draw(t, "top") == 0 {
			return genVal(t, 3)
		}
		return wideObj(t)
	}
	rec.Rapid(t, "keys", rec.Scale(30000, 350000), objProp("keys", []string{"keys"}, wideObj))
	rec.Rapid(t, "iter", rec.Scale(90000, 1200000), objProp("iter", iterFormNames, anyTop))
	rec.Rapid(t, "text", rec.Scale(48000, 700000), objProp("text", textFormNames, anyTop))

	// (R4) the command's own encoder: batches of containers, key order of the
	// input text permuted
	flagSets := [][]string{{}, {"-c"}, {"--tab"}, {"--indent", "0"}, {"--indent", "7"}, {"-C"}, {"-C", "-c"}, {"-M", "-c"}, {"-s", "-c"}, {"-r"}, {"-s"}}
	rec.Rapid(t, "cli", rec.Scale(144, 2000), func(t *rapid.T) {
		c := cliCase{Flags: rapid.SampledFrom(flagSets).Draw(t, "flags"), Perm: rapid.IntRange(0, 1000).Draw(t, "perm")}
		nv := 60
		for i := 0; i < nv; i++ {
			var v any = wideObj(t)
			if rapid.IntRange(0, 5).Draw(t, "wrap") == 0 {
				v = []any{v, wideObj(t)}
			}
			c.Vals = append(c.Vals, univ.V{X: v})
		}
		rec.EvalN(int64(nv))
		for _, v := range c.Vals {
			if maxKeys(v.X) >= 2 {
				rec.NT("cli/" + strings.Join(c.Flags, " ") + "/" + univ.Show(v.X))
				rec.Class("cli/object-with->=2-keys")
			} else {
				rec.Class("cli/trivial")
			}
		}
		rec.Class("cli/flags/" + strings.Join(c.Flags, " "))
		if msg := checkCLI(c); msg != "" {
			t.Fatalf("%s", rec.Fail("cli", c, "%s", msg))
		}
	})

	// (R5) removed: --yaml-output key order.  The YAML writer delegates key
	// ordering to the YAML library ("natural" order); the property's claim is
	// about jq's own writers (encoder.go, cli/encoder.go), so the YAML order is
	// not asserted here (see DESIGN.md section 8).
}
