package c09

// An independent tokenizer for jq programs, written from jq's lexical rules
// (manual + lexer.l regexes), not from gojq's lexer.go.  It is the basis of
// (1) the reference parser, (2) the re-spacing relation ("two texts with the
// same token sequence") and (3) the structural class predicates.
//
// String literals are cut into fragments so that whitespace can be inserted
// inside interpolations:  "a\(  1 + 2  )b\(3)c"  is
//   s( `"a\(`   num 1   p +   num 2   )( `)b\(`   num 3   )s `)c"`
// It is deliberately conservative: whenever jq's regex lexer and a
// hand-written scanner could disagree (a number directly followed by an
// identifier character or a dot, NUL bytes, bytes >= 0x80 outside strings,
// unknown escapes) it refuses with an error and the case is not judged.

import (
	"errors"
	"fmt"
	"strings"
	"unicode/utf8"
)

type tok struct {
	K string `json:"k"` // id kw var idx num fmt str s( )( )s p
	S string `json:"s"` // exact source text
}

var kwSet = map[string]bool{
	"or": true, "and": true, "module": true, "import": true, "include": true, "def": true, "as": true,
	"label": true, "break": true, "null": true, "true": true, "false": true, "if": true, "then": true,
	"elif": true, "else": true, "end": true, "try": true, "catch": true, "reduce": true, "foreach": true,
}

var keywordList = []string{"or", "and", "module", "import", "include", "def", "as", "label", "break", "null", "true", "false",
	"if", "then", "elif", "else", "end", "try", "catch", "reduce", "foreach"}

func isIdStart(c byte) bool { return c == '_' || 'a' <= c && c <= 'z' || 'A' <= c && c <= 'Z' }
func isDigit(c byte) bool   { return '0' <= c && c <= '9' }
func isIdChar(c byte) bool  { return isIdStart(c) || isDigit(c) }
func isHexDigit(c byte) bool {
	return isDigit(c) || 'a' <= c && c <= 'f' || 'A' <= c && c <= 'F'
}

var errUntok = errors.New("untokenizable")

// multi-character operators, longest first
var multiOps = []string{"//=", "?//", "|=", "+=", "-=", "*=", "/=", "%=", "==", "!=", "<=", ">=", "//", ".."}

const singleOps = "|,+-*/%=<>()[]{}:;?."

// skipBlank skips whitespace and comments starting at i.  Comment rules as
// in the jq 1.7 manual (and pinned for gojq by cli/test.yaml "query with
// comment with newline..."): a comment runs to the end of the line; a
// backslash escapes a following backslash; an unescaped backslash directly
// before the line end (LF, CR LF or CR) continues the comment.
func skipBlank(src string, i int) int {
	for i < len(src) {
		switch c := src[i]; {
		case c == ' ' || c == '\t' || c == '\n' || c == '\r':
			i++
		case c == '#':
			i++
		comment:
			for i < len(src) {
				switch src[i] {
				case '\n', '\r':
					break comment
				case '\\':
					i++
					if i < len(src) {
						switch src[i] {
						case '\\', '\n':
							i++
						case '\r':
							i++
							if i < len(src) && src[i] == '\n' {
								i++
							}
						}
					}
				default:
					i++
				}
			}
		default:
			return i
		}
	}
	return i
}

// scanStrBody scans string content starting at i (just after the opening
// quote or after the ')' closing an interpolation).  It returns the index
// after the terminating quote (interp=false) or after `\(` (interp=true).
func scanStrBody(src string, i int) (end int, interp bool, err error) {
	for i < len(src) {
		switch src[i] {
		case '"':
			return i + 1, false, nil
		case '\\':
			if i+1 >= len(src) {
				return 0, false, errUntok
			}
			switch src[i+1] {
			case '"', '\\', '/', 'b', 'f', 'n', 'r', 't':
				i += 2
			case 'u':
				if i+6 > len(src) {
					return 0, false, errUntok
				}
				for j := 2; j < 6; j++ {
					if !isHexDigit(src[i+j]) {
						return 0, false, errUntok
					}
				}
				i += 6
			case '(':
				return i + 2, true, nil
			default:
				return 0, false, errUntok
			}
		default:
			i++
		}
	}
	return 0, false, errUntok
}

func scanIdent(src string, i int) int {
	for i < len(src) && isIdChar(src[i]) {
		i++
	}
	return i
}

// scanName scans IDENT or IDENT::IDENT (one level, which is what gojq
// supports; deeper nesting is refused).
func scanName(src string, i int) (int, error) {
	j := scanIdent(src, i)
	if j+2 < len(src) && src[j] == ':' && src[j+1] == ':' && isIdStart(src[j+2]) {
		j = scanIdent(src, j+2)
		if j+1 < len(src) && src[j] == ':' && src[j+1] == ':' {
			return 0, errUntok
		}
	}
	return j, nil
}

// scanNum implements ([0-9]+(\.[0-9]*)?|\.[0-9]+)([eE][+-]?[0-9]+)?
func scanNum(src string, i int) int {
	j := i
	for j < len(src) && isDigit(src[j]) {
		j++
	}
	if j < len(src) && src[j] == '.' {
		j++
		for j < len(src) && isDigit(src[j]) {
			j++
		}
	}
	if j < len(src) && (src[j] == 'e' || src[j] == 'E') {
		k := j + 1
		if k < len(src) && (src[k] == '+' || src[k] == '-') {
			k++
		}
		if k < len(src) && isDigit(src[k]) {
			for k < len(src) && isDigit(src[k]) {
				k++
			}
			j = k
		}
	}
	return j
}

func tokenize(src string) ([]tok, error) {
	var out []tok
	var stack []int // open-paren depth inside each enclosing interpolation
	i := 0
	for {
		i = skipBlank(src, i)
		if i >= len(src) {
			break
		}
		c := src[i]
		switch {
		case c == '"':
			end, interp, err := scanStrBody(src, i+1)
			if err != nil {
				return nil, err
			}
			if interp {
				out = append(out, tok{"s(", src[i:end]})
				stack = append(stack, 0)
			} else {
				out = append(out, tok{"str", src[i:end]})
			}
			i = end
		case isIdStart(c):
			j, err := scanName(src, i)
			if err != nil {
				return nil, err
			}
			s := src[i:j]
			if kwSet[s] {
				out = append(out, tok{"kw", s})
			} else {
				out = append(out, tok{"id", s})
			}
			i = j
		case isDigit(c) || c == '.' && i+1 < len(src) && isDigit(src[i+1]):
			j := scanNum(src, i)
			if j < len(src) && (isIdStart(src[j]) || src[j] == '.') {
				return nil, errUntok // jq's regex lexer and scanners differ here
			}
			out = append(out, tok{"num", src[i:j]})
			i = j
		case c == '.' && i+1 < len(src) && isIdStart(src[i+1]):
			j := scanIdent(src, i+1)
			out = append(out, tok{"idx", src[i:j]})
			i = j
		case c == '$':
			if i+1 >= len(src) || !isIdStart(src[i+1]) {
				return nil, errUntok
			}
			j, err := scanName(src, i+1)
			if err != nil {
				return nil, err
			}
			out = append(out, tok{"var", src[i:j]})
			i = j
		case c == '@':
			if i+1 >= len(src) || !isIdChar(src[i+1]) {
				return nil, errUntok
			}
			j := scanIdent(src, i+1)
			out = append(out, tok{"fmt", src[i:j]})
			i = j
		default:
			matched := false
			for _, op := range multiOps {
				if strings.HasPrefix(src[i:], op) {
					out = append(out, tok{"p", op})
					i += len(op)
					matched = true
					break
				}
			}
			if matched {
				break
			}
			if strings.IndexByte(singleOps, c) < 0 {
				return nil, errUntok
			}
			if c == '(' && len(stack) > 0 {
				stack[len(stack)-1]++
			}
			if c == ')' && len(stack) > 0 {
				if stack[len(stack)-1] == 0 {
					end, interp, err := scanStrBody(src, i+1)
					if err != nil {
						return nil, err
					}
					if interp {
						out = append(out, tok{")(", src[i:end]})
					} else {
						out = append(out, tok{")s", src[i:end]})
						stack = stack[:len(stack)-1]
					}
					i = end
					break
				}
				stack[len(stack)-1]--
			}
			out = append(out, tok{"p", string(c)})
			i++
		}
	}
	if len(stack) > 0 {
		return nil, errUntok
	}
	return out, nil
}

func sameToks(a, b []tok) bool {
	if len(a) != len(b) {
		return false
	}
	for i := range a {
		if a[i] != b[i] {
			return false
		}
	}
	return true
}

func joinToks(ts []tok, sep string) string {
	var sb strings.Builder
	for i, t := range ts {
		if i > 0 {
			sb.WriteString(sep)
		}
		sb.WriteString(t.S)
	}
	return sb.String()
}

// strInner returns the raw text between the delimiters of a string token or
// fragment.
func strInner(t tok) string {
	switch t.K {
	case "str":
		return t.S[1 : len(t.S)-1]
	case "s(":
		return t.S[1 : len(t.S)-2]
	case ")(":
		return t.S[1 : len(t.S)-2]
	case ")s":
		return t.S[1 : len(t.S)-1]
	}
	return ""
}

// decodeStr decodes the escapes of a raw string body (JSON string rules).
// exact is false when the body contains something whose decoded value the
// property does not state (unpaired surrogate escapes, invalid UTF-8).
func decodeStr(raw string) (val string, exact bool) {
	var sb strings.Builder
	exact = true
	hex := func(s string) rune {
		var r rune
		for i := 0; i < len(s); i++ {
			c := s[i]
			switch {
			case isDigit(c):
				r = r<<4 | rune(c-'0')
			case c >= 'a':
				r = r<<4 | rune(c-'a'+10)
			default:
				r = r<<4 | rune(c-'A'+10)
			}
		}
		return r
	}
	for i := 0; i < len(raw); {
		c := raw[i]
		if c != '\\' {
			if c < utf8.RuneSelf {
				sb.WriteByte(c)
				i++
				continue
			}
			r, n := utf8.DecodeRuneInString(raw[i:])
			if r == utf8.RuneError && n == 1 {
				exact = false
			}
			sb.WriteRune(r)
			i += n
			continue
		}
		switch raw[i+1] {
		case '"':
			sb.WriteByte('"')
		case '\\':
			sb.WriteByte('\\')
		case '/':
			sb.WriteByte('/')
		case 'b':
			sb.WriteByte('\b')
		case 'f':
			sb.WriteByte('\f')
		case 'n':
			sb.WriteByte('\n')
		case 'r':
			sb.WriteByte('\r')
		case 't':
			sb.WriteByte('\t')
		case 'u':
			r := hex(raw[i+2 : i+6])
			i += 6
			if 0xD800 <= r && r < 0xDC00 && i+6 <= len(raw) && raw[i] == '\\' && raw[i+1] == 'u' {
				if r2 := hex(raw[i+2 : i+6]); 0xDC00 <= r2 && r2 < 0xE000 {
					sb.WriteRune(0x10000 + (r-0xD800)<<10 + (r2 - 0xDC00))
					i += 6
					continue
				}
			}
			if 0xD800 <= r && r < 0xE000 {
				exact = false
				r = utf8.RuneError
			}
			sb.WriteRune(r)
			continue
		}
		i += 2
	}
	return sb.String(), exact
}

func (t tok) String() string { return fmt.Sprintf("%s:%s", t.K, t.S) }
