package c09

// Walk over gojq's exported AST types producing the same canonical shape as
// the reference parser.  It is strict: a node with fields populated that do
// not belong to its type yields a "!bad" marker, so it can never equal a
// reference shape.

import (
	"strconv"
	"strings"

	"github.com/itchyny/gojq"
)

func bad(what string) string { return "!bad(" + what + ")" }

func opText(op gojq.Operator) string {
	switch op {
	case gojq.OpPipe:
		return "|"
	case gojq.OpComma:
		return ","
	case gojq.OpAdd:
		return "+"
	case gojq.OpSub:
		return "-"
	case gojq.OpMul:
		return "*"
	case gojq.OpDiv:
		return "/"
	case gojq.OpMod:
		return "%"
	case gojq.OpEq:
		return "=="
	case gojq.OpNe:
		return "!="
	case gojq.OpGt:
		return ">"
	case gojq.OpLt:
		return "<"
	case gojq.OpGe:
		return ">="
	case gojq.OpLe:
		return "<="
	case gojq.OpAnd:
		return "and"
	case gojq.OpOr:
		return "or"
	case gojq.OpAlt:
		return "//"
	case gojq.OpAssign:
		return "="
	case gojq.OpModify:
		return "|="
	case gojq.OpUpdateAdd:
		return "+="
	case gojq.OpUpdateSub:
		return "-="
	case gojq.OpUpdateMul:
		return "*="
	case gojq.OpUpdateDiv:
		return "/="
	case gojq.OpUpdateMod:
		return "%="
	case gojq.OpUpdateAlt:
		return "//="
	}
	return bad("op" + strconv.Itoa(int(op)))
}

func walkProgram(q *gojq.Query) string {
	if q == nil {
		return bad("nil program")
	}
	body := walkQueryNoHeader(q, true)
	if q.Meta == nil && q.Imports == nil {
		return body
	}
	meta := "_"
	if q.Meta != nil {
		meta = walkConstObject(q.Meta)
	}
	var ims []string
	for _, im := range q.Imports {
		if im == nil {
			ims = append(ims, bad("nil import"))
			continue
		}
		m := "_"
		if im.Meta != nil {
			m = walkConstObject(im.Meta)
		}
		switch {
		case im.ImportAlias != "" && im.IncludePath == "":
			ims = append(ims, "(import "+strconv.Quote(im.ImportPath)+" "+im.ImportAlias+" "+m+")")
		case im.ImportAlias == "" && im.ImportPath == "":
			ims = append(ims, "(include "+strconv.Quote(im.IncludePath)+" "+m+")")
		default:
			ims = append(ims, bad("import"))
		}
	}
	return "(prog " + meta + " [" + strings.Join(ims, " ") + "] " + body + ")"
}

func walkQuery(q *gojq.Query) string {
	if q == nil {
		return bad("nil query")
	}
	if q.Meta != nil || q.Imports != nil {
		return bad("header inside")
	}
	return walkQueryNoHeader(q, false)
}

func walkQueryNoHeader(q *gojq.Query, top bool) string {
	var core string
	switch {
	case q.Term != nil:
		if q.Left != nil || q.Right != nil || q.Patterns != nil || q.Op != 0 {
			return bad("term query with operator fields")
		}
		core = walkTerm(q.Term)
	case q.Left != nil && q.Right != nil:
		l, r := walkQuery(q.Left), walkQuery(q.Right)
		if q.Patterns != nil {
			if q.Op != gojq.OpPipe || len(q.Patterns) == 0 {
				return bad("patterns")
			}
			ps := make([]string, len(q.Patterns))
			for i, p := range q.Patterns {
				ps[i] = walkPattern(p)
			}
			core = "(as " + l + " [" + strings.Join(ps, " ") + "] " + r + ")"
		} else {
			core = "(" + opText(q.Op) + " " + l + " " + r + ")"
		}
	case q.Left == nil && q.Right == nil && q.Op == 0 && q.Patterns == nil && top:
		core = "_"
	default:
		return bad("query")
	}
	if len(q.FuncDefs) == 0 {
		if q.FuncDefs != nil && !top {
			return bad("empty funcdefs")
		}
		return core
	}
	fds := make([]string, len(q.FuncDefs))
	for i, fd := range q.FuncDefs {
		if fd == nil || fd.Body == nil {
			fds[i] = bad("funcdef")
			continue
		}
		fds[i] = "(fn " + fd.Name + " [" + strings.Join(fd.Args, " ") + "] " + walkQuery(fd.Body) + ")"
	}
	return "(def [" + strings.Join(fds, " ") + "] " + core + ")"
}

func walkPattern(p *gojq.Pattern) string {
	if p == nil {
		return bad("nil pattern")
	}
	n := 0
	if p.Name != "" {
		n++
	}
	if p.Array != nil {
		n++
	}
	if p.Object != nil {
		n++
	}
	if n != 1 {
		return bad("pattern")
	}
	switch {
	case p.Name != "":
		return "(pv " + p.Name + ")"
	case p.Array != nil:
		ps := make([]string, len(p.Array))
		for i, e := range p.Array {
			ps[i] = walkPattern(e)
		}
		return "(pa " + strings.Join(ps, " ") + ")"
	default:
		ps := make([]string, len(p.Object))
		for i, e := range p.Object {
			if e == nil {
				ps[i] = bad("nil")
				continue
			}
			k := walkKey(e.Key, e.KeyString, e.KeyQuery)
			v := "_"
			if e.Val != nil {
				v = walkPattern(e.Val)
			}
			ps[i] = "(pk " + k + " " + v + ")"
		}
		return "(po " + strings.Join(ps, " ") + ")"
	}
}

func walkKey(key string, ks *gojq.String, kq *gojq.Query) string {
	n := 0
	if key != "" {
		n++
	}
	if ks != nil {
		n++
	}
	if kq != nil {
		n++
	}
	if n != 1 {
		return bad("key")
	}
	switch {
	case key != "":
		return "(k " + key + ")"
	case ks != nil:
		return "(ks " + walkString(ks) + ")"
	default:
		return "(kq " + walkQuery(kq) + ")"
	}
}

func walkString(s *gojq.String) string {
	if s == nil {
		return bad("nil string")
	}
	if s.Queries == nil {
		return "(s " + strconv.Quote(s.Str) + ")"
	}
	if s.Str != "" || len(s.Queries) == 0 {
		return bad("string")
	}
	parts := make([]string, len(s.Queries))
	for i, q := range s.Queries {
		if q == nil || q.Term == nil || !(q.Term.Type == gojq.TermTypeString && q.Term.Str != nil && q.Term.Str.Queries == nil && q.Term.Str.Str != "" ||
			q.Term.Type == gojq.TermTypeQuery) || len(q.Term.SuffixList) != 0 {
			parts[i] = bad("string part")
			continue
		}
		parts[i] = walkQuery(q)
	}
	return "(is " + strings.Join(parts, " ") + ")"
}

func walkIndex(x *gojq.Index) string {
	if x == nil {
		return bad("nil index")
	}
	switch {
	case x.Name != "":
		if x.Str != nil || x.Start != nil || x.End != nil || x.IsSlice {
			return bad("index name")
		}
		return "(i.name " + x.Name + ")"
	case x.Str != nil:
		if x.Start != nil || x.End != nil || x.IsSlice {
			return bad("index str")
		}
		return "(i.str " + walkString(x.Str) + ")"
	case x.IsSlice:
		s, e := "_", "_"
		if x.Start != nil {
			s = walkQuery(x.Start)
		}
		if x.End != nil {
			e = walkQuery(x.End)
		}
		if x.Start == nil && x.End == nil {
			return bad("slice")
		}
		return "(i.slice " + s + " " + e + ")"
	default:
		if x.Start == nil || x.End != nil {
			return bad("index")
		}
		return "(i.at " + walkQuery(x.Start) + ")"
	}
}

func walkSuffix(s *gojq.Suffix) string {
	if s == nil {
		return bad("nil suffix")
	}
	n := 0
	if s.Index != nil {
		n++
	}
	if s.Iter {
		n++
	}
	if s.Optional {
		n++
	}
	if n != 1 {
		return bad("suffix")
	}
	switch {
	case s.Index != nil:
		return walkIndex(s.Index)
	case s.Iter:
		return "iter"
	default:
		return "opt"
	}
}

func walkTerm(t *gojq.Term) string {
	if t == nil {
		return bad("nil term")
	}
	// exactly the fields of the term type may be set
	set := map[string]bool{}
	mark := func(name string, on bool) {
		if on {
			set[name] = true
		}
	}
	mark("Index", t.Index != nil)
	mark("Func", t.Func != nil)
	mark("Object", t.Object != nil)
	mark("Array", t.Array != nil)
	mark("Number", t.Number != "")
	mark("Unary", t.Unary != nil)
	mark("Format", t.Format != "")
	mark("Str", t.Str != nil)
	mark("If", t.If != nil)
	mark("Try", t.Try != nil)
	mark("Reduce", t.Reduce != nil)
	mark("Foreach", t.Foreach != nil)
	mark("Label", t.Label != nil)
	mark("Break", t.Break != "")
	mark("Query", t.Query != nil)
	only := func(names ...string) bool {
		if len(set) != len(names) {
			return false
		}
		for _, n := range names {
			if !set[n] {
				return false
			}
		}
		return true
	}
	var base string
	switch t.Type {
	case gojq.TermTypeIdentity:
		base = "id"
		if !only() {
			base = bad("identity")
		}
	case gojq.TermTypeRecurse:
		base = "rec"
		if !only() {
			base = bad("recurse")
		}
	case gojq.TermTypeNull:
		base = "null"
		if !only() {
			base = bad("null")
		}
	case gojq.TermTypeTrue:
		base = "true"
		if !only() {
			base = bad("true")
		}
	case gojq.TermTypeFalse:
		base = "false"
		if !only() {
			base = bad("false")
		}
	case gojq.TermTypeIndex:
		if !only("Index") {
			base = bad("index term")
		} else {
			base = "(index " + walkIndex(t.Index) + ")"
		}
	case gojq.TermTypeFunc:
		if !only("Func") {
			base = bad("func term")
		} else {
			base = "(call " + t.Func.Name
			for _, a := range t.Func.Args {
				base += " " + walkQuery(a)
			}
			base += ")"
			if t.Func.Args != nil && len(t.Func.Args) == 0 {
				base = bad("empty args")
			}
		}
	case gojq.TermTypeObject:
		if !only("Object") {
			base = bad("object term")
		} else {
			base = "(obj"
			for _, kv := range t.Object.KeyVals {
				if kv == nil {
					base += " " + bad("nil kv")
					continue
				}
				v := "_"
				if kv.Val != nil {
					v = walkQuery(kv.Val)
				}
				base += " (kv " + walkKey(kv.Key, kv.KeyString, kv.KeyQuery) + " " + v + ")"
			}
			base += ")"
		}
	case gojq.TermTypeArray:
		if !only("Array") {
			base = bad("array term")
		} else if t.Array.Query == nil {
			base = "(arr _)"
		} else {
			base = "(arr " + walkQuery(t.Array.Query) + ")"
		}
	case gojq.TermTypeNumber:
		if !only("Number") {
			base = bad("number term")
		} else {
			base = "(num " + t.Number + ")"
		}
	case gojq.TermTypeUnary:
		if !only("Unary") || t.Unary.Term == nil {
			base = bad("unary term")
		} else {
			switch t.Unary.Op {
			case gojq.OpSub:
				base = "(neg " + walkTerm(t.Unary.Term) + ")"
			case gojq.OpAdd:
				base = "(pos " + walkTerm(t.Unary.Term) + ")"
			default:
				base = bad("unary op")
			}
		}
	case gojq.TermTypeFormat:
		switch {
		case only("Format"):
			base = "(fmt " + t.Format + " _)"
		case only("Format", "Str"):
			base = "(fmt " + t.Format + " " + walkString(t.Str) + ")"
		default:
			base = bad("format term")
		}
	case gojq.TermTypeString:
		if !only("Str") {
			base = bad("string term")
		} else {
			base = walkString(t.Str)
		}
	case gojq.TermTypeIf:
		if !only("If") || t.If.Cond == nil || t.If.Then == nil {
			base = bad("if term")
		} else {
			base = "(if " + walkQuery(t.If.Cond) + " " + walkQuery(t.If.Then)
			for _, e := range t.If.Elif {
				if e == nil || e.Cond == nil || e.Then == nil {
					base += " " + bad("elif")
					continue
				}
				base += " (elif " + walkQuery(e.Cond) + " " + walkQuery(e.Then) + ")"
			}
			if t.If.Else != nil {
				base += " " + walkQuery(t.If.Else)
			} else {
				base += " _"
			}
			base += ")"
		}
	case gojq.TermTypeTry:
		if !only("Try") || t.Try.Body == nil {
			base = bad("try term")
		} else {
			// body and handler are queries wrapping exactly one term
			part := func(q *gojq.Query) string {
				if q.Term == nil || q.FuncDefs != nil {
					return bad("try part " + walkQuery(q))
				}
				return walkQuery(q)
			}
			c := "_"
			if t.Try.Catch != nil {
				c = part(t.Try.Catch)
			}
			base = "(try " + part(t.Try.Body) + " " + c + ")"
		}
	case gojq.TermTypeReduce:
		if r := t.Reduce; !only("Reduce") || r.Query == nil || r.Pattern == nil || r.Start == nil || r.Update == nil {
			base = bad("reduce term")
		} else {
			base = "(reduce " + walkQuery(r.Query) + " " + walkPattern(r.Pattern) + " " + walkQuery(r.Start) + " " + walkQuery(r.Update) + ")"
		}
	case gojq.TermTypeForeach:
		if r := t.Foreach; !only("Foreach") || r.Query == nil || r.Pattern == nil || r.Start == nil || r.Update == nil {
			base = bad("foreach term")
		} else {
			e := "_"
			if r.Extract != nil {
				e = walkQuery(r.Extract)
			}
			base = "(foreach " + walkQuery(r.Query) + " " + walkPattern(r.Pattern) + " " + walkQuery(r.Start) + " " + walkQuery(r.Update) + " " + e + ")"
		}
	case gojq.TermTypeLabel:
		if !only("Label") || t.Label.Body == nil || len(t.SuffixList) != 0 {
			base = bad("label term")
		} else {
			base = "(label " + t.Label.Ident + " " + walkQuery(t.Label.Body) + ")"
		}
	case gojq.TermTypeBreak:
		if !only("Break") {
			base = bad("break term")
		} else {
			base = "(break " + t.Break + ")"
		}
	case gojq.TermTypeQuery:
		if !only("Query") {
			base = bad("paren term")
		} else {
			base = "(p " + walkQuery(t.Query) + ")"
		}
	default:
		base = bad("term type " + strconv.Itoa(int(t.Type)))
	}
	if len(t.SuffixList) == 0 {
		if t.SuffixList != nil {
			return bad("empty suffix list")
		}
		return base
	}
	ss := make([]string, len(t.SuffixList))
	for i, s := range t.SuffixList {
		ss[i] = walkSuffix(s)
	}
	return "(sfx " + base + " " + strings.Join(ss, " ") + ")"
}

func walkConstObject(o *gojq.ConstObject) string {
	if o == nil {
		return bad("nil const object")
	}
	if len(o.KeyVals) == 0 {
		return "(cobj)"
	}
	s := "(cobj"
	for _, kv := range o.KeyVals {
		if kv == nil || kv.Val == nil || kv.Key != "" && kv.KeyString != "" {
			s += " " + bad("const kv")
			continue
		}
		k := "(ks " + strconv.Quote(kv.KeyString) + ")"
		if kv.Key != "" {
			k = "(k " + kv.Key + ")"
		}
		s += " (kv " + k + " " + walkConstTerm(kv.Val) + ")"
	}
	return s + ")"
}

func walkConstTerm(c *gojq.ConstTerm) string {
	n := 0
	for _, b := range []bool{c.Object != nil, c.Array != nil, c.Number != "", c.Str != "", c.Null, c.True, c.False} {
		if b {
			n++
		}
	}
	if n > 1 {
		return bad("const term")
	}
	switch {
	case c.Object != nil:
		return walkConstObject(c.Object)
	case c.Array != nil:
		if len(c.Array.Elems) == 0 {
			return "(carr)"
		}
		s := "(carr"
		for _, e := range c.Array.Elems {
			if e == nil {
				s += " " + bad("nil")
				continue
			}
			s += " " + walkConstTerm(e)
		}
		return s + ")"
	case c.Number != "":
		return "(num " + c.Number + ")"
	case c.Null:
		return "null"
	case c.True:
		return "true"
	case c.False:
		return "false"
	default:
		return "(s " + strconv.Quote(c.Str) + ")"
	}
}
