// C09 — parsing follows jq's grammar and String() round-trips.
//
// Three independent oracles, each on source text:
//
//	shape      tokenize (own tokenizer, tok_test.go) -> reference parser with
//	           jq's documented operator table (ref_test.go) -> canonical shape,
//	           compared with a strict walk over gojq's AST (walk_test.go);
//	           chains of non-associative operators must be rejected.
//	roundtrip  Parse(q.String()) succeeds and reflect.DeepEqual(q, q2).
//	respace    two texts with the same token sequence (own tokenizer) are both
//	           rejected or parse to deeply equal ASTs.
//
// Inputs: exhaustive operator pairs/triples (quadruples in thorough) around
// atoms, operator pairs inside every delimiting form, the grid of term forms
// x suffix forms, generated surface-grammar token streams (gen_test.go) with
// token-level mutations, and the repository corpus (cli/test.yaml args,
// builtin.jq, cli/testdata modules).
package c09

import (
	"encoding/json"
	"fmt"
	"os"
	"path/filepath"
	"reflect"
	"sort"
	"strings"
	"testing"

	"github.com/itchyny/go-yaml"
	"github.com/itchyny/gojq"
	"pgregory.net/rapid"

	"verif/internal/evid"
)

var rec *evid.Rec

const (
	clsDotBracket  = "C09/identity-dot-bracket"
	clsEmptyImport = "C09/empty-import-path"
	clsNul         = "C09/nul-byte"
)

type srcCase struct {
	Src string `json:"src"`
}

type spaceCase struct {
	A string `json:"a"`
	B string `json:"b"`
}

// ---------------------------------------------------------------------------
// structural class predicates (about the case, never about the outcome)

func isP(t tok, s string) bool { return t.K == "p" && t.S == s }

// `. .[e]` / `. .[a:b]`: the identity term followed by a dotted bracket suffix.
func hasIdentityDotBracket(ts []tok) bool {
	for i := 0; i+3 < len(ts); i++ {
		if isP(ts[i], ".") && isP(ts[i+1], ".") && isP(ts[i+2], "[") && !isP(ts[i+3], "]") {
			return true
		}
	}
	return false
}

func hasEmptyImport(ts []tok) bool {
	for i := 0; i+1 < len(ts); i++ {
		if ts[i].K == "kw" && ts[i].S == "import" && ts[i+1].K == "str" && ts[i+1].S == `""` {
			return true
		}
	}
	return false
}

// a NUL byte outside string literals (in a comment or between tokens)
func hasNulOutsideStrings(src string) bool {
	n := strings.Count(src, "\x00")
	if n == 0 {
		return false
	}
	ts, err := tokenize(src)
	if err != nil {
		return true
	}
	for _, t := range ts {
		n -= strings.Count(t.S, "\x00")
	}
	return n > 0
}

// ---------------------------------------------------------------------------
// oracles

func parse(src string) (q *gojq.Query, err error) {
	return gojq.Parse(src)
}

// checkShape returns (violation message, outcome class, shape of gojq's AST
// when it accepted).
func checkShape(c srcCase) (msg string, cls string, got string) {
	ts, err := tokenize(c.Src)
	if err != nil {
		return "", "untokenizable", ""
	}
	want, asBin, rerr := refParse(ts)
	q, perr := parse(c.Src)
	switch {
	case rerr == errNonAssoc:
		if perr == nil {
			return fmt.Sprintf("accepted a chain of non-associative operators: %q parsed as %s", c.Src, walkProgram(q)), "nonassoc", ""
		}
		return "", "nonassoc", ""
	case rerr != nil:
		if rerr == errInexact {
			return "", "unjudged/inexact-string", ""
		}
		return "", "unjudged/reference-rejects", ""
	}
	cls = "accepted"
	if asBin {
		cls = "accepted/as-after-binop"
	}
	if perr != nil {
		return fmt.Sprintf("rejected %q (%v); by the grammar it is %s", c.Src, perr, want), cls, ""
	}
	got = walkProgram(q)
	if msg := overlongShape(c.Src, got); msg != "" {
		return msg, cls, ""
	}
	if got != want {
		return fmt.Sprintf("%q parsed as %s ; by jq's precedence table it is %s", c.Src, got, want), cls, got
	}
	return "", cls, got
}

func checkRoundTrip(c srcCase) (string, string, *gojq.Query) {
	q, err := parse(c.Src)
	if err != nil {
		return "", "rejected", nil
	}
	s := q.String()
	if msg := overlong(c.Src, s); msg != "" {
		return msg, "accepted", nil
	}
	q2, err := parse(s)
	if err != nil {
		return fmt.Sprintf("%q prints as %q which does not parse: %v", c.Src, s, err), "accepted", q
	}
	if !reflect.DeepEqual(q, q2) {
		return fmt.Sprintf("%q prints as %q which parses to a different AST: %s vs %s", c.Src, s, walkProgram(q), walkProgram(q2)), "accepted", q
	}
	return "", "accepted", q
}

func checkSpace(c spaceCase) (string, string, *gojq.Query) {
	ta, ea := tokenize(c.A)
	tb, eb := tokenize(c.B)
	if ea != nil || eb != nil || !sameToks(ta, tb) {
		return "", "bad-case", nil
	}
	qa, erra := parse(c.A)
	qb, errb := parse(c.B)
	switch {
	case erra != nil && errb != nil:
		return "", "both-rejected", nil
	case erra != nil:
		return fmt.Sprintf("same tokens, different spacing: %q is rejected (%v) but %q is accepted", c.A, erra, c.B), "differ", nil
	case errb != nil:
		return fmt.Sprintf("same tokens, different spacing: %q is accepted but %q is rejected (%v)", c.A, c.B, errb), "differ", nil
	}
	if !reflect.DeepEqual(qa, qb) {
		return fmt.Sprintf("same tokens, different spacing, different ASTs: %q -> %s ; %q -> %s", c.A, walkProgram(qa), c.B, walkProgram(qb)), "accepted", qa
	}
	return "", "accepted", qa
}

// known-finding filters: true = do not judge this case
func skipRoundTrip(src string) bool {
	if !rec.KnownClass(clsDotBracket) && !rec.KnownClass(clsEmptyImport) {
		return false
	}
	ts, err := tokenize(src)
	if err != nil {
		return false
	}
	if rec.KnownClass(clsDotBracket) && hasIdentityDotBracket(ts) {
		rec.Excluded(clsDotBracket)
		return true
	}
	if rec.KnownClass(clsEmptyImport) && hasEmptyImport(ts) {
		rec.Excluded(clsEmptyImport)
		return true
	}
	return false
}

func skipSpace(c spaceCase) bool {
	if rec.KnownClass(clsNul) && (hasNulOutsideStrings(c.A) || hasNulOutsideStrings(c.B)) {
		rec.Excluded(clsNul)
		return true
	}
	return false
}

// ---------------------------------------------------------------------------
// evidence helpers

// nontrivial: accepted program with >= 2 binary operators or >= 1 suffix,
// interpolation or pattern (judged on the AST gojq built).
func nontrivial(sh string) bool {
	if sh == "" {
		return false
	}
	if strings.Contains(sh, "(sfx ") || strings.Contains(sh, "(is ") || strings.Contains(sh, "(pv ") {
		return true
	}
	n := 0
	for _, op := range binOps {
		n += strings.Count(sh, "("+op+" ")
	}
	return n+strings.Count(sh, "(as ") >= 2
}

func noteNT(ts []tok, shape string) {
	if nontrivial(shape) {
		rec.NT(joinToks(ts, " "))
	}
}

func noteNTq(ts []tok, q *gojq.Query) {
	if q != nil {
		noteNT(ts, walkProgram(q))
	}
}

func featureClasses(ts []tok) {
	seen := map[string]bool{}
	for i, t := range ts {
		switch {
		case t.K == "s(":
			seen["feat/interpolation"] = true
		case t.K == "kw" && (t.S == "as" || t.S == "def" || t.S == "label" || t.S == "reduce" || t.S == "foreach" || t.S == "if" || t.S == "try" || t.S == "module" || t.S == "import" || t.S == "include"):
			seen["feat/"+t.S] = true
		case isP(t, "?//"):
			seen["feat/?//"] = true
		case t.K == "fmt":
			seen["feat/format"] = true
		case t.K == "idx" && i > 0 && (isP(ts[i-1], ".") || isP(ts[i-1], "..") || ts[i-1].K == "num"):
			seen["feat/index-after-dot-or-number"] = true
		case isP(t, "?") && i+1 < len(ts) && (isP(ts[i+1], "//") || isP(ts[i+1], "//=")):
			seen["feat/optional-before-alt"] = true
		case (isP(t, "-") || isP(t, "+")) && i > 0 && (ts[i-1].K == "p" && strings.Contains("+-*/%=<>|,", ts[i-1].S[len(ts[i-1].S)-1:])):
			seen["feat/sign-after-operator"] = true
		}
	}
	keys := make([]string, 0, len(seen))
	for k := range seen {
		keys = append(keys, k)
	}
	sort.Strings(keys)
	for _, k := range keys {
		rec.Class(k)
	}
}

// dense renders ts with no whitespace wherever that provably keeps the token
// sequence; ok=false if that could not be verified.
func dense(ts []tok) (string, bool) {
	var sb strings.Builder
	for i, t := range ts {
		if i > 0 && !glueSafe(ts[i-1], t) {
			sb.WriteByte(' ')
		}
		sb.WriteString(t.S)
	}
	if got, err := tokenize(sb.String()); err == nil && sameToks(got, ts) {
		return sb.String(), true
	}
	return "", false
}

// direct records a violation found by an enumeration; at most 25 per shard
// (a broken lexer or grammar fails thousands of enumerated cases).
func direct(sub string, c any, format string, args ...any) {
	if rec.Violations() < 25 {
		rec.Direct(sub, c, format, args...)
	}
}

// all three oracles on one fixed token list (enumerations)
func directAll(sub string, ts []tok) {
	src := joinToks(ts, " ")
	if got, err := tokenize(src); err != nil || !sameToks(got, ts) {
		direct(sub, srcCase{src}, "harness: the tokenizer does not reproduce the token list of %q", src)
		return
	}
	rec.Eval()
	msg, cls, got := checkShape(srcCase{src})
	rec.Class(sub + "/shape/" + cls)
	noteNT(ts, got)
	if msg != "" {
		direct("shape", srcCase{src}, "%s", msg)
	}
	if !skipRoundTrip(src) {
		if msg, _, _ := checkRoundTrip(srcCase{src}); msg != "" {
			direct("roundtrip", srcCase{src}, "%s", msg)
		}
	}
	if d, ok := dense(ts); ok && d != src {
		c := spaceCase{src, d}
		if msg, _, _ := checkSpace(c); msg != "" {
			direct("respace", c, "%s", msg)
		}
	}
}

func mustTok(src string) []tok {
	ts, err := tokenize(src)
	if err != nil {
		panic("harness: cannot tokenize " + src)
	}
	return ts
}

func opTok(op string) tok {
	if op == "and" || op == "or" {
		return tok{"kw", op}
	}
	return tok{"p", op}
}

// ---------------------------------------------------------------------------
// corpus

func loadCorpus(t *testing.T) []string {
	repo := os.Getenv("VERIF_REPO")
	if repo == "" {
		repo = "/repo"
	}
	seen := map[string]bool{}
	var out []string
	add := func(s string) {
		if !seen[s] {
			seen[s] = true
			out = append(out, s)
		}
	}
	f, err := os.Open(filepath.Join(repo, "cli", "test.yaml"))
	if err != nil {
		t.Fatalf("corpus: %v", err)
	}
	defer f.Close()
	var tcs []struct {
		Args []string
	}
	if err := yaml.NewDecoder(f).Decode(&tcs); err != nil {
		t.Fatalf("corpus: %v", err)
	}
	for _, tc := range tcs {
		for _, a := range tc.Args {
			add(a)
		}
	}
	files, _ := filepath.Glob(filepath.Join(repo, "cli", "testdata", "*.jq"))
	more, _ := filepath.Glob(filepath.Join(repo, "cli", "testdata", "*", "*.jq"))
	files = append(append(files, more...), filepath.Join(repo, "builtin.jq"))
	sort.Strings(files)
	for _, fn := range files {
		if b, err := os.ReadFile(fn); err == nil {
			add(string(b))
		}
	}
	// hand-written seeds: forms the generator reaches rarely
	for _, s := range []string{
		`import "a" as b; import "c" as $d {x: 1}; include "e" {}; def f: 1; f`,
		`module {a: [1, "s", null, true, false, {}], "b": {c: .5}, if: 1}; def f: .; def g(a; $b): a | $b;`,
		`. as [$a, {b: $c, $d, "e": [$f], (1 | tostring): $g, "h\(1)": $i, $j: {k: $l}}] ?// {a: $a} ?// $a | [$a, $c, $d]`,
		`"a\("b\("c\(1 + 2)d" | ascii_downcase)e")f\(.x)"`, `@base64 "x\(.a)y" | @json "\(.)"`,
		`try error("x") catch . | try (1/0) | try -1 catch -2`, `try try 1 catch 2 catch 3`,
		`reduce range(10) as [$i, $j] (0; . + $i) | foreach .[] as {a: $x} (0; . + $x; [., $x])`,
		`if . then 1 elif .a then 2 elif .b then 3 else 4 end | if . then . end`,
		`label $out | foreach .[] as $x (0; . + $x; if . > 3 then ., break $out else . end)`,
		`.. | .a?, .["b"]?, .[1:2]?, .[]?, ."c"?, .d.e.f?, .g[0][1:][:2]`,
		`. .a . "b" . [0] .[1:2] .[]`, `.. .a`, `1 .a`, `1. .a`, `.5 .a`, `1e3 .a`, `1 ."a"`, `.a ? // 1`, `.a? //= 1`, `- 1`, `- .a`, `-- 1`, `1 - -1`, `1 - - 1`,
		`{a, $b, "c", "d\(1)", (1): 2, if: 3, $e: 4, "f": 5 | 6, g: -1, @base64: 1}`, `{a: 1,}`, `{"a\u0000\ud800"}`,
		`.a = 1 | .b |= 2 | .c += 3 | .d -= 4 | .e *= 5 | .f /= 6 | .g %= 7 | .h //= 8`,
		`1 as $x | 2 as $y | $x + $y, $x - $y | . * 2`, `1 + 2 as $x | -$x`, `true // 1 as $x | [$x]`, `[-1 as $x | 1, $x]`,
		`def f: def g: 1; g; def h(a): a; f, h(2) | def i: 3; i`, `$__loc__, $ENV.PATH, $__prog_args, m::f, $m::v, m::f(1; 2)`,
		"1 # c \\\n + 2\n+ 3", "1, # \r2, # \\\rcomment\\\\\r3", "# only a comment", "", " \t\r\n",
	} {
		add(s)
	}
	return out
}

// ---------------------------------------------------------------------------
// replay

func replayCase(sub string, raw json.RawMessage) string {
	switch sub {
	case "shape", "ops", "forms", "grid", "deep", "corpus-shape":
		var c srcCase
		if err := json.Unmarshal(raw, &c); err != nil {
			return "bad replay: " + err.Error()
		}
		msg, _, _ := checkShape(c)
		return msg
	case "history":
		var c histCase
		if err := json.Unmarshal(raw, &c); err != nil {
			return "bad replay: " + err.Error()
		}
		msg, _ := checkHistory(c)
		return msg
	case "roundtrip", "corpus-roundtrip":
		var c srcCase
		if err := json.Unmarshal(raw, &c); err != nil {
			return "bad replay: " + err.Error()
		}
		msg, _, _ := checkRoundTrip(c)
		return msg
	case "respace", "corpus-respace":
		var c spaceCase
		if err := json.Unmarshal(raw, &c); err != nil {
			return "bad replay: " + err.Error()
		}
		msg, cls, _ := checkSpace(c)
		if cls == "bad-case" {
			return "bad replay: the two texts do not have the same token sequence"
		}
		return msg
	}
	return "unknown sub " + sub
}

// ---------------------------------------------------------------------------

var soup = []string{".", "..", ".a", "a", "1", "1.", ".5", "e", "E1", "?", "//", "?//", "/", "-", "+", "|", ",", "=", "==", "|=", "[", "]", "(", ")", "{", "}", ":", ";",
	"\"", "\\(", "\\\"", "$a", "@a", "as", "if", "then", "else", "end", "try", "catch", "def", "reduce", "and", "or", "::", "#", "\n", "x", "0", "_", "label", "break", "null", "..", ".", ".", "?", "[", "]", "\""}

var atoms = [][]tok{{{"idx", ".a"}}, {{"var", "$b"}}, {{"num", "3"}}, {{"id", "f"}}, {{"str", `"s"`}}, {{"p", "."}}}

func TestC09(t *testing.T) {
	rec = evid.Open("C09")
	defer rec.Close()
	rec.Replays(replayCase)
	if rec.ReplayPath() != "" {
		return
	}
	// (H) first and in every shard: parse-history independence.  When it
	// fails every later parse is suspect (and ASTs may grow without bound),
	// so the remaining sub-checks of the shard are skipped.
	if !runHistory() {
		return
	}

	avoid := map[string]bool{}
	for _, c := range []string{clsDotBracket, clsEmptyImport, clsNul} {
		if rec.KnownClass(c) {
			avoid[c] = true
		}
	}

	// (E1) every sequence of 2 and 3 (thorough: 4) binary operators around
	// atoms, plain and with a unary minus on every operand
	maxOps := rec.Scale(3, 4)
	idx := 0
	for nops := 1; nops <= maxOps; nops++ {
		total := 1
		for i := 0; i < nops; i++ {
			total *= len(binOps)
		}
		for code := 0; code < total; code++ {
			idx++
			if !rec.Mine(idx) {
				continue
			}
			for variant := 0; variant < 2; variant++ {
				if variant == 1 && nops == 4 && code%7 != 0 {
					continue
				}
				var ts []tok
				x := code
				for i := 0; i <= nops; i++ {
					if variant == 1 {
						ts = append(ts, tok{"p", "-"})
					}
					ts = append(ts, atoms[i%len(atoms)]...)
					if i < nops {
						ts = append(ts, opTok(binOps[x%len(binOps)]))
						x /= len(binOps)
					}
				}
				directAll("ops", ts)
			}
		}
	}
	rec.Exhaustive(fmt.Sprintf("operator-sequences(1..%d of 24 operators around atoms, plain and signed)", maxOps), true)

	// (E2) every ordered pair of operators inside every delimiting form
	forms := []string{
		".a OP1 .b as $v | .c OP2 .d",
		".a OP1 .b as [$v] ?// $v | .c OP2 .d",
		"def f: .a OP1 .b; .c OP2 .d",
		"def f(g; $h): .a OP1 .b; def i: .c; .d OP2 .e",
		"label $l | .a OP1 .b OP2 .c",
		".a OP1 .b , label $l | .c OP2 .d",
		".a OP1 .b | def f: .c; .d OP2 .e",
		".a OP1 .b , def f: .c; .d OP2 .e",
		"try .a OP1 .b catch .c OP2 .d",
		"try - .a .b OP1 try .c catch - .d [ 0 ] OP2 .e",
		".a OP1 reduce .b as $v ( .c ; .d ) OP2 .e",
		".a OP1 foreach .b as $v ( .c OP2 .d ; .e OP1 .f ; .g ) OP2 .h",
		"if .a OP1 .b then .c OP2 .d elif .e then .f OP1 .g else .h end OP2 .i",
		"if .a then .b end OP1 if .c then .d else .e end OP2 .f",
		"- .a .b [ 0 ] OP1 - .c ? OP2 + .d",
		".a OP1 ( .b OP2 .c )",
		"( .a OP1 .b ) OP2 .c",
		"[ .a OP1 .b OP2 .c ]",
		"{ k : .a OP1 .b OP2 .c }",
		"{ k : .a OP1 .b , ( .c OP2 .d ) : .e OP1 .f | .g }",
		"f ( .a OP1 .b ; .c OP2 .d )",
		".a OP1 .b as $v | .c as $w | .d OP2 .e",
		"\"x\\( .a OP1 .b OP2 .c )y\"",
		". [ .a OP1 .b : .c OP2 .d ]",
		".x [ .a OP1 .b ] OP2 .c",
		".a OP1 .b ? OP2 .c",
		".a OP1 .. OP2 .c",
		".a OP1 1 .b OP2 . .c",
		".a OP1 - 1 OP2 + 2",
	}
	formToks := make([][]tok, len(forms))
	for fi, form := range forms {
		formToks[fi] = mustTok(form)
	}
	for fi := range forms {
		for _, op1 := range binOps {
			for _, op2 := range binOps {
				idx++
				if !rec.Mine(idx) {
					continue
				}
				ts := append([]tok(nil), formToks[fi]...)
				for k := range ts {
					switch ts[k] {
					case tok{"id", "OP1"}:
						ts[k] = opTok(op1)
					case tok{"id", "OP2"}:
						ts[k] = opTok(op2)
					}
				}
				directAll("forms", ts)
			}
		}
	}
	rec.Exhaustive(fmt.Sprintf("operator-pairs-in-forms(%d forms x 24 x 24)", len(forms)), true)

	// (E3) every term form x every suffix form x every suffix form
	bases := []string{".", "..", ".a", ". \"s\"", ". \"s\\( 1 )\"", ". [ 0 ]", ". [ 1 : 2 ]", ". [ ]", "null", "true", "f", "f ( 1 ; 2 )", "m::f", "$v", "$m::v", "$__loc__",
		"{ }", "{ a : 1 }", "[ ]", "[ 1 ]", "1", "1.", ".5", "1e3", "1.e3", "@json", "@json \"s\"", "\"s\"", "\"s\\( 1 )t\"", "if 1 then 2 end", "if 1 then 2 else 3 end",
		"try 1", "try 1 catch 2", "reduce . as $x ( 0 ; 1 )", "foreach . as $x ( 0 ; 1 ; 2 )", "break $x", "( 1 )", "- 1", "- .", "+ .a"}
	sfxs := []string{"", ".a", ".and", ".e1", ". \"s\"", ". \"s\\( 1 )\"", "[ 0 ]", ". [ 0 ]", "[ ]", ". [ ]", "[ 1 : 2 ]", "[ : 2 ]", "[ 1 : ]", ". [ 1 : 2 ]", "?"}
	contexts := []string{"X", "- X", "1 - X", "X // 1", "X as $v | 1", "[ X ]", "\"\\( X )\"", "try X catch X"}
	for _, b := range bases {
		for _, s1 := range sfxs {
			for _, s2 := range sfxs {
				if s1 == "" && s2 != "" {
					continue
				}
				for ci, ctx := range contexts {
					if ci > 0 && s2 != "" && !rec.Thorough() {
						continue
					}
					idx++
					if !rec.Mine(idx) {
						continue
					}
					if avoid[clsDotBracket] && b == "." && strings.HasPrefix(s1, ". [") && s1 != ". [ ]" {
						rec.Excluded(clsDotBracket)
						continue
					}
					x := b + " " + s1 + " " + s2
					directAll("grid", mustTok(strings.ReplaceAll(ctx, "X", x)))
				}
			}
		}
	}
	rec.Exhaustive(fmt.Sprintf("term-forms-x-suffix-forms(%d bases x %d x %d suffixes)", len(bases), len(sfxs), len(sfxs)), true)

	// (E4) deep and long programs: parser stack growth, printer recursion
	rep := func(n int, s string) string { return strings.Repeat(s, n) }
	for _, n := range []int{1, 2, 3, 5, 8, 15, 16, 17, 31, 32, 33, 64, 100, 200} {
		for _, src := range []string{
			rep(n, "( ") + ". " + rep(n, ") "),
			rep(n, "[ ") + ". " + rep(n, "] "),
			rep(n, "{ a : ") + ". " + rep(n, "} "),
			rep(n, "- ") + ". ",
			rep(n, "try ") + ". " + rep(n/2, "catch . "),
			". " + rep(n, "| . "),
			". " + rep(n, ", . "),
			". " + rep(n, "// . "),
			". " + rep(n, "+ . "),
			". " + rep(n, "- . * . "),
			". " + rep(n, "or . and . "),
			". " + rep(n, "as $x | . "),
			rep(n, "def f : ") + ". " + rep(n, "; f "),
			rep(n, "label $l | ") + ". ",
			rep(n, "if . then ") + ". " + rep(n, "else . end "),
			". " + rep(n, ".a [ 0 ] ? . \"s\" [ ] . [ 1 : ] "),
			rep(n, "\"a\\( ") + ". " + rep(n, ")b\" "),
			rep(n, "reduce ") + ". " + rep(n, "as $x ( . ; . ) "),
			rep(n, "f ( . ; ") + ". " + rep(n, ") "),
			". as " + rep(n, "[ ") + "$x " + rep(n, "] ") + rep(n, "?// $x ") + "| . ",
		} {
			idx++
			if !rec.Mine(idx) {
				continue
			}
			directAll("deep", mustTok(src))
		}
	}
	rec.Exhaustive("deep-and-long(20 families x 14 sizes up to 200)", true)

	// (E5) comments: bodies ending in 0..4 backslashes x LF / CR LF / CR,
	// continuation lines that are empty, only backslashes, start with a
	// backslash, contain "#", or are themselves continued (3 levels), in the
	// middle of a program and at its end.  The expected token sequence is
	// whatever the own tokenizer (jq 1.7 rule: an odd number of backslashes
	// before the line end continues the comment) makes of the text.
	{
		texts := []string{"", " note", "#", "x#y", `\x`, ` a \\ b`}
		small := []string{"", "x"}
		ends := []string{"\n", "\r\n", "\r"}
		bs := func(k int) string { return strings.Repeat(`\`, k) }
		var comments []string
		var build func(prefix string, level int)
		build = func(prefix string, level int) {
			tx, maxk := texts, 4
			if level == 2 {
				tx, maxk = small, 2
			}
			for _, tx := range tx {
				for k := 0; k <= maxk; k++ {
					for _, e := range ends {
						c := prefix + tx + bs(k) + e
						if k%2 == 1 && level < 2 {
							build(c, level+1)
						} else {
							comments = append(comments, c)
						}
					}
					if level > 0 || k > 0 {
						comments = append(comments, prefix+tx+bs(k)) // ends the text (only meaningful at EOF)
					}
				}
			}
		}
		build("#", 0)
		n := 0
		for _, cm := range comments {
			for _, b := range []string{"1 " + cm + "+ 2", "1 " + cm, cm + "\n.a", "\"\\( 1 " + cm + "+ 2 )\"", "[ 1 " + cm + ", 2 " + cm + "]"} {
				idx++
				if !rec.Mine(idx) {
					continue
				}
				ts, err := tokenize(b)
				if err != nil {
					rec.Discard("comments/untokenizable")
					continue
				}
				n++
				c := spaceCase{joinToks(ts, " "), b}
				rec.Eval()
				msg, cls, q := checkSpace(c)
				rec.Class("comments/" + cls)
				noteNTq(ts, q)
				if msg != "" {
					direct("respace", c, "%s", msg)
				}
			}
		}
		rec.Exhaustive(fmt.Sprintf("comment-continuations(%d comments x 5 placements)", len(comments)), true)
	}

	// (K) corpus
	corpus := loadCorpus(t)
	var corpusToks [][]tok
	for i, src := range corpus {
		ts, err := tokenize(src)
		if err == nil {
			corpusToks = append(corpusToks, ts)
		}
		if !rec.Mine(i) {
			continue
		}
		rec.Eval()
		if err != nil {
			rec.Class("corpus/untokenizable")
		} else {
			msg, cls, got := checkShape(srcCase{src})
			rec.Class("corpus/shape/" + cls)
			if got != "" {
				noteNT(ts, got)
			} else if q, err := parse(src); err == nil {
				noteNTq(ts, q)
			}
			if msg != "" {
				direct("corpus-shape", srcCase{src}, "%s", msg)
			}
			if d, ok := dense(ts); ok {
				c := spaceCase{src, d}
				if !skipSpace(c) {
					if msg, _, _ := checkSpace(c); msg != "" {
						direct("corpus-respace", c, "%s", msg)
					}
				}
			}
		}
		if !skipRoundTrip(src) {
			msg, cls, _ := checkRoundTrip(srcCase{src})
			rec.Class("corpus/roundtrip/" + cls)
			if msg != "" {
				direct("corpus-roundtrip", srcCase{src}, "%s", msg)
			}
		}
	}
	rec.Exhaustive(fmt.Sprintf("corpus(%d texts)", len(corpus)), true)
	rec.Extra("corpus_texts", len(corpus))
	rec.Extra("corpus_tokenizable", len(corpusToks))

	excl := map[string]int{}
	flush := func() {
		for k, n := range excl {
			for i := 0; i < n; i++ {
				rec.Excluded(k)
			}
			delete(excl, k)
		}
	}

	// (R1) shape of generated programs
	rec.Rapid(t, "shape", rec.Scale(400000, 8000000), func(t *rapid.T) {
		ts := genProgram(t, avoid, excl)
		flush()
		src := joinToks(ts, " ")
		c := srcCase{src}
		rec.Eval()
		if got, err := tokenize(src); err != nil || !sameToks(got, ts) {
			t.Fatalf("%s", rec.Fail("shape", c, "harness: the tokenizer does not reproduce the generated token list of %q", src))
		}
		msg, cls, got := checkShape(c)
		rec.Class("shape/" + cls)
		if strings.HasPrefix(cls, "accepted") {
			noteNT(ts, got)
			featureClasses(ts)
		}
		rec.Sample(c)
		if msg != "" {
			t.Fatalf("%s", rec.Fail("shape", c, "%s", msg))
		}
	})

	// (R2) String() round trip of generated programs, a third of them with
	// token-level mutations, some built on corpus queries
	rec.Rapid(t, "roundtrip", rec.Scale(400000, 8000000), func(t *rapid.T) {
		var ts []tok
		origin := "gen"
		if k := rapid.IntRange(0, 9).Draw(t, "fromcorpus"); k == 0 {
			ts = corpusToks[rapid.IntRange(0, len(corpusToks)-1).Draw(t, "ci")]
			ts = mutate(t, ts)
			origin = "corpus-mutant"
		} else if k == 1 {
			// lexeme soup: not grammatical by construction; whatever
			// Parse accepts must still round-trip
			var sb strings.Builder
			for i, n := 0, rapid.IntRange(1, 10).Draw(t, "soupn"); i < n; i++ {
				sb.WriteString(soup[rapid.IntRange(0, len(soup)-1).Draw(t, "soup")])
				if rapid.IntRange(0, 2).Draw(t, "soupsp") == 0 {
					sb.WriteByte(' ')
				}
			}
			src := sb.String()
			c := srcCase{src}
			rec.Eval()
			ts, err := tokenize(src)
			if err != nil {
				rec.Discard("roundtrip/soup-untokenizable")
				return
			}
			if skipRoundTrip(src) {
				return
			}
			msg, cls, q := checkRoundTrip(c)
			rec.Class("roundtrip/soup/" + cls)
			noteNTq(ts, q)
			if cls == "accepted" {
				rec.Sample(c)
			}
			if msg != "" {
				t.Fatalf("%s", rec.Fail("roundtrip", c, "%s", msg))
			}
			return
		} else {
			ts = genProgram(t, avoid, excl)
			flush()
			if rapid.IntRange(0, 2).Draw(t, "mutate") == 0 {
				ts = mutate(t, ts)
				origin = "gen-mutant"
			}
		}
		src := joinToks(ts, " ")
		if rapid.IntRange(0, 3).Draw(t, "dense") == 0 {
			if d, ok := dense(ts); ok {
				src = d
			}
		}
		c := srcCase{src}
		rec.Eval()
		if skipRoundTrip(src) {
			return
		}
		msg, cls, q := checkRoundTrip(c)
		rec.Class("roundtrip/" + origin + "/" + cls)
		noteNTq(ts, q)
		rec.Sample(c)
		if msg != "" {
			t.Fatalf("%s", rec.Fail("roundtrip", c, "%s", msg))
		}
	})

	// (R3) re-spacing: same tokens, other whitespace and comments
	rec.Rapid(t, "respace", rec.Scale(400000, 8000000), func(t *rapid.T) {
		var ts []tok
		origin := "gen"
		switch k := rapid.IntRange(0, 9).Draw(t, "origin"); {
		case k == 0:
			ts = corpusToks[rapid.IntRange(0, len(corpusToks)-1).Draw(t, "ci")]
			origin = "corpus"
		case k == 1:
			ts = mutate(t, corpusToks[rapid.IntRange(0, len(corpusToks)-1).Draw(t, "ci")])
			origin = "corpus-mutant"
		default:
			ts = genProgram(t, avoid, excl)
			flush()
			if k <= 3 {
				ts = mutate(t, ts)
				origin = "gen-mutant"
			}
		}
		a := joinToks(ts, " ")
		rec.Eval()
		if got, err := tokenize(a); err != nil || !sameToks(got, ts) {
			rec.Discard("respace/mutation-broke-token-list")
			return
		}
		b, mode, ok := respace(t, ts, !avoid[clsNul])
		if !ok {
			rec.Discard("respace/unverified-spacing")
			return
		}
		c := spaceCase{a, b}
		if skipSpace(c) {
			return
		}
		msg, cls, q := checkSpace(c)
		rec.Class("respace/" + origin + "/" + cls)
		rec.Class("respace/mode/" + mode)
		noteNTq(ts, q)
		rec.Sample(c)
		if msg != "" {
			t.Fatalf("%s", rec.Fail("respace", c, "%s", msg))
		}
	})
}
