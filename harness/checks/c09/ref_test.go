package c09

// Reference parser: token list -> canonical shape (an S-expression string).
//
// Binary operators are handled by precedence climbing over the table of the
// jq manual ("|" right < "," left < "//" right < nonassoc "= |= += -= *= /=
// %= //=" < "or" left < "and" left < nonassoc "== != < <= > >=" < "+ -" left
// < "* / %" left); everything else is plain recursive descent over the
// documented forms.  Nothing here is derived from gojq's parser tables.
//
// Three outcomes: a shape, errNonAssoc (a chain of non-associative
// operators: the property says it must be rejected) and errOther (anything
// else the reference does not accept or does not model: not judged).

import (
	"errors"
	"strconv"
	"strings"
)

var (
	errNonAssoc = errors.New("chain of non-associative operators")
	errInexact  = errors.New("string literal whose value the property does not state")
)

type otherErr struct{ msg string }

func (e *otherErr) Error() string { return e.msg }

type opInfo struct {
	level int
	assoc byte // 'l' 'r' 'n'
}

var opTable = map[string]opInfo{
	"|":  {1, 'r'},
	",":  {2, 'l'},
	"//": {3, 'r'},
	"=":  {4, 'n'}, "|=": {4, 'n'}, "+=": {4, 'n'}, "-=": {4, 'n'}, "*=": {4, 'n'}, "/=": {4, 'n'}, "%=": {4, 'n'}, "//=": {4, 'n'},
	"or":  {5, 'l'},
	"and": {6, 'l'},
	"==":  {7, 'n'}, "!=": {7, 'n'}, "<": {7, 'n'}, "<=": {7, 'n'}, ">": {7, 'n'}, ">=": {7, 'n'},
	"+": {8, 'l'}, "-": {8, 'l'},
	"*": {9, 'l'}, "/": {9, 'l'}, "%": {9, 'l'},
}

var binOps = []string{"|", ",", "//", "=", "|=", "+=", "-=", "*=", "/=", "%=", "//=", "or", "and",
	"==", "!=", "<", "<=", ">", ">=", "+", "-", "*", "/", "%"}

type refParser struct {
	ts  []tok
	i   int
	err error
	pre []string // suffixes already consumed by base() (".[]" is identity + iterate)
	// facts about the program, for classes
	asAfterBinop bool
}

type bail struct{}

func (p *refParser) fail(e error) {
	if p.err == nil {
		p.err = e
	}
	panic(bail{})
}
func (p *refParser) other(msg string) { p.fail(&otherErr{msg}) }

func (p *refParser) peek() tok {
	if p.i < len(p.ts) {
		return p.ts[p.i]
	}
	return tok{"eof", ""}
}
func (p *refParser) next() tok { t := p.peek(); p.i++; return t }
func (p *refParser) isP(s string) bool {
	t := p.peek()
	return t.K == "p" && t.S == s
}
func (p *refParser) isKw(s string) bool {
	t := p.peek()
	return t.K == "kw" && t.S == s
}
func (p *refParser) expectP(s string) {
	if !p.isP(s) {
		p.other("expected " + s + " at token " + strconv.Itoa(p.i))
	}
	p.i++
}
func (p *refParser) expectKw(s string) {
	if !p.isKw(s) {
		p.other("expected " + s + " at token " + strconv.Itoa(p.i))
	}
	p.i++
}

// refParse returns the shape of a whole program.
func refParse(ts []tok) (shape string, asAfterBinop bool, err error) {
	p := &refParser{ts: ts}
	defer func() {
		if r := recover(); r != nil {
			if _, ok := r.(bail); !ok {
				panic(r)
			}
			shape, err = "", p.err
		}
	}()
	s := p.program()
	if p.i != len(p.ts) {
		p.other("trailing tokens at " + strconv.Itoa(p.i))
	}
	return s, p.asAfterBinop, nil
}

func (p *refParser) program() string {
	meta := ""
	var imports []string
	if p.isKw("module") {
		p.i++
		meta = p.constObject()
		p.expectP(";")
	}
	for p.isKw("import") || p.isKw("include") {
		if p.next().S == "import" {
			path := p.plainString()
			p.expectKw("as")
			t := p.next()
			if !(t.K == "var" || t.K == "id") || strings.Contains(t.S, "::") {
				p.other("import alias")
			}
			m := "_"
			if p.isP("{") {
				m = p.constObject()
			}
			p.expectP(";")
			imports = append(imports, "(import "+path+" "+t.S+" "+m+")")
		} else {
			path := p.plainString()
			m := "_"
			if p.isP("{") {
				m = p.constObject()
			}
			p.expectP(";")
			imports = append(imports, "(include "+path+" "+m+")")
		}
	}
	var body string
	if p.i == len(p.ts) {
		body = "_"
	} else {
		body = p.pipe(true)
	}
	if meta == "" && imports == nil {
		return body
	}
	if meta == "" {
		meta = "_"
	}
	return "(prog " + meta + " [" + strings.Join(imports, " ") + "] " + body + ")"
}

func (p *refParser) plainString() string {
	t := p.next()
	if t.K != "str" {
		p.other("expected plain string")
	}
	v, exact := decodeStr(strInner(t))
	if !exact {
		p.fail(errInexact)
	}
	return strconv.Quote(v)
}

func (p *refParser) constObject() string {
	p.expectP("{")
	var kvs []string
	for !p.isP("}") {
		t := p.next()
		var k string
		switch {
		case t.K == "id" && !strings.Contains(t.S, "::"), t.K == "kw":
			k = "(k " + t.S + ")"
		case t.K == "str":
			p.i--
			k = "(ks " + p.plainString() + ")"
		default:
			p.other("const object key")
		}
		p.expectP(":")
		kvs = append(kvs, "(kv "+k+" "+p.constTerm()+")")
		if p.isP(",") {
			p.i++
			continue
		}
		if !p.isP("}") {
			p.other("const object")
		}
	}
	p.i++
	if len(kvs) == 0 {
		return "(cobj)"
	}
	return "(cobj " + strings.Join(kvs, " ") + ")"
}

func (p *refParser) constTerm() string {
	t := p.peek()
	switch {
	case t.K == "p" && t.S == "{":
		return p.constObject()
	case t.K == "p" && t.S == "[":
		p.i++
		var es []string
		if !p.isP("]") {
			for {
				es = append(es, p.constTerm())
				if p.isP(",") {
					p.i++
					continue
				}
				break
			}
		}
		p.expectP("]")
		if len(es) == 0 {
			return "(carr)"
		}
		return "(carr " + strings.Join(es, " ") + ")"
	case t.K == "num":
		p.i++
		return "(num " + t.S + ")"
	case t.K == "str":
		return "(s " + p.plainString() + ")"
	case t.K == "kw" && (t.S == "null" || t.S == "true" || t.S == "false"):
		p.i++
		return t.S
	}
	p.other("const term")
	return ""
}

// funcDefs parses one or more consecutive definitions.
func (p *refParser) funcDefs() []string {
	var fds []string
	for p.isKw("def") {
		p.i++
		name := p.next()
		if name.K != "id" || strings.Contains(name.S, "::") {
			p.other("def name")
		}
		var params []string
		if p.isP("(") {
			p.i++
			for {
				t := p.next()
				if !(t.K == "id" && !strings.Contains(t.S, "::") || t.K == "var" && !strings.Contains(t.S, "::")) {
					p.other("def param")
				}
				params = append(params, t.S)
				if p.isP(";") {
					p.i++
					continue
				}
				break
			}
			p.expectP(")")
		}
		p.expectP(":")
		body := p.pipe(false)
		p.expectP(";")
		fds = append(fds, "(fn "+name.S+" ["+strings.Join(params, " ")+"] "+body+")")
	}
	return fds
}

// pipe parses a full query (the weakest level).  A query may start with
// function definitions, which scope over everything that follows, or be a
// `label $x | body`.  top: a program may consist of definitions only.
func (p *refParser) pipe(top bool) string {
	if p.isKw("def") {
		fds := p.funcDefs()
		if top && p.i == len(p.ts) {
			return "(def [" + strings.Join(fds, " ") + "] _)"
		}
		return "(def [" + strings.Join(fds, " ") + "] " + p.pipe(false) + ")"
	}
	if p.isKw("label") {
		return p.label()
	}
	lhs := p.comma()
	if p.isP("|") {
		p.i++
		rhs := p.pipe(false)
		return "(| " + lhs + " " + rhs + ")"
	}
	return lhs
}

func (p *refParser) label() string {
	p.expectKw("label")
	v := p.next()
	if v.K != "var" || strings.Contains(v.S, "::") {
		p.other("label name")
	}
	p.expectP("|")
	return "(label " + v.S + " " + p.pipe(false) + ")"
}

func (p *refParser) comma() string {
	lhs, closed := p.commaOperand()
	for !closed && p.isP(",") {
		p.i++
		var rhs string
		rhs, closed = p.commaOperand()
		lhs = "(, " + lhs + " " + rhs + ")"
	}
	return lhs
}

// commaOperand parses one operand of "," ; closed reports that the operand
// swallowed the rest of the enclosing query (def / label / as bodies extend
// as far to the right as possible).
func (p *refParser) commaOperand() (string, bool) {
	if p.isKw("def") {
		fds := p.funcDefs()
		return "(def [" + strings.Join(fds, " ") + "] " + p.pipe(false) + ")", true
	}
	if p.isKw("label") {
		return p.label(), true
	}
	e, binary := p.exprB(3)
	if p.isKw("as") {
		// gojq binds `as` to the whole operator expression on its left
		// (pinned by cli/test.yaml "arithmetic operator with variable
		// binding"); jq binds it to the last term.  Both agree when the
		// source is a single term.
		if binary {
			p.asAfterBinop = true
		}
		p.i++
		pats := []string{p.pattern()}
		for p.isP("?//") {
			p.i++
			pats = append(pats, p.pattern())
		}
		p.expectP("|")
		body := p.pipe(false)
		return "(as " + e + " [" + strings.Join(pats, " ") + "] " + body + ")", true
	}
	return e, false
}

func (p *refParser) binop() (string, opInfo, bool) {
	t := p.peek()
	if t.K == "p" || t.K == "kw" && (t.S == "and" || t.S == "or") {
		if oi, ok := opTable[t.S]; ok {
			return t.S, oi, true
		}
	}
	return "", opInfo{}, false
}

// expr: precedence climbing over the levels >= min (min is at least 3: "|"
// and "," are handled by pipe/comma because def/label/as live there).
func (p *refParser) expr(min int) string {
	s, _ := p.exprB(min)
	return s
}

func (p *refParser) exprB(min int) (string, bool) {
	lhs := p.postfix(true)
	binary := false
	for {
		op, oi, ok := p.binop()
		if !ok || oi.level < min || oi.level < 3 {
			return lhs, binary
		}
		binary = true
		p.i++
		p.noPrefixForm()
		var rhs string
		switch oi.assoc {
		case 'l':
			rhs = p.expr(oi.level + 1)
		case 'r':
			rhs = p.expr(oi.level)
		default:
			rhs = p.expr(oi.level + 1)
			if _, oi2, ok2 := p.binop(); ok2 && oi2.level == oi.level {
				p.fail(errNonAssoc)
			}
		}
		lhs = "(" + op + " " + lhs + " " + rhs + ")"
	}
}

// noPrefixForm: jq allows def/label after any operator, gojq only where a
// whole query may start; the property does not state it, so not modelled.
func (p *refParser) noPrefixForm() {
	if p.isKw("def") || p.isKw("label") {
		p.other("def/label as operand of a binary operator")
	}
}

func (p *refParser) pattern() string {
	t := p.next()
	switch {
	case t.K == "var" && !strings.Contains(t.S, "::"):
		return "(pv " + t.S + ")"
	case t.K == "p" && t.S == "[":
		var ps []string
		for {
			ps = append(ps, p.pattern())
			if p.isP(",") {
				p.i++
				continue
			}
			break
		}
		p.expectP("]")
		return "(pa " + strings.Join(ps, " ") + ")"
	case t.K == "p" && t.S == "{":
		var ps []string
		for {
			k := p.next()
			switch {
			case k.K == "var" && !strings.Contains(k.S, "::"):
				if p.isP(":") {
					p.i++
					ps = append(ps, "(pk (k "+k.S+") "+p.pattern()+")")
				} else {
					ps = append(ps, "(pk (k "+k.S+") _)")
				}
			case k.K == "id" && !strings.Contains(k.S, "::"), k.K == "kw":
				p.expectP(":")
				ps = append(ps, "(pk (k "+k.S+") "+p.pattern()+")")
			case k.K == "str" || k.K == "s(":
				p.i--
				s := p.str()
				p.expectP(":")
				ps = append(ps, "(pk (ks "+s+") "+p.pattern()+")")
			case k.K == "p" && k.S == "(":
				q := p.pipe(false)
				p.expectP(")")
				p.expectP(":")
				ps = append(ps, "(pk (kq "+q+") "+p.pattern()+")")
			default:
				p.other("object pattern key")
			}
			if p.isP(",") {
				p.i++
				continue
			}
			break
		}
		p.expectP("}")
		return "(po " + strings.Join(ps, " ") + ")"
	}
	p.other("pattern")
	return ""
}

// str parses a string literal (plain or interpolated).
func (p *refParser) str() string {
	t := p.next()
	lit := func(t tok) string {
		v, exact := decodeStr(strInner(t))
		if !exact {
			p.fail(errInexact)
		}
		return v
	}
	if t.K == "str" {
		return "(s " + strconv.Quote(lit(t)) + ")"
	}
	if t.K != "s(" {
		p.other("expected string")
	}
	var parts []string
	if v := lit(t); strInner(t) != "" {
		parts = append(parts, "(s "+strconv.Quote(v)+")")
	}
	for {
		q := p.pipe(false)
		parts = append(parts, "(p "+q+")")
		t = p.next()
		if t.K != ")(" && t.K != ")s" {
			p.other("expected end of interpolation")
		}
		if v := lit(t); strInner(t) != "" {
			parts = append(parts, "(s "+strconv.Quote(v)+")")
		}
		if t.K == ")s" {
			break
		}
	}
	return "(is " + strings.Join(parts, " ") + ")"
}

// bracket parses what follows "[" in a suffix: "]" | q "]" | q ":" "]" |
// ":" q "]" | q ":" q "]".
func (p *refParser) bracket() string {
	if p.isP("]") {
		p.i++
		return "iter"
	}
	if p.isP(":") {
		p.i++
		e := p.pipe(false)
		p.expectP("]")
		return "(i.slice _ " + e + ")"
	}
	s := p.pipe(false)
	if p.isP(":") {
		p.i++
		if p.isP("]") {
			p.i++
			return "(i.slice " + s + " _)"
		}
		e := p.pipe(false)
		p.expectP("]")
		return "(i.slice " + s + " " + e + ")"
	}
	p.expectP("]")
	return "(i.at " + s + ")"
}

// postfix parses a term with all its suffixes; a leading unary sign applies
// to the following term together with its suffixes.
func (p *refParser) postfix(sign bool) string {
	t := p.peek()
	if t.K == "p" && (t.S == "-" || t.S == "+") {
		p.i++
		inner := p.postfix(true)
		if t.S == "-" {
			return "(neg " + inner + ")"
		}
		return "(pos " + inner + ")"
	}
	base := p.base()
	sfx := p.pre
	p.pre = nil
	for {
		t := p.peek()
		switch {
		case t.K == "idx":
			p.i++
			sfx = append(sfx, "(i.name "+t.S[1:]+")")
			continue
		case t.K == "p" && t.S == "?":
			p.i++
			sfx = append(sfx, "opt")
			continue
		case t.K == "p" && t.S == "[":
			p.i++
			sfx = append(sfx, p.bracket())
			continue
		case t.K == "p" && t.S == ".":
			p.i++
			if p.isP("[") {
				p.i++
				sfx = append(sfx, p.bracket())
				continue
			}
			if k := p.peek().K; k == "str" || k == "s(" {
				sfx = append(sfx, "(i.str "+p.str()+")")
				continue
			}
			p.other("dot suffix")
		}
		break
	}
	if len(sfx) == 0 {
		return base
	}
	return "(sfx " + base + " " + strings.Join(sfx, " ") + ")"
}

func (p *refParser) base() string {
	t := p.next()
	switch t.K {
	case "idx":
		return "(index (i.name " + t.S[1:] + "))"
	case "num":
		return "(num " + t.S + ")"
	case "var":
		return "(call " + t.S + ")"
	case "id":
		if p.isP("(") {
			p.i++
			args := []string{p.pipe(false)}
			for p.isP(";") {
				p.i++
				args = append(args, p.pipe(false))
			}
			p.expectP(")")
			return "(call " + t.S + " " + strings.Join(args, " ") + ")"
		}
		return "(call " + t.S + ")"
	case "fmt":
		if k := p.peek().K; k == "str" || k == "s(" {
			return "(fmt " + t.S + " " + p.str() + ")"
		}
		return "(fmt " + t.S + " _)"
	case "str", "s(":
		p.i--
		return p.str()
	case "kw":
		switch t.S {
		case "null", "true", "false":
			return t.S
		case "if":
			c := p.pipe(false)
			p.expectKw("then")
			th := p.pipe(false)
			s := "(if " + c + " " + th
			for p.isKw("elif") {
				p.i++
				c := p.pipe(false)
				p.expectKw("then")
				th := p.pipe(false)
				s += " (elif " + c + " " + th + ")"
			}
			if p.isKw("else") {
				p.i++
				s += " " + p.pipe(false)
			} else {
				s += " _"
			}
			p.expectKw("end")
			return s + ")"
		case "try":
			// the body and the handler are postfix terms: `try a + b`
			// is `(try a) + b`; a `catch` belongs to the nearest try.
			b := p.postfix(true)
			if p.isKw("catch") {
				p.i++
				return "(try " + b + " " + p.postfix(true) + ")"
			}
			return "(try " + b + " _)"
		case "reduce", "foreach":
			// The source runs up to `as`: a term, or (jq 1.7 and gojq,
			// pinned by cli/test.yaml "reduce .[] / .[] as $i" and
			// "[-reduce -.[] as $i ...]") an operator expression
			// without "|" and ",".
			p.noPrefixForm()
			src := p.expr(3)
			p.expectKw("as")
			pat := p.pattern()
			p.expectP("(")
			a := p.pipe(false)
			p.expectP(";")
			b := p.pipe(false)
			if t.S == "reduce" {
				p.expectP(")")
				return "(reduce " + src + " " + pat + " " + a + " " + b + ")"
			}
			c := "_"
			if p.isP(";") {
				p.i++
				c = p.pipe(false)
			}
			p.expectP(")")
			return "(foreach " + src + " " + pat + " " + a + " " + b + " " + c + ")"
		case "break":
			v := p.next()
			if v.K != "var" || strings.Contains(v.S, "::") {
				p.other("break name")
			}
			return "(break " + v.S + ")"
		}
		p.other("keyword " + t.S + " cannot start a term")
	case "p":
		switch t.S {
		case ".":
			if p.isP("[") {
				p.i++
				b := p.bracket()
				if b == "iter" {
					p.pre = []string{"iter"}
					return "id"
				}
				return "(index " + b + ")"
			}
			if k := p.peek().K; k == "str" || k == "s(" {
				return "(index (i.str " + p.str() + "))"
			}
			return "id"
		case "..":
			return "rec"
		case "(":
			q := p.pipe(false)
			p.expectP(")")
			return "(p " + q + ")"
		case "[":
			if p.isP("]") {
				p.i++
				return "(arr _)"
			}
			q := p.pipe(false)
			p.expectP("]")
			return "(arr " + q + ")"
		case "{":
			return p.object()
		}
	}
	p.other("unexpected token " + t.String())
	return ""
}

func (p *refParser) object() string {
	var kvs []string
	for !p.isP("}") {
		t := p.next()
		var k string
		needVal := false
		switch {
		case t.K == "id" && !strings.Contains(t.S, "::"), t.K == "kw", t.K == "var" && !strings.Contains(t.S, "::"):
			k = "(k " + t.S + ")"
		case t.K == "str" || t.K == "s(":
			p.i--
			k = "(ks " + p.str() + ")"
		case t.K == "p" && t.S == "(":
			q := p.pipe(false)
			p.expectP(")")
			k = "(kq " + q + ")"
			needVal = true
		default:
			p.other("object key")
		}
		v := "_"
		if p.isP(":") {
			p.i++
			v = p.objectVal()
		} else if needVal {
			p.other("object value required")
		}
		kvs = append(kvs, "(kv "+k+" "+v+")")
		if p.isP(",") {
			p.i++
			continue
		}
		if !p.isP("}") {
			p.other("object")
		}
	}
	p.i++
	if len(kvs) == 0 {
		return "(obj)"
	}
	return "(obj " + strings.Join(kvs, " ") + ")"
}

// objectVal: operator expressions without "," ; "|" is allowed and is
// right-associative as everywhere.
func (p *refParser) objectVal() string {
	p.noPrefixForm()
	e := p.expr(3)
	if p.isKw("as") {
		p.other("as in object value")
	}
	if p.isP("|") {
		p.i++
		return "(| " + e + " " + p.objectVal() + ")"
	}
	return e
}
