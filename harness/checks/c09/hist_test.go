package c09

// Sub-check `history`: the AST of a query depends only on its token sequence,
// so it must not depend on what was parsed before, and a later Parse must not
// modify an AST returned earlier.  A case is a sequence of source texts parsed
// in order in one process.  For every parse: it succeeds (when the reference
// accepts the text), String() is bounded and equals the String() the same
// text gave the first time, the shape equals the reference shape and the
// shape of the first parse.  At the end the first *Query of every text must
// still print and walk as it did when it was returned.

import (
	"fmt"
	"os"
	"path/filepath"
	"strings"

	"github.com/itchyny/gojq"
)

type histCase struct {
	Srcs []string `json:"srcs"`
}

func clip(s string) string {
	if len(s) > 600 {
		return s[:600] + fmt.Sprintf("...(%d bytes)", len(s))
	}
	return s
}

// overlong: the printer adds at most a few bytes per token (spaces, escapes of
// control bytes: factor <= 6), so a String() far longer than its source is a
// defect by itself; judging it first keeps a runaway AST from exhausting
// memory.
func overlong(src, printed string) string {
	if len(printed) > 16*len(src)+1024 {
		return fmt.Sprintf("String() of a %d-byte source is %d bytes: %q prints as %q", len(src), len(printed), clip(src), clip(printed))
	}
	return ""
}

func overlongShape(src, shape string) string {
	if len(shape) > 64*len(src)+4096 {
		return fmt.Sprintf("the AST of a %d-byte source walks to %d bytes: %q -> %s", len(src), len(shape), clip(src), clip(shape))
	}
	return ""
}

// checkHistory returns the first violation and the index of the parse that
// showed it.
func checkHistory(c histCase) (string, int) {
	type state struct {
		str, shape string
		q          *gojq.Query
		n          int
		ref        string
		refOK      bool
		at         int
	}
	seen := map[string]*state{}
	var order []string
	for i, src := range c.Srcs {
		st := seen[src]
		if st == nil {
			st = &state{at: i}
			if ts, err := tokenize(src); err == nil {
				if ref, _, rerr := refParse(ts); rerr == nil {
					st.ref, st.refOK = ref, true
				}
			}
			seen[src] = st
			order = append(order, src)
		}
		q, err := parse(src)
		if err != nil {
			if st.refOK || st.n > 0 {
				return fmt.Sprintf("history: parse #%d of %q (step %d of the sequence) is rejected: %v", st.n+1, clip(src), i, err), i
			}
			continue
		}
		s := q.String()
		if msg := overlong(src, s); msg != "" {
			return fmt.Sprintf("history: step %d: %s", i, msg), i
		}
		sh := walkProgram(q)
		if msg := overlongShape(src, sh); msg != "" {
			return fmt.Sprintf("history: step %d: %s", i, msg), i
		}
		st.n++
		if st.n == 1 {
			st.str, st.shape, st.q = s, sh, q
		} else {
			if s != st.str {
				return fmt.Sprintf("history: the AST depends on what was parsed before: parse #%d of %q (step %d) prints as %q, the first parse of the same text (step %d) printed %q", st.n, clip(src), i, clip(s), st.at, clip(st.str)), i
			}
			if sh != st.shape {
				return fmt.Sprintf("history: the AST depends on what was parsed before: parse #%d of %q (step %d) has shape %s, the first parse (step %d) had %s", st.n, clip(src), i, clip(sh), st.at, clip(st.shape)), i
			}
		}
		if st.refOK && sh != st.ref {
			return fmt.Sprintf("history: parse #%d of %q (step %d, after %d other parses) has shape %s ; by the grammar it is %s", st.n, clip(src), i, i, clip(sh), clip(st.ref)), i
		}
	}
	for _, src := range order {
		st := seen[src]
		if st.q == nil {
			continue
		}
		if s := st.q.String(); s != st.str {
			return fmt.Sprintf("history: a later Parse modified an AST returned earlier: the *Query of the first Parse(%q) (step %d) printed %q then and prints %q after the sequence", clip(src), st.at, clip(st.str), clip(s)), len(c.Srcs) - 1
		}
		if sh := walkProgram(st.q); sh != st.shape {
			return fmt.Sprintf("history: a later Parse modified an AST returned earlier: the *Query of the first Parse(%q) (step %d) had shape %s and has %s after the sequence", clip(src), st.at, clip(st.shape), clip(sh)), len(c.Srcs) - 1
		}
	}
	return "", -1
}

var histTerms = []string{"null", "true", "false", "1", "1.5", ".5", `"s"`, `"\( 1 )"`, `"a\( null )b"`, ".", "..", ".a", `. "b"`, ". [ 0 ]", "$__loc__", "$ENV", "@base64", `@json "s"`,
	"[ ]", "[ null ]", "{ }", "{ a : true }", "f", "f ( false )", "m::f", "( . )", "( null )", "- 1", "- null", "try .", "try null catch false", "if . then . end", "if true then null else false end",
	"reduce . as $x ( null ; . )", "foreach . as $x ( 0 ; true ; false )", "break $x"}

var histSuffixes = []string{"?", "[ 0 ]", ".a", "[ ]", "[ 1 : ]", `. "b"`, "as $x | .", "? .a", "[ 0 ] [ ]", `.a ? . "b" [ : 2 ]`}

// histSequences: one sequence per term kind (the term with every suffix kind,
// interleaved with the bare term and with queries containing the bare term
// several times, five rounds), one mixing all constant literals, and one of
// long sources.
func histSequences() []histCase {
	var out []histCase
	for _, t := range histTerms {
		var seq []string
		for round := 0; round < 5; round++ {
			for _, s := range histSuffixes {
				seq = append(seq, t+" "+s, t, "[ "+t+" , "+t+" , "+t+" ] | { a : "+t+" }")
			}
		}
		out = append(out, histCase{seq})
	}
	var mix []string
	for round := 0; round < 5; round++ {
		mix = append(mix, "null [ 0 ] , true ? , false .a ?", "[ null , true , false ]", "null , true , false | not", "{ a : null , b : true , ( false ) : null }",
			"if null then true else false end", "null as $x | true ? // false [ ]", "[ null , true , false ]")
	}
	out = append(out, histCase{mix})
	repo := os.Getenv("VERIF_REPO")
	if repo == "" {
		repo = "/repo"
	}
	var long []string
	files := []string{filepath.Join(repo, "builtin.jq")}
	more, _ := filepath.Glob(filepath.Join(repo, "cli", "testdata", "*.jq"))
	files = append(files, more...)
	for _, fn := range files {
		if b, err := os.ReadFile(fn); err == nil && len(b) > 0 {
			long = append(long, string(b))
		}
	}
	// a long generated-looking source with every term kind suffixed
	var sb strings.Builder
	for i, t := range histTerms {
		if i > 0 {
			sb.WriteString(" , ")
		}
		sb.WriteString("def f" + fmt.Sprint(i) + " : " + t + " " + histSuffixes[i%6] + " | [ " + t + " , null , true , false ] ; f" + fmt.Sprint(i))
	}
	long = append(long, sb.String())
	var seq []string
	for round := 0; round < 5; round++ {
		for _, l := range long {
			seq = append(seq, l, "[ null , true , false ]")
		}
		seq = append(seq, "null [ 0 ] , true ? , false .a ?")
	}
	out = append(out, histCase{seq})
	return out
}

// runHistory runs every sequence; false = a violation was recorded.
func runHistory() bool {
	ok := true
	for _, c := range histSequences() {
		rec.EvalN(int64(len(c.Srcs)))
		rec.Class("history/sequences")
		if msg, at := checkHistory(c); msg != "" {
			ok = false
			direct("history", histCase{c.Srcs[:at+1]}, "%s", msg)
			continue
		}
		seenSrc := map[string]bool{}
		for _, src := range c.Srcs {
			if seenSrc[src] || len(src) > 200 {
				continue
			}
			seenSrc[src] = true
			if ts, err := tokenize(src); err == nil {
				if q, err := parse(src); err == nil {
					noteNTq(ts, q)
				}
			}
		}
	}
	rec.Exhaustive(fmt.Sprintf("history(%d term kinds x %d suffix kinds x 5 rounds, literals mix, long sources)", len(histTerms), len(histSuffixes)), ok)
	return ok
}
