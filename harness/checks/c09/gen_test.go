package c09

// Generator of surface-grammar token streams and of re-spacings.  Every
// random choice is a rapid draw.

import (
	"math"
	"strings"

	"pgregory.net/rapid"
)

type gen struct {
	t        *rapid.T
	out      []tok
	fuel     int
	hostile  bool            // string literals may contain unpaired surrogates / invalid UTF-8
	avoid    map[string]bool // known-finding classes excluded by construction
	excluded map[string]int
}

func (g *gen) emit(k, s string) { g.out = append(g.out, tok{k, s}) }
func (g *gen) p(s string)       { g.emit("p", s) }
func (g *gen) kw(s string)      { g.emit("kw", s) }

// rapid's integer generators are deliberately biased towards small values
// (geometric bit length), which would make every "5 %" decision fire 30 % of
// the time.  quant[x] is the quantile of x under that distribution for
// IntRange(0, 1023) (rapid v1.3.0, genUintNBiased), so quant[draw] is close to
// uniform on (0,1) while staying monotone: shrinking still moves towards the
// first alternative / "feature off".  Only the measured class histogram
// depends on this calibration, never soundness.
var quant [1024]float64

func init() {
	const bitlen = 10
	m := math.Max(8, (float64(bitlen)+48)/7)
	pg := 1 / (m + 1)
	pn := func(k int) float64 { return math.Pow(1-pg, float64(k-1)) * pg } // P(n = k)
	var pb [bitlen + 1]float64                                            // P(effective bit length = b)
	for k := 1; k < bitlen; k++ {
		pb[k] = pn(k)
	}
	top := 64 - (16-int(m))*4
	pmax := math.Pow(1-pg, float64(top-1))
	pb[bitlen] = math.Pow(1-pg, float64(bitlen-1)) - pmax
	var pv [1024]float64
	for v := 0; v < 1024; v++ {
		for b := 1; b <= bitlen; b++ {
			if v < 1<<b {
				pv[v] += pb[b] / float64(uint(1)<<b)
			}
		}
	}
	pv[0] += pmax // the "max" atom is folded onto 0 by u()
	cum := 0.0
	for v := 0; v < 1024; v++ {
		quant[v] = cum + pv[v]/2
		cum += pv[v]
	}
}

// u draws a near-uniform number in (0,1).
var draw1024 = rapid.IntRange(0, 1023)

func (g *gen) u(label string) float64 {
	x := draw1024.Draw(g.t, label)
	if x == 1023 {
		x = 0
	}
	return quant[x]
}

func (g *gen) n(label string, n int) int {
	i := int(g.u(label) * float64(n))
	if i >= n {
		i = n - 1
	}
	return i
}
func (g *gen) pct(label string, p int) bool { return g.u(label) >= 1-float64(p)/100 }
func (g *gen) pick(label string, xs []string) string {
	return xs[g.n(label, len(xs))]
}

// weighted pick: ws[i] is the weight of index i
func (g *gen) w(label string, ws ...int) int {
	total := 0
	for _, w := range ws {
		total += w
	}
	x := g.u(label) * float64(total)
	for i, w := range ws {
		if x < float64(w) {
			return i
		}
		x -= float64(w)
	}
	return len(ws) - 1
}

var (
	identPool  = []string{"a", "b", "f", "g", "x1", "_", "empty", "not", "select", "map", "android", "iff", "orb", "ending", "reduced", "e", "E", "e1", "a1b", "tryx", "As", "nulls"}
	idxPool    = []string{".a", ".b", ".foo", "._", ".x1", ".e1", ".and", ".or", ".if", ".end", ".as", ".def", ".null", ".e", ".E5", ".reduce", ".try", ".catch"}
	varPool    = []string{"$x", "$y", "$v", "$__loc__", "$ENV", "$if", "$end", "$e", "$as", "$x1", "$_"}
	modIdPool  = []string{"m::f", "mod1::g_2", "a::b"}
	modVarPool = []string{"$m::v", "$a::b"}
	numPool    = []string{"0", "1", "2", "42", "1.5", ".5", "1.", "1e3", "1E+3", "1.e-2", "0.0", "00", "1e0", "123456789012345678901234567890", "1.0e1", "9.", ".0", "3e-0", "0.10"}
	fmtPool    = []string{"@base64", "@json", "@text", "@foo", "@9", "@base32d", "@sh", "@_"}
	keyKwPool  = keywordList
	// raw string pieces (text inside the quotes, already escaped where needed)
	strPieces = []string{"a", "b", " ", "x.y", "#", `\n`, `\t`, `\"`, `\\`, `\/`, `\b`, `\f`, `\r`, `\u0041`, `\u00e9`, `\u00E9`, `\ud83d\ude00`, `\uD83D\uDE00`, `\u0000`, `\u001f`, ` `,
		"é", "😀", "\t", "\n", "\r", "\x01", "\x1f", "\x7f", ")", "(", "'", "1", ".", "//", "?", "|", "\\\\(", "$x", "}", "{", "]", "end", " ", "�", "#c\n"}
	strHostile = []string{`\ud800`, `\udc00`, `\ud800A`, "\xff", "\xc3", "\xed\xa0\x80"}
)

var opWeights = []struct {
	op string
	w  int
}{
	{"|", 32}, {",", 24}, {"//", 12},
	{"=", 4}, {"|=", 4}, {"+=", 3}, {"-=", 3}, {"*=", 3}, {"/=", 2}, {"%=", 2}, {"//=", 3},
	{"or", 8}, {"and", 8},
	{"==", 4}, {"!=", 3}, {"<", 3}, {"<=", 3}, {">", 3}, {">=", 2},
	{"+", 16}, {"-", 16}, {"*", 12}, {"/", 10}, {"%", 8},
}

func (g *gen) op(exprOnly bool) string {
	ws := make([]int, len(opWeights))
	for i, ow := range opWeights {
		ws[i] = ow.w
		if exprOnly && (ow.op == "|" || ow.op == ",") {
			ws[i] = 0
		}
	}
	o := opWeights[g.w("op", ws...)].op
	if o == "and" || o == "or" {
		g.kw(o)
	} else {
		g.p(o)
	}
	return o
}

func (g *gen) rawStr(label string) string {
	var sb strings.Builder
	k := g.w(label+"len", 10, 30, 30, 20, 10)
	for i := 0; i < k; i++ {
		if g.hostile && g.pct(label+"hostile", 15) {
			sb.WriteString(g.pick(label+"h", strHostile))
		} else {
			sb.WriteString(g.pick(label+"p", strPieces))
		}
	}
	return sb.String()
}

func (g *gen) plainStr() { g.emit("str", `"`+g.rawStr("s")+`"`) }

func (g *gen) interpStr(d int) {
	g.emit("s(", `"`+g.rawStr("s0")+`\(`)
	k := g.w("interps", 60, 30, 10)
	for i := 0; ; i++ {
		g.query(d + 1)
		if i == k {
			break
		}
		g.emit(")(", `)`+g.rawStr("sm")+`\(`)
	}
	g.emit(")s", `)`+g.rawStr("se")+`"`)
}

func (g *gen) anyStr(d int) {
	if d < maxDepth && g.fuel > 0 && g.pct("interp", 35) {
		g.interpStr(d)
	} else {
		g.plainStr()
	}
}

const maxDepth = 5

// query emits a flat chain  term (gap term)*  where a gap is one of the 24
// binary operators or an `as` binding; def / label may open the chain or
// follow "|" "," and bindings.  No parentheses are added: the tree is
// whatever the grammar says it is.
func (g *gen) query(d int) {
	n := 1
	if d < maxDepth && g.fuel > 1 {
		n = 1 + g.w("chain", 34-4*d, 28, 18, 10, 6, 4)
	}
	start := true
	for i := 0; i < n; i++ {
		if start && d < maxDepth && g.fuel > 1 {
			if g.pct("def", 5) {
				g.funcDefs(d)
			}
			if g.pct("label", 3) {
				g.kw("label")
				g.emit("var", g.pick("lv", varPool))
				g.p("|")
			}
		}
		g.signedTerm(d)
		if i == n-1 {
			break
		}
		if d < maxDepth && g.pct("as", 7) {
			g.kw("as")
			g.pattern(d)
			for g.pct("destalt", 20) {
				g.p("?//")
				g.pattern(d)
			}
			g.p("|")
			start = true
			continue
		}
		o := g.op(false)
		start = o == "|" || o == ","
	}
}

// exprChain: operator expression without "," and bindings, optionally with
// pipes (object values).
func (g *gen) exprChain(d int, pipes bool) {
	n := 1
	if d < maxDepth && g.fuel > 1 {
		n = 1 + g.w("echain", 50, 28, 14, 8)
	}
	for i := 0; i < n; i++ {
		g.signedTerm(d)
		if i == n-1 {
			break
		}
		if pipes && g.pct("opipe", 25) {
			g.p("|")
		} else {
			g.op(true)
		}
	}
}

func (g *gen) funcDefs(d int) {
	k := 1 + g.w("ndefs", 80, 20)
	for i := 0; i < k; i++ {
		g.kw("def")
		g.emit("id", g.pick("fname", identPool))
		if np := g.w("nparams", 60, 25, 15); np > 0 {
			g.p("(")
			for j := 0; j < np; j++ {
				if j > 0 {
					g.p(";")
				}
				if g.pct("pvar", 40) {
					g.emit("var", g.pick("pv", varPool))
				} else {
					g.emit("id", g.pick("pn", identPool))
				}
			}
			g.p(")")
		}
		g.p(":")
		g.query(d + 1)
		g.p(";")
	}
}

func (g *gen) pattern(d int) {
	k := 0
	if d < maxDepth {
		k = g.w("pat", 60, 20, 20)
	}
	switch k {
	case 0:
		g.emit("var", g.pick("patv", varPool))
	case 1:
		g.p("[")
		for i, n := 0, 1+g.w("npa", 50, 35, 15); i < n; i++ {
			if i > 0 {
				g.p(",")
			}
			g.pattern(d + 1)
		}
		g.p("]")
	default:
		g.p("{")
		for i, n := 0, 1+g.w("npo", 50, 35, 15); i < n; i++ {
			if i > 0 {
				g.p(",")
			}
			switch g.w("pokey", 25, 15, 20, 8, 12, 8, 12) {
			case 0:
				g.emit("var", g.pick("pov", varPool))
			case 1:
				g.emit("var", g.pick("pov", varPool))
				g.p(":")
				g.pattern(d + 1)
			case 2:
				g.emit("id", g.pick("poi", identPool))
				g.p(":")
				g.pattern(d + 1)
			case 3:
				g.kw(g.pick("pok", keyKwPool))
				g.p(":")
				g.pattern(d + 1)
			case 4:
				g.plainStr()
				g.p(":")
				g.pattern(d + 1)
			case 5:
				g.interpStr(d + 1)
				g.p(":")
				g.pattern(d + 1)
			default:
				g.p("(")
				g.query(d + 1)
				g.p(")")
				g.p(":")
				g.pattern(d + 1)
			}
		}
		g.p("}")
	}
}

func (g *gen) signedTerm(d int) {
	for i := 0; i < 2 && g.pct("sign", 9); i++ {
		if g.pct("plus", 25) {
			g.p("+")
		} else {
			g.p("-")
		}
	}
	g.postfixTerm(d)
}

// bracket emits "[...]" of a suffix; returns true for "[]".
func (g *gen) bracket(d int) bool {
	g.p("[")
	k := g.w("br", 25, 45, 10, 10, 10)
	if d >= maxDepth && k != 0 {
		k = 0
	}
	switch k {
	case 0:
	case 1:
		g.query(d + 1)
	case 2:
		g.query(d + 1)
		g.p(":")
		g.query(d + 1)
	case 3:
		g.p(":")
		g.query(d + 1)
	default:
		g.query(d + 1)
		g.p(":")
	}
	g.p("]")
	return k == 0
}

func (g *gen) postfixTerm(d int) {
	kind := g.base(d)
	var ns int
	if kind == "dot" || kind == "num" || kind == "rec" {
		ns = g.w("nsfxd", 35, 40, 15, 10)
	} else {
		ns = g.w("nsfx", 55, 28, 11, 6)
	}
	for i := 0; i < ns; i++ {
		k := g.w("sfx", 30, 15, 14, 6, 12, 6)
		if (kind == "dot" || kind == "num" || kind == "rec") && i == 0 && g.pct("dotty", 50) {
			k = []int{0, 4, 3}[g.n("dottyk", 3)]
		}
		switch k {
		case 0:
			g.emit("idx", g.pick("sidx", idxPool))
		case 1:
			g.p("?")
		case 2:
			g.bracket(d)
		case 3:
			// ". [ ... ]"
			start := len(g.out)
			g.p(".")
			iter := g.bracket(d)
			if kind == "dot" && i == 0 && !iter && g.avoid["C09/identity-dot-bracket"] {
				// known finding: `. .[e]` prints as `.[e]`; drop the dot
				g.out = append(g.out[:start], g.out[start+1:]...)
				g.excluded["C09/identity-dot-bracket"]++
			}
		case 4:
			g.p(".")
			g.plainStr()
		default:
			g.p(".")
			g.anyStr(d)
		}
	}
}

// base emits a term without suffixes and reports its kind ("dot", "rec",
// "num" or "").
func (g *gen) base(d int) string {
	g.fuel--
	leaf := d >= maxDepth || g.fuel <= 0
	var k int
	if leaf {
		k = g.w("leaf", 10, 3, 12, 10, 6, 8, 4, 6, 2, 1, 3, 2, 2, 2)
	} else if g.pct("composite", 42) {
		k = 14 + g.w("comp", 9, 5, 6, 5, 5, 2, 4, 4, 2, 2, 4, 2)
	} else {
		k = g.w("leaf", 10, 3, 12, 10, 6, 8, 4, 6, 2, 1, 3, 2, 2, 2)
	}
	switch k {
	case 0:
		g.p(".")
		return "dot"
	case 1:
		g.p("..")
		return "rec"
	case 2:
		g.emit("idx", g.pick("idx", idxPool))
	case 3:
		g.emit("num", g.pick("num", numPool))
		return "num"
	case 4:
		g.emit("var", g.pick("var", varPool))
	case 5:
		g.emit("id", g.pick("id", identPool))
	case 6:
		g.kw(g.pick("const", []string{"null", "true", "false"}))
	case 7:
		g.plainStr()
	case 8:
		g.emit("fmt", g.pick("fmt", fmtPool))
	case 9:
		g.kw("break")
		g.emit("var", g.pick("bv", varPool))
	case 10:
		g.p(".")
		g.plainStr()
	case 11:
		if g.pct("modvar", 40) {
			g.emit("var", g.pick("mv", modVarPool))
		} else {
			g.emit("id", g.pick("mi", modIdPool))
		}
	case 12:
		g.p("[")
		g.p("]")
	case 13:
		g.p("{")
		g.p("}")
	case 14:
		g.p("(")
		g.query(d + 1)
		g.p(")")
	case 15:
		g.p("[")
		g.query(d + 1)
		g.p("]")
	case 16:
		g.object(d)
	case 17:
		if g.pct("modcall", 10) {
			g.emit("id", g.pick("mi", modIdPool))
		} else {
			g.emit("id", g.pick("id", identPool))
		}
		g.p("(")
		for i, n := 0, 1+g.w("nargs", 55, 30, 15); i < n; i++ {
			if i > 0 {
				g.p(";")
			}
			g.query(d + 1)
		}
		g.p(")")
	case 18:
		g.interpStr(d)
	case 19:
		g.emit("fmt", g.pick("fmt", fmtPool))
		g.anyStr(d)
	case 20:
		g.kw("if")
		g.query(d + 1)
		g.kw("then")
		g.query(d + 1)
		for i, n := 0, g.w("nelif", 70, 22, 8); i < n; i++ {
			g.kw("elif")
			g.query(d + 1)
			g.kw("then")
			g.query(d + 1)
		}
		if g.pct("else", 65) {
			g.kw("else")
			g.query(d + 1)
		}
		g.kw("end")
	case 21:
		g.kw("try")
		g.signedTerm(d + 1)
		if g.pct("catch", 50) {
			g.kw("catch")
			g.signedTerm(d + 1)
		}
	case 22, 23:
		if k == 22 {
			g.kw("reduce")
		} else {
			g.kw("foreach")
		}
		if g.pct("rsrc", 25) {
			g.exprChain(d+1, false)
		} else {
			g.postfixTerm(d + 1)
		}
		g.kw("as")
		g.pattern(d + 1)
		g.p("(")
		g.query(d + 1)
		g.p(";")
		g.query(d + 1)
		if k == 23 && g.pct("extract", 50) {
			g.p(";")
			g.query(d + 1)
		}
		g.p(")")
	case 24:
		g.p(".")
		if g.bracket(d) {
			return ""
		}
	default:
		g.p(".")
		g.interpStr(d)
	}
	return ""
}

func (g *gen) object(d int) {
	g.p("{")
	n := 1 + g.w("nkv", 45, 35, 20)
	for i := 0; i < n; i++ {
		if i > 0 {
			g.p(",")
		}
		needVal := false
		switch g.w("okey", 30, 12, 14, 16, 10, 12) {
		case 0:
			g.emit("id", g.pick("oki", identPool))
		case 1:
			g.kw(g.pick("okk", keyKwPool))
		case 2:
			g.emit("var", g.pick("okv", varPool))
		case 3:
			g.plainStr()
		case 4:
			g.interpStr(d + 1)
		default:
			g.p("(")
			g.query(d + 1)
			g.p(")")
			needVal = true
		}
		if needVal || g.pct("oval", 75) {
			g.p(":")
			g.exprChain(d+1, true)
		}
	}
	if g.pct("trailing", 6) {
		g.p(",")
	}
	g.p("}")
}

func (g *gen) constTerm(d int) {
	k := g.w("ct", 25, 25, 20, 15, 15)
	if d >= 3 && k >= 3 {
		k = 0
	}
	switch k {
	case 0:
		g.emit("num", g.pick("cnum", numPool))
	case 1:
		g.plainStr()
	case 2:
		g.kw(g.pick("cconst", []string{"null", "true", "false"}))
	case 3:
		g.p("[")
		for i, n := 0, g.w("ncarr", 25, 40, 35); i < n; i++ {
			if i > 0 {
				g.p(",")
			}
			g.constTerm(d + 1)
		}
		g.p("]")
	default:
		g.constObject(d + 1)
	}
}

func (g *gen) constObject(d int) {
	g.p("{")
	n := g.w("nckv", 20, 45, 35)
	for i := 0; i < n; i++ {
		if i > 0 {
			g.p(",")
		}
		switch g.w("ckey", 45, 20, 35) {
		case 0:
			g.emit("id", g.pick("cki", identPool))
		case 1:
			g.kw(g.pick("ckk", keyKwPool))
		default:
			g.plainStr()
		}
		g.p(":")
		g.constTerm(d)
	}
	if n > 0 && g.pct("ctrailing", 8) {
		g.p(",")
	}
	g.p("}")
}

func (g *gen) importPath() {
	g.plainStr()
	if last := g.out[len(g.out)-1]; last.S == `""` && g.avoid["C09/empty-import-path"] {
		// known finding: `import "" as x;` prints as `include "";`
		g.out = g.out[:len(g.out)-1]
		g.excluded["C09/empty-import-path"]++
		g.emit("str", `"m"`)
	}
}

func (g *gen) program() {
	if g.pct("header", 8) {
		if g.pct("module", 60) {
			g.kw("module")
			g.constObject(0)
			g.p(";")
		}
		for i, n := 0, g.w("nimports", 30, 45, 25); i < n; i++ {
			if g.pct("include", 40) {
				g.kw("include")
				g.plainStr()
			} else {
				g.kw("import")
				g.importPath()
				g.kw("as")
				if g.pct("aliasvar", 40) {
					g.emit("var", g.pick("alv", varPool))
				} else {
					g.emit("id", g.pick("ali", identPool))
				}
			}
			if g.pct("immeta", 35) {
				g.constObject(0)
			}
			g.p(";")
		}
	}
	switch g.w("body", 94, 4, 2) {
	case 1: // a module: definitions only
		for i, n := 0, 1+g.w("nmoddefs", 40, 40, 20); i < n; i++ {
			g.funcDefs(0)
		}
		return
	case 2:
		return
	}
	g.query(0)
}

func genProgram(t *rapid.T, avoid map[string]bool, excluded map[string]int) []tok {
	g := &gen{t: t, avoid: avoid, excluded: excluded}
	g.fuel = []int{3, 6, 10, 16, 24, 40}[g.w("fuel", 10, 20, 25, 20, 15, 10)]
	g.hostile = g.pct("hostilestrings", 4)
	g.program()
	return g.out
}

// ---------------------------------------------------------------------------
// token-level mutation: near-misses of grammatical programs

var mutPool = []tok{{"p", "|"}, {"p", ","}, {"p", "-"}, {"p", "?"}, {"p", "."}, {"p", ".."}, {"idx", ".a"}, {"num", "1"}, {"num", "1."}, {"kw", "as"}, {"var", "$x"},
	{"p", "?//"}, {"p", "//"}, {"p", "="}, {"kw", "and"}, {"p", "("}, {"p", ")"}, {"p", "["}, {"p", "]"}, {"p", ":"}, {"p", ";"}, {"kw", "end"}, {"kw", "try"}, {"kw", "catch"},
	{"id", "e"}, {"str", `"s"`}, {"fmt", "@json"}, {"kw", "def"}, {"kw", "else"}, {"p", "{"}, {"p", "}"}, {"p", "//="}, {"p", "<"}}

func mutate(t *rapid.T, ts []tok) []tok {
	out := append([]tok(nil), ts...)
	for i, n := 0, rapid.IntRange(1, 2).Draw(t, "nmut"); i < n && len(out) > 0; i++ {
		j := rapid.IntRange(0, len(out)-1).Draw(t, "mutpos")
		if k := out[j].K; k == "s(" || k == ")(" || k == ")s" {
			continue
		}
		switch rapid.IntRange(0, 3).Draw(t, "mutkind") {
		case 0: // delete
			out = append(out[:j], out[j+1:]...)
		case 1: // duplicate
			out = append(out[:j+1], out[j:]...)
		case 2: // swap with the next
			if j+1 < len(out) {
				if k := out[j+1].K; k != "s(" && k != ")(" && k != ")s" {
					out[j], out[j+1] = out[j+1], out[j]
				}
			}
		default: // replace
			out[j] = mutPool[rapid.IntRange(0, len(mutPool)-1).Draw(t, "mutrepl")]
		}
	}
	return out
}

// ---------------------------------------------------------------------------
// re-spacing

// Comments are built line by line after the rule of the jq 1.7 manual (and of
// cli/test.yaml "query with comment with newline" + dos/mac variants): a
// comment runs to the end of the line; when the line ends in an ODD number of
// backslashes the line end (LF, CR LF or CR, CR LF counting as one) is escaped
// and the comment continues on the next line, whatever that line looks like:
// empty, only backslashes, starting with a backslash, containing "#", itself
// continued.  An even number of backslashes does not continue.
var commentPieces = []string{"c", " comment", `"`, `\(`, ")", "#", `\a`, "é", "|", "def ", "\t", "'", "]", "}", "1", ` \ `, `a\\b`, `\\x`, `\\\x`, " ", "# x", "+ 2"}

var lineEnds = []string{"\n", "\n", "\n", "\r\n", "\r"}

func genComment(t *rapid.T, last bool, nul bool) string {
	var sb strings.Builder
	sb.WriteByte('#')
	prevEnd := ""
	const maxLines = 5
	for line := 0; line < maxLines; line++ {
		content := ""
		if line == 0 || rapid.IntRange(0, 9).Draw(t, "cline") >= 4 {
			var lb strings.Builder
			for i, n := 0, rapid.IntRange(0, 3).Draw(t, "clen"); i < n; i++ {
				if nul && rapid.IntRange(0, 9).Draw(t, "cnul") == 0 {
					lb.WriteByte(0)
					continue
				}
				lb.WriteString(commentPieces[rapid.IntRange(0, len(commentPieces)-1).Draw(t, "cpiece")])
			}
			content = lb.String()
		}
		// trailing backslashes: 0..4
		k := []int{0, 0, 0, 0, 1, 1, 1, 2, 2, 3, 3, 4}[rapid.IntRange(0, 11).Draw(t, "cbs")]
		if line == maxLines-1 && k%2 == 1 {
			k++
		}
		content += strings.Repeat(`\`, k)
		end := lineEnds[rapid.IntRange(0, len(lineEnds)-1).Draw(t, "cend")]
		if prevEnd == "\r" && content == "" && end == "\n" {
			end = "\r\n" // `\` CR LF would be ONE escaped line end
		}
		sb.WriteString(content)
		if last && rapid.IntRange(0, 7).Draw(t, "ceof") == 0 {
			return sb.String() // the comment runs into the end of the program
		}
		sb.WriteString(end)
		if k%2 == 0 {
			return sb.String()
		}
		if last && rapid.IntRange(0, 7).Draw(t, "ceof2") == 0 {
			return sb.String() // escaped line end, then end of the program
		}
		prevEnd = end
	}
	return sb.String()
}

// glueSafe: writing a directly before b cannot change the token sequence
// (judged by tokenizing the two texts together).
func glueSafe(a, b tok) bool {
	if a.K == "str" || a.K == ")s" || a.K == "s(" || a.K == ")(" {
		return true
	}
	if b.K == "str" || b.K == "s(" || b.K == ")(" || b.K == ")s" {
		return true
	}
	ts, err := tokenize(a.S + b.S)
	return err == nil && len(ts) == 2 && ts[0] == a && ts[1] == b
}

// respace renders the token list with drawn separators.  ok is false when
// the result could not be verified to have the same token sequence.
func respace(t *rapid.T, ts []tok, nul bool) (text string, mode string, ok bool) {
	mode = []string{"mixed", "mixed", "mixed", "dense", "lines", "comments"}[rapid.IntRange(0, 5).Draw(t, "mode")]
	seps := make([]string, len(ts)+1)
	for i := range seps {
		var k int
		switch mode {
		case "dense":
			k = 0
		case "lines":
			k = 4
		case "comments":
			k = 9
		default:
			k = rapid.IntRange(0, 11).Draw(t, "sep")
		}
		switch k {
		case 0, 1, 2, 3:
			seps[i] = ""
		case 4:
			seps[i] = "\n"
		case 5:
			seps[i] = "\t"
		case 6:
			seps[i] = "\r"
		case 7:
			seps[i] = "\r\n"
		case 8:
			seps[i] = " \n\t "
		case 9, 10:
			seps[i] = genComment(t, i == len(ts), nul)
			if rapid.Bool().Draw(t, "cpad") {
				seps[i] = " " + seps[i] + " "
			}
		default:
			seps[i] = " "
		}
		if seps[i] == "" && i > 0 && i < len(ts) && !glueSafe(ts[i-1], ts[i]) {
			seps[i] = " "
		}
	}
	build := func() string {
		var sb strings.Builder
		for i, tk := range ts {
			sb.WriteString(seps[i])
			sb.WriteString(tk.S)
		}
		sb.WriteString(seps[len(ts)])
		return sb.String()
	}
	text = build()
	if got, err := tokenize(text); err == nil && sameToks(got, ts) {
		return text, mode, true
	}
	// a glue changed the tokens through a longer context (e.g. "?" "/" "/")
	for i := range seps {
		if seps[i] == "" {
			seps[i] = " "
		}
	}
	text = build()
	if got, err := tokenize(text); err == nil && sameToks(got, ts) {
		return text, mode + "/fallback", true
	}
	return text, mode, false
}
