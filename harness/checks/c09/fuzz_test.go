package c09

import (
	"encoding/json"
	"testing"

	"verif/internal/evid"
)

// FuzzParseRoundTrip is the native coverage-guided target of the thorough
// tier: any byte string that Parse accepts must print to a text that parses
// to a deeply equal AST, and its operator skeleton must be the one jq's
// precedence table prescribes (same oracles as the rapid sub-checks).
func FuzzParseRoundTrip(f *testing.F) {
	if rec == nil {
		rec = evid.Open("C09")
	}
	for _, s := range []string{".", ".a.b[0]", "1 + 2 * 3", ". as [$a, {b: $c}] ?// $d | $a", "def f(g; $x): g | $x; f(.; 1)", "\"a\\(1 + \"b\\(2)\")c\"", "reduce .[] as $x (0; . + $x)", "if . then 1 elif 2 then 3 else 4 end",
		"try error catch .", "label $l | break $l", "@base64 \"x\\(.)\"", ".[1:2]?", "..", "-1", "{a: 1, \"b\": 2, (1): 3, $x, @json \"k\": 4}", "import \"a\" as a; a::f", ". .a", "1 as $x | 2 as $y | [$x,$y]", "a // b // c", ".a |= . + 1", "1 #c\n+ 2"} {
		f.Add(s)
	}
	f.Fuzz(func(t *testing.T, src string) {
		if len(src) > 200 {
			t.Skip()
		}
		c := srcCase{Src: src}
		if rec.KnownClass(clsNul) && hasNulOutsideStrings(src) {
			t.Skip() // known finding C09.F3, excluded by construction
		}
		if !skipRoundTrip(src) {
			if msg, _, _ := checkRoundTrip(c); msg != "" {
				b, _ := json.Marshal(map[string]any{"sub": "roundtrip", "case": c})
				t.Fatalf("VERIF-CASE %s VERIF-END %s", b, msg)
			}
		}
		if msg, _, _ := checkShape(c); msg != "" {
			b, _ := json.Marshal(map[string]any{"sub": "shape", "case": c})
			t.Fatalf("VERIF-CASE %s VERIF-END %s", b, msg)
		}
	})
}
