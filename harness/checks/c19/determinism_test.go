package c19

import (
	"encoding/json"
	"fmt"
	"strconv"
	"strings"
	"testing"

	"github.com/itchyny/gojq"
	"pgregory.net/rapid"

	"verif/internal/run"
	"verif/internal/univ"
)

// determinism: the output is a function of the query and the input alone,
// hence the same from run to run.  Go randomises map iteration per iteration,
// so anything in the interpreter that walks a Go map without sorting shows up
// as outputs that differ between repetitions.  Order-sensitive consumers are
// applied to arrays of 2-6 WIDE objects (0..100 keys, identical or nearly
// identical key sets, values differing at several keys in opposite
// directions, also nested); each case is compiled once and run 8 times, then
// compiled afresh and run twice more: all serialised outcomes must be equal.

type detCase struct {
	Query string `json:"query"`
	Input univ.V `json:"input"`
}

const detRuns = 8

func serialise(r run.Result) string {
	var sb strings.Builder
	for _, v := range r.Vals {
		b, err := json.Marshal(univ.Enc(v)) // Enc orders object members itself
		if err != nil {
			b = []byte(fmt.Sprintf("unencodable %T", v))
		}
		sb.Write(b)
		sb.WriteByte('\n')
	}
	if r.Err != nil {
		sb.WriteString("ERROR " + r.Err.Error() + "\n")
	}
	if r.Budget {
		sb.WriteString("BUDGET\n")
	}
	if r.Panic != "" {
		sb.WriteString("PANIC " + r.Panic)
	}
	return sb.String()
}

func checkDet(c detCase) (msg, discard string) {
	q, err := gojq.Parse(c.Query)
	if err != nil {
		return "", "parse-error"
	}
	var first string
	n := 0
	for round := 0; round < 2; round++ {
		code, err := safeCompile(q)
		if err != nil {
			if m := isCompilePanic(err); m != "" {
				return m, ""
			}
			return "", "compile-error"
		}
		runs := detRuns
		if round == 1 {
			runs = 2
		}
		for i := 0; i < runs; i++ {
			r := run.Exec(code, univ.Copy(c.Input.X), steps*4, maxOuts)
			if r.Panic != "" {
				return "gojq panicked: " + r.Panic, ""
			}
			s := serialise(r)
			if n == 0 {
				first = s
			} else if s != first {
				return fmt.Sprintf("%q gives different outputs on the same input from run to run (repetition %d, compilation %d):\n  first run: %s\n  this run:  %s\n  input: %s",
					c.Query, n, round, clip(first, 700), clip(s, 700), clip(univ.Show(c.Input.X), 900)), ""
			}
			n++
		}
	}
	return "", ""
}

func clip(s string, n int) string {
	if len(s) > n {
		return s[:n] + "..."
	}
	return s
}

var detKeyCounts = []int{0, 1, 7, 8, 9, 10, 16, 17, 33, 100}

var detQueries = []string{
	"sort", "sort_by(.k00)", "sort_by(.)", "sort_by(.k01, .k00)", "group_by(.)", "group_by(.k00) | map(length)", "unique", "unique_by(.)", "unique_by(.k00)", "min", "max", "min_by(.)", "max_by(.)",
	"[.[0] < .[1], .[0] <= .[1], .[0] > .[1], .[0] >= .[1], .[0] == .[1], .[0] != .[1]]", "[.[] as $a | .[] as $b | $a < $b]", "[.[] as $a | .[] as $b | [$a, $b] | sort | .[0] == $a]",
	"sort as $s | [.[] as $x | $s | bsearch($x)]", "[.[] as $x | bsearch($x)]", "indices(.[1])", "index([.[-1]])", "[.[] as $x | index([$x])]", "tojson", "map(tostring)", "map(keys)", "map(to_entries)", "[tostream] | length",
	"[tostream] | .[:40]", "[paths] | .[:60]", "[..] | length", "add", "walk(.)", "map(with_entries(.))", "@json", "@text", "\"\\(.)\"", "map(tojson) | sort", "[.[] | [.[]]]", "map(to_entries | map(.value))",
	"map([.[]] | add?)", "[.[] | keys_unsorted]", "map(map_values(. ))", "flatten", "map(del(.k00)) | sort", "[limit(5; .[] | .[])]", "map(to_entries[0])", "first(.[] | .[])", "sort | reverse | sort == sort",
	"[.[] | tojson] | unique | length", "map(. as $o | [$o] | sort | .[0] == $o)", "[min, max] | .[0] <= .[1]", "sort | map(tojson) == (map(tojson) | sort)", "group_by(.) | map(.[0])", "[.[] | .. | numbers] | add",
	"map(with_entries(.value |= tostring))", "map(to_entries | from_entries) == .", "[.[] | [paths(type == \"number\")] | length]", "map(. * {k00: 5}) | sort", "map(. + {zz: 1}) | unique", "[.[] | has(\"k00\")]",
	"sort_by(.w) | map(.w | length?)", "map(.w?) | sort", "[.[] | .w? | sort?]", "map(.w? | min?)", "[.[] | .w? | group_by(.)?]",
}

func detKey(i int) string { return fmt.Sprintf("k%02d", i) }

// detObjects builds m objects of k keys: a common base, object j differing
// from it at a few keys in opposite directions.
func detObjects(t *rapid.T, k, m int, near bool) []any {
	objs := make([]any, m)
	for j := 0; j < m; j++ {
		o := make(map[string]any, k)
		for i := 0; i < k; i++ {
			o[detKey(i)] = i % 5
		}
		if k >= 2 {
			d := rapid.IntRange(2, 4).Draw(t, "diffs")
			for x := 0; x < d; x++ {
				p := rapid.IntRange(0, k-1).Draw(t, "pos")
				delta := j + 1
				if x%2 == 1 {
					delta = -delta
				}
				switch rapid.IntRange(0, 5).Draw(t, "valkind") {
				case 0:
					o[detKey(p)] = strconv.Itoa(delta)
				case 1:
					o[detKey(p)] = []any{delta}
				default:
					o[detKey(p)] = (p % 5) + delta
				}
			}
		} else if k == 1 {
			o[detKey(0)] = rapid.IntRange(0, 2).Draw(t, "v")
		}
		if near && k >= 2 && rapid.IntRange(0, 2).Draw(t, "dropadd") == 0 {
			if rapid.Bool().Draw(t, "drop") {
				delete(o, detKey(rapid.IntRange(0, k-1).Draw(t, "dropkey")))
			} else {
				o["zz"+strconv.Itoa(j%2)] = j
			}
		}
		objs[j] = o
	}
	return objs
}

func genDetInput(t *rapid.T) (any, int, bool) {
	k := pick(t, "keys", detKeyCounts)
	m := rapid.IntRange(2, 6).Draw(t, "objects")
	near := rapid.IntRange(0, 3).Draw(t, "near") == 0
	objs := detObjects(t, k, m, near)
	nested := rapid.IntRange(0, 3).Draw(t, "nested") == 0
	if nested {
		// wide objects inside arrays inside wide objects
		k2 := pick(t, "outerkeys", []int{1, 9, 17})
		outer := make([]any, m)
		for j := range outer {
			o := make(map[string]any, k2+1)
			for i := 0; i < k2; i++ {
				o[detKey(i)] = i % 3
			}
			inner := detObjects(t, k, rapid.IntRange(2, 3).Draw(t, "inner"), false)
			o["w"] = inner
			outer[j] = o
		}
		return outer, k, true
	}
	return objs, k, false
}

func doDet(c detCase, k int, nested bool) string {
	rec.Eval()
	msg, discard := checkDet(c)
	if discard != "" {
		rec.Discard("determinism/" + discard)
		return ""
	}
	rec.Class("determinism/keys=" + strconv.Itoa(k))
	if nested {
		rec.Class("determinism/nested")
	}
	if k >= 2 {
		rec.NT("determinism\x00" + c.Query + "\x00" + univ.Show(c.Input.X))
	}
	sample("determinism", map[string]any{"sub": "determinism", "query": c.Query, "keys": k, "nested": nested})
	return msg
}

// wideAmbientInputs are added to the inputs of the ambient sub-check.
func wideAmbientInputs() []any {
	mk := func(k int, deltas [][2]int) map[string]any {
		o := make(map[string]any, k)
		for i := 0; i < k; i++ {
			o[detKey(i)] = i % 5
		}
		for _, d := range deltas {
			o[detKey(d[0])] = d[1]
		}
		return o
	}
	return []any{
		[]any{mk(9, [][2]int{{1, 9}, {7, -9}}), mk(9, [][2]int{{1, -9}, {7, 9}}), mk(9, [][2]int{{3, 7}, {5, -7}, {8, 2}})},
		[]any{mk(17, [][2]int{{2, 5}, {11, -5}}), mk(17, [][2]int{{2, -5}, {11, 5}}), mk(17, nil), mk(17, [][2]int{{0, 1}, {16, -1}})},
		map[string]any{"a": []any{mk(33, [][2]int{{4, 8}, {30, -8}}), mk(33, [][2]int{{4, -8}, {30, 8}})}, "b": mk(10, [][2]int{{9, 1}})},
	}
}

func runDeterminism(t *testing.T) {
	// (E) every query x every key count, three objects with opposite differences
	idx := 0
	complete := true
	for _, q := range detQueries {
		for _, k := range detKeyCounts {
			idx++
			if !rec.Mine(idx) || rec.Violations() > 20 {
				continue
			}
			objs := make([]any, 3)
			for j := range objs {
				o := make(map[string]any, k)
				for i := 0; i < k; i++ {
					o[detKey(i)] = i % 5
				}
				if k >= 2 {
					o[detKey((j+idx)%k)] = 10 + j
					o[detKey((j*3+1+idx)%k)] = -10 - j
				}
				if k >= 9 {
					o["w"] = []any{map[string]any{"k00": j}, map[string]any{"k00": -j}}
				}
				objs[j] = o
			}
			c := detCase{Query: q, Input: univ.V{X: objs}}
			if msg := doDet(c, k, false); msg != "" {
				rec.Direct("determinism", c, "%s", msg)
				complete = false
			}
		}
	}
	rec.Exhaustive("determinism: order-sensitive queries x key counts {0,1,7,8,9,10,16,17,33,100}", complete)

	rec.Rapid(t, "determinism", rec.Scale(4800, 160000), func(t *rapid.T) {
		in, k, nested := genDetInput(t)
		c := detCase{Query: pick(t, "query", detQueries), Input: univ.V{X: in}}
		if msg := doDet(c, k, nested); msg != "" {
			t.Fatalf("%s", rec.Fail("determinism", c, "%s", msg))
		}
	})
}
