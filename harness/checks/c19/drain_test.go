package c19

import (
	"context"
	"fmt"
	"runtime/debug"
	"strconv"
	"strings"

	"github.com/itchyny/gojq"

	"verif/internal/run"
	"verif/internal/univ"
)

// An error does not end a gojq iteration: the caller may keep calling Next
// (option_test.go, TestWithIterFunctionError).  drain drives a run that way:
// every item until (nil, false), then two more calls, at most maxCalls calls
// in all, under a deterministic step budget.  A Go callback and its jq
// definition must give the same trace, including what comes AFTER an error.

const (
	drainCalls = 40
	drainPost  = 2
)

type drainItem struct {
	end   bool
	isErr bool
	v     any    // value, or what catch would see for an error
	key   string // errKey for errors
}

type drainTrace struct {
	items  []drainItem
	panic  string
	budget bool
}

func (d drainTrace) String() string {
	parts := make([]string, 0, len(d.items)+1)
	for _, it := range d.items {
		switch {
		case it.end:
			parts = append(parts, "END")
		case it.isErr:
			parts = append(parts, it.key)
		default:
			parts = append(parts, univ.Show(it.v))
		}
	}
	if d.panic != "" {
		first := d.panic
		if i := strings.IndexByte(first, '\n'); i >= 0 {
			first = first[:i]
		}
		parts = append(parts, "PANIC("+first+")")
	}
	return strings.Join(parts, " ; ")
}

func drain(code *gojq.Code, input any, maxSteps int) (d drainTrace) {
	ctx := run.NewCountCtx(maxSteps)
	defer func() {
		if r := recover(); r != nil {
			st := string(debug.Stack())
			if len(st) > 1200 {
				st = st[:1200]
			}
			d.panic = fmt.Sprintf("%v\n%s", r, st)
		}
	}()
	it := code.RunWithContext(ctx, input)
	post := -1
	for n := 0; n < drainCalls; n++ {
		v, ok := it.Next()
		if !ok {
			d.items = append(d.items, drainItem{end: true})
			if post < 0 {
				post = 0
			}
			post++
			if post > drainPost {
				return d
			}
			continue
		}
		if err, isErr := v.(error); isErr {
			if ctx.Fired() && err == context.Canceled {
				d.budget = true
				return d
			}
			d.items = append(d.items, drainItem{isErr: true, key: errKey(err)})
			continue
		}
		d.items = append(d.items, drainItem{v: v})
	}
	return d
}

func sameTrace(a, b drainTrace) bool {
	if len(a.items) != len(b.items) {
		return false
	}
	for i := range a.items {
		x, y := a.items[i], b.items[i]
		if x.end != y.end || x.isErr != y.isErr {
			return false
		}
		if x.isErr && x.key != y.key {
			return false
		}
		if !x.isErr && !x.end && !univ.Equal(x.v, y.v) {
			return false
		}
	}
	return true
}

// compareDrained is called once the ordinary runs agreed and ended in an
// error.  It returns (message, discard).
func compareDrained(codeN, codeD *gojq.Code, input any, prefix string) (string, string) {
	dd := drain(codeD, univ.Copy(input), steps*4)
	if dd.panic != "" {
		return "driven past its errors, the jq-defined version panicked: " + dd.String() + "\n" + dd.panic, ""
	}
	if dd.budget {
		return "", "budget-after-error"
	}
	dn := drain(codeN, univ.Copy(input), steps*4)
	if dn.panic != "" {
		return "driven past its errors (Next called again after each error value), the program with the Go callbacks panicked:\n  callback " + dn.String() + "\n  def      " + dd.String() + "\n  definitions: " + prefix + "\n" + dn.panic, ""
	}
	if dn.budget {
		return "", "budget-after-error"
	}
	if !sameTrace(dn, dd) {
		return "driven past its errors (Next called again after each error value) the two programs differ:\n  callback " + dn.String() + "\n  def      " + dd.String() + "\n  definitions: " + prefix, ""
	}
	// once (nil, false), always (nil, false)
	for _, tr := range []drainTrace{dn, dd} {
		seenEnd := false
		for _, it := range tr.items {
			if seenEnd && !it.end {
				return "an iteration that had ended with (nil, false) produced an item on a later call:\n  callback " + dn.String() + "\n  def      " + dd.String() + "\n  definitions: " + prefix, ""
			}
			seenEnd = seenEnd || it.end
		}
	}
	return "", ""
}

// ---------------------------------------------------------------------------
// iitems: an iterator built with gojq.NewIter from 0..3 items, each a value,
// a Go error or a ValueError; digit i of K in base 3 says which.

func itemKind(k, i int) int {
	for ; i > 0; i-- {
		k /= 3
	}
	return k % 3
}

func itemsText(b bodySpec, cv any) string {
	arr, _ := cv.([]any)
	es := make([]string, len(arr))
	for i, e := range arr {
		switch itemKind(b.K, i) {
		case 0:
			es[i] = jsonLit(e)
		case 1: // a plain Go error: catch sees its message
			es[i] = "error(" + jsonLit(jsonLit(e)) + ")"
		default:
			es[i] = "error(" + jsonLit(e) + ")"
		}
	}
	return nest(es)
}

type plainErr struct{ msg string }

func (e *plainErr) Error() string { return e.msg }

func itemsIter(b bodySpec, cv any) gojq.Iter {
	arr, _ := cv.([]any)
	vals := make([]any, len(arr))
	for i, e := range arr {
		switch itemKind(b.K, i) {
		case 0:
			vals[i] = e
		case 1:
			vals[i] = &plainErr{jsonLit(e)}
		default:
			vals[i] = &valueErr{e}
		}
	}
	return gojq.NewIter[any](vals...) // 0 items: emptyIter, 1: unitIter, more: sliceIter
}

// contexts in which the call is not enclosed by a pending fork, and some in
// which it is
var drainContexts = []string{
	"%f", ".[] | %f", "{a: %f}", "%f + 1", "1 + %f", "[%f]", "try %f catch .", "%f, %f", "first(%f)", "%f as $x | $x", "path(%f)?",
	"reduce %f as $x (0; . + 1)", "foreach %f as $x (0; . + 1)", "{a: (.[] | %f)}", "%f + .[0]", "try %f catch \"c\", %f", "%f | %f", "[.[] | %f]", "%f?", "%f // 9",
	"limit(2; %f)", "if %f then 1 else 2 end", "\"s\\(%f)\"", "%f as [$a] ?// $a | $a", "label $l | %f", ".[%f]?", "def g: %f; g", "isempty(%f)", "[limit(1; %f)]",
	"-(%f)", "%f == 1", "%f and true", "{(%f | tostring): 1}", "getpath([%f])?", "{a: %f, b: %f}", "[%f, %f]", ".[1] | %f", "%f | ., 7", "(%f, 8) | [.]", "reduce (1,2) as $x (0; %f)",
	"foreach (1,2) as $x (0; %f; .)", "try error(%f) catch .", "%f | error", ".[0] | map(%f)", "del(.[%f])?", "to_entries | map(%f)", "first(%f, 5)", "[%f] | length", "%f | tojson", "(%f | .) as $y | [$y]",
}

var drainCalls0 = []string{"cf", "cf(1)", "cf(1, 2)", "cf(.[1])"}

func drainSweep() []customCase {
	var out []customCase
	input := univ.V{X: []any{[]any{10, 20}, "s"}}
	vals := []string{"1", "\"x\"", "{\"a\":2}"}
	// iterator functions: every item sequence of length 0..3 over {value, Go error, ValueError}
	for n := 0; n <= 3; n++ {
		total := 1
		for i := 0; i < n; i++ {
			total *= 3
		}
		for k := 0; k < total; k++ {
			body := bodySpec{Kind: "iitems", K: k, Const: "[" + strings.Join(vals[:n], ",") + "]"}
			regs := []regSpec{{Name: "cf", Min: 0, Max: 1, Iter: true, Body: body}}
			for ci, ctx := range drainContexts {
				call := drainCalls0[(ci+k+n)%len(drainCalls0)]
				if ci < 16 {
					call = "cf" // the plain call in the first contexts, always
				}
				out = append(out, customCase{Regs: regs, Src: strings.ReplaceAll(ctx, "%f", call), Input: input, Ctx: "drain-sweep", Feats: []string{"try", "drain-sweep/items=" + strconv.Itoa(n)}})
			}
		}
	}
	// plain functions returning a value, a Go error, a ValueError
	for _, body := range []bodySpec{{Kind: "const", Const: "1"}, {Kind: "errval", Const: "{\"a\":2}"}, {Kind: "errplain", Const: "\"x\""}, {Kind: "errval", Const: "null"}, {Kind: "errarg", K: 0}} {
		regs := []regSpec{{Name: "cf", Min: 0, Max: 1, Body: body}}
		for ci, ctx := range drainContexts {
			call := drainCalls0[ci%len(drainCalls0)]
			if ci < 16 {
				call = "cf"
			}
			out = append(out, customCase{Regs: regs, Src: strings.ReplaceAll(ctx, "%f", call), Input: input, Ctx: "drain-sweep", Feats: []string{"try", "drain-sweep/function"}})
		}
	}
	return out
}
