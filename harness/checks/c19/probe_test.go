package c19

import (
	"fmt"
	"testing"

	"github.com/itchyny/gojq"
)

func runq(src string, input any, opts ...gojq.CompilerOption) string {
	q, err := gojq.Parse(src)
	if err != nil {
		return "parse: " + err.Error()
	}
	c, err := gojq.Compile(q, opts...)
	if err != nil {
		return "compile: " + err.Error()
	}
	it := c.Run(input)
	s := ""
	for i := 0; i < 20; i++ {
		v, ok := it.Next()
		if !ok {
			break
		}
		if e, ok := v.(error); ok {
			s += fmt.Sprintf(" ERR(%v)", e)
			break
		}
		b, _ := gojq.Marshal(v)
		s += " " + string(b)
	}
	return s
}

func TestProbe(t *testing.T) {
	proj := gojq.WithFunction("f", 1, 1, func(x any, a []any) any { return a[0] })
	id := gojq.WithFunction("f", 1, 1, func(x any, a []any) any { return x })
	in := map[string]any{"a": map[string]any{"b": 1}, "b": 2}
	for _, src := range []string{"path(f(.a))", "path(f(.a) | .b)", "[paths(f(.a))]", "f(.a) |= 5", "path(f(.a,.b))", "path(.a | f(.b))", "try path(f(.a)) catch .", "path(f(1))", "path(f(.))"} {
		fmt.Printf("%-28s native-proj: %s\n", src, runq(src, in, proj))
		fmt.Printf("%-28s def-proj   : %s\n", src, runq("def f(a): a as $a | $a; "+src, in))
		fmt.Printf("%-28s native-id  : %s\n", src, runq(src, in, id))
		fmt.Printf("%-28s def-id     : %s\n", src, runq("def f(a): a as $a | .; "+src, in))
	}
}
