package c19

import (
	"errors"
	"fmt"
	"os"
	"path/filepath"
	"strconv"
	"strings"
	"testing"

	"github.com/itchyny/gojq"
	"pgregory.net/rapid"

	"verif/internal/gen"
	"verif/internal/run"
	"verif/internal/univ"
)

// ---------------------------------------------------------------------------
// deny: nothing is reachable without the option

type denyCase struct {
	Kind   string `json:"kind"`             // env-subst | no-compile | modulemeta
	Src    string `json:"src"`              // the program mentioning the capability
	Alt    string `json:"alt"`              // env-subst: the program with {} in its place; no-compile: the program without the mention (must compile)
	Input  univ.V `json:"input"`
	Option string `json:"option,omitempty"` // a single option that is set and must not grant this capability
}

// an in-memory module loader: nothing here touches the file system
type memLoader struct{}

func (memLoader) LoadModule(name string) (*gojq.Query, error) {
	return gojq.Parse("def f: \"module " + name + "\";")
}
func (memLoader) LoadJSON(name string) (any, error) { return []any{"data " + name}, nil }

func singleOption(name string) ([]gojq.CompilerOption, string) {
	switch name {
	case "":
		return nil, ""
	case "environ":
		return []gojq.CompilerOption{gojq.WithEnvironLoader(func() []string { return []string{"C19_GRANTED=1"} })}, ""
	case "variables":
		return []gojq.CompilerOption{gojq.WithVariables([]string{"$granted"})}, ""
	case "inputiter":
		return []gojq.CompilerOption{gojq.WithInputIter(gojq.NewIter[any]("granted-input"))}, ""
	case "function":
		return []gojq.CompilerOption{gojq.WithFunction("granted", 0, 2, func(x any, _ []any) any { return x })}, ""
	case "iterfunction":
		return []gojq.CompilerOption{gojq.WithIterFunction("granted", 0, 2, func(x any, _ []any) gojq.Iter { return gojq.NewIter[any](x) })}, ""
	case "moduleloader":
		return []gojq.CompilerOption{gojq.WithModuleLoader(memLoader{})}, ""
	}
	return nil, "unknown option " + name
}

func optionVars(name string) []any {
	if name == "variables" {
		return []any{"granted-value"}
	}
	return nil
}

type denyOutcome struct {
	msg     string
	discard string
}

func checkDeny(c denyCase) denyOutcome {
	opts, bad := singleOption(c.Option)
	if bad != "" {
		return denyOutcome{msg: bad}
	}
	vars := optionVars(c.Option)
	with := ""
	if c.Option != "" {
		with = " (with only the " + c.Option + " option set)"
	}
	switch c.Kind {
	case "env-subst", "modulemeta":
		qs, err := gojq.Parse(c.Src)
		if err != nil {
			return denyOutcome{discard: "parse-error"}
		}
		qa, err := gojq.Parse(c.Alt)
		if err != nil {
			return denyOutcome{discard: "parse-error"}
		}
		cs, errS := safeCompile(qs, opts...)
		ca, errA := safeCompile(qa, opts...)
		if m := isCompilePanic(errS, errA); m != "" {
			return denyOutcome{msg: m}
		}
		if (errS == nil) != (errA == nil) {
			return denyOutcome{msg: fmt.Sprintf("compilation differs%s: %q: %v; %q: %v", with, c.Src, errS, c.Alt, errA)}
		}
		if errS != nil {
			return denyOutcome{discard: "compile-error-both"}
		}
		if d := guard(qa, c.Input.X); d != "" {
			return denyOutcome{discard: d}
		}
		ra := run.Exec(ca, univ.Copy(c.Input.X), steps, maxOuts, vars...)
		rs := run.Exec(cs, univ.Copy(c.Input.X), steps, maxOuts, vars...)
		if rs.Panic != "" || ra.Panic != "" {
			return denyOutcome{msg: "gojq panicked: " + rs.Panic + ra.Panic}
		}
		if ra.Budget || rs.Budget {
			return denyOutcome{discard: "budget"}
		}
		if c.Kind == "modulemeta" {
			if m := sameRun("X | try modulemeta catch \"denied\"", "X | \"denied\"                    ", rs, ra); m != "" {
				return denyOutcome{msg: "modulemeta without a module loader did not simply fail" + with + ": " + m}
			}
			return denyOutcome{}
		}
		if m := sameRun("with env/$ENV", "with {}       ", rs, ra); m != "" {
			return denyOutcome{msg: "env/$ENV is not the empty object" + with + ": " + m}
		}
		return denyOutcome{}
	case "no-compile":
		qa, err := gojq.Parse(c.Alt)
		if err != nil {
			return denyOutcome{discard: "parse-error"}
		}
		if _, err := safeCompile(qa, opts...); err != nil {
			return denyOutcome{discard: "control-does-not-compile"}
		}
		qs, err := gojq.Parse(c.Src)
		if err != nil {
			return denyOutcome{msg: fmt.Sprintf("%q does not parse: %v", c.Src, err)}
		}
		if _, err := safeCompile(qs, opts...); err == nil {
			return denyOutcome{msg: fmt.Sprintf("%q compiles%s although the capability it names was not granted", c.Src, with)}
		} else if m := isCompilePanic(err); m != "" {
			return denyOutcome{msg: fmt.Sprintf("%q%s: %s", c.Src, with, m)}
		}
		return denyOutcome{}
	}
	return denyOutcome{msg: "unknown kind " + c.Kind}
}

var envForms = [][2]string{
	{"env", "{}"}, {"$ENV", "{}"}, {"(env.HOME)", "({} | .HOME)"}, {"($ENV.PATH)", "({} | .PATH)"}, {"(env | keys)", "({} | keys)"}, {"($ENV | length)", "({} | length)"},
	{"(env[])", "({} | .[])"}, {"($ENV[\"VERIF_ROOT\"])", "({} | .[\"VERIF_ROOT\"])"}, {"(env | has(\"HOME\"))", "({} | has(\"HOME\"))"}, {"($ENV | to_entries)", "({} | to_entries)"},
	{"(env.a)", "({} | .a)"}, {"(env | tojson)", "({} | tojson)"}, {"([env, $ENV] | add)", "([{}, {}] | add)"}, {"(env.VERIF_SEED // \"unset\")", "({} | .VERIF_SEED // \"unset\")"},
	{"($ENV | .[\"VERIF_TIER\"]?)", "({} | .[\"VERIF_TIER\"]?)"}, {"(env | with_entries(.))", "({} | with_entries(.))"},
}

// programs that must not compile / the same program without the capability
var noCompileForms = [][2]string{
	{"input", "."}, {"inputs", "."}, {"[inputs]", "[.]"}, {"first(inputs)", "first(.)"}, {"input | .a?", ". | .a?"}, {"try input catch .", "try . catch ."},
	{"if false then input else . end", "if false then . else . end"}, {"def f: input; .", "def f: .; ."}, {"def f: inputs; f", "def f: .; f"}, {"[limit(0; inputs)]", "[limit(0; .)]"},
	{"input?", ".?"}, {"(input // 1)", "(. // 1)"}, {". as $x | input", ". as $x | ."}, {"reduce inputs as $x (0; . + 1)", "reduce . as $x (0; . + 1)"}, {"path(input)?", "path(.)?"},
	{"label $l | input, break $l", "label $l | ., break $l"}, {"empty | input", "empty | ."}, {"\"\\(input)\"", "\"\\(.)\""}, {"{a: input}", "{a: .}"}, {"input_line_number?, input", ".?, ."},
}

var importForms = []string{
	"import \"m\" as m; ", "include \"m\"; ", "import \"data\" as $d; ", "import \"./m\" as m; ", "import \"/tmp/m\" as m; ", "import \"m\" as m {search: \"./\"}; ",
	"include \"m\" {\"search\": \"/\"}; ", "import \"a/b\" as $x; ", "import \"..\" as up; ", "import \"m\" as m; import \"n\" as n; ", "include \"\"; ", "import \".jq\" as j; ",
}

var denyWraps = []string{"%s", "[%s]", "try (%s) catch \"caught\"", "(%s)?", "def w: %s; w", ".. | (%s)", "if . then (%s) else (%s) end", "first(%s)", "[limit(2; %s)]", "{a: (%s)}", "(%s) as $v | $v", "reduce (%s) as $v (null; $v)", "path(%s)?", "(%s) // \"alt\"", "label $z | (%s)", "\"s\\(%s)\""}

var optionNames = []string{"", "environ", "variables", "inputiter", "function", "iterfunction", "moduleloader"}

func grants(option, capability string) bool {
	switch option {
	case "environ":
		return capability == "env"
	case "inputiter":
		return capability == "input"
	case "moduleloader":
		return capability == "module"
	}
	return false
}

func doDeny(sub string, c denyCase, class string) string {
	rec.Eval()
	o := checkDeny(c)
	if o.discard != "" {
		rec.Discard("deny/" + o.discard)
		return ""
	}
	rec.Class(class)
	rec.NT("deny\x00" + c.Kind + "\x00" + c.Option + "\x00" + c.Src + "\x00" + univ.Show(c.Input.X))
	sample("deny", map[string]any{"sub": sub, "kind": c.Kind, "option": c.Option, "src": c.Src, "alt": c.Alt, "input": univ.Show(c.Input.X)})
	return o.msg
}

// enterModuleDir makes the working directory one that really contains the
// modules and data files the deny programs name (m.jq, n.jq, data.json,
// a/b.json, .jq), so that a compiler that reached the file system would find
// them.  The returned function restores the previous directory.
func enterModuleDir() (func(), error) {
	old, err := os.Getwd()
	if err != nil {
		return nil, err
	}
	dir, err := os.MkdirTemp("", "c19-deny-")
	if err != nil {
		return nil, err
	}
	files := map[string]string{"m.jq": "def f: \"reached m.jq\";", "n.jq": "def g: \"reached n.jq\";", "data.json": "{\"d\": \"reached data.json\"}", ".jq": "def f: \"reached .jq\";",
		"a/b.json": "[\"reached a/b.json\"]", "a/b.jq": "def f: \"reached a/b.jq\";", "sub/keep": ""}
	for name, text := range files {
		p := filepath.Join(dir, name)
		if err := os.MkdirAll(filepath.Dir(p), 0o755); err == nil {
			err = os.WriteFile(p, []byte(text), 0o644)
		}
		if err != nil {
			os.RemoveAll(dir)
			return nil, err
		}
	}
	// "..", "/tmp/m" style names: also the parent directory holds a module
	if err := os.Chdir(filepath.Join(dir, "sub")); err != nil {
		os.RemoveAll(dir)
		return nil, err
	}
	for _, name := range []string{"m.jq", "n.jq", "data.json", ".jq"} {
		os.WriteFile(filepath.Join(dir, "sub", name), []byte(files[name]), 0o644)
	}
	os.MkdirAll(filepath.Join(dir, "sub", "a"), 0o755)
	os.WriteFile(filepath.Join(dir, "sub", "a", "b.json"), []byte(files["a/b.json"]), 0o644)
	return func() { os.Chdir(old); os.RemoveAll(dir) }, nil
}

func runDeny(t *testing.T) {
	leave, err := enterModuleDir()
	if err != nil {
		t.Fatalf("deny: %v", err)
	}
	defer leave()
	// (E) capability x embedding x single option: bounded-exhaustive
	idx := 0
	complete := true
	fixedInputs := []any{nil, map[string]any{"a": 1}, []any{1, "m"}, "m"}
	direct := func(sub string, c denyCase, class string) {
		if msg := doDeny(sub, c, class); msg != "" {
			rec.Direct(sub, c, "%s", msg)
			complete = false
		}
	}
	for _, opt := range optionNames {
		for _, w := range denyWraps {
			idx++
			if !rec.Mine(idx) || rec.Violations() > 20 {
				continue
			}
			in := univ.V{X: fixedInputs[idx%len(fixedInputs)]}
			if !grants(opt, "env") {
				for _, f := range envForms {
					c := denyCase{Kind: "env-subst", Src: strings.ReplaceAll(w, "%s", f[0]), Alt: strings.ReplaceAll(w, "%s", f[1]), Input: in, Option: opt}
					direct("deny-matrix", c, "deny/env-is-empty/option="+opt)
				}
			}
			if !grants(opt, "input") {
				for _, f := range noCompileForms {
					c := denyCase{Kind: "no-compile", Src: strings.ReplaceAll(w, "%s", f[0]), Alt: strings.ReplaceAll(w, "%s", f[1]), Input: in, Option: opt}
					direct("deny-matrix", c, "deny/input-does-not-compile/option="+opt)
				}
			}
			if !grants(opt, "module") {
				for _, f := range importForms {
					body := strings.ReplaceAll(w, "%s", pickFixed(idx, []string{".", "m::f", "$d", "f", "$d::d", "1"}))
					c := denyCase{Kind: "no-compile", Src: f + body, Alt: strings.ReplaceAll(w, "%s", "."), Input: in, Option: opt}
					direct("deny-matrix", c, "deny/import-does-not-compile/option="+opt)
				}
				for _, name := range []string{"\"m\"", "\"./m\"", "\"/etc/passwd\"", ".", "\"\"", "(\"m\", \"n\")", "\"~/.jq\""} {
					c := denyCase{Kind: "modulemeta", Src: strings.ReplaceAll(w, "%s", "("+name+" | try modulemeta catch \"denied\")"), Alt: strings.ReplaceAll(w, "%s", "("+name+" | \"denied\")"), Input: in, Option: opt}
					direct("deny-matrix", c, "deny/modulemeta-errors/option="+opt)
				}
			}
		}
	}
	rec.Exhaustive("deny: capability forms x embeddings x single options", complete)

	// (R) env/$ENV == {} inside generated programs (the process environment
	// of the test is not empty)
	progs := gen.Program(gen.Conf{AltPat: true, AltPatFree: true, Builtins: true, Paths: true, Update: true, MaxNodes: 30})
	inputs := inputGen(false)
	rec.Rapid(t, "deny-env", rec.Scale(8000, 300000), func(t *rapid.T) {
		p := progs.Draw(t, "prog")
		var srcB, altB strings.Builder
		n := 0
		// the same decisions for both texts
		type dec struct{ s, a string }
		var decs []dec
		rewriteWords(p.Src, func(w string, prev, next byte) string {
			if !replaceable[w] || prev == '.' || prev == '$' || prev == '@' || prev == ':' || next == '(' || next == ':' {
				return ""
			}
			if rapid.IntRange(0, 9).Draw(t, "subst") >= 6 {
				decs = append(decs, dec{})
				return ""
			}
			f := pick(t, "envform", envForms)
			decs = append(decs, dec{f[0], f[1]})
			n++
			return ""
		})
		for side, sb := range []*strings.Builder{&srcB, &altB} {
			i := 0
			sb.WriteString(rewriteWords(p.Src, func(w string, prev, next byte) string {
				if !replaceable[w] || prev == '.' || prev == '$' || prev == '@' || prev == ':' || next == '(' || next == ':' {
					return ""
				}
				d := decs[i]
				i++
				if side == 0 {
					return d.s
				}
				return d.a
			}))
		}
		src, alt := srcB.String(), altB.String()
		if n == 0 {
			f := pick(t, "envform", envForms)
			w := pick(t, "attach", []string{"(%P) | %E", "%E | (%P)", "[(%P), %E]", "%E as $q | (%P)", "(%P) as $q | [$q, %E]"})
			src = strings.ReplaceAll(strings.ReplaceAll(w, "%P", src), "%E", f[0])
			alt = strings.ReplaceAll(strings.ReplaceAll(w, "%P", alt), "%E", f[1])
		}
		c := denyCase{Kind: "env-subst", Src: src, Alt: alt, Input: univ.V{X: inputs.Draw(t, "input")}}
		if msg := doDeny("deny-env", c, "deny/env-is-empty/generated-program"); msg != "" {
			t.Fatalf("%s", rec.Fail("deny-env", c, "%s", msg))
		}
	})
}

func pickFixed(i int, xs []string) string { return xs[i%len(xs)] }

// ---------------------------------------------------------------------------
// environ: WithEnvironLoader's pairs are what env / $ENV show

type environCase struct {
	Pairs []string `json:"pairs"`
	Nil   bool     `json:"nil,omitempty"` // the loader returns a nil slice
}

// envModel is the rule documented by the code (compiler.go, compileFunc):
// each entry is cut at its first "="; entries without "=" or with an empty
// name are skipped; a later entry replaces an earlier one of the same name.
func envModel(pairs []string) map[string]any {
	m := map[string]any{}
	for _, kv := range pairs {
		i := strings.IndexByte(kv, '=')
		if i <= 0 {
			continue
		}
		m[kv[:i]] = kv[i+1:]
	}
	return m
}

func checkEnviron(c environCase) string {
	pairs := append([]string(nil), c.Pairs...)
	if c.Nil {
		pairs = nil
	}
	snapshot := append([]string(nil), pairs...)
	calls := 0
	loader := func() []string { calls++; return pairs }
	want := envModel(snapshot)
	keys := make([]any, 0, len(want))
	for _, k := range sortedKeys(want) {
		keys = append(keys, k)
	}
	type probe struct {
		q    string
		want any
	}
	probes := []probe{
		{"env", want}, {"$ENV", want}, {"[env, $ENV]", []any{want, want}}, {"env | keys", keys}, {"$ENV | length", len(want)},
		{"def f: env; [f, f] | unique | length", 1}, {"[.[] | $ENV] | length", 2}, {"env == $ENV", true},
	}
	for _, k := range sortedKeys(want) {
		if isPlainIdent(k) {
			probes = append(probes, probe{"env." + k, want[k]}, probe{"$ENV." + k, want[k]})
		}
		probes = append(probes, probe{"$ENV[" + jsonLit(k) + "]", want[k]})
	}
	probes = append(probes, probe{"env.C19_NOT_THERE", nil}, probe{"$ENV | has(\"VERIF_ROOT\")", want["VERIF_ROOT"] != nil})
	for _, p := range probes {
		code, err := run.Compile(p.q, gojq.WithEnvironLoader(loader))
		if err != nil {
			return fmt.Sprintf("%q: %v", p.q, err)
		}
		r := run.Exec(code, []any{1, 2}, steps, maxOuts)
		if r.Panic != "" {
			return "gojq panicked: " + r.Panic
		}
		if r.Err != nil || len(r.Vals) != 1 {
			return fmt.Sprintf("%q with pairs %q: outputs %s error %v", p.q, snapshot, univ.ShowAll(r.Vals), r.Err)
		}
		if !univ.Equal(r.Vals[0], p.want) {
			return fmt.Sprintf("%q with pairs %q gives %s, the pairs say %s", p.q, snapshot, univ.Show(r.Vals[0]), univ.Show(p.want))
		}
	}
	if len(pairs) != len(snapshot) {
		return "the loader's slice changed length"
	}
	for i := range pairs {
		if pairs[i] != snapshot[i] {
			return fmt.Sprintf("the loader's slice was modified at %d: %q -> %q", i, snapshot[i], pairs[i])
		}
	}
	return ""
}

func isPlainIdent(s string) bool {
	if s == "" || s[0] >= '0' && s[0] <= '9' {
		return false
	}
	for i := 0; i < len(s); i++ {
		if !isWord(s[i]) {
			return false
		}
	}
	switch s {
	case "and", "or", "not", "if", "then", "else", "elif", "end", "as", "def", "reduce", "foreach", "try", "catch", "label", "import", "include", "__loc__":
		return false
	}
	return true
}

func runEnviron(t *testing.T) {
	fixed := [][]string{nil, {}, {"A=1"}, {"A=1", "A=2"}, {"=v"}, {"novalue"}, {"A="}, {"A==", "B=a=b"}, {"="}, {""}, {"A=1", "novalue", "=x", "B=2", "A=3"}, {"é=ü", "a b=c d"}, {"PATH=/bin", "HOME=/root", "PATH=/usr/bin"},
		{"VERIF_ROOT=fake"}, {"A=1\n2"}, {"A\n=1"}, {"\x00=1"}, {"A=\x00"}}
	for i, ps := range fixed {
		if !rec.Mine(i) {
			continue
		}
		c := environCase{Pairs: ps, Nil: ps == nil}
		rec.Eval()
		rec.NT("environ\x00" + strings.Join(ps, "\x01"))
		rec.Class("environ/fixed")
		if msg := checkEnviron(c); msg != "" {
			rec.Direct("environ", c, "%s", msg)
		}
	}
	names := []string{"A", "B", "PATH", "HOME", "a", "_x", "A1", "é", "a b", "VERIF_ROOT", "K", "K", "A", "if", "1x", "$x", "a.b", " "}
	vals := []string{"", "v", "1", "a=b", "=", "é", " x ", "line1\nline2", "/usr/bin:/bin", "\"q\"", "null", "{}", "\\", "😀"}
	rec.Rapid(t, "environ", rec.Scale(3000, 150000), func(t *rapid.T) {
		n := rapid.IntRange(0, 8).Draw(t, "n")
		var ps []string
		malformed, dup := false, false
		seen := map[string]bool{}
		for i := 0; i < n; i++ {
			switch rapid.IntRange(0, 9).Draw(t, "shape") {
			case 0:
				ps = append(ps, pick(t, "bare", []string{"novalue", "", "A", "PATH", "é"}))
				malformed = true
			case 1:
				ps = append(ps, "="+pick(t, "val", vals))
				malformed = true
			default:
				k := pick(t, "name", names)
				if seen[k] {
					dup = true
				}
				seen[k] = true
				ps = append(ps, k+"="+pick(t, "val", vals))
			}
		}
		c := environCase{Pairs: ps}
		rec.Eval()
		switch {
		case malformed && dup:
			rec.Class("environ/malformed+duplicates")
		case malformed:
			rec.Class("environ/malformed")
		case dup:
			rec.Class("environ/duplicates")
		default:
			rec.Class("environ/plain")
		}
		if len(ps) > 0 {
			rec.NT("environ\x00" + strings.Join(ps, "\x01"))
		}
		sample("environ", map[string]any{"sub": "environ", "pairs": ps})
		if msg := checkEnviron(c); msg != "" {
			t.Fatalf("%s", rec.Fail("environ", c, "%s", msg))
		}
	})
}

// ---------------------------------------------------------------------------
// vars: WithVariables binds by position

type varsCase struct {
	Names  []string `json:"names"`
	Values []univ.V `json:"values"`
	Src    string   `json:"src"` // "" = read back [$n1, ..., $nk]
	Input  univ.V   `json:"input"`
}

type varsOutcome struct {
	msg     string
	discard string
	class   string
}

func checkVars(c varsCase) varsOutcome {
	src := c.Src
	readback := src == ""
	if readback {
		src = "[" + strings.Join(c.Names, ", ") + "]"
	}
	q, err := gojq.Parse(src)
	if err != nil {
		return varsOutcome{discard: "parse-error"}
	}
	vals := make([]any, len(c.Values))
	for i, v := range c.Values {
		vals[i] = v.X
	}
	if !readback {
		// generated programs: values in the representation a literal has
		for i := range vals {
			v, err := litValue("(" + jsonLit(vals[i]) + ")")
			if err != nil {
				return varsOutcome{msg: "bad case: " + err.Error()}
			}
			vals[i] = v
		}
	}
	code, errC := safeCompile(q, gojq.WithVariables(c.Names))
	if m := isCompilePanic(errC); m != "" {
		return varsOutcome{msg: m}
	}
	if len(vals) != len(c.Names) {
		if errC != nil {
			return varsOutcome{discard: "compile-error"}
		}
		it := func() (res run.Result) { return run.Exec(code, univ.Copy(c.Input.X), steps, maxOuts, vals...) }()
		if it.Panic != "" {
			return varsOutcome{msg: fmt.Sprintf("%d values for %d names %v: gojq panicked instead of giving an error value: %s", len(vals), len(c.Names), c.Names, it.Panic)}
		}
		if it.Err == nil || len(it.Vals) > 0 {
			return varsOutcome{msg: fmt.Sprintf("%d values for %d names %v: expected only an error value, got outputs %s error %v", len(vals), len(c.Names), c.Names, univ.ShowAll(it.Vals), it.Err)}
		}
		if len(vals) < len(c.Names) {
			return varsOutcome{class: "vars/too-few"}
		}
		return varsOutcome{class: "vars/too-many"}
	}
	if readback {
		if errC != nil {
			return varsOutcome{msg: fmt.Sprintf("names %v: %v", c.Names, errC)}
		}
		r := run.Exec(code, univ.Copy(c.Input.X), steps, maxOuts, vals...)
		if r.Panic != "" {
			return varsOutcome{msg: "gojq panicked: " + r.Panic}
		}
		// model: a name denotes the value at the position of its last occurrence
		want := make([]any, len(c.Names))
		for i, n := range c.Names {
			for j, m := range c.Names {
				if m == n {
					want[i] = vals[j]
				}
			}
		}
		if r.Err != nil || len(r.Vals) != 1 || !univ.Same(r.Vals[0], want) {
			return varsOutcome{msg: fmt.Sprintf("names %v bound to %s read back as %s (error %v), want %s", c.Names, univ.Show(vals), univ.ShowAll(r.Vals), r.Err, univ.Show(want))}
		}
		return varsOutcome{class: "vars/readback"}
	}
	// oracle: the same program behind explicit bindings, no options
	var sb strings.Builder
	for i, n := range c.Names {
		sb.WriteString("(" + jsonLit(vals[i]) + ") as " + n + " | ")
	}
	osrc := sb.String() + "(" + src + ")"
	if len(c.Names) == 0 {
		osrc = src
	}
	qo, err := gojq.Parse(osrc)
	if err != nil {
		return varsOutcome{discard: "parse-error"}
	}
	codeO, errO := safeCompile(qo)
	if m := isCompilePanic(errO); m != "" {
		return varsOutcome{msg: m}
	}
	if (errC == nil) != (errO == nil) {
		return varsOutcome{msg: fmt.Sprintf("compilation differs: WithVariables(%v): %v; %q: %v", c.Names, errC, osrc, errO)}
	}
	if errC != nil {
		return varsOutcome{discard: "compile-error-both"}
	}
	if d := guard(qo, c.Input.X); d != "" {
		return varsOutcome{discard: d}
	}
	ro := run.Exec(codeO, univ.Copy(c.Input.X), steps, maxOuts)
	rv := run.Exec(code, univ.Copy(c.Input.X), steps, maxOuts, vals...)
	if ro.Panic != "" || rv.Panic != "" {
		return varsOutcome{msg: "gojq panicked: " + rv.Panic + ro.Panic}
	}
	if ro.Budget || rv.Budget {
		return varsOutcome{discard: "budget"}
	}
	if m := sameRun("WithVariables", "as-bindings  ", rv, ro); m != "" {
		return varsOutcome{msg: fmt.Sprintf("names %v values %s: %s\n  bindings program: %s", c.Names, univ.Show(vals), m, osrc)}
	}
	return varsOutcome{class: "vars/program"}
}

var varNamePool = []string{"$a", "$b", "$x", "$y", "$z", "$v1", "$ENV", "$abc", "$a_b", "$A", "$named", "$__x", "$a", "$x"}

func isDigits(s string) bool {
	for i := 0; i < len(s); i++ {
		if s[i] < '0' || s[i] > '9' {
			return false
		}
	}
	return s != ""
}

func doVars(sub string, c varsCase) string {
	rec.Eval()
	o := checkVars(c)
	if o.discard != "" {
		rec.Discard("vars/" + o.discard)
		return ""
	}
	rec.Class(o.class)
	rec.Class("vars/names=" + strconv.Itoa(len(c.Names)))
	if len(c.Names) > 0 || len(c.Values) > 0 {
		b, _ := jsonMarshal(c)
		rec.NT("vars\x00" + string(b))
	}
	sample("vars", map[string]any{"sub": sub, "names": c.Names, "values": len(c.Values), "src": c.Src})
	return o.msg
}

func runVars(t *testing.T) {
	values := gen.Value(gen.Opt{Reps: true, Special: true, MaxDepth: 2, MaxWidth: 3})
	rec.Rapid(t, "vars-readback", rec.Scale(6000, 300000), func(t *rapid.T) {
		k := rapid.IntRange(0, 6).Draw(t, "k")
		names := make([]string, k)
		for i := range names {
			names[i] = pick(t, "name", varNamePool)
		}
		nv := k
		switch rapid.IntRange(0, 5).Draw(t, "count") {
		case 0:
			nv = k - 1
		case 1:
			nv = k + 1
		case 2:
			nv = rapid.IntRange(0, k+3).Draw(t, "nv")
		}
		if nv < 0 {
			nv = 0
		}
		vals := make([]univ.V, nv)
		for i := range vals {
			vals[i] = univ.V{X: values.Draw(t, "value")}
		}
		c := varsCase{Names: names, Values: vals, Input: univ.V{X: nil}}
		if msg := doVars("vars-readback", c); msg != "" {
			t.Fatalf("%s", rec.Fail("vars-readback", c, "%s", msg))
		}
	})

	progs := gen.Program(gen.Conf{AltPat: true, AltPatFree: true, Builtins: true, Paths: true, Update: true, MaxNodes: 30})
	inputs := inputGen(false)
	plain := rapid.SampledFrom([]any{0, 1, 2, 3, -1, 5, 0.5, 1.5, "a", "b", "", "ab", nil, true, false, []any{}, []any{1, 2}, []any{"a"}, []any{[]any{0}, 1}, map[string]any{}, map[string]any{"a": 1},
		map[string]any{"a": []any{1}, "b": "x"}, []any{map[string]any{"a": 1}}, "é", 10})
	rec.Rapid(t, "vars-prog", rec.Scale(10000, 300000), func(t *rapid.T) {
		k := rapid.IntRange(1, 4).Draw(t, "k")
		names := make([]string, k)
		for i := range names {
			names[i] = pick(t, "name", varNamePool)
		}
		p := progs.Draw(t, "prog")
		n := 0
		src := rewriteWords(p.Src, func(w string, prev, next byte) string {
			ok := replaceable[w] && !(prev == '.' || prev == '$' || prev == '@' || prev == ':' || next == '(' || next == ':')
			ok = ok || isDigits(w) && !(prev == '.' || prev == '$' || isWord(prev) || next == '.' || next == ':')
			if !ok || rapid.IntRange(0, 9).Draw(t, "subst") >= 5 {
				return ""
			}
			n++
			return pick(t, "use", names)
		})
		if n == 0 {
			src = "(" + src + ") | [., " + strings.Join(names, ", ") + "]"
		}
		nv := k
		if rapid.IntRange(0, 9).Draw(t, "miscount") == 0 {
			nv = k + rapid.SampledFrom([]int{-1, 1, 2}).Draw(t, "delta")
		}
		vals := make([]univ.V, nv)
		for i := range vals {
			vals[i] = univ.V{X: plain.Draw(t, "value")}
		}
		c := varsCase{Names: names, Values: vals, Src: src, Input: univ.V{X: inputs.Draw(t, "input")}}
		if msg := doVars("vars-prog", c); msg != "" {
			t.Fatalf("%s", rec.Fail("vars-prog", c, "%s", msg))
		}
	})
}

// ---------------------------------------------------------------------------
// input: WithInputIter, a continuation-passing model of input / inputs

type inode struct {
	Op string `json:"op"`
	N  int    `json:"n,omitempty"`
	A  *inode `json:"a,omitempty"`
	B  *inode `json:"b,omitempty"`
	C  *inode `json:"c,omitempty"`
}

type scriptItem struct {
	Val univ.V `json:"val"`
	Err string `json:"err,omitempty"` // "": a value; "plain": a Go error whose message is Val (a string); "value": a ValueError carrying Val
}

type inputCase struct {
	Prog   *inode       `json:"prog"`
	Script []scriptItem `json:"script"`
	Input  univ.V       `json:"input"`
}

func (n *inode) render() string {
	a := func() string { return n.A.render() }
	b := func() string { return n.B.render() }
	switch n.Op {
	case "input":
		return "input"
	case "inputs":
		return "inputs"
	case "lit":
		return strconv.Itoa(n.N)
	case "dot":
		return "."
	case "var":
		return "$v" + strconv.Itoa(n.N)
	case "seq":
		return "(" + a() + ", " + b() + ")"
	case "pipe":
		return "(" + a() + " | " + b() + ")"
	case "arr":
		return "[" + a() + "]"
	case "cat":
		return "([" + a() + "] + [" + b() + "])"
	case "obj":
		return "{a: " + a() + ", b: " + b() + "}"
	case "try":
		return "(try " + a() + " catch " + b() + ")"
	case "tryq":
		return "(" + a() + ")?"
	case "first":
		return "first(" + a() + ")"
	case "limit":
		return "limit(" + strconv.Itoa(n.N) + "; " + a() + ")"
	case "count":
		return "(reduce " + a() + " as $r (0; . + 1))"
	case "fcount":
		return "(foreach " + a() + " as $r (0; . + 1))"
	case "isempty":
		return "isempty(" + a() + ")"
	case "bind":
		return "(" + a() + " as $v" + strconv.Itoa(n.N) + " | " + b() + ")"
	case "if":
		return "(if " + a() + " then " + b() + " else " + n.C.render() + " end)"
	case "rng":
		return "(range(" + strconv.Itoa(n.N) + ") | " + a() + ")"
	case "twice":
		return "(def g: " + a() + "; (g, g))"
	case "err":
		return "(" + a() + " | error)"
	}
	return "error(\"bad node\")"
}

type wild struct{} // the text of the exhaustion error: not specified

type merr struct {
	val       any
	exhausted bool
}

func (e *merr) Error() string { return "model error " + univ.Show(e.val) }

type mbreak struct{ id int }

func (e *mbreak) Error() string { return "model break" }

type mpass struct{ err error }

func (e *mpass) Error() string { return e.err.Error() }

type munsup struct{ what string }

func (e *munsup) Error() string { return "unsupported: " + e.what }

type imodel struct {
	script  []scriptItem
	pos     int
	labels  int
	fuel    int
	hitErr  bool
	hitEnd  bool
	draws   int
}

func (m *imodel) draw() (any, error) {
	m.draws++
	if m.pos >= len(m.script) {
		m.hitEnd = true
		return nil, &merr{val: wild{}, exhausted: true}
	}
	it := m.script[m.pos]
	m.pos++
	if it.Err != "" {
		m.hitErr = true
		return nil, &merr{val: it.Val.X}
	}
	return it.Val.X, nil
}

func truthy(v any) bool { return v != nil && v != false }

func (m *imodel) collect(n *inode, dot any, env map[int]any) ([]any, error) {
	out := []any{}
	err := m.eval(n, dot, env, func(v any) error { out = append(out, v); return nil })
	return out, err
}

func (m *imodel) eval(n *inode, dot any, env map[int]any, k func(any) error) error {
	m.fuel--
	if m.fuel < 0 {
		return &munsup{"fuel"}
	}
	switch n.Op {
	case "input":
		v, err := m.draw()
		if err != nil {
			return err
		}
		return k(v)
	case "inputs":
		for {
			v, err := m.draw()
			if err != nil {
				if e := err.(*merr); e.exhausted {
					return nil
				}
				return err
			}
			if err := k(v); err != nil {
				return err
			}
		}
	case "lit":
		return k(n.N)
	case "dot":
		return k(dot)
	case "var":
		return k(env[n.N])
	case "seq":
		if err := m.eval(n.A, dot, env, k); err != nil {
			return err
		}
		return m.eval(n.B, dot, env, k)
	case "pipe":
		return m.eval(n.A, dot, env, func(v any) error { return m.eval(n.B, v, env, k) })
	case "arr":
		vs, err := m.collect(n.A, dot, env)
		if err != nil {
			return err
		}
		return k(vs)
	case "cat": // a native call: the last argument in the outermost loop
		bs, err := m.collect(n.B, dot, env)
		if err != nil {
			return err
		}
		as, err := m.collect(n.A, dot, env)
		if err != nil {
			return err
		}
		return k(append(append([]any{}, as...), bs...))
	case "obj":
		return m.eval(n.A, dot, env, func(a any) error {
			return m.eval(n.B, dot, env, func(b any) error { return k(map[string]any{"a": a, "b": b}) })
		})
	case "try", "tryq":
		err := m.eval(n.A, dot, env, func(v any) error {
			if e := k(v); e != nil {
				return &mpass{e}
			}
			return nil
		})
		switch e := err.(type) {
		case nil:
			return nil
		case *mpass:
			return e.err
		case *merr:
			if n.Op == "tryq" {
				return nil
			}
			return m.eval(n.B, e.val, env, k)
		}
		return err // breaks and unsupported pass
	case "first", "limit", "isempty":
		if n.Op == "limit" && n.N <= 0 {
			return nil
		}
		m.labels++
		id := m.labels
		left := n.N
		seen := false
		err := m.eval(n.A, dot, env, func(v any) error {
			seen = true
			switch n.Op {
			case "isempty":
				if e := k(false); e != nil {
					return e
				}
				return &mbreak{id}
			case "first":
				if e := k(v); e != nil {
					return e
				}
				return &mbreak{id}
			}
			left--
			if e := k(v); e != nil {
				return e
			}
			if left <= 0 {
				return &mbreak{id}
			}
			return nil
		})
		if b, ok := err.(*mbreak); ok && b.id == id {
			return nil
		}
		if b, ok := err.(*mpass); ok {
			if bb, ok := b.err.(*mbreak); ok && bb.id == id {
				return nil
			}
		}
		if err != nil {
			return err
		}
		if n.Op == "isempty" && !seen {
			return k(true)
		}
		return nil
	case "count":
		c := 0
		if err := m.eval(n.A, dot, env, func(any) error { c++; return nil }); err != nil {
			return err
		}
		return k(c)
	case "fcount":
		c := 0
		return m.eval(n.A, dot, env, func(any) error { c++; return k(c) })
	case "bind":
		return m.eval(n.A, dot, env, func(v any) error {
			e2 := map[int]any{}
			for kk, vv := range env {
				e2[kk] = vv
			}
			e2[n.N] = v
			return m.eval(n.B, dot, e2, k)
		})
	case "if":
		return m.eval(n.A, dot, env, func(c any) error {
			if _, ok := c.(wild); ok {
				return &munsup{"condition on the exhaustion message"}
			}
			if truthy(c) {
				return m.eval(n.B, dot, env, k)
			}
			return m.eval(n.C, dot, env, k)
		})
	case "rng":
		for i := 0; i < n.N; i++ {
			if err := m.eval(n.A, i, env, k); err != nil {
				return err
			}
		}
		return nil
	case "twice":
		if err := m.eval(n.A, dot, env, k); err != nil {
			return err
		}
		return m.eval(n.A, dot, env, k)
	case "err":
		return m.eval(n.A, dot, env, func(v any) error { return &merr{val: v} })
	}
	return &munsup{"node " + n.Op}
}

// matches: model value (may contain wild) against a gojq value
func matches(want, got any) bool {
	switch w := want.(type) {
	case wild:
		return true
	case []any:
		g, ok := got.([]any)
		if !ok || len(g) != len(w) {
			return false
		}
		for i := range w {
			if !matches(w[i], g[i]) {
				return false
			}
		}
		return true
	case map[string]any:
		g, ok := got.(map[string]any)
		if !ok || len(g) != len(w) {
			return false
		}
		for k, x := range w {
			y, ok := g[k]
			if !ok || !matches(x, y) {
				return false
			}
		}
		return true
	}
	return univ.Equal(want, got)
}

func showModel(v any) string {
	switch w := v.(type) {
	case wild:
		return "<any>"
	case []any:
		parts := make([]string, len(w))
		for i, e := range w {
			parts[i] = showModel(e)
		}
		return "[" + strings.Join(parts, ",") + "]"
	case map[string]any:
		parts := []string{}
		for _, k := range sortedKeys(w) {
			parts = append(parts, strconv.Quote(k)+":"+showModel(w[k]))
		}
		return "{" + strings.Join(parts, ",") + "}"
	}
	return univ.Show(v)
}

type scriptedIter struct {
	items []scriptItem
	pos   int
	calls int
}

func (s *scriptedIter) Next() (any, bool) {
	s.calls++
	if s.pos >= len(s.items) {
		return nil, false
	}
	it := s.items[s.pos]
	s.pos++
	switch it.Err {
	case "plain":
		msg, _ := it.Val.X.(string)
		return errors.New(msg), true
	case "value":
		return &valueErr{it.Val.X}, true
	}
	return it.Val.X, true
}

type inputOutcome struct {
	msg     string
	discard string
	draws   int
	hitErr  bool
	hitEnd  bool
	text    string
}

func checkInput(c inputCase) inputOutcome {
	if c.Prog == nil {
		return inputOutcome{msg: "bad case"}
	}
	for _, it := range c.Script {
		if it.Err == "plain" {
			if _, ok := it.Val.X.(string); !ok {
				return inputOutcome{msg: "bad case: plain error item needs a string"}
			}
		}
	}
	text := c.Prog.render()
	m := &imodel{script: c.Script, fuel: 5000}
	var want []any
	merrv := m.eval(c.Prog, c.Input.X, map[int]any{}, func(v any) error { want = append(want, v); return nil })
	for {
		p, ok := merrv.(*mpass)
		if !ok {
			break
		}
		merrv = p.err
	}
	if u, ok := merrv.(*munsup); ok {
		return inputOutcome{discard: u.what}
	}
	if _, ok := merrv.(*mbreak); ok {
		return inputOutcome{msg: "model bug: stray break"}
	}
	it := &scriptedIter{items: c.Script}
	code, err := run.Compile(text, gojq.WithInputIter(it))
	if err != nil {
		return inputOutcome{msg: fmt.Sprintf("%v", err)}
	}
	r := run.Exec(code, univ.Copy(c.Input.X), steps, maxOuts)
	o := inputOutcome{draws: m.draws, hitErr: m.hitErr, hitEnd: m.hitEnd, text: text}
	if r.Panic != "" {
		o.msg = "gojq panicked: " + r.Panic
		return o
	}
	if r.Budget {
		o.discard = "budget"
		return o
	}
	describe := func() string {
		parts := make([]string, len(want))
		for i, w := range want {
			parts[i] = showModel(w)
		}
		we := "<no error>"
		if e, ok := merrv.(*merr); ok {
			we = "error " + showModel(e.val)
			if e.exhausted {
				we = "an error (iterator exhausted)"
			}
		}
		return fmt.Sprintf("%s over script %s:\n  gojq  %s then %s, %d items consumed\n  model %s then %s, %d items consumed", text, showScript(c.Script), univ.ShowAll(r.Vals), orNone(errKey(r.Err)), it.pos, strings.Join(parts, " "), we, m.pos)
	}
	if len(r.Vals) != len(want) {
		o.msg = "number of outputs differs: " + describe()
		return o
	}
	for i := range want {
		if !matches(want[i], r.Vals[i]) {
			o.msg = fmt.Sprintf("output #%d differs: %s", i, describe())
			return o
		}
	}
	switch e := merrv.(type) {
	case nil:
		if r.Err != nil {
			o.msg = "unexpected error: " + describe()
			return o
		}
	case *merr:
		if r.Err == nil {
			o.msg = "missing error: " + describe()
			return o
		}
		if _, halt := r.Err.(*gojq.HaltError); halt {
			o.msg = "halt instead of an error: " + describe()
			return o
		}
		if !e.exhausted && !matches(e.val, run.ErrValue(r.Err)) {
			o.msg = "error value differs: " + describe()
			return o
		}
	default:
		o.msg = "model bug: " + merrv.Error()
		return o
	}
	if it.pos != m.pos {
		o.msg = "number of items drawn from the iterator differs: " + describe()
		return o
	}
	return o
}

func showScript(s []scriptItem) string {
	parts := make([]string, len(s))
	for i, it := range s {
		switch it.Err {
		case "":
			parts[i] = univ.Show(it.Val.X)
		default:
			parts[i] = it.Err + "-error(" + univ.Show(it.Val.X) + ")"
		}
	}
	return "[" + strings.Join(parts, " ") + "]"
}

func genINode(t *rapid.T, d int, vars int) *inode {
	leaf := func() *inode {
		switch rapid.IntRange(0, 9).Draw(t, "leaf") {
		case 0, 1, 2, 3, 4:
			return &inode{Op: "input"}
		case 5, 6:
			return &inode{Op: "inputs"}
		case 7:
			return &inode{Op: "lit", N: rapid.IntRange(0, 3).Draw(t, "n")}
		case 8:
			if vars > 0 {
				return &inode{Op: "var", N: rapid.IntRange(0, vars-1).Draw(t, "var")}
			}
			return &inode{Op: "dot"}
		default:
			return &inode{Op: "dot"}
		}
	}
	if d <= 0 {
		return leaf()
	}
	sub := func() *inode { return genINode(t, d-1, vars) }
	switch rapid.IntRange(0, 23).Draw(t, "node") {
	case 0, 1:
		return leaf()
	case 2, 3, 4:
		return &inode{Op: "seq", A: sub(), B: sub()}
	case 5, 6:
		return &inode{Op: "pipe", A: sub(), B: sub()}
	case 7, 8:
		return &inode{Op: "arr", A: sub()}
	case 9:
		return &inode{Op: "cat", A: sub(), B: sub()}
	case 10:
		return &inode{Op: "obj", A: sub(), B: sub()}
	case 11, 12:
		h := sub()
		if rapid.Bool().Draw(t, "handler") {
			h = &inode{Op: pick(t, "hop", []string{"dot", "lit", "input"}), N: 9}
		}
		return &inode{Op: "try", A: sub(), B: h}
	case 13:
		return &inode{Op: "tryq", A: sub()}
	case 14:
		return &inode{Op: "first", A: sub()}
	case 15, 16:
		return &inode{Op: "limit", N: rapid.IntRange(0, 3).Draw(t, "n"), A: sub()}
	case 17:
		return &inode{Op: pick(t, "cnt", []string{"count", "fcount"}), A: sub()}
	case 18:
		return &inode{Op: "isempty", A: sub()}
	case 19:
		return &inode{Op: "bind", N: vars, A: sub(), B: genINode(t, d-1, vars+1)}
	case 20:
		return &inode{Op: "if", A: sub(), B: sub(), C: sub()}
	case 21:
		return &inode{Op: "rng", N: rapid.IntRange(0, 3).Draw(t, "n"), A: sub()}
	case 22:
		return &inode{Op: "twice", A: sub()}
	default:
		return &inode{Op: "err", A: sub()}
	}
}

func doInput(c inputCase) string {
	rec.Eval()
	o := checkInput(c)
	if o.discard != "" {
		rec.Discard("input/" + o.discard)
		return ""
	}
	switch {
	case o.draws == 0:
		rec.Class("input/draws=0")
	case o.draws == 1:
		rec.Class("input/draws=1")
	default:
		rec.Class("input/draws=2+")
	}
	if o.hitErr {
		rec.Class("input/error-item-drawn")
	}
	if o.hitEnd {
		rec.Class("input/exhausted")
	}
	if o.draws > 0 {
		rec.NT("input\x00" + o.text + "\x00" + showScript(c.Script))
	}
	sample("input", map[string]any{"sub": "input", "program": o.text, "script": showScript(c.Script), "draws": o.draws})
	return o.msg
}

func runInput(t *testing.T) {
	vals := []any{0, 1, 2, 3, 4, 5, 6, 7, 8, 9, "s", nil, false, true, []any{1}, map[string]any{"a": 1}, 0.5}
	// fixed programs every run
	fixed := []struct {
		p      *inode
		script []any
	}{
		{&inode{Op: "input"}, []any{1, 2}},
		{&inode{Op: "input"}, nil},
		{&inode{Op: "arr", A: &inode{Op: "inputs"}}, []any{1, 2, 3}},
		{&inode{Op: "arr", A: &inode{Op: "seq", A: &inode{Op: "input"}, B: &inode{Op: "input"}}}, []any{1, 2, 3}},
		{&inode{Op: "cat", A: &inode{Op: "input"}, B: &inode{Op: "input"}}, []any{1, 2}},
		{&inode{Op: "seq", A: &inode{Op: "first", A: &inode{Op: "inputs"}}, B: &inode{Op: "arr", A: &inode{Op: "inputs"}}}, []any{1, 2, 3}},
		{&inode{Op: "seq", A: &inode{Op: "arr", A: &inode{Op: "limit", N: 2, A: &inode{Op: "inputs"}}}, B: &inode{Op: "input"}}, []any{1, 2, 3, 4}},
	}
	for i, f := range fixed {
		if !rec.Mine(i) {
			continue
		}
		var sc []scriptItem
		for _, v := range f.script {
			sc = append(sc, scriptItem{Val: univ.V{X: v}})
		}
		c := inputCase{Prog: f.p, Script: sc}
		if msg := doInput(c); msg != "" {
			rec.Direct("input", c, "%s", msg)
		}
	}
	rec.Rapid(t, "input", rec.Scale(30000, 1500000), func(t *rapid.T) {
		n := rapid.IntRange(0, 6).Draw(t, "items")
		sc := make([]scriptItem, n)
		for i := range sc {
			switch rapid.IntRange(0, 13).Draw(t, "item") {
			case 0:
				sc[i] = scriptItem{Val: univ.V{X: pick(t, "msg", []string{"E1", "E2", "", "boom"})}, Err: "plain"}
			case 1:
				sc[i] = scriptItem{Val: univ.V{X: pick(t, "ev", []any{map[string]any{"e": 1}, "V", nil, 7, []any{}})}, Err: "value"}
			default:
				sc[i] = scriptItem{Val: univ.V{X: pick(t, "val", vals)}}
			}
		}
		c := inputCase{Prog: genINode(t, rapid.IntRange(0, 4).Draw(t, "depth"), 0), Script: sc, Input: univ.V{X: pick(t, "dot", []any{nil, 1, "d", false})}}
		if msg := doInput(c); msg != "" {
			t.Fatalf("%s", rec.Fail("input", c, "%s", msg))
		}
	})
}
