package c19

import (
	"errors"
	"fmt"
	"sort"
	"strconv"
	"strings"
	"testing"

	"github.com/itchyny/gojq"
	"pgregory.net/rapid"

	"verif/internal/gen"
	"verif/internal/run"
	"verif/internal/univ"
)

// ---------------------------------------------------------------------------
// registrations: a Go callback and the jq body with the same input/output
// relation

type bodySpec struct {
	Kind  string `json:"kind"`
	K     int    `json:"k,omitempty"`
	Const string `json:"const,omitempty"` // JSON text (an array for iconsts / ierrmid)
}

type regSpec struct {
	Name string   `json:"name"`
	Min  int      `json:"min"`
	Max  int      `json:"max"`
	Iter bool     `json:"iter,omitempty"`
	Body bodySpec `json:"body"`
}

type customCase struct {
	Regs  []regSpec `json:"regs"`
	Src   string    `json:"src"`
	Input univ.V    `json:"input"`
	Ctx   string    `json:"ctx,omitempty"`
	Feats []string  `json:"feats,omitempty"`
}

// bodies that keep the argument slice after the call returns (finding C19.F2)
var retainedKinds = map[string]bool{"args": true, "ilazyargs": true}

var funcKinds = []string{"const", "id", "proj", "tuple", "errval", "errplain", "errarg", "args", "const", "id", "proj", "tuple"}
var iterKinds = []string{"iempty", "iconsts", "iargs", "ierrmid", "iid", "ilazycopy", "ilazyargs", "iitems", "iconsts", "iargs", "iid", "iitems"}

type valueErr struct{ v any }

func (e *valueErr) Error() string { return "c19 callback error: " + univ.Show(e.v) }
func (e *valueErr) Value() any    { return e.v }

type lazyIter struct {
	at func(i int) (any, bool)
	i  int
}

func (l *lazyIter) Next() (any, bool) {
	v, ok := l.at(l.i)
	if ok {
		l.i++
	}
	return v, ok
}

func min3(n int) int {
	if n > 3 {
		return 3
	}
	return n
}

func params(n int, prefix string) []string {
	ps := make([]string, n)
	for i := range ps {
		ps[i] = prefix + "a" + strconv.Itoa(i+1)
	}
	return ps
}

// nest writes the items of an iterator body as `i1, (i2, (i3, empty))`.  The
// value sequence is that of `i1, i2, i3`; the shape matters only to a caller
// that keeps calling Next after an error value, which makes gojq resume the
// oldest pending alternative: an iterator cannot know that it is exhausted, so
// one alternative is pending behind each of its items, the last one included,
// and never two at a time as in the left-nested `(i1, i2), i3`.
func nest(es []string) string {
	s := "empty"
	for i := len(es) - 1; i >= 0; i-- {
		s = es[i] + ", (" + s + ")"
	}
	return s
}

// bodyText is the jq body equivalent to the callback, for arity n.
func bodyText(b bodySpec, n int, cv any) string {
	elems := func() []string {
		arr, _ := cv.([]any)
		es := make([]string, len(arr))
		for i, e := range arr {
			es[i] = jsonLit(e)
		}
		return es
	}
	switch b.Kind {
	case "const":
		return jsonLit(cv)
	case "id":
		return "."
	case "proj":
		if n == 0 {
			return "."
		}
		return "$a" + strconv.Itoa(b.K%n+1)
	case "tuple":
		return "[" + strings.Join(append([]string{"."}, params(n, "$")...), ", ") + "]"
	case "args":
		return "[" + strings.Join(params(n, "$"), ", ") + "]"
	case "errval", "errplain":
		return "error(" + jsonLit(cv) + ")"
	case "errarg":
		if n == 0 {
			return "error(.)"
		}
		return "error($a" + strconv.Itoa(b.K%n+1) + ")"
	case "iempty":
		return "empty"
	case "iconsts":
		es := elems()
		return nest(es)
	case "iargs":
		return nest(append([]string{"."}, params(min3(n), "$")...))
	case "ierrmid":
		es := elems()
		for i := range es {
			if i == b.K%len(es) {
				es[i] = "error(" + es[i] + ")"
			}
		}
		return nest(es)
	case "iitems":
		return itemsText(b, cv)
	case "iid":
		if b.K <= 0 {
			return "empty"
		}
		return nest(strings.Split(strings.Repeat(".", b.K), ""))
	case "ilazycopy", "ilazyargs":
		return nest(params(min3(n), "$"))
	}
	return "error(\"bad body kind\")"
}

func funcCallback(b bodySpec, constFor func(int) any, calls *int) func(any, []any) any {
	return func(x any, a []any) any {
		*calls++
		cv := constFor(len(a))
		switch b.Kind {
		case "const":
			return cv
		case "id":
			return x
		case "proj":
			if len(a) == 0 {
				return x
			}
			return a[b.K%len(a)]
		case "tuple":
			out := make([]any, 0, len(a)+1)
			out = append(out, x)
			return append(out, a...)
		case "args":
			if len(a) == 0 {
				// an empty slice of the VM's buffer and the literal [] differ in
				// Go identity only, which the VM's path check can see for empty
				// containers: an accident of allocation, not the property
				return []any{}
			}
			return a // the slice itself: retained by the result
		case "errval":
			return &valueErr{cv}
		case "errplain":
			s, _ := cv.(string)
			return errors.New(s)
		case "errarg":
			if len(a) == 0 {
				return &valueErr{x}
			}
			return &valueErr{a[b.K%len(a)]}
		}
		return errors.New("bad body kind")
	}
}

func iterCallback(b bodySpec, constFor func(int) any, calls *int) func(any, []any) gojq.Iter {
	return func(x any, a []any) gojq.Iter {
		*calls++
		cv := constFor(len(a))
		switch b.Kind {
		case "iempty":
			return gojq.NewIter[any]()
		case "iconsts":
			arr, _ := cv.([]any)
			return gojq.NewIter[any](arr...)
		case "iargs":
			vals := append([]any{x}, a[:min3(len(a))]...)
			return gojq.NewIter[any](vals...)
		case "ierrmid":
			arr, _ := cv.([]any)
			vals := make([]any, len(arr))
			for i, e := range arr {
				if i == b.K%len(arr) {
					vals[i] = &valueErr{e}
				} else {
					vals[i] = e
				}
			}
			return gojq.NewIter[any](vals...)
		case "iitems":
			return itemsIter(b, cv)
		case "iid":
			return &lazyIter{at: func(i int) (any, bool) { return x, i < b.K }}
		case "ilazycopy":
			cp := append([]any(nil), a[:min3(len(a))]...)
			return &lazyIter{at: func(i int) (any, bool) {
				if i < len(cp) {
					return cp[i], true
				}
				return nil, false
			}}
		case "ilazyargs":
			m := min3(len(a))
			return &lazyIter{at: func(i int) (any, bool) { // reads the retained slice when asked
				if i < m {
					return a[i], true
				}
				return nil, false
			}}
		}
		return gojq.NewIter[any](errors.New("bad body kind"))
	}
}

type built struct {
	opts   []gojq.CompilerOption
	base   []any // per registration
	consts []any // per (registration, arity) actually handed out
	snap   []any
	prefix string
	calls  int
	model  map[string]map[int]int // name -> arity -> index of the effective registration
}

func validRegs(regs []regSpec) string {
	iter := map[string]bool{}
	for i, r := range regs {
		if !(0 <= r.Min && r.Min <= r.Max && r.Max <= 30) || r.Name == "" {
			return "bad registration"
		}
		if was, ok := iter[r.Name]; ok && was != r.Iter {
			return "mixed iterator and plain registrations"
		}
		iter[r.Name] = r.Iter
		kinds := funcKinds
		if r.Iter {
			kinds = iterKinds
		}
		ok := false
		for _, k := range kinds {
			ok = ok || k == r.Body.Kind
		}
		if !ok {
			return fmt.Sprintf("registration %d: kind %q", i, r.Body.Kind)
		}
	}
	return ""
}

// build prepares the compiler options and the equivalent definitions.  With
// overlapping registrations of one name the later registration answers for
// the arities both cover (option.go, withFunction).
func build(regs []regSpec) (*built, error) {
	if m := validRegs(regs); m != "" {
		return nil, errors.New(m)
	}
	b := &built{model: map[string]map[int]int{}}
	var names []string
	for i, r := range regs {
		ct := r.Body.Const
		if ct == "" {
			ct = "null"
		}
		cv, err := litValue(ct)
		if err != nil {
			return nil, err
		}
		switch r.Body.Kind {
		case "iconsts", "ierrmid", "iitems":
			if arr, ok := cv.([]any); !ok || len(arr) == 0 && r.Body.Kind == "ierrmid" {
				return nil, errors.New("constant of " + r.Body.Kind + " must be an array")
			}
		case "errplain":
			if _, ok := cv.(string); !ok {
				return nil, errors.New("constant of errplain must be a string")
			}
		}
		b.base = append(b.base, cv)
		// one constant per (registration, arity), the same on every call: a
		// literal in the body of `def f(a1;..;an)` is one value as well (the
		// VM tells containers apart by identity under path tracking)
		perArity := map[int]any{}
		constFor := func(n int) any {
			v, ok := perArity[n]
			if !ok {
				v = univ.Copy(cv)
				perArity[n] = v
				b.consts = append(b.consts, v)
				b.snap = append(b.snap, univ.Copy(v))
			}
			return v
		}
		if r.Iter {
			b.opts = append(b.opts, gojq.WithIterFunction(r.Name, r.Min, r.Max, iterCallback(r.Body, constFor, &b.calls)))
		} else {
			b.opts = append(b.opts, gojq.WithFunction(r.Name, r.Min, r.Max, funcCallback(r.Body, constFor, &b.calls)))
		}
		if b.model[r.Name] == nil {
			b.model[r.Name] = map[int]int{}
			names = append(names, r.Name)
		}
		for n := r.Min; n <= r.Max; n++ {
			b.model[r.Name][n] = i
		}
	}
	var sb strings.Builder
	for _, name := range names {
		var ars []int
		for n := range b.model[name] {
			ars = append(ars, n)
		}
		sort.Ints(ars)
		for _, n := range ars {
			i := b.model[name][n]
			sb.WriteString("def " + name)
			if n > 0 {
				sb.WriteString("(" + strings.Join(params(n, ""), "; ") + ")")
			}
			sb.WriteString(": ")
			for k := n; k >= 1; k-- { // the last argument in the outermost loop
				fmt.Fprintf(&sb, "a%d as $a%d | ", k, k)
			}
			sb.WriteString("(" + bodyText(regs[i].Body, n, b.base[i]) + "); ")
		}
	}
	b.prefix = sb.String()
	return b, nil
}

type custOutcome struct {
	drained  bool
	msg      string
	discard  string
	calls    int
	compiled bool
	outputs  int
	errored  bool
}

func checkCustom(c customCase) custOutcome {
	b, err := build(c.Regs)
	if err != nil {
		return custOutcome{msg: "bad case: " + err.Error()}
	}
	qn, err := gojq.Parse(c.Src)
	if err != nil {
		return custOutcome{discard: "parse-error"}
	}
	qd, err := gojq.Parse(b.prefix + c.Src)
	if err != nil {
		return custOutcome{msg: fmt.Sprintf("the program parses but not behind the definitions %q: %v", b.prefix, err)}
	}
	codeN, errN := safeCompile(qn, b.opts...)
	codeD, errD := safeCompile(qd)
	if m := isCompilePanic(errN, errD); m != "" {
		return custOutcome{msg: m}
	}
	if (errN == nil) != (errD == nil) {
		return custOutcome{msg: fmt.Sprintf("compilation differs: with the Go callbacks: %v; with the definitions %q: %v", errN, b.prefix, errD)}
	}
	if errN != nil {
		return custOutcome{discard: "compile-error-both"}
	}
	if d := guard(qd, c.Input.X); d != "" {
		return custOutcome{discard: d}
	}
	rd := run.Exec(codeD, univ.Copy(c.Input.X), steps*4, maxOuts)
	if rd.Panic != "" {
		return custOutcome{msg: "gojq panicked on the jq-defined version: " + rd.Panic}
	}
	if rd.Budget {
		return custOutcome{discard: "budget"}
	}
	rn := run.Exec(codeN, univ.Copy(c.Input.X), steps*4, maxOuts)
	if rn.Panic != "" {
		return custOutcome{msg: "gojq panicked with the Go callbacks: " + rn.Panic}
	}
	if rn.Budget {
		return custOutcome{discard: "budget"}
	}
	o := custOutcome{calls: b.calls, compiled: true, outputs: len(rn.Vals), errored: rn.Err != nil}
	if m := sameRun("callback", "def     ", rn, rd); m != "" {
		o.msg = m + "\n  definitions: " + b.prefix
		return o
	}
	if rn.Err != nil {
		// the caller may go on after an error value: the rest must agree too
		m, d := compareDrained(codeN, codeD, c.Input.X, b.prefix)
		if d != "" {
			o.discard = d
			return o
		}
		o.drained = true
		if m != "" {
			o.msg = m
			return o
		}
	}
	for i := range b.consts {
		if !univ.Same(b.consts[i], b.snap[i]) {
			o.msg = fmt.Sprintf("a value handed out by a callback was modified: %s -> %s", univ.Show(b.snap[i]), univ.Show(b.consts[i]))
			return o
		}
	}
	return o
}

// checkBuiltins: `builtins` with the options lists exactly the default list
// plus name/arity for every registered arity of names not starting with "_".
func checkBuiltins(c customCase) string {
	b, err := build(c.Regs)
	if err != nil {
		return "bad case: " + err.Error()
	}
	list := func(opts ...gojq.CompilerOption) ([]string, error) {
		code, err := run.Compile("builtins", opts...)
		if err != nil {
			return nil, err
		}
		v, err := run.One(code, nil)
		if err != nil {
			return nil, err
		}
		arr, ok := v.([]any)
		if !ok {
			return nil, fmt.Errorf("builtins gave %s", univ.Show(v))
		}
		out := make([]string, len(arr))
		for i, e := range arr {
			s, ok := e.(string)
			if !ok {
				return nil, fmt.Errorf("builtins element %s", univ.Show(e))
			}
			out[i] = s
		}
		sort.Strings(out)
		return out, nil
	}
	base, err := list()
	if err != nil {
		return "builtins without options: " + err.Error()
	}
	got, err := list(b.opts...)
	if err != nil {
		return "builtins with options: " + err.Error()
	}
	want := append([]string{}, base...)
	for name, ars := range b.model {
		if name[0] == '_' {
			continue
		}
		for n := range ars {
			want = append(want, name+"/"+strconv.Itoa(n))
		}
	}
	sort.Strings(want)
	if strings.Join(got, " ") != strings.Join(want, " ") {
		extra, missing := diffSorted(got, want)
		return fmt.Sprintf("builtins with the registrations lists unexpected %v and lacks %v", extra, missing)
	}
	return ""
}

func diffSorted(got, want []string) (extra, missing []string) {
	cnt := map[string]int{}
	for _, s := range got {
		cnt[s]++
	}
	for _, s := range want {
		cnt[s]--
	}
	for _, s := range sortedKeys(cnt) {
		if cnt[s] > 0 {
			extra = append(extra, s)
		} else if cnt[s] < 0 {
			missing = append(missing, s)
		}
	}
	return
}

// ---------------------------------------------------------------------------
// generators

var constPool = []string{"1", "0", "2", "\"s\"", "null", "true", "false", "[1,2]", "{\"a\":1}", "1.5", "[]", "{}", "\"\"", "-1", "[[0],{\"a\":[1]}]"}
var constArrPool = []string{"[1]", "[1,2]", "[1,2,3]", "[\"x\",null,[0]]", "[{\"a\":1},{\"a\":2}]", "[false,0,\"\"]", "[null]", "[[1],[2]]"}
var customNames = []string{"cf", "cg", "c_h", "_ci", "cf", "cg"}

func genRegs(t *rapid.T, noRetained bool) []regSpec {
	nNames := rapid.IntRange(1, 2).Draw(t, "names")
	var regs []regSpec
	used := map[string]bool{}
	for i := 0; i < nNames; i++ {
		name := pick(t, "name", customNames)
		if used[name] {
			continue
		}
		used[name] = true
		iter := rapid.IntRange(0, 9).Draw(t, "iter") < 3
		nRegs := rapid.SampledFrom([]int{1, 1, 1, 2, 2, 3}).Draw(t, "regs")
		for j := 0; j < nRegs; j++ {
			var lo, hi int
			switch rapid.IntRange(0, 9).Draw(t, "range") {
			case 0, 1, 2, 3:
				lo = rapid.IntRange(0, 3).Draw(t, "min")
				hi = lo + rapid.IntRange(0, 2).Draw(t, "span")
			case 4, 5:
				lo = rapid.IntRange(0, 4).Draw(t, "min")
				hi = lo
			case 6:
				lo = rapid.IntRange(24, 30).Draw(t, "min")
				hi = rapid.IntRange(lo, 30).Draw(t, "max")
			case 7:
				lo, hi = 0, rapid.SampledFrom([]int{5, 8, 30}).Draw(t, "max")
			default:
				lo = rapid.IntRange(0, 2).Draw(t, "min")
				hi = lo + rapid.IntRange(0, 4).Draw(t, "span")
			}
			kinds := funcKinds
			if iter {
				kinds = iterKinds
			}
			kind := pick(t, "kind", kinds)
			if noRetained && retainedKinds[kind] {
				rec.Excluded("C19/args-retained")
				if iter {
					kind = "ilazycopy"
				} else {
					kind = "tuple"
				}
			}
			b := bodySpec{Kind: kind}
			switch kind {
			case "const", "errval":
				b.Const = pick(t, "const", constPool)
			case "errplain":
				b.Const = pick(t, "msg", []string{"\"boom\"", "\"\"", "\"a b\"", "\"break\"", "\"null\""})
			case "proj", "errarg":
				b.K = rapid.IntRange(0, 30).Draw(t, "k")
			case "iconsts":
				b.Const = pick(t, "consts", constArrPool)
			case "ierrmid":
				b.Const = pick(t, "consts", constArrPool)
				b.K = rapid.IntRange(0, 2).Draw(t, "k")
			case "iid":
				b.K = rapid.IntRange(0, 3).Draw(t, "k")
			case "iitems":
				b.Const = pick(t, "consts", append([]string{"[]", "[1]", "[\"x\"]"}, constArrPool...))
				b.K = rapid.IntRange(0, 26).Draw(t, "k")
			}
			regs = append(regs, regSpec{Name: name, Min: lo, Max: hi, Iter: iter, Body: b})
		}
	}
	return regs
}

// cg generates calling contexts around calls of the registered functions.
type cg struct {
	t        *rapid.T
	names    []string
	accepted map[string][]int
	pathy    bool // path-tracking contexts may appear
	navfree  bool // arguments of the calls must not navigate (.a, .[0], .[] ...)
	vars     []string
	funcs    []string
	labels   int
	budget   int
	feats    map[string]bool
	ncalls   int
}

func newCG(t *rapid.T, regs []regSpec, pathy, navfree bool, budget int) *cg {
	g := &cg{t: t, accepted: map[string][]int{}, pathy: pathy, navfree: navfree, budget: budget, feats: map[string]bool{}}
	seen := map[string]map[int]bool{}
	for _, r := range regs {
		if seen[r.Name] == nil {
			seen[r.Name] = map[int]bool{}
			g.names = append(g.names, r.Name)
		}
		for n := r.Min; n <= r.Max; n++ {
			if !seen[r.Name][n] {
				seen[r.Name][n] = true
				g.accepted[r.Name] = append(g.accepted[r.Name], n)
			}
		}
	}
	for _, n := range g.names {
		sort.Ints(g.accepted[n])
	}
	return g
}

func (g *cg) feat(f string) { g.feats[f] = true }

var litPool = []string{"1", "2", "0", "\"a\"", "\"b\"", "null", "true", "false", "[1]", "[]", "{}", "{\"a\":1}", "1.5", "-1", "[0,1]", "\"\""}

func (g *cg) lit() string { return pick(g.t, "lit", litPool) }

func (g *cg) call(d int) string {
	t := g.t
	g.ncalls++
	name := pick(t, "fname", g.names)
	acc := g.accepted[name]
	n := pick(t, "arity", acc)
	if rapid.IntRange(0, 24).Draw(t, "wrongarity") == 0 {
		n = rapid.IntRange(0, 6).Draw(t, "n")
		g.feat("arity-maybe-unregistered")
	}
	if n == 0 {
		g.feat("arity/0")
		return name
	}
	switch {
	case n <= 3:
		g.feat("arity/" + strconv.Itoa(n))
	case n <= 8:
		g.feat("arity/4-8")
	default:
		g.feat("arity/9-30")
	}
	args := make([]string, n)
	rich := 0
	for i := range args {
		if n > 3 && rich >= 2 {
			args[i] = g.lit()
			continue
		}
		before := g.feats["gen-arg"]
		args[i] = g.arg(d - 1)
		if g.feats["gen-arg"] && !before || n > 3 && len(args[i]) > 6 {
			rich++
		}
	}
	return name + "(" + strings.Join(args, "; ") + ")"
}

func (g *cg) arg(d int) string {
	t := g.t
	g.budget--
	type alt struct {
		w int
		f func() string
	}
	alts := []alt{
		{30, func() string { return g.lit() }},
		{10, func() string { return "." }},
		{12, func() string { g.feat("gen-arg"); return g.lit() + ", " + g.lit() }},
		{4, func() string { g.feat("empty-arg"); return "empty" }},
		{4, func() string { g.feat("error-arg"); return "error(" + g.lit() + ")" }},
		{3, func() string { g.feat("gen-arg"); return "range(" + strconv.Itoa(rapid.IntRange(0, 3).Draw(t, "n")) + ")" }},
		{3, func() string { return g.lit() + " + " + g.lit() }},
		{2, func() string { return "if . then " + g.lit() + " else " + g.lit() + " end" }},
		{2, func() string { return "try error(" + g.lit() + ") catch ." }},
		{2, func() string { return "first(" + g.lit() + ", " + g.lit() + ")" }},
		{2, func() string { g.feat("gen-arg"); return "label $q | (1, break $q, 2)" }},
		{2, func() string { return "length?" }},
		{2, func() string { return "[., " + g.lit() + "]" }},
	}
	if d > 0 && g.budget > 0 {
		alts = append(alts,
			alt{10, func() string { g.feat("nested-call"); return g.call(d) }},
			alt{5, func() string { g.feat("gen-arg"); return g.arg(d-1) + ", " + g.arg(d-1) }},
			alt{3, func() string { return "[" + g.arg(d-1) + "]" }},
			alt{2, func() string { return "{a: (" + g.arg(d-1) + ")}" }},
			alt{2, func() string { g.feat("gen-arg"); return "(" + g.arg(d-1) + ") | (., " + g.lit() + ")" }},
		)
	}
	if len(g.vars) > 0 {
		alts = append(alts, alt{10, func() string { return pick(t, "var", g.vars) }})
	}
	if !g.navfree {
		alts = append(alts,
			alt{10, func() string { g.feat("nav-arg"); return pick(t, "nav", []string{".a", ".b", ".[0]", ".a?", ".[0]?", ".[1:]?", "getpath([\"a\"])?", "first?", ".a.b?", ".[-1]?"}) }},
			alt{8, func() string {
				g.feat("nav-arg")
				g.feat("gen-arg")
				return pick(t, "navgen", []string{".[]", ".[]?", ".a, .b", ".a?, .b?", "..", ".[]?, .", "keys?", "to_entries?", ".[]? | .a?", "paths"})
			}},
		)
	}
	total := 0
	for _, a := range alts {
		total += a.w
	}
	r := rapid.IntRange(0, total-1).Draw(t, "argkind")
	for _, a := range alts {
		if r < a.w {
			return a.f()
		}
		r -= a.w
	}
	return "."
}

// leaf of a context: mostly a call
func (g *cg) leaf(d int) string {
	t := g.t
	switch rapid.IntRange(0, 9).Draw(t, "leaf") {
	case 0:
		return pick(t, "atom", []string{".", ".a", ".[0]?", ".[]?", "1", "\"a\"", "null", "empty", "error(\"x\")", "[1,2]", "{\"a\":1}"})
	case 1:
		if len(g.vars) > 0 {
			return pick(t, "var", g.vars)
		}
		if len(g.funcs) > 0 {
			return pick(t, "fn", g.funcs)
		}
	case 2:
		if len(g.funcs) > 0 {
			return pick(t, "fn", g.funcs)
		}
	}
	return g.call(d)
}

func (g *cg) newVar() string { return "$v" + strconv.Itoa(len(g.vars)) }

func (g *cg) scoped(v string, f func() string) string {
	g.vars = append(g.vars, v)
	s := f()
	g.vars = g.vars[:len(g.vars)-1]
	return s
}

// expr generates a parenthesis-safe expression (callers wrap it).
func (g *cg) expr(d int) string {
	t := g.t
	g.budget--
	if d <= 0 || g.budget <= 0 {
		return g.leaf(1)
	}
	sub := func() string { return "(" + g.expr(d-1) + ")" }
	type alt struct {
		w int
		f func() string
	}
	alts := []alt{
		{14, func() string { return g.leaf(d) }},
		{12, func() string { return sub() + " | " + sub() }},
		{10, func() string { g.feat("comma"); return sub() + ", " + sub() }},
		{5, func() string { return "[" + g.expr(d-1) + "]" }},
		{3, func() string { return "{a: " + sub() + ", b: " + sub() + "}" }},
		{2, func() string { g.feat("keygen"); return "{(" + g.expr(d-1) + " | tostring): " + sub() + "}" }},
		{5, func() string { g.feat("native-binop"); return sub() + " " + pick(t, "op", []string{"+", "-", "==", "<", "and", "or", "*"}) + " " + sub() }},
		{8, func() string { g.feat("try"); return "try " + sub() + " catch " + sub() }},
		{4, func() string { g.feat("try"); return sub() + "?" }},
		{4, func() string { g.feat("alt"); return sub() + " // " + sub() }},
		{4, func() string { g.feat("if"); return "if " + g.expr(d-1) + " then " + g.expr(d-1) + " else " + g.expr(d-1) + " end" }},
		{6, func() string {
			g.feat("reduce")
			v := g.newVar()
			src, init := sub(), g.expr(d-1)
			return "reduce " + src + " as " + v + " (" + init + "; " + g.scoped(v, func() string { return g.expr(d - 1) }) + ")"
		}},
		{6, func() string {
			g.feat("foreach")
			v := g.newVar()
			src, init := sub(), g.expr(d-1)
			s := "foreach " + src + " as " + v + " (" + init + "; " + g.scoped(v, func() string { return g.expr(d - 1) })
			if rapid.Bool().Draw(t, "extract") {
				s += "; " + g.scoped(v, func() string { return g.expr(d - 1) })
			}
			return s + ")"
		}},
		{7, func() string {
			g.feat("limit/first")
			return fmt.Sprintf(pick(t, "lim", []string{"first(%s)", "limit(1; %s)", "limit(2; %s)", "[limit(3; %s)]", "isempty(%s)", "last(%s)", "nth(1; %s)", "limit(0; %s)", "[%s] | length", "any(%s; .)", "all(%s; .)"}), g.expr(d-1))
		}},
		{4, func() string {
			g.feat("label")
			g.labels++
			l := "$l" + strconv.Itoa(g.labels)
			return "label " + l + " | (" + g.expr(d-1) + " | ., break " + l + ")"
		}},
		{8, func() string {
			g.feat("bind")
			v := g.newVar()
			src := sub()
			return src + " as " + v + " | " + g.scoped(v, func() string { return g.expr(d - 1) })
		}},
		{5, func() string {
			g.feat("?//")
			v := g.newVar()
			src := sub()
			pat := pick(t, "altpat", []string{"[%s] ?// %s", "{a: %s} ?// [%s] ?// %s", "[[%s]] ?// %s"})
			pat = strings.ReplaceAll(pat, "%s", v)
			return src + " as " + pat + " | " + g.scoped(v, func() string { return g.expr(d - 1) })
		}},
		{5, func() string {
			g.feat("local-def")
			name := "lf" + strconv.Itoa(len(g.funcs))
			body := g.expr(d - 1)
			g.funcs = append(g.funcs, name)
			rest := g.expr(d - 1)
			g.funcs = g.funcs[:len(g.funcs)-1]
			return "def " + name + ": " + body + "; " + rest
		}},
		{3, func() string {
			g.feat("closure-arg")
			return "def lg(h): [h, h]; lg(" + g.expr(d-1) + ")"
		}},
		{3, func() string { g.feat("interp"); return "\"x\\(" + g.expr(d-1) + ")y\"" }},
		{3, func() string { return "[.[]? | " + sub() + "]" }},
		{2, func() string { return "select(" + g.expr(d-1) + ")" }},
		{2, func() string { return ".[" + g.expr(d-1) + "]?" }},
		{2, func() string { return sub() + " | tojson" }},
		{2, func() string { return "-" + sub() }},
	}
	if g.pathy {
		alts = append(alts,
			alt{12, func() string { g.feat("path"); return "path(" + g.pexpr(d-1) + ")" }},
			alt{4, func() string { g.feat("path"); return "[paths(" + g.expr(d-1) + ")]" }},
			alt{10, func() string { g.feat("update-lhs"); return "(" + g.pexpr(d-1) + ") |= " + sub() }},
			alt{5, func() string { g.feat("update-lhs"); return "(" + g.pexpr(d-1) + ") = " + sub() }},
			alt{3, func() string { g.feat("update-lhs"); return "(" + g.pexpr(d-1) + ") += " + sub() }},
			alt{3, func() string { g.feat("update-lhs"); return "del(" + g.pexpr(d-1) + ")" }},
			alt{2, func() string { g.feat("path"); return "pick(" + g.pexpr(d-1) + ")?" }},
			alt{2, func() string { g.feat("path"); return "[getpath(path(" + g.pexpr(d-1) + "))]" }},
		)
	}
	total := 0
	for _, a := range alts {
		total += a.w
	}
	r := rapid.IntRange(0, total-1).Draw(t, "ctx")
	for _, a := range alts {
		if r < a.w {
			return a.f()
		}
		r -= a.w
	}
	return g.leaf(d)
}

// pexpr generates the inside of a path-tracking context.
func (g *cg) pexpr(d int) string {
	t := g.t
	g.budget--
	nav := func() string {
		return pick(t, "pnav", []string{".a", ".b", ".[0]", ".[]?", ".", ".[1:]", ".a?", ".[-1]?", "..", ".a.b?", "getpath([\"a\"])", ".[0]?"})
	}
	if d <= 0 || g.budget <= 0 {
		if rapid.IntRange(0, 2).Draw(t, "pleaf") == 0 {
			return nav()
		}
		return g.call(1)
	}
	sub := func() string { return "(" + g.pexpr(d-1) + ")" }
	switch rapid.IntRange(0, 19).Draw(t, "pctx") {
	case 0, 1, 2:
		return g.call(d)
	case 3:
		return nav()
	case 4, 5, 6:
		return sub() + " | " + sub()
	case 7, 8:
		g.feat("comma")
		return sub() + ", " + sub()
	case 9:
		g.feat("limit/first")
		return fmt.Sprintf(pick(t, "plim", []string{"first(%s)", "limit(1; %s)", "limit(2; %s)", "last(%s)"}), g.pexpr(d-1))
	case 10:
		return "select(" + g.expr(d-1) + ")"
	case 11:
		g.feat("if")
		return "if " + g.expr(d-1) + " then " + g.pexpr(d-1) + " else " + g.pexpr(d-1) + " end"
	case 12:
		g.feat("alt")
		return sub() + " // " + sub()
	case 13:
		g.feat("try")
		return sub() + "?"
	case 14:
		g.feat("try")
		return "try " + sub() + " catch " + sub()
	case 15:
		g.feat("bind")
		v := g.newVar()
		src := "(" + g.expr(d-1) + ")"
		return src + " as " + v + " | " + g.scoped(v, func() string { return g.pexpr(d - 1) })
	case 16:
		g.feat("label")
		g.labels++
		l := "$l" + strconv.Itoa(g.labels)
		return "label " + l + " | (" + g.pexpr(d-1) + " | ., break " + l + ")"
	case 17:
		g.feat("local-def")
		name := "lf" + strconv.Itoa(len(g.funcs))
		body := g.pexpr(d - 1)
		g.funcs = append(g.funcs, name)
		rest := g.pexpr(d - 1)
		g.funcs = g.funcs[:len(g.funcs)-1]
		return "def " + name + ": " + body + "; " + rest
	case 18:
		g.feat("reduce")
		v := g.newVar()
		src := "(" + g.expr(d-1) + ")"
		return "reduce " + src + " as " + v + " (" + g.pexpr(d-1) + "; " + g.scoped(v, func() string { return g.pexpr(d - 1) }) + ")"
	default:
		return nav() + " | " + g.call(d) + " | " + nav()
	}
}

func (g *cg) features() []string {
	fs := sortedKeys(g.feats)
	return fs
}

// words of gen.Program's output that are replaced by calls
var replaceable = map[string]bool{"tojson": true, "explode": true, "ascii_downcase": true, "floor": true, "abs": true, "unique": true, "flatten": true, "tostring": true,
	"reverse": true, "keys": true, "add": true, "sort": true, "min": true, "max": true, "to_entries": true, "values": true, "arrays": true, "numbers": true, "length": true, "type": true, "not": true}

// substCalls replaces builtin atoms of a generated program by calls.
func substCalls(g *cg, src string) string {
	return rewriteWords(src, func(w string, prev, next byte) string {
		if !replaceable[w] || prev == '.' || prev == '$' || prev == '@' || prev == ':' || next == '(' || next == ':' {
			return ""
		}
		if rapid.IntRange(0, 9).Draw(g.t, "subst") >= 6 {
			return ""
		}
		c := g.call(2)
		return c
	})
}

var ntFeats = []string{"gen-arg", "path", "update-lhs", "try", "?//", "reduce", "foreach", "limit/first", "nested-call", "alt", "label", "native-binop", "closure-arg", "prog/try", "prog/path", "prog/reduce", "prog/foreach", "prog/?//", "prog/label", "prog/update", "prog/alt"}

func doCustom(sub string, c customCase) string {
	rec.Eval()
	for _, r := range c.Regs {
		if retainedKinds[r.Body.Kind] {
			rec.Journal(sub, c) // a retained argument buffer can become cyclic: the process may die
			break
		}
	}
	o := checkCustom(c)
	if o.discard != "" {
		rec.Discard("custom/" + o.discard)
		if o.discard == "compile-error-both" {
			rec.Class("custom/compile-error-both")
		}
		return ""
	}
	rec.Class("custom/ctx/" + c.Ctx)
	nt := false
	for _, f := range c.Feats {
		if !strings.HasPrefix(f, "prog/") {
			rec.Class("custom/feat/" + f)
		}
	}
	for _, f := range ntFeats {
		for _, h := range c.Feats {
			nt = nt || f == h
		}
	}
	for _, r := range c.Regs {
		rec.Class("custom/body/" + r.Body.Kind)
	}
	if len(c.Regs) > 1 {
		overl := false
		for i, r := range c.Regs {
			for _, s := range c.Regs[:i] {
				if r.Name == s.Name && r.Min <= s.Max && s.Min <= r.Max {
					overl = true
				}
			}
		}
		if overl {
			rec.Class("custom/overlapping-registrations")
		}
	}
	if o.drained {
		rec.Class("custom/driven-past-errors")
	}
	switch {
	case o.calls == 0:
		rec.Class("custom/callback-invocations/0")
	case o.calls == 1:
		rec.Class("custom/callback-invocations/1")
	default:
		rec.Class("custom/callback-invocations/2+")
	}
	if strings.HasSuffix(c.Ctx, "pathy") && o.calls > 0 {
		switch {
		case o.outputs > 0:
			rec.Class("custom/pathy+invoked/outputs")
		case o.errored:
			rec.Class("custom/pathy+invoked/error-only")
		default:
			rec.Class("custom/pathy+invoked/empty")
		}
	}
	switch {
	case o.errored && o.outputs > 0:
		rec.Class("custom/result/outputs-then-error")
	case o.errored:
		rec.Class("custom/result/error-only")
	case o.outputs > 0:
		rec.Class("custom/result/outputs")
	default:
		rec.Class("custom/result/empty")
	}
	if nt && o.calls > 0 {
		b, _ := jsonMarshal(c.Regs)
		rec.NT("custom\x00" + string(b) + "\x00" + c.Src + "\x00" + univ.Show(c.Input.X))
	}
	sample("custom", map[string]any{"sub": sub, "regs": c.Regs, "src": c.Src, "input": univ.Show(c.Input.X), "outputs": o.outputs, "errored": o.errored, "callback_invocations": o.calls})
	return o.msg
}

func runCustom(t *testing.T) {
	noRetained := rec.KnownClass("C19/args-retained")
	navKnown := rec.KnownClass("C19/path-arg-navigation")
	inputs := inputGen(false)

	// (E) every arity 0..30 x every body kind, registered alone and shadowed by
	// an overlapping later registration, called with distinguishable arguments
	idx := 0
	complete := true
	for n := 0; n <= 30; n++ {
		for _, iter := range []bool{false, true} {
			kinds := []string{"const", "id", "proj", "tuple", "errval", "errplain", "errarg", "args"}
			if iter {
				kinds = []string{"iempty", "iconsts", "iargs", "ierrmid", "iid", "ilazycopy", "ilazyargs"}
			}
			for ki, kind := range kinds {
				idx++
				if !rec.Mine(idx) || rec.Violations() > 20 {
					continue
				}
				if noRetained && retainedKinds[kind] {
					rec.Excluded("C19/args-retained")
					continue
				}
				args := make([]string, n)
				for i := range args {
					args[i] = strconv.Itoa(100 + i)
				}
				if n > 0 {
					args[n-1] = "(\"p\", \"q\")"
					args[0] = "(" + args[0] + ", \"r\")"
					if n == 1 {
						args[0] = "(100, \"r\")"
					}
				}
				call := "cf"
				if n > 0 {
					call += "(" + strings.Join(args, "; ") + ")"
				}
				body := bodySpec{Kind: kind, K: (n + ki) % 31, Const: "[1,2,3]"}
				if kind == "errplain" {
					body.Const = "\"boom\""
				}
				if kind == "iid" {
					body.K = 1 + n%3
				}
				for variant := 0; variant < 3; variant++ {
					var regs []regSpec
					switch variant {
					case 0:
						regs = []regSpec{{Name: "cf", Min: n, Max: n, Iter: iter, Body: body}}
					case 1: // an earlier wider registration with another body is shadowed at arity n
						other := bodySpec{Kind: "const", Const: "\"earlier\""}
						if iter {
							other = bodySpec{Kind: "iconsts", Const: "[\"earlier\"]"}
						}
						regs = []regSpec{{Name: "cf", Min: 0, Max: 30, Iter: iter, Body: other}, {Name: "cf", Min: n, Max: n, Iter: iter, Body: body}}
					default: // a later registration that does not cover n leaves it alone
						other := bodySpec{Kind: "const", Const: "\"later\""}
						if iter {
							other = bodySpec{Kind: "iconsts", Const: "[\"later\"]"}
						}
						lo, hi := n+1, 30
						if n == 30 {
							lo, hi = 0, 29
						}
						regs = []regSpec{{Name: "cf", Min: maxInt(0, n-1), Max: n, Iter: iter, Body: body}, {Name: "cf", Min: lo, Max: hi, Iter: iter, Body: other}}
					}
					for _, src := range []string{"[" + call + "]", "[.[] | try " + call + " catch [\"caught\", .]]", "[path(" + call + ")?]"} {
						c := customCase{Regs: regs, Src: src, Input: univ.V{X: []any{map[string]any{"a": 1}, 2}}, Ctx: "arity-sweep", Feats: []string{"gen-arg", "try"}}
						if msg := doCustom("custom-arity", c); msg != "" {
							rec.Direct("custom-arity", c, "%s", msg)
							complete = false
						}
					}
					bc := customCase{Regs: regs, Src: "builtins"}
					rec.Eval()
					if msg := checkBuiltins(bc); msg != "" {
						rec.Direct("builtins", bc, "%s", msg)
						complete = false
					}
				}
			}
		}
	}
	rec.Exhaustive("custom: arities 0..30 x body kinds x {alone, shadowing an earlier registration, beside a later one}", complete)

	// (E2) every NewIter item sequence of length 0..3 over {value, Go error,
	// ValueError} (one error alone is the unit iterator) and plain functions
	// returning an error, in fork-free and forked calling contexts, driven
	// past every error
	complete = true
	for i, c := range drainSweep() {
		if !rec.Mine(i) || rec.Violations() > 20 {
			continue
		}
		if msg := doCustom("custom-drain", c); msg != "" {
			rec.Direct("custom-drain", c, "%s", msg)
			complete = false
		}
	}
	rec.Exhaustive("custom: NewIter item sequences (length 0..3 over value / Go error / ValueError) x calling contexts, driven past errors", complete)

	// (R1) own context grammar
	rec.Rapid(t, "custom-ctx", rec.Scale(36000, 800000), func(t *rapid.T) {
		regs := genRegs(t, noRetained)
		pathy := rapid.IntRange(0, 9).Draw(t, "pathy") < 5
		navfree := pathy && navKnown
		if navfree {
			rec.Excluded("C19/path-arg-navigation")
		}
		g := newCG(t, regs, pathy, navfree, rapid.IntRange(8, 30).Draw(t, "budget"))
		src := g.expr(rapid.IntRange(1, 5).Draw(t, "depth"))
		if g.ncalls == 0 {
			src = "(" + src + ") | " + g.call(2)
		}
		ctx := "own/plain"
		if pathy {
			ctx = "own/pathy"
		}
		c := customCase{Regs: regs, Src: src, Input: univ.V{X: inputs.Draw(t, "input")}, Ctx: ctx, Feats: g.features()}
		if msg := doCustom("custom-ctx", c); msg != "" {
			t.Fatalf("%s", rec.Fail("custom-ctx", c, "%s", msg))
		}
	})

	// (R2) contexts from the shared program generator: builtin atoms replaced
	// by calls
	plain := gen.Program(gen.Conf{AltPat: true, AltPatFree: true, Builtins: true, MaxNodes: 30})
	pathful := gen.Program(gen.Conf{AltPat: true, AltPatFree: true, Builtins: true, Paths: true, Update: true, MaxNodes: 30})
	rec.Rapid(t, "custom-prog", rec.Scale(24000, 500000), func(t *rapid.T) {
		regs := genRegs(t, noRetained)
		pathy := rapid.Bool().Draw(t, "pathy")
		var p gen.Prog
		if pathy {
			p = pathful.Draw(t, "prog")
		} else {
			p = plain.Draw(t, "prog")
		}
		navfree := pathy && navKnown
		if navfree {
			rec.Excluded("C19/path-arg-navigation")
		}
		g := newCG(t, regs, false, navfree, 10)
		src := substCalls(g, p.Src)
		if g.ncalls == 0 {
			switch rapid.IntRange(0, 3).Draw(t, "attach") {
			case 0:
				src = "(" + src + ") | " + g.call(2)
			case 1:
				src = g.call(2) + " | (" + src + ")"
			case 2:
				src = "[(" + src + "), " + g.call(2) + "]"
			default:
				src = g.call(2) + " as $q | (" + src + ")"
			}
		}
		feats := g.features()
		for _, f := range p.Features {
			feats = append(feats, "prog/"+f)
		}
		ctx := "prog/plain"
		if pathy {
			ctx = "prog/pathy"
		}
		c := customCase{Regs: regs, Src: src, Input: univ.V{X: inputs.Draw(t, "input")}, Ctx: ctx, Feats: feats}
		if msg := doCustom("custom-prog", c); msg != "" {
			t.Fatalf("%s", rec.Fail("custom-prog", c, "%s", msg))
		}
	})

	// builtins is the only query that may tell them apart: its model
	rec.Rapid(t, "builtins", rec.Scale(1200, 40000), func(t *rapid.T) {
		c := customCase{Regs: genRegs(t, false), Src: "builtins"}
		rec.Eval()
		rec.Class("custom/builtins-model")
		b, _ := jsonMarshal(c.Regs)
		rec.NT("builtins\x00" + string(b))
		if msg := checkBuiltins(c); msg != "" {
			t.Fatalf("%s", rec.Fail("builtins", c, "%s", msg))
		}
	})
}

func maxInt(a, b int) int {
	if a > b {
		return a
	}
	return b
}
