// C19 — no ambient authority by default; each compile option grants exactly
// its own capability.
//
// Sub-checks (one rapid property or enumeration each, so that one failure does
// not hide the others):
//
//	ambient   the test binary re-executes itself as a child under two ambient
//	          settings (environment, cwd with module files, HOME with ~/.jq, TZ,
//	          stdin, argv); a batch of programs over every builtin compiled
//	          WITHOUT options must print byte-identical results in both children
//	          and in the parent; a control batch compiled WITH the options shows
//	          that the two settings really are distinguishable.
//	deny      env/$ENV are {} (metamorphic: P[env] == P[{}]), input/inputs/
//	          import/include do not compile, modulemeta errors; option x
//	          capability matrix: an option grants only its own capability.
//	vars      WithVariables: read-back model, miscounted values give an error
//	          value, random programs behave like `v1 as $n1 | ... | P`.
//	input     WithInputIter: a continuation-passing model of `input`/`inputs`
//	          over a scripted iterator (values, error items, exhaustion),
//	          including the number of items consumed.
//	environ   WithEnvironLoader: env/$ENV equal the map built from the pairs by
//	          the documented rule (cut at the first "=", skip missing "=" and
//	          empty names, later duplicates win).
//	custom    WithFunction / WithIterFunction callbacks against the equivalent
//	          jq definitions `def f(a1;..;an): an as $an | .. | a1 as $a1 | BODY`
//	          in generated calling contexts; `builtins` model.
package c19

import (
	"encoding/json"
	"fmt"
	"os"
	"sort"
	"strings"
	"testing"

	"github.com/itchyny/gojq"
	"pgregory.net/rapid"

	"verif/internal/evid"
	"verif/internal/gen"
	"verif/internal/refjq"
	"verif/internal/run"
	"verif/internal/univ"
)

var (
	rec   *evid.Rec
	model *refjq.Interp
)

const (
	steps   = 30000
	fuel    = 60000
	maxOuts = 300
)

func TestMain(m *testing.M) {
	if p := os.Getenv("C19_CHILD"); p != "" {
		os.Exit(childMain(p))
	}
	os.Exit(m.Run())
}

// ---------------------------------------------------------------------------
// shared helpers

// errKey is what distinguishes two terminal errors for a jq program: halt or
// not, and the value `catch` would receive.
func errKey(err error) string {
	if err == nil {
		return ""
	}
	if h, ok := err.(*gojq.HaltError); ok {
		return fmt.Sprintf("halt(%d):%s", h.ExitCode(), univ.Show(h.Value()))
	}
	return "error:" + univ.Show(run.ErrValue(err))
}

func orNone(s string) string {
	if s == "" {
		return "<no error>"
	}
	return s
}

// sameRun compares two bounded runs stream for stream.
func sameRun(an, bn string, a, b run.Result) string {
	n := len(a.Vals)
	if len(b.Vals) < n {
		n = len(b.Vals)
	}
	for i := 0; i < n; i++ {
		if !univ.Equal(a.Vals[i], b.Vals[i]) {
			return fmt.Sprintf("output #%d differs:\n  %s %s\n  %s %s", i, an, univ.ShowAll(a.Vals), bn, univ.ShowAll(b.Vals))
		}
	}
	if len(a.Vals) != len(b.Vals) {
		return fmt.Sprintf("number of outputs differs:\n  %s %s then %s\n  %s %s then %s", an, univ.ShowAll(a.Vals), orNone(errKey(a.Err)), bn, univ.ShowAll(b.Vals), orNone(errKey(b.Err)))
	}
	if ka, kb := errKey(a.Err), errKey(b.Err); ka != kb {
		return fmt.Sprintf("terminal errors differ after %d equal outputs %s:\n  %s %s\n  %s %s", len(a.Vals), univ.ShowAll(a.Vals), an, orNone(ka), bn, orNone(kb))
	}
	return ""
}

// guard runs the reference interpreter first: it carries the resource guards
// (value size, allocation-sized numbers).  A non-empty result means the case
// must not be given to gojq.
func guard(q *gojq.Query, input any) string {
	if model == nil {
		return ""
	}
	want := model.Run(q, univ.Copy(input), nil, fuel, maxOuts)
	if d := want.Discard(); d != "" && (strings.HasPrefix(d, "resource") || d == "fuel") {
		return d
	}
	for _, v := range want.Vals {
		if refjq.TreeSize(v, 20000) > 20000 {
			return "resource: big output"
		}
	}
	return ""
}

// litValue evaluates a JSON literal through gojq so that constants handed out
// by callbacks have the representation the same literal has in a program.
func litValue(text string) (any, error) {
	code, err := run.Compile(text)
	if err != nil {
		return nil, err
	}
	return run.One(code, nil)
}

func jsonLit(v any) string {
	s, ok := univ.JSONText(v)
	if !ok {
		return "null"
	}
	return s
}

// inputs biased towards the field/index names the program grammars use.
func inputGen(reps bool) *rapid.Generator[any] {
	fixed := []any{
		nil, 0, 1, 2, "a", "ab", true, false, []any{}, map[string]any{},
		[]any{1, 2, 3}, []any{0, []any{1, 2}, map[string]any{"a": 1}}, []any{[]any{1}, []any{2, 3}}, []any{"a", "b"}, []any{nil, false, 1},
		map[string]any{"a": 1, "b": 2}, map[string]any{"a": []any{1, 2, map[string]any{"b": nil}}, "b": "x", "c": map[string]any{"a": 1}},
		map[string]any{"a": map[string]any{"a": map[string]any{"a": 0}}}, map[string]any{"a": []any{}, "b": map[string]any{}}, map[string]any{"a": nil, "b": false, "c": 0},
		map[string]any{"a": "b", "b": "c", "c": "a"}, []any{map[string]any{"a": 1, "b": 2}, map[string]any{"a": 3, "b": 4}}, map[string]any{"a": []any{[]any{0, 1}, []any{2}}},
		[]any{3, 1, 2}, map[string]any{"a": 2, "b": []any{1, 2}}, 1.5, "1", []any{[]any{}}, []any{map[string]any{}},
		map[string]any{"a": map[string]any{"b": 1}, "b": 2}, []any{[]any{0, 1}, []any{2, 3}},
	}
	return rapid.OneOf(
		rapid.SampledFrom(fixed),
		rapid.SampledFrom(fixed),
		gen.Value(gen.Opt{Reps: reps, MaxDepth: 3, MaxWidth: 3, SmallInts: true}),
		rapid.Custom(func(t *rapid.T) any {
			m := map[string]any{}
			for _, k := range []string{"a", "b", "c"} {
				if rapid.IntRange(0, 3).Draw(t, "has") > 0 {
					m[k] = gen.Value(gen.Opt{Reps: reps, MaxDepth: 2, MaxWidth: 3, SmallInts: true}).Draw(t, "field")
				}
			}
			return m
		}),
	)
}

func pick[T any](t *rapid.T, label string, xs []T) T { return rapid.SampledFrom(xs).Draw(t, label) }

func isWord(c byte) bool {
	return c == '_' || c >= '0' && c <= '9' || c >= 'a' && c <= 'z' || c >= 'A' && c <= 'Z'
}

// codeSpans splits program text into code and string-literal regions
// (interpolations `\( ... )` inside strings are code again) and calls f for
// every maximal word [A-Za-z0-9_]+ found in code, with the bytes before and
// after it; f returns the replacement ("" keeps the word).
func rewriteWords(src string, f func(word string, prev, next byte) string) string {
	var sb strings.Builder
	type frame struct{ depth int }
	var stack []frame // one frame per enclosing interpolation
	inStr := false
	depth := 0
	i := 0
	for i < len(src) {
		c := src[i]
		if inStr {
			switch {
			case c == '\\' && i+1 < len(src) && src[i+1] == '(':
				sb.WriteString("\\(")
				i += 2
				stack = append(stack, frame{depth})
				depth = 0
				inStr = false
			case c == '\\' && i+1 < len(src):
				sb.WriteByte(c)
				sb.WriteByte(src[i+1])
				i += 2
			case c == '"':
				sb.WriteByte(c)
				i++
				inStr = false
			default:
				sb.WriteByte(c)
				i++
			}
			continue
		}
		switch {
		case c == '"':
			sb.WriteByte(c)
			i++
			inStr = true
		case c == '(':
			depth++
			sb.WriteByte(c)
			i++
		case c == ')':
			if depth == 0 && len(stack) > 0 {
				depth = stack[len(stack)-1].depth
				stack = stack[:len(stack)-1]
				inStr = true
			} else {
				depth--
			}
			sb.WriteByte(c)
			i++
		case isWord(c):
			j := i
			for j < len(src) && isWord(src[j]) {
				j++
			}
			var prev, next byte
			if i > 0 {
				prev = src[i-1]
			}
			if j < len(src) {
				next = src[j]
			}
			w := src[i:j]
			if r := f(w, prev, next); r != "" {
				sb.WriteString(r)
			} else {
				sb.WriteString(w)
			}
			i = j
		default:
			sb.WriteByte(c)
			i++
		}
	}
	return sb.String()
}

func sortedKeys[V any](m map[string]V) []string {
	ks := make([]string, 0, len(m))
	for k := range m {
		ks = append(ks, k)
	}
	sort.Strings(ks)
	return ks
}

// ---------------------------------------------------------------------------

func replayCase(sub string, raw json.RawMessage) string {
	un := func(v any) string {
		if err := json.Unmarshal(raw, v); err != nil {
			return "bad replay: " + err.Error()
		}
		return ""
	}
	switch sub {
	case "ambient":
		var c ambCase
		if m := un(&c); m != "" {
			return m
		}
		return checkAmbient(c)
	case "deny", "deny-env", "deny-matrix":
		var c denyCase
		if m := un(&c); m != "" {
			return m
		}
		leave, err := enterModuleDir()
		if err != nil {
			return "cannot prepare the module directory: " + err.Error()
		}
		defer leave()
		return checkDeny(c).msg
	case "vars", "vars-readback", "vars-prog":
		var c varsCase
		if m := un(&c); m != "" {
			return m
		}
		return checkVars(c).msg
	case "input":
		var c inputCase
		if m := un(&c); m != "" {
			return m
		}
		return checkInput(c).msg
	case "environ":
		var c environCase
		if m := un(&c); m != "" {
			return m
		}
		return checkEnviron(c)
	case "custom", "custom-ctx", "custom-prog", "custom-arity", "custom-drain":
		var c customCase
		if m := un(&c); m != "" {
			return m
		}
		return checkCustom(c).msg
	case "determinism":
		var c detCase
		if m := un(&c); m != "" {
			return m
		}
		msg, _ := checkDet(c)
		return msg
	case "option-reuse":
		var c reuseCase
		if m := un(&c); m != "" {
			return m
		}
		return checkReuse(c).msg
	case "history":
		var c historyCase
		if m := un(&c); m != "" {
			return m
		}
		return checkHistory(c).msg
	case "builtins":
		var c customCase
		if m := un(&c); m != "" {
			return m
		}
		return checkBuiltins(c)
	}
	return "unknown sub " + sub
}

func TestC19(t *testing.T) {
	rec = evid.Open("C19")
	defer rec.Close()
	// this process must not block on an inherited stdin should the code under
	// test read it: it sees end of file, the children get real data
	if f, err := os.Open(os.DevNull); err == nil {
		os.Stdin = f
	}
	var err error
	if model, err = refjq.New(); err != nil {
		t.Fatal(err)
	}
	rec.Replays(replayCase)
	if rec.ReplayPath() != "" {
		return
	}
	runDeny(t)
	runEnviron(t)
	runVars(t)
	runInput(t)
	runCustom(t)
	runHistory(t)
	runReuse(t)
	runDeterminism(t)
	runAmbient(t)
}

func jsonMarshal(v any) ([]byte, error) { return json.Marshal(v) }

// sample spreads the shards' sample reservoirs over the sub-checks: shard i
// samples only the sub-check i mod 6.
var sampleSubs = []string{"custom", "ambient", "input", "vars", "deny", "environ", "history", "option-reuse", "determinism"}

func sample(sub string, v any) {
	if sampleSubs[rec.Shard%len(sampleSubs)] == sub {
		rec.Sample(v)
	}
}

// compilePanic is the error safeCompile returns when gojq.Compile panicked.
type compilePanic struct{ what string }

func (e *compilePanic) Error() string { return "gojq.Compile panicked: " + e.what }

func safeCompile(q *gojq.Query, opts ...gojq.CompilerOption) (code *gojq.Code, err error) {
	defer func() {
		if r := recover(); r != nil {
			code, err = nil, &compilePanic{fmt.Sprint(r)}
		}
	}()
	return gojq.Compile(q, opts...)
}

func isCompilePanic(errs ...error) string {
	for _, e := range errs {
		if p, ok := e.(*compilePanic); ok {
			return p.Error()
		}
	}
	return ""
}
