package c19

import (
	"fmt"
	"strings"
	"testing"

	"github.com/itchyny/gojq"
	"pgregory.net/rapid"

	"verif/internal/run"
	"verif/internal/univ"
)

// history: without options the output is a function of the query and the
// input ALONE, hence not of what the same compiled *Code (or the process) ran
// before.  One Code runs a sequence of related inputs, forwards and backwards;
// every run must give exactly what a freshly compiled Code gives on that input
// alone (values and error texts).  The same inside one run: `.[] | [try (Q)
// catch ["E", .]]` over the array of the inputs against per-element fresh runs.
// No option is given to Compile.

type historyCase struct {
	Query  string   `json:"query"`
	Inputs []univ.V `json:"inputs"`
}

type outcome1 struct {
	vals   []any
	err    error
	budget bool
	panic  string
}

func (o outcome1) String() string {
	s := univ.ShowAll(o.vals)
	if o.err != nil {
		s += " then error " + fmt.Sprintf("%q", o.err.Error())
	}
	return s
}

func sameOutcome(a, b outcome1) bool {
	if len(a.vals) != len(b.vals) || (a.err == nil) != (b.err == nil) {
		return false
	}
	for i := range a.vals {
		if !univ.Equal(a.vals[i], b.vals[i]) {
			return false
		}
	}
	return a.err == nil || a.err.Error() == b.err.Error() && fmt.Sprintf("%T", a.err) == fmt.Sprintf("%T", b.err)
}

func runOnce(code *gojq.Code, input any) outcome1 {
	r := run.Exec(code, univ.Copy(input), steps, maxOuts)
	return outcome1{vals: r.Vals, err: r.Err, budget: r.Budget, panic: r.Panic}
}

type historyOutcome struct {
	msg     string
	discard string
}

func checkHistory(c historyCase) historyOutcome {
	q, err := gojq.Parse(c.Query)
	if err != nil {
		return historyOutcome{discard: "parse-error"}
	}
	compile := func() (*gojq.Code, error) { return safeCompile(q) }
	if _, err := compile(); err != nil {
		if m := isCompilePanic(err); m != "" {
			return historyOutcome{msg: m}
		}
		// must stay a compile error however often it is compiled
		if _, err2 := compile(); err2 == nil || err2.Error() != err.Error() {
			return historyOutcome{msg: fmt.Sprintf("%q: compiling twice gives %v then %v", c.Query, err, err2)}
		}
		return historyOutcome{discard: "compile-error"}
	}
	// the reference: a fresh Code per input
	n := len(c.Inputs)
	fresh := make([]outcome1, n)
	for i, in := range c.Inputs {
		code, err := compile()
		if err != nil {
			return historyOutcome{msg: fmt.Sprintf("%q compiles once but not again: %v", c.Query, err)}
		}
		fresh[i] = runOnce(code, in.X)
		if fresh[i].panic != "" {
			return historyOutcome{msg: "gojq panicked: " + fresh[i].panic}
		}
		if fresh[i].budget {
			return historyOutcome{discard: "budget"}
		}
		if _, halt := fresh[i].err.(*gojq.HaltError); halt {
			return historyOutcome{discard: "halt"}
		}
	}
	describe := func(order []int, upto int) string {
		var sb strings.Builder
		for _, j := range order[:upto] {
			sb.WriteString("\n    earlier run on " + univ.Show(c.Inputs[j].X))
		}
		return sb.String()
	}
	// one Code, the sequence forwards then backwards; another Code, backwards then forwards
	fwd := make([]int, 0, 2*n)
	bwd := make([]int, 0, 2*n)
	for i := 0; i < n; i++ {
		fwd = append(fwd, i)
		bwd = append(bwd, n-1-i)
	}
	for _, order := range [][]int{append(append([]int{}, fwd...), bwd...), append(append([]int{}, bwd...), fwd...)} {
		code, err := compile()
		if err != nil {
			return historyOutcome{msg: err.Error()}
		}
		for k, i := range order {
			got := runOnce(code, c.Inputs[i].X)
			if got.panic != "" {
				return historyOutcome{msg: "gojq panicked: " + got.panic}
			}
			if got.budget {
				return historyOutcome{discard: "budget"}
			}
			if !sameOutcome(got, fresh[i]) {
				return historyOutcome{msg: fmt.Sprintf("%q on input %s depends on what the same Code ran before:\n  after %d earlier runs: %s\n  freshly compiled:     %s%s",
					c.Query, univ.Show(c.Inputs[i].X), k, got, fresh[i], describe(order, k))}
			}
		}
	}
	// inside one run
	wrapped := ".[] | [try (" + c.Query + ") catch [\"E\", .]]"
	wq, err := gojq.Parse(wrapped)
	if err != nil {
		return historyOutcome{} // a query with its own definitions/imports in front: only the runs above
	}
	wcode, err := safeCompile(wq)
	if err != nil {
		return historyOutcome{}
	}
	for _, order := range [][]int{fwd, bwd} {
		arr := make([]any, len(order))
		want := make([]any, len(order))
		for k, i := range order {
			arr[k] = c.Inputs[i].X
			w := append([]any{}, fresh[i].vals...)
			if fresh[i].err != nil {
				w = append(w, []any{"E", run.ErrValue(fresh[i].err)})
			}
			want[k] = w
		}
		got := runOnce(wcode, arr)
		if got.panic != "" {
			return historyOutcome{msg: "gojq panicked: " + got.panic}
		}
		if got.budget {
			return historyOutcome{discard: "budget"}
		}
		if got.err != nil || !univ.EqualStreams(got.vals, want) {
			return historyOutcome{msg: fmt.Sprintf("%q: within one run the result for an element depends on the elements before it:\n  %s on %s\n  gives            %s\n  fresh, per element %s",
				c.Query, wrapped, univ.Show(arr), got, univ.ShowAll(want))}
		}
	}
	return historyOutcome{}
}

// ---------------------------------------------------------------------------
// pools: places where per-Code or per-process state could hide

var histRegexQueries = []string{
	". as $v | .s | test($v.re; $v.flags)",
	". as $v | .s | [match($v.re; $v.flags)]",
	". as $v | .s | [match($v.re; $v.flags) | .string]",
	". as $v | .s | [capture($v.re; $v.flags)]",
	". as $v | .s | [scan($v.re; $v.flags)]",
	". as $v | .s | split($v.re; $v.flags)",
	". as $v | .s | [splits($v.re; $v.flags)]",
	". as $v | .s | sub($v.re; \"<\\(.x?)>\"; $v.flags)",
	". as $v | .s | gsub($v.re; \"-\"; $v.flags)",
	". as $v | .s | [test($v.re; $v.flags), test($v.re; \"g\"), test($v.re)]",
	". as $v | .s | [test($v.re; \"g\"), test($v.re; $v.flags)]",
	". as $v | .s | [(test($v.re; $v.flags))?, (test($v.re; $v.flags + \"g\"))?]",
	". as $v | .s | test($v.re)",
	". as $v | .s | [match($v.re; \"g\" + $v.flags)] | length",
	". as $v | .s | [splits($v.re)]",
	". as $v | [.s, .s2] | map(test($v.re; $v.flags))",
	". as $v | .s | test([$v.re, $v.flags])",
	". as $v | .s | ascii_downcase | test($v.re | ascii_downcase; $v.flags)",
	". as $v | [.s | match($v.re; $v.flags, \"g\", $v.flags) | .offset]",
}

var histOtherQueries = []string{
	".s | ltrimstr(\"a\")", ". as $v | .s | ltrimstr($v.re)", "tojson", ".s | @base64", ".s | @uri", ".s | @sh", "[.s, .re] | @csv", "[.s, .re] | @tsv", ".s | @html", ".s | @json", "@text",
	"getpath([\"s\"])", "[limit(2; .s, .re, .flags)]", "tostring", ".t | todate", ".d | fromdate", ".t | strftime(\"%A, %B %d, %Y\")", ".d | strptime(\"%Y-%m-%dT%H:%M:%SZ\") | mktime", ".t | gmtime | mktime",
	"builtins | length", "error", "error(.s)", ".s | error(null)", "[paths]", "to_entries", ".s | explode | implode", "tojson | fromjson", "keys", "[.[]] | map(tostring) | sort", "[.[] | type] | unique",
	".s | test(\"a\")", ".s | [match(\"(?<x>a)|b\"; \"g\") | .captures | length]", ".s | [splits(\"a+\")]", ".s | test(\"A\"; \"i\")", ".s | sub(\"(?<x>b)\"; \"[\\(.x)]\")", ".s | ascii_downcase", ".s | length",
	"input_filename", "label $l | .s, break $l", "first(.s, .re)", "reduce .[] as $x (0; . + 1)", "[.. | strings] | length", ".s | tonumber?", ".s | @base64d?", ".s | ascii?", "[.s | scan(\".\")] | length",
	"def f: .s | test(\"a\"; \"g\"); [f, f]", ". as $v | .s | [test(\"a\"; $v.flags), test(\"b\"; $v.flags)]", "input_line_number?", ".s | split(\"\")", ".s | indices(\"a\")", ".flags | tostring | test(\"g\")",
}

var histSubjects = []any{"ab", "a b", "A", "aXbxc", "", "foo bar foo", "abc\nABC", "test", "aaa", "B", nil, 1}
var histPatterns = []any{"a", "a b", "A", "(?<x>a)", "b+", "", "[", "a|b", ".", "^a", "\\s", "(a)(b)?", "a.c", "(?i)a", nil, 1}
var histFlags = []any{"", "g", "i", "x", "s", "n", "gi", "xi", "m", "gim", "ig", "l", "p", "y", "gy", "iy", "my", "G", " ", "gx", "ix", "gg", "xyzzy long garbage 😀", nil, 1}

func histInput(s, re, flags any) any {
	return map[string]any{"s": s, "s2": "aB", "re": re, "flags": flags, "t": 1425599507, "d": "2015-03-05T23:51:47Z"}
}

func isFlagValid(f any) bool {
	s, ok := f.(string)
	if !ok {
		return f == nil
	}
	return strings.Trim(s, "gim") == ""
}

func doHistory(c historyCase, class string) string {
	rec.Eval()
	o := checkHistory(c)
	if o.discard != "" {
		rec.Discard("history/" + o.discard)
		return ""
	}
	rec.Class(class)
	if len(c.Inputs) >= 2 {
		parts := make([]string, len(c.Inputs))
		for i, in := range c.Inputs {
			parts[i] = univ.Show(in.X)
		}
		rec.NT("history\x00" + c.Query + "\x00" + strings.Join(parts, "\x01"))
	}
	sample("history", map[string]any{"sub": "history", "query": c.Query, "inputs": len(c.Inputs), "first": univ.Show(c.Inputs[0].X)})
	return o.msg
}

func runHistory(t *testing.T) {
	// (E) every regex query x every ordered pair of flag strings, one subject and pattern
	idx := 0
	complete := true
	for qi, q := range histRegexQueries {
		for _, f1 := range histFlags {
			for _, f2 := range histFlags {
				idx++
				if !rec.Mine(idx) || rec.Violations() > 20 {
					continue
				}
				if univ.Equal(f1, f2) {
					continue
				}
				s, re := histSubjects[(qi+idx)%4], histPatterns[(qi+idx/7)%4]
				c := historyCase{Query: q, Inputs: []univ.V{{X: histInput(s, re, f1)}, {X: histInput(s, re, f2)}}}
				class := "history/flag-pairs/both-valid"
				switch v1, v2 := isFlagValid(f1), isFlagValid(f2); {
				case v1 != v2:
					class = "history/flag-pairs/valid+invalid"
				case !v1:
					class = "history/flag-pairs/both-invalid"
				}
				if msg := doHistory(c, class); msg != "" {
					rec.Direct("history", c, "%s", msg)
					complete = false
				}
			}
		}
	}
	rec.Exhaustive("history: regex queries x ordered pairs of flag strings (valid and unsupported)", complete)

	all := append(append([]string{}, histRegexQueries...), histOtherQueries...)
	rec.Rapid(t, "history", rec.Scale(12000, 400000), func(t *rapid.T) {
		var q string
		if rapid.IntRange(0, 9).Draw(t, "regex") < 6 {
			q = pick(t, "query", histRegexQueries)
		} else {
			q = pick(t, "query", all)
		}
		n := rapid.IntRange(2, 6).Draw(t, "n")
		s, re, fl := pick(t, "s", histSubjects), pick(t, "re", histPatterns), pick(t, "flags", histFlags)
		inputs := make([]univ.V, n)
		invalid, valid := 0, 0
		for i := range inputs {
			if i > 0 {
				// related inputs: change one coordinate, mostly the flags
				switch rapid.IntRange(0, 9).Draw(t, "vary") {
				case 0, 1, 2, 3, 4:
					fl = pick(t, "flags", histFlags)
				case 5, 6:
					re = pick(t, "re", histPatterns)
				case 7:
					s = pick(t, "s", histSubjects)
				case 8:
					s, re, fl = pick(t, "s", histSubjects), pick(t, "re", histPatterns), pick(t, "flags", histFlags)
				}
			}
			if isFlagValid(fl) {
				valid++
			} else {
				invalid++
			}
			inputs[i] = univ.V{X: histInput(s, re, fl)}
		}
		class := "history/random/flags-all-valid"
		switch {
		case valid > 0 && invalid > 0:
			class = "history/random/flags-valid+invalid"
		case invalid > 0:
			class = "history/random/flags-all-invalid"
		}
		c := historyCase{Query: q, Inputs: inputs}
		if msg := doHistory(c, class); msg != "" {
			t.Fatalf("%s", rec.Fail("history", c, "%s", msg))
		}
	})
}
