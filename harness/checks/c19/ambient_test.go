package c19

import (
	"bytes"
	"context"
	"encoding/json"
	"fmt"
	"io"
	"os"
	"os/exec"
	"path/filepath"
	"sort"
	"strconv"
	"strings"
	"testing"
	"time"

	"github.com/itchyny/gojq"
	"pgregory.net/rapid"

	"verif/internal/run"
	"verif/internal/univ"
)

// ---------------------------------------------------------------------------
// child mode: the test binary re-executed under a chosen ambient setting

type ambCase struct {
	Query string `json:"query"`
	Input univ.V `json:"input"`
}

type batchFile struct {
	Mode  string    `json:"mode"` // "plain": no compiler options; "control": every capability granted from the ambient state
	Cases []ambCase `json:"cases"`
}

type batchOut struct {
	Outs []string `json:"outs"`
}

const (
	ambSteps = 20000
	ambOuts  = 50
)

// render runs one program and renders everything observable about the run
// as text: compile outcome, every output in the representation-preserving
// encoding, the terminal error, whether the step budget cut it.
func render(q string, input any, opts ...gojq.CompilerOption) string {
	query, err := gojq.Parse(q)
	if err != nil {
		return "parse-error: " + err.Error()
	}
	code, err := safeCompile(query, opts...)
	if err != nil {
		if m := isCompilePanic(err); m != "" {
			return "PANIC " + m
		}
		return "compile-error: " + err.Error()
	}
	r := run.Exec(code, input, ambSteps, ambOuts)
	var sb strings.Builder
	for _, v := range r.Vals {
		b, err := json.Marshal(univ.Enc(v))
		if err != nil {
			b = []byte(fmt.Sprintf("unencodable %T", v))
		}
		sb.Write(b)
		sb.WriteByte('\n')
	}
	if r.Err != nil {
		fmt.Fprintf(&sb, "ERROR %T: %s\n", r.Err, r.Err.Error())
	}
	if r.Budget {
		sb.WriteString("BUDGET\n")
	}
	if r.Panic != "" {
		line := r.Panic
		if i := strings.IndexByte(line, '\n'); i >= 0 {
			line = line[:i]
		}
		sb.WriteString("PANIC " + line + "\n")
	}
	return sb.String()
}

type stdinIter struct{ dec *json.Decoder }

func (s *stdinIter) Next() (any, bool) {
	var v any
	if err := s.dec.Decode(&v); err != nil {
		if err == io.EOF {
			return nil, false
		}
		return err, true
	}
	return v, true
}

func childMain(path string) int {
	b, err := os.ReadFile(path)
	if err != nil {
		fmt.Fprintln(os.Stderr, "c19 child:", err)
		return 3
	}
	var bf batchFile
	if err := json.Unmarshal(b, &bf); err != nil {
		fmt.Fprintln(os.Stderr, "c19 child:", err)
		return 3
	}
	out := batchOut{Outs: make([]string, len(bf.Cases))}
	stdin := &stdinIter{json.NewDecoder(os.Stdin)}
	progress, _ := os.Create(os.Getenv("C19_CHILD_OUT") + ".progress")
	for i, c := range bf.Cases {
		var opts []gojq.CompilerOption
		if bf.Mode == "control" {
			opts = []gojq.CompilerOption{
				gojq.WithEnvironLoader(os.Environ),
				gojq.WithModuleLoader(gojq.NewModuleLoader([]string{"~/.jq", "."})),
				gojq.WithInputIter(stdin),
			}
		}
		if progress != nil {
			progress.WriteAt([]byte(fmt.Sprintf("%08d", i)), 0)
		}
		// quoted to ASCII: error texts may hold invalid UTF-8, which JSON would replace
		out.Outs[i] = strconv.QuoteToASCII(render(c.Query, c.Input.X, opts...))
	}
	ob, err := json.Marshal(out)
	if err == nil {
		err = os.WriteFile(os.Getenv("C19_CHILD_OUT"), ob, 0o644)
	}
	if err != nil {
		fmt.Fprintln(os.Stderr, "c19 child:", err)
		return 3
	}
	return 0
}

// ---------------------------------------------------------------------------
// the two ambient settings

type ambient struct {
	name  string
	env   []string
	dir   string
	stdin string
	args  []string
}

type ambWorld struct {
	root     string
	a, b     ambient
	seq      int
	files    map[string]string
	pristine string
	effects  string // side effects observed by the last spawn
}

// snapshot lists every file below the cwd and home directories with its content.
func (w *ambWorld) snapshot() string {
	var sb strings.Builder
	for _, d := range []string{"cwdA", "cwdB", "homeA", "homeB"} {
		filepath.Walk(filepath.Join(w.root, d), func(p string, fi os.FileInfo, err error) error {
			if err != nil {
				return nil
			}
			rel, _ := filepath.Rel(w.root, p)
			if fi.IsDir() {
				sb.WriteString(rel + "/ ")
				return nil
			}
			b, _ := os.ReadFile(p)
			fmt.Fprintf(&sb, "%s=%q ", rel, b)
			return nil
		})
	}
	return sb.String()
}

func (w *ambWorld) restore() {
	for _, d := range []string{"cwdA", "cwdB", "homeA", "homeB"} {
		os.RemoveAll(filepath.Join(w.root, d))
	}
	for p, s := range w.files {
		os.MkdirAll(filepath.Dir(p), 0o755)
		os.WriteFile(p, []byte(s), 0o644)
	}
}

var world *ambWorld

func setupWorld() (*ambWorld, error) {
	root, err := os.MkdirTemp("", "c19-amb-")
	if err != nil {
		return nil, err
	}
	w := &ambWorld{root: root, files: map[string]string{}}
	mk := func(name, tz, user, lang, secret, stdin string, extraEnv []string, args []string) (ambient, error) {
		cwd := filepath.Join(root, "cwd"+name)
		home := filepath.Join(root, "home"+name)
		for _, d := range []string{cwd, home, filepath.Join(cwd, "a")} {
			if err := os.MkdirAll(d, 0o755); err != nil {
				return ambient{}, err
			}
		}
		files := map[string]string{
			filepath.Join(cwd, "m.jq"):      "def f: \"module in cwd" + name + "\"; def only" + name + ": 1;",
			filepath.Join(cwd, "n.jq"):      "def g: \"n in cwd" + name + "\";",
			filepath.Join(cwd, "a", "b.json"): "{\"where\": \"a/b in cwd" + name + "\"}",
			filepath.Join(cwd, "data.json"): "{\"d\": \"data in cwd" + name + "\"}",
			filepath.Join(cwd, ".jq"):       "def cwdinit: \"cwd" + name + "\";",
			filepath.Join(home, ".jq"):      "def amb: \"home" + name + "\";",
			filepath.Join(cwd, "input.json"): "\"file in cwd" + name + "\"",
		}
		for p, s := range files {
			if err := os.WriteFile(p, []byte(s), 0o644); err != nil {
				return ambient{}, err
			}
			w.files[p] = s
		}
		env := []string{"HOME=" + home, "TZ=" + tz, "USER=" + user, "LOGNAME=" + user, "LANG=" + lang, "LC_ALL=" + lang, "C19_SECRET=" + secret,
			"JQ_LIBRARY_PATH=" + cwd, "PWD=" + cwd, "TMPDIR=" + root, "GOTRACEBACK=single"}
		env = append(env, extraEnv...)
		return ambient{name: name, env: env, dir: cwd, stdin: stdin, args: args}, nil
	}
	if w.a, err = mk("A", "UTC", "alice", "C", "alpha", "\"stdin of A\" 1 2 3 4 5 6 7 8 9 10\n", []string{"PATH=/usr/bin:/bin", "NO_COLOR=1", "JQ_COLORS=0;31", "GOJQ_COLORS=0;31", "ONLY_IN_A=1"}, nil); err != nil {
		return nil, err
	}
	if w.b, err = mk("B", "Asia/Tokyo", "bob", "ja_JP.UTF-8", "beta", "{\"stdin\":\"of B\"} [\"x\"] null false 0 1 2 3 4 5\n", []string{"PATH=/bin", "ONLY_IN_B=2", "GOJQ_DEBUG=stderr", "GODEBUG=", "a=lower", "HOME2=x"}, []string{"--arg", "x", "1", "extra"}); err != nil {
		return nil, err
	}
	w.pristine = w.snapshot()
	return w, nil
}

func (w *ambWorld) close() {
	if w != nil {
		os.RemoveAll(w.root)
	}
}

// spawn runs a batch in a child under the ambient setting.
func (w *ambWorld) spawn(am ambient, bf batchFile) ([]string, error) {
	w.seq++
	in := filepath.Join(w.root, fmt.Sprintf("batch-%d.json", w.seq))
	out := filepath.Join(w.root, fmt.Sprintf("batch-%d.out.json", w.seq))
	b, err := json.Marshal(bf)
	if err != nil {
		return nil, err
	}
	if err := os.WriteFile(in, b, 0o644); err != nil {
		return nil, err
	}
	defer os.Remove(in)
	defer os.Remove(out)
	exe, err := os.Executable()
	if err != nil {
		exe = os.Args[0]
	}
	ctx, cancel := context.WithTimeout(context.Background(), 60*time.Second)
	defer cancel()
	defer os.Remove(out + ".progress")
	cmd := exec.CommandContext(ctx, exe, append([]string{"-test.run", "^$"}, am.args...)...)
	cmd.Env = append(append([]string{}, am.env...), "C19_CHILD="+in, "C19_CHILD_OUT="+out)
	cmd.Dir = am.dir
	cmd.Stdin = strings.NewReader(am.stdin)
	var stderr bytes.Buffer
	cmd.Stderr = &stderr
	cmd.Stdout = &stderr
	if err := cmd.Run(); err != nil {
		at := ""
		if pb, e := os.ReadFile(out + ".progress"); e == nil {
			if i, e := strconv.Atoi(strings.TrimSpace(string(pb))); e == nil && i < len(bf.Cases) {
				at = fmt.Sprintf(" while running case %d: %q on %s", i, bf.Cases[i].Query, univ.Show(bf.Cases[i].Input.X))
			}
		}
		return nil, fmt.Errorf("child %s: %v%s: %s", am.name, err, at, tail(stderr.String(), 2000))
	}
	ob, err := os.ReadFile(out)
	if err != nil {
		return nil, fmt.Errorf("child %s wrote no result: %v: %s", am.name, err, tail(stderr.String(), 2000))
	}
	// nothing may be written either: the child's stdout/stderr stay empty and
	// its working and home directories stay as they were
	w.effects = ""
	if stderr.Len() > 0 {
		w.effects = fmt.Sprintf("child %s wrote to stdout/stderr: %q", am.name, tail(stderr.String(), 500))
	} else if now := w.snapshot(); now != w.pristine {
		w.effects = fmt.Sprintf("child %s changed the files of its working or home directory:\n  before %s\n  after  %s", am.name, w.pristine, now)
		w.restore()
	}
	var bo batchOut
	if err := json.Unmarshal(ob, &bo); err != nil {
		return nil, err
	}
	if len(bo.Outs) != len(bf.Cases) {
		return nil, fmt.Errorf("child %s answered %d of %d cases", am.name, len(bo.Outs), len(bf.Cases))
	}
	for i, q := range bo.Outs {
		if bo.Outs[i], err = strconv.Unquote(q); err != nil {
			return nil, fmt.Errorf("child %s: answer %d: %v", am.name, i, err)
		}
	}
	return bo.Outs, nil
}

func tail(s string, n int) string {
	if len(s) > n {
		return s[len(s)-n:]
	}
	return s
}

func ambientMsg(c ambCase, a, b, p string) string {
	if strings.Contains(a, "PANIC ") || strings.Contains(b, "PANIC ") || strings.Contains(p, "PANIC ") {
		return fmt.Sprintf("gojq panicked on %q with input %s: %s", c.Query, univ.Show(c.Input.X), a+b+p)
	}
	if a != b || a != p {
		return fmt.Sprintf("%q on input %s compiled without options depends on the ambient state:\n  child A (TZ=UTC, cwdA, homeA, stdin A): %s\n  child B (TZ=Asia/Tokyo, cwdB, homeB, stdin B): %s\n  parent process: %s",
			c.Query, univ.Show(c.Input.X), strconv.Quote(a), strconv.Quote(b), strconv.Quote(p))
	}
	return ""
}

// checkAmbient runs one case in both children and in this process.
func checkAmbient(c ambCase) string {
	w := world
	if w == nil {
		var err error
		if w, err = setupWorld(); err != nil {
			return "cannot set up the ambient settings: " + err.Error()
		}
		defer w.close()
	}
	bf := batchFile{Mode: "plain", Cases: []ambCase{c}}
	a, err := w.spawn(w.a, bf)
	if err != nil {
		return err.Error()
	}
	if w.effects != "" {
		return fmt.Sprintf("%q on input %s compiled without options has an effect outside the program: %s", c.Query, univ.Show(c.Input.X), w.effects)
	}
	b, err := w.spawn(w.b, bf)
	if err != nil {
		return err.Error()
	}
	if w.effects != "" {
		return fmt.Sprintf("%q on input %s compiled without options has an effect outside the program: %s", c.Query, univ.Show(c.Input.X), w.effects)
	}
	return ambientMsg(c, a[0], b[0], render(c.Query, univ.Copy(c.Input.X)))
}

// ---------------------------------------------------------------------------
// programs over all builtins

type nameArity struct {
	name  string
	arity int
}

// time- or zone-dependent by documentation: the property exempts them
var ambientExempt = map[string]bool{"now/0": true, "localtime/0": true, "strflocaltime/1": true}

func builtinList() ([]nameArity, error) {
	code, err := run.Compile("builtins")
	if err != nil {
		return nil, err
	}
	v, err := run.One(code, nil)
	if err != nil {
		return nil, err
	}
	arr, _ := v.([]any)
	var out []nameArity
	for _, e := range arr {
		s, _ := e.(string)
		i := strings.LastIndexByte(s, '/')
		if i < 0 || ambientExempt[s] {
			continue
		}
		n, err := strconv.Atoi(s[i+1:])
		if err != nil {
			continue
		}
		out = append(out, nameArity{s[:i], n})
	}
	sort.Slice(out, func(i, j int) bool { return out[i].name < out[j].name || out[i].name == out[j].name && out[i].arity < out[j].arity })
	if len(out) < 100 {
		return nil, fmt.Errorf("builtins lists only %d functions", len(out))
	}
	return out, nil
}

// arguments: nothing here grows a value when applied repeatedly (loops are
// cut by the step budget, which does not bound memory)
var ambArgs = []string{".", ".", ".a", ".b", ".[0]", ".[]?", ".[1:]", ". - 1", ". + 1", "1", "2", "0", "-1", "3", "10", "\"a\"", "\"b\"", "\"a,b\"", "\", \"", "null", "true", "false",
	"[1,2]", "[\"a\"]", "[\"a\",\"b\"]", "[0]", "[[\"a\"]]", "{\"a\":1}", "(1,2)", "empty", "length", "type", ". > 2", "length > 0", "not", "tostring", "keys?", "tostream",
	"\"%Y-%m-%dT%H:%M:%SZ\"", "\"%A, %B %d, %Y\"", "\"%s\"", "\"%j %e %H %I %p %z\"", "\"%c\"", "\"a+\"", "\"(?<x>[a-z])\"", "\"\"", "\"g\"", "\"x\"", "\"gi\"", ".a?", ".[0]?", "first?", "1.5", "\"HOME\"", "[\"HOME\"]", "env", "$ENV", "$ENV.PATH", "env.HOME"}

// atoms that name a capability or ambient-looking state
var ambCaps = []string{"env", "$ENV", "env.HOME", "$ENV.PATH", "env.C19_SECRET", "$ENV.TZ", "env | keys", "$ENV | length", "env | to_entries", "[env[]]", "env.USER", "$ENV.PWD", "env.ONLY_IN_A", "$ENV[\"ONLY_IN_B\"]",
	"input", "inputs", "[inputs]", "first(inputs)", "try input catch .", "input?", "debug", "debug(\"m\")", "stderr", "input_filename", "input_line_number", "$__loc__", "$__prog_args", "get_search_list", "getpath([\"HOME\"])",
	"\"m\" | modulemeta", "\"./m\" | modulemeta", "\"data\" | modulemeta", "try (\"m\" | modulemeta) catch .", "halt", "halt_error", "halt_error(1)", "\"bye\" | halt_error(0)", "builtins | length", "$named", "$ENV.named", "ltrimstr(env.HOME // \"\")",
	"mktime", "gmtime", "todate", "fromdate", "strftime(\"%Y-%m-%dT%H:%M:%SZ\")", "strftime(\"%c\")", "strftime(\"%A %j %H\")", "strptime(\"%Y-%m-%dT%H:%M:%SZ\")", "strptime(\"%Y-%m-%dT%H:%M:%S%z\")", "gmtime | mktime", "gmtime | todate", "strptime(\"%Y-%m-%dT%H:%M:%SZ\") | mktime",
	"todateiso8601", "fromdateiso8601", "dateadd(\"seconds\"; 1)", "date", "splits(\"a\")", "@sh", "@json", "@base64", "@base64d", "@uri", "@csv", "@tsv", "@html", "@text", "@base32", "@base32d", "tojson", "fromjson", "ascii", "getpath([\"a\"])", "get_search_list | length"}

var ambImports = []string{"import \"m\" as m; ", "include \"m\"; ", "import \"data\" as $d; ", "import \"./m\" as m; ", "import \"../cwdA/m\" as m; ", "import \"a/b\" as $x; ", "import \"m\" as m {search: \"./\"}; ", "include \"n\" {search: \"../cwdB\"}; ", "import \".jq\" as j; "}
var ambImportUses = []string{"m::f", "f", "$d", "$d::d", "$x", "g", "m::onlyA", "onlyB", "cwdinit", "amb", "."}

var ambWraps = []string{"%s", "%s", "%s", "[%s]", "try (%s) catch .", "(%s)?", "first(%s)", "[limit(5; %s)]", "{a: (%s)}", "(%s) as $x | [$x]", "[.[]? | (%s)]", "(%s) | tojson", "(%s) | type", "[(%s), 1]", "(%s) // \"alt\"", "def w: %s; w", "path(%s)?", "if (%s) then 1 else 2 end", "\"s\\(%s)\"", "label $z | (%s)"}

var ambWide bool

var ambInputs = []any{
	nil, true, false, 0, 1, -1, 2, 3, 10, 1.5, -0.5, 2.5, 3.7, 8, 255, 1425599507, 1425599507.789, 1e12, 1e300, -1e300, 1e-7,
	"", "a", "ab", "abc", "AbC", "a,b, c", "2015-03-05T23:51:47Z", "2015-03-05T23:51:47+0900", "10:20", "[1,{\"a\":2}]", "YWJj", "MFRGG===", "a b&c=é", "<&>'\"", "  x  ", "😀é", "1", "1e3", "nan", "HOME", "m", "./m",
	[]any{}, []any{1, 2, 3}, []any{3, 1, 2}, []any{"a", "b"}, []any{nil, false, 1}, []any{[]any{1, 2}, []any{3, 4}}, []any{[]any{1, []any{2}}, 3}, []any{65, 66, 128512}, []any{1, "a,b", nil}, []any{2015, 2, 5, 23, 51, 47, 4, 63},
	[]any{map[string]any{"a": 1, "b": 2}, map[string]any{"a": 1}}, []any{map[string]any{"key": "a", "value": 1}, map[string]any{"name": "b", "value": 2}}, []any{[]any{[]any{"a"}, 1}, []any{[]any{"a"}}}, []any{0, []any{1, 2}, map[string]any{"a": 1}},
	map[string]any{}, map[string]any{"a": 1, "b": 2}, map[string]any{"a": []any{1, 2, map[string]any{"b": nil}}, "b": "x", "c": map[string]any{"a": 1}}, map[string]any{"a": "b", "b": "c"}, map[string]any{"a": map[string]any{"b": 1}, "b": 2},
	map[string]any{"HOME": "input-home", "PATH": "input-path"}, map[string]any{"a": "2015-03-05T23:51:47Z", "b": 1425599507}, map[string]any{"a": []any{"x", "y"}, "b": "x"},
}

type ambProg struct {
	src   string
	caps  bool
	names []string
}

func genAmbProg(t *rapid.T, bl []nameArity) ambProg {
	var p ambProg
	stage := func() string {
		var s string
		switch k := rapid.IntRange(0, 19).Draw(t, "atom"); {
		case k < 11:
			b := bl[rapid.IntRange(0, len(bl)-1).Draw(t, "builtin")]
			p.names = append(p.names, b.name+"/"+strconv.Itoa(b.arity))
			s = b.name
			if b.arity > 0 {
				args := make([]string, b.arity)
				for i := range args {
					args[i] = pick(t, "arg", ambArgs)
					if i == 0 && (b.name == "jn" || b.name == "yn") {
						// the order of a Bessel function is a loop count inside math.Jn/Yn:
						// 1e12 | yn(.; 1) runs for hours without polling the context
						args[i] = pick(t, "order", []string{"0", "1", "2", "3", "10", "-1", "1.5", "(1,2)", "null", "\"a\""})
					}
					if strings.Contains(args[i], "env") || strings.Contains(args[i], "ENV") {
						p.caps = true
					}
				}
				s += "(" + strings.Join(args, "; ") + ")"
			}
			switch b.name {
			case "input", "inputs", "env", "modulemeta", "halt", "halt_error", "debug", "mktime", "gmtime", "strftime", "strptime", "todate", "fromdate", "todateiso8601", "fromdateiso8601", "builtins", "getpath", "input_line_number":
				p.caps = true
			}
		case k < 17:
			s = pick(t, "cap", ambCaps)
			p.caps = true
		default:
			s = pick(t, "misc", []string{".", ".a", ".[]?", ".[0]?", "1", "\"a\"", "[.]", "keys?", "..", "tostring", "length?", "(., 1)"})
		}
		return strings.ReplaceAll(pick(t, "wrap", ambWraps), "%s", s)
	}
	n := rapid.IntRange(1, 3).Draw(t, "stages")
	p.src = stage()
	for i := 1; i < n; i++ {
		// later stages are reached also when an earlier one fails or is empty
		switch rapid.IntRange(0, 5).Draw(t, "join") {
		case 0, 1:
			p.src = p.src + " | " + stage()
		case 2:
			p.src = "(try (" + p.src + ") catch .), (" + stage() + ")"
		case 3:
			p.src = "[(" + p.src + ")?] | ., (.[]? | " + stage() + ")"
		case 4:
			p.src = "((" + p.src + ")? // .) | " + stage()
		default:
			p.src = "(" + stage() + ") as $s | (" + p.src + ")?, $s"
		}
	}
	if rapid.IntRange(0, 11).Draw(t, "import") == 0 {
		p.src = pick(t, "imp", ambImports) + pick(t, "impuse", ambImportUses) + " | " + p.src
		p.caps = true
	}
	return p
}

// the control batch: with the options every one of these reaches the ambient
// state, so the two children must answer differently
var controlQueries = []struct{ q, what string }{
	{"env.C19_SECRET", "environment"}, {"$ENV.HOME", "environment"}, {"env | keys", "environment"},
	{"input", "stdin"}, {"[inputs] | length", "stdin"},
	{"import \"m\" as m; m::f", "cwd"}, {"import \"data\" as $d; $d", "cwd"}, {"\"m\" | modulemeta | .defs", "cwd"}, {"include \"n\"; g", "cwd"},
	{"amb", "home"},
	{"0 | localtime", "TZ"}, {"0 | strflocaltime(\"%H:%M %Z\")", "TZ"}, {"0 | localtime | mktime", "TZ"},
}

func runAmbient(t *testing.T) {
	if !ambWide {
		// wide objects: a consumer that walked a Go map unsorted would answer
		// differently from process to process
		ambInputs = append(ambInputs, wideAmbientInputs()...)
		ambInputs = append(ambInputs, wideAmbientInputs()...)
		ambWide = true
	}
	bl, err := builtinList()
	if err != nil {
		t.Fatalf("builtins: %v", err)
	}
	w, err := setupWorld()
	if err != nil {
		t.Fatalf("ambient settings: %v", err)
	}
	world = w
	defer func() { world = nil; w.close() }()

	// control: the settings are distinguishable once the options are given
	if rec.Shard == 0 {
		bf := batchFile{Mode: "control"}
		for _, c := range controlQueries {
			bf.Cases = append(bf.Cases, ambCase{Query: c.q})
		}
		a, errA := w.spawn(w.a, bf)
		b, errB := w.spawn(w.b, bf)
		if errA != nil || errB != nil {
			t.Fatalf("control batch: %v %v", errA, errB)
		}
		differs := map[string]bool{}
		for i, c := range controlQueries {
			if a[i] != b[i] && !strings.Contains(a[i], "error") && !strings.Contains(b[i], "error") {
				differs[c.what] = true
			} else {
				t.Logf("control %q does not tell the settings apart: A %q B %q", c.q, a[i], b[i])
				if c.what != "TZ" {
					t.Errorf("ambient control %q failed: the harness cannot observe %s", c.q, c.what)
				}
			}
		}
		rec.Extra("ambient_controls_distinguish", sortedKeys(differs))
		// and without the options the very same control queries must not
		bf.Mode = "plain"
		a, errA = w.spawn(w.a, bf)
		b, errB = w.spawn(w.b, bf)
		if errA != nil || errB != nil {
			t.Fatalf("control batch: %v %v", errA, errB)
		}
		for i, c := range controlQueries {
			if c.what == "TZ" {
				continue // exempt by the property
			}
			ac := ambCase{Query: c.q}
			rec.Eval()
			rec.NT("ambient\x00" + c.q + "\x00null")
			rec.Class("ambient/control-queries-without-options")
			if msg := ambientMsg(ac, a[i], b[i], render(c.q, nil)); msg != "" {
				rec.Direct("ambient", ac, "%s", msg)
			}
		}
	}

	batch := 250
	spawnFailure := "" // a child that died or hung: machinery, not a verdict (no shrinking through 60 s timeouts)
	defer func() {
		if spawnFailure != "" {
			t.Errorf("ambient: %s", spawnFailure)
		}
	}()
	rec.Rapid(t, "ambient", rec.Scale(240, 6000), func(t *rapid.T) {
		bf := batchFile{Mode: "plain"}
		progs := make([]ambProg, batch)
		for i := 0; i < batch; i++ {
			progs[i] = genAmbProg(t, bl)
			bf.Cases = append(bf.Cases, ambCase{Query: progs[i].src, Input: univ.V{X: pick(t, "input", ambInputs)}})
		}
		if spawnFailure != "" {
			return
		}
		a, err := w.spawn(w.a, bf)
		if err != nil {
			spawnFailure = err.Error()
			return
		}
		effects := w.effects
		// child B runs the batch in reverse order: a result that depended on
		// what ran before in the same process would differ as well
		rev := batchFile{Mode: bf.Mode, Cases: make([]ambCase, len(bf.Cases))}
		for i, c := range bf.Cases {
			rev.Cases[len(bf.Cases)-1-i] = c
		}
		rb, err := w.spawn(w.b, rev)
		if err != nil {
			spawnFailure = err.Error()
			return
		}
		b := make([]string, len(rb))
		for i := range rb {
			b[len(rb)-1-i] = rb[i]
		}
		if effects == "" {
			effects = w.effects
		}
		if effects != "" && rec.Violations() <= 20 {
			// find the program: one case per child
			found := false
			for _, c := range bf.Cases {
				if msg := checkAmbient(c); msg != "" {
					rec.Direct("ambient", c, "%s", msg)
					found = true
					break
				}
			}
			if !found {
				rec.Direct("ambient", bf.Cases[0], "some program of the batch starting with this one: %s", effects)
			}
		}
		for i, c := range bf.Cases {
			rec.Eval()
			p := render(c.Query, univ.Copy(c.Input.X))
			switch {
			case strings.HasPrefix(p, "parse-error"):
				rec.Class("ambient/result/parse-error")
			case strings.HasPrefix(p, "compile-error"):
				rec.Class("ambient/result/compile-error")
			case strings.Contains(p, "BUDGET"):
				rec.Class("ambient/result/budget-cut")
			case strings.Contains(p, "ERROR "):
				rec.Class("ambient/result/error")
			case p == "":
				rec.Class("ambient/result/empty")
			default:
				rec.Class("ambient/result/outputs")
			}
			for _, n := range progs[i].names {
				rec.Class("ambient/builtin/" + n)
			}
			if progs[i].caps {
				rec.Class("ambient/mentions-capability-or-date")
				rec.NT("ambient\x00" + c.Query + "\x00" + univ.Show(c.Input.X))
			}
			sample("ambient", map[string]any{"sub": "ambient", "query": c.Query, "input": univ.Show(c.Input.X), "result": tail(p, 300)})
			if msg := ambientMsg(c, a[i], b[i], p); msg != "" && rec.Violations() <= 20 {
				// confirm on the single case, in fresh children
				if msg2 := checkAmbient(c); msg2 != "" {
					rec.Direct("ambient", c, "%s", msg2)
				} else {
					rec.Direct("ambient", c, "only inside its batch: %s", msg)
				}
			}
		}
	})
}
