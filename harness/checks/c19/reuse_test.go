package c19

import (
	"fmt"
	"sort"
	"strconv"
	"strings"
	"testing"

	"github.com/itchyny/gojq"
	"pgregory.net/rapid"

	"verif/internal/run"
	"verif/internal/univ"
)

// option-reuse: each compile option grants exactly its own capability, so
// what a Compile call grants depends only on the options passed to THAT call.
// A pool of CompilerOption VALUES is built once; a history of Compile calls
// reuses those same values in drawn subsets and orders; every compiled Code is
// probed (builtins, each name/arity, variables, env, input, import) and must
// answer exactly like a Code compiled with freshly constructed equal options
// for that subset and order alone.

type optSpec struct {
	Kind  string   `json:"kind"` // func | iterfunc | vars | environ | inputiter | modules
	Name  string   `json:"name,omitempty"`
	Min   int      `json:"min,omitempty"`
	Max   int      `json:"max,omitempty"`
	Tag   string   `json:"tag"`
	Names []string `json:"names,omitempty"`
	Pairs []string `json:"pairs,omitempty"`
}

type reuseCase struct {
	Pool    []optSpec `json:"pool"`
	History [][]int   `json:"history"` // each Compile call: indices into Pool, in order
}

type constIter struct{ v any }

func (c constIter) Next() (any, bool) { return c.v, true } // stateless: never exhausted

type tagLoader struct{ tag string }

func (l tagLoader) LoadModule(name string) (*gojq.Query, error) {
	return gojq.Parse("def f: \"module " + name + " of " + l.tag + "\";")
}

// construct builds a new option value from its description.
func (s optSpec) construct() (gojq.CompilerOption, error) {
	tag := s.Tag
	switch s.Kind {
	case "func":
		return gojq.WithFunction(s.Name, s.Min, s.Max, func(x any, a []any) any {
			return append([]any{tag, x}, a...)
		}), nil
	case "iterfunc":
		return gojq.WithIterFunction(s.Name, s.Min, s.Max, func(x any, a []any) gojq.Iter {
			return gojq.NewIter[any](tag, append([]any{x}, a...))
		}), nil
	case "vars":
		return gojq.WithVariables(append([]string(nil), s.Names...)), nil
	case "environ":
		pairs := append([]string(nil), s.Pairs...)
		return gojq.WithEnvironLoader(func() []string { return pairs }), nil
	case "inputiter":
		return gojq.WithInputIter(constIter{"input of " + tag}), nil
	case "modules":
		return gojq.WithModuleLoader(tagLoader{tag}), nil
	}
	return nil, fmt.Errorf("unknown option kind %q", s.Kind)
}

func validPool(pool []optSpec) string {
	iter := map[string]bool{}
	for _, s := range pool {
		switch s.Kind {
		case "func", "iterfunc":
			if !(0 <= s.Min && s.Min <= s.Max && s.Max <= 30) || s.Name == "" {
				return "bad arity range"
			}
			if was, ok := iter[s.Name]; ok && was != (s.Kind == "iterfunc") {
				return "mixed iterator and plain registrations of one name"
			}
			iter[s.Name] = s.Kind == "iterfunc"
		case "vars", "environ", "inputiter", "modules":
		default:
			return "unknown option kind " + s.Kind
		}
	}
	return ""
}

// probes: the queries that show what a compilation granted
func reuseProbes(pool []optSpec) []string {
	names := map[string]bool{}
	arities := map[int]bool{0: true, 1: true, 2: true, 3: true}
	vars := map[string]bool{}
	for _, s := range pool {
		switch s.Kind {
		case "func", "iterfunc":
			names[s.Name] = true
			for _, n := range []int{s.Min - 1, s.Min, s.Max, s.Max + 1} {
				if n >= 0 && n <= 30 {
					arities[n] = true
				}
			}
		case "vars":
			for _, v := range s.Names {
				vars[v] = true
			}
		}
	}
	var ps []string
	ns := sortedKeys(names)
	if len(ns) > 0 {
		conds := make([]string, len(ns))
		for i, n := range ns {
			conds[i] = "startswith(\"" + n + "/\")"
		}
		ps = append(ps, "[builtins[] | select("+strings.Join(conds, " or ")+")] | sort")
	}
	var as []int
	for n := range arities {
		as = append(as, n)
	}
	sort.Ints(as)
	for _, name := range ns {
		for _, n := range as {
			call := name
			if n > 0 {
				args := make([]string, n)
				for i := range args {
					args[i] = strconv.Itoa(100 + i)
				}
				call += "(" + strings.Join(args, "; ") + ")"
			}
			ps = append(ps, "[try "+call+" catch \"E\"]")
		}
	}
	for _, v := range sortedKeys(vars) {
		ps = append(ps, "["+v+"]")
	}
	ps = append(ps, "[env, $ENV]", "[try input catch \"E\"]", "[limit(2; inputs)]", "import \"m\" as m; m::f", ".")
	return ps
}

// probe renders what one set of option values grants.
func probeWith(opts []gojq.CompilerOption, nvars int, probes []string) []string {
	vals := make([]any, nvars)
	for i := range vals {
		vals[i] = 100 + i
	}
	out := make([]string, len(probes))
	for i, p := range probes {
		q, err := gojq.Parse(p)
		if err != nil {
			out[i] = "parse-error: " + err.Error()
			continue
		}
		code, err := safeCompile(q, opts...)
		if err != nil {
			out[i] = "compile-error: " + err.Error()
			continue
		}
		r := run.Exec(code, 7, steps, 20, vals...)
		s := univ.ShowAll(r.Vals)
		if r.Err != nil {
			s += " error " + strconv.Quote(r.Err.Error())
		}
		if r.Panic != "" {
			s += " PANIC " + r.Panic
		}
		out[i] = s
	}
	return out
}

type reuseOutcome struct {
	msg    string
	reused int // option values applied in more than one Compile call
}

func checkReuse(c reuseCase) reuseOutcome {
	if m := validPool(c.Pool); m != "" {
		return reuseOutcome{msg: "bad case: " + m}
	}
	values := make([]gojq.CompilerOption, len(c.Pool))
	for i, s := range c.Pool {
		v, err := s.construct()
		if err != nil {
			return reuseOutcome{msg: "bad case: " + err.Error()}
		}
		values[i] = v // built once, reused by every call of the history
	}
	probes := reuseProbes(c.Pool)
	uses := map[int]int{}
	var o reuseOutcome
	for step, call := range c.History {
		var reusedOpts, freshOpts []gojq.CompilerOption
		nvars := 0
		seen := map[int]bool{}
		for _, i := range call {
			if i < 0 || i >= len(c.Pool) {
				return reuseOutcome{msg: "bad case: option index"}
			}
			reusedOpts = append(reusedOpts, values[i])
			f, _ := c.Pool[i].construct()
			freshOpts = append(freshOpts, f)
			if c.Pool[i].Kind == "vars" {
				nvars = len(c.Pool[i].Names)
			}
			if !seen[i] {
				seen[i] = true
				uses[i]++
			}
		}
		want := probeWith(freshOpts, nvars, probes)
		got := probeWith(reusedOpts, nvars, probes)
		for k := range probes {
			if strings.Contains(got[k], " PANIC ") || strings.Contains(want[k], " PANIC ") {
				return reuseOutcome{msg: "gojq panicked: " + got[k] + want[k]}
			}
			if got[k] != want[k] {
				var sb strings.Builder
				for s := 0; s <= step; s++ {
					fmt.Fprintf(&sb, "\n    Compile call %d used options %s", s, describeCall(c.Pool, c.History[s]))
				}
				return reuseOutcome{msg: fmt.Sprintf("what a Compile call grants depends on earlier Compile calls that used the same option values: probe %q in call %d\n  with the reused option values:   %s\n  with freshly constructed options: %s%s",
					probes[k], step, got[k], want[k], sb.String())}
			}
		}
	}
	for _, n := range uses {
		if n > 1 {
			o.reused++
		}
	}
	return o
}

func describeCall(pool []optSpec, call []int) string {
	parts := make([]string, len(call))
	for i, j := range call {
		s := pool[j]
		switch s.Kind {
		case "func", "iterfunc":
			parts[i] = fmt.Sprintf("#%d %s(%q,%d,%d)=%s", j, map[string]string{"func": "WithFunction", "iterfunc": "WithIterFunction"}[s.Kind], s.Name, s.Min, s.Max, s.Tag)
		case "vars":
			parts[i] = fmt.Sprintf("#%d WithVariables(%v)", j, s.Names)
		case "environ":
			parts[i] = fmt.Sprintf("#%d WithEnvironLoader(%q)", j, s.Pairs)
		default:
			parts[i] = fmt.Sprintf("#%d %s=%s", j, s.Kind, s.Tag)
		}
	}
	return "[" + strings.Join(parts, ", ") + "]"
}

func doReuse(c reuseCase, class string) string {
	rec.Eval()
	o := checkReuse(c)
	rec.Class(class)
	if o.reused > 0 {
		rec.Class("option-reuse/a-value-used-by-several-compile-calls")
		b, _ := jsonMarshal(c)
		rec.NT("option-reuse\x00" + string(b))
	}
	sample("option-reuse", map[string]any{"sub": "option-reuse", "pool": len(c.Pool), "history": c.History})
	return o.msg
}

func runReuse(t *testing.T) {
	// (E) a fixed pool, every ordered pair of Compile calls over the ordered
	// selections of one or two options (the same value twice included)
	fixed := []optSpec{
		{Kind: "func", Name: "f", Min: 0, Max: 0, Tag: "A"}, {Kind: "func", Name: "f", Min: 1, Max: 1, Tag: "B"}, {Kind: "func", Name: "f", Min: 0, Max: 2, Tag: "C"},
		{Kind: "iterfunc", Name: "g", Min: 0, Max: 1, Tag: "D"}, {Kind: "iterfunc", Name: "g", Min: 1, Max: 3, Tag: "E"},
		{Kind: "vars", Names: []string{"$a"}, Tag: "V1"}, {Kind: "vars", Names: []string{"$b", "$a"}, Tag: "V2"}, {Kind: "environ", Pairs: []string{"K=1"}, Tag: "N1"},
	}
	var sels [][]int
	for i := range fixed {
		sels = append(sels, []int{i})
		for j := range fixed {
			sels = append(sels, []int{i, j})
		}
	}
	complete := true
	idx := 0
	for _, s1 := range sels {
		for _, s2 := range sels {
			idx++
			if !rec.Mine(idx) || rec.Violations() > 20 {
				continue
			}
			// keep the pairs that share a name or an option value: the others cannot interact
			if !related(fixed, s1, s2) {
				continue
			}
			c := reuseCase{Pool: fixed, History: [][]int{s1, s2, s1}}
			if msg := doReuse(c, "option-reuse/fixed-pool-pairs"); msg != "" {
				rec.Direct("option-reuse", c, "%s", msg)
				complete = false
			}
		}
	}
	rec.Exhaustive("option-reuse: fixed pool of 8 option values, ordered pairs of Compile calls over ordered selections of 1-2 values", complete)

	rec.Rapid(t, "option-reuse", rec.Scale(2400, 80000), func(t *rapid.T) {
		n := rapid.IntRange(3, 8).Draw(t, "pool")
		pool := make([]optSpec, n)
		iterOf := map[string]bool{}
		for i := range pool {
			tag := "T" + strconv.Itoa(i)
			switch k := rapid.IntRange(0, 11).Draw(t, "kind"); {
			case k < 8:
				name := pick(t, "name", []string{"f", "f", "f", "g", "h"})
				it, ok := iterOf[name]
				if !ok {
					it = rapid.IntRange(0, 2).Draw(t, "iter") == 0
					iterOf[name] = it
				}
				lo := rapid.IntRange(0, 3).Draw(t, "min")
				hi := lo + rapid.IntRange(0, 2).Draw(t, "span")
				if rapid.IntRange(0, 11).Draw(t, "high") == 0 {
					lo = rapid.IntRange(26, 30).Draw(t, "min")
					hi = rapid.IntRange(lo, 30).Draw(t, "max")
				}
				kind := "func"
				if it {
					kind = "iterfunc"
				}
				pool[i] = optSpec{Kind: kind, Name: name, Min: lo, Max: hi, Tag: tag}
			case k == 8:
				pool[i] = optSpec{Kind: "vars", Tag: tag, Names: pick(t, "vars", [][]string{{"$a"}, {"$b", "$a"}, {"$a", "$b", "$c"}, {}})}
			case k == 9:
				pool[i] = optSpec{Kind: "environ", Tag: tag, Pairs: pick(t, "pairs", [][]string{{"K=1"}, {"K=2", "L=3"}, {}})}
			case k == 10:
				pool[i] = optSpec{Kind: "inputiter", Tag: tag}
			default:
				pool[i] = optSpec{Kind: "modules", Tag: tag}
			}
		}
		calls := rapid.IntRange(2, 6).Draw(t, "calls")
		hist := make([][]int, calls)
		for c := range hist {
			m := rapid.IntRange(1, 4).Draw(t, "options")
			hist[c] = make([]int, m)
			for j := range hist[c] {
				hist[c][j] = rapid.IntRange(0, n-1).Draw(t, "option")
			}
		}
		c := reuseCase{Pool: pool, History: hist}
		if msg := doReuse(c, "option-reuse/random"); msg != "" {
			t.Fatalf("%s", rec.Fail("option-reuse", c, "%s", msg))
		}
	})
}

func related(pool []optSpec, a, b []int) bool {
	key := func(i int) string {
		if pool[i].Name != "" {
			return "name:" + pool[i].Name
		}
		return "kind:" + pool[i].Kind
	}
	for _, i := range a {
		for _, j := range b {
			if i == j || key(i) == key(j) {
				return true
			}
		}
	}
	return false
}
