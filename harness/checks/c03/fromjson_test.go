// fromjson: "The tojson and fromjson builtins dump values as JSON texts or
// parse JSON texts into values" (jq manual); test.yaml "fromjson function",
// "fromjson function error".  Model: a string is accepted iff it is exactly
// ONE JSON value (RFC 8259) surrounded by optional JSON white space — the
// acceptance oracle is encoding/json's json.Valid — and the result is that
// value; everything else (including jq's extensions NaN / Infinity / nan,
// which the README excludes: "gojq does not parse JSON extensions supported by
// jq; NaN, Infinity, and [000]", comments, a second value, a stray closer, a
// truncated text, a NUL) raises a catchable error; a non-string input is an
// error too.  Both directions are checked through `fromjson`,
// `try fromjson catch MARK` and `[fromjson?]`.
package c03

import (
	"encoding/json"
	"fmt"
	"strings"
	"testing"
	"unicode/utf8"

	"pgregory.net/rapid"

	"verif/internal/univ"
)

type fromjsonCase struct {
	Text univ.V  `json:"text"`           // the input (a string; replay keeps odd bytes)
	Want *univ.V `json:"want,omitempty"` // the value the text was generated from, if it was not mutated
}

const fromjsonMark = "#E#c03#fromjson"

var fromjsonJudged, fromjsonAccepted bool

func checkFromJSON(c fromjsonCase) string {
	fromjsonJudged = false
	text, isStr := c.Text.X.(string)
	if !isStr {
		text = univ.Show(c.Text.X) // only for messages: a non-string input is an error
	}
	accept := isStr && json.Valid([]byte(text))
	var want any
	if accept {
		d := json.NewDecoder(strings.NewReader(text))
		d.UseNumber()
		if err := d.Decode(&want); err != nil {
			return "harness: json.Valid text does not decode: " + err.Error()
		}
		if c.Want != nil && utf8.ValidString(text) && !univ.Equal(want, c.Want.X) {
			return fmt.Sprintf("harness: generated text %q decodes to %s, generated from %s", text, univ.Show(want), univ.Show(c.Want.X))
		}
	}
	run1 := func(q string) ([]any, error, string) {
		code, err := compile(q)
		if err != nil {
			return nil, nil, fmt.Sprintf("%q does not compile: %v", q, err)
		}
		res := exec(code, c.Text.X, make([]any, len(varNames)))
		if res.Panic != "" {
			return nil, nil, fmt.Sprintf("%q on %q panicked: %s", q, text, res.Panic)
		}
		if res.Budget {
			return nil, nil, "budget"
		}
		return res.Vals, res.Err, ""
	}
	plain, perr, msg := run1("fromjson")
	if msg != "" {
		return msg
	}
	tried, terr, msg := run1(fmt.Sprintf("try fromjson catch %q", fromjsonMark))
	if msg != "" {
		return msg
	}
	opt, oerr, msg := run1("[fromjson?]")
	if msg != "" {
		return msg
	}
	if terr != nil || oerr != nil {
		return fmt.Sprintf("fromjson on %q: the error is not catchable: try gave %v, ? gave %v", text, terr, oerr)
	}
	if !accept {
		if perr == nil {
			return fmt.Sprintf("fromjson on %q: the text is not exactly one JSON value, the documented behaviour is an error, got %s", text, univ.ShowAll(plain))
		}
		if len(plain) != 0 || len(tried) != 1 || tried[0] != fromjsonMark {
			return fmt.Sprintf("fromjson on %q: expected only an error, got %s then %v; under try %s", text, univ.ShowAll(plain), perr, univ.ShowAll(tried))
		}
		if len(opt) != 1 || !univ.Equal(opt[0], []any{}) {
			return fmt.Sprintf("[fromjson?] on %q: expected [], got %s", text, univ.ShowAll(opt))
		}
		fromjsonJudged, fromjsonAccepted = true, false
		return ""
	}
	if perr != nil {
		return fmt.Sprintf("fromjson on %q: the text is one JSON value (%s), got error %q", text, univ.Show(want), perr)
	}
	for _, r := range []struct {
		q    string
		vals []any
		want any
	}{{"fromjson", plain, want}, {"try fromjson catch", tried, want}, {"[fromjson?]", opt, []any{want}}} {
		if len(r.vals) != 1 || !univ.Equal(r.vals[0], r.want) {
			return fmt.Sprintf("%s on %q: got %s, the text is the JSON value %s", r.q, text, univ.ShowAll(r.vals), univ.Show(want))
		}
	}
	fromjsonJudged, fromjsonAccepted = true, true
	return ""
}

// ---------------------------------------------------------------------------
// generation: a value, its text with drawn white space / spellings, a mutation

var jsonWS = []string{"", "", "", " ", "\n", "\t", "\r\n", "  "}

func genJSONText(t *rapid.T, depth int) (any, string) {
	ws := func() string { return rapid.SampledFrom(jsonWS).Draw(t, "ws") }
	k := rapid.IntRange(0, 9).Draw(t, "kind")
	if depth <= 0 && k >= 6 {
		k -= 6
	}
	switch k {
	case 0:
		return nil, "null"
	case 1:
		if rapid.Bool().Draw(t, "b") {
			return true, "true"
		}
		return false, "false"
	case 2, 3:
		lit := rapid.SampledFrom([]string{"0", "1", "-1", "12", "-0", "1.5", "-2.25", "1e2", "1E+2", "1e-2", "0.1", "100000000000000000000", "1e1000", "-1e1000",
			"9223372036854775808", "0e0", "1.0", "123456789"}).Draw(t, "num")
		return json.Number(lit), lit
	case 4, 5:
		type sp struct{ v, text string }
		n := rapid.IntRange(0, 4).Draw(t, "strlen")
		var v, text strings.Builder
		text.WriteByte('"')
		for i := 0; i < n; i++ {
			p := rapid.SampledFrom([]sp{{"a", "a"}, {"b", "b"}, {" ", " "}, {"é", "é"}, {"é", `\u00e9`}, {"😀", "😀"}, {"😀", `\ud83d\ude00`}, {"\n", `\n`}, {"\"", `\"`},
				{"\\", `\\`}, {"/", `\/`}, {"/", "/"}, {"]", "]"}, {"}", "}"}, {"[", "["}, {",", ","}, {":", ":"}, {"\x00", `\u0000`}, {"\t", `\t`}, {"1", "1"}, {"#", "#"}}).Draw(t, "piece")
			v.WriteString(p.v)
			text.WriteString(p.text)
		}
		text.WriteByte('"')
		return v.String(), text.String()
	case 6, 7:
		n := rapid.IntRange(0, 3).Draw(t, "alen")
		arr := make([]any, n)
		var sb strings.Builder
		sb.WriteString("[" + ws())
		for i := range arr {
			v, s := genJSONText(t, depth-1)
			arr[i] = v
			if i > 0 {
				sb.WriteString("," + ws())
			}
			sb.WriteString(s + ws())
		}
		sb.WriteString("]")
		return arr, sb.String()
	default:
		n := rapid.IntRange(0, 3).Draw(t, "olen")
		obj := map[string]any{}
		var sb strings.Builder
		sb.WriteString("{" + ws())
		for i := 0; i < n; i++ {
			key := rapid.SampledFrom([]string{"a", "b", "", "é", "a b", "]", "}"}).Draw(t, "key")
			v, s := genJSONText(t, depth-1)
			obj[key] = v // a repeated key: the last one wins
			if i > 0 {
				sb.WriteString("," + ws())
			}
			kb, _ := json.Marshal(key)
			sb.WriteString(string(kb) + ws() + ":" + ws() + s + ws())
		}
		sb.WriteString("}")
		return obj, sb.String()
	}
}

var fromjsonInserts = []string{"]", "}", "[", "{", ",", ":", "\"", " ]", " }", "\n]", "\t}", "]]", "1", " 1", "\nnull", " [1]", "{}", " \"x\"", "\x00", " \x00", "// c", " /* c */", "# c",
	"NaN", "nan", "Infinity", "-Infinity", " ", "\n", "\t ", "x", "\xff", "\ufeff", "\v", "\f", "\u00a0", "tru", "'a'", "+1", ".5", "1.", "01", "0x1"}

func genFromJSONCase(t *rapid.T) fromjsonCase {
	v, text := genJSONText(t, 2)
	text = rapid.SampledFrom(jsonWS).Draw(t, "lead") + text + rapid.SampledFrom(jsonWS).Draw(t, "trail")
	switch rapid.IntRange(0, 9).Draw(t, "mutation") {
	case 0, 1: // unmutated: must be accepted with the generating value
		return fromjsonCase{Text: univ.V{X: text}, Want: &univ.V{X: v}}
	case 2, 3, 4: // append
		return fromjsonCase{Text: univ.V{X: text + rapid.SampledFrom(fromjsonInserts).Draw(t, "ins")}}
	case 5: // prepend
		return fromjsonCase{Text: univ.V{X: rapid.SampledFrom(fromjsonInserts).Draw(t, "ins") + text}}
	case 6: // insert
		i := rapid.IntRange(0, len(text)).Draw(t, "at")
		return fromjsonCase{Text: univ.V{X: text[:i] + rapid.SampledFrom(fromjsonInserts).Draw(t, "ins") + text[i:]}}
	case 7: // truncated tail
		i := rapid.IntRange(0, len(text)).Draw(t, "cut")
		return fromjsonCase{Text: univ.V{X: text[:i]}}
	case 8: // a second value after white space
		_, second := genJSONText(t, 1)
		return fromjsonCase{Text: univ.V{X: text + rapid.SampledFrom([]string{" ", "\n", "", ","}).Draw(t, "sep") + second}}
	default: // wrapped or closed once more
		return fromjsonCase{Text: univ.V{X: rapid.SampledFrom([]string{"[" + text + "]", text + "]", text + "}", "[" + text, "{\"a\":" + text + "}", "{\"a\":" + text + "}}", text + " ] 1"}).Draw(t, "wrap")}}
	}
}

var fromjsonBases = []string{"1", "null", "true", "\"x\"", "[1,2]", "{\"a\":1}", "[]", "{}", " [ 1 , {\"a\" : [ ] } ] ", "-0", "1e1000", "\"]\"", "[[1]]", "\"\\u00e9\"", "0"}

func runFromJSON(t *testing.T) {
	n := 0
	complete := true
	visit := func(c fromjsonCase) {
		n++
		if !rec.Mine(n) {
			return
		}
		rec.Eval()
		if msg := checkFromJSON(c); msg != "" {
			complete = false
			if rec.Violations() < 25 {
				rec.Direct("fromjson", c, "%s", msg)
			}
		}
		fromjsonNote(c)
		if n%211 == 0 {
			rec.Sample(map[string]any{"sub": "fromjson", "text": c.Text.X})
		}
	}
	for _, b := range fromjsonBases {
		visit(fromjsonCase{Text: univ.V{X: b}})
		for _, ins := range fromjsonInserts {
			visit(fromjsonCase{Text: univ.V{X: b + ins}})
			visit(fromjsonCase{Text: univ.V{X: ins + b}})
			visit(fromjsonCase{Text: univ.V{X: b + " " + ins}})
			if len(b) > 1 {
				visit(fromjsonCase{Text: univ.V{X: b[:len(b)/2] + ins + b[len(b)/2:]}})
			}
		}
		for i := 0; i < len(b); i++ {
			visit(fromjsonCase{Text: univ.V{X: b[:i]}})
		}
	}
	for _, x := range U { // non-strings and arbitrary strings of the universe
		visit(fromjsonCase{Text: univ.V{X: x}})
	}
	rec.Exhaustive(fmt.Sprintf("fromjson: %d base texts x %d insertions at the end / the start / after a blank / in the middle, every truncation, the universe", len(fromjsonBases), len(fromjsonInserts)), complete)
	rec.Rapid(t, "fromjson-random", rec.Scale(40000, 600000), func(t *rapid.T) {
		c := genFromJSONCase(t)
		rec.Eval()
		rec.Sample(map[string]any{"sub": "fromjson-random", "text": c.Text.X})
		if msg := checkFromJSON(c); msg != "" {
			t.Fatalf("%s", rec.Fail("fromjson-random", c, "%s", msg))
		}
		fromjsonNote(c)
	})
}

func fromjsonNote(c fromjsonCase) {
	if !fromjsonJudged {
		return
	}
	rec.NT("fromjson|" + univ.Show(c.Text.X))
	if fromjsonAccepted {
		rec.Class("fromjson/accepted")
	} else {
		rec.Class("fromjson/rejected")
	}
}

func replayFromJSON(raw json.RawMessage) string {
	var c fromjsonCase
	if err := json.Unmarshal(raw, &c); err != nil {
		return "bad replay: " + err.Error()
	}
	return checkFromJSON(c)
}
