// Relation 4 — builtin.jq sync.  For every definition in builtin.jq (read at
// run time from $VERIF_REPO or /repo):
//
//	(a) the WHOLE file prepended as user definitions (they shadow the shipped
//	    ones; callees defined earlier in the file resolve to the user copies,
//	    later ones to the shipped copies, exactly as in the shipped scope) must
//	    behave identically to the precompiled definition of builtin.go;
//	(b) the reference interpreter of C01 (refjq), which evaluates jq-defined
//	    builtins from the same text with a naive evaluator, must agree;
//	(c) Parse(builtin.jq) must deep-equal gojq.VerifBuiltinFuncDefs() name by
//	    name (what `go generate` would write today is what is shipped).
package c03

import (
	"fmt"
	"reflect"
	"sort"
	"strings"
	"testing"

	"github.com/itchyny/gojq"
	"pgregory.net/rapid"

	"verif/internal/gen"
	"verif/internal/refjq"
	"verif/internal/run"
	"verif/internal/univ"
)

var prefCache = map[string]compiled{}

func compilePrefixed(q string) (*gojq.Code, error) {
	if c, ok := prefCache[q]; ok {
		return c.code, c.err
	}
	code, err := run.Compile(builtinJQ+"\n"+q, gojq.WithVariables(varNames), gojq.WithInputIter(gojq.NewIter[any]()))
	prefCache[q] = compiled{code, err}
	return code, err
}

var (
	refInterp *refjq.Interp
	refParsed = map[string]*gojq.Query{}
)

func errText(err error) string {
	if err == nil {
		return "<nil>"
	}
	return err.Error()
}

func checkSyncRef(c callCase, withRef bool) string {
	judged = false
	s := specByID[c.Spec]
	if s == nil {
		return "unknown spec " + c.Spec
	}
	if guard(s, c.In.X, c.Args) != "" {
		rec.Discard("sync/guarded")
		return ""
	}
	q := s.query(c.Args)
	codeA, err := compile(q)
	if err != nil {
		return fmt.Sprintf("%q does not compile: %v", q, err)
	}
	codeB, err := compilePrefixed(q)
	if err != nil {
		return fmt.Sprintf("builtin.jq prepended to %q does not compile: %v", q, err)
	}
	vs := values(c.Args)
	ra := exec(codeA, c.In.X, vs)
	rb := exec(codeB, c.In.X, vs)
	if ra.Panic != "" {
		return fmt.Sprintf("%q panicked: %s", q, ra.Panic)
	}
	if rb.Panic != "" {
		return fmt.Sprintf("builtin.jq + %q panicked: %s", q, rb.Panic)
	}
	if ra.Budget || rb.Budget {
		rec.Discard("sync/budget")
		return ""
	}
	call := fmt.Sprintf("%s with .=%s args=%v", q, univ.Show(c.In.X), argKeys(c.Args))
	if (ra.Err != nil) != (rb.Err != nil) || (ra.Err != nil && !univ.Equal(run.ErrValue(ra.Err), run.ErrValue(rb.Err))) || !sameStream(ra.Vals, rb.Vals) {
		return fmt.Sprintf("%s: shipped definition gives %s err=%s, the text of builtin.jq gives %s err=%s", call,
			univ.ShowAll(ra.Vals), errText(ra.Err), univ.ShowAll(rb.Vals), errText(rb.Err))
	}
	judged = true
	if ra.Err == nil && len(ra.Vals) > 0 {
		rec.Class("sync/values")
	} else if ra.Err != nil {
		rec.Class("sync/error")
	} else {
		rec.Class("sync/empty")
	}
	if !withRef {
		return ""
	}
	if refInterp == nil {
		in, err := refjq.NewFromText(builtinJQ)
		if err != nil {
			return "refjq: " + err.Error()
		}
		refInterp = in
	}
	pq := refParsed[q]
	if pq == nil {
		pq, err = gojq.Parse(q)
		if err != nil {
			return fmt.Sprintf("parse %q: %v", q, err)
		}
		refParsed[q] = pq
	}
	vars := map[string]any{}
	for i, n := range varNames {
		vars[n] = vs[i]
	}
	rr := refInterp.Run(pq, c.In.X, vars, 400000, outBudget)
	if refjq.IsNativePanic(rr.Err) {
		return fmt.Sprintf("%s: a native builtin panicked under the reference interpreter: %v", call, rr.Err)
	}
	if d := rr.Discard(); d != "" {
		rec.Discard("sync/ref-" + strings.SplitN(d, ":", 2)[0])
		return ""
	}
	if _, ok := rr.Err.(*refjq.Scope); ok {
		rec.Discard("sync/ref-scope")
		return ""
	}
	if (ra.Err != nil) != (rr.Err != nil) || !univ.EqualStreams(ra.Vals, rr.Vals) {
		return fmt.Sprintf("%s: shipped definition gives %s err=%s, the published definition evaluated by the reference interpreter gives %s err=%s", call,
			univ.ShowAll(ra.Vals), errText(ra.Err), univ.ShowAll(rr.Vals), errText(rr.Err))
	}
	rec.Class("sync/ref-agreed")
	return ""
}

func checkSync(c callCase) string { return checkSyncRef(c, true) }

func sameStream(a, b []any) bool {
	if len(a) != len(b) {
		return false
	}
	for i := range a {
		if !univ.Same(a[i], b[i]) {
			return false
		}
	}
	return true
}

// ---------------------------------------------------------------------------
// (c) AST equality

type astCase struct {
	Name string `json:"name"`
}

var handCompiled = map[string]bool{"_assign": true, "_modify": true, "_last": true}

func checkAST(c astCase) string {
	shipped := gojq.VerifBuiltinFuncDefs()
	var parsed []*gojq.FuncDef
	q, err := gojq.Parse(builtinJQ + " .")
	if err != nil {
		return "builtin.jq: " + err.Error()
	}
	for _, fd := range q.FuncDefs {
		if fd.Name == c.Name {
			parsed = append(parsed, fd)
		}
	}
	have, ok := shipped[c.Name]
	if handCompiled[c.Name] {
		if len(parsed) != 0 || len(have) != 0 {
			return fmt.Sprintf("%s is hand-compiled but has %d definitions in builtin.jq and %d in builtin.go", c.Name, len(parsed), len(have))
		}
		return ""
	}
	if !ok {
		return fmt.Sprintf("%s is defined in builtin.jq but missing from builtin.go", c.Name)
	}
	if len(parsed) == 0 {
		return fmt.Sprintf("%s is defined in builtin.go but not in builtin.jq", c.Name)
	}
	if len(parsed) != len(have) {
		return fmt.Sprintf("%s has %d definitions in builtin.jq and %d in builtin.go", c.Name, len(parsed), len(have))
	}
	for i := range parsed {
		if !reflect.DeepEqual(parsed[i], have[i]) {
			return fmt.Sprintf("definition %d of %s in builtin.go is not what builtin.jq parses to today:\n builtin.jq: %s\n builtin.go: %s", i, c.Name, parsed[i], have[i])
		}
	}
	return ""
}

func runSync(t *testing.T) {
	// (c)
	names := map[string]bool{}
	for n := range gojq.VerifBuiltinFuncDefs() {
		names[n] = true
	}
	for id := range jqDefs {
		names[id[:strings.LastIndexByte(id, '/')]] = true
	}
	var sorted []string
	for n := range names {
		sorted = append(sorted, n)
	}
	sort.Strings(sorted)
	equal := true
	for i, n := range sorted {
		if !rec.Mine(i) {
			continue
		}
		c := astCase{Name: n}
		rec.Eval()
		rec.NT("ast|" + n)
		rec.Class("sync/ast-compared")
		if msg := checkAST(c); msg != "" {
			equal = false
			rec.Direct("sync-ast", c, "%s", msg)
		}
	}
	rec.Exhaustive("sync: every name of builtin.go / builtin.jq compared as AST", equal)
	rec.Extra("ast_names", len(sorted))

	// (a) + (b)
	n := 0
	complete := true
	var live []*spec
	for si, s := range specs {
		if !s.JQ {
			continue
		}
		if _, ok := excludedNames[s.Name]; ok {
			continue
		}
		live = append(live, s)
		count := 0
		switch {
		case s.Arity == 2:
			count = rec.Scale(12000, 0)
		case s.Arity > 2:
			count = rec.Scale(6000, 150000)
		}
		tuples(s, si, count, rec.Seed+77, func(in any, args []arg) {
			n++
			if !rec.Mine(n) {
				return
			}
			c := callCase{Spec: s.ID, In: univ.V{X: in}, Args: args}
			rec.Eval()
			withRef := pick(rec.Seed, 1, rec.Scale(6, 40), n)
			kinds := []string{kindOf(in)}
			for _, a := range args {
				kinds = append(kinds, argKind(a))
			}
			if n%7919 == 0 {
				rec.Sample(map[string]any{"sub": "sync", "query": s.query(args), "in": univ.Show(in), "args": argKeys(args)})
			}
			if msg := checkSyncRef(c, withRef); msg != "" {
				complete = false
				if rec.Violations() < 25 {
					c.Args = cloneArgs(args)
					rec.Direct("sync", c, "%s", msg)
				}
			}
			if judged {
				rec.NT("sync|" + s.ID + "|" + strings.Join(kinds, ","))
			}
		})
	}
	rec.Exhaustive("sync: all tuples of the universe (and the filter pool) for every arity-0/1 definition of builtin.jq"+map[bool]string{true: " and every arity-2 definition", false: ""}[rec.Thorough()], complete)
	rec.Extra("jq_defined_callables", len(live))

	valGen := gen.Value(gen.Opt{Reps: true, Special: true, BadUTF8: true, MaxDepth: 3, MaxWidth: 3, SmallInts: true})
	rec.Rapid(t, "sync-random", rec.Scale(80000, 600000), func(t *rapid.T) {
		s := live[rapid.IntRange(0, len(live)-1).Draw(t, "spec")]
		in := valGen.Draw(t, "in")
		args := make([]arg, s.Arity)
		for p := range args {
			args[p] = genArg(t, s, p, valGen)
		}
		c := callCase{Spec: s.ID, In: univ.V{X: in}, Args: args}
		rec.Eval()
		withRef := rapid.IntRange(0, 3).Draw(t, "ref") == 0
		if msg := checkSyncRef(c, withRef); msg != "" {
			t.Fatalf("%s", rec.Fail("sync-random", c, "%s", msg))
		}
		if judged {
			rec.NT("syncr|" + s.ID + "|" + univ.Show(in) + "|" + strings.Join(argKeys(args), "|"))
		}
	})
}
