// Relation 3 — spec models.  Each model is a few lines of Go written from the
// jq manual (quoted) or pinned by a cli/test.yaml case (named); cells the
// manual leaves open return open(...) and are not judged (they are counted in
// evidence under discarded "model-open/<model>").  The machinery (cases,
// comparison, drivers) is in this file, the models in models_test.go.
package c03

import (
	"encoding/json"
	"fmt"
	"math"
	"math/big"
	"sort"
	"strings"
	"testing"
	"unicode/utf8"

	"pgregory.net/rapid"

	"verif/internal/gen"
	"verif/internal/univ"
)

type modelCase struct {
	Model string   `json:"model"`
	In    univ.V   `json:"in"`
	Args  []univ.V `json:"args"`
}

// mres is what a model says about one call.
type mres struct {
	out  []any
	err  bool
	open string // non-empty: the documentation leaves this cell open
}

func one(v any) mres        { return mres{out: []any{v}} }
func many(vs []any) mres    { return mres{out: vs} }
func fail() mres            { return mres{err: true} }
func open(why string) mres  { return mres{open: why} }
func (m mres) isOpen() bool { return m.open != "" }

type model struct {
	id    string
	query string // over ., $a, $b, $c
	arity int
	f     func(in any, a []any) mres
	gen   func(t *rapid.T) (any, []any) // tailored random cases (nil: generic values)
}

var (
	models    []*model
	modelByID = map[string]*model{}
)

func addModel(id, query string, arity int, f func(in any, a []any) mres, g func(t *rapid.T) (any, []any)) {
	m := &model{id: id, query: query, arity: arity, f: f, gen: g}
	models = append(models, m)
	modelByID[id] = m
}

// judged is set by the check functions when the last case was really judged
// (not discarded as open / guarded / over budget).
var judged bool

func checkModel(c modelCase) string {
	judged = false
	m := modelByID[c.Model]
	if m == nil {
		return "unknown model " + c.Model
	}
	args := make([]any, len(c.Args))
	for i := range args {
		args[i] = c.Args[i].X
	}
	want := m.f(c.In.X, args)
	if want.isOpen() {
		rec.Discard("model-open/" + m.id)
		return ""
	}
	if len(want.out) >= outBudget {
		rec.Discard("model-budget")
		return ""
	}
	code, err := compile(m.query)
	if err != nil {
		return fmt.Sprintf("%q does not compile: %v", m.query, err)
	}
	vs := make([]any, len(varNames))
	copy(vs, args)
	res := exec(code, c.In.X, vs)
	if res.Panic != "" {
		return fmt.Sprintf("%q panicked: %s", m.query, res.Panic)
	}
	if res.Budget {
		rec.Discard("model-budget")
		return ""
	}
	call := fmt.Sprintf("%s with .=%s args=%s", m.query, univ.Show(c.In.X), univ.ShowAll(args))
	if want.err {
		if res.Err == nil {
			return fmt.Sprintf("%s: the documented behaviour is an error, got %s", call, univ.ShowAll(res.Vals))
		}
		if len(res.Vals) > 0 {
			return fmt.Sprintf("%s: emitted %s before the error %q", call, univ.ShowAll(res.Vals), res.Err)
		}
		rec.Class("model/" + m.id + "/error")
		judged = true
		return ""
	}
	if res.Err != nil {
		return fmt.Sprintf("%s: the documented result is %s, got error %q (after %s)", call, univ.ShowAll(want.out), res.Err, univ.ShowAll(res.Vals))
	}
	if !univ.EqualStreams(res.Vals, want.out) {
		return fmt.Sprintf("%s: the documented result is %s, got %s", call, univ.ShowAll(want.out), univ.ShowAll(res.Vals))
	}
	rec.Class("model/" + m.id + "/value")
	judged = true
	return ""
}

func mcase(m *model, in any, args []any) modelCase {
	c := modelCase{Model: m.id, In: univ.V{X: in}}
	for _, a := range args {
		c.Args = append(c.Args, univ.V{X: a})
	}
	return c
}

func modelKey(c modelCase) string {
	var sb strings.Builder
	sb.WriteString("model|" + c.Model + "|" + univ.Show(c.In.X))
	for _, a := range c.Args {
		sb.WriteString("|" + univ.Show(a.X))
	}
	return sb.String()
}

func runModels(t *testing.T) {
	n := 0
	complete := true
	for mi, m := range models {
		visit := func(in any, args []any) {
			n++
			if !rec.Mine(n) {
				return
			}
			c := mcase(m, in, args)
			rec.Eval()
			if n%2503 == 0 {
				rec.Sample(map[string]any{"sub": "model", "model": m.id, "query": m.query, "in": univ.Show(in), "args": univ.ShowAll(args)})
			}
			if msg := checkModel(c); msg != "" {
				complete = false
				if rec.Violations() < 25 {
					rec.Direct("model", c, "%s", msg)
				}
			}
			if judged {
				if m.arity <= 1 {
					rec.NT(modelKey(c))
				} else {
					// arity >= 2 sweeps: distinct cells (Go kinds), not tuples
					k := "modelcell|" + m.id + "|" + kindOf(in)
					for _, a := range args {
						k += "," + kindOf(a)
					}
					rec.NT(k)
				}
			}
		}
		switch {
		case m.arity == 0:
			for _, in := range U {
				visit(in, nil)
			}
		case m.arity == 1:
			for _, in := range U {
				for _, a := range U {
					visit(in, []any{a})
				}
			}
		case m.arity == 2 && rec.Thorough():
			for _, in := range U {
				for _, a := range U {
					for _, b := range U {
						visit(in, []any{a, b})
					}
				}
			}
		default:
			count := rec.Scale(20000, 250000)
			for k := 0; k < count; k++ {
				args := make([]any, m.arity)
				for p := range args {
					args[p] = U[pickIndex(rec.Seed, len(U), 7000+mi, k, p+1)]
				}
				visit(U[pickIndex(rec.Seed, len(U), 7000+mi, k, 0)], args)
			}
		}
	}
	rec.Exhaustive("models: all tuples of the 63-value universe for every arity-0/1 model"+map[bool]string{true: " and every arity-2 model", false: ""}[rec.Thorough()], complete)
	rec.Extra("models", len(models))

	// one rapid sub-check per model: generic values and the model's own generator
	generic := gen.Value(gen.Opt{Reps: true, Special: true, BadUTF8: true, MaxDepth: 3, MaxWidth: 4, SmallInts: true})
	for _, m := range models {
		m := m
		per := rec.Scale(4000, 20000)
		rec.Rapid(t, "model:"+m.id, per, func(t *rapid.T) {
			var in any
			var args []any
			if m.gen != nil && rapid.IntRange(0, 3).Draw(t, "tailored") > 0 {
				in, args = m.gen(t)
				if len(args) > m.arity {
					args = args[:m.arity]
				}
			} else {
				in = generic.Draw(t, "in")
				args = make([]any, m.arity)
				for i := range args {
					args[i] = generic.Draw(t, "arg")
				}
			}
			c := mcase(m, in, args)
			rec.Eval()
			rec.Sample(map[string]any{"sub": "model", "model": m.id, "query": m.query, "in": univ.Show(in), "args": univ.ShowAll(args)})
			if msg := checkModel(c); msg != "" {
				t.Fatalf("%s", rec.Fail("model:"+m.id, c, "%s", msg))
			}
			if judged {
				rec.NT(modelKey(c))
			}
		})
	}
}

// ---------------------------------------------------------------------------
// vocabulary shared by the models (independent of gojq)

func isNum(v any) bool { return typeIdx(v) == 2 }

// exactInt: the value is carried as an exact integer (int, *big.Int or an
// integer-literal json.Number); everything else numeric is a float.
func exactInt(v any) (*big.Int, bool) {
	switch v := v.(type) {
	case int:
		return big.NewInt(int64(v)), true
	case *big.Int:
		return v, true
	case json.Number:
		if univ.IsIntLit(string(v)) {
			b, ok := new(big.Int).SetString(string(v), 10)
			return b, ok
		}
	}
	return nil, false
}

// floatOf is the double nearest to the number (saturating to +-Inf).
func floatOf(v any) float64 {
	switch v := v.(type) {
	case int:
		return float64(v)
	case float64:
		return v
	case *big.Int:
		f, _ := new(big.Float).SetInt(v).Float64()
		return f
	case json.Number:
		if b, ok := exactInt(v); ok {
			f, _ := new(big.Float).SetInt(b).Float64()
			return f
		}
		n, _ := univ.ToNum(v)
		if n.Int != nil {
			f, _ := new(big.Float).SetInt(n.Int).Float64()
			return f
		}
		return n.F
	}
	return math.NaN()
}

func isNaN(v any) bool { return isNum(v) && math.IsNaN(floatOf(v)) }

// numCmp orders two numbers (exact when both are exact integers).  NaN is
// not handled here.
func numCmp(a, b any) int {
	x, ok1 := exactInt(a)
	y, ok2 := exactInt(b)
	if ok1 && ok2 {
		return x.Cmp(y)
	}
	f, g := floatOf(a), floatOf(b)
	switch {
	case f < g:
		return -1
	case f > g:
		return 1
	}
	return 0
}

// jqEq is jq equality: numbers by value, NaN equal to nothing.
func jqEq(a, b any) bool { return univ.Equal(a, b) && !univ.HasNaN(a) }

func sortedKeys(m map[string]any) []string {
	ks := make([]string, 0, len(m))
	for k := range m {
		ks = append(ks, k)
	}
	sort.Strings(ks)
	return ks
}

// jqCmp is the documented total order: null < false < true < numbers <
// strings < arrays < objects; NaN below every number; arrays lexically;
// objects by key sets first, then values key by key.
func jqCmp(a, b any) int {
	rank := func(v any) int {
		switch v := v.(type) {
		case nil:
			return 0
		case bool:
			if v {
				return 2
			}
			return 1
		case string:
			return 4
		case []any:
			return 5
		case map[string]any:
			return 6
		}
		return 3
	}
	if ra, rb := rank(a), rank(b); ra != rb {
		if ra < rb {
			return -1
		}
		return 1
	}
	switch x := a.(type) {
	case string:
		return strings.Compare(x, b.(string))
	case []any:
		y := b.([]any)
		for i := 0; i < len(x) && i < len(y); i++ {
			if c := jqCmp(x[i], y[i]); c != 0 {
				return c
			}
		}
		return len(x) - len(y)
	case map[string]any:
		y := b.(map[string]any)
		kx, ky := sortedKeys(x), sortedKeys(y)
		ax, ay := make([]any, len(kx)), make([]any, len(ky))
		for i, k := range kx {
			ax[i] = k
		}
		for i, k := range ky {
			ay[i] = k
		}
		if c := jqCmp(ax, ay); c != 0 {
			return c
		}
		for _, k := range kx {
			if c := jqCmp(x[k], y[k]); c != 0 {
				return c
			}
		}
		return 0
	}
	if isNum(a) {
		na, nb := isNaN(a), isNaN(b)
		switch {
		case na:
			return -1 // NaN sorts below every number, itself included
		case nb:
			return 1
		}
		return numCmp(a, b)
	}
	return 0
}

func validUTF8Deep(v any) bool {
	switch v := v.(type) {
	case string:
		return utf8.ValidString(v)
	case []any:
		for _, x := range v {
			if !validUTF8Deep(x) {
				return false
			}
		}
	case map[string]any:
		for k, x := range v {
			if !utf8.ValidString(k) || !validUTF8Deep(x) {
				return false
			}
		}
	}
	return true
}

// small integer index carried by any representation; ok is false for
// fractional, NaN, or |i| > limit.
func smallIndex(v any, limit int64) (int, bool) {
	if b, ok := exactInt(v); ok {
		if b.IsInt64() && b.Int64() >= -limit && b.Int64() <= limit {
			return int(b.Int64()), true
		}
		return 0, false
	}
	if !isNum(v) {
		return 0, false
	}
	f := floatOf(v)
	if f != math.Trunc(f) || math.Abs(f) > float64(limit) {
		return 0, false
	}
	return int(f), true
}
