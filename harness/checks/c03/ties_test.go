// ORDER AMONG EQUAL KEYS.  sort_by, group_by and unique_by sort stably and
// min_by / max_by take the first minimum / the last maximum; pinned by
// cli/test.yaml: "sort, sort_by, group_by functions" (sort_by(.a) keeps
// {"a":1,"c":5} before {"a":1,"c":3}, group_by(.b) lists the members of a
// group in input order), "unique, unique_by functions" (unique_by(length) of
// ["cat","dog","hello","world","banana","apple"] is ["cat","hello","banana"]:
// the FIRST element of each group, the manual: "making an array by taking one
// element out of every group produced by group"), "min, min_by, max, max_by
// functions" (all keys equal: min_by gives the first, max_by the last
// element); jq itself sorts (key, index) pairs, i.e. stably.  An unstable sort
// only shows beyond the insertion-sort threshold (12 elements), so the arrays
// have 13 .. 1000 records {k: key with many ties, i: original position} in
// shuffled key order, equal keys also in mixed number representations.  The
// expected positions are computed in Go from the key list.
package c03

import (
	"encoding/json"
	"fmt"
	"math/big"
	"sort"
	"testing"

	"pgregory.net/rapid"

	"verif/internal/univ"
)

type tiesCase struct {
	Keys []univ.V `json:"keys"` // key of the record at each position
}

var tiesQuery = `[(sort_by(.k) | map(.i)), (group_by(.k) | map(map(.i))), (unique_by(.k) | map(.i)), (min_by(.k) | .i), (max_by(.k) | .i), (sort_by(.k, .k) | map(.i)), (group_by(.k) | map(.[0].k))]`

func checkTies(c tiesCase) string {
	n := len(c.Keys)
	in := make([]any, n)
	for i, k := range c.Keys {
		in[i] = map[string]any{"k": univ.Copy(k.X), "i": i}
	}
	// classes of equal keys in ascending order (documented order, jqCmp)
	idx := make([]int, n)
	for i := range idx {
		idx[i] = i
	}
	sort.SliceStable(idx, func(a, b int) bool { return jqCmp(c.Keys[idx[a]].X, c.Keys[idx[b]].X) < 0 })
	var groups [][]int
	for _, i := range idx {
		if g := len(groups) - 1; g >= 0 && jqCmp(c.Keys[groups[g][0]].X, c.Keys[i].X) == 0 {
			groups[g] = append(groups[g], i)
		} else {
			groups = append(groups, []int{i})
		}
	}
	var sorted, uniq, grouped, heads []any
	sorted, uniq, grouped, heads = []any{}, []any{}, []any{}, []any{}
	for _, g := range groups {
		members := make([]any, len(g))
		for j, i := range g {
			members[j] = i
			sorted = append(sorted, i)
		}
		grouped = append(grouped, members)
		uniq = append(uniq, g[0])
		heads = append(heads, c.Keys[g[0]].X)
	}
	var minI, maxI any
	if n > 0 {
		minI = groups[0][0]
		last := groups[len(groups)-1]
		maxI = last[len(last)-1]
	}
	want := []any{sorted, grouped, uniq, minI, maxI, sorted, heads}
	code, err := compile(tiesQuery)
	if err != nil {
		return err.Error()
	}
	var res = exec(code, in, make([]any, len(varNames)))
	if res.Panic != "" {
		return "panicked: " + res.Panic
	}
	if res.Budget {
		rec.Discard("size-ties/budget")
		return ""
	}
	if res.Err != nil || len(res.Vals) != 1 {
		return fmt.Sprintf("keys %s: error %v, outputs %s", clip(showKeys(c)), res.Err, clip(univ.ShowAll(res.Vals)))
	}
	got, _ := res.Vals[0].([]any)
	names := []string{"sort_by(.k) | map(.i)", "group_by(.k) | map(map(.i))", "unique_by(.k) | map(.i)", "min_by(.k) | .i", "max_by(.k) | .i", "sort_by(.k, .k) | map(.i)", "group_by(.k) | map(.[0].k)"}
	for j, w := range want {
		if j >= len(got) || !univ.Equal(got[j], w) {
			var g any
			if j < len(got) {
				g = got[j]
			}
			return fmt.Sprintf("%s on %d records with keys %s: got %s, a stable sort by key (first minimum, last maximum, first member of each group) gives %s", names[j], n, clip(showKeys(c)), clip(univ.Show(g)), clip(univ.Show(w)))
		}
	}
	tiesJudged = true
	return ""
}

var tiesJudged bool

func showKeys(c tiesCase) string {
	ks := make([]any, len(c.Keys))
	for i, k := range c.Keys {
		ks[i] = k.X
	}
	return univ.Show(ks)
}

// key value v in one of its equal representations
func tieKey(v, rep int) any {
	switch rep % 5 {
	case 1:
		return float64(v)
	case 2:
		return big.NewInt(int64(v))
	case 3:
		return json.Number(fmt.Sprint(v))
	case 4:
		return json.Number(fmt.Sprintf("%d.0", v))
	}
	return v
}

var tiesLengths = []int{0, 1, 2, 12, 13, 16, 17, 31, 32, 33, 63, 64, 65, 100, 257, 1000}

func runTies(t *testing.T) {
	n := 0
	withBudget(bigSteps, bigOuts, func() {
		for _, size := range tiesLengths {
			for _, nkeys := range []int{2, 3, 5} {
				for mode := 0; mode < 4; mode++ { // ints; mixed representations; strings and null among the keys; descending blocks
					n++
					if !rec.Mine(n) {
						continue
					}
					c := tiesCase{Keys: make([]univ.V, size)}
					for i := range c.Keys {
						v := np(i+mode*17) % nkeys
						switch mode {
						case 0:
							c.Keys[i] = univ.V{X: v}
						case 1:
							c.Keys[i] = univ.V{X: tieKey(v, np(i)/7)}
						case 2:
							c.Keys[i] = univ.V{X: []any{nil, "b", "a", 1.5, true}[v]}
						default:
							c.Keys[i] = univ.V{X: nkeys - 1 - (i*nkeys/(size+1) % nkeys)}
						}
					}
					rec.Eval()
					tiesJudged = false
					if msg := checkTies(c); msg != "" {
						if rec.Violations() < 25 {
							rec.Direct("size-ties", c, "%s", msg)
						}
						continue
					}
					if tiesJudged {
						rec.Class("size-ties/judged")
						rec.NT(fmt.Sprintf("size-ties|%d|%d|%d", size, nkeys, mode))
					}
				}
			}
		}
	})
	rec.Rapid(t, "size-ties-random", rec.Scale(3000, 60000), func(t *rapid.T) {
		size := rapid.SampledFrom([]int{0, 3, 12, 13, 14, 20, 33, 50, 64, 129}).Draw(t, "n")
		nkeys := rapid.IntRange(1, 5).Draw(t, "nkeys")
		c := tiesCase{Keys: make([]univ.V, size)}
		for i := range c.Keys {
			v := rapid.IntRange(0, nkeys-1).Draw(t, "k")
			c.Keys[i] = univ.V{X: tieKey(v, rapid.IntRange(0, 4).Draw(t, "rep"))}
		}
		rec.Eval()
		tiesJudged = false
		var msg string
		withBudget(bigSteps, bigOuts, func() { msg = checkTies(c) })
		if msg != "" {
			t.Fatalf("%s", rec.Fail("size-ties-random", c, "%s", msg))
		}
		if tiesJudged {
			rec.Class("size-ties/judged")
			rec.NT("size-ties|" + showKeys(c))
		}
	})
}

func replayTies(raw json.RawMessage) string {
	var c tiesCase
	if err := json.Unmarshal(raw, &c); err != nil {
		return "bad replay: " + err.Error()
	}
	var msg string
	withBudget(bigSteps, bigOuts, func() { msg = checkTies(c) })
	return msg
}
