// Models of the arithmetic operators (7 types x 7 types dispatch).
package c03

import (
	"math"
	"math/big"
	"strings"
	"unicode/utf8"

	"pgregory.net/rapid"

	"verif/internal/gen"
	"verif/internal/univ"
)

// numArith: "Numbers are added by normal arithmetic" (manual); integers stay
// exact (README: "gojq supports arbitrary-precision integer calculation ...
// only addition, subtraction, multiplication, modulo, and division operators
// (when divisible) keep the integer precision"); "Division by zero raises an
// error" (manual); float modulo truncates both operands first (test.yaml
// "modulo with near 0.0": 1 % 0.9 is a zero-modulo error).
func numArith(op byte, l, r any) mres {
	x, ok1 := exactInt(l)
	y, ok2 := exactInt(r)
	if ok1 && ok2 {
		z := new(big.Int)
		switch op {
		case '+':
			return one(z.Add(x, y))
		case '-':
			return one(z.Sub(x, y))
		case '*':
			return one(z.Mul(x, y))
		case '/':
			if y.Sign() == 0 {
				return fail()
			}
			q, m := new(big.Int).QuoRem(x, y, new(big.Int))
			if m.Sign() == 0 {
				return one(q)
			}
			return one(floatOf(l) / floatOf(r))
		case '%':
			if y.Sign() == 0 {
				return fail()
			}
			return one(z.Rem(x, y))
		}
	}
	f, g := floatOf(l), floatOf(r)
	switch op {
	case '+':
		return one(f + g)
	case '-':
		return one(f - g)
	case '*':
		return one(f * g)
	case '/':
		if g == 0 {
			return fail()
		}
		return one(f / g)
	}
	// %: only the finite, exactly truncatable range is documented
	if math.IsNaN(f) || math.IsNaN(g) || math.Abs(f) >= 1<<53 || math.Abs(g) >= 1<<53 {
		return open("modulo of NaN or of a float beyond 2^53")
	}
	a, b := int64(math.Trunc(f)), int64(math.Trunc(g))
	if b == 0 {
		return fail()
	}
	return one(int(a % b))
}

// splitModel: "Dividing a string by another splits the first using the
// second as separators" (manual); an empty separator gives the characters and
// an empty dividend gives [] (test.yaml "divide strings").
func splitModel(s, sep string) []any {
	out := []any{}
	if sep == "" {
		for len(s) > 0 {
			_, n := utf8.DecodeRuneInString(s)
			out = append(out, s[:n])
			s = s[n:]
		}
		return out
	}
	for {
		i := strings.Index(s, sep)
		if i < 0 {
			return append(out, s)
		}
		out = append(out, s[:i])
		s = s[i+len(sep):]
	}
}

// repeatModel: test.yaml "multiply strings" / "multiply empty string" /
// "multiply strings error": negative or NaN count -> null, the count is
// truncated, a result of 2^31-1 bytes or more is an error.
func repeatModel(s string, n any) mres {
	f := floatOf(n)
	if math.IsNaN(f) || f < 0 {
		return one(nil)
	}
	c := math.Min(math.Trunc(f), math.MaxInt32)
	size := float64(len(s)) * c
	if size >= math.MaxInt32 {
		return fail()
	}
	if size > 1e6 {
		return open("large repeat (resource)")
	}
	return one(strings.Repeat(s, int(c)))
}

// deepMerge: "Multiplying two objects will merge them recursively: this works
// like addition but if both objects contain a value for the same key, and the
// values are objects, the two are merged with the same strategy" (manual).
func deepMerge(l, r map[string]any) map[string]any {
	m := map[string]any{}
	for k, v := range l {
		m[k] = v
	}
	for k, v := range r {
		if lo, ok := m[k].(map[string]any); ok {
			if ro, ok := v.(map[string]any); ok {
				m[k] = deepMerge(lo, ro)
				continue
			}
		}
		m[k] = v
	}
	return m
}

func mAdd(l, r any) mres {
	// "null can be added to any value, and returns the other value unchanged"
	if l == nil {
		return one(r)
	}
	if r == nil {
		return one(l)
	}
	switch x := l.(type) {
	case string:
		if y, ok := r.(string); ok {
			return one(x + y) // "Strings are added by being joined into a larger string"
		}
	case []any:
		if y, ok := r.([]any); ok {
			return one(append(append([]any{}, x...), y...)) // "Arrays are added by being concatenated"
		}
	case map[string]any:
		if y, ok := r.(map[string]any); ok {
			m := map[string]any{} // "the object on the right of the + wins"
			for k, v := range x {
				m[k] = v
			}
			for k, v := range y {
				m[k] = v
			}
			return one(m)
		}
	default:
		if isNum(l) && isNum(r) {
			return numArith('+', l, r)
		}
	}
	return fail()
}

func mSub(l, r any) mres {
	if isNum(l) && isNum(r) {
		return numArith('-', l, r)
	}
	// "the - operator can be used on arrays to remove all occurrences of the
	// second array's elements from the first array"
	if x, ok := l.([]any); ok {
		if y, ok := r.([]any); ok {
			out := []any{}
		L:
			for _, e := range x {
				for _, d := range y {
					if jqEq(e, d) {
						continue L
					}
				}
				out = append(out, e)
			}
			return one(out)
		}
	}
	return fail()
}

func mMul(l, r any) mres {
	switch {
	case isNum(l) && isNum(r):
		return numArith('*', l, r)
	case isNum(r):
		if s, ok := l.(string); ok {
			return repeatModel(s, r)
		}
	case isNum(l):
		if s, ok := r.(string); ok {
			return repeatModel(s, l) // test.yaml "multiply strings": the number may come first
		}
	}
	if x, ok := l.(map[string]any); ok {
		if y, ok := r.(map[string]any); ok {
			return one(deepMerge(x, y))
		}
	}
	return fail()
}

func mDiv(l, r any) mres {
	if isNum(l) && isNum(r) {
		return numArith('/', l, r)
	}
	if x, ok := l.(string); ok {
		if y, ok := r.(string); ok {
			if x == "" {
				return one([]any{})
			}
			return one(splitModel(x, y))
		}
	}
	return fail()
}

func mMod(l, r any) mres {
	if isNum(l) && isNum(r) {
		return numArith('%', l, r)
	}
	return fail()
}

func mNeg(v any) mres {
	if !isNum(v) {
		return fail()
	}
	if x, ok := exactInt(v); ok {
		return one(new(big.Int).Neg(x))
	}
	return one(-floatOf(v))
}

func genOperands(t *rapid.T) (any, []any) {
	o := gen.Opt{Reps: true, Special: true, BadUTF8: true, MaxDepth: 2, MaxWidth: 3}
	pair := func() (any, any) {
		switch rapid.IntRange(0, 7).Draw(t, "cell") {
		case 7: // magnitude boundaries against each other, small numbers and doubles
			small := []any{0, 1, -1, 2, 3, 0.5, 2.0, -3.0, 1e308, math.MaxFloat64, 10, 1e-300}
			l := univ.Copy(rapid.SampledFrom(edgeNumbers).Draw(t, "l"))
			if rapid.Bool().Draw(t, "edge2") {
				return l, univ.Copy(rapid.SampledFrom(edgeNumbers).Draw(t, "r"))
			}
			r := rapid.SampledFrom(small).Draw(t, "r")
			if rapid.Bool().Draw(t, "swap") {
				return r, l
			}
			return l, r
		case 0:
			return gen.Number(o).Draw(t, "l"), gen.Number(o).Draw(t, "r")
		case 1:
			s := gen.StrBad(5).Draw(t, "s")
			if rapid.Bool().Draw(t, "sub") && len(s) > 0 {
				i := rapid.IntRange(0, len(s)-1).Draw(t, "i")
				return s + s, s[i : i+1]
			}
			return s, gen.StrBad(2).Draw(t, "sep")
		case 2:
			s := gen.StrBad(3).Draw(t, "s")
			n := rapid.SampledFrom([]any{0, 1, 2, 3, -1, 0.5, 1.5, 2.9, -0.5, 100, 1e300, math.NaN(), math.Inf(1), 2147483647, 2147483648, 715827883, 1073741824}).Draw(t, "n")
			if rapid.Bool().Draw(t, "swap") {
				return n, s
			}
			return s, n
		case 3:
			a := gen.Value(gen.Opt{Reps: true, Special: true, MaxDepth: 2, MaxWidth: 4, SmallInts: true}).Draw(t, "a")
			if arr, ok := a.([]any); ok && len(arr) > 0 {
				return append(append([]any{}, arr...), arr...), []any{arr[rapid.IntRange(0, len(arr)-1).Draw(t, "i")], 1}
			}
			return []any{1, 2, 1, a}, []any{a}
		case 4:
			mk := func(l string) map[string]any {
				m := map[string]any{}
				for _, k := range []string{"a", "b", "c"} {
					switch rapid.IntRange(0, 3).Draw(t, l+k) {
					case 0:
						m[k] = rapid.IntRange(0, 3).Draw(t, l+k+"v")
					case 1:
						m[k] = map[string]any{"x": rapid.IntRange(0, 3).Draw(t, l+k+"x"), l: map[string]any{l: 1}}
					case 2:
						m[k] = map[string]any{"x": map[string]any{"y": l}}
					}
				}
				return m
			}
			return mk("l"), mk("r")
		default:
			return gen.Value(o).Draw(t, "l"), gen.Value(o).Draw(t, "r")
		}
	}
	l, r := pair()
	return l, []any{r}
}

func init() {
	bin := func(f func(l, r any) mres) func(in any, a []any) mres {
		return func(in any, a []any) mres { return f(in, a[0]) }
	}
	addModel("op/+", ". + $a", 1, bin(mAdd), genOperands)
	addModel("op/-", ". - $a", 1, bin(mSub), genOperands)
	addModel("op/*", ". * $a", 1, bin(mMul), genOperands)
	addModel("op//", ". / $a", 1, bin(mDiv), genOperands)
	addModel("op/%", ". % $a", 1, bin(mMod), genOperands)
	// comparisons: "null < false < true < numbers < strings < arrays < objects",
	// numbers by value whatever carries them (C11 explores the order in depth;
	// here the expected double of a big integer comes from math/big)
	cmpModel := func(test func(c int) bool) func(in any, a []any) mres {
		return func(in any, a []any) mres { return one(test(jqCmp(in, a[0]))) }
	}
	addModel("op/==", ". == $a", 1, cmpModel(func(c int) bool { return c == 0 }), genOperands)
	addModel("op/!=", ". != $a", 1, cmpModel(func(c int) bool { return c != 0 }), genOperands)
	addModel("op/<", ". < $a", 1, cmpModel(func(c int) bool { return c < 0 }), genOperands)
	addModel("op/<=", ". <= $a", 1, cmpModel(func(c int) bool { return c <= 0 }), genOperands)
	addModel("op/>", ". > $a", 1, cmpModel(func(c int) bool { return c > 0 }), genOperands)
	addModel("op/>=", ". >= $a", 1, cmpModel(func(c int) bool { return c >= 0 }), genOperands)
	addModel("op/neg", "-(.)", 0, func(in any, _ []any) mres { return mNeg(in) }, nil)
	_ = univ.Show
}
