// Models of length, utf8bytelength, keys, has, contains/inside, add, flatten,
// indices/index/rindex, split/1, join, the *trimstr family, ascii_*case,
// min/max, reverse, transpose, to_entries/from_entries.
package c03

import (
	"math"
	"math/big"
	"strings"
	"unicode/utf8"

	"pgregory.net/rapid"

	"verif/internal/gen"
	"verif/internal/univ"
)

// "length: The length of a string is the number of Unicode codepoints it
// contains; of an array the number of elements; of an object the number of
// key-value pairs; of null zero"; of a number its absolute value (jq 1.7
// manual; test.yaml "length function").  A boolean is an error.
func mLength(in any, _ []any) mres {
	switch v := in.(type) {
	case nil:
		return one(0)
	case bool:
		return fail()
	case string:
		if !utf8.ValidString(v) {
			return open("code points of invalid UTF-8")
		}
		return one(utf8.RuneCountInString(v))
	case []any:
		return one(len(v))
	case map[string]any:
		return one(len(v))
	}
	if x, ok := exactInt(in); ok {
		return one(new(big.Int).Abs(x))
	}
	return one(math.Abs(floatOf(in)))
}

// "utf8bytelength outputs the number of bytes used to encode a string in UTF-8."
func mUtf8ByteLength(in any, _ []any) mres {
	if s, ok := in.(string); ok {
		return one(len(s))
	}
	return fail()
}

// "keys, when given an object, returns its keys in an array. The keys are
// sorted alphabetically, by unicode codepoint order. When keys is given an
// array, it returns the valid indices for that array."
func mKeys(in any, _ []any) mres {
	switch v := in.(type) {
	case []any:
		out := make([]any, len(v))
		for i := range out {
			out[i] = i
		}
		return one(out)
	case map[string]any:
		if !validUTF8Deep(sortedAny(v)) {
			return open("order of invalid UTF-8 keys")
		}
		return one(sortedAny(v))
	}
	return fail()
}

func sortedAny(m map[string]any) []any {
	ks := sortedKeys(m)
	out := make([]any, len(ks))
	for i, k := range ks {
		out[i] = k
	}
	return out
}

// "has(key) returns whether the input object has the given key, or the input
// array has an element at the given index."  Open: null input (jq: error,
// gojq: false), fractional / NaN index.
func mHas(in any, a []any) mres {
	switch v := in.(type) {
	case map[string]any:
		k, ok := a[0].(string)
		if !ok {
			return fail()
		}
		_, has := v[k]
		return one(has)
	case []any:
		if !isNum(a[0]) {
			return fail()
		}
		f := floatOf(a[0])
		if math.IsNaN(f) || f != math.Trunc(f) {
			return open("fractional or NaN index")
		}
		return one(f >= 0 && f < float64(len(v)))
	case nil:
		return open("has on null")
	}
	return fail()
}

// containsIn is the recursion of contains: "A string B is contained in a
// string A if B is a substring of A. An array B is contained in an array A if
// all elements in B are contained in any element in A. An object B is
// contained in object A if all of the values in B are contained in the value
// in A with the same key. All other types are assumed to be contained in
// each other if they are equal."
func containsIn(a, b any) bool {
	switch x := a.(type) {
	case string:
		y, ok := b.(string)
		return ok && strings.Index(x, y) >= 0
	case []any:
		y, ok := b.([]any)
		if !ok {
			return false
		}
		for _, e := range y {
			found := false
			for _, d := range x {
				if containsIn(d, e) {
					found = true
					break
				}
			}
			if !found {
				return false
			}
		}
		return true
	case map[string]any:
		y, ok := b.(map[string]any)
		if !ok {
			return false
		}
		for k, e := range y {
			d, ok := x[k]
			if !ok || !containsIn(d, e) {
				return false
			}
		}
		return true
	}
	return typeIdx(a) == typeIdx(b) && jqEq(a, b)
}

func mContains(in any, a []any) mres {
	if typeIdx(in) != typeIdx(a[0]) {
		return fail() // "cannot have their containment checked"
	}
	if x, ok := in.(bool); ok && x != a[0].(bool) {
		return open("true vs false (jq treats them as different kinds)")
	}
	return one(containsIn(in, a[0]))
}

// "inside(b) is, essentially, an inversed version of contains."
func mInside(in any, a []any) mres { return mContains(a[0], []any{in}) }

// "add takes as input an array, and produces as output the elements of the
// array added together ... If the input is an empty array, add returns null."
// (objects: their values, as .[] iterates them in key order)
func mAddAll(in any, _ []any) mres {
	var vs []any
	switch v := in.(type) {
	case []any:
		vs = v
	case map[string]any:
		for _, k := range sortedKeys(v) {
			vs = append(vs, v[k])
		}
	default:
		return fail()
	}
	var acc any
	for _, x := range vs {
		r := mAdd(acc, x)
		if r.err || r.isOpen() {
			return r
		}
		acc = r.out[0]
	}
	return one(acc)
}

// flatten: "produces a flat array in which all arrays inside the original
// array have been recursively replaced by their values. You can pass an
// argument to it to specify how many levels of nesting to flatten"; the
// published definition recurses while `$depth != 0` and raises "flatten depth
// must not be negative" for `$depth < 0` (test.yaml "flatten function").
func flattenModel(out []any, vs []any, depth float64) []any {
	for _, v := range vs {
		if a, ok := v.([]any); ok && depth != 0 {
			out = flattenModel(out, a, depth-1)
		} else {
			out = append(out, v)
		}
	}
	return out
}

func mFlatten(in any, a []any) mres {
	var vs []any
	switch v := in.(type) {
	case []any:
		vs = v
	case map[string]any:
		for _, k := range sortedKeys(v) {
			vs = append(vs, v[k])
		}
	default:
		return fail()
	}
	depth := -1.0
	if len(a) > 0 {
		if !isNum(a[0]) {
			return fail()
		}
		depth = floatOf(a[0])
		if math.IsNaN(depth) {
			return open("NaN depth")
		}
		if depth < 0 {
			return fail()
		}
	}
	return one(flattenModel([]any{}, vs, depth))
}

// indices: "Outputs an array containing the indices in . where s occurs. The
// input may be an array, in which case if s is an array then the indices
// output will be those where all elements in . match those of s"; strings are
// indexed by code points (C14); null input gives null (published definition:
// `.[$i]` on null).  Open: empty needle, object input, invalid UTF-8.
func occurrences(in any, a any) ([]int, mres, bool) {
	switch v := in.(type) {
	case nil:
		return nil, one(nil), false
	case string:
		s, ok := a.(string)
		if !ok {
			return nil, fail(), false
		}
		if !utf8.ValidString(v) || !utf8.ValidString(s) {
			return nil, open("invalid UTF-8"), false
		}
		if s == "" {
			return nil, open("empty needle"), false
		}
		hay, nee := []rune(v), []rune(s)
		var out []int
		for i := 0; i+len(nee) <= len(hay); i++ {
			if string(hay[i:i+len(nee)]) == s {
				out = append(out, i)
			}
		}
		return out, mres{}, true
	case []any:
		nee, ok := a.([]any)
		if !ok {
			nee = []any{a}
		} else if len(nee) == 0 {
			return nil, open("empty needle"), false
		}
		var out []int
	L:
		for i := 0; i+len(nee) <= len(v); i++ {
			for k := range nee {
				if !jqEq(v[i+k], nee[k]) {
					continue L
				}
			}
			out = append(out, i)
		}
		return out, mres{}, true
	case map[string]any:
		return nil, open("object input"), false
	}
	return nil, fail(), false
}

func mIndices(in any, a []any) mres {
	occ, r, ok := occurrences(in, a[0])
	if !ok {
		return r
	}
	out := make([]any, len(occ))
	for i, o := range occ {
		out[i] = o
	}
	return one(out)
}

// "index(s), rindex(s): Outputs the index of the first (index) or last
// (rindex) occurrence of s in the input."
func mIndex(in any, a []any) mres {
	occ, r, ok := occurrences(in, a[0])
	if !ok {
		return r
	}
	if len(occ) == 0 {
		return one(nil)
	}
	return one(occ[0])
}

func mRindex(in any, a []any) mres {
	occ, r, ok := occurrences(in, a[0])
	if !ok {
		return r
	}
	if len(occ) == 0 {
		return one(nil)
	}
	return one(occ[len(occ)-1])
}

// "split(str): Splits an input string on the separator argument."
// test.yaml "split/1 function" pins the empty separator (characters).  Open:
// empty input string (jq gives [], gojq gives [""]).
func mSplit(in any, a []any) mres {
	s, ok1 := in.(string)
	sep, ok2 := a[0].(string)
	if !ok1 || !ok2 {
		return fail()
	}
	if s == "" {
		return open("empty input string")
	}
	return one(splitModel(s, sep))
}

// "join(str): Joins the array of elements given as input, using the argument
// as separator. ... Numbers and Booleans in the input are converted to
// strings. Null values are treated as empty strings. Arrays and objects in
// the input are not supported."  (test.yaml "join function")
func mJoin(in any, a []any) mres {
	var vs []any
	switch v := in.(type) {
	case []any:
		vs = v
	case map[string]any:
		for _, k := range sortedKeys(v) {
			vs = append(vs, v[k])
		}
	default:
		return fail()
	}
	if len(vs) == 0 {
		return one("")
	}
	sep, ok := a[0].(string)
	if !ok {
		return open("separator that is not a string")
	}
	parts := make([]string, len(vs))
	for i, v := range vs {
		switch x := v.(type) {
		case nil:
		case string:
			parts[i] = x
		case []any, map[string]any:
			return fail()
		default:
			s, ok := jsonModel(v)
			if !ok {
				return open("text of NaN / infinity")
			}
			parts[i] = s
		}
	}
	return one(strings.Join(parts, sep))
}

// "ltrimstr(str): Outputs its input with the given prefix string removed, if
// it starts with it"; rtrimstr likewise for a suffix; trimstr both ends
// (jq 1.8); "startswith(str): Outputs true if . starts with the given string
// argument" — startswith/endswith require strings.  Open: non-string
// operands of the trim family (jq <= 1.7 returns the input, gojq errors).
func strPair(in any, a []any) (string, string, bool) {
	s, ok1 := in.(string)
	t, ok2 := a[0].(string)
	return s, t, ok1 && ok2
}

func mLtrimstr(in any, a []any) mres {
	s, t, ok := strPair(in, a)
	if !ok {
		return open("non-string operand")
	}
	if len(s) >= len(t) && s[:len(t)] == t {
		return one(s[len(t):])
	}
	return one(s)
}

func mRtrimstr(in any, a []any) mres {
	s, t, ok := strPair(in, a)
	if !ok {
		return open("non-string operand")
	}
	if len(s) >= len(t) && s[len(s)-len(t):] == t {
		return one(s[:len(s)-len(t)])
	}
	return one(s)
}

func mTrimstr(in any, a []any) mres {
	r := mLtrimstr(in, a)
	if r.isOpen() {
		return r
	}
	return mRtrimstr(r.out[0], a)
}

func mStartswith(in any, a []any) mres {
	s, t, ok := strPair(in, a)
	if !ok {
		return fail()
	}
	return one(len(s) >= len(t) && s[:len(t)] == t)
}

func mEndswith(in any, a []any) mres {
	s, t, ok := strPair(in, a)
	if !ok {
		return fail()
	}
	return one(len(s) >= len(t) && s[len(s)-len(t):] == t)
}

// "ascii_downcase, ascii_upcase: Emit a copy of the input string with its
// alphabetic characters (a-z and A-Z) converted to the specified case."
func asciiCase(up bool) func(in any, _ []any) mres {
	return func(in any, _ []any) mres {
		s, ok := in.(string)
		if !ok {
			return fail()
		}
		b := []byte(s) // only A-Z / a-z change, every other byte is kept (C03.F1)
		for i, c := range b {
			if up && 'a' <= c && c <= 'z' {
				b[i] = c - 32
			} else if !up && 'A' <= c && c <= 'Z' {
				b[i] = c + 32
			}
		}
		return one(string(b))
	}
}

// "min, max: Find the minimum or maximum element of the input array" by the
// documented order; the empty array gives null.
func minMax(isMin bool) func(in any, _ []any) mres {
	return func(in any, _ []any) mres {
		vs, ok := in.([]any)
		if !ok {
			return fail()
		}
		if len(vs) == 0 {
			return one(nil)
		}
		best := vs[0]
		for _, v := range vs[1:] {
			c := jqCmp(v, best)
			if (isMin && c < 0) || (!isMin && c >= 0) {
				best = v
			}
		}
		return one(best)
	}
}

// "reverse: This function reverses an array."  Open: null, strings, numbers,
// objects (jq 1.7 defines them through length/indexing; gojq rejects them).
func mReverse(in any, _ []any) mres {
	switch v := in.(type) {
	case []any:
		out := make([]any, len(v))
		for i, x := range v {
			out[len(v)-1-i] = x
		}
		return one(out)
	case bool:
		return fail()
	}
	return open("reverse of a non-array")
}

// "transpose: Transpose a possibly jagged matrix (an array of arrays). Rows
// are padded with nulls so the result is always rectangular."
func mTranspose(in any, _ []any) mres {
	rows, ok := in.([]any)
	if !ok {
		if _, isObj := in.(map[string]any); isObj {
			return open("object input")
		}
		return fail()
	}
	width := 0
	for _, r := range rows {
		a, ok := r.([]any)
		if !ok {
			return open("row that is not an array")
		}
		if len(a) > width {
			width = len(a)
		}
	}
	out := make([]any, width)
	for j := range out {
		col := make([]any, len(rows))
		for i, r := range rows {
			if a := r.([]any); j < len(a) {
				col[i] = a[j]
			}
		}
		out[j] = col
	}
	return one(out)
}

// "to_entries: {"a": 1, "b": 2} => [{"key":"a","value":1},{"key":"b","value":2}]";
// published definition: [keys[] as $k | {key: $k, value: .[$k]}] (arrays too).
func mToEntries(in any, _ []any) mres {
	out := []any{}
	switch v := in.(type) {
	case []any:
		for i, x := range v {
			out = append(out, map[string]any{"key": i, "value": x})
		}
	case map[string]any:
		if !validUTF8Deep(sortedAny(v)) {
			return open("order of invalid UTF-8 keys")
		}
		for _, k := range sortedKeys(v) {
			out = append(out, map[string]any{"key": k, "value": v[k]})
		}
	default:
		return fail()
	}
	return one(out)
}

// from_entries, published definition in builtin.jq:
//
//	map({ (.key // .Key // .name // .Name): if has("value") then .value else .Value end }) | add // {}
func mFromEntries(in any, _ []any) mres {
	var vs []any
	switch v := in.(type) {
	case []any:
		vs = v
	case map[string]any:
		for _, k := range sortedKeys(v) {
			vs = append(vs, v[k])
		}
	default:
		return fail()
	}
	out := map[string]any{}
	for _, e := range vs {
		if e == nil {
			return fail() // every alternative is null: the key is null
		}
		o, ok := e.(map[string]any)
		if !ok {
			return fail()
		}
		var key any
		for _, name := range []string{"key", "Key", "name", "Name"} {
			key = o[name]
			if key != nil && key != false {
				break
			}
		}
		k, ok := key.(string)
		if !ok {
			return fail()
		}
		if v, has := o["value"]; has {
			out[k] = v
		} else {
			out[k] = o["Value"]
		}
	}
	return one(out)
}

// ---------------------------------------------------------------------------
// tailored generators

var mOpt = gen.Opt{Reps: true, Special: true, BadUTF8: false, MaxDepth: 3, MaxWidth: 4, SmallInts: true}

// a value and something derived from it (a part, the whole, or unrelated)
func genContainsPair(t *rapid.T) (any, []any) {
	a := gen.Value(mOpt).Draw(t, "a")
	var prune func(v any, d int) any
	prune = func(v any, d int) any {
		switch x := v.(type) {
		case string:
			if len(x) > 0 && utf8.ValidString(x) {
				r := []rune(x)
				i := rapid.IntRange(0, len(r)).Draw(t, "i")
				j := rapid.IntRange(i, len(r)).Draw(t, "j")
				return string(r[i:j])
			}
		case []any:
			out := []any{}
			for _, e := range x {
				if rapid.IntRange(0, 2).Draw(t, "keep") > 0 {
					out = append(out, prune(e, d+1))
				}
			}
			return out
		case map[string]any:
			out := map[string]any{}
			for _, k := range sortedKeys(x) {
				if rapid.IntRange(0, 2).Draw(t, "keep") > 0 {
					out[k] = prune(x[k], d+1)
				}
			}
			return out
		}
		return v
	}
	var b any
	switch rapid.IntRange(0, 4).Draw(t, "rel") {
	case 0:
		b = gen.Value(mOpt).Draw(t, "b")
	case 1:
		b = univ.Copy(a)
	default:
		b = prune(univ.Copy(a), 0)
	}
	if rapid.IntRange(0, 5).Draw(t, "swap") == 0 {
		return b, []any{a}
	}
	return a, []any{b}
}

func genHaystack(t *rapid.T) (any, []any) {
	if rapid.Bool().Draw(t, "string") {
		s := []rune(gen.Str(8).Draw(t, "s"))
		rep := rapid.SampledFrom([]string{"a", "ab", "é", "😀", "aa"}).Draw(t, "rep")
		hay := string(s) + rep + string(s) + rep + rep
		switch rapid.IntRange(0, 3).Draw(t, "needle") {
		case 0:
			return hay, []any{rep}
		case 1:
			r := []rune(hay)
			i := rapid.IntRange(0, len(r)-1).Draw(t, "i")
			j := rapid.IntRange(i+1, len(r)).Draw(t, "j")
			return hay, []any{string(r[i:j])}
		case 2:
			return hay, []any{gen.Str(2).Draw(t, "other")}
		default:
			return hay, []any{gen.Value(mOpt).Draw(t, "any")}
		}
	}
	n := rapid.IntRange(0, 8).Draw(t, "n")
	arr := make([]any, n)
	for i := range arr {
		arr[i] = rapid.SampledFrom([]any{0, 1, 1.0, "a", nil, []any{1}, math.NaN(), 2, true}).Draw(t, "e")
	}
	switch rapid.IntRange(0, 2).Draw(t, "needle") {
	case 0:
		if n > 0 {
			i := rapid.IntRange(0, n-1).Draw(t, "i")
			j := rapid.IntRange(i+1, n).Draw(t, "j")
			return arr, []any{univ.Copy(arr[i:j])}
		}
		return arr, []any{[]any{1}}
	case 1:
		return arr, []any{rapid.SampledFrom([]any{0, 1, "a", nil, []any{1}, []any{[]any{1}}, 2, json1()}).Draw(t, "elem")}
	default:
		return arr, []any{gen.Value(mOpt).Draw(t, "any")}
	}
}

func json1() any { return big.NewInt(1) }

func genStrPair(t *rapid.T) (any, []any) {
	s := gen.StrBad(6).Draw(t, "s")
	switch rapid.IntRange(0, 4).Draw(t, "rel") {
	case 0:
		i := rapid.IntRange(0, len(s)).Draw(t, "i")
		return s, []any{s[:i]}
	case 1:
		i := rapid.IntRange(0, len(s)).Draw(t, "i")
		return s, []any{s[i:]}
	case 2:
		p := gen.StrBad(2).Draw(t, "p")
		return p + s + p, []any{p}
	case 3:
		return s, []any{gen.StrBad(3).Draw(t, "other")}
	default:
		return s, []any{gen.Scalar(mOpt).Draw(t, "any")}
	}
}

func genSplitJoin(t *rapid.T) (any, []any) {
	sep := rapid.SampledFrom([]string{",", ", ", "", "ab", "é", "\x00", "aa"}).Draw(t, "sep")
	n := rapid.IntRange(0, 5).Draw(t, "n")
	parts := make([]string, n)
	for i := range parts {
		parts[i] = gen.Str(3).Draw(t, "part")
	}
	return strings.Join(parts, sep), []any{sep}
}

func genJoin(t *rapid.T) (any, []any) {
	n := rapid.IntRange(0, 6).Draw(t, "n")
	arr := make([]any, n)
	for i := range arr {
		switch rapid.IntRange(0, 7).Draw(t, "kind") {
		case 0:
			arr[i] = nil
		case 1:
			arr[i] = rapid.Bool().Draw(t, "b")
		case 2, 3:
			arr[i] = gen.Number(gen.Opt{Reps: true}).Draw(t, "num")
		case 4:
			arr[i] = gen.Value(mOpt).Draw(t, "any")
		default:
			arr[i] = gen.Str(3).Draw(t, "s")
		}
	}
	return arr, []any{rapid.SampledFrom([]any{",", "", "-", ", ", "é", nil, 1}).Draw(t, "sep")}
}

func genFlatten(t *rapid.T) (any, []any) {
	v := gen.Value(gen.Opt{MaxDepth: 4, MaxWidth: 3, SmallInts: true}).Draw(t, "v")
	d := rapid.SampledFrom([]any{0, 1, 2, 3, -1, 0.5, 1.5, -0.5, 1e300, math.Inf(1), math.NaN(), nil, "1", big.NewInt(1), big.NewInt(-1)}).Draw(t, "depth")
	return []any{v, []any{v, []any{[]any{v}}}, 1}, []any{d}
}

func genEntries(t *rapid.T) (any, []any) {
	n := rapid.IntRange(0, 5).Draw(t, "n")
	arr := make([]any, n)
	for i := range arr {
		e := map[string]any{}
		kn := rapid.SampledFrom([]string{"key", "key", "key", "Key", "name", "Name", "k", "KEY"}).Draw(t, "kn")
		e[kn] = rapid.SampledFrom([]any{"a", "b", "c", "", "a", nil, false, 1, true, []any{}}).Draw(t, "k")
		if rapid.IntRange(0, 4).Draw(t, "second") == 0 {
			e["Name"] = "n"
		}
		vn := rapid.SampledFrom([]string{"value", "value", "Value", "v", "none"}).Draw(t, "vn")
		if vn != "none" {
			e[vn] = gen.Scalar(mOpt).Draw(t, "v")
		}
		if rapid.IntRange(0, 5).Draw(t, "both") == 0 {
			e["Value"] = "V"
		}
		arr[i] = e
		if rapid.IntRange(0, 15).Draw(t, "junk") == 0 {
			arr[i] = gen.Scalar(mOpt).Draw(t, "junk")
		}
	}
	return arr, nil
}

func genMatrix(t *rapid.T) (any, []any) {
	n := rapid.IntRange(0, 4).Draw(t, "rows")
	rows := make([]any, n)
	for i := range rows {
		w := rapid.IntRange(0, 4).Draw(t, "w")
		r := make([]any, w)
		for j := range r {
			r[j] = gen.Scalar(mOpt).Draw(t, "cell")
		}
		rows[i] = r
	}
	return rows, nil
}

func genArrayForOrder(t *rapid.T) (any, []any) {
	n := rapid.IntRange(0, 6).Draw(t, "n")
	arr := make([]any, n)
	edge := rapid.IntRange(0, 3).Draw(t, "edges") == 0
	for i := range arr {
		if edge && rapid.Bool().Draw(t, "edge") {
			arr[i] = univ.Copy(rapid.SampledFrom(edgeNumbers).Draw(t, "edgeval"))
			continue
		}
		arr[i] = gen.Value(gen.Opt{Reps: true, Special: true, MaxDepth: 2, MaxWidth: 2, SmallInts: true}).Draw(t, "e")
	}
	return arr, nil
}

func init() {
	addModel("length", "length", 0, mLength, nil)
	addModel("utf8bytelength", "utf8bytelength", 0, mUtf8ByteLength, nil)
	addModel("keys", "keys", 0, mKeys, nil)
	addModel("has", "has($a)", 1, mHas, func(t *rapid.T) (any, []any) {
		v := gen.Value(mOpt).Draw(t, "v")
		switch x := v.(type) {
		case map[string]any:
			if ks := sortedKeys(x); len(ks) > 0 && rapid.Bool().Draw(t, "present") {
				return v, []any{rapid.SampledFrom(ks).Draw(t, "k")}
			}
			return v, []any{gen.Key().Draw(t, "k")}
		case []any:
			return v, []any{rapid.SampledFrom([]any{0, 1, -1, len(x), len(x) - 1, 1.5, big.NewInt(0), 1e300, math.Inf(1), math.NaN(), "a", nil}).Draw(t, "i")}
		}
		return v, []any{gen.Scalar(mOpt).Draw(t, "k")}
	})
	addModel("contains", "contains($a)", 1, mContains, genContainsPair)
	addModel("inside", "inside($a)", 1, mInside, genContainsPair)
	addModel("add", "add", 0, mAddAll, func(t *rapid.T) (any, []any) {
		kind := rapid.IntRange(0, 4).Draw(t, "kind")
		n := rapid.IntRange(0, 5).Draw(t, "n")
		arr := make([]any, n)
		for i := range arr {
			if rapid.IntRange(0, 5).Draw(t, "null") == 0 {
				continue
			}
			switch kind {
			case 0:
				arr[i] = gen.Number(gen.Opt{Reps: true, Special: true}).Draw(t, "num")
			case 1:
				arr[i] = gen.StrBad(3).Draw(t, "s")
			case 2:
				arr[i] = []any{rapid.IntRange(0, 3).Draw(t, "e"), "x"}
			case 3:
				arr[i] = map[string]any{gen.Key().Draw(t, "k"): rapid.IntRange(0, 3).Draw(t, "v")}
			default:
				arr[i] = gen.Value(mOpt).Draw(t, "any")
			}
		}
		if rapid.IntRange(0, 4).Draw(t, "obj") == 0 {
			m := map[string]any{}
			for i, v := range arr {
				m[string(rune('a'+i))] = v
			}
			return m, nil
		}
		return arr, nil
	})
	addModel("flatten/0", "flatten", 0, mFlatten, genFlatten)
	addModel("flatten/1", "flatten($a)", 1, mFlatten, genFlatten)
	addModel("indices", "indices($a)", 1, mIndices, genHaystack)
	addModel("index", "index($a)", 1, mIndex, genHaystack)
	addModel("rindex", "rindex($a)", 1, mRindex, genHaystack)
	addModel("split/1", "split($a)", 1, mSplit, genSplitJoin)
	addModel("join", "join($a)", 1, mJoin, genJoin)
	addModel("ltrimstr", "ltrimstr($a)", 1, mLtrimstr, genStrPair)
	addModel("rtrimstr", "rtrimstr($a)", 1, mRtrimstr, genStrPair)
	addModel("trimstr", "trimstr($a)", 1, mTrimstr, genStrPair)
	addModel("startswith", "startswith($a)", 1, mStartswith, genStrPair)
	addModel("endswith", "endswith($a)", 1, mEndswith, genStrPair)
	asciiGen := func(t *rapid.T) (any, []any) {
		pieces := []string{"@", "A", "B", "Y", "Z", "[", "`", "a", "b", "y", "z", "{", "0", "é", "É", "ß", "K", "\u212a", "\u017f", " "}
		n := rapid.IntRange(0, 8).Draw(t, "n")
		var sb strings.Builder
		for i := 0; i < n; i++ {
			sb.WriteString(rapid.SampledFrom(pieces).Draw(t, "p"))
		}
		return sb.String(), nil
	}
	addModel("ascii_downcase", "ascii_downcase", 0, asciiCase(false), asciiGen)
	addModel("ascii_upcase", "ascii_upcase", 0, asciiCase(true), asciiGen)
	addModel("min", "min", 0, minMax(true), genArrayForOrder)
	addModel("max", "max", 0, minMax(false), genArrayForOrder)
	addModel("reverse", "reverse", 0, mReverse, genArrayForOrder)
	addModel("transpose", "transpose", 0, mTranspose, genMatrix)
	addModel("to_entries", "to_entries", 0, mToEntries, nil)
	addModel("from_entries", "from_entries", 0, mFromEntries, genEntries)
}
