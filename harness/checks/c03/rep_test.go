// Relation 2 — representation metamorphism.  Replacing a numeric input or
// argument (also nested inside arrays/objects) by another Go representation
// of the SAME number — int <-> *big.Int <-> integer-literal json.Number for
// integers of any size; float64 <-> fraction/exponent json.Number for
// |x| <= 2^53 and beyond the double range (1e1000 vs +Inf) — must leave the
// result equal as a jq value and the error / non-error status equal.
//
// Soundness: a json.Number keeps its literal text through tojson / tostring /
// @formats (property C10), so spellings that are not the canonical text of
// the number ("5e-1", "2.0", "1e1000") are judged only where number text
// cannot reach the result: the call is in the `textFree` list or the result
// of the native-representation run contains no string at all.
package c03

import (
	"encoding/json"
	"fmt"
	"math"
	"math/big"
	"strconv"
	"strings"
	"testing"

	"pgregory.net/rapid"

	"verif/internal/univ"
)

// fam is one jq value in several Go representations; reps[0] is the native
// one (int / float64 / *big.Int beyond int64).
type fam struct {
	name string
	reps []any
}

func bigOf(s string) *big.Int {
	b, ok := new(big.Int).SetString(s, 10)
	if !ok {
		panic(s)
	}
	return b
}

func intFam(s string) fam {
	b := bigOf(s)
	f := fam{name: s}
	if b.IsInt64() {
		f.reps = append(f.reps, int(b.Int64()))
	}
	f.reps = append(f.reps, b, json.Number(s))
	return f
}

func fltFam(x float64, lits ...string) fam {
	f := fam{name: strconv.FormatFloat(x, 'g', -1, 64), reps: []any{x}}
	for _, l := range lits {
		f.reps = append(f.reps, json.Number(l))
	}
	return f
}

func plain(v any) fam { return fam{name: univ.Show(v), reps: []any{v}} }

// nest builds the family of shape(x) from the family of x.
func nest(name string, f fam, shape func(x any) any) fam {
	g := fam{name: name + "<" + f.name + ">"}
	for _, r := range f.reps {
		g.reps = append(g.reps, shape(univ.Copy(r)))
	}
	return g
}

// zip builds an array family whose i-th representation takes the i-th
// representation (cyclically) of every element family.
func zip(name string, fs ...fam) fam {
	n := 0
	for _, f := range fs {
		if len(f.reps) > n {
			n = len(f.reps)
		}
	}
	g := fam{name: name}
	for i := 0; i < n; i++ {
		a := make([]any, len(fs))
		for k, f := range fs {
			a[k] = univ.Copy(f.reps[i%len(f.reps)])
		}
		g.reps = append(g.reps, a)
	}
	return g
}

var repU []fam

var edgeInts = boundaryInts()

func init() {
	i0, i1, im1, i2, i3, i4, i10 := intFam("0"), intFam("1"), intFam("-1"), intFam("2"), intFam("3"), intFam("4"), intFam("10")
	p53, maxi, mini := intFam("9007199254740992"), intFam("9223372036854775807"), intFam("-9223372036854775808")
	p63, m30 := intFam("9223372036854775808"), intFam("-1000000000000000000000000000000")
	half := fltFam(0.5, "0.5", "5e-1", "0.50")
	m15 := fltFam(-1.5, "-1.5", "-15E-1")
	f25 := fltFam(2.5, "2.5", "25e-1", "2.50")
	f1024 := fltFam(1024.5, "1024.5", "1.0245e3")
	tenth := fltFam(0.1, "0.1", "1e-1")
	f475 := fltFam(47.5, "47.5")
	two := fltFam(2.0, "2.0", "2e0", "20e-1")
	mone := fltFam(-1.0, "-1.0")
	zero := fltFam(0.0, "0.0", "0e0")
	pinf := fltFam(math.Inf(1), "1e1000", "1E+400")
	minf := fltFam(math.Inf(-1), "-1e1000")
	s65, s665 := intFam("65"), fltFam(66.5, "66.5")
	repU = []fam{
		i0, i1, im1, i2, i3, i10, p53, maxi, mini, p63, m30,
		half, m15, f25, f1024, tenth, two, mone, zero, pinf, minf,
		nest("[x]", i0, func(x any) any { return []any{x} }),
		nest("[x]", i1, func(x any) any { return []any{x} }),
		nest("[x]", f25, func(x any) any { return []any{x} }),
		nest("[x]", p63, func(x any) any { return []any{x} }),
		nest("[x]", pinf, func(x any) any { return []any{x} }),
		zip("[0,1,2,3,4]", i0, i1, i2, i3, i4),
		zip("[1,2]", i1, i2),
		zip("[2,1.5,a,null]", i2, m15, plain("a"), plain(nil)),
		zip("[a,0]", plain("a"), i0),
		zip("[[0],[1]]", nest("[x]", i0, func(x any) any { return []any{x} }), nest("[x]", i1, func(x any) any { return []any{x} })),
		zip("[[1,2],[3]]", zip("[1,2]", i1, i2), nest("[x]", i3, func(x any) any { return []any{x} })),
		zip("[65,66.5]", s65, s665),
		zip("[2015,2,5,23,51,47.5,4,63]", intFam("2015"), i2, intFam("5"), intFam("23"), intFam("51"), f475, i4, intFam("63")),
		nest("{a:x}", i1, func(x any) any { return map[string]any{"a": x} }),
		nest("{a:x,b:[x]}", f25, func(x any) any { return map[string]any{"a": x, "b": []any{univ.Copy(x)}} }),
		nest("{a:{b:x}}", i2, func(x any) any { return map[string]any{"a": map[string]any{"b": x}} }),
		nest("{start:1,end:x}", f25, func(x any) any { return map[string]any{"start": 1, "end": x} }),
		nest("{start:x,end:null}", m15, func(x any) any { return map[string]any{"start": x, "end": nil} }),
		nest("[{start:x,end:3}]", i1, func(x any) any { return []any{map[string]any{"start": x, "end": 3}} }),
		nest("[{start:0,end:x}]", half, func(x any) any { return []any{map[string]any{"start": 0, "end": x}} }),
		intFam(bigOf("18446744073709551616").String()), intFam(new(big.Int).Exp(big.NewInt(10), big.NewInt(23), nil).String()),
		plain(nil), plain(true), plain("abc"), plain("a,b"), plain([]any{}), plain(map[string]any{}), plain([]any{"a", "b"}), plain("2015-03-05T23:51:47Z"),
	}
	// integers at the edge of the double range (int <-> json.Number only: the
	// property does not make them interchangeable with float64)
	pow := func(b, e int64) *big.Int { return new(big.Int).Exp(big.NewInt(b), big.NewInt(e), nil) }
	maxF := new(big.Int).Sub(pow(2, 1024), pow(2, 971))
	for _, b := range []*big.Int{pow(2, 1023), new(big.Int).Add(pow(2, 1023), big.NewInt(1)), pow(10, 308), maxF, new(big.Int).Add(maxF, big.NewInt(1)),
		new(big.Int).Sub(pow(2, 1024), big.NewInt(1)), pow(2, 1024), pow(10, 309), new(big.Int).Neg(pow(2, 1023)), new(big.Int).Neg(pow(10, 308)), new(big.Int).Neg(pow(2, 1024))} {
		repU = append(repU, intFam(b.String()))
	}
	// half-word / word boundaries (all pairs of the full list run in words_test.go)
	for _, w := range []string{"46341", "65536", "3037000500", "4000000000", "4294967295", "-4294967296"} {
		repU = append(repU, intFam(w))
	}
}

// canonicalLit: the literal is exactly what the encoder prints for the
// native representation of the same number.
func canonicalLit(n json.Number) bool {
	s := string(n)
	if univ.IsIntLit(s) {
		return s == "0" || (s[0] != '0' && !strings.HasPrefix(s, "-0"))
	}
	f, err := strconv.ParseFloat(s, 64)
	if err != nil || f == math.Trunc(f) || math.Abs(f) < 1e-5 || math.Abs(f) > 1<<53 {
		return false
	}
	return strconv.FormatFloat(f, 'f', -1, 64) == s
}

func canonicalReps(v any) bool {
	switch v := v.(type) {
	case json.Number:
		return canonicalLit(v)
	case []any:
		for _, x := range v {
			if !canonicalReps(x) {
				return false
			}
		}
	case map[string]any:
		for _, x := range v {
			if !canonicalReps(x) {
				return false
			}
		}
	}
	return true
}

func hasString(v any) bool {
	switch v := v.(type) {
	case string:
		return true
	case []any:
		for _, x := range v {
			if hasString(x) {
				return true
			}
		}
	case map[string]any:
		for _, x := range v {
			if hasString(x) {
				return true
			}
		}
	}
	return false
}

// calls whose string results never contain the text of a number.
var textFree = map[string]bool{"implode": true, "idx/.[$a]": true, "idx/.[$a]?": true, "idx/.[$a:]": true, "idx/.[:$a]": true, "idx/.[$a:$b]": true,
	"op/*": true, "op2/*": true, "type": true, "strftime": true, "todate": true, "todateiso8601": true, "ltrimstr": true, "rtrimstr": true,
	"trimstr": true, "ascii_downcase": true, "ascii_upcase": true, "ltrim": true, "rtrim": true, "trim": true}

// calls whose object keys are made from number text.
var textKeys = map[string]bool{"INDEX": true}

// repSig: the Go kind of a value, for containers with the kinds of the
// numbers inside.
func repSig(v any) string {
	kinds := map[string]bool{}
	var walk func(v any)
	walk = func(v any) {
		switch x := v.(type) {
		case []any:
			for _, e := range x {
				walk(e)
			}
		case map[string]any:
			for _, e := range x {
				walk(e)
			}
		default:
			if isNum(v) {
				kinds[kindOf(v)] = true
			}
		}
	}
	switch v.(type) {
	case []any, map[string]any:
		walk(v)
		ks := make([]string, 0, len(kinds))
		for k := range kinds {
			ks = append(ks, k)
		}
		sortStrings(ks)
		return kindOf(v) + "<" + strings.Join(ks, " ") + ">"
	}
	return kindOf(v)
}

func repCellKey(c callCase) string {
	var sb strings.Builder
	sb.WriteString("rep|" + c.Spec + "|" + repSig(c.In.X) + ">" + repSig(c.In2.X))
	for i := range c.Args {
		if c.Args[i].F != "" {
			sb.WriteString("|F:" + c.Args[i].F)
			continue
		}
		sb.WriteString("|" + repSig(c.Args[i].value()) + ">" + repSig(c.Args2[i].value()))
	}
	return sb.String()
}

// repNT is set by checkRep when both runs finished and the native run
// returned at least one value.
var repNT bool

func checkRep(c callCase) string {
	repNT = false
	s := specByID[c.Spec]
	if s == nil {
		return "unknown spec " + c.Spec
	}
	if c.In2 == nil || len(c.Args2) != len(c.Args) {
		return "bad rep case"
	}
	if guard(s, c.In.X, c.Args) != "" || guard(s, c.In2.X, c.Args2) != "" {
		rec.Discard("rep/guarded")
		return ""
	}
	q := s.query(c.Args)
	code, err := compile(q)
	if err != nil {
		return fmt.Sprintf("%q does not compile: %v", q, err)
	}
	r1 := exec(code, c.In.X, values(c.Args))
	r2 := exec(code, c.In2.X, values(c.Args2))
	if r1.Panic != "" {
		return fmt.Sprintf("%q panicked: %s", q, r1.Panic)
	}
	if r2.Panic != "" {
		return fmt.Sprintf("%q panicked: %s", q, r2.Panic)
	}
	if r1.Budget || r2.Budget {
		rec.Discard("rep/budget")
		return ""
	}
	canon := canonicalReps(c.In.X) && canonicalReps(c.In2.X)
	for i := range c.Args {
		canon = canon && canonicalReps(c.Args[i].value()) && canonicalReps(c.Args2[i].value())
	}
	if !canon {
		// a filter argument that stringifies lets number text steer the call
		for _, a := range c.Args {
			if strings.Contains(a.F, "tostring") {
				rec.Discard("rep/number-text-in-result")
				return ""
			}
		}
	}
	if !canon && !textFree[s.Name] {
		if textKeys[s.Name] {
			rec.Discard("rep/number-text-in-result")
			return ""
		}
		// number text can only surface in strings (a text consumer such as
		// @base64d may also fail on one spelling and not on the other)
		for _, v := range append(append([]any{}, r1.Vals...), r2.Vals...) {
			if hasString(v) {
				rec.Discard("rep/number-text-in-result")
				return ""
			}
		}
	}
	show := func(in any, args []arg) string {
		return fmt.Sprintf("in=%s args=%v", univ.Show(in), argKeys(args))
	}
	if (r1.Err != nil) != (r2.Err != nil) {
		return fmt.Sprintf("%q: error status depends on the number representation: %s -> %s err=%v ; %s -> %s err=%v", q,
			show(c.In.X, c.Args), univ.ShowAll(r1.Vals), r1.Err, show(c.In2.X, c.Args2), univ.ShowAll(r2.Vals), r2.Err)
	}
	if !univ.EqualStreams(r1.Vals, r2.Vals) {
		return fmt.Sprintf("%q: result depends on the number representation: %s -> %s ; %s -> %s", q,
			show(c.In.X, c.Args), univ.ShowAll(r1.Vals), show(c.In2.X, c.Args2), univ.ShowAll(r2.Vals))
	}
	if r1.Err == nil && len(r1.Vals) > 0 {
		repNT = true
		rec.Class("rep/values-compared")
	} else if r1.Err != nil {
		rec.Class("rep/both-error")
	} else {
		rec.Class("rep/both-empty")
	}
	if !canon {
		rec.Class("rep/non-canonical-spelling-judged")
	}
	return ""
}

// ropt is one option of a position: a family (bound to a variable) or a
// pool filter.
type ropt struct {
	f   *fam
	flt string
}

var repFilters = []string{".", ".[]?", `if type == "number" then . + 1 else . end`, "tostring", ".[0]?"}

func repOptions(s *spec, pos int) []ropt {
	out := make([]ropt, 0, len(repU)+len(repFilters))
	pathArg := pos < len(s.Closure) && s.Closure[pos] && len(repFiltersFor(s)) != len(repFilters)
	for i := range repU {
		if pathArg {
			break // a constant is a path only when it happens to equal the input
		}
		out = append(out, ropt{f: &repU[i]})
	}
	if pos < len(s.Closure) && s.Closure[pos] {
		for _, f := range repFiltersFor(s) {
			out = append(out, ropt{flt: f})
		}
	}
	return out
}

// path(f), del(f), pick(f) take path expressions: whether a non-path filter
// is rejected is decided by gojq comparing values (C02), not by a builtin.
func repFiltersFor(s *spec) []string {
	switch s.Name {
	case "path", "del", "pick":
		return []string{".", ".[]?", ".[0]?"}
	}
	return repFilters
}

// variants of a tuple of families: one position re-represented at a time
// (every alternative), and all positions at once (first and last alternative).
func repVariants(in *fam, opts []ropt) [][]int {
	pos := append([]*fam{in}, make([]*fam, len(opts))...)
	for i, o := range opts {
		pos[i+1] = o.f
	}
	var out [][]int
	base := make([]int, len(pos))
	multi := 0
	for p, f := range pos {
		if f == nil || len(f.reps) < 2 {
			continue
		}
		multi++
		for r := 1; r < len(f.reps); r++ {
			v := append([]int(nil), base...)
			v[p] = r
			out = append(out, v)
		}
	}
	if multi >= 2 {
		first, last := append([]int(nil), base...), append([]int(nil), base...)
		for p, f := range pos {
			if f != nil && len(f.reps) >= 2 {
				first[p], last[p] = 1, len(f.reps)-1
			}
		}
		out = append(out, first, last)
	}
	return out
}

func repCase(s *spec, in *fam, opts []ropt, variant []int) callCase {
	c := callCase{Spec: s.ID, In: univ.V{X: univ.Copy(in.reps[0])}, In2: &univ.V{X: univ.Copy(in.reps[variant[0]])}}
	for i, o := range opts {
		if o.f == nil {
			c.Args = append(c.Args, flt(o.flt))
			c.Args2 = append(c.Args2, flt(o.flt))
			continue
		}
		c.Args = append(c.Args, val(univ.Copy(o.f.reps[0])))
		c.Args2 = append(c.Args2, val(univ.Copy(o.f.reps[variant[i+1]])))
	}
	return c
}

func runRep(t *testing.T) {
	n := 0
	complete := true
	do := func(s *spec, in *fam, opts []ropt) {
		vs := repVariants(in, opts)
		for vi, v := range vs {
			if !rec.Thorough() && len(vs) > 3 && !pick(rec.Seed, 3, len(vs), n, vi) {
				continue
			}
			n++
			if !rec.Mine(n) {
				continue
			}
			c := repCase(s, in, opts, v)
			rec.Eval()
			if n%4999 == 0 {
				rec.Sample(map[string]any{"sub": "rep", "query": s.query(c.Args), "in": univ.Show(c.In.X), "args": argKeys(c.Args), "in2": univ.Show(c.In2.X), "args2": argKeys(c.Args2)})
			}
			if msg := checkRep(c); msg != "" {
				complete = false
				if rec.Violations() < 25 {
					rec.Direct("rep", c, "%s", msg)
				}
			}
			if repNT {
				rec.NT(repCellKey(c)) // distinct cells x representations, not tuples
			}
		}
	}
	for si, s := range specs {
		if _, ok := excludedNames[s.Name]; ok {
			continue
		}
		opts := make([][]ropt, s.Arity)
		for p := range opts {
			opts[p] = repOptions(s, p)
		}
		cur := make([]ropt, s.Arity)
		exhaustive := s.Arity <= 1 || (s.Arity == 2 && rec.Thorough())
		if exhaustive {
			var walk func(in *fam, p int)
			walk = func(in *fam, p int) {
				if p == s.Arity {
					do(s, in, cur)
					return
				}
				for _, o := range opts[p] {
					cur[p] = o
					walk(in, p+1)
				}
			}
			for i := range repU {
				walk(&repU[i], 0)
			}
			continue
		}
		count := rec.Scale(10000, 200000)
		for k := 0; k < count; k++ {
			in := &repU[pickIndex(rec.Seed, len(repU), si, k, 0)]
			for p := range cur {
				cur[p] = opts[p][pickIndex(rec.Seed, len(opts[p]), si, k, p+1)]
			}
			do(s, in, cur)
		}
	}
	rec.Exhaustive("representation: all tuples of the representation universe for every arity-0/1 callable"+map[bool]string{true: " and every arity-2 callable", false: ""}[rec.Thorough()], complete)
	rec.Extra("rep_universe_values", len(repU))

	// random numbers, random shapes
	var live []*spec
	for _, s := range specs {
		if _, ok := excludedNames[s.Name]; !ok {
			live = append(live, s)
		}
	}
	rec.Rapid(t, "rep-random", rec.Scale(120000, 1000000), func(t *rapid.T) {
		s := live[rapid.IntRange(0, len(live)-1).Draw(t, "spec")]
		in1, in2 := genRepPair(t, "in")
		c := callCase{Spec: s.ID, In: univ.V{X: in1}, In2: &univ.V{X: in2}}
		for p := 0; p < s.Arity; p++ {
			if p < len(s.Closure) && s.Closure[p] && (rapid.Bool().Draw(t, "usefilter") || len(repFiltersFor(s)) != len(repFilters)) {
				f := rapid.SampledFrom(repFiltersFor(s)).Draw(t, "filter")
				c.Args, c.Args2 = append(c.Args, flt(f)), append(c.Args2, flt(f))
				continue
			}
			a1, a2 := genRepPair(t, "arg")
			c.Args, c.Args2 = append(c.Args, val(a1)), append(c.Args2, val(a2))
		}
		rec.Eval()
		rec.Sample(map[string]any{"sub": "rep-random", "query": s.query(c.Args), "in": univ.Show(c.In.X), "args": argKeys(c.Args), "in2": univ.Show(c.In2.X), "args2": argKeys(c.Args2)})
		if msg := checkRep(c); msg != "" {
			t.Fatalf("%s", rec.Fail("rep-random", c, "%s", msg))
		}
		if repNT {
			rec.NT("repr|" + s.query(c.Args) + "|" + univ.Show(c.In.X) + "|" + univ.Show(c.In2.X) + "|" + strings.Join(argKeys(c.Args), "|") + "|" + strings.Join(argKeys(c.Args2), "|"))
		}
	})
}

// genRepPair draws a value and a re-representation of it.
func genRepPair(t *rapid.T, label string) (any, any) {
	switch rapid.IntRange(0, 9).Draw(t, label+"shape") {
	case 0:
		v := rapid.SampledFrom([]any{nil, true, "abc", "a,b", []any{}, map[string]any{}, []any{"a", "b"}}).Draw(t, label+"plain")
		return univ.Copy(v), univ.Copy(v)
	case 1, 2:
		n := rapid.IntRange(1, 4).Draw(t, label+"len")
		a, b := make([]any, n), make([]any, n)
		for i := range a {
			a[i], b[i] = genNumPair(t, label)
		}
		return a, b
	case 3:
		x, y := genNumPair(t, label)
		return map[string]any{"a": x, "b": []any{1, "z"}}, map[string]any{"a": y, "b": []any{1, "z"}}
	case 4:
		x, y := genNumPair(t, label)
		u, v := genNumPair(t, label)
		return map[string]any{"start": x, "end": u}, map[string]any{"start": y, "end": v}
	case 5:
		x, y := genNumPair(t, label)
		return []any{"a", x}, []any{"a", y}
	default:
		return genNumPair(t, label)
	}
}

func genNumPair(t *rapid.T, label string) (any, any) {
	switch rapid.IntRange(0, 5).Draw(t, label+"numkind") {
	case 0, 1: // integers of any size
		var b *big.Int
		switch rapid.IntRange(0, 4).Draw(t, label+"intkind") {
		case 4:
			b = new(big.Int).Set(rapid.SampledFrom(edgeInts).Draw(t, label+"edge"))
		case 0:
			b = big.NewInt(int64(rapid.IntRange(-5, 12).Draw(t, label+"small")))
		case 1:
			b = big.NewInt(rapid.Int64().Draw(t, label+"i64"))
		case 2:
			b = new(big.Int).Lsh(big.NewInt(1), uint(rapid.IntRange(0, 100).Draw(t, label+"k")))
			b.Add(b, big.NewInt(int64(rapid.IntRange(-2, 2).Draw(t, label+"d"))))
			if rapid.Bool().Draw(t, label+"neg") {
				b.Neg(b)
			}
		default:
			b = big.NewInt(int64(rapid.IntRange(-70000, 70000).Draw(t, label+"mid")))
		}
		reps := []any{new(big.Int).Set(b), json.Number(b.String())}
		if b.IsInt64() {
			reps = append([]any{int(b.Int64())}, reps...)
		}
		i := rapid.IntRange(0, len(reps)-1).Draw(t, label+"rep1")
		j := rapid.IntRange(0, len(reps)-1).Draw(t, label+"rep2")
		return reps[i], reps[j]
	case 2, 3: // non-integral floats of magnitude <= 2^53 with a short decimal text
		m := rapid.Int64Range(-1<<40, 1<<40).Draw(t, label+"mant")
		e := rapid.IntRange(1, 4).Draw(t, label+"frac")
		f := float64(m) / math.Pow(2, float64(e)) // exact
		if f == math.Trunc(f) {
			f += 0.5
		}
		lit := strconv.FormatFloat(f, 'f', -1, 64)
		if rapid.IntRange(0, 3).Draw(t, label+"spell") == 0 {
			lit = strconv.FormatFloat(f, 'e', -1, 64) // exponent spelling of the same double
		}
		if rapid.Bool().Draw(t, label+"swap") {
			return json.Number(lit), f
		}
		return f, json.Number(lit)
	case 4: // integral floats
		f := float64(rapid.IntRange(-100, 100).Draw(t, label+"ival"))
		lit := strconv.FormatFloat(f, 'f', 1, 64)
		return f, json.Number(lit)
	default: // beyond the double range
		neg := rapid.Bool().Draw(t, label+"neg")
		lit := rapid.SampledFrom([]string{"1e1000", "1E+400", "2.5e309", "17976931348623159e292"}).Draw(t, label+"huge")
		if neg {
			return math.Inf(-1), json.Number("-" + lit)
		}
		return math.Inf(1), json.Number(lit)
	}
}
