// Models of getpath/setpath/delpaths on simple paths, range/1,2,3 and the
// index / slice syntax.
package c03

import (
	"math"
	"math/big"
	"unicode/utf8"

	"pgregory.net/rapid"

	"verif/internal/gen"
	"verif/internal/univ"
)

// a simple path component: a string, or an integer of magnitude <= 5000
func simpleKey(k any) (string, int, bool, bool) {
	if s, ok := k.(string); ok {
		return s, 0, true, true
	}
	if i, ok := smallIndex(k, 5000); ok {
		return "", i, false, true
	}
	return "", 0, false, false
}

// "getpath(PATHS): outputs the values in . found at each path in PATHS";
// `null | getpath(["a","b"])` is null (manual example); a component that does
// not fit the value is an error.  Open: components that are not strings or
// small integers, indexing into a string.
func mGetpath(in any, a []any) mres {
	path, ok := a[0].([]any)
	if !ok {
		return fail()
	}
	cur := in
	for _, k := range path {
		s, i, isStr, ok := simpleKey(k)
		if !ok {
			return open("path component that is not a string or a small integer")
		}
		switch c := cur.(type) {
		case nil:
		case map[string]any:
			if !isStr {
				return fail()
			}
			cur = c[s]
		case []any:
			if isStr {
				return fail()
			}
			if i < 0 {
				i += len(c)
			}
			if i >= 0 && i < len(c) {
				cur = c[i]
			} else {
				cur = nil
			}
		case string:
			if isStr {
				return fail()
			}
			return open("indexing a string")
		default:
			return fail()
		}
	}
	return one(cur)
}

// "setpath(PATHS; VALUE): sets the PATHS in . to VALUE"; manual examples:
// `null | setpath(["a","b"]; 1)` => {"a":{"b":1}}, `null | setpath([0,"a"]; 1)`
// => [{"a":1}]; arrays are padded with null; a negative index counts from the
// end and is an error when it is out of range (test.yaml "setpath function").
func setp(v any, path []any, n any) (any, string) {
	if len(path) == 0 {
		return n, ""
	}
	s, i, isStr, ok := simpleKey(path[0])
	if !ok {
		return nil, "open"
	}
	if isStr {
		var old map[string]any
		switch c := v.(type) {
		case nil:
		case map[string]any:
			old = c
		default:
			return nil, "err"
		}
		child, st := setp(old[s], path[1:], n)
		if st != "" {
			return nil, st
		}
		m := map[string]any{}
		for k, x := range old {
			m[k] = x
		}
		m[s] = child
		return m, ""
	}
	var old []any
	switch c := v.(type) {
	case nil:
	case []any:
		old = c
	default:
		return nil, "err"
	}
	if i < 0 {
		i += len(old)
		if i < 0 {
			return nil, "err"
		}
	}
	var at any
	if i < len(old) {
		at = old[i]
	}
	child, st := setp(at, path[1:], n)
	if st != "" {
		return nil, st
	}
	size := len(old)
	if i >= size {
		size = i + 1
	}
	arr := make([]any, size)
	copy(arr, old)
	arr[i] = child
	return arr, ""
}

func mSetpath(in any, a []any) mres {
	path, ok := a[0].([]any)
	if !ok {
		return fail()
	}
	for _, k := range path {
		if _, _, _, ok := simpleKey(k); !ok {
			return open("path component that is not a string or a small integer")
		}
	}
	v, st := setp(in, path, a[1])
	switch st {
	case "err":
		return fail()
	case "open":
		return open("path")
	}
	return one(v)
}

// "delpaths(PATHS): deletes the paths in PATHS" — all of them at once
// (indices refer to the input, func.go: "We cannot delete in each loop because
// array indices should not change", `[0,1,2,3] | delpaths([[1],[2]])` => [0,3]);
// paths that do not exist are ignored, deleting [] gives null.  Open: a path
// that does not fit the value when other paths are given too (whether the
// misfit is reached depends on the order of deletion).
type delTrie struct {
	gone bool
	kids map[any]*delTrie
}

func mDelpaths(in any, a []any) mres {
	paths, ok := a[0].([]any)
	if !ok {
		return fail()
	}
	root := &delTrie{}
	for _, p := range paths {
		path, ok := p.([]any)
		if !ok {
			return fail()
		}
		cur := in
		node := root
		exists := true
		for _, k := range path {
			s, i, isStr, ok := simpleKey(k)
			if !ok {
				return open("path component that is not a string or a small integer")
			}
			if !exists {
				continue
			}
			var key any
			switch c := cur.(type) {
			case nil:
				exists = false
				continue
			case map[string]any:
				if !isStr {
					return misfit(paths)
				}
				if _, has := c[s]; !has {
					exists = false
					continue
				}
				key, cur = s, c[s]
			case []any:
				if isStr {
					return misfit(paths)
				}
				if i < 0 {
					i += len(c)
				}
				if i < 0 || i >= len(c) {
					exists = false
					continue
				}
				key, cur = i, c[i]
			default:
				return misfit(paths)
			}
			if node.kids == nil {
				node.kids = map[any]*delTrie{}
			}
			if node.kids[key] == nil {
				node.kids[key] = &delTrie{}
			}
			node = node.kids[key]
		}
		if exists {
			node.gone = true
		}
	}
	if root.gone {
		return one(nil)
	}
	return one(sweepTrie(in, root))
}

func misfit(paths []any) mres {
	if len(paths) > 1 {
		return open("misfitting path among several")
	}
	return fail()
}

func sweepTrie(v any, n *delTrie) any {
	if n == nil || n.kids == nil {
		return v
	}
	switch c := v.(type) {
	case map[string]any:
		m := map[string]any{}
		for k, x := range c {
			kid := n.kids[k]
			if kid != nil && kid.gone {
				continue
			}
			m[k] = sweepTrie(x, kid)
		}
		return m
	case []any:
		out := []any{}
		for i, x := range c {
			kid := n.kids[i]
			if kid != nil && kid.gone {
				continue
			}
			out = append(out, sweepTrie(x, kid))
		}
		return out
	}
	return v
}

// "range(upto), range(from;upto), range(from;upto;by): ... produces numbers
// from `from` to `upto` (exclusive) incrementing by `by`"; manual examples
// `[range(0;10;3)]` => [0,3,6,9], `[range(0;10;-1)]` => [], `[range(0;-5;-1)]`
// => [0,-1,-2,-3,-4]; a zero step gives nothing (jq's published definition:
// `else empty end`); "Range bounds must be numeric".  Open: NaN.
func rangeModel(from, upto, by any) mres {
	for _, x := range []any{from, upto, by} {
		if !isNum(x) {
			return fail()
		}
	}
	if isNaN(from) || isNaN(upto) || isNaN(by) {
		return open("NaN bound")
	}
	dir := numCmp(by, 0)
	out := []any{}
	cur := from
	for dir != 0 && len(out) <= outBudget {
		c := numCmp(cur, upto)
		if (dir > 0 && c >= 0) || (dir < 0 && c <= 0) {
			break
		}
		out = append(out, cur)
		cur = numArith('+', cur, by).out[0]
	}
	return many(out)
}

// `.[$a]`: "Array Index: .[2] ... negative indices are allowed, with -1
// referring to the last element"; out of range gives null; `.["foo"]` object
// lookup, null for null input; a string is indexed by code points (README:
// "gojq supports string indexing; "abcde"[2]"); `.[[1]]` on an array gives
// the indices of the sub-array (manual, "indices").  Open: fractional / NaN
// index, object (slice) index, empty array index.
func mIndexOp(in any, a []any) mres {
	switch k := a[0].(type) {
	case string:
		switch c := in.(type) {
		case nil:
			return one(nil)
		case map[string]any:
			return one(c[k])
		}
		return fail()
	case []any:
		switch in.(type) {
		case nil:
			return one(nil)
		case []any:
			return mIndices(in, a)
		}
		return fail()
	case map[string]any:
		return open("slice object as index")
	}
	if !isNum(a[0]) {
		return fail()
	}
	var n int
	switch c := in.(type) {
	case nil:
		return one(nil)
	case []any:
		n = len(c)
	case string:
		if !utf8.ValidString(c) {
			return open("code points of invalid UTF-8")
		}
		n = utf8.RuneCountInString(c)
	default:
		return fail()
	}
	f := floatOf(a[0])
	if math.IsNaN(f) || f != math.Trunc(f) {
		return open("fractional or NaN index")
	}
	if f < 0 {
		f += float64(n)
	}
	if f < 0 || f >= float64(n) {
		return one(nil)
	}
	if c, ok := in.([]any); ok {
		return one(c[int(f)])
	}
	return one(string([]rune(in.(string))[int(f)]))
}

// `.[$a:$b]`: "Array/String Slice: .[10:15] ... Either index may be negative
// (in which case it counts backwards from the end of the array), or omitted
// (in which case it refers to the start or end of the array)"; fractional
// bounds: the start is rounded down and the end is rounded up (jq: "1 < 1.5
// so :1.5 should be :2 not :1", test.yaml "slice with fractional indices");
// bounds beyond the length are clamped.  Open: NaN, negative fractions.
func bound(x any, n int, isEnd bool) (int, mres, bool) {
	if x == nil {
		if isEnd {
			return n, mres{}, true
		}
		return 0, mres{}, true
	}
	if !isNum(x) {
		return 0, fail(), false
	}
	f := floatOf(x)
	if math.IsNaN(f) {
		return 0, open("NaN bound"), false
	}
	if f < 0 && f != math.Trunc(f) {
		return 0, open("negative fractional bound"), false
	}
	if isEnd {
		f = math.Ceil(f)
	} else {
		f = math.Floor(f)
	}
	if f < 0 {
		f += float64(n)
	}
	f = math.Max(0, math.Min(f, float64(n)))
	return int(f), mres{}, true
}

func mSliceOp(in, s, e any) mres {
	var n int
	switch c := in.(type) {
	case nil:
		if (s == nil || isNum(s)) && (e == nil || isNum(e)) {
			return one(nil)
		}
		return open("null sliced by non-numbers")
	case []any:
		n = len(c)
	case string:
		if !utf8.ValidString(c) {
			// bounds still have to be numbers
			if (s != nil && !isNum(s)) || (e != nil && !isNum(e)) {
				return fail()
			}
			return open("code points of invalid UTF-8")
		}
		n = utf8.RuneCountInString(c)
	default:
		return fail()
	}
	// an ill-typed bound is an error whatever the other bound is
	if (s != nil && !isNum(s)) || (e != nil && !isNum(e)) {
		return fail()
	}
	start, r, ok := bound(s, n, false)
	if !ok {
		return r
	}
	end, r, ok := bound(e, n, true)
	if !ok {
		return r
	}
	if end < start {
		end = start
	}
	if c, ok := in.([]any); ok {
		return one(append([]any{}, c[start:end]...))
	}
	return one(string([]rune(in.(string))[start:end]))
}

// ---------------------------------------------------------------------------
// generators

var boundPool = []any{nil, 0, 1, 2, 3, -1, -2, -3, 5, 100, -100, 0.5, 1.5, 2.2, 2.9, -0.0, 1e300, -1e300, math.Inf(1), math.Inf(-1), math.NaN(),
	big.NewInt(1), bigOf("100000000000000000000"), bigOf("-100000000000000000000"), math.MaxInt64, math.MinInt64, -1.5, "a", true, []any{}, 4, -4, -5, 3.0, 4.000001}

func genSliceable(t *rapid.T) any {
	if rapid.Bool().Draw(t, "str") {
		return gen.Str(6).Draw(t, "s")
	}
	n := rapid.IntRange(0, 6).Draw(t, "n")
	arr := make([]any, n)
	for i := range arr {
		arr[i] = i * 10
	}
	return arr
}

func genSlice2(t *rapid.T) (any, []any) {
	return genSliceable(t), []any{rapid.SampledFrom(boundPool).Draw(t, "start"), rapid.SampledFrom(boundPool).Draw(t, "end")}
}

func genSlice1(t *rapid.T) (any, []any) {
	return genSliceable(t), []any{rapid.SampledFrom(boundPool).Draw(t, "bound")}
}

// a value and a path into it (existing, or leaving it somewhere)
func genPath(t *rapid.T, v any) []any {
	path := []any{}
	cur := v
	for d := 0; d < 4; d++ {
		if rapid.IntRange(0, 3).Draw(t, "stop") == 0 {
			break
		}
		switch c := cur.(type) {
		case map[string]any:
			ks := sortedKeys(c)
			if len(ks) > 0 && rapid.IntRange(0, 4).Draw(t, "miss") > 0 {
				k := rapid.SampledFrom(ks).Draw(t, "k")
				path, cur = append(path, k), c[k]
				continue
			}
			path, cur = append(path, gen.Key().Draw(t, "newk")), nil
		case []any:
			if len(c) > 0 && rapid.IntRange(0, 4).Draw(t, "miss") > 0 {
				i := rapid.IntRange(-len(c), len(c)-1).Draw(t, "i")
				j := i
				if j < 0 {
					j += len(c)
				}
				var key any = i
				if rapid.IntRange(0, 5).Draw(t, "rep") == 0 {
					key = big.NewInt(int64(i))
				}
				path, cur = append(path, key), c[j]
				continue
			}
			path, cur = append(path, rapid.IntRange(-len(c)-2, len(c)+3).Draw(t, "oob")), nil
		default:
			switch rapid.IntRange(0, 3).Draw(t, "leafstep") {
			case 0:
				path = append(path, "a")
			case 1:
				path = append(path, rapid.IntRange(-2, 3).Draw(t, "i"))
			case 2:
				path = append(path, rapid.SampledFrom([]any{nil, true, 1.5, []any{}, map[string]any{"start": 0, "end": 1}}).Draw(t, "odd"))
			default:
				return path
			}
			cur = nil
		}
	}
	return path
}

var pathOpt = gen.Opt{MaxDepth: 3, MaxWidth: 4, SmallInts: true}

func genGetpath(t *rapid.T) (any, []any) {
	v := gen.Value(pathOpt).Draw(t, "v")
	return v, []any{genPath(t, v)}
}

func genSetpath(t *rapid.T) (any, []any) {
	v := gen.Value(pathOpt).Draw(t, "v")
	return v, []any{genPath(t, v), gen.Value(gen.Opt{MaxDepth: 1, MaxWidth: 2, SmallInts: true}).Draw(t, "new")}
}

func genDelpaths(t *rapid.T) (any, []any) {
	v := gen.Value(pathOpt).Draw(t, "v")
	n := rapid.IntRange(0, 4).Draw(t, "n")
	ps := make([]any, n)
	for i := range ps {
		ps[i] = genPath(t, v)
	}
	if n > 0 && rapid.IntRange(0, 4).Draw(t, "dup") == 0 {
		ps = append(ps, univ.Copy(ps[0]))
	}
	return v, []any{ps}
}

var rangePool = []any{0, 1, 2, 3, 5, 10, -1, -5, 0.5, 2.5, -0.5, 0.3, 0.1, -2, 1e300, math.Inf(1), math.Inf(-1), math.NaN(), big.NewInt(3), bigOf("9223372036854775807"),
	bigOf("9223372036854775810"), math.MaxInt64, math.MaxInt64 - 2, "a", nil, 1e-9, 50, 1e17, 7.000000000000001}

func genRange(k int) func(t *rapid.T) (any, []any) {
	return func(t *rapid.T) (any, []any) {
		args := make([]any, k)
		for i := range args {
			args[i] = rapid.SampledFrom(rangePool).Draw(t, "r")
		}
		return nil, args
	}
}

func init() {
	addModel("getpath", "getpath($a)", 1, mGetpath, genGetpath)
	addModel("setpath", "setpath($a; $b)", 2, mSetpath, genSetpath)
	addModel("delpaths", "delpaths($a)", 1, mDelpaths, genDelpaths)
	addModel("range/1", "range($a)", 1, func(_ any, a []any) mres { return rangeModel(0, a[0], 1) }, genRange(1))
	addModel("range/2", "range($a; $b)", 2, func(_ any, a []any) mres { return rangeModel(a[0], a[1], 1) }, genRange(2))
	addModel("range/3", "range($a; $b; $c)", 3, func(_ any, a []any) mres { return rangeModel(a[0], a[1], a[2]) }, genRange(3))
	addModel("idx/.[$a]", ".[$a]", 1, mIndexOp, func(t *rapid.T) (any, []any) {
		in, a := genSlice1(t)
		if rapid.IntRange(0, 3).Draw(t, "obj") == 0 {
			return map[string]any{"a": 1, "b": nil}, []any{rapid.SampledFrom([]any{"a", "b", "c", 0, nil}).Draw(t, "k")}
		}
		return in, a
	})
	addModel("idx/.[$a:$b]", ".[$a:$b]", 2, func(in any, a []any) mres { return mSliceOp(in, a[0], a[1]) }, genSlice2)
	addModel("idx/.[$a:]", ".[$a:]", 1, func(in any, a []any) mres { return mSliceOp(in, a[0], nil) }, genSlice1)
	addModel("idx/.[:$a]", ".[:$a]", 1, func(in any, a []any) mres { return mSliceOp(in, nil, a[0]) }, genSlice1)
}
