// Regex builtins: match, and what is derived from it (test, capture, scan).
//
// "match(val), match(regex; flags): outputs an object for each match it finds.
// Matches have the following fields: offset - offset in UTF-8 codepoints from
// the beginning of the input; length - length in UTF-8 codepoints of the match;
// string - the string that it matched; captures - an array of objects
// representing capturing groups. Capturing group objects have the following
// fields: offset, length, string, name" (jq manual); a group that did not
// participate has offset -1 and string null (manual example with `(a)|(b)`,
// test.yaml "match function").
//
// Two oracles per case: (1) the invariant, computed on gojq's own output with
// code point slicing in the harness: subject[offset:offset+length] == string
// for the match and for every capture; (2) agreement with Go's regexp
// FindAllStringSubmatchIndex whose byte offsets the harness converts itself
// (utf8.RuneCountInString(s[:byteOffset])).  The generator aims at capture
// groups INSIDE a repetition, where a later-numbered group can start behind an
// earlier-numbered one (Go keeps the submatch of the last iteration each group
// took part in).
package c03

import (
	"encoding/json"
	"fmt"
	"regexp"
	"strings"
	"testing"
	"unicode/utf8"

	"pgregory.net/rapid"

	"verif/internal/univ"
)

type regexCase struct {
	Re      string  `json:"re"`
	Flags   *string `json:"flags"` // nil: null
	Subject string  `json:"subject"`
}

type wantCapture struct {
	name   any
	offset int
	length int
	str    any
}

type wantMatch struct {
	offset, length int
	str            string
	captures       []wantCapture
}

// expectedMatches: Go's regexp, byte offsets converted by the harness.
func expectedMatches(c regexCase) ([]wantMatch, bool, bool) { // matches, behind, ok
	flags := ""
	if c.Flags != nil {
		flags = *c.Flags
	}
	re := c.Re
	if strings.Contains(flags, "i") {
		re = "(?i)" + re
	}
	r, err := regexp.Compile(re)
	if err != nil {
		return nil, false, false
	}
	n := 1
	if strings.Contains(flags, "g") {
		n = -1
	}
	s := c.Subject
	cp := func(b int) int { return utf8.RuneCountInString(s[:b]) }
	names := r.SubexpNames()
	var out []wantMatch
	behind := false
	for _, x := range r.FindAllStringSubmatchIndex(s, n) {
		m := wantMatch{offset: cp(x[0]), length: cp(x[1]) - cp(x[0]), str: s[x[0]:x[1]]}
		maxStart := -1
		for j := 1; j < len(x)/2; j++ {
			var name any
			if names[j] != "" {
				name = names[j]
			}
			if x[2*j] < 0 {
				m.captures = append(m.captures, wantCapture{name: name, offset: -1, length: 0, str: nil})
				continue
			}
			if x[2*j] < maxStart {
				behind = true
			}
			if x[2*j] > maxStart {
				maxStart = x[2*j]
			}
			m.captures = append(m.captures, wantCapture{name: name, offset: cp(x[2*j]), length: cp(x[2*j+1]) - cp(x[2*j]), str: s[x[2*j]:x[2*j+1]]})
		}
		out = append(out, m)
	}
	return out, behind, true
}

func (m wantMatch) value() any {
	caps := make([]any, len(m.captures))
	for i, c := range m.captures {
		caps[i] = map[string]any{"name": c.name, "offset": c.offset, "length": c.length, "string": c.str}
	}
	return map[string]any{"offset": m.offset, "length": m.length, "string": m.str, "captures": caps}
}

// sliceInvariant checks one {offset,length,string} object of gojq's output.
func sliceInvariant(subject []rune, o map[string]any, what string) string {
	off, ok1 := o["offset"].(int)
	ln, ok2 := o["length"].(int)
	if !ok1 || !ok2 {
		return fmt.Sprintf("%s: offset/length are not integers: %s", what, univ.Show(o))
	}
	if o["string"] == nil {
		if off != -1 || ln != 0 {
			return fmt.Sprintf("%s: a group that did not participate must have offset -1 and length 0: %s", what, univ.Show(o))
		}
		return ""
	}
	str, ok := o["string"].(string)
	if !ok {
		return fmt.Sprintf("%s: string is not a string: %s", what, univ.Show(o))
	}
	if off < 0 || ln < 0 || off+ln > len(subject) {
		return fmt.Sprintf("%s: offset %d length %d lie outside the subject of %d code points", what, off, ln, len(subject))
	}
	if got := string(subject[off : off+ln]); got != str {
		return fmt.Sprintf("%s: subject[%d:%d] is %q but .string is %q", what, off, off+ln, got, str)
	}
	return ""
}

var regexJudged, regexBehind bool

func checkRegex(c regexCase) string {
	regexJudged, regexBehind = false, false
	if !utf8.ValidString(c.Subject) || !utf8.ValidString(c.Re) {
		return ""
	}
	want, behind, ok := expectedMatches(c)
	var flags any
	if c.Flags != nil {
		flags = *c.Flags
	}
	run1 := func(q string) (resVals []any, errd bool, msg string) {
		code, err := compile(q)
		if err != nil {
			return nil, false, fmt.Sprintf("%q does not compile: %v", q, err)
		}
		res := exec(code, c.Subject, []any{c.Re, flags, nil, nil})
		if res.Panic != "" {
			return nil, false, fmt.Sprintf("%q panicked: %s", q, res.Panic)
		}
		if res.Budget {
			return nil, false, "budget"
		}
		return res.Vals, res.Err != nil, ""
	}
	call := fmt.Sprintf("re=%q flags=%s subject=%q", c.Re, univ.Show(flags), c.Subject)
	got, errd, msg := run1("match($a; $b)")
	if msg == "budget" {
		rec.Discard("regex/budget")
		return ""
	}
	if msg != "" {
		return msg
	}
	if !ok {
		if !errd {
			return fmt.Sprintf("match %s: Go's regexp rejects the pattern but match returned %s", call, univ.ShowAll(got))
		}
		regexJudged = true
		rec.Class("regex/invalid-pattern")
		return ""
	}
	if errd {
		return fmt.Sprintf("match %s: unexpected error (after %s)", call, univ.ShowAll(got))
	}
	// (1) the invariant on gojq's own output
	subject := []rune(c.Subject)
	for i, g := range got {
		m, isObj := g.(map[string]any)
		if !isObj {
			return fmt.Sprintf("match %s: output %d is %s", call, i, univ.Show(g))
		}
		if msg := sliceInvariant(subject, m, fmt.Sprintf("match %s: match %d", call, i)); msg != "" {
			return msg
		}
		caps, _ := m["captures"].([]any)
		for j, cv := range caps {
			co, isObj := cv.(map[string]any)
			if !isObj {
				return fmt.Sprintf("match %s: capture %d of match %d is %s", call, j, i, univ.Show(cv))
			}
			if msg := sliceInvariant(subject, co, fmt.Sprintf("match %s: capture %d of match %d", call, j, i)); msg != "" {
				return msg
			}
		}
	}
	// (2) agreement with Go's regexp converted by the harness
	wantVals := make([]any, len(want))
	for i, m := range want {
		wantVals[i] = m.value()
	}
	if !univ.EqualStreams(got, wantVals) {
		return fmt.Sprintf("match %s: got %s, Go's regexp with code point offsets gives %s", call, univ.ShowAll(got), univ.ShowAll(wantVals))
	}
	// derived builtins
	if got, errd, msg := run1("test($a; $b)"); msg == "" {
		if errd || len(got) != 1 || got[0] != (len(want) > 0) {
			return fmt.Sprintf("test %s: got %s err=%v, want %v", call, univ.ShowAll(got), errd, len(want) > 0)
		}
	} else if msg != "budget" {
		return msg
	}
	// "capture: Collects the named captures in a JSON object, with the name of
	// each capture as the key, and the matched string as the corresponding value."
	wantCap := make([]any, len(want))
	for i, m := range want {
		o := map[string]any{}
		for _, cp := range m.captures {
			if n, ok := cp.name.(string); ok {
				o[n] = cp.str
			}
		}
		wantCap[i] = o
	}
	if got, errd, msg := run1("capture($a; $b)"); msg == "" {
		if errd || !univ.EqualStreams(got, wantCap) {
			return fmt.Sprintf("capture %s: got %s err=%v, want %s", call, univ.ShowAll(got), errd, univ.ShowAll(wantCap))
		}
	} else if msg != "budget" {
		return msg
	}
	// "scan: Emit a stream of the non-overlapping substrings of the input that
	// match the regex ... If there are capture groups, an array of their strings"
	// (always global)
	gflags := "g"
	if c.Flags != nil {
		gflags = *c.Flags + "g"
	}
	all, _, _ := expectedMatches(regexCase{Re: c.Re, Flags: &gflags, Subject: c.Subject})
	wantScan := make([]any, len(all))
	for i, m := range all {
		if len(m.captures) == 0 {
			wantScan[i] = m.str
			continue
		}
		a := make([]any, len(m.captures))
		for j, cp := range m.captures {
			a[j] = cp.str
		}
		wantScan[i] = a
	}
	if got, errd, msg := run1("scan($a; $b)"); msg == "" {
		if errd || !univ.EqualStreams(got, wantScan) {
			return fmt.Sprintf("scan %s: got %s err=%v, want %s", call, univ.ShowAll(got), errd, univ.ShowAll(wantScan))
		}
	} else if msg != "budget" {
		return msg
	}
	regexJudged, regexBehind = true, behind
	return ""
}

// ---------------------------------------------------------------------------
// patterns and subjects

var regexFixedPatterns = []string{
	`(?:(\w+)(,)?)+`, `((a)|(b))+`, `(?:(?<k>\w+)(?<sep>[,;])?)+`, `(?:(a)|(b)|(c))+`, `(?:(é)|(😀))*b`, `(?:(?<x>.)(?<y>,)?){2,3}`,
	`(?:([a-c]+)(;)?(é)?)+`, `((?<first>\w)(?<second>あ)?)*`, `(?:(a)(b)?|(c))+`, `(?:(\w)(\w)?,?)+`, `(?:(😀)?(a)|(b))+`, `((a)|(b)|(é))+,`,
	`(a)|(b)`, `(?<n>a+)`, `a*`, ``, `(\w+)`, `(?:(,)|(\w+))+`, `(?:(?<l>[a-c])(?<r>[é😀あ])?)+`, `((?:(a)|(b))+)(,)?`, `(a)(b)?`, `[`, `(?:(x)|(.))+`,
}

var regexSubjects = []string{"ab,cd", "ba", "a,b;c", "abc", "", "é", "😀a,b", "aéb😀c", "ab,cd;ef", "bab", "cab", "あa,b", "a", "é😀b", "aab,", "a,b,c", "😀,😀", "b;é;a", "ABC,ab", "xé😀ax", "ca,bé"}

var regexAtoms = []string{`a`, `b`, `c`, `\w`, `\w+`, `[a-c]`, `[a-c]+`, `.`, `,`, `;`, `[,;]`, `é`, `😀`, `あ`, `[é😀あ]`, `\pL`}

func genRegex(t *rapid.T) string {
	names := []string{"k", "sep", "x", "y"}
	used := 0
	group := func(label string) string {
		body := rapid.SampledFrom(regexAtoms).Draw(t, label+"atom")
		var g string
		if used < len(names) && rapid.IntRange(0, 2).Draw(t, label+"named") == 0 {
			g = "(?<" + names[used] + ">" + body + ")"
			used++
		} else {
			g = "(" + body + ")"
		}
		return g
	}
	ng := rapid.IntRange(2, 3).Draw(t, "groups")
	gs := make([]string, ng)
	for i := range gs {
		gs[i] = group(fmt.Sprintf("g%d", i))
	}
	var inner string
	switch rapid.IntRange(0, 3).Draw(t, "shape") {
	case 0: // sequence with optional tails
		inner = gs[0]
		for _, g := range gs[1:] {
			inner += g + rapid.SampledFrom([]string{"?", "?", "", "*"}).Draw(t, "opt")
		}
	case 1: // alternation
		inner = strings.Join(gs, "|")
	case 2: // one group, then an alternation of the rest
		inner = gs[0] + "(?:" + strings.Join(gs[1:], "|") + ")?"
	default: // optional head
		inner = gs[0] + "?" + strings.Join(gs[1:], "")
	}
	rep := rapid.SampledFrom([]string{"+", "+", "*", "{2,3}", "{1,2}", "+?"}).Draw(t, "rep")
	re := "(?:" + inner + ")" + rep
	if rapid.IntRange(0, 3).Draw(t, "outer") == 0 {
		re = "(" + re + ")"
	}
	if rapid.IntRange(0, 4).Draw(t, "tail") == 0 {
		re += rapid.SampledFrom([]string{",", "b", "é", "$", "(;)?"}).Draw(t, "tailatom")
	}
	return re
}

func genSubject(t *rapid.T) string {
	pieces := []string{"a", "b", "c", "ab", "cd", ",", ";", "é", "😀", "あ", "A", " ", "x"}
	n := rapid.IntRange(0, 8).Draw(t, "n")
	var sb strings.Builder
	for i := 0; i < n; i++ {
		sb.WriteString(rapid.SampledFrom(pieces).Draw(t, "piece"))
	}
	return sb.String()
}

func regexNote(c regexCase) {
	if !regexJudged {
		return
	}
	f := "null"
	if c.Flags != nil {
		f = *c.Flags
	}
	rec.NT("regex|" + c.Re + "|" + f + "|" + c.Subject)
	if regexBehind {
		rec.Class("regex/group-starts-behind-an-earlier-group")
	} else {
		rec.Class("regex/judged")
	}
}

func runRegex(t *testing.T) {
	g, gi, none := "g", "gi", ""
	flagSets := []*string{nil, &g, &gi, &none}
	n := 0
	complete := true
	for _, re := range regexFixedPatterns {
		for _, s := range regexSubjects {
			for _, f := range flagSets {
				n++
				if !rec.Mine(n) {
					continue
				}
				c := regexCase{Re: re, Flags: f, Subject: s}
				rec.Eval()
				if msg := checkRegex(c); msg != "" {
					complete = false
					if rec.Violations() < 25 {
						rec.Direct("regex", c, "%s", msg)
					}
				}
				regexNote(c)
				if n%397 == 0 {
					rec.Sample(map[string]any{"sub": "regex", "case": c})
				}
			}
		}
	}
	rec.Exhaustive(fmt.Sprintf("regex: %d fixed patterns x %d subjects x 4 flag sets", len(regexFixedPatterns), len(regexSubjects)), complete)
	rec.Rapid(t, "regex-random", rec.Scale(40000, 600000), func(t *rapid.T) {
		c := regexCase{Re: genRegex(t), Subject: genSubject(t)}
		if rapid.IntRange(0, 5).Draw(t, "fixedsubject") == 0 {
			c.Subject = rapid.SampledFrom(regexSubjects).Draw(t, "subject")
		}
		c.Flags = rapid.SampledFrom(flagSets).Draw(t, "flags")
		rec.Eval()
		rec.Sample(map[string]any{"sub": "regex-random", "case": c})
		if msg := checkRegex(c); msg != "" {
			t.Fatalf("%s", rec.Fail("regex-random", c, "%s", msg))
		}
		regexNote(c)
	})
}

func replayRegex(raw json.RawMessage) string {
	var c regexCase
	if err := json.Unmarshal(raw, &c); err != nil {
		return "bad replay: " + err.Error()
	}
	return checkRegex(c)
}
