// SIZE SWEEP: arrays, objects and strings of lengths around the usual
// thresholds (8, 16, 32, 64, 256, 4096 ...) fed to the four relations and to
// model-free metamorphic relations; after every call of the totality layer the
// input and the arguments must be unchanged (deep copy compare).
//
//	size-total  every callable on every sized value (+ derived arguments):
//	            totality as in total_test.go, and the input is not modified;
//	size-rep    number arrays / objects re-represented element by element;
//	size-model  every spec model on the sized values and derived arguments;
//	size-sync   every builtin.jq definition, shipped vs text, on sized values;
//	size-meta   result on a long input == result computed piecewise / by an
//	            equivalent formulation the manual implies (table below).
package c03

import (
	"encoding/json"
	"fmt"
	"math/big"
	"strings"
	"testing"

	"verif/internal/univ"
)

var sweepSizes = []int{0, 1, 2, 7, 8, 9, 15, 16, 17, 31, 32, 33, 63, 64, 65, 100, 255, 256, 257, 1000, 4095, 4096, 4097}

type sized struct {
	kind string // ints mixed nested object ascii multibyte mixedstr
	n    int
	v    any
}

// np is a non-periodic index scrambler (quadratic, modulo a prime > 4097).
func np(i int) int { return (i*i*7 + i*3 + i/5 + 11) % 5003 }

func sizedValue(kind string, n int) any {
	pickRunes := func(alpha string) string {
		rs := []rune(alpha)
		out := make([]rune, n)
		for i := range out {
			out[i] = rs[np(i)%len(rs)]
		}
		return string(out)
	}
	switch kind {
	case "ints": // small unsorted scalars with duplicates
		a := make([]any, n)
		for i := range a {
			a[i] = np(i)%11 - 3
		}
		return a
	case "mixed":
		a := make([]any, n)
		for i := range a {
			k := np(i)
			switch k % 8 {
			case 0:
				a[i] = nil
			case 1:
				a[i] = true
			case 2:
				a[i] = false
			case 3:
				a[i] = k % 7
			case 4:
				a[i] = float64(k%5) + 0.5
			case 5:
				a[i] = "s" + string(rune('0'+k%6))
			case 6:
				a[i] = []any{k % 3}
			default:
				a[i] = map[string]any{"a": k % 4}
			}
		}
		return a
	case "nested": // arrays of (jagged) arrays
		a := make([]any, n)
		for i := range a {
			row := make([]any, np(i)%4)
			for j := range row {
				row[j] = (np(i) + j) % 5
			}
			a[i] = row
		}
		return a
	case "object":
		m := make(map[string]any, n)
		for i := 0; i < n; i++ {
			m[fmt.Sprintf("k%04d", i)] = np(i) % 13
		}
		return m
	case "ascii":
		return pickRunes("abcXYZ ,01")
	case "multibyte":
		return pickRunes("éあ😀ßж")
	case "mixedstr":
		return pickRunes("aé,😀b あZ")
	}
	panic(kind)
}

var sizedKinds = []string{"ints", "mixed", "nested", "object", "ascii", "multibyte", "mixedstr"}

var sizedAll []sized

func sizedValues() []sized {
	if sizedAll == nil {
		for _, n := range sweepSizes {
			for _, k := range sizedKinds {
				sizedAll = append(sizedAll, sized{k, n, sizedValue(k, n)})
			}
		}
	}
	return sizedAll
}

// keepSize: the sweep is sampled in quick (all below 100, half below 1000, a
// sixth above), full in thorough.
func keepSize(n int, salt ...int) bool {
	if rec.Thorough() || n < 100 {
		return true
	}
	if n < 1000 {
		return pick(rec.Seed, 1, 2, append(salt, n)...)
	}
	return pick(rec.Seed, 1, 6, append(salt, n)...)
}

// derivedArgs: arguments that make calls on v well-typed and interesting.
func derivedArgs(s sized) []any {
	n := s.n
	switch v := s.v.(type) {
	case []any:
		var first, mid any
		self := v
		if n > 1000 {
			self = v[:64] // quadratic builtins (contains, -) stay affordable
		}
		sub := []any{}
		if n > 0 {
			first, mid = v[0], v[n/2]
			sub = v[n/2 : min(n, n/2+2)]
		}
		return []any{univ.Copy(first), univ.Copy(mid), univ.Copy(sub), univ.Copy(self), n - 1, n / 2, -1, n, ",", 1}
	case map[string]any:
		key := fmt.Sprintf("k%04d", n/2)
		subobj := map[string]any{}
		if n > 0 {
			subobj[key] = v[key]
		}
		return []any{key, "nokey", subobj, []any{key}, []any{[]any{key}}, 0, ","}
	case string:
		rs := []rune(v)
		pre, suf, mid := "", "", ""
		if n > 0 {
			pre, suf = string(rs[:min(3, n)]), string(rs[max(0, n-3):])
			mid = string(rs[n/2 : min(n, n/2+2)])
		}
		self := v
		if n > 1000 {
			self = string(rs[:64])
		}
		return []any{pre, suf, mid, "", ",", "a", self, n / 2, "é", -1}
	}
	return nil
}

func derivedPairs(s sized) [][2]any {
	a := derivedArgs(s)
	switch s.v.(type) {
	case []any:
		return [][2]any{{s.n / 2, a[1]}, {0, s.n - 1}, {[]any{s.n / 2}, 7}, {[]any{s.n}, "x"}, {a[0], a[2]}, {1, s.n}}
	case map[string]any:
		return [][2]any{{a[3], 7}, {[]any{"new"}, "x"}, {a[0], a[0]}, {0, 1}}
	case string:
		return [][2]any{{",", ";"}, {a[2], "x"}, {0, s.n / 2}, {s.n / 2, nil}, {"a", "g"}, {1, s.n}}
	}
	return nil
}

var sizeFilters = []string{".", ".[0]?", `type`, "length?"}

// ---------------------------------------------------------------------------
// size-total

func checkSizeTotal(c callCase) string {
	s := specByID[c.Spec]
	if s == nil {
		return "unknown spec " + c.Spec
	}
	snapIn := univ.Copy(c.In.X)
	snapArgs := make([]any, len(c.Args))
	for i, a := range c.Args {
		snapArgs[i] = univ.Copy(a.value())
	}
	out, msg := totalOutcome(s, c.In.X, c.Args)
	if msg != "" {
		return msg
	}
	sizeOutcome = out
	if !univ.Same(c.In.X, snapIn) {
		return fmt.Sprintf("%s modified its input: it was %s, it is %s", s.query(c.Args), clip(univ.Show(snapIn)), clip(univ.Show(c.In.X)))
	}
	for i, a := range c.Args {
		if a.F == "" && !univ.Same(a.value(), snapArgs[i]) {
			return fmt.Sprintf("%s modified its argument %d: it was %s, it is %s", s.query(c.Args), i, clip(univ.Show(snapArgs[i])), clip(univ.Show(a.value())))
		}
	}
	return ""
}

var sizeOutcome string

func clip(s string) string {
	if len(s) > 300 {
		return s[:300] + "...(" + fmt.Sprint(len(s)) + " bytes)"
	}
	return s
}

// ---------------------------------------------------------------------------
// size-meta: model-free relations.  Both sides run in gojq on the same input;
// $a is derived from the input.

type metaRel struct {
	id    string
	kinds string // space separated sized kinds it applies to
	minN  int
	maxN  int // 0: no limit
	l, r  string
	arg   func(s sized) any
}

func argIdx(i int) func(s sized) any {
	return func(s sized) any { return univ.Copy(derivedArgs(s)[i]) }
}

const halves = `(length / 2 | floor) as $h | `

var metaRels = []metaRel{
	{id: "sort/reversed", kinds: "ints mixed nested", l: "sort", r: "reverse | sort"},
	{id: "sort/rotated", kinds: "ints mixed nested", l: "sort", r: halves + "(.[$h:] + .[:$h]) | sort"},
	{id: "sort_by(.)", kinds: "ints mixed nested", l: "sort_by(.)", r: "sort"},
	{id: "unique=sort|dedupe", kinds: "ints mixed nested", l: "unique", r: "sort | reduce .[] as $x ([]; if length > 0 and .[-1] == $x then . else . + [$x] end)"},
	{id: "unique_by(.)", kinds: "ints mixed nested", l: "unique_by(.)", r: "unique"},
	{id: "group_by|heads", kinds: "ints mixed nested", l: "group_by(.) | map(.[0])", r: "unique"},
	{id: "group_by|sizes", kinds: "ints mixed nested", l: "group_by(.) | map(length) | add // 0", r: "length"},
	{id: "group_by|add|sort", kinds: "ints mixed nested", l: "group_by(.) | add // [] | sort", r: "sort"},
	{id: "min,max=sort ends", kinds: "ints mixed nested", minN: 1, l: "[min, max, min_by(.), max_by(.)]", r: "sort | [.[0], .[-1], .[0], .[-1]]"},
	{id: "(a+b)|length", kinds: "ints mixed nested ascii multibyte mixedstr", l: "(. + $a) | length", r: "length + ($a | length)", arg: argIdx(3)},
	{id: "halves", kinds: "ints mixed nested ascii multibyte mixedstr", l: halves + ".[:$h] + .[$h:]", r: "."},
	{id: "add of chunks", kinds: "ints nested", l: "add", r: halves + "[(.[:$h] | add), (.[$h:] | add)] | add"},
	{id: "add of strings", kinds: "ints mixed", l: "map(tojson) | add", r: halves + "map(tojson) | [(.[:$h] | add), (.[$h:] | add)] | add"},
	{id: "add object", kinds: "object", l: "add", r: "[.[]] | add"},
	{id: "join=reduce", kinds: "ints", l: "join($a)", arg: func(sized) any { return "," },
		r: `reduce .[] as $i (null; (if . == null then "" else . + $a end) + ($i | if . == null then "" elif type == "string" then . else tojson end)) // ""`},
	{id: "indices via explode", kinds: "ascii multibyte mixedstr", l: "[indices($a), index($a), rindex($a)]", r: "explode | [indices($a | explode), index($a | explode), rindex($a | explode)]", arg: argIdx(2), minN: 1},
	{id: "index=indices[0]", kinds: "ints", minN: 1, l: "[index($a), rindex($a)]", r: "indices($a) | [.[0], .[-1]]", arg: argIdx(1)},
	{id: "indices=select", kinds: "ints", minN: 1, l: "indices($a) | length", r: "map(select(. == $a)) | length", arg: argIdx(1)},
	{id: "tojson|fromjson", kinds: "ints mixed nested object ascii multibyte mixedstr", l: "tojson | fromjson", r: "."},
	{id: "@json=tojson", kinds: "ints mixed object mixedstr", l: "[@json, @text]", r: "[tojson, tostring]"},
	{id: "explode|implode", kinds: "ascii multibyte mixedstr", l: "explode | implode", r: "."},
	{id: "length=explode|length", kinds: "ascii multibyte mixedstr", l: "length", r: "explode | length"},
	{id: "utf8bytelength", kinds: "ascii multibyte mixedstr", l: "utf8bytelength", r: "[explode[] | if . < 128 then 1 elif . < 2048 then 2 elif . < 65536 then 3 else 4 end] | add // 0"},
	{id: "implode|explode", kinds: "ints", l: "map(. + 70) | implode | explode", r: "map(. + 70)"},
	{id: "reverse|reverse", kinds: "ints mixed nested", l: "reverse | reverse", r: "."},
	{id: "reverse=index", kinds: "ints mixed", l: "reverse", r: "[.[length - 1 - range(length)]]"},
	{id: "flatten of chunks", kinds: "ints mixed nested", l: "[flatten, flatten(1)]", r: halves + "[(.[:$h] | flatten) + (.[$h:] | flatten), (.[:$h] | flatten(1)) + (.[$h:] | flatten(1))]"},
	{id: "flatten|length", kinds: "nested", l: "flatten | length", r: "map(length) | add // 0"},
	{id: "keys|length", kinds: "ints mixed object", l: "keys | length", r: "length"},
	{id: "keys=range", kinds: "ints", l: "keys", r: "[range(length)]"},
	{id: "has(keys)", kinds: "ints object", l: "[keys[] as $k | has($k)] | all", r: "true"},
	{id: "to_entries|from_entries", kinds: "object", l: "[(to_entries | from_entries), with_entries(.), (to_entries | length), (to_entries | map(.key))]", r: "[., ., length, keys]"},
	{id: "to_entries values", kinds: "ints mixed", l: "to_entries | map(.value)", r: "."},
	{id: "fromstream(tostream)", kinds: "ints mixed nested object", minN: 1, l: "fromstream(tostream)", r: "."},
	{id: "paths count", kinds: "ints mixed nested object", l: "[paths] | length", r: "([..] | length) - 1"},
	{id: "identity maps", kinds: "ints mixed nested object", l: "[map_values(.), walk(.), ([.[]] | length)]", r: "[., ., length]"},
	{id: "walk=map", kinds: "ints", l: `walk(if type == "number" then . + 1 else . end)`, r: "map(. + 1)"},
	{id: "map_values=with_entries", kinds: "object", l: "map_values(. + 1)", r: "with_entries(.value += 1)"},
	{id: "limit/first/last/nth", kinds: "ints mixed nested", minN: 1, l: "[[limit(33; .[])], first, last, nth(31), first(.[]), last(.[]), ([nth(31; .[])] | .[0])]", r: "[.[:33], .[0], .[-1], .[31], .[0], .[-1], .[31]]"},
	{id: "range(length)", kinds: "ints ascii object", l: "[[range(length)] | length, ([limit(length; repeat(1))] | length), (length as $n | 0 | until(. >= $n; . + 1))]", r: "[length, length, length]"},
	{id: "bsearch", kinds: "ints", minN: 1, l: "sort | bsearch($a)", r: "sort | index($a)", arg: argIdx(1)},
	{id: "transpose", kinds: "nested", l: "transpose | length", r: "map(length) | max // 0"},
	{id: "transpose column", kinds: "ints mixed", l: "[.] | transpose | map(.[0])", r: "."},
	{id: "split|join", kinds: "ascii mixedstr", l: "[(split($a) | join($a)), ([splits($a)] == split($a))]", r: "[., true]", arg: func(sized) any { return "," }},
	{id: "gsub=split|join", kinds: "ascii mixedstr", l: `[gsub(","; ";"), sub("^"; "x")]`, r: `[(split(",") | join(";")), "x" + .]`},
	{id: "match count", kinds: "ascii mixedstr multibyte", l: `[([match(","; "g")] | length), test(","), ([match("."; "g")] | length), ([scan(".")] | length)]`, r: `[(indices(",") | length), ((indices(",") | length) > 0), length, length]`},
	{id: "ascii case", kinds: "ascii mixedstr multibyte", l: "[(ascii_downcase | ascii_upcase), (ascii_upcase | ascii_downcase), (ascii_downcase | length)]", r: "[ascii_upcase, ascii_downcase, length]"},
	{id: "trimstr", kinds: "ascii mixedstr multibyte", l: "[ltrimstr(.[:7]), rtrimstr(.[-7:]), startswith(.[:9]), endswith(.[-9:])]", r: "[.[7:], .[:-7], true, true]", minN: 1},
	{id: "base64/uri round trip", kinds: "ascii mixedstr multibyte", l: "[(@base64 | @base64d), (@uri | @urid)]", r: "[., .]"},
	{id: "csv/tsv/sh fields", kinds: "ints", minN: 1, l: `[(@csv | split(",") | map(tonumber)), (@tsv | split("\t") | map(tonumber)), (@sh | split(" ") | map(tonumber)), map(tostring | tonumber)]`, r: "[., ., ., .]"},
	{id: "contains prefix", kinds: "ints mixed nested ascii mixedstr", l: "[contains(.[:9]), (.[:9] | inside($a))]", r: "[true, true]", arg: func(s sized) any { return univ.Copy(s.v) }},
	{id: "contains sub-object", kinds: "object", l: "[contains($a), contains({})]", r: "[true, true]", arg: argIdx(2)},
	{id: "a-a", kinds: "ints mixed nested", maxN: 1000, l: "[. - ., . - []]", r: "[[], .]"},
	{id: "a-prefix", kinds: "nested", l: ". - .[:1] | length", r: ".[0] as $x | map(select(. != $x)) | length", minN: 1},
	{id: "any/all", kinds: "ints mixed", minN: 1, l: `[any(. == $a), all(. != "zz"), any, (map(. == $a) | any)]`, r: `[true, true, (map(select(.)) | length > 0), true]`, arg: argIdx(1)},
	{id: "setpath/delpaths/getpath", kinds: "ints mixed nested", l: "[(setpath([length]; 1) | length), (delpaths([[0], [length - 1]]) | length), getpath([length - 1]), del(.[0])]", r: "[length + 1, ([length - 2, 0] | max), .[-1], .[1:]]"},
	{id: "object getpath/del", kinds: "object", minN: 1, l: "[getpath([$a]), has($a), (del(.[$a]) | length), (delpaths([[$a]]) | has($a))]", r: "[.[$a], true, length - 1, false]", arg: argIdx(0)},
	{id: "combinations", kinds: "ints", maxN: 65, l: "[[., .] | combinations] | length", r: "length * length"},
	{id: "tojson keys sorted", kinds: "object", l: "tojson | fromjson | keys", r: "keys"},
}

type relCase struct {
	Rel string `json:"rel"`
	In  univ.V `json:"in"`
	Arg univ.V `json:"arg"`
}

var relJudged bool

// checkRelQueries: L and R must give the same outputs and no error.
func checkRelQueries(id, l, r string, in, a any) string {
	relJudged = false
	var outs [2][]any
	for i, q := range []string{l, r} {
		code, err := compile(q)
		if err != nil {
			return fmt.Sprintf("relation %s: %q does not compile: %v", id, q, err)
		}
		res := exec(code, in, []any{a, nil, nil, nil})
		if res.Panic != "" {
			return fmt.Sprintf("relation %s: %q panicked: %s", id, q, res.Panic)
		}
		if res.Budget {
			rec.Discard("size-meta/budget")
			return ""
		}
		if res.Err != nil {
			return fmt.Sprintf("relation %s: %q on %s (arg %s) raised %q", id, q, clip(univ.Show(in)), clip(univ.Show(a)), res.Err)
		}
		outs[i] = res.Vals
	}
	if !univ.EqualStreams(outs[0], outs[1]) {
		return fmt.Sprintf("relation %s on %s (arg %s): %q gives %s but %q gives %s", id, clip(univ.Show(in)), clip(univ.Show(a)), l, clip(univ.ShowAll(outs[0])), r, clip(univ.ShowAll(outs[1])))
	}
	relJudged = true
	return ""
}

func checkMeta(c relCase) string {
	for _, m := range metaRels {
		if m.id == c.Rel {
			snap := univ.Copy(c.In.X)
			if msg := checkRelQueries(m.id, m.l, m.r, c.In.X, c.Arg.X); msg != "" {
				return msg
			}
			if !univ.Same(c.In.X, snap) {
				return fmt.Sprintf("relation %s: the input was modified: it was %s, it is %s", m.id, clip(univ.Show(snap)), clip(univ.Show(c.In.X)))
			}
			return ""
		}
	}
	return "unknown relation " + c.Rel
}

// ---------------------------------------------------------------------------
// representations of a sized number array / object

func reRepresent(v any, mode int) any {
	num := func(i, x int) any {
		switch (mode + i*(mode/3)) % 3 { // modes 0..2: uniform, 3..: alternating
		case 1:
			return big.NewInt(int64(x))
		case 2:
			return json.Number(fmt.Sprint(x))
		}
		return x
	}
	switch v := v.(type) {
	case []any:
		out := make([]any, len(v))
		for i, x := range v {
			if n, ok := x.(int); ok {
				out[i] = num(i, n)
			} else {
				out[i] = reRepresent(x, mode)
			}
		}
		return out
	case map[string]any:
		out := make(map[string]any, len(v))
		i := 0
		for _, k := range sortedKeys(v) {
			if n, ok := v[k].(int); ok {
				out[k] = num(i, n)
			} else {
				out[k] = reRepresent(v[k], mode)
			}
			i++
		}
		return out
	}
	return v
}

// ---------------------------------------------------------------------------

func runSize(t *testing.T) {
	vals := sizedValues()
	n := 0
	withBudget(bigSteps, bigOuts, func() {
		// size-total
		for si, s := range specs {
			if _, ok := excludedNames[s.Name]; ok {
				continue
			}
			for vi, sv := range vals {
				var tuples [][]arg
				switch s.Arity {
				case 0:
					tuples = [][]arg{nil}
				case 1:
					for _, a := range derivedArgs(sv) {
						tuples = append(tuples, []arg{val(a)})
					}
					if s.Closure[0] {
						for _, f := range sizeFilters {
							tuples = append(tuples, []arg{flt(f)})
						}
					}
				case 2:
					for _, p := range derivedPairs(sv) {
						tuples = append(tuples, []arg{val(univ.Copy(p[0])), val(univ.Copy(p[1]))})
					}
					for p := 0; p < 2; p++ {
						if s.Closure[p] {
							for _, f := range sizeFilters[:2] {
								tp := []arg{val(sv.n / 2), val(sv.n / 2)}
								tp[p] = flt(f)
								if s.Closure[1-p] {
									tp[1-p] = flt(".")
								}
								tuples = append(tuples, tp)
							}
						}
					}
				default:
					ps := derivedPairs(sv)
					tp := make([]arg, s.Arity)
					for p := range tp {
						tp[p] = val(univ.Copy(ps[0][p%2]))
					}
					tuples = [][]arg{tp}
				}
				for ti, args := range tuples {
					n++
					if !rec.Mine(n) || !keepSize(sv.n, si, vi, ti) {
						continue
					}
					if s.Arity >= 1 && sv.n >= 1000 && !rec.Thorough() && ti >= 4 {
						continue
					}
					c := callCase{Spec: s.ID, In: univ.V{X: sv.v}, Args: args, Big: true}
					rec.Eval()
					if msg := checkSizeTotal(c); msg != "" {
						if rec.Violations() < 25 {
							c.In = univ.V{X: univ.Copy(sizedValue(sv.kind, sv.n))}
							rec.Direct("size-total", c, "%s", msg)
						}
						vals[vi].v = sizedValue(sv.kind, sv.n) // repair the shared value
						continue
					}
					switch sizeOutcome {
					case "guard", "budget":
						rec.Discard("size-total/" + sizeOutcome)
					default:
						rec.Class("size-total/" + sizeOutcome)
						rec.NT(fmt.Sprintf("size-total|%s|%s|%d|%d", s.ID, sv.kind, sv.n, ti))
					}
				}
			}
		}
		// size-model
		for mi, m := range models {
			for vi, sv := range vals {
				var tuples [][]any
				switch m.arity {
				case 0:
					tuples = [][]any{nil}
				case 1:
					for _, a := range derivedArgs(sv) {
						tuples = append(tuples, []any{a})
					}
				default:
					for _, p := range derivedPairs(sv) {
						tp := make([]any, m.arity)
						for i := range tp {
							tp[i] = p[i%2]
						}
						tuples = append(tuples, tp)
					}
				}
				for ti, args := range tuples {
					n++
					if !rec.Mine(n) || !keepSize(sv.n, 5000+mi, vi, ti) {
						continue
					}
					c := mcase(m, sv.v, copyAll(args))
					rec.Eval()
					if msg := checkModel(c); msg != "" {
						if rec.Violations() < 25 {
							rec.Direct("size-model", c, "%s", clip(msg))
						}
						continue
					}
					if judged {
						rec.Class("size-model/judged")
						rec.NT(fmt.Sprintf("size-model|%s|%s|%d|%d", m.id, sv.kind, sv.n, ti))
					}
				}
			}
		}
		// size-meta
		for ri, m := range metaRels {
			for vi, sv := range vals {
				if !strings.Contains(" "+m.kinds+" ", " "+sv.kind+" ") || sv.n < m.minN || (m.maxN > 0 && sv.n > m.maxN) {
					continue
				}
				n++
				if !rec.Mine(n) || !keepSize(sv.n, 9000+ri, vi) {
					continue
				}
				var a any
				if m.arg != nil {
					a = m.arg(sv)
				}
				c := relCase{Rel: m.id, In: univ.V{X: sv.v}, Arg: univ.V{X: a}}
				rec.Eval()
				if msg := checkMeta(c); msg != "" {
					if rec.Violations() < 25 {
						c.In = univ.V{X: sizedValue(sv.kind, sv.n)}
						rec.Direct("size-meta", c, "%s", msg)
					}
					vals[vi].v = sizedValue(sv.kind, sv.n)
					continue
				}
				if relJudged {
					rec.Class("size-meta/judged")
					rec.NT(fmt.Sprintf("size-meta|%s|%s|%d", m.id, sv.kind, sv.n))
				}
			}
		}
		// size-rep: ints / object values re-represented
		for si, s := range specs {
			if _, ok := excludedNames[s.Name]; ok || s.Arity > 1 {
				continue
			}
			for vi, sv := range vals {
				if sv.kind != "ints" && sv.kind != "object" && sv.kind != "nested" {
					continue
				}
				args := []any{nil}
				if s.Arity == 1 {
					args = derivedArgs(sv)[:6]
				}
				for ti, a := range args {
					for mode := 1; mode <= 4; mode++ {
						n++
						if !rec.Mine(n) || !keepSize(sv.n, 12000+si, vi, ti, mode) {
							continue
						}
						if !rec.Thorough() && sv.n >= 100 && mode != 1+(si+vi+ti)%4 {
							continue
						}
						c := callCase{Spec: s.ID, In: univ.V{X: sv.v}, In2: &univ.V{X: reRepresent(sv.v, mode)}, Big: true}
						if s.Arity == 1 {
							if s.Closure[0] && len(repFiltersFor(s)) != len(repFilters) {
								c.Args, c.Args2 = []arg{flt(".[0]?")}, []arg{flt(".[0]?")}
							} else {
								c.Args, c.Args2 = []arg{val(univ.Copy(a))}, []arg{val(reRepresent(univ.Copy(a), mode))}
							}
						}
						rec.Eval()
						if msg := checkRep(c); msg != "" {
							if rec.Violations() < 25 {
								rec.Direct("size-rep", c, "%s", clip(msg))
							}
							continue
						}
						if repNT {
							rec.Class("size-rep/values-compared")
							rec.NT(fmt.Sprintf("size-rep|%s|%s|%d|%d|%d", s.ID, sv.kind, sv.n, ti, mode))
						}
					}
				}
			}
		}
		// size-sync: shipped vs text of builtin.jq
		for si, s := range specs {
			if _, ok := excludedNames[s.Name]; ok || !s.JQ || s.Arity > 2 {
				continue
			}
			for vi, sv := range vals {
				var tuples [][]arg
				switch s.Arity {
				case 0:
					tuples = [][]arg{nil}
				case 1:
					for _, a := range derivedArgs(sv)[:5] {
						tuples = append(tuples, []arg{val(a)})
					}
					if s.Closure[0] {
						for _, f := range sizeFilters {
							tuples = append(tuples, []arg{flt(f)})
						}
					}
				default:
					for _, p := range derivedPairs(sv)[:3] {
						tuples = append(tuples, []arg{val(univ.Copy(p[0])), val(univ.Copy(p[1]))})
					}
					for p := 0; p < 2; p++ {
						if s.Closure[p] {
							tp := []arg{val(sv.n / 2), val(sv.n / 2)}
							tp[p] = flt(".[0]?")
							if s.Closure[1-p] {
								tp[1-p] = flt(".")
							}
							tuples = append(tuples, tp)
						}
					}
				}
				for ti, args := range tuples {
					n++
					if !rec.Mine(n) || !keepSize(sv.n, 15000+si, vi, ti) {
						continue
					}
					c := callCase{Spec: s.ID, In: univ.V{X: sv.v}, Args: args, Big: true}
					rec.Eval()
					if msg := checkSyncRef(c, false); msg != "" {
						if rec.Violations() < 25 {
							rec.Direct("size-sync", c, "%s", clip(msg))
						}
						continue
					}
					if judged {
						rec.Class("size-sync/judged")
						rec.NT(fmt.Sprintf("size-sync|%s|%s|%d|%d", s.ID, sv.kind, sv.n, ti))
					}
				}
			}
		}
	})
	rec.Extra("size_sweep_lengths", sweepSizes)
	rec.Extra("size_sweep_relations", len(metaRels))
	// the sized values themselves must have survived
	for _, sv := range vals {
		if !univ.Same(sv.v, sizedValue(sv.kind, sv.n)) {
			rec.Direct("size-total", map[string]any{"note": "sized value modified", "kind": sv.kind, "n": sv.n}, "after the size sweep the %s value of length %d differs from a fresh copy: a builtin wrote into its input", sv.kind, sv.n)
		}
	}
}

func copyAll(vs []any) []any {
	out := make([]any, len(vs))
	for i, v := range vs {
		out[i] = univ.Copy(v)
	}
	return out
}

func replaySize(sub string, raw json.RawMessage) string {
	var msg string
	withBudget(bigSteps, bigOuts, func() {
		switch sub {
		case "size-total", "size-rep", "size-sync":
			var c callCase
			if err := json.Unmarshal(raw, &c); err != nil {
				msg = "bad replay: " + err.Error()
				return
			}
			switch sub {
			case "size-total":
				msg = checkSizeTotal(c)
			case "size-rep":
				msg = checkRep(c)
			default:
				msg = checkSyncRef(c, false)
			}
		case "size-model":
			var c modelCase
			if err := json.Unmarshal(raw, &c); err != nil {
				msg = "bad replay: " + err.Error()
				return
			}
			msg = checkModel(c)
		case "size-meta":
			var c relCase
			if err := json.Unmarshal(raw, &c); err != nil {
				msg = "bad replay: " + err.Error()
				return
			}
			msg = checkMeta(c)
		default:
			msg = "unknown sub " + sub
		}
	})
	return msg
}
