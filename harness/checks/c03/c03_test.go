// C03 — every builtin computes its documented function on all argument types.
//
// Four independent relations (DESIGN.md section 4, C03), one file each:
//
//	total_test.go  totality: every name/arity of `builtins` (read at run time),
//	               the operators, the @formats and the index/slice syntax, called
//	               on all tuples of the 63-value universe, yields supported Go
//	               values or a catchable error, never a panic or a hang;
//	rep_test.go    representation metamorphism: another Go representation of the
//	               same number leaves results and error status unchanged;
//	model_test.go  spec models written from the jq manual / cli/test.yaml;
//	sync_test.go   builtin.jq (read at run time) prepended as user definitions
//	               behaves like the precompiled builtin.go, the reference
//	               interpreter evaluating the same text agrees, and
//	               Parse(builtin.jq) deep-equals VerifBuiltinFuncDefs().
//
// This file holds what the four share: the call specs discovered at run time,
// the query builder, the compile cache and the case format.
package c03

import (
	"encoding/json"
	"fmt"
	"hash/fnv"
	"math"
	"math/big"
	"os"
	"path/filepath"
	"sort"
	"strconv"
	"strings"
	"testing"

	"github.com/itchyny/gojq"

	"verif/internal/evid"
	"verif/internal/gen"
	"verif/internal/run"
	"verif/internal/univ"
)

var rec *evid.Rec

// U is the exhaustive universe (gen.U60, 63 values, plus 6 at the edge of the
// double range: every type, empty/singleton/nested
// containers, negative/fractional/huge numbers, NaN/inf, multi-byte and
// invalid UTF-8 strings).
var U = buildU()

// boundaryInts are the integers at the magnitude boundaries of the number
// representations: 2^53 (exact doubles), 2^63/2^64 (machine integers),
// 10^22/10^23 (exactly / not exactly representable powers of ten), and the
// edge of the double range (2^1023, 10^308, MaxFloat64 as an integer, 2^1024,
// 10^309: the last ones must saturate like 1e1000).
func boundaryInts() []*big.Int {
	pow := func(b, e int64) *big.Int { return new(big.Int).Exp(big.NewInt(b), big.NewInt(e), nil) }
	add := func(x *big.Int, d int64) *big.Int { return new(big.Int).Add(x, big.NewInt(d)) }
	maxF := new(big.Int).Sub(pow(2, 1024), pow(2, 971))
	pos := []*big.Int{pow(2, 53), add(pow(2, 53), 1), pow(2, 63), pow(2, 64), pow(10, 22), pow(10, 23), add(pow(2, 1023), -1), pow(2, 1023), add(pow(2, 1023), 1),
		pow(10, 308), maxF, add(maxF, 1), add(pow(2, 1024), -1), pow(2, 1024), pow(10, 309), pow(2, 1000)}
	pos = append(pos, wordInts()...)
	out := make([]*big.Int, 0, 2*len(pos))
	for _, x := range pos {
		out = append(out, x, new(big.Int).Neg(x))
	}
	return out
}

// wordInts are the non-negative integers around the half-word and word
// boundaries of machine arithmetic: 2^15, 2^16, sqrt(2^31), 2^31, sqrt(2^63)
// = 3037000499.98, 2^32, 2^53, 2^62, 2^63.
func wordInts() []*big.Int {
	var out []*big.Int
	for _, s := range []string{"32767", "32768", "32769", "65535", "65536", "65537", "46340", "46341", "2147483647", "2147483648", "2147483649",
		"3037000499", "3037000500", "3037000501", "4000000000", "4294967295", "4294967296", "4294967297", "9007199254740991", "9007199254740993",
		"4611686018427387904", "9223372036854775807", "9223372036854775808"} {
		b, _ := new(big.Int).SetString(s, 10)
		out = append(out, b)
	}
	return out
}

// boundaryPool: every boundary integer as *big.Int and as integer-literal
// json.Number (and as int where it fits).
func boundaryPool() []any {
	var out []any
	for _, b := range boundaryInts() {
		out = append(out, new(big.Int).Set(b), json.Number(b.String()))
		if b.IsInt64() {
			out = append(out, int(b.Int64()))
		}
	}
	return out
}

// buildU: gen.U60 plus a few integers at the edge of the double range.
func buildU() []any {
	u := gen.U60(true, true)
	pow := func(b, e int64) *big.Int { return new(big.Int).Exp(big.NewInt(b), big.NewInt(e), nil) }
	maxF := new(big.Int).Sub(pow(2, 1024), pow(2, 971))
	return append(u, pow(2, 1023), json.Number(pow(10, 308).String()), new(big.Int).Neg(maxF), pow(2, 1024), json.Number(pow(10, 309).String()), math.MaxFloat64)
}

// ---------------------------------------------------------------------------
// call specs

// spec is one callable: a builtin name/arity from `builtins`, or a template
// for an operator, a @format or the index/slice syntax.
type spec struct {
	ID      string // "flatten/1", "op/+", "fmt/@csv", "idx/.[$a:$b]"
	Name    string
	Arity   int
	Tmpl    string // templates: the query text over ., $a, $b, $c
	Closure []bool // per argument: a filter parameter (gets pool filters too)
	JQ      bool   // defined in builtin.jq
}

// arg is one actual argument: a value (bound to $a..$d) or a filter text.
type arg struct {
	F string  `json:"f,omitempty"`
	V *univ.V `json:"v,omitempty"`
}

func val(v any) arg { return arg{V: &univ.V{X: v}} }
func flt(f string) arg { return arg{F: f} }

func (a arg) value() any {
	if a.V == nil {
		return nil
	}
	return a.V.X
}

// callCase is the replay format of the totality, sync and rep sub-checks.
type callCase struct {
	Spec  string  `json:"spec"`
	In    univ.V  `json:"in"`
	Args  []arg   `json:"args"`
	Big   bool    `json:"big,omitempty"`   // size sweep: run under the raised budgets
	In2   *univ.V `json:"in2,omitempty"`   // rep: the re-represented input
	Args2 []arg   `json:"args2,omitempty"` // rep: the re-represented arguments
}

var varNames = []string{"$a", "$b", "$c", "$d"}

// query builds the query text of a call.
func (s *spec) query(args []arg) string {
	if s.Tmpl != "" {
		return s.Tmpl
	}
	if s.Arity == 0 {
		return s.Name
	}
	parts := make([]string, s.Arity)
	for i := range parts {
		if i < len(args) && args[i].F != "" {
			parts[i] = "(" + args[i].F + ")"
		} else {
			parts[i] = varNames[i]
		}
	}
	return s.Name + "(" + strings.Join(parts, "; ") + ")"
}

func values(args []arg) []any {
	vs := make([]any, len(varNames))
	for i, a := range args {
		if i < len(vs) && a.F == "" {
			vs[i] = a.value()
		}
	}
	return vs
}

// names that are outside the property or not a function of (input, args).
var excludedNames = map[string]string{
	"now": "clock", "input": "input stream", "inputs": "input stream", "debug": "side channel", "stderr": "side channel",
	"input_filename": "command state", "halt": "not catchable by design", "halt_error": "not catchable by design",
	"env": "environment", "localtime": "time zone", "strflocaltime": "time zone", "modulemeta": "module loader",
	"get_search_list": "module loader", "input_line_number": "command state",
}

// filter pool for filter parameters (besides every universe value as $x).
var filterPool = []string{".", "empty", ".[]?", ".[0]?", ".a?", "not", "(1, null)", "error", "tostring",
	`type == "number"`, `if type == "number" then . + 1 else . end`, "range(3)"}

var (
	specs     []*spec
	specByID  = map[string]*spec{}
	builtinJQ string
	jqDefs    = map[string]*gojq.FuncDef{} // name/arity -> definition in builtin.jq
)

func repoDir() string {
	if d := os.Getenv("VERIF_REPO"); d != "" {
		return d
	}
	return "/repo"
}

// templates for what `builtins` does not list.
var templates = []spec{
	{ID: "op/+", Arity: 1, Tmpl: ". + $a"}, {ID: "op/-", Arity: 1, Tmpl: ". - $a"}, {ID: "op/*", Arity: 1, Tmpl: ". * $a"},
	{ID: "op//", Arity: 1, Tmpl: ". / $a"}, {ID: "op/%", Arity: 1, Tmpl: ". % $a"},
	{ID: "op/==", Arity: 1, Tmpl: ". == $a"}, {ID: "op/!=", Arity: 1, Tmpl: ". != $a"}, {ID: "op/<", Arity: 1, Tmpl: ". < $a"},
	{ID: "op/<=", Arity: 1, Tmpl: ". <= $a"}, {ID: "op/>", Arity: 1, Tmpl: ". > $a"}, {ID: "op/>=", Arity: 1, Tmpl: ". >= $a"},
	{ID: "op/and", Arity: 1, Tmpl: ". and $a"}, {ID: "op/or", Arity: 1, Tmpl: ". or $a"}, {ID: "op/alt", Arity: 1, Tmpl: ". // $a"},
	{ID: "op/neg", Arity: 0, Tmpl: "-(.)"}, {ID: "op/plus", Arity: 0, Tmpl: "+(.)"},
	{ID: "op2/+", Arity: 2, Tmpl: "$a + $b"}, {ID: "op2/-", Arity: 2, Tmpl: "$a - $b"}, {ID: "op2/*", Arity: 2, Tmpl: "$a * $b"},
	{ID: "op2//", Arity: 2, Tmpl: "$a / $b"}, {ID: "op2/%", Arity: 2, Tmpl: "$a % $b"},
	{ID: "fmt/@text", Arity: 0, Tmpl: "@text"}, {ID: "fmt/@json", Arity: 0, Tmpl: "@json"}, {ID: "fmt/@html", Arity: 0, Tmpl: "@html"},
	{ID: "fmt/@uri", Arity: 0, Tmpl: "@uri"}, {ID: "fmt/@urid", Arity: 0, Tmpl: "@urid"}, {ID: "fmt/@csv", Arity: 0, Tmpl: "@csv"},
	{ID: "fmt/@tsv", Arity: 0, Tmpl: "@tsv"}, {ID: "fmt/@sh", Arity: 0, Tmpl: "@sh"}, {ID: "fmt/@base64", Arity: 0, Tmpl: "@base64"},
	{ID: "fmt/@base64d", Arity: 0, Tmpl: "@base64d"},
	{ID: "fmt/@csv-interp", Arity: 1, Tmpl: `@csv "x\(.)y\($a)"`}, {ID: "fmt/@sh-interp", Arity: 1, Tmpl: `@sh "x\(.)y\($a)"`},
	{ID: "fmt/@html-interp", Arity: 1, Tmpl: `@html "x\(.)y\($a)"`}, {ID: "fmt/interp", Arity: 1, Tmpl: `"x\(.)y\($a)"`},
	{ID: "idx/.[$a]", Arity: 1, Tmpl: ".[$a]"}, {ID: "idx/.[$a]?", Arity: 1, Tmpl: ".[$a]?"}, {ID: "idx/.[$a:]", Arity: 1, Tmpl: ".[$a:]"},
	{ID: "idx/.[:$a]", Arity: 1, Tmpl: ".[:$a]"}, {ID: "idx/.[$a:$b]", Arity: 2, Tmpl: ".[$a:$b]"}, {ID: "idx/.[]", Arity: 0, Tmpl: ".[]"},
	{ID: "idx/.[]?", Arity: 0, Tmpl: ".[]?"}, {ID: "idx/..", Arity: 0, Tmpl: ".."}, {ID: "idx/$a[.]", Arity: 1, Tmpl: "$a[.]"},
}

func kindOf(v any) string {
	switch v.(type) {
	case nil:
		return "null"
	case bool:
		return "boolean"
	case int:
		return "int"
	case float64:
		return "float"
	case *big.Int:
		return "big"
	case json.Number:
		return "jnum"
	case string:
		return "string"
	case []any:
		return "array"
	case map[string]any:
		return "object"
	}
	return fmt.Sprintf("%T", v)
}

var jqTypes = []string{"null", "boolean", "number", "string", "array", "object"}

func typeIdx(v any) int {
	switch v.(type) {
	case nil:
		return 0
	case bool:
		return 1
	case int, float64, *big.Int, json.Number:
		return 2
	case string:
		return 3
	case []any:
		return 4
	case map[string]any:
		return 5
	}
	return 0
}

// discover reads `builtins` and builtin.jq at run time.
func discover() error {
	b, err := os.ReadFile(filepath.Join(repoDir(), "builtin.jq"))
	if err != nil {
		return err
	}
	builtinJQ = string(b)
	q, err := gojq.Parse(builtinJQ + " .")
	if err != nil {
		return fmt.Errorf("builtin.jq: %w", err)
	}
	for _, fd := range q.FuncDefs {
		jqDefs[fd.Name+"/"+strconv.Itoa(len(fd.Args))] = fd
	}
	code, err := run.Compile("builtins")
	if err != nil {
		return err
	}
	res := run.Exec(code, nil, 0, 10)
	if res.Err != nil || len(res.Vals) != 1 {
		return fmt.Errorf("builtins: %v", res.Err)
	}
	list, _ := res.Vals[0].([]any)
	var ids []string
	for _, x := range list {
		s, _ := x.(string)
		if s != "" {
			ids = append(ids, s)
		}
	}
	sort.Strings(ids)
	for _, id := range ids {
		i := strings.LastIndexByte(id, '/')
		n, err := strconv.Atoi(id[i+1:])
		if i <= 0 || err != nil {
			return fmt.Errorf("builtins: odd entry %q", id)
		}
		s := &spec{ID: id, Name: id[:i], Arity: n, Closure: make([]bool, n)}
		if fd := jqDefs[id]; fd != nil {
			s.JQ = true
			for k, a := range fd.Args {
				s.Closure[k] = !strings.HasPrefix(a, "$")
			}
		} else if id == "path/1" {
			s.Closure[0] = true
		}
		specs = append(specs, s)
	}
	for i := range templates {
		t := templates[i]
		t.Name = t.ID
		t.Closure = make([]bool, t.Arity)
		specs = append(specs, &t)
	}
	for _, s := range specs {
		specByID[s.ID] = s
	}
	return nil
}

// ---------------------------------------------------------------------------
// compile cache and bounded execution

type compiled struct {
	code *gojq.Code
	err  error
}

var codeCache = map[string]compiled{}

func compile(q string) (*gojq.Code, error) {
	if c, ok := codeCache[q]; ok {
		return c.code, c.err
	}
	code, err := run.Compile(q, gojq.WithVariables(varNames), gojq.WithInputIter(gojq.NewIter[any]()))
	codeCache[q] = compiled{code, err}
	return code, err
}

// budgets of one call; the size sweeps raise them (withBudget).
var (
	stepBudget = 30000
	outBudget  = 120
)

func withBudget(steps, outs int, f func()) {
	s, o := stepBudget, outBudget
	stepBudget, outBudget = steps, outs
	defer func() { stepBudget, outBudget = s, o }()
	f()
}

const (
	bigSteps = 250000
	bigOuts  = 6000
)

func exec(code *gojq.Code, in any, vs []any) run.Result {
	return run.Exec(code, in, stepBudget, outBudget, vs...)
}

// ---------------------------------------------------------------------------
// resource guards: structural predicates about the case, never about results

func numOf(v any) (float64, bool) {
	n, ok := univ.ToNum(v)
	if !ok {
		return 0, false
	}
	if n.Int != nil {
		f, _ := new(big.Float).SetInt(n.Int).Float64()
		return f, true
	}
	return n.F, true
}

// hasMidNumber: a number in [1e5, 2^31) occurs in v (an array index or a
// repeat count of that size is legal and allocates that much).
func hasMidNumber(v any) bool {
	switch v := v.(type) {
	case []any:
		for _, x := range v {
			if hasMidNumber(x) {
				return true
			}
		}
	case map[string]any:
		for _, x := range v {
			if hasMidNumber(x) {
				return true
			}
		}
	default:
		if f, ok := numOf(v); ok {
			f = math.Abs(f)
			return f >= 1e5 && f < 1<<31
		}
	}
	return false
}

// guard reports why a call must not be run ("" = run it).
func guard(s *spec, in any, args []arg) string {
	switch s.Name {
	case "jn", "yn":
		// math.Jn/Yn legitimately take time proportional to the order
		// (both arguments are bounded so that a swapped-argument bug shows up
		// as a wrong value instead of a shard timeout)
		for _, a := range args {
			if a.F == "" {
				if f, ok := numOf(a.value()); ok && !(math.Abs(f) < 20000) {
					return "bessel-order"
				}
			}
		}
	}
	mid := hasMidNumber(in)
	for _, a := range args {
		if a.F == "" && hasMidNumber(a.value()) {
			mid = true
		}
	}
	if mid {
		switch s.Name {
		case "setpath", "pick", "fromstream", "op/*", "op2/*":
			// an array index / a repeat count of that size is legal and allocates
			// that much; everything else is bounded by the step and output budgets
			return "resource"
		}
	}
	return ""
}

// ---------------------------------------------------------------------------
// deterministic sampling for enumerations

func pick(seed int64, keep, outOf int, parts ...int) bool {
	if keep >= outOf {
		return true
	}
	h := fnv.New64a()
	var b [8]byte
	put := func(x uint64) {
		for i := range b {
			b[i] = byte(x >> (8 * i))
		}
		h.Write(b[:])
	}
	put(uint64(seed))
	for _, p := range parts {
		put(uint64(p))
	}
	v := h.Sum64()
	v ^= v >> 31
	v *= 0x9e3779b97f4a7c15
	v ^= v >> 29
	return int(v%uint64(outOf)) < keep
}

// options of one argument position: every universe value, plus the pool
// filters for a filter parameter.
func options(s *spec, pos int) []arg {
	out := make([]arg, 0, len(U)+len(filterPool))
	for _, u := range U {
		out = append(out, val(u))
	}
	if pos < len(s.Closure) && s.Closure[pos] {
		for _, f := range filterPool {
			out = append(out, flt(f))
		}
	}
	return out
}

func argKey(a arg) string {
	if a.F != "" {
		return "F:" + a.F
	}
	return univ.Show(a.value())
}

func argType(a arg) string {
	if a.F != "" {
		return "filter"
	}
	return jqTypes[typeIdx(a.value())]
}

func argKind(a arg) string {
	if a.F != "" {
		return "filter"
	}
	return kindOf(a.value())
}

// ---------------------------------------------------------------------------

func replayCase(sub string, raw json.RawMessage) string {
	switch {
	case sub == "total" || sub == "total-random":
		var c callCase
		if err := json.Unmarshal(raw, &c); err != nil {
			return "bad replay: " + err.Error()
		}
		return checkTotal(c)
	case sub == "total-sweep":
		var c sweepCase
		if err := json.Unmarshal(raw, &c); err != nil {
			return "bad replay: " + err.Error()
		}
		return replaySweep(c)
	case sub == "rep" || sub == "rep-random":
		var c callCase
		if err := json.Unmarshal(raw, &c); err != nil {
			return "bad replay: " + err.Error()
		}
		return checkRep(c)
	case strings.HasPrefix(sub, "model"):
		var c modelCase
		if err := json.Unmarshal(raw, &c); err != nil {
			return "bad replay: " + err.Error()
		}
		return checkModel(c)
	case sub == "sync" || sub == "sync-random":
		var c callCase
		if err := json.Unmarshal(raw, &c); err != nil {
			return "bad replay: " + err.Error()
		}
		return checkSync(c)
	case strings.HasPrefix(sub, "size-ties"):
		return replayTies(raw)
	case strings.HasPrefix(sub, "size-"):
		return replaySize(sub, raw)
	case strings.HasPrefix(sub, "utf8-"):
		return replayUTF8(sub, raw)
	case sub == "fromjson" || sub == "fromjson-random":
		return replayFromJSON(raw)
	case sub == "regex" || sub == "regex-random":
		return replayRegex(raw)
	case sub == "sync-ast":
		var c astCase
		if err := json.Unmarshal(raw, &c); err != nil {
			return "bad replay: " + err.Error()
		}
		return checkAST(c)
	}
	return "unknown sub " + sub
}

func TestC03(t *testing.T) {
	rec = evid.Open("C03")
	defer rec.Close()
	if err := discover(); err != nil {
		t.Fatalf("discover: %v", err)
	}
	rec.Replays(replayCase)
	if rec.ReplayPath() != "" {
		return
	}
	rec.Extra("builtins_listed", len(specs)-len(templates))
	rec.Extra("templates", len(templates))
	rec.Extra("builtin_jq_definitions", len(jqDefs))

	runTotal(t)
	universeIntact(t, "totality")
	runRep(t)
	runModels(t)
	universeIntact(t, "models")
	runSync(t)
	universeIntact(t, "sync")
	runRegex(t)
	runFromJSON(t)
	universeIntact(t, "fromjson")
	runWords(t)
	runSize(t)
	runTies(t)
	runUTF8(t)
}

// universeIntact: the shared universe values are passed to gojq by reference;
// a builtin writing into its input would corrupt every later case.
func universeIntact(t *testing.T, after string) {
	fresh := buildU()
	for i := range U {
		if !univ.Same(U[i], fresh[i]) {
			rec.Direct("total", map[string]any{"note": "universe value modified", "index": i}, "after the %s sweeps universe value #%d is %s, it was %s: a builtin wrote into its input", after, i, univ.Show(U[i]), univ.Show(fresh[i]))
			U[i] = fresh[i]
		}
	}
}
