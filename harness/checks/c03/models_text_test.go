// Models of tostring / tojson / tonumber, the @formats and the math functions.
package c03

import (
	"encoding/base64"
	"encoding/json"
	"fmt"
	"math"
	"math/big"
	"strconv"
	"strings"
	"unicode/utf8"

	"pgregory.net/rapid"

	"verif/internal/gen"
	"verif/internal/univ"
)

// jsonModel renders v as the JSON text jq prints (compact, keys sorted,
// shortest round-trip floats, NaN as null, infinities as the largest double —
// manual: "tojson ... dump values as JSON texts", gojq.Marshal doc comment).
// ok is false where the escaping is not pinned (DEL, invalid UTF-8).
func jsonModel(v any) (string, bool) {
	var sb strings.Builder
	ok := jsonInto(&sb, v)
	return sb.String(), ok
}

func jsonInto(sb *strings.Builder, v any) bool {
	switch v := v.(type) {
	case nil:
		sb.WriteString("null")
	case bool:
		sb.WriteString(strconv.FormatBool(v))
	case int:
		sb.WriteString(strconv.Itoa(v))
	case *big.Int:
		sb.WriteString(v.String())
	case json.Number:
		sb.WriteString(string(v))
	case float64:
		switch {
		case math.IsNaN(v):
			sb.WriteString("null")
		case math.IsInf(v, 1):
			sb.WriteString("1.7976931348623157e+308")
		case math.IsInf(v, -1):
			sb.WriteString("-1.7976931348623157e+308")
		default:
			b, err := json.Marshal(v)
			if err != nil {
				return false
			}
			sb.Write(b)
		}
	case string:
		return jsonString(sb, v)
	case []any:
		sb.WriteByte('[')
		for i, x := range v {
			if i > 0 {
				sb.WriteByte(',')
			}
			if !jsonInto(sb, x) {
				return false
			}
		}
		sb.WriteByte(']')
	case map[string]any:
		sb.WriteByte('{')
		for i, k := range sortedKeys(v) {
			if i > 0 {
				sb.WriteByte(',')
			}
			if !jsonString(sb, k) {
				return false
			}
			sb.WriteByte(':')
			if !jsonInto(sb, v[k]) {
				return false
			}
		}
		sb.WriteByte('}')
	default:
		return false
	}
	return true
}

func jsonString(sb *strings.Builder, s string) bool {
	if !utf8.ValidString(s) {
		return false
	}
	sb.WriteByte('"')
	for _, r := range s {
		switch {
		case r == '"':
			sb.WriteString(`\"`)
		case r == '\\':
			sb.WriteString(`\\`)
		case r == '\n':
			sb.WriteString(`\n`)
		case r == '\t':
			sb.WriteString(`\t`)
		case r == '\r':
			sb.WriteString(`\r`)
		case r == '\b':
			sb.WriteString(`\b`)
		case r == '\f':
			sb.WriteString(`\f`)
		case r < 0x20:
			fmt.Fprintf(sb, `\u%04x`, r)
		case r == 0x7f:
			return false
		default:
			sb.WriteRune(r)
		}
	}
	sb.WriteByte('"')
	return true
}

// "tostring: strings are left unchanged, and all other values are
// JSON-encoded"; "tojson ... dump values as JSON texts"; "@text: calls
// tostring"; "@json: serializes the input as JSON".
func mToString(in any, _ []any) mres {
	if s, ok := in.(string); ok {
		return one(s)
	}
	return mToJSON(in, nil)
}

func mToJSON(in any, _ []any) mres {
	s, ok := jsonModel(in)
	if !ok {
		return open("escaping of DEL / invalid UTF-8 (round trip is checked by C12/C13)")
	}
	return one(s)
}

// strict JSON number grammar
func jsonNumber(s string) bool {
	i := 0
	if i < len(s) && s[i] == '-' {
		i++
	}
	digits := func() int {
		n := 0
		for i < len(s) && '0' <= s[i] && s[i] <= '9' {
			i++
			n++
		}
		return n
	}
	if i < len(s) && s[i] == '0' {
		i++
	} else if digits() == 0 {
		return false
	}
	if i < len(s) && s[i] == '.' {
		i++
		if digits() == 0 {
			return false
		}
	}
	if i < len(s) && (s[i] == 'e' || s[i] == 'E') {
		i++
		if i < len(s) && (s[i] == '+' || s[i] == '-') {
			i++
		}
		if digits() == 0 {
			return false
		}
	}
	return i == len(s)
}

// "tonumber: parses its input as a number. It will convert correctly-formatted
// strings to their numeric equivalent, leave numbers alone, and give an error
// on all other input."  Open: strings that are number-like but not JSON
// numbers (".5", "1.", "+1", "01", "nan", blanks).
func mToNumber(in any, _ []any) mres {
	if isNum(in) {
		return one(in)
	}
	s, ok := in.(string)
	if !ok {
		return fail()
	}
	if jsonNumber(s) {
		return one(json.Number(s)) // compared by value
	}
	low := strings.ToLower(strings.Trim(s, " \t\r\n+-"))
	if strings.ContainsAny(s, "0123456789") || low == "nan" || low == "inf" || low == "infinity" {
		return open("number-like string outside the JSON grammar")
	}
	return fail()
}

// cells of a row for @csv / @tsv / @sh
func rowText(v any, nullText string) (string, bool, bool) { // text, isString, ok
	switch x := v.(type) {
	case nil:
		return nullText, false, true
	case string:
		return x, true, true
	case []any, map[string]any:
		return "", false, false
	}
	s, ok := jsonModel(v)
	return s, false, ok
}

func numericOK(v any) bool {
	f, isF := v.(float64)
	return !isF || !(math.IsNaN(f) || math.IsInf(f, 0))
}

// "@csv: The input must be an array, and it is rendered as CSV with double
// quotes for strings, and quotes escaped by repetition." (null: empty field,
// test.yaml "format strings @csv")  Open: NUL in strings, NaN / infinities.
func mCSV(in any, _ []any) mres {
	return rowFormat(in, ",", "", func(s string) string { return `"` + strings.ReplaceAll(s, `"`, `""`) + `"` })
}

// "@tsv: The input must be an array, and it is rendered as TSV (tab-separated
// values). ... Input characters line-feed (ascii 0x0a), carriage-return (ascii
// 0x0d), tab (ascii 0x09) and backslash (ascii 0x5c) will be output as escape
// sequences \n, \r, \t, \\ respectively."
func mTSV(in any, _ []any) mres {
	return rowFormat(in, "\t", "", func(s string) string {
		return strings.NewReplacer("\\", `\\`, "\n", `\n`, "\r", `\r`, "\t", `\t`).Replace(s)
	})
}

// "@sh: The input is escaped suitable for use in a command-line for a POSIX
// shell. If the input is an array, the output will be a series of
// space-separated strings." (manual example: "O'Hara's Ale" => 'O'\''Hara'\''s Ale')
func mSh(in any, _ []any) mres {
	if _, ok := in.([]any); !ok {
		in = []any{in}
	}
	return rowFormat(in, " ", "null", func(s string) string { return "'" + strings.ReplaceAll(s, "'", `'\''`) + "'" })
}

func rowFormat(in any, sep, nullText string, quote func(string) string) mres {
	row, ok := in.([]any)
	if !ok {
		return fail()
	}
	cells := make([]string, len(row))
	for i, v := range row {
		if !numericOK(v) {
			return open("NaN / infinity in a row")
		}
		s, isStr, ok := rowText(v, nullText)
		if !ok {
			if _, isF := v.(float64); isF {
				return open("number text")
			}
			return fail() // "cannot format an array including" an array or object
		}
		if isStr {
			if strings.ContainsRune(s, 0) {
				return open("NUL in a string cell")
			}
			s = quote(s)
		}
		cells[i] = s
	}
	return one(strings.Join(cells, sep))
}

// the text the remaining formats escape: "@text: calls tostring"
func formatText(in any) (string, bool) {
	if s, ok := in.(string); ok {
		return s, true
	}
	return jsonModel(in)
}

// "@html: Applies HTML/XML escaping, by mapping the characters <>&'" to
// their entity equivalents" — test.yaml "format strings @html" pins &apos;.
func mHTML(in any, _ []any) mres {
	s, ok := formatText(in)
	if !ok {
		return open("JSON text")
	}
	return one(strings.NewReplacer("<", "&lt;", ">", "&gt;", "&", "&amp;", "'", "&apos;", `"`, "&quot;").Replace(s))
}

// "@uri: Applies percent-encoding, by mapping all reserved URI characters to
// a %XX sequence" — unreserved are A-Za-z0-9 and -_.~ (test.yaml "format
// strings @uri" pins %27 %28 %29 %2B).
func mURI(in any, _ []any) mres {
	s, ok := formatText(in)
	if !ok {
		return open("JSON text")
	}
	var sb strings.Builder
	for i := 0; i < len(s); i++ {
		c := s[i]
		if 'a' <= c && c <= 'z' || 'A' <= c && c <= 'Z' || '0' <= c && c <= '9' || strings.IndexByte("-_.~", c) >= 0 {
			sb.WriteByte(c)
		} else {
			fmt.Fprintf(&sb, "%%%02X", c)
		}
	}
	return one(sb.String())
}

// "@base64: The input is converted to base64 as specified by RFC 4648."
func mBase64(in any, _ []any) mres {
	s, ok := formatText(in)
	if !ok {
		return open("JSON text")
	}
	return one(base64.StdEncoding.EncodeToString([]byte(s)))
}

// ---------------------------------------------------------------------------
// math: "One-input C math functions ... Two-input ... Three-input"; README:
// "all mathematical functions, including floor and round, convert integers
// to floating-point numbers".  The model is Go's math on the nearest double;
// what it pins is the dispatch, the conversion, the argument order and the
// choice of function.

var math1 = map[string]func(float64) float64{
	"floor": math.Floor, "ceil": math.Ceil, "round": math.Round, "trunc": math.Trunc, "rint": math.RoundToEven, "nearbyint": math.RoundToEven,
	"fabs": math.Abs, "sqrt": math.Sqrt, "cbrt": math.Cbrt, "exp": math.Exp, "exp2": math.Exp2, "exp10": func(x float64) float64 { return math.Pow(10, x) },
	"expm1": math.Expm1, "log": math.Log, "log2": math.Log2, "log10": math.Log10, "log1p": math.Log1p, "logb": math.Logb,
	"sin": math.Sin, "cos": math.Cos, "tan": math.Tan, "asin": math.Asin, "acos": math.Acos, "atan": math.Atan,
	"sinh": math.Sinh, "cosh": math.Cosh, "tanh": math.Tanh, "asinh": math.Asinh, "acosh": math.Acosh, "atanh": math.Atanh,
	"tgamma": math.Gamma, "lgamma": func(x float64) float64 { y, _ := math.Lgamma(x); return y },
	"significand": func(x float64) float64 {
		if x == 0 || math.IsInf(x, 0) || math.IsNaN(x) {
			return x
		}
		return math.Ldexp(x, -int(math.Logb(x))) // C: x * 2^(-ilogb(x))
	},
	"erf": math.Erf, "erfc": math.Erfc, "j0": math.J0, "j1": math.J1, "y0": math.Y0, "y1": math.Y1,
}

var math2 = map[string]func(x, y float64) float64{
	"pow": math.Pow, "atan2": math.Atan2, "fmod": math.Mod, "hypot": math.Hypot, "copysign": math.Copysign, "fdim": math.Dim,
	"nextafter": math.Nextafter, "nexttoward": math.Nextafter, "remainder": math.Remainder, "drem": math.Remainder,
	"ldexp": func(x, e float64) float64 { return math.Ldexp(x, int(e)) }, "scalb": func(x, e float64) float64 { return math.Ldexp(x, int(e)) },
	"scalbln": func(x, e float64) float64 { return math.Ldexp(x, int(e)) },
	"fmin":    func(x, y float64) float64 { return cFminmax(x, y, true) }, "fmax": func(x, y float64) float64 { return cFminmax(x, y, false) },
}

// C fmin/fmax: a NaN operand is ignored
func cFminmax(x, y float64, isMin bool) float64 {
	switch {
	case math.IsNaN(x):
		return y
	case math.IsNaN(y):
		return x
	case isMin:
		return math.Min(x, y)
	}
	return math.Max(x, y)
}

func init() {
	addModel("tostring", "tostring", 0, mToString, nil)
	addModel("tojson", "tojson", 0, mToJSON, nil)
	addModel("fmt/@text", "@text", 0, mToString, nil)
	addModel("fmt/@json", "@json", 0, mToJSON, nil)
	addModel("tonumber", "tonumber", 0, mToNumber, func(t *rapid.T) (any, []any) {
		switch rapid.IntRange(0, 3).Draw(t, "kind") {
		case 0:
			return rapid.SampledFrom([]any{"1", "-1", "0", "-0", "1.5", "1e2", "1E+2", "1e-2", "-1.5e-3", "100000000000000000000", "1e1000", "-1e1000", "0.1", "1.0",
				"9223372036854775807", "9223372036854775808", "", " ", "-", "e", "abc", "true", "null", "[1]", "\"1\"", "1 ", " 1", "+1", ".5", "1.", "01", "nan", "NaN", "infinity", "-Infinity", "0x10", "1e", "1e+", "--1", "1..2", "1,2", "１"}).Draw(t, "s"), nil
		case 1:
			b, _ := univ.JSONText(gen.Number(gen.Opt{Reps: true}).Draw(t, "n"))
			return b, nil
		case 2:
			return gen.Str(4).Draw(t, "s"), nil
		default:
			return gen.Scalar(mOpt).Draw(t, "v"), nil
		}
	})
	rowGen := func(t *rapid.T) (any, []any) {
		n := rapid.IntRange(0, 5).Draw(t, "n")
		row := make([]any, n)
		for i := range row {
			switch rapid.IntRange(0, 8).Draw(t, "kind") {
			case 0:
				row[i] = nil
			case 1:
				row[i] = rapid.Bool().Draw(t, "b")
			case 2, 3:
				row[i] = gen.Number(gen.Opt{Reps: true, Special: true}).Draw(t, "num")
			case 4:
				row[i] = gen.Value(mOpt).Draw(t, "any")
			default:
				row[i] = gen.StrBad(5).Draw(t, "s")
			}
		}
		if rapid.IntRange(0, 6).Draw(t, "scalar") == 0 {
			return gen.Scalar(mOpt).Draw(t, "scalar"), nil
		}
		return row, nil
	}
	strGen := func(t *rapid.T) (any, []any) {
		if rapid.IntRange(0, 3).Draw(t, "nonstr") == 0 {
			return gen.Value(mOpt).Draw(t, "v"), nil
		}
		return gen.StrBad(8).Draw(t, "s"), nil
	}
	addModel("fmt/@csv", "@csv", 0, mCSV, rowGen)
	addModel("fmt/@tsv", "@tsv", 0, mTSV, rowGen)
	addModel("fmt/@sh", "@sh", 0, mSh, rowGen)
	addModel("fmt/@html", "@html", 0, mHTML, strGen)
	addModel("fmt/@uri", "@uri", 0, mURI, strGen)
	addModel("fmt/@base64", "@base64", 0, mBase64, strGen)

	numGen := func(k int) func(t *rapid.T) (any, []any) {
		return func(t *rapid.T) (any, []any) {
			o := gen.Opt{Reps: true, Special: true}
			args := make([]any, k)
			num := func(label string) any {
				if rapid.IntRange(0, 3).Draw(t, label+"edge") == 0 {
					return univ.Copy(rapid.SampledFrom(edgeNumbers).Draw(t, label+"edgeval"))
				}
				return gen.Number(o).Draw(t, label)
			}
			for i := range args {
				args[i] = num("arg")
				if rapid.IntRange(0, 9).Draw(t, "ill") == 0 {
					args[i] = gen.Scalar(mOpt).Draw(t, "illarg")
				}
			}
			return num("in"), args
		}
	}
	names1 := make([]string, 0, len(math1))
	for n := range math1 {
		names1 = append(names1, n)
	}
	sortStrings(names1)
	for _, n := range names1 {
		f := math1[n]
		addModel(n, n, 0, func(in any, _ []any) mres {
			if !isNum(in) {
				return fail()
			}
			return one(f(floatOf(in)))
		}, numGen(0))
	}
	names2 := make([]string, 0, len(math2))
	for n := range math2 {
		names2 = append(names2, n)
	}
	sortStrings(names2)
	for _, n := range names2 {
		f := math2[n]
		addModel(n, n+"($a; $b)", 2, func(_ any, a []any) mres {
			if !isNum(a[0]) || !isNum(a[1]) {
				return fail()
			}
			return one(f(floatOf(a[0]), floatOf(a[1])))
		}, numGen(2))
	}
	addModel("fma", "fma($a; $b; $c)", 3, func(_ any, a []any) mres {
		if !isNum(a[0]) || !isNum(a[1]) || !isNum(a[2]) {
			return fail()
		}
		return one(math.FMA(floatOf(a[0]), floatOf(a[1]), floatOf(a[2])))
	}, numGen(3))
	// "frexp: ... [mantissa, exponent]"; "modf: ... [fractional, integral]"
	addModel("frexp", "frexp", 0, func(in any, _ []any) mres {
		if !isNum(in) {
			return fail()
		}
		m, e := math.Frexp(floatOf(in))
		return one([]any{m, e})
	}, numGen(0))
	addModel("modf", "modf", 0, func(in any, _ []any) mres {
		if !isNum(in) {
			return fail()
		}
		x := floatOf(in)
		if math.IsInf(x, 0) {
			return one([]any{math.Copysign(0, x), x}) // C: modf(+-inf) is +-0 and stores +-inf
		}
		i, f := math.Modf(x)
		return one([]any{f, i})
	}, numGen(0))
}

// edgeNumbers: the magnitude-boundary integers in every exact representation
// and the doubles next to them; the expected double of an integer is always
// computed with math/big (floatOf), never with gojq.
var edgeNumbers = append(boundaryPool(), 9007199254740992.0, 9007199254740994.0, 1e22, 1e23, 8.98846567431158e307, 1e308, math.MaxFloat64, -math.MaxFloat64,
	math.Inf(1), math.Inf(-1), 1.0715086071862673e301, json.Number("1e308"), json.Number("1.7976931348623157e308"), json.Number("1e309"), json.Number("8.98846567431158e307"))

func sortStrings(s []string) {
	for i := 1; i < len(s); i++ {
		for j := i; j > 0 && s[j] < s[j-1]; j-- {
			s[j], s[j-1] = s[j-1], s[j]
		}
	}
}
