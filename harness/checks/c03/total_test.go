// Relation 1 — totality.  Every call `$in | f($a; $b; ...)` yields values of
// the supported Go types or a catchable error; it never panics (run.Exec
// reports Panic) and never hangs (step and output budgets).  "Catchable" is
// checked by construction: `try (CALL) catch MARK` must emit exactly the
// outputs seen before the error, then MARK, and end without error.
package c03

import (
	"fmt"
	"strings"
	"testing"

	"github.com/itchyny/gojq"
	"pgregory.net/rapid"

	"verif/internal/gen"
	"verif/internal/run"
	"verif/internal/univ"
)

const caughtMark = "caught#c03#marker"

// outcome of one call: "values", "empty", "error", "budget", "guard".
func totalOutcome(s *spec, in any, args []arg) (string, string) {
	if g := guard(s, in, args); g != "" {
		return "guard", ""
	}
	q := s.query(args)
	code, err := compile(q)
	if err != nil {
		return "", fmt.Sprintf("%s is listed by `builtins` but %q does not compile: %v", s.ID, q, err)
	}
	vs := values(args)
	res := exec(code, in, vs)
	if res.Panic != "" {
		return "", fmt.Sprintf("%q panicked: %s", q, res.Panic)
	}
	if res.Budget {
		return "budget", ""
	}
	for _, v := range res.Vals {
		if !univ.Valid(v) {
			return "", fmt.Sprintf("%q emitted a value outside the supported Go types: %s", q, univ.Show(v))
		}
	}
	if res.Err == nil {
		if len(res.Vals) == 0 {
			return "empty", ""
		}
		return "values", ""
	}
	if _, ok := res.Err.(*gojq.HaltError); ok {
		return "", fmt.Sprintf("%q raised a halt error (not catchable): %v", q, res.Err)
	}
	tq := "try (" + q + ") catch " + fmt.Sprintf("%q", caughtMark)
	tcode, err := compile(tq)
	if err != nil {
		return "", fmt.Sprintf("%q does not compile: %v", tq, err)
	}
	r2 := run.Exec(tcode, in, 3*stepBudget, outBudget+2, vs...)
	if r2.Panic != "" {
		return "", fmt.Sprintf("%q panicked: %s", tq, r2.Panic)
	}
	if r2.Budget {
		return "budget", ""
	}
	if r2.Err != nil {
		return "", fmt.Sprintf("error of %q is not catchable: try ... catch let %T %q through", q, r2.Err, r2.Err.Error())
	}
	if len(r2.Vals) != len(res.Vals)+1 || !univ.Same(r2.Vals[len(r2.Vals)-1], caughtMark) || !univ.EqualStreams(r2.Vals[:len(res.Vals)], res.Vals) {
		return "", fmt.Sprintf("%q gave %s then error %q, but under try/catch it gave %s", q, univ.ShowAll(res.Vals), res.Err.Error(), univ.ShowAll(r2.Vals))
	}
	return "error", ""
}

func checkTotal(c callCase) string {
	s := specByID[c.Spec]
	if s == nil {
		return "unknown spec " + c.Spec
	}
	_, msg := totalOutcome(s, c.In.X, c.Args)
	return msg
}

// ---------------------------------------------------------------------------
// sweeps

// sweepCase names the whole sweep of one spec (journalled so that a process
// death is attributed; replaying it reruns the sweep).
type sweepCase struct {
	Spec  string `json:"spec"`
	Count int    `json:"count"` // 0: exhaustive
	Seed  int64  `json:"seed"`
}

// tuples enumerates (count == 0) or samples (count > 0) the argument tuples
// of s over the universe (and the filter pool for filter parameters).
func tuples(s *spec, si int, count int, seed int64, visit func(in any, args []arg)) {
	opts := make([][]arg, s.Arity)
	for p := range opts {
		opts[p] = options(s, p)
	}
	args := make([]arg, s.Arity)
	if count == 0 {
		var walk func(in any, p int)
		walk = func(in any, p int) {
			if p == s.Arity {
				visit(in, args)
				return
			}
			for _, o := range opts[p] {
				args[p] = o
				walk(in, p+1)
			}
		}
		for _, in := range U {
			walk(in, 0)
		}
		return
	}
	for k := 0; k < count; k++ {
		in := U[pickIndex(seed, len(U), si, k, 0)]
		for p := range args {
			args[p] = opts[p][pickIndex(seed, len(opts[p]), si, k, p+1)]
		}
		visit(in, args)
	}
}

func pickIndex(seed int64, n int, parts ...int) int {
	h := uint64(seed)*0x9e3779b97f4a7c15 + 0x1234567
	for _, p := range parts {
		h ^= uint64(p) + 0x9e3779b97f4a7c15 + (h << 6) + (h >> 2)
		h *= 0xbf58476d1ce4e5b9
		h ^= h >> 31
	}
	return int(h % uint64(n))
}

func sweepCount(s *spec) int {
	switch {
	case s.Arity <= 1:
		return 0
	case s.Arity == 2:
		return rec.Scale(30000, 0)
	default:
		return rec.Scale(15000, 400000)
	}
}

func replaySweep(c sweepCase) string {
	s := specByID[c.Spec]
	if s == nil {
		return "unknown spec " + c.Spec
	}
	si := 0
	for i, x := range specs {
		if x == s {
			si = i
		}
	}
	first := ""
	tuples(s, si, c.Count, c.Seed, func(in any, args []arg) {
		if first != "" {
			return
		}
		if _, msg := totalOutcome(s, in, args); msg != "" {
			first = fmt.Sprintf("in=%s args=%v: %s", univ.Show(in), argKeys(args), msg)
		}
	})
	return first
}

func argKeys(args []arg) []string {
	ks := make([]string, len(args))
	for i, a := range args {
		ks[i] = argKey(a)
	}
	return ks
}

func cloneArgs(args []arg) []arg { return append([]arg(nil), args...) }

// cell index of a call for the coverage matrix (arity <= 2): input type x
// argument types (7th argument type: a pool filter).
func cellIndex(in any, args []arg) int {
	i := typeIdx(in)
	for _, a := range args {
		k := 6
		if a.F == "" {
			k = typeIdx(a.value())
		}
		i = i*7 + k
	}
	return i
}

func runTotal(t *testing.T) {
	// Ownership: a whole arity-0/1 callable, or one (callable, input type)
	// block of an arity-2 callable, belongs to one shard, so that the shard can
	// publish the complete row of the cell matrix under its own evidence key
	// (the driver keeps the first value of a key); arity >= 3 is sharded by
	// tuple and has no matrix.
	n := 0
	complete := true
	for si, s := range specs {
		if why, ok := excludedNames[s.Name]; ok {
			rec.Excluded("outside-property/" + s.ID + " (" + why + ")")
			continue
		}
		count := sweepCount(s)
		width := 1
		for i := 0; i < s.Arity; i++ {
			width *= 7
		}
		var rows [6][]byte
		owned := func(ti int) bool {
			switch {
			case s.Arity <= 1:
				return rec.Mine(si)
			case s.Arity == 2:
				return rec.Mine(1000 + si*6 + ti)
			}
			return false
		}
		journalled := false
		tuples(s, si, count, rec.Seed, func(in any, args []arg) {
			ti := typeIdx(in)
			if s.Arity <= 2 {
				if !owned(ti) {
					return
				}
				n++
			} else {
				n++
				if !rec.Mine(n) {
					return
				}
			}
			if !journalled {
				rec.Journal("total-sweep", sweepCase{Spec: s.ID, Count: count, Seed: rec.Seed})
				journalled = true
			}
			rec.Eval()
			out, msg := totalOutcome(s, in, args)
			if msg != "" {
				complete = false
				if rec.Violations() < 25 {
					rec.Direct("total", callCase{Spec: s.ID, In: univ.V{X: in}, Args: cloneArgs(args)}, "%s", msg)
				}
				return
			}
			switch out {
			case "guard":
				rec.Discard("total/guarded")
				return
			case "budget":
				rec.Discard("total/budget")
				rec.Class("total/budget/" + s.ID)
				return
			}
			rec.Class(fmt.Sprintf("total/arity%d/%s", s.Arity, out))
			kinds := make([]string, 0, 4)
			kinds = append(kinds, kindOf(in))
			for _, a := range args {
				kinds = append(kinds, argKind(a))
			}
			rec.NT("total|" + s.ID + "|" + strings.Join(kinds, ",") + "|" + out)
			if s.Arity <= 2 {
				if rows[ti] == nil {
					rows[ti] = make([]byte, width)
				}
				f := byte(1)
				if out == "error" {
					f = 2
				} else if out == "empty" {
					f = 4
				}
				rows[ti][cellIndex(nil, args)] |= f
			}
			if n%9973 == 0 {
				rec.Sample(map[string]any{"sub": "total", "query": s.query(args), "in": univ.Show(in), "args": argKeys(args), "outcome": out})
			}
		})
		if s.Arity > 2 {
			continue
		}
		text := func(row []byte) string {
			if row == nil {
				row = make([]byte, width)
			}
			out := make([]byte, len(row))
			for i, b := range row {
				out[i] = '.'
				if b != 0 {
					out[i] = '0' + b
				}
			}
			return string(out)
		}
		if s.Arity <= 1 {
			if rec.Mine(si) {
				parts := make([]string, 6)
				for ti := range rows {
					parts[ti] = text(rows[ti])
				}
				rec.Extra("cells/"+s.ID, strings.Join(parts, " "))
			}
			continue
		}
		for ti := range rows {
			if owned(ti) {
				rec.Extra("cells/"+s.ID+"|"+jqTypes[ti], text(rows[ti]))
			}
		}
	}
	rec.Exhaustive("totality: all tuples of the 63-value universe for every arity-0/1 callable"+map[bool]string{true: " and every arity-2 callable", false: ""}[rec.Thorough()], complete)
	rec.Extra("cells_legend", "cell coverage of the totality sweep. Key cells/<callable> (arity 0/1): six groups, one per input type in the order null boolean number string array object; key cells/<callable>|<input type> (arity 2): one group. A group has one character per tuple of argument types in row-major order over [null boolean number string array object filter] (arity 0: one character). '.' = no call judged in this cell (not sampled, guarded or over budget), otherwise '0'+flags: 1 = some call returned values, 2 = some call raised an error that was proven catchable, 4 = some call returned empty")

	// random larger values
	valGen := gen.Value(gen.Opt{Reps: true, Special: true, BadUTF8: true, MaxDepth: 2, MaxWidth: 3})
	var live []*spec
	for _, s := range specs {
		if _, ok := excludedNames[s.Name]; !ok {
			live = append(live, s)
		}
	}
	rec.Rapid(t, "total-random", rec.Scale(300000, 1500000), func(t *rapid.T) {
		s := live[rapid.IntRange(0, len(live)-1).Draw(t, "spec")]
		in := valGen.Draw(t, "in")
		args := make([]arg, s.Arity)
		for p := range args {
			args[p] = genArg(t, s, p, valGen)
		}
		c := callCase{Spec: s.ID, In: univ.V{X: in}, Args: args}
		rec.Eval()
		out, msg := totalOutcome(s, in, args)
		if msg != "" {
			t.Fatalf("%s", rec.Fail("total-random", c, "%s", msg))
		}
		switch out {
		case "guard":
			rec.Discard("total/guarded")
			return
		case "budget":
			rec.Discard("total/budget")
			return
		}
		rec.Class("total-random/" + out)
		rec.NT("totalr|" + s.ID + "|" + univ.Show(in) + "|" + strings.Join(argKeys(args), "|"))
		rec.Sample(map[string]any{"sub": "total-random", "query": s.query(args), "in": univ.Show(in), "args": argKeys(args), "outcome": out})
	})
}

// interesting argument values for the random part: regexes, flags, time and
// @format names, paths, small numbers.
var argPool = []any{"g", "gi", "x", "n", "i", "^a", "a+", "(a)(b)?", "(?<x>a)|b", "[", "\\d+", ".", "", ", ", "%Y-%m-%dT%H:%M:%SZ", "%s", "%", "%A, %B %d, %Y",
	"csv", "json", "text", "base64", "base32d", "2015-03-05T23:51:47Z", []any{}, []any{"a"}, []any{0}, []any{"a", 0}, []any{map[string]any{"start": 0, "end": 1}},
	[]any{[]any{0}}, []any{[]any{"a"}, []any{"b"}}, 0, 1, -1, 2, 1.5, -0.5, 3, 1000}

func genArg(t *rapid.T, s *spec, pos int, valGen *rapid.Generator[any]) arg {
	k := rapid.IntRange(0, 9).Draw(t, "argkind")
	if pos < len(s.Closure) && s.Closure[pos] && k < 5 {
		return flt(rapid.SampledFrom(filterPool).Draw(t, "filter"))
	}
	switch {
	case k < 7:
		return val(valGen.Draw(t, "arg"))
	case k < 9:
		return val(univ.Copy(rapid.SampledFrom(argPool).Draw(t, "pooled")))
	default:
		return val(rapid.SampledFrom(U).Draw(t, "u"))
	}
}
