// Further small models: abs, toboolean, type, the number classifiers, the
// trim family, sort / unique, explode / implode.
package c03

import (
	"math"
	"math/big"
	"sort"
	"strings"
	"unicode"
	"unicode/utf8"

	"pgregory.net/rapid"

	"verif/internal/gen"
)

// "abs: The builtin function abs is defined naively as: if . < 0 then - . else . end"
// (jq manual; test.yaml "abs function").
func mAbs(in any, _ []any) mres {
	if !isNum(in) {
		return open("abs of a non-number (jq 1.7.1 returns it unchanged, jq 1.8 and gojq raise an error)")
	}
	if x, ok := exactInt(in); ok {
		return one(new(big.Int).Abs(x))
	}
	return one(math.Abs(floatOf(in)))
}

// "toboolean: parses its input as a boolean. It will convert correctly-
// formatted strings ("true", "false") to their boolean equivalent, leave
// booleans alone, and give an error on all other input."
func mToBoolean(in any, _ []any) mres {
	switch v := in.(type) {
	case bool:
		return one(v)
	case string:
		if v == "true" || v == "false" {
			return one(v == "true")
		}
	}
	return fail()
}

// "type: returns the type of its argument as a string, which is one of null,
// boolean, number, string, array or object."
func mType(in any, _ []any) mres { return one(jqTypes[typeIdx(in)]) }

// "isinfinite, isnan, isnormal": open for non-numbers (jq: error, gojq: false).
func classifier(f func(float64) bool) func(in any, _ []any) mres {
	return func(in any, _ []any) mres {
		if !isNum(in) {
			return open("classifier on a non-number")
		}
		return one(f(floatOf(in)))
	}
}

func isNormal(x float64) bool {
	return !(x == 0 || math.IsNaN(x) || math.IsInf(x, 0) || math.Abs(x) < 2.2250738585072014e-308)
}

// "trim, ltrim, rtrim: trim whitespace from both ends / the left / the right;
// error for non-strings" (jq 1.7.1).  Open: a non-ASCII space at the cut
// (jq: isspace, gojq: unicode.IsSpace).
func trimModel(left, right bool) func(in any, _ []any) mres {
	const ws = " \t\n\v\f\r"
	return func(in any, _ []any) mres {
		s, ok := in.(string)
		if !ok {
			return fail()
		}
		if !utf8.ValidString(s) {
			return open("invalid UTF-8")
		}
		if left {
			s = strings.TrimLeft(s, ws)
			if r, _ := utf8.DecodeRuneInString(s); s != "" && unicode.IsSpace(r) {
				return open("non-ASCII space")
			}
		}
		if right {
			s = strings.TrimRight(s, ws)
			if r, _ := utf8.DecodeLastRuneInString(s); s != "" && unicode.IsSpace(r) {
				return open("non-ASCII space")
			}
		}
		return one(s)
	}
}

// "sort: sorts its input, which must be an array" in the documented order;
// "unique: produces an array of the same elements, in sorted order, with
// duplicates removed".
func mSort(in any, _ []any) mres {
	vs, ok := in.([]any)
	if !ok {
		return fail()
	}
	out := append([]any{}, vs...)
	sort.SliceStable(out, func(i, j int) bool { return jqCmp(out[i], out[j]) < 0 })
	return one(out)
}

func mUnique(in any, _ []any) mres {
	r := mSort(in, nil)
	if r.err {
		return r
	}
	out := []any{}
	for _, v := range r.out[0].([]any) {
		if len(out) == 0 || jqCmp(out[len(out)-1], v) != 0 {
			out = append(out, v)
		}
	}
	return one(out)
}

// "explode: Converts an input string into an array of the string's codepoint
// numbers. implode: The inverse of explode."
func mExplode(in any, _ []any) mres {
	s, ok := in.(string)
	if !ok {
		return fail()
	}
	if !utf8.ValidString(s) {
		return open("invalid UTF-8")
	}
	out := []any{}
	for _, r := range s {
		out = append(out, int(r))
	}
	return one(out)
}

func mImplode(in any, _ []any) mres {
	vs, ok := in.([]any)
	if !ok {
		return fail()
	}
	var sb strings.Builder
	for _, v := range vs {
		if !isNum(v) {
			return fail()
		}
		i, ok := smallIndex(v, 0x10FFFF)
		if !ok || i < 0 || (0xD800 <= i && i <= 0xDFFF) {
			return open("not a Unicode scalar value")
		}
		sb.WriteRune(rune(i))
	}
	return one(sb.String())
}

func init() {
	addModel("abs", "abs", 0, mAbs, nil)
	addModel("toboolean", "toboolean", 0, mToBoolean, func(t *rapid.T) (any, []any) {
		return rapid.SampledFrom([]any{"true", "false", "True", "", "1", true, false, nil, 0, 1, "truefalse", " true", []any{true}}).Draw(t, "v"), nil
	})
	addModel("type", "type", 0, mType, nil)
	addModel("isinfinite", "isinfinite", 0, classifier(func(x float64) bool { return math.IsInf(x, 0) }), nil)
	addModel("isnan", "isnan", 0, classifier(math.IsNaN), nil)
	addModel("isnormal", "isnormal", 0, classifier(isNormal), func(t *rapid.T) (any, []any) {
		return rapid.SampledFrom([]any{0, 1, 0.0, 5e-324, 2.2250738585072014e-308, 2.225073858507201e-308, 1e-310, -1e-310, math.MaxFloat64, math.Inf(1), math.NaN(), big.NewInt(0), bigOf("100000000000000000000")}).Draw(t, "v"), nil
	})
	spaces := func(t *rapid.T) (any, []any) {
		pieces := []string{" ", "\t", "\n", "\r", "\v", "\f", "a", "b", "\u00a0", "é", "\u2003", "\u0085", "x y"}
		n := rapid.IntRange(0, 7).Draw(t, "n")
		var sb strings.Builder
		for i := 0; i < n; i++ {
			sb.WriteString(rapid.SampledFrom(pieces).Draw(t, "p"))
		}
		return sb.String(), nil
	}
	addModel("trim", "trim", 0, trimModel(true, true), spaces)
	addModel("ltrim", "ltrim", 0, trimModel(true, false), spaces)
	addModel("rtrim", "rtrim", 0, trimModel(false, true), spaces)
	addModel("sort", "sort", 0, mSort, genArrayForOrder)
	addModel("unique", "unique", 0, mUnique, genArrayForOrder)
	addModel("explode", "explode", 0, mExplode, nil)
	addModel("implode", "implode", 0, mImplode, func(t *rapid.T) (any, []any) {
		n := rapid.IntRange(0, 5).Draw(t, "n")
		arr := make([]any, n)
		for i := range arr {
			arr[i] = rapid.SampledFrom([]any{65, 0, 233, 0x1F600, 0x10FFFF, 0x110000, 0xD800, -1, 65.5, big.NewInt(66), "a", nil, 0x3042, 10, 127}).Draw(t, "cp")
		}
		return arr, nil
	})
	_ = gen.Str
}
