// ILL-FORMED UTF-8: Go strings with lone continuation / lead bytes, truncated
// sequences, overlongs, surrogates and 0xff reach gojq through @base64d, -R,
// --arg and the Go API.  For every string builtin: totality (utf8-total),
// the spec models where they are defined on bytes (utf8-model), and the
// code-point-level relations (utf8-rel):
//
//	length == explode|length == number of runes when every ill-formed byte counts as one;
//	explode|implode re-encodes every ill-formed byte as U+FFFD;
//	utf8bytelength == number of bytes;
//	slicing / indexing agree with explode, and .[:k] + .[k:] is the string, byte for byte;
//	ascii_downcase / ascii_upcase change only A-Z / a-z, every other byte is kept
//	  (finding C03.F1, fixed in 723377c);
//	tojson is valid UTF-8 and valid JSON and reads back as explode|implode;
//	@base64|@base64d and @uri|@urid are the identity on BYTES; split|join, l/rtrimstr,
//	startswith/endswith, indices, comparison, tostring work on the bytes.
package c03

import (
	"encoding/json"
	"fmt"
	"strings"
	"testing"
	"unicode/utf8"

	"pgregory.net/rapid"

	"verif/internal/gen"
	"verif/internal/univ"
)

var badPieces = []string{"\x80", "\xbf", "\xc3", "\xe3\x81", "\xf0\x9f\x98", "\xc0\x80", "\xed\xa0\x80", "\xff"}
var goodPieces = []string{"a", "Z", "é", "あ", "😀", ",", " ", "b"}

var badStrings = func() []string {
	var out []string
	for i, b := range badPieces {
		g, h := goodPieces[i%len(goodPieces)], goodPieces[(i+3)%len(goodPieces)]
		out = append(out, b, b+g, g+b, g+b+h, b+b, b+badPieces[(i+1)%len(badPieces)], "A"+b+"Z"+b, h+g+b+","+b+g)
	}
	out = append(out, "a\xc3", "\xa9b", "\xc3\xa9", "\xe3\x81\x82\xe3\x81", "\xf0\x9f\x98\x80\x80", "ABC\xffdef\xfeGHI", "\xff,\xff,\xff", " \xff ", "\xef\xbf\xbd\xff")
	// long ones: ill-formed bytes spread non-periodically over ASCII and multi-byte text
	for _, n := range []int{33, 100, 4097} {
		var sb strings.Builder
		for i := 0; i < n; i++ {
			k := np(i)
			if k%7 == 0 {
				sb.WriteString(badPieces[k%len(badPieces)])
			} else {
				sb.WriteString(goodPieces[k%len(goodPieces)])
			}
		}
		out = append(out, sb.String())
	}
	return out
}()

func asciiBytes(s string, up bool) string {
	b := []byte(s)
	for i, c := range b {
		if up && 'a' <= c && c <= 'z' {
			b[i] = c - 32
		} else if !up && 'A' <= c && c <= 'Z' {
			b[i] = c + 32
		}
	}
	return string(b)
}

func sameRunes(a, b string) bool { return string([]rune(a)) == string([]rune(b)) }

type utf8Rel struct {
	id    string
	q     string
	r     string // non-empty: a second query that must give the same outputs
	arg   func(s string) []any
	check func(s string, a any, out []any) string
}

func strOut(out []any, n int) ([]string, string) {
	if len(out) != 1 {
		return nil, fmt.Sprintf("expected one output, got %s", clip(univ.ShowAll(out)))
	}
	arr, ok := out[0].([]any)
	if !ok {
		arr = []any{out[0]}
	}
	if len(arr) != n {
		return nil, fmt.Sprintf("expected %d values, got %s", n, clip(univ.Show(out[0])))
	}
	ss := make([]string, n)
	for i, x := range arr {
		s, ok := x.(string)
		if !ok {
			return nil, fmt.Sprintf("value %d is %s, not a string", i, clip(univ.Show(x)))
		}
		ss[i] = s
	}
	return ss, ""
}

func cutPoints(s string) []any {
	n := utf8.RuneCountInString(s)
	return []any{0, 1, n / 2, n - 1, n, -1, 2}
}

var utf8Rels = []utf8Rel{
	{id: "length", q: "[length, (explode | length), utf8bytelength]", check: func(s string, _ any, out []any) string {
		want := []any{utf8.RuneCountInString(s), utf8.RuneCountInString(s), len(s)}
		if len(out) != 1 || !univ.Equal(out[0], want) {
			return fmt.Sprintf("got %s, want %s", univ.ShowAll(out), univ.Show(want))
		}
		return ""
	}},
	{id: "explode|implode", q: "explode | implode", check: func(s string, _ any, out []any) string {
		ss, msg := strOut(out, 1)
		if msg != "" {
			return msg
		}
		if ss[0] != string([]rune(s)) {
			return fmt.Sprintf("got %q, every ill-formed byte re-encoded as U+FFFD gives %q", ss[0], string([]rune(s)))
		}
		return ""
	}},
	{id: "slice bytes", q: "[.[:$a], .[$a:]]", arg: cutPoints, check: func(s string, _ any, out []any) string {
		ss, msg := strOut(out, 2)
		if msg != "" {
			return msg
		}
		if ss[0]+ss[1] != s {
			return fmt.Sprintf(".[:k] + .[k:] is %q, not the string", ss[0]+ss[1])
		}
		return ""
	}},
	{id: "slice vs explode", q: "[(.[:$a] | explode), (.[$a:] | explode), (.[$a:$a + 2] | explode)]", r: "explode | [.[:$a], .[$a:], .[$a:$a + 2]]", arg: cutPoints},
	{id: "index vs explode", q: "[range(length) as $i | (.[$i] | explode)]", r: "[explode[] | [.]]"},
	{id: "ascii case", q: "[ascii_downcase, ascii_upcase]", check: func(s string, _ any, out []any) string {
		ss, msg := strOut(out, 2)
		if msg != "" {
			return msg
		}
		if !sameRunes(ss[0], asciiBytes(s, false)) || !sameRunes(ss[1], asciiBytes(s, true)) {
			return fmt.Sprintf("got %q / %q, the byte-wise conversion is %q / %q (compared code point by code point)", ss[0], ss[1], asciiBytes(s, false), asciiBytes(s, true))
		}
		return ""
	}},
	// byte for byte (known finding C03.F1, fixed in 723377c)
	{id: "ascii case bytes", q: "[ascii_downcase, ascii_upcase]", check: func(s string, _ any, out []any) string {
		ss, msg := strOut(out, 2)
		if msg != "" {
			return msg
		}
		if ss[0] != asciiBytes(s, false) || ss[1] != asciiBytes(s, true) {
			return fmt.Sprintf("got %q / %q: bytes other than A-Z / a-z were changed (want %q / %q)", ss[0], ss[1], asciiBytes(s, false), asciiBytes(s, true))
		}
		return ""
	}},
	{id: "tojson", q: "[tojson, ([.] | tojson), ({(.): .} | tojson), @json]", check: func(s string, _ any, out []any) string {
		ss, msg := strOut(out, 4)
		if msg != "" {
			return msg
		}
		want := string([]rune(s))
		for i, text := range ss {
			if !utf8.ValidString(text) || !json.Valid([]byte(text)) {
				return fmt.Sprintf("output %d %q is not valid UTF-8 JSON", i, text)
			}
			var v any
			if err := json.Unmarshal([]byte(text), &v); err != nil {
				return err.Error()
			}
			var back string
			switch x := v.(type) {
			case string:
				back = x
			case []any:
				back, _ = x[0].(string)
			case map[string]any:
				back, _ = x[want].(string)
			}
			if back != want {
				return fmt.Sprintf("output %d %q reads back as %q, want %q", i, text, back, want)
			}
		}
		return ""
	}},
	{id: "tojson|fromjson", q: "tojson | fromjson", r: "explode | implode"},
	{id: "byte round trips", q: `[(@base64 | @base64d), (@uri | @urid), (split("") | join("")), (split(",") | join(",")), tostring, @text, ([.] | add), (. + ""), ([.] | join("")), ([., .] | min), (. / "\u0001" | join("\u0001"))]`,
		check: func(s string, _ any, out []any) string {
			ss, msg := strOut(out, 11)
			if msg != "" {
				return msg
			}
			for i, x := range ss {
				if x != s {
					return fmt.Sprintf("identity %d gives %q", i, x)
				}
			}
			return ""
		}},
	{id: "trimstr bytes", q: "[ltrimstr(.[:2]), rtrimstr(.[-2:]), startswith(.[:2]), endswith(.[-2:]), contains(.[1:3]), (.[1:3] | inside($a))]", r: "[.[2:], .[:-2], true, true, true, true]",
		arg: func(s string) []any { return []any{s} }},
	{id: "indices vs explode", q: "[indices($a), index($a), rindex($a)]", r: "explode | [indices($a | explode), index($a | explode), rindex($a | explode)]",
		arg: func(s string) []any { return []any{"\xff", "a", "\x80", ",", "é", "\xc3"} }},
	{id: "order", q: "[. == ., ([., .] | unique | length), (. < .), (. as $s | [$s] | sort | .[0] == $s), ([.] | index($a)), ({(.): 1} | has($a))]", r: "[true, 1, false, true, 0, true]",
		arg: func(s string) []any { return []any{s} }},
}

type utf8Case struct {
	Rel string `json:"rel"`
	In  univ.V `json:"in"`
	Arg univ.V `json:"arg"`
}

func checkUTF8(c utf8Case) string {
	relJudged = false
	s, ok := c.In.X.(string)
	if !ok {
		return "bad case"
	}
	for _, rel := range utf8Rels {
		if rel.id != c.Rel {
			continue
		}
		var msg string
		withBudget(bigSteps, bigOuts, func() {
			if rel.r != "" {
				msg = checkRelQueries(rel.id, rel.q, rel.r, s, c.Arg.X)
				return
			}
			code, err := compile(rel.q)
			if err != nil {
				msg = fmt.Sprintf("%q does not compile: %v", rel.q, err)
				return
			}
			res := exec(code, s, []any{c.Arg.X, nil, nil, nil})
			switch {
			case res.Panic != "":
				msg = fmt.Sprintf("%q panicked: %s", rel.q, res.Panic)
			case res.Budget:
				rec.Discard("utf8-rel/budget")
			case res.Err != nil:
				msg = fmt.Sprintf("%q raised %q", rel.q, res.Err)
			default:
				if m := rel.check(s, c.Arg.X, res.Vals); m != "" {
					msg = fmt.Sprintf("%s: %s", rel.q, clip(m))
				} else {
					relJudged = true
				}
			}
		})
		if msg != "" {
			return fmt.Sprintf("ill-formed UTF-8 relation %s on %q (arg %s): %s", rel.id, clipq(s), clip(univ.Show(c.Arg.X)), msg)
		}
		return ""
	}
	return "unknown relation " + c.Rel
}

func clipq(s string) string {
	if len(s) > 120 {
		return s[:120] + "..."
	}
	return s
}

func utf8Args(rel utf8Rel, s string) []any {
	if rel.arg == nil {
		return []any{nil}
	}
	return rel.arg(s)
}

func runUTF8(t *testing.T) {
	n := 0
	// relations
	for _, rel := range utf8Rels {
		for _, s := range badStrings {
			for _, a := range utf8Args(rel, s) {
				n++
				if !rec.Mine(n) {
					continue
				}
				c := utf8Case{Rel: rel.id, In: univ.V{X: s}, Arg: univ.V{X: a}}
				rec.Eval()
				if msg := checkUTF8(c); msg != "" {
					if rec.Violations() < 25 {
						rec.Direct("utf8-rel", c, "%s", msg)
					}
					continue
				}
				if relJudged {
					rec.Class("utf8-rel/judged")
					rec.NT("utf8-rel|" + rel.id + "|" + univ.Show(s) + "|" + univ.Show(a))
				}
			}
		}
	}
	// totality and models
	strArgs := func(s string) []any {
		return []any{"\xff", "a", "", s, s[:len(s)/2], 0, 1, ","}
	}
	withBudget(bigSteps, bigOuts, func() {
		for _, s := range specs {
			if _, ok := excludedNames[s.Name]; ok || s.Arity > 2 {
				continue
			}
			for _, in := range badStrings {
				var tuples [][]arg
				switch s.Arity {
				case 0:
					tuples = [][]arg{nil}
				case 1:
					for _, a := range strArgs(in) {
						tuples = append(tuples, []arg{val(a)})
					}
					if s.Closure[0] {
						tuples = append(tuples, []arg{flt(".")}, []arg{flt("explode?")})
					}
				default:
					tuples = [][]arg{{val("\xff"), val(in)}, {val(in), val("g")}, {val(1), val(3)}, {val(","), val("\x80")}}
				}
				for ti, args := range tuples {
					n++
					if !rec.Mine(n) || (len(in) > 1000 && !rec.Thorough() && !pick(rec.Seed, 1, 3, n)) {
						continue
					}
					rec.Eval()
					var out, msg string
					if len(in) > 1000 {
						out, msg = totalOutcome(s, in, args)
					} else {
						withBudget(30000, 120, func() { out, msg = totalOutcome(s, in, args) })
					}
					if msg != "" {
						if rec.Violations() < 25 {
							rec.Direct("utf8-total", callCase{Spec: s.ID, In: univ.V{X: in}, Args: args, Big: true}, "%s", clip(msg))
						}
						continue
					}
					if out == "guard" || out == "budget" {
						rec.Discard("utf8-total/" + out)
						continue
					}
					rec.Class("utf8-total/" + out)
					rec.NT(fmt.Sprintf("utf8-total|%s|%s|%d", s.ID, univ.Show(in), ti))
				}
			}
		}
		for _, m := range models {
			if m.arity > 1 {
				continue
			}
			for _, in := range badStrings {
				tuples := [][]any{nil}
				if m.arity == 1 {
					tuples = nil
					for _, a := range strArgs(in) {
						tuples = append(tuples, []any{a})
					}
				}
				for ti, args := range tuples {
					n++
					if !rec.Mine(n) {
						continue
					}
					c := mcase(m, in, args)
					rec.Eval()
					if msg := checkModel(c); msg != "" {
						if rec.Violations() < 25 {
							rec.Direct("utf8-model", c, "%s", clip(msg))
						}
						continue
					}
					if judged {
						rec.Class("utf8-model/judged")
						rec.NT(fmt.Sprintf("utf8-model|%s|%s|%d", m.id, univ.Show(in), ti))
					}
				}
			}
		}
	})
	rec.Extra("ill_formed_strings", len(badStrings))
	// random ill-formed strings through the relations
	live := utf8Rels
	rec.Rapid(t, "utf8-rel-random", rec.Scale(30000, 400000), func(t *rapid.T) {
		rel := live[rapid.IntRange(0, len(live)-1).Draw(t, "rel")]
		s := gen.StrBad(10).Draw(t, "s")
		if rapid.Bool().Draw(t, "pieces") {
			var sb strings.Builder
			k := rapid.IntRange(1, 8).Draw(t, "k")
			for i := 0; i < k; i++ {
				if rapid.Bool().Draw(t, "bad") {
					sb.WriteString(rapid.SampledFrom(badPieces).Draw(t, "bp"))
				} else {
					sb.WriteString(rapid.SampledFrom(goodPieces).Draw(t, "gp"))
				}
			}
			s = sb.String()
		}
		if s == "" {
			s = "\xff"
		}
		args := utf8Args(rel, s)
		c := utf8Case{Rel: rel.id, In: univ.V{X: s}, Arg: univ.V{X: args[rapid.IntRange(0, len(args)-1).Draw(t, "arg")]}}
		rec.Eval()
		rec.Sample(map[string]any{"sub": "utf8-rel-random", "rel": rel.id, "in": univ.Show(s)})
		if msg := checkUTF8(c); msg != "" {
			t.Fatalf("%s", rec.Fail("utf8-rel-random", c, "%s", msg))
		}
		if relJudged {
			rec.Class("utf8-rel/judged")
			rec.NT("utf8-rel|" + rel.id + "|" + univ.Show(s) + "|" + univ.Show(c.Arg.X))
		}
	})
}

func replayUTF8(sub string, raw json.RawMessage) string {
	switch sub {
	case "utf8-rel", "utf8-rel-random":
		var c utf8Case
		if err := json.Unmarshal(raw, &c); err != nil {
			return "bad replay: " + err.Error()
		}
		return checkUTF8(c)
	case "utf8-total":
		var c callCase
		if err := json.Unmarshal(raw, &c); err != nil {
			return "bad replay: " + err.Error()
		}
		var msg string
		withBudget(bigSteps, bigOuts, func() { msg = checkTotal(c) })
		return msg
	case "utf8-model":
		var c modelCase
		if err := json.Unmarshal(raw, &c); err != nil {
			return "bad replay: " + err.Error()
		}
		var msg string
		withBudget(bigSteps, bigOuts, func() { msg = checkModel(c) })
		return msg
	}
	return "unknown sub " + sub
}
