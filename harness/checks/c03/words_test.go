// WORD-BOUNDARY PAIRS.  Machine-integer fast paths go wrong for operand PAIRS
// around 2^16 / sqrt(2^31) / 2^31 / sqrt(2^63) / 2^32 / 2^63; every ordered
// pair of the word-boundary integers (and their negatives, and 0 1 -1 2 3 10)
// runs through the spec models of + - * / % and the comparisons (exact
// integer arithmetic: math/big reference) in the Go representations int,
// *big.Int, json.Number and float64 where exact, and through the `rep`
// relation (int <-> *big.Int <-> integer json.Number, each operand).  quick
// samples the representation pairs, thorough runs all of them.
package c03

import (
	"encoding/json"
	"fmt"
	"math/big"
	"testing"

	"verif/internal/univ"
)

func wordValues() []*big.Int {
	var out []*big.Int
	for _, b := range wordInts() {
		out = append(out, b, new(big.Int).Neg(b))
	}
	for _, x := range []int64{0, 1, -1, 2, 3, 10} {
		out = append(out, big.NewInt(x))
	}
	return out
}

// repsOfInt: int (if it fits), *big.Int, json.Number, float64 (if exact)
func repsOfInt(b *big.Int) (exact []any, float any) {
	if b.IsInt64() {
		exact = append(exact, int(b.Int64()))
	}
	exact = append(exact, new(big.Int).Set(b), json.Number(b.String()))
	if f, acc := new(big.Float).SetInt(b).Float64(); acc == big.Exact {
		float = f
	}
	return exact, float
}

func runWords(t *testing.T) {
	vals := wordValues()
	ops := []string{"op/+", "op/-", "op/*", "op//", "op/%", "op/==", "op/<", "op/<=", "op/>", "op/>=", "op/!="}
	n := 0
	complete := true
	for i, a := range vals {
		ea, fa := repsOfInt(a)
		for j, b := range vals {
			eb, fb := repsOfInt(b)
			la, lb := append([]any{}, ea...), append([]any{}, eb...)
			if fa != nil {
				la = append(la, fa)
			}
			if fb != nil {
				lb = append(lb, fb)
			}
			for oi, op := range ops {
				n++
				if !rec.Mine(n) {
					continue
				}
				m := modelByID[op]
				s := specByID[op]
				for x, ra := range la {
					for y, rb := range lb {
						if !rec.Thorough() && !(x == 0 && y == 0) && !pick(rec.Seed, 1, 6, i, j, oi, x, y) {
							continue
						}
						c := mcase(m, univ.Copy(ra), []any{univ.Copy(rb)})
						rec.Eval()
						if msg := checkModel(c); msg != "" {
							complete = false
							if rec.Violations() < 25 {
								rec.Direct("model", c, "%s", msg)
							}
							continue
						}
						if judged {
							rec.Class("words/model-judged")
							rec.NT(fmt.Sprintf("words-model|%s|%s|%s|%d|%d", op, a, b, x, y))
						}
						// representation: the native pair against this pair (exact representations only)
						if x >= len(ea) || y >= len(eb) || (x == 0 && y == 0) {
							continue
						}
						rc := callCase{Spec: s.ID, In: univ.V{X: univ.Copy(ea[0])}, Args: []arg{val(univ.Copy(eb[0]))},
							In2: &univ.V{X: univ.Copy(ra)}, Args2: []arg{val(univ.Copy(rb))}}
						rec.Eval()
						if msg := checkRep(rc); msg != "" {
							complete = false
							if rec.Violations() < 25 {
								rec.Direct("rep", rc, "%s", msg)
							}
							continue
						}
						if repNT {
							rec.Class("words/rep-compared")
							rec.NT(fmt.Sprintf("words-rep|%s|%s|%s|%d|%d", op, a, b, x, y))
						}
					}
				}
			}
		}
	}
	rec.Exhaustive(fmt.Sprintf("word-boundary pairs: %d x %d integers x %d operators (representation pairs sampled in quick)", len(vals), len(vals), len(ops)), complete)
	rec.Extra("word_boundary_integers", len(vals))
}
