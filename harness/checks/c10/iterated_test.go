package c10

// Sub-check "iterated": arithmetic that a builtin or a loop repeats on its own
// state — range/2, range/3 (both directions), recurse, while, until,
// foreach, reduce, a user-defined recursion — started a few steps before a machine-word boundary, so
// that the k-th step crosses it.  Every element must be the exact integer
// a + k*s (or a * s^k), in every Go representation of the operands and with
// the operands written as literals in the query.

import (
	"encoding/json"
	"fmt"
	"math/big"
	"strings"

	"github.com/itchyny/gojq"
	"pgregory.net/rapid"

	"verif/internal/run"
	"verif/internal/univ"
)

type iterCase struct {
	Form string   `json:"form"`
	A    string   `json:"a"`
	S    string   `json:"s"`
	N    int      `json:"n"`
	Reps []string `json:"reps"` // of $a, $s, $b; "lit": written into the query text
}

// %a start, %s step, %b bound, %n count; kind: how the expected sequence is built
var iterForms = map[string][2]string{
	"range3":         {"[range(%a; %b; %s)]", "seq"},
	"range3-tight":   {"[range(%a; %t; %s)]", "seq"},
	"range3-limit":   {"[limit(%n; range(%a; %f; %s))]", "seq"},
	"range3-last":    {"[last(range(%a; %b; %s)), first(range(%a; %b; %s)), ([range(%a; %b; %s)] | length)]", "last-first-len"},
	"range3-nth":     {"nth(%n - 1; range(%a; %f; %s))", "last"},
	"range2":         {"[range(%a; %b)]", "seq1"},
	"range2-limit":   {"[limit(%n; range(%a; %f))]", "seq1"},
	"user-rec":       {"[limit(%n; %a | def r: ., (. + %s | r); r)]", "seq"},
	"recurse":        {"[limit(%n; %a | recurse(. + %s))]", "seq"},
	"recurse-sub":    {"[limit(%n; %a | recurse(. - (%s)))]", "seq-neg"},
	"recurse-cond":   {"[%a | recurse(. + %s; . != %b)]", "seq"},
	"while":          {"[%a | while(. != %b; . + %s)]", "seq"},
	"until":          {"%a | until(. == %b; . + %s)", "end"},
	"foreach":        {"[foreach range(%n) as $i (%a; . + %s)]", "seq-from1"},
	"foreach-3":      {"[foreach range(%n) as $i (%a; . + %s; [$i, .])]", "seq-from1-indexed"},
	"reduce":         {"reduce range(%n) as $i (%a; . + %s)", "end"},
	"reduce-mul":     {"reduce range(%n) as $i (%a; . * %s)", "pow"},
	"recurse-mul":    {"[limit(%n; %a | recurse(. * %s))]", "geo"},
	"map-affine":     {"[range(%n)] | map(. * %s + %a)", "seq"},
	"range-sum":      {"[range(%a; %b; %s)] | add", "sum"},
	"range-as-index": {"[range(%a; %b; %s) | . - %a]", "offsets"},
}

var iterFormNames []string

func init() {
	for k := range iterForms {
		iterFormNames = append(iterFormNames, k)
	}
	sortStrings(iterFormNames)
}

func sortStrings(s []string) {
	for i := 1; i < len(s); i++ {
		for j := i; j > 0 && s[j] < s[j-1]; j-- {
			s[j], s[j-1] = s[j-1], s[j]
		}
	}
}

func checkIter(c iterCase) string {
	form, ok := iterForms[c.Form]
	a, ok1 := new(big.Int).SetString(c.A, 10)
	s, ok2 := new(big.Int).SetString(c.S, 10)
	if !ok || !ok1 || !ok2 || c.N < 1 || c.N > 12 || len(c.Reps) != 3 || s.Sign() == 0 {
		return "bad case"
	}
	kind := form[1]
	if kind == "seq1" {
		s = big.NewInt(1)
	}
	n := big.NewInt(int64(c.N))
	b := new(big.Int).Add(a, new(big.Int).Mul(n, s)) // a + n*s: exclusive bound giving n values
	tight := new(big.Int).Add(a, new(big.Int).Mul(big.NewInt(int64(c.N-1)), s))
	tight.Add(tight, big.NewInt(int64(s.Sign()))) // the nearest bound that still gives n values
	far := new(big.Int).Add(a, new(big.Int).Mul(big.NewInt(1000), s))
	var names []string
	var vals []any
	text := form[0]
	bind := func(ph, name string, v *big.Int, rep string) {
		if !strings.Contains(text, ph) {
			return
		}
		if rep == "lit" {
			text = strings.ReplaceAll(text, ph, "("+v.String()+")")
			return
		}
		if rep == "int" && !fits(v) {
			rep = "big"
		}
		text = strings.ReplaceAll(text, ph, name)
		names = append(names, name)
		vals = append(vals, mk(v, rep))
	}
	bind("%a", "$a", a, c.Reps[0])
	bind("%s", "$s", s, c.Reps[1])
	bind("%b", "$b", b, c.Reps[2])
	bind("%t", "$t", tight, c.Reps[2])
	bind("%f", "$f", far, c.Reps[2])
	text = strings.ReplaceAll(text, "%n", fmt.Sprint(c.N))
	q, err := gojq.Parse(text)
	if err != nil {
		return "bad case: " + err.Error()
	}
	code, err := gojq.Compile(q, gojq.WithVariables(names))
	if err != nil {
		return "bad case: " + err.Error()
	}
	snapshot := univ.Copy(vals).([]any)
	res := run.Exec(code, nil, 200000, 60, vals...)
	if res.Panic != "" {
		return text + " panicked: " + res.Panic
	}
	seq := func(from, count int, step *big.Int) []*big.Int {
		out := make([]*big.Int, 0, count)
		for k := from; k < from+count; k++ {
			out = append(out, new(big.Int).Add(a, new(big.Int).Mul(big.NewInt(int64(k)), step)))
		}
		return out
	}
	var want []*big.Int // flattened expectation
	wrap := true         // the single output is an array of the expected numbers
	switch kind {
	case "seq", "seq1":
		want = seq(0, c.N, s)
	case "seq-neg":
		want = seq(0, c.N, new(big.Int).Neg(s))
	case "seq-from1":
		want = seq(1, c.N, s)
	case "seq-from1-indexed":
		for k, v := range seq(1, c.N, s) {
			want = append(want, big.NewInt(int64(k)), v)
		}
	case "last-first-len":
		sq := seq(0, c.N, s)
		want = []*big.Int{sq[c.N-1], sq[0], n}
	case "last":
		want, wrap = []*big.Int{seq(0, c.N, s)[c.N-1]}, false
	case "end":
		want, wrap = []*big.Int{b}, false
	case "pow":
		p := new(big.Int).Set(a)
		for k := 0; k < c.N; k++ {
			p.Mul(p, s)
		}
		want, wrap = []*big.Int{p}, false
	case "geo":
		p := new(big.Int).Set(a)
		for k := 0; k < c.N; k++ {
			want = append(want, new(big.Int).Set(p))
			p.Mul(p, s)
		}
	case "sum":
		t := new(big.Int)
		for _, v := range seq(0, c.N, s) {
			t.Add(t, v)
		}
		want, wrap = []*big.Int{t}, false
	case "offsets":
		for k := 0; k < c.N; k++ {
			want = append(want, new(big.Int).Mul(big.NewInt(int64(k)), s))
		}
	}
	show := func() string {
		return fmt.Sprintf("%s with %v = %s", text, names, univ.ShowAll(snapshot))
	}
	if res.Err != nil || res.Budget || len(res.Vals) != 1 {
		return fmt.Sprintf("%s: err=%v budget=%v outputs=%s; expected %v", show(), res.Err, res.Budget, univ.ShowAll(res.Vals), want)
	}
	var got []any
	if wrap {
		arr, ok := res.Vals[0].([]any)
		if !ok {
			return fmt.Sprintf("%s gives %s", show(), univ.Show(res.Vals[0]))
		}
		got = flattenNums(arr)
	} else {
		got = []any{res.Vals[0]}
	}
	if len(got) != len(want) {
		return fmt.Sprintf("%s gives %s (%d numbers), the exact result has %d: %v", show(), univ.Show(res.Vals[0]), len(got), len(want), want)
	}
	for i := range want {
		g, ok := exact(got[i])
		if !ok || g.Cmp(want[i]) != 0 {
			return fmt.Sprintf("%s gives %s: number %d is %s, exactly it is %s", show(), univ.Show(res.Vals[0]), i, univ.Show(got[i]), want[i])
		}
	}
	if !univ.Same(any(vals), any(snapshot)) {
		return fmt.Sprintf("%s modified its operands: now %s", show(), univ.ShowAll(vals))
	}
	return ""
}

func flattenNums(a []any) []any {
	var out []any
	for _, x := range a {
		if s, ok := x.([]any); ok {
			out = append(out, flattenNums(s)...)
		} else {
			out = append(out, x)
		}
	}
	return out
}

func replayIter(raw json.RawMessage) string {
	var c iterCase
	if err := json.Unmarshal(raw, &c); err != nil {
		return "bad replay: " + err.Error()
	}
	return checkIter(c)
}

var iterBoundaries = []string{"9223372036854775807", "9223372036854775808", "-9223372036854775808", "-9223372036854775809", "18446744073709551616", "-18446744073709551616", "4294967296", "-4294967296", "2147483648", "-2147483648",
	"9007199254740992", "-9007199254740992", "4611686018427387904", "-4611686018427387904", "0", "100000000000000000000", "-100000000000000000000", "170141183460469231731687303715884105728"}

var iterSteps = []string{"1", "-1", "2", "-2", "3", "-3", "5", "-5", "7", "-7", "10", "-10", "1000", "-1000", "2147483647", "-2147483648", "4294967295", "-4294967296", "3037000500", "-3037000500", "4611686018427387904", "-4611686018427387904",
	"9223372036854775807", "-9223372036854775807", "-9223372036854775808", "9223372036854775808", "18446744073709551616", "-100000000000000000000"}

func drawIter(t *rapid.T) iterCase {
	c := iterCase{Form: rapid.SampledFrom(iterFormNames).Draw(t, "form"), N: rapid.IntRange(1, 8).Draw(t, "n")}
	bd, _ := new(big.Int).SetString(rapid.SampledFrom(iterBoundaries).Draw(t, "boundary"), 10)
	s, _ := new(big.Int).SetString(rapid.SampledFrom(iterSteps).Draw(t, "step"), 10)
	if strings.Contains(iterForms[c.Form][1], "seq1") {
		s = big.NewInt(1)
	}
	kind := iterForms[c.Form][1]
	var a *big.Int
	if kind == "pow" || kind == "geo" {
		// a * s^k crosses the boundary around step j: a = boundary / s^j (+-1)
		s, _ = new(big.Int).SetString(rapid.SampledFrom([]string{"2", "-2", "3", "-3", "10", "-1", "1", "65536", "-65536", "4294967296", "3037000500", "-3037000500", "2147483648", "-2147483648"}).Draw(t, "factor"), 10)
		a = new(big.Int).Set(bd)
		for j := rapid.IntRange(0, c.N).Draw(t, "cross"); j > 0; j-- {
			a.Quo(a, s)
		}
		a.Add(a, big.NewInt(int64(rapid.IntRange(-1, 1).Draw(t, "delta"))))
	} else {
		// the j-th element is the boundary (+-1)
		j := rapid.IntRange(0, c.N).Draw(t, "cross")
		a = new(big.Int).Sub(bd, new(big.Int).Mul(big.NewInt(int64(j)), s))
		a.Add(a, big.NewInt(int64(rapid.IntRange(-1, 1).Draw(t, "delta"))))
	}
	c.A, c.S = a.String(), s.String()
	rep := rapid.SampledFrom([]string{"int", "int", "lit", "lit", "big", "num"})
	c.Reps = []string{rep.Draw(t, "repa"), rep.Draw(t, "reps"), rep.Draw(t, "repb")}
	return c
}
