// C10 — integer arithmetic is exact and number literals are not degraded.
//
// Oracles: math/big (exact arithmetic), strconv (shortest round trip),
// encoding/json (validity).  Nothing here consults gojq for the expected value.
package c10

import (
	"encoding/json"
	"fmt"
	"math"
	"math/big"
	"sort"
	"strconv"
	"strings"
	"testing"

	"github.com/itchyny/gojq"
	"pgregory.net/rapid"

	"verif/internal/cmdline"
	"verif/internal/evid"
	"verif/internal/run"
	"verif/internal/univ"
)

var rec *evid.Rec

// ---------------------------------------------------------------------------
// cases

type arithCase struct {
	Op   string `json:"op"`
	A    string `json:"a"`
	B    string `json:"b"`
	RepA string `json:"repa"` // int | big | num | num-0 (json.Number "-0" for zero)
	RepB string `json:"repb"`
}

var binops = []string{"+", "-", "*", "/", "%", "<", "<=", "==", "!=", ">", ">="}
var unops = []string{"neg", "abs", "length"}

var codes = map[string]*gojq.Code{}

func init() {
	for _, op := range binops {
		codes[op] = run.MustCompile(".[0] " + op + " .[1]")
	}
	codes["neg"] = run.MustCompile("-(.[0])")
	codes["abs"] = run.MustCompile(".[0] | abs")
	codes["length"] = run.MustCompile(".[0] | length")
}

func fits(b *big.Int) bool { return b.IsInt64() }

func finiteAsDouble(b *big.Int) bool {
	f, _ := new(big.Float).SetInt(b).Float64()
	return !math.IsInf(f, 0)
}

func repsOf(b *big.Int) []string {
	r := []string{"big", "num"}
	if fits(b) {
		r = append(r, "int")
	}
	if b.Sign() == 0 {
		r = append(r, "num-0")
	}
	return r
}

func mk(b *big.Int, rep string) any {
	switch rep {
	case "int":
		return int(b.Int64())
	case "big":
		return new(big.Int).Set(b)
	case "num":
		return json.Number(b.String())
	case "num-0":
		return json.Number("-0")
	}
	panic(rep)
}

var (
	two63  = new(big.Int).Lsh(big.NewInt(1), 63)
	two64  = new(big.Int).Lsh(big.NewInt(1), 64)
	edges  = []*big.Int{two63, new(big.Int).Neg(two63), two64, new(big.Int).Neg(two64), big.NewInt(0)}
	three  = big.NewInt(3)
	bigTwo = big.NewInt(2)
)

func nearEdge(x *big.Int) bool {
	for _, e := range edges {
		d := new(big.Int).Sub(x, e)
		if d.Abs(d).Cmp(three) <= 0 {
			return true
		}
	}
	return false
}

// exact reports the exact integer carried by a result, if it is one.
func exact(v any) (*big.Int, bool) {
	switch v := v.(type) {
	case int:
		return big.NewInt(int64(v)), true
	case *big.Int:
		return v, true
	case json.Number:
		n, ok := univ.ToNum(v)
		if ok && n.Int != nil {
			return n.Int, true
		}
	case float64:
		if v == math.Trunc(v) && math.Abs(v) <= 1<<53 {
			return big.NewInt(int64(v)), true
		}
	}
	return nil, false
}

// checkArith is the oracle for one case; "" means the property held.
func checkArith(c arithCase) string {
	a, ok1 := new(big.Int).SetString(c.A, 10)
	b, ok2 := new(big.Int).SetString(c.B, 10)
	if !ok1 || !ok2 {
		return "bad case"
	}
	code := codes[c.Op]
	if code == nil {
		return "bad op"
	}
	in := []any{mk(a, c.RepA), mk(b, c.RepB)}
	snapshot := univ.Copy(in)
	res := run.Exec(code, in, 0, 10)
	if !univ.Same(in, snapshot) {
		return fmt.Sprintf("operands modified: %s -> %s", univ.Show(snapshot), univ.Show(in))
	}
	wantErr := false
	var want *big.Int
	var wantBool *bool
	var wantFloat *big.Rat
	switch c.Op {
	case "+":
		want = new(big.Int).Add(a, b)
	case "-":
		want = new(big.Int).Sub(a, b)
	case "*":
		want = new(big.Int).Mul(a, b)
	case "/":
		if b.Sign() == 0 {
			wantErr = true
		} else if q, m := new(big.Int).QuoRem(a, b, new(big.Int)); m.Sign() == 0 {
			want = q
		} else {
			wantFloat = new(big.Rat).SetFrac(a, b)
		}
	case "%":
		if b.Sign() == 0 {
			wantErr = true
		} else {
			want = new(big.Int).Rem(a, b) // truncated: sign of the dividend
		}
	case "neg":
		want = new(big.Int).Neg(a)
	case "abs", "length":
		want = new(big.Int).Abs(a)
	default:
		cmp := a.Cmp(b)
		var t bool
		switch c.Op {
		case "<":
			t = cmp < 0
		case "<=":
			t = cmp <= 0
		case "==":
			t = cmp == 0
		case "!=":
			t = cmp != 0
		case ">":
			t = cmp > 0
		case ">=":
			t = cmp >= 0
		}
		wantBool = &t
	}
	if wantErr {
		if res.Err == nil {
			return fmt.Sprintf("expected a zero-division error, got %s", univ.ShowAll(res.Vals))
		}
		return ""
	}
	if res.Err != nil {
		return fmt.Sprintf("unexpected error %q", res.Err)
	}
	if len(res.Vals) != 1 {
		return fmt.Sprintf("expected one output, got %s", univ.ShowAll(res.Vals))
	}
	got := res.Vals[0]
	switch {
	case want != nil:
		g, ok := exact(got)
		if !ok || g.Cmp(want) != 0 {
			return fmt.Sprintf("got %s, exact result is %s", univ.Show(got), want)
		}
		// the printed digits must be the exact digits as well
		text, _ := gojq.Marshal(got)
		if p, ok := new(big.Int).SetString(string(text), 10); !ok || p.Cmp(want) != 0 {
			if !(want.Sign() == 0 && string(text) == "-0") {
				return fmt.Sprintf("result prints as %s, exact result is %s", text, want)
			}
		}
	case wantBool != nil:
		if g, ok := got.(bool); !ok || g != *wantBool {
			return fmt.Sprintf("got %s, want %v", univ.Show(got), *wantBool)
		}
	case wantFloat != nil:
		n, ok := univ.ToNum(got)
		if !ok {
			return fmt.Sprintf("non-numeric quotient %s", univ.Show(got))
		}
		var g float64
		if n.Int != nil {
			g, _ = new(big.Float).SetInt(n.Int).Float64()
		} else {
			g = n.F
		}
		w, _ := wantFloat.Float64()
		if math.IsInf(w, 0) || math.IsNaN(g) || !finiteAsDouble(a) || !finiteAsDouble(b) {
			return "" // an operand or the quotient outside the double range: not claimed
		}
		if d := math.Abs(g - w); d > math.Abs(w)*1e-14 {
			return fmt.Sprintf("non-integral quotient %s differs from %v", univ.Show(got), w)
		}
	}
	return ""
}

func ntArith(c arithCase) bool {
	a, _ := new(big.Int).SetString(c.A, 10)
	b, _ := new(big.Int).SetString(c.B, 10)
	if nearEdge(a) || nearEdge(b) {
		return true
	}
	var r *big.Int
	switch c.Op {
	case "+":
		r = new(big.Int).Add(a, b)
	case "-":
		r = new(big.Int).Sub(a, b)
	case "*":
		r = new(big.Int).Mul(a, b)
	case "neg":
		r = new(big.Int).Neg(a)
	case "abs", "length":
		r = new(big.Int).Abs(a)
	case "/", "%":
		if b.Sign() == 0 {
			return true
		}
		if c.Op == "/" {
			r = new(big.Int).Quo(a, b)
		} else {
			r = new(big.Int).Rem(a, b)
		}
	default:
		return !fits(a) || !fits(b) || a.Cmp(b) == 0
	}
	return nearEdge(r) || (fits(a) && fits(b)) != fits(r) || fits(a) != fits(b)
}

func doArith(sub string, c arithCase) string {
	rec.Eval()
	if ntArith(c) {
		rec.NT(fmt.Sprint(c))
	}
	rec.Class("op/" + c.Op)
	rec.Class("reps/" + c.RepA + "," + c.RepB)
	rec.Sample(c)
	return checkArith(c)
}

// n-ary sums and products: `add`, add/1, reduce, chained operators, with the
// same operand object possibly occurring several times.
type naryCase struct {
	Query string   `json:"query"`
	Vals  []string `json:"vals"`
	Reps  []string `json:"reps"`
	Same  []int    `json:"same"` // Same[i] = j < i: operand i is the very same Go object as operand j (-1: own object)
}

var naryQueries = map[string]string{
	"add":                                    "sum",
	"add(.[])":                               "sum",
	"reduce .[] as $x (0; . + $x)":           "sum",
	"reduce .[] as $x (null; . + $x)":        "sum",
	"[foreach .[] as $x (0; . + $x)] | last": "sum",
	". as $a | reduce range(length) as $i (0; . + $a[$i])": "sum",
	"[.[], .[]] | add":             "sum2",
	"add + add":                    "sum2",
	"[.[] | . * 2] | add":          "sum2",
	"[add, add] | add":             "sum2",
	"reduce .[] as $x (1; . * $x)": "prod",
	"[.[] | -.] | add":             "negsum",
	"add - add":                    "zero",
	"[.[], (.[] | -.)] | add":      "zero",
	"reduce .[] as $x (0; . - $x)": "negsum",
	"(add) as $s | $s - add":       "zero",
}

var naryCodes = map[string]*gojq.Code{}

func init() {
	for q := range naryQueries {
		naryCodes[q] = run.MustCompile(q)
	}
}

func checkNary(c naryCase) string {
	code := naryCodes[c.Query]
	if code == nil || len(c.Vals) != len(c.Reps) || len(c.Vals) != len(c.Same) {
		return "bad case"
	}
	in := make([]any, len(c.Vals))
	bigs := make([]*big.Int, len(c.Vals))
	for i, v := range c.Vals {
		b, ok := new(big.Int).SetString(v, 10)
		if !ok {
			return "bad case"
		}
		bigs[i] = b
		if j := c.Same[i]; j >= 0 && j < i && c.Vals[j] == v && c.Reps[j] == c.Reps[i] {
			in[i] = in[j]
		} else {
			in[i] = mk(b, c.Reps[i])
		}
	}
	want := new(big.Int)
	switch naryQueries[c.Query] {
	case "sum", "sum2", "negsum":
		for _, b := range bigs {
			want.Add(want, b)
		}
		if naryQueries[c.Query] == "sum2" {
			want.Lsh(want, 1)
		}
		if naryQueries[c.Query] == "negsum" {
			want.Neg(want)
		}
	case "prod":
		want.SetInt64(1)
		for _, b := range bigs {
			want.Mul(want, b)
		}
	case "zero":
	}
	snapshot := univ.Copy(in)
	// run twice: the second run sees whatever the first did to the operands
	for round := 0; round < 2; round++ {
		res := run.Exec(code, in, 0, 10)
		if res.Err != nil || len(res.Vals) != 1 {
			return fmt.Sprintf("%s on %s: err=%v outputs=%s", c.Query, univ.Show(in), res.Err, univ.ShowAll(res.Vals))
		}
		g, ok := exact(res.Vals[0])
		if !ok || g.Cmp(want) != 0 {
			return fmt.Sprintf("%s on %s (run %d) = %s, exact result is %s", c.Query, univ.Show(snapshot), round+1, univ.Show(res.Vals[0]), want)
		}
		if !univ.Same(in, snapshot) {
			return fmt.Sprintf("%s modified its operands: %s -> %s", c.Query, univ.Show(snapshot), univ.Show(in))
		}
	}
	return ""
}

// ---------------------------------------------------------------------------
// boundary set

func boundary(ks []int) []*big.Int {
	seen := map[string]bool{}
	var out []*big.Int
	add := func(x *big.Int) {
		for _, s := range []int{1, -1} {
			y := new(big.Int).Set(x)
			if s < 0 {
				y.Neg(y)
			}
			if !seen[y.String()] {
				seen[y.String()] = true
				out = append(out, y)
			}
		}
	}
	add(big.NewInt(0))
	for _, k := range ks {
		p := new(big.Int).Lsh(big.NewInt(1), uint(k))
		for d := int64(-2); d <= 2; d++ {
			add(new(big.Int).Add(p, big.NewInt(d)))
		}
	}
	// sqrt(2^63) neighbours and the classic multiplication edge
	for _, s := range []int64{3037000497, 3037000498, 3037000499, 3037000500, 3037000501, 3037000502, 4294967295, 4294967296, 4294967297, 2147483647, 2147483648} {
		add(big.NewInt(s))
	}
	for _, s := range []string{"9223372036854775806", "9223372036854775807", "9223372036854775808", "9223372036854775809",
		"18446744073709551615", "18446744073709551616", "18446744073709551617", "4611686018427387904", "6148914691236517205",
		"1000000000000000000", "10000000000000000000", "100000000000000000000", "123456789012345678901234567890", "3", "5", "7", "10", "-3"} {
		b, _ := new(big.Int).SetString(s, 10)
		add(b)
	}
	return out
}

func genBig() *rapid.Generator[*big.Int] {
	return rapid.Custom(func(t *rapid.T) *big.Int {
		switch rapid.IntRange(0, 6).Draw(t, "kind") {
		case 6: // around the double range: 2^1023, 2^1024, 10^308, 10^309
			var x *big.Int
			if rapid.Bool().Draw(t, "pow10") {
				x = new(big.Int).Exp(big.NewInt(10), big.NewInt(int64(rapid.IntRange(306, 310).Draw(t, "e10"))), nil)
			} else {
				x = new(big.Int).Lsh(big.NewInt(1), uint(rapid.IntRange(1021, 1026).Draw(t, "e2")))
			}
			x.Add(x, big.NewInt(rapid.Int64Range(-3, 3).Draw(t, "d")))
			if rapid.Bool().Draw(t, "neg") {
				x.Neg(x)
			}
			return x
		case 0: // ±2^k±d
			k := rapid.IntRange(0, 130).Draw(t, "k")
			d := rapid.Int64Range(-3, 3).Draw(t, "d")
			x := new(big.Int).Lsh(big.NewInt(1), uint(k))
			x.Add(x, big.NewInt(d))
			if rapid.Bool().Draw(t, "neg") {
				x.Neg(x)
			}
			return x
		case 1: // int64 edges
			e := rapid.SampledFrom([]int64{math.MaxInt64, math.MinInt64, math.MaxInt64 - 1, math.MinInt64 + 1, math.MaxInt64 - 2, math.MinInt64 + 2, 0, 1, -1, 2, -2}).Draw(t, "edge")
			return big.NewInt(e)
		case 2: // sqrt neighbours
			d := rapid.Int64Range(-3, 3).Draw(t, "d")
			x := big.NewInt(3037000500 + d)
			if rapid.Bool().Draw(t, "neg") {
				x.Neg(x)
			}
			return x
		case 3: // random digits
			n := rapid.IntRange(1, 40).Draw(t, "digits")
			var sb strings.Builder
			if rapid.Bool().Draw(t, "neg") {
				sb.WriteByte('-')
			}
			sb.WriteByte(byte('1' + rapid.IntRange(0, 8).Draw(t, "d0")))
			for i := 1; i < n; i++ {
				sb.WriteByte(byte('0' + rapid.IntRange(0, 9).Draw(t, "d")))
			}
			x, _ := new(big.Int).SetString(sb.String(), 10)
			return x
		case 4: // any int64
			return big.NewInt(rapid.Int64().Draw(t, "i64"))
		default: // small
			return big.NewInt(rapid.Int64Range(-20, 20).Draw(t, "small"))
		}
	})
}

// ---------------------------------------------------------------------------
// literals and floats

type litCase struct {
	Lit   string `json:"lit"`
	Query string `json:"query"`
}

var litQueries = []string{
	".",
	"tojson",
	"tostring",
	"@json",
	"@text",
	"[.,.]|first",
	"if . then . else . end",
	". as $x|[$x]|.[0]",
	"[.]|sort|.[0]",
	"{a:.}|to_entries[0].value",
	"[.]|map(.)|.[0]",
	". // 0",
	"[.]|reverse|.[0]",
	"[[.]]|flatten|.[0]",
	"try error catch .",
	"[.]|tojson|fromjson|.[0]",
	"{a:.}|tojson|fromjson|.a",
	"[1,.]|.[1]",
	"label $l|(., break $l)",
	"[.]|.[0:1]|.[0]",
	"first(.,1)",
	"reduce . as $x (null; $x)",
	"[.] | min",
	"[.] | unique | .[0]",
	"{a:.}|.a",
	"[limit(1; ., .)]|.[0]",
	"getpath([])",
	"[.]|getpath([0])",
	"[.]|to_entries[0].value",
	"{a:.}|with_entries(.)|.a",
	"[.]|tostream|select(length==2)|.[1]",
}

var litCodes = map[string]*gojq.Code{}

func init() {
	for _, q := range litQueries {
		litCodes[q] = run.MustCompile(q)
	}
}

// checkLit: a JSON number literal that passes through the query untouched
// must be printed with exactly its digits.
func checkLit(c litCase) string {
	code := litCodes[c.Query]
	if code == nil {
		return "bad query"
	}
	if !json.Valid([]byte(c.Lit)) {
		return "bad literal"
	}
	res := run.Exec(code, json.Number(c.Lit), 0, 10)
	if res.Err != nil || len(res.Vals) != 1 {
		return fmt.Sprintf("query %q on %s: err=%v outputs=%s", c.Query, c.Lit, res.Err, univ.ShowAll(res.Vals))
	}
	out := res.Vals[0]
	var text string
	switch c.Query {
	case "tojson", "tostring", "@json", "@text":
		s, ok := out.(string)
		if !ok {
			return fmt.Sprintf("%s gave %s", c.Query, univ.Show(out))
		}
		text = s
	default:
		b, err := gojq.Marshal(out)
		if err != nil {
			return "Marshal: " + err.Error()
		}
		text = string(b)
	}
	if text != c.Lit {
		return fmt.Sprintf("literal %s came out of %q as %s", c.Lit, c.Query, text)
	}
	return ""
}

// obsCase: literals that are looked at by another filter (sorted, compared,
// added up, printed, ...) and emitted afterwards must still carry their digits.
type obsCase struct {
	Lits     []string `json:"lits"`
	Observer string   `json:"observer"`
	Form     string   `json:"form"`
	Object   bool     `json:"object,omitempty"` // {"k0": lit0, ...} instead of [lit0, ...]
}

var observers = []string{
	"sort", "unique", "sort_by(.)", "group_by(.)", "unique_by(.)", "min", "max", "min_by(.)", "max_by(.)", "add", "length", "tojson", "tostring",
	"map(. + 0)", "map(-.)", "map(floor)", "map(tostring)", "map(tojson)", "map(abs)", "map(. * 1)", "reverse", "flatten", "index(.[0])", "indices(.[0])",
	"contains([.[0]])", "inside(.)", ". - [.[0]]", "bsearch(.[0])", "any(. > 0)", "all(. > 0)", "join(\",\")", "@csv", "@tsv", "@sh", "@html", "@text", "@json",
	"[tostream]", "[paths]", "to_entries", "first", "last", "nth(0)", ".[0] + .[1]", ".[0] < .[1]", ".[0] == .[1]", ".[0] % 7", "walk(.)", "del(.[0])",
	".[0] = 1", ".[1:]", "[limit(1; .[])]", "map(select(. > 0))", "map(isnormal)", "map(trunc)", "map(significand)", "map(. == 1)", "[.[] | [.] | sort]",
	"[.[] as $x | $x + $x]", "map(sqrt)", "map(round)", "[.[], .[]] | sort", "[.[], .[]] | unique", "(sort | unique | min)", "keys", "map(type)", "[.[] | numbers]",
	"map(tostring | tonumber)", "[.[] | . as $x | [$x, $x] | max]", "map(ltrimstr(1))", "[splits(\"a\")?]", "implode?", "[.[]?] | sort | reverse", "tojson | fromjson | sort",
	"map_values(. + 1)", "map_values(.)", "with_entries(.)?", "[..]", "[.. | numbers] | sort", "getpath([0])", "[getpath([0], [1])] | sort", "any", "all", "[range(0; length)]",
	"add / length", "[.[] | tostring] | sort", "[.[] | tojson] | unique", "group_by(. > 0)", "[.[] | -(.)] | sort", "min_by(-.)", "[.[]] | .[0] += 1", ".[0] |= . + 1", "[.[] | floor] | add",
}

var obsForms = []string{
	// the observer's outputs are collected, so an observer that yields nothing
	// or fails does not change the shape of the result
	"([try (%s) catch null] | empty), .",
	"[[try (%s) catch null], .] | .[1]",
	". as $x | [try (%s) catch null] | $x",
	"[.[]?] as $c | ([try ($c | %s) catch null] | empty), .",
	". as $x | $x | [try (%s) catch null] as $y | $x",
	"[., [try (%s) catch null], .] | .[2]",
	"reduce (1, 2) as $i (.; [try (%s) catch null] as $y | .)",
	"first(([try (%s) catch null] | empty), .)",
}

func checkObs(c obsCase) string {
	q, err := gojq.Parse(fmt.Sprintf(c.Form, c.Observer))
	if err != nil {
		return "bad query: " + err.Error()
	}
	code, err := gojq.Compile(q)
	if err != nil {
		return "bad query: " + err.Error()
	}
	var input any
	var want strings.Builder
	if c.Object {
		m := map[string]any{}
		want.WriteByte('{')
		for i, l := range c.Lits {
			if !json.Valid([]byte(l)) {
				return "bad literal"
			}
			k := fmt.Sprintf("k%d", i)
			m[k] = json.Number(l)
			if i > 0 {
				want.WriteByte(',')
			}
			want.WriteString("\"" + k + "\":" + l)
		}
		want.WriteByte('}')
		input = m
	} else {
		a := make([]any, len(c.Lits))
		want.WriteByte('[')
		for i, l := range c.Lits {
			if !json.Valid([]byte(l)) {
				return "bad literal"
			}
			a[i] = json.Number(l)
			if i > 0 {
				want.WriteByte(',')
			}
			want.WriteString(l)
		}
		want.WriteByte(']')
		input = a
	}
	res := run.Exec(code, input, 0, 10)
	if res.Err != nil || len(res.Vals) != 1 {
		return fmt.Sprintf("query %q on %s: err=%v outputs=%s", q.String(), want.String(), res.Err, univ.ShowAll(res.Vals))
	}
	b, err := gojq.Marshal(res.Vals[0])
	if err != nil {
		return "Marshal: " + err.Error()
	}
	if string(b) != want.String() {
		return fmt.Sprintf("%s came out of %q as %s", want.String(), q.String(), b)
	}
	// and the caller's own value still holds the literals
	b2, _ := gojq.Marshal(input)
	if string(b2) != want.String() {
		return fmt.Sprintf("the input %s reads %s after %q", want.String(), b2, q.String())
	}
	return ""
}

// litUnary: sign-level operations on a number literal (abs, length, negation
// and their compositions) denote |x| or +-x exactly; where gojq keeps the
// literal (json.Number) the text must denote exactly that value, where it
// converts to float64 the nearest double (saturating) is expected.
type litUnaryCase struct {
	Lit   string `json:"lit"`
	Query string `json:"query"`
}

// litUnaryQueries: query -> sign transformation (+1: |x|, -1: -|x|, 2: x, -2: -x)
var litUnaryQueries = map[string]int{
	"abs": 1, "length": 1, "-.": -2, "-(-.)": 2, "[.] | map(abs) | .[0]": 1, "abs | abs": 1, "-. | abs": 1, "abs | -.": -1, "-(-.) | abs": 1, "length | -.": -1, "{a: .} | .a | abs": 1,
	". as $x | $x | abs": 1, "[., .] | map(length) | .[1]": 1, "- abs": -1, "-. | -.": 2, "abs | length": 1, "-. | length": 1, "first(abs, .)": 1, "[abs] | add": 1, "abs | tojson | fromjson": 1,
}
var litUnaryCodes = map[string]*gojq.Code{}

func init() {
	for q := range litUnaryQueries {
		litUnaryCodes[q] = run.MustCompile(q)
	}
}

func ratOfText(s string) (*big.Rat, bool) {
	// bound the exponent: big.Rat materialises 10^e
	if i := strings.IndexAny(s, "eE"); i >= 0 {
		if e, err := strconv.Atoi(s[i+1:]); err != nil || e > 2000 || e < -2000 {
			return nil, false
		}
	}
	return new(big.Rat).SetString(s)
}

func checkLitUnary(c litUnaryCase) string {
	code, kind := litUnaryCodes[c.Query], litUnaryQueries[c.Query]
	if code == nil || !json.Valid([]byte(c.Lit)) {
		return "bad case"
	}
	x, ok := ratOfText(c.Lit)
	if !ok {
		return ""
	}
	want := new(big.Rat).Set(x)
	switch kind {
	case 1:
		want.Abs(want)
	case -1:
		want.Abs(want).Neg(want)
	case -2:
		want.Neg(want)
	}
	res := run.Exec(code, json.Number(c.Lit), 0, 10)
	if res.Err != nil || len(res.Vals) != 1 {
		return fmt.Sprintf("%s on %s: err=%v outputs=%s", c.Query, c.Lit, res.Err, univ.ShowAll(res.Vals))
	}
	wf, _ := want.Float64() // nearest double; +-Inf beyond the range
	beyond := math.IsInf(wf, 0)
	switch v := res.Vals[0].(type) {
	case json.Number:
		got, ok := ratOfText(string(v))
		if !ok {
			return fmt.Sprintf("%s on %s gives the unreadable number %s", c.Query, c.Lit, v)
		}
		if got.Cmp(want) != 0 {
			return fmt.Sprintf("%s on %s gives %s, which does not denote %s", c.Query, c.Lit, v, want.RatString())
		}
	case int:
		if !want.IsInt() || want.Num().Cmp(big.NewInt(int64(v))) != 0 {
			return fmt.Sprintf("%s on %s gives the int %d, want %s", c.Query, c.Lit, v, want.RatString())
		}
	case *big.Int:
		if !want.IsInt() || want.Num().Cmp(v) != 0 {
			return fmt.Sprintf("%s on %s gives the integer %s, want %s", c.Query, c.Lit, v, want.RatString())
		}
	case float64:
		if beyond && (v == wf || v == math.Copysign(math.MaxFloat64, wf)) {
			break // beyond the double range: the infinity inside, printed as the largest double
		}
		if v != wf && !(v == 0 && wf == 0) {
			return fmt.Sprintf("%s on %s gives the double %v, the nearest double of %s is %v", c.Query, c.Lit, v, want.FloatString(30), wf)
		}
	default:
		return fmt.Sprintf("%s on %s gives %s", c.Query, c.Lit, univ.Show(v))
	}
	return ""
}

func genLit() *rapid.Generator[string] {
	digits := func(t *rapid.T, label string, min, max int) string {
		n := rapid.IntRange(min, max).Draw(t, label+"n")
		var sb strings.Builder
		for i := 0; i < n; i++ {
			sb.WriteByte(byte('0' + rapid.IntRange(0, 9).Draw(t, label)))
		}
		return sb.String()
	}
	return rapid.Custom(func(t *rapid.T) string {
		var sb strings.Builder
		if rapid.Bool().Draw(t, "neg") {
			sb.WriteByte('-')
		}
		if rapid.IntRange(0, 3).Draw(t, "zero") == 0 {
			sb.WriteByte('0')
		} else {
			sb.WriteByte(byte('1' + rapid.IntRange(0, 8).Draw(t, "d0")))
			sb.WriteString(digits(t, "int", 0, rapid.SampledFrom([]int{0, 2, 17, 18, 19, 20, 40}).Draw(t, "intlen")))
		}
		if rapid.Bool().Draw(t, "frac") {
			sb.WriteByte('.')
			sb.WriteString(digits(t, "frac", 1, rapid.SampledFrom([]int{1, 3, 17, 30}).Draw(t, "fraclen")))
		}
		if rapid.Bool().Draw(t, "exp") {
			sb.WriteString(rapid.SampledFrom([]string{"e", "E"}).Draw(t, "e"))
			sb.WriteString(rapid.SampledFrom([]string{"", "+", "-"}).Draw(t, "esign"))
			sb.WriteString(digits(t, "exp", 1, 4))
		}
		return sb.String()
	})
}

var fixedLits = []string{"0", "-0", "0.0", "-0.0", "1.0", "1.00", "1e2", "1E2", "1E+2", "1e-2", "1e00", "0e0", "0.10", "100", "1e1000", "-1e1000", "1e-400",
	"100000000000000000000", "-100000000000000000000", "9223372036854775807", "9223372036854775808", "-9223372036854775808", "-9223372036854775809",
	"0.1234567890123456789012345678901234567890", "123456789012345678901234567890.123456789012345678901234567890", "1.7976931348623157e308", "1.7976931348623159e308",
	"4.9e-324", "2.5e-324", "1e400", "0.000001", "0.0000001", "1e21", "1e20", "12345678901234567890123e-5", "3.0e0", "5e+0", "1E-0"}

// float printing: shortest round trip, valid JSON, documented saturation.
type floatCase struct {
	Bits uint64 `json:"bits"`
}

func sigDigits(s string) string {
	s = strings.TrimPrefix(s, "-")
	if i := strings.IndexAny(s, "eE"); i >= 0 {
		s = s[:i]
	}
	s = strings.Replace(s, ".", "", 1)
	s = strings.TrimLeft(s, "0")
	s = strings.TrimRight(s, "0")
	return s
}

func checkFloatText(f float64, text string) string {
	if math.IsNaN(f) {
		if text != "null" {
			return fmt.Sprintf("NaN printed as %s", text)
		}
		return ""
	}
	g := f
	if math.IsInf(f, 1) {
		g = math.MaxFloat64
	} else if math.IsInf(f, -1) {
		g = -math.MaxFloat64
	}
	if !json.Valid([]byte(text)) {
		return fmt.Sprintf("%v printed as %q which is not valid JSON", f, text)
	}
	var probe any
	d := json.NewDecoder(strings.NewReader(text))
	d.UseNumber()
	if err := d.Decode(&probe); err != nil {
		return fmt.Sprintf("%v printed as %q: %v", f, text, err)
	}
	if _, ok := probe.(json.Number); !ok {
		return fmt.Sprintf("%v printed as %q which is not a JSON number", f, text)
	}
	back, err := strconv.ParseFloat(text, 64)
	if err != nil {
		return fmt.Sprintf("%v printed as %q: %v", f, text, err)
	}
	if math.Float64bits(back) != math.Float64bits(g) && !(back == 0 && g == 0) {
		return fmt.Sprintf("%v (bits %x) printed as %q which reads back as %v", f, math.Float64bits(f), text, back)
	}
	if want := sigDigits(strconv.FormatFloat(g, 'e', -1, 64)); sigDigits(text) != want {
		return fmt.Sprintf("%v printed as %q: digits %q are not the shortest round-trip digits %q", f, text, sigDigits(text), want)
	}
	return ""
}

func checkFloat(c floatCase) string {
	f := math.Float64frombits(c.Bits)
	b, err := gojq.Marshal(f)
	if err != nil {
		return err.Error()
	}
	if msg := checkFloatText(f, string(b)); msg != "" {
		return "Marshal: " + msg
	}
	// the same through tojson and inside a container
	res := run.Exec(litCodes["tojson"], f, 0, 10)
	if res.Err != nil || len(res.Vals) != 1 {
		return fmt.Sprintf("tojson: %v", res.Err)
	}
	if s, _ := res.Vals[0].(string); s != string(b) {
		return fmt.Sprintf("tojson gives %q, Marshal gives %q", s, b)
	}
	b2, _ := gojq.Marshal([]any{f})
	if string(b2) != "["+string(b)+"]" {
		return fmt.Sprintf("Marshal([x]) = %s, Marshal(x) = %s", b2, b)
	}
	return ""
}

func genFloatBits() *rapid.Generator[uint64] {
	return rapid.Custom(func(t *rapid.T) uint64 {
		switch rapid.IntRange(0, 7).Draw(t, "class") {
		case 0: // any bits
			return rapid.Uint64().Draw(t, "bits")
		case 1: // subnormals
			return rapid.Uint64Range(0, 1<<52-1).Draw(t, "sub") | uint64(rapid.IntRange(0, 1).Draw(t, "s"))<<63
		case 2: // around the format thresholds
			base := rapid.SampledFrom([]float64{1e-6, 1e-7, 1e-5, 1e21, 1e20, 1e22, 1e-9, 1e-10, 1e-11, 1, 1e15, 1e16, 1e17, 9007199254740992, 1e308, 1e-308}).Draw(t, "base")
			off := rapid.Int64Range(-4, 4).Draw(t, "ulps")
			b := uint64(int64(math.Float64bits(base)) + off)
			return b | uint64(rapid.IntRange(0, 1).Draw(t, "s"))<<63
		case 3: // decimal-ish values d * 10^e
			d := rapid.Int64Range(1, 99999).Draw(t, "d")
			e := rapid.IntRange(-330, 310).Draw(t, "e")
			f, _ := strconv.ParseFloat(fmt.Sprintf("%de%d", d, e), 64)
			if rapid.Bool().Draw(t, "neg") {
				f = -f
			}
			return math.Float64bits(f)
		case 4: // specials
			return math.Float64bits(rapid.SampledFrom([]float64{0, math.Copysign(0, -1), math.Inf(1), math.Inf(-1), math.NaN(), math.MaxFloat64, -math.MaxFloat64, math.SmallestNonzeroFloat64, -math.SmallestNonzeroFloat64, 0.1, 0.2, 0.3, 1.0 / 3}).Draw(t, "special"))
		case 5: // large integers beyond 2^53
			k := rapid.IntRange(53, 1023).Draw(t, "k")
			m := rapid.Uint64Range(0, 1<<52-1).Draw(t, "m")
			return uint64(k+1023)<<52 | m
		case 6: // small exponents e-05 .. e-12
			k := rapid.IntRange(-45, -10).Draw(t, "k")
			m := rapid.Uint64Range(0, 1<<52-1).Draw(t, "m")
			return uint64(k+1023)<<52 | m
		default:
			f := rapid.Float64().Draw(t, "f")
			return math.Float64bits(f)
		}
	})
}

// query-text integer literals keep their exact value.
type qlitCase struct {
	Lit string `json:"lit"`
}

func checkQLit(c qlitCase) string {
	want, ok := new(big.Int).SetString(c.Lit, 10)
	if !ok {
		return "bad case"
	}
	code, err := run.Compile(c.Lit)
	if err != nil {
		return err.Error()
	}
	res := run.Exec(code, nil, 0, 10)
	if res.Err != nil || len(res.Vals) != 1 {
		return fmt.Sprintf("literal %s: err=%v outputs=%s", c.Lit, res.Err, univ.ShowAll(res.Vals))
	}
	g, ok := exact(res.Vals[0])
	if !ok || g.Cmp(want) != 0 {
		return fmt.Sprintf("query literal %s evaluates to %s", c.Lit, univ.Show(res.Vals[0]))
	}
	b, _ := gojq.Marshal(res.Vals[0])
	if p, ok := new(big.Int).SetString(string(b), 10); !ok || p.Cmp(want) != 0 {
		return fmt.Sprintf("query literal %s prints as %s", c.Lit, b)
	}
	// the same digits as a string through tonumber, and in arithmetic
	for _, q := range []string{"\"" + c.Lit + "\" | tonumber", c.Lit + " + 0", "-(-" + c.Lit + ")", "[" + c.Lit + "] | .[0]", "{a: " + c.Lit + "} | .a", c.Lit + " | . * 1", "\"" + c.Lit + "\" | tonumber | . - 0"} {
		code, err := run.Compile(q)
		if err != nil {
			return q + ": " + err.Error()
		}
		res := run.Exec(code, nil, 0, 10)
		if res.Err != nil || len(res.Vals) != 1 {
			return fmt.Sprintf("%s: err=%v outputs=%s", q, res.Err, univ.ShowAll(res.Vals))
		}
		if g, ok := exact(res.Vals[0]); !ok || g.Cmp(want) != 0 {
			return fmt.Sprintf("%s evaluates to %s, want %s", q, univ.Show(res.Vals[0]), want)
		}
	}
	return ""
}

// command-line batches

type cliCase struct {
	Lits  []string `json:"lits"`
	Mode  string   `json:"mode"` // "verbatim" (gojq .) or "float" (gojq '.*1')
	Flags []string `json:"flags"`
}

func checkCLI(c cliCase) string {
	var in strings.Builder
	for _, l := range c.Lits {
		in.WriteString(l)
		in.WriteByte('\n')
	}
	q := "."
	if c.Mode == "float" {
		q = ".*1"
	}
	args := append(append([]string{}, c.Flags...), q)
	r := cmdline.Run(cmdline.Opt{Stdin: []byte(in.String())}, args...)
	if r.TimedOut {
		rec.Discard("cli-timeout")
		return ""
	}
	if r.Exit != 0 {
		return fmt.Sprintf("gojq %v exited %d: %s", args, r.Exit, r.Stderr)
	}
	lines := strings.Split(strings.TrimSuffix(r.Stdout, "\n"), "\n")
	if len(lines) != len(c.Lits) {
		return fmt.Sprintf("gojq %v printed %d lines for %d inputs", args, len(lines), len(c.Lits))
	}
	for i, l := range c.Lits {
		if c.Mode == "verbatim" {
			if lines[i] != l {
				return fmt.Sprintf("gojq %v printed %q for input %q", args, lines[i], l)
			}
			continue
		}
		f, err := strconv.ParseFloat(l, 64)
		if err != nil && !math.IsInf(f, 0) {
			return "bad float literal " + l
		}
		n, _ := univ.ToNum(json.Number(l))
		if n.Int != nil && univ.IsIntLit(l) {
			// integer literal times 1 stays exact
			if p, ok := new(big.Int).SetString(lines[i], 10); !ok || p.Cmp(n.Int) != 0 {
				return fmt.Sprintf("gojq %v printed %q for %s*1", args, lines[i], l)
			}
			continue
		}
		if msg := checkFloatText(f, lines[i]); msg != "" {
			return fmt.Sprintf("gojq %v on %s: %s", args, l, msg)
		}
	}
	return ""
}

// ---------------------------------------------------------------------------

func replayCase(sub string, raw json.RawMessage) string {
	switch sub {
	case "arith", "pairs", "unary":
		var c arithCase
		if err := json.Unmarshal(raw, &c); err != nil {
			return "bad replay: " + err.Error()
		}
		return checkArith(c)
	case "iterated":
		return replayIter(raw)
	case "nary":
		var c naryCase
		if err := json.Unmarshal(raw, &c); err != nil {
			return "bad replay: " + err.Error()
		}
		return checkNary(c)
	case "literal":
		var c litCase
		if err := json.Unmarshal(raw, &c); err != nil {
			return "bad replay: " + err.Error()
		}
		return checkLit(c)
	case "lit-unary":
		var c litUnaryCase
		if err := json.Unmarshal(raw, &c); err != nil {
			return "bad replay: " + err.Error()
		}
		return checkLitUnary(c)
	case "observed":
		var c obsCase
		if err := json.Unmarshal(raw, &c); err != nil {
			return "bad replay: " + err.Error()
		}
		return checkObs(c)
	case "float":
		var c floatCase
		if err := json.Unmarshal(raw, &c); err != nil {
			return "bad replay: " + err.Error()
		}
		return checkFloat(c)
	case "qlit":
		var c qlitCase
		if err := json.Unmarshal(raw, &c); err != nil {
			return "bad replay: " + err.Error()
		}
		return checkQLit(c)
	case "cli":
		var c cliCase
		if err := json.Unmarshal(raw, &c); err != nil {
			return "bad replay: " + err.Error()
		}
		return checkCLI(c)
	}
	return "unknown sub " + sub
}

func TestC10(t *testing.T) {
	rec = evid.Open("C10")
	defer rec.Close()
	rec.Replays(replayCase)
	if rec.ReplayPath() != "" {
		return
	}

	// (E) all ordered pairs of the boundary set, every operator; the
	// representation pair rotates with the index in quick, all pairs of
	// representations in thorough.
	ks := []int{0, 1, 2, 3, 4, 5, 15, 16, 30, 31, 32, 33, 52, 53, 54, 61, 62, 63, 64, 65, 66, 100, 126, 127, 128, 129, 130}
	if rec.Thorough() {
		ks = ks[:0]
		for k := 0; k <= 130; k++ {
			ks = append(ks, k)
		}
	}
	bs := boundary(ks)
	idx := 0
	complete := true
	for i, a := range bs {
		if !rec.Mine(i) {
			continue
		}
		ra := repsOf(a)
		for j, b := range bs {
			rb := repsOf(b)
			for _, op := range binops {
				var combos [][2]string
				if rec.Thorough() {
					for _, x := range ra {
						for _, y := range rb {
							combos = append(combos, [2]string{x, y})
						}
					}
				} else {
					idx++
					combos = [][2]string{{ra[(i+j+idx)%len(ra)], rb[(i*7+j+idx/3)%len(rb)]}}
				}
				for _, cb := range combos {
					c := arithCase{Op: op, A: a.String(), B: b.String(), RepA: cb[0], RepB: cb[1]}
					if msg := doArith("pairs", c); msg != "" {
						rec.Direct("pairs", c, "%s", msg)
						complete = false
						if rec.Violations() > 20 {
							t.Fatalf("too many violations")
						}
					}
				}
			}
		}
		for _, op := range unops {
			for _, x := range ra {
				c := arithCase{Op: op, A: a.String(), B: "0", RepA: x, RepB: "int"}
				if msg := doArith("unary", c); msg != "" {
					rec.Direct("unary", c, "%s", msg)
				}
			}
		}
	}
	rec.Exhaustive(fmt.Sprintf("boundary-pairs(%d values x %d ops)", len(bs), len(binops)), complete)
	rec.Extra("boundary_values", len(bs))

	// (R) random operands
	rec.Rapid(t, "arith", rec.Scale(60000, 3000000), func(t *rapid.T) {
		a := genBig().Draw(t, "a")
		b := genBig().Draw(t, "b")
		op := rapid.SampledFrom(append(append([]string{}, binops...), unops...)).Draw(t, "op")
		c := arithCase{Op: op, A: a.String(), B: b.String(),
			RepA: rapid.SampledFrom(repsOf(a)).Draw(t, "repa"), RepB: rapid.SampledFrom(repsOf(b)).Draw(t, "repb")}
		if msg := doArith("arith", c); msg != "" {
			t.Fatalf("%s", rec.Fail("arith", c, "%s", msg))
		}
	})

	// n-ary sums / products with repeated operand objects
	var nqs []string
	for q := range naryQueries {
		nqs = append(nqs, q)
	}
	sort.Strings(nqs)
	rec.Rapid(t, "nary", rec.Scale(40000, 2000000), func(t *rapid.T) {
		n := rapid.IntRange(1, 5).Draw(t, "n")
		c := naryCase{Query: rapid.SampledFrom(nqs).Draw(t, "query")}
		for i := 0; i < n; i++ {
			same := -1
			if i > 0 && rapid.IntRange(0, 2).Draw(t, "repeat") == 0 {
				same = rapid.IntRange(0, i-1).Draw(t, "same")
				c.Vals, c.Reps = append(c.Vals, c.Vals[same]), append(c.Reps, c.Reps[same])
			} else {
				b := genBig().Draw(t, "v")
				if naryQueries[c.Query] == "prod" && b.BitLen() > 70 {
					b = big.NewInt(int64(b.BitLen()))
				}
				c.Vals, c.Reps = append(c.Vals, b.String()), append(c.Reps, rapid.SampledFrom(repsOf(b)).Draw(t, "rep"))
			}
			c.Same = append(c.Same, same)
		}
		rec.Eval()
		nt := false
		for i, v := range c.Vals {
			b, _ := new(big.Int).SetString(v, 10)
			if !fits(b) || nearEdge(b) || c.Same[i] >= 0 {
				nt = true
			}
		}
		if nt {
			rec.NT("nary/" + fmt.Sprint(c))
		}
		rec.Class("nary/" + naryQueries[c.Query])
		rec.Sample(c)
		if msg := checkNary(c); msg != "" {
			t.Fatalf("%s", rec.Fail("nary", c, "%s", msg))
		}
	})

	rec.Rapid(t, "iterated", rec.Scale(30000, 1500000), func(t *rapid.T) {
		c := drawIter(t)
		rec.Eval()
		rec.NT("iterated/" + fmt.Sprint(c))
		rec.Class("iterated/" + c.Form)
		rec.Sample(c)
		if msg := checkIter(c); msg != "" {
			t.Fatalf("%s", rec.Fail("iterated", c, "%s", msg))
		}
	})

	// literals through the library
	qs := litQueries
	for i, l := range fixedLits {
		if !rec.Mine(i) {
			continue
		}
		for _, q := range qs {
			c := litCase{Lit: l, Query: q}
			rec.Eval()
			rec.NT("lit/" + l + "/" + q)
			if msg := checkLit(c); msg != "" {
				rec.Direct("literal", c, "%s", msg)
			}
		}
	}
	rec.Rapid(t, "literal", rec.Scale(30000, 1000000), func(t *rapid.T) {
		c := litCase{Lit: genLit().Draw(t, "lit"), Query: rapid.SampledFrom(qs).Draw(t, "query")}
		rec.Eval()
		if len(c.Lit) > 3 {
			rec.NT("lit/" + c.Lit + "/" + c.Query)
		}
		rec.Class("literal")
		rec.Sample(c)
		if msg := checkLit(c); msg != "" {
			t.Fatalf("%s", rec.Fail("literal", c, "%s", msg))
		}
	})
	// sign-level operations on literals: every query on the fixed literals, then random
	luq := make([]string, 0, len(litUnaryQueries))
	for q := range litUnaryQueries {
		luq = append(luq, q)
	}
	sort.Strings(luq)
	for li, l := range fixedLits {
		for qi, q := range luq {
			if !rec.Mine(li*len(luq) + qi) {
				continue
			}
			for _, lit := range []string{l, "-" + strings.TrimPrefix(l, "-")} {
				c := litUnaryCase{Lit: lit, Query: q}
				rec.Eval()
				rec.NT("lit-unary/" + lit + "/" + q)
				rec.Class("lit-unary/fixed")
				if msg := checkLitUnary(c); msg != "" {
					rec.Direct("lit-unary", c, "%s", msg)
				}
			}
		}
	}
	rec.Rapid(t, "lit-unary", rec.Scale(20000, 600000), func(t *rapid.T) {
		c := litUnaryCase{Lit: genLit().Draw(t, "lit"), Query: rapid.SampledFrom(luq).Draw(t, "query")}
		rec.Eval()
		rec.NT("lit-unary/" + c.Lit + "/" + c.Query)
		rec.Class("lit-unary")
		rec.Sample(c)
		if msg := checkLitUnary(c); msg != "" {
			t.Fatalf("%s", rec.Fail("lit-unary", c, "%s", msg))
		}
	})

	// literals observed by another filter before they are emitted: every
	// observer x form on a fixed batch, then random batches
	for oi, o := range observers {
		for fi, f := range obsForms {
			if !rec.Mine(oi*len(obsForms) + fi) {
				continue
			}
			for _, obj := range []bool{false, true} {
				c := obsCase{Lits: []string{"3.0", "1.50", "2e0", "-0", "1.000000000000000000001", "5e1000", "100000000000000000000", "1E2"}, Observer: o, Form: f, Object: obj}
				rec.Eval()
				rec.NT("obs/" + o + "/" + f + fmt.Sprint(obj))
				rec.Class("observed/fixed")
				if msg := checkObs(c); msg != "" {
					rec.Direct("observed", c, "%s", msg)
				}
			}
		}
	}
	rec.Rapid(t, "observed", rec.Scale(20000, 600000), func(t *rapid.T) {
		n := rapid.IntRange(1, 4).Draw(t, "n")
		c := obsCase{Observer: rapid.SampledFrom(observers).Draw(t, "observer"), Form: rapid.SampledFrom(obsForms).Draw(t, "form"), Object: rapid.IntRange(0, 3).Draw(t, "object") == 0}
		for i := 0; i < n; i++ {
			if rapid.IntRange(0, 2).Draw(t, "fixed") == 0 {
				c.Lits = append(c.Lits, rapid.SampledFrom(fixedLits).Draw(t, "flit"))
			} else {
				c.Lits = append(c.Lits, genLit().Draw(t, "lit"))
			}
		}
		rec.Eval()
		rec.NT("obs/" + strings.Join(c.Lits, ",") + "/" + c.Observer + "/" + c.Form)
		rec.Class("observed")
		rec.Sample(c)
		if msg := checkObs(c); msg != "" {
			t.Fatalf("%s", rec.Fail("observed", c, "%s", msg))
		}
	})
	rec.Rapid(t, "qlit", rec.Scale(5000, 200000), func(t *rapid.T) {
		x := genBig().Draw(t, "x")
		c := qlitCase{Lit: new(big.Int).Abs(x).String()}
		// jq's number syntax allows leading zeros (decimal, never octal)
		c.Lit = strings.Repeat("0", rapid.SampledFrom([]int{0, 0, 1, 2, 3, 7}).Draw(t, "zeros")) + c.Lit
		rec.Eval()
		if !fits(x) || nearEdge(x) {
			rec.NT("qlit/" + c.Lit)
		}
		rec.Class("query-literal")
		if msg := checkQLit(c); msg != "" {
			t.Fatalf("%s", rec.Fail("qlit", c, "%s", msg))
		}
	})
	rec.Rapid(t, "float", rec.Scale(60000, 3000000), func(t *rapid.T) {
		c := floatCase{Bits: genFloatBits().Draw(t, "bits")}
		rec.Eval()
		rec.NT(fmt.Sprintf("float/%x", c.Bits))
		rec.Class("float")
		rec.Sample(map[string]any{"float": univ.Show(math.Float64frombits(c.Bits))})
		if msg := checkFloat(c); msg != "" {
			t.Fatalf("%s", rec.Fail("float", c, "%s", msg))
		}
	})

	// the command's own encoder (a separate copy): batches of 200 numbers
	rec.Rapid(t, "cli", rec.Scale(60, 1500), func(t *rapid.T) {
		mode := rapid.SampledFrom([]string{"verbatim", "float"}).Draw(t, "mode")
		flags := rapid.SampledFrom([][]string{{"-c"}, {}, {"--tab"}, {"--indent", "0"}, {"-M"}, {"-r"}, {"-j", "-c"}}).Draw(t, "flags")
		if len(flags) > 0 && flags[0] == "-j" {
			flags = []string{"-c"}
		}
		n := 200
		lits := make([]string, 0, n)
		for i := 0; i < n; i++ {
			if mode == "verbatim" {
				if i < len(fixedLits) && rapid.Bool().Draw(t, "fixed") {
					lits = append(lits, fixedLits[i])
				} else {
					lits = append(lits, genLit().Draw(t, "lit"))
				}
			} else {
				f := math.Float64frombits(genFloatBits().Draw(t, "bits"))
				if math.IsNaN(f) {
					f = 0.1
				}
				if math.IsInf(f, 0) {
					if f > 0 {
						lits = append(lits, "1e999")
					} else {
						lits = append(lits, "-1e999")
					}
					continue
				}
				lits = append(lits, strconv.FormatFloat(f, 'g', 17, 64))
			}
		}
		c := cliCase{Lits: lits, Mode: mode, Flags: flags}
		rec.EvalN(int64(n))
		for _, l := range lits {
			rec.NT("cli/" + mode + "/" + l)
		}
		rec.Class("cli/" + mode)
		if msg := checkCLI(c); msg != "" {
			t.Fatalf("%s", rec.Fail("cli", c, "%s", msg))
		}
	})
}
