package c07

import (
	"encoding/json"
	"fmt"
	"strings"
	"testing"

	"github.com/itchyny/gojq"
	"pgregory.net/rapid"

	"verif/internal/run"
	"verif/internal/univ"
)

// ---------------------------------------------------------------------------
// sub-check "interleave": several iterators alive at once (from the same and
// from different *Code values, with and without contexts), advanced, cancelled
// and re-polled in an arbitrary order.  Model: every iterator is independent,
// so whatever the others do
//   - every item it emits is the next item of ITS OWN solo run (computed up
//     front on a fresh Code of the same query and input),
//   - a cancelled context shows within the usual bound (the k-th poll / the
//     first step of the next call) as the context's error,
//   - after the context's error or false every later Next is (nil, false),
//   - an uncancelled iterator ends after exactly its solo sequence.
// After every step all iterators that are already terminal are polled again.

type ilvStep struct {
	Op   string `json:"op"`             // start | next | cancel
	It   int    `json:"it,omitempty"`   // next, cancel: number of the iterator (order of start)
	Prog string `json:"prog,omitempty"` // start
	In   string `json:"in,omitempty"`   // start: input spec
	Ctx  string `json:"ctx,omitempty"`  // start: one of ilvCtxKinds: run (no context), real/cause/cause-child/cause-value (cancellable by a step), count/sentinel/custom (cancelled at poll K), already-done kinds, nodone-* (Done() == nil)
	K    int    `json:"k,omitempty"`
	Via  string `json:"via,omitempty"` // code | query
}

type ilvCase struct {
	N     int       `json:"n"` // poll cap of the solo runs
	Steps []ilvStep `json:"steps"`
}

type liveIter struct {
	st        ilvStep
	it        gojq.Iter
	solo      *refRun
	ctx       fctx // nil: started without a context
	idx       int  // items taken
	preDone   bool // its context was already done at RunWithContext
	terminal  bool
	how       string // what made it terminal
	laterRuns int    // executions started after it became terminal
	polled    int    // polls of the terminal iterator made after a later start
}

type ilvState struct {
	n     int
	iters []*liveIter
	nexts int
}

var soloCache = map[string]*refRun{}

// soloOf: the solo run of (prog, input) on a fresh Code, at most n polls.
func soloOf(prog, in string, n int) (*refRun, error) {
	key := fmt.Sprintf("%d|%s|%s", n, in, prog)
	if r, ok := soloCache[key]; ok {
		return r, nil
	}
	input, err := mkInput(in)
	if err != nil {
		return nil, err
	}
	p, err := prepare(prog, 0) // a fresh Code, used for nothing else
	if err != nil {
		return nil, err
	}
	arm("interleave", ilvCase{N: n, Steps: []ilvStep{{Op: "start", Prog: prog, In: in, Ctx: "count", K: n + 1}}}, "the solo run (cancelled at poll n+1)")
	r := reference(p, input, n)
	disarm()
	soloCache[key] = &r
	return &r, nil
}

func (li *liveIter) name(i int) string {
	return fmt.Sprintf("iterator #%d (%s on %s, context %s)", i, li.st.Prog, li.st.In, li.st.Ctx)
}

// fired: the iterator's context has been cancelled (before the next call).
func (li *liveIter) fired() bool { return li.ctx != nil && li.ctx.Hit() }

// canAdvance: a call of Next is certain to return (the solo run shows an item
// or the end within the cap, or the context is / will be cancelled).
func (li *liveIter) canAdvance() bool {
	switch {
	case li.terminal, li.fired():
		return true
	case li.st.Ctx == "count" || li.st.Ctx == "sentinel" || li.st.Ctx == "custom":
		return true // fires at poll K <= cap, or the run is finite
	}
	return li.solo.ended || li.idx < len(li.solo.items)
}

func (s *ilvState) start(st ilvStep) string {
	solo, err := soloOf(st.Prog, st.In, s.n)
	if err != nil {
		return "bad case: " + err.Error()
	}
	if solo.pan != "" {
		return solo.pan
	}
	p, err := prepareCached(st.Prog, 0) // the Code is shared by all iterators of this query
	if err != nil {
		return "bad case: " + err.Error()
	}
	input, _ := mkInput(st.In)
	input = univ.Copy(input)
	li := &liveIter{st: st, solo: solo}
	switch st.Ctx {
	case "run":
		if st.Via == "query" && p.query != nil {
			li.it = p.query.Run(input)
		} else {
			li.it = p.code.Run(input)
		}
	case "real", "cause", "cause-child", "cause-value":
		rc := newStdCtx(st.Ctx, 0)
		li.ctx = rc
		li.it = p.start(rc, st.Via, input)
	case "precancelled", "pre-cause", "pre-cause-child", "deadline-cause", "timeout-cause", "deadline-cause-value", "raw:pre-cause", "raw:deadline-cause-child":
		rc := newPreCancelled(st.Ctx) // already done at RunWithContext
		li.ctx, li.preDone = rc, true
		li.it = p.start(rc, st.Via, input)
	case "nodone-todo", "nodone-custom", "nodone-value":
		li.it = p.start(newNoDone(st.Ctx), st.Via, input) // Done() == nil: behaves like no context
	case "custom":
		pc := newPollCtx(st.K, errCustom)
		li.ctx = pc
		li.it = p.start(pc, st.Via, input)
	case "sentinel":
		pc := newPollCtx(st.K, errSentinel)
		li.ctx = pc
		li.it = p.start(pc, st.Via, input)
	case "count":
		cc := cctx{run.NewCountCtx(st.K)}
		li.ctx = cc
		li.it = p.start(cc, st.Via, input)
	default:
		return "bad case: ctx " + st.Ctx
	}
	for _, o := range s.iters {
		if o.terminal {
			o.laterRuns++
		}
	}
	s.iters = append(s.iters, li)
	return ""
}

// next advances iterator i once and judges the result against its model.
func (s *ilvState) next(i int, c *ilvCase) string {
	li := s.iters[i]
	firedBefore := li.fired()
	before := 0
	if li.ctx != nil {
		before = li.ctx.N()
	}
	arm("interleave", *c, "a call of Next that the solo run shows to be bounded")
	v, ok, pan := safeNext(li.it)
	disarm()
	s.nexts++
	got := mkItem(v, 0, 0)
	if pan != "" {
		return fmt.Sprintf("%s: Next panicked after %d items: %s", li.name(i), li.idx, pan)
	}
	if li.terminal {
		if li.laterRuns > 0 {
			li.polled++
		}
		if ok || v != nil {
			return fmt.Sprintf("terminal: %s had ended (%s after %d items); %d executions were started since; a later call of Next returned (%s, %v), want (nil, false) for ever", li.name(i), li.how, li.idx, li.laterRuns, got, ok)
		}
		return ""
	}
	polls := 0
	if li.ctx != nil {
		polls = li.ctx.N() - before
	}
	isCtxErr := false
	if err, isErr := v.(error); ok && isErr && li.ctx != nil && li.ctx.Err() != nil && err == li.ctx.Err() {
		isCtxErr = true
	}
	k := li.st.K
	switch {
	case !ok:
		if v != nil {
			return fmt.Sprintf("%s: Next returned (%s, false)", li.name(i), got)
		}
		if li.fired() {
			return fmt.Sprintf("promptness: %s: the context is cancelled (polls %d), Next returned false after %d items instead of the context's error", li.name(i), li.ctx.N(), li.idx)
		}
		if !li.solo.ended || li.idx != len(li.solo.items) {
			return fmt.Sprintf("prefix: %s ended after %d items; its solo run emits %d items (ended within %d polls: %v)", li.name(i), li.idx, len(li.solo.items), s.n, li.solo.ended)
		}
		li.terminal, li.how = true, "false"
	case isCtxErr:
		_, isStd := li.ctx.(*realCtx)
		switch {
		case li.preDone:
			if li.idx != 0 {
				return fmt.Sprintf("promptness: %s: %d items came before the error of a context that was done from the start", li.name(i), li.idx)
			}
		case isStd:
			if !firedBefore || polls != 1 {
				return fmt.Sprintf("promptness: %s: the context's error came back after %d polls of that call (cancelled before the call: %v); want its first step", li.name(i), polls, firedBefore)
			}
		default:
			if li.ctx.N() != k {
				return fmt.Sprintf("promptness: %s: the context's error came back after %d polls, cancellation happened at poll %d", li.name(i), li.ctx.N(), k)
			}
			if want := li.solo.beforePoll(k); li.idx != want {
				return fmt.Sprintf("prefix: %s: %d items before the context's error, its solo run emits %d items before poll %d", li.name(i), li.idx, want, k)
			}
		}
		li.terminal, li.how = true, "context error"
	default:
		if firedBefore || li.fired() {
			return fmt.Sprintf("promptness: %s: Next returned %s although its context is cancelled (ctx.Err() = %v)%s", li.name(i), got, li.ctx.Err(), causeNote(li.ctx, v))
		}
		if li.idx >= len(li.solo.items) {
			return fmt.Sprintf("prefix: %s emitted %s as item #%d; its solo run emits only %d items (ended: %v)", li.name(i), got, li.idx, len(li.solo.items), li.solo.ended)
		}
		if !sameItem(li.solo.items[li.idx], got) {
			return fmt.Sprintf("prefix: %s emitted %s as item #%d; its solo run emits %s there", li.name(i), got, li.idx, li.solo.items[li.idx])
		}
		li.idx++
	}
	return ""
}

// apply executes one step, then polls every terminal iterator once more.
// skipped reports a step that is not applicable in the current state.
func (s *ilvState) apply(st ilvStep, c *ilvCase) (msg string, skipped bool) {
	switch st.Op {
	case "start":
		if msg := s.start(st); msg != "" {
			return msg, false
		}
	case "next":
		if st.It < 0 || st.It >= len(s.iters) || !s.iters[st.It].canAdvance() {
			return "", true
		}
		if msg := s.next(st.It, c); msg != "" {
			return msg, false
		}
	case "cancel":
		if st.It < 0 || st.It >= len(s.iters) {
			return "", true
		}
		rc, ok := s.iters[st.It].ctx.(*realCtx)
		if !ok || rc.fired {
			return "", true
		}
		rc.fire()
	default:
		return "bad case: op " + st.Op, false
	}
	for i, li := range s.iters {
		if li.terminal {
			if msg := s.next(i, c); msg != "" {
				return msg, false
			}
		}
	}
	return "", false
}

// finish drives every iterator that can still be advanced to its end; the
// steps are appended to the case.
func (s *ilvState) finish(c *ilvCase) string {
	for i, li := range s.iters {
		for n := 0; !li.terminal && li.canAdvance() && n <= len(li.solo.items)+2; n++ {
			st := ilvStep{Op: "next", It: i}
			c.Steps = append(c.Steps, st)
			if msg, _ := s.apply(st, c); msg != "" {
				return msg
			}
		}
		if !li.terminal && li.canAdvance() {
			return fmt.Sprintf("prefix: %s is still not at its end after %d items; its solo run has %d", li.name(i), li.idx, len(li.solo.items))
		}
	}
	return ""
}

func (s *ilvState) release() {
	for _, li := range s.iters {
		if rc, ok := li.ctx.(*realCtx); ok {
			rc.cancel()
		}
	}
}

// checkInterleave replays a stored history.
func checkInterleave(c ilvCase) string {
	for _, st := range c.Steps { // the solo runs come first
		if st.Op == "start" {
			if _, err := soloOf(st.Prog, st.In, c.N); err != nil {
				return "bad case: " + err.Error()
			}
		}
	}
	s := &ilvState{n: c.N}
	defer s.release()
	steps := c.Steps
	c.Steps = nil
	for _, st := range steps {
		c.Steps = append(c.Steps, st)
		if msg, _ := s.apply(st, &c); msg != "" {
			return msg
		}
	}
	return ""
}

// ilvCtxKinds: how the state machine starts an iterator.
var ilvCtxKinds = []string{"run", "run", "real", "real", "count", "sentinel", "custom", "cause", "cause", "cause-child", "cause-value",
	"precancelled", "pre-cause", "pre-cause-child", "deadline-cause", "timeout-cause", "deadline-cause-value", "raw:pre-cause", "raw:deadline-cause-child",
	"nodone-todo", "nodone-custom", "nodone-value"}

type ilvProg struct{ src, in string }

// ilvPool: the fixed programs that keep no state outside the interpreter
// (no tick, no input iterator, no variables) plus some short ones.
func ilvPool() (all, short []ilvProg) {
	short = []ilvProg{
		{"range(10; 13)", "null"}, {"1, 2, 3", "null"}, {"empty", "null"}, {".", "num:7"}, {".[]", "ints:4"}, {"[range(4)]", "null"},
		{"limit(3; repeat(\"x\"))", "null"}, {"first(range(7; infinite))", "null"}, {"label $l | 1, break $l, 2", "null"}, {"try error(\"x\") catch .", "null"},
		{"range(5) | if . == 2 then error else . end", "null"}, {".[] |= . + 1", "ints:3"}, {"path(..)", "tree:2"}, {"reduce range(20) as $i (0; . + $i)", "null"},
		{"error(\"only\")", "null"}, {"range(3) as $i | range($i)", "null"}, {"{a: (1, 2)}", "null"}, {"repeat(1)", "null"}, {"range(infinite)", "null"},
		{"def f: f; f", "null"}, {"range(infinite) | empty", "null"}, {".[] | tostring", "ints:5"}, {"to_entries", "obj:3"}, {"1 as $x | 2 as $y | [$x, $y]", "null"},
	}
	all = append(all, short...)
	for _, fp := range fixedProgs {
		if fp.vars == 0 && !strings.Contains(fp.src, "tick") && !strings.Contains(fp.src, "input") {
			all = append(all, ilvProg{fp.src, fp.in})
		}
	}
	return all, short
}

// ilvRecord files the evidence of one history.
func ilvRecord(s *ilvState, c ilvCase) {
	rec.EvalN(int64(s.nexts) + 1)
	rePolled, kinds := 0, map[string]bool{}
	for _, li := range s.iters {
		rePolled += li.polled
		kinds[li.st.Ctx] = true
		if li.terminal {
			rec.Class("interleave/ended-by/" + strings.ReplaceAll(li.how, " ", "-"))
		}
	}
	for k := range kinds {
		rec.Class("interleave/ctx/" + k)
	}
	rec.Class(fmt.Sprintf("interleave/iterators/%d", len(s.iters)))
	if rePolled > 0 {
		rec.Class("interleave/terminal-iterator-polled-after-a-later-start")
		if b, err := json.Marshal(c); err == nil {
			rec.NT("i|" + string(b))
		}
	}
}

// interleaveScripted: the three-step history for every ordered pair of short
// programs: A is driven to its end in one of three ways, B is started and
// advanced j times, A is polled again, B is drained.
func interleaveScripted(n int) {
	_, short := ilvPool()
	for _, p := range short {
		if _, err := soloOf(p.src, p.in, n); err != nil {
			rec.Direct("interleave", ilvCase{N: n, Steps: []ilvStep{{Op: "start", Prog: p.src, In: p.in, Ctx: "run"}}}, "bad pool entry: %v", err)
			return
		}
	}
	idx := 0
	for _, a := range short {
		for _, b := range short {
			for mode := 0; mode < 3; mode++ {
				for j := 0; j < 2; j++ {
					idx++
					if !rec.Mine(idx) {
						continue
					}
					sa, _ := soloOf(a.src, a.in, n)
					sb, _ := soloOf(b.src, b.in, n)
					c := ilvCase{N: n}
					s := &ilvState{n: n}
					do := func(st ilvStep) string {
						c.Steps = append(c.Steps, st)
						msg, _ := s.apply(st, &c)
						return msg
					}
					msg := ""
					steps := []ilvStep{}
					switch mode {
					case 0: // exhaustion (or cancellation at the last poll of the cap when A is endless)
						k := n
						if sa.ended {
							k = sa.total + 1
						}
						steps = append(steps, ilvStep{Op: "start", Prog: a.src, In: a.in, Ctx: "count", K: k, Via: "code"})
						for x := 0; x <= len(sa.items)+1; x++ {
							steps = append(steps, ilvStep{Op: "next", It: 0})
						}
					case 1: // the consumer cancels after at most two items
						steps = append(steps, ilvStep{Op: "start", Prog: a.src, In: a.in, Ctx: "real", Via: "query"})
						for x := 0; x < 2 && x < len(sa.items); x++ {
							steps = append(steps, ilvStep{Op: "next", It: 0})
						}
						steps = append(steps, ilvStep{Op: "cancel", It: 0}, ilvStep{Op: "next", It: 0}, ilvStep{Op: "next", It: 0})
					default: // cancelled in the middle of the run
						k := sa.total/2 + 1
						steps = append(steps, ilvStep{Op: "start", Prog: a.src, In: a.in, Ctx: "sentinel", K: k, Via: "code"})
						for x := 0; x <= sa.beforePoll(k)+1; x++ {
							steps = append(steps, ilvStep{Op: "next", It: 0})
						}
					}
					bctx := []string{"run", "real", "count", "cause", "pre-cause", "nodone-custom", "deadline-cause"}[(idx/7)%7]
					steps = append(steps, ilvStep{Op: "start", Prog: b.src, In: b.in, Ctx: bctx, K: min(n, sb.total) + 1 - (idx/3)%2, Via: []string{"code", "query"}[idx%2]})
					for x := 0; x < j; x++ {
						steps = append(steps, ilvStep{Op: "next", It: 1})
					}
					steps = append(steps, ilvStep{Op: "next", It: 0}, ilvStep{Op: "next", It: 0}, ilvStep{Op: "start", Prog: a.src, In: a.in, Ctx: "run", Via: "code"}, ilvStep{Op: "next", It: 0})
					for _, st := range steps {
						if msg = do(st); msg != "" {
							break
						}
					}
					if msg == "" {
						msg = s.finish(&c)
					}
					s.release()
					ilvRecord(s, c)
					if msg != "" {
						rec.Direct("interleave", c, "%s", msg)
						if rec.Violations() > 6 {
							return
						}
					}
				}
			}
		}
	}
	rec.Exhaustive(fmt.Sprintf("interleaved histories: %d x %d ordered pairs of short programs x 3 ways to end the first x 0..1 items taken from the second before the first is polled again", len(short), len(short)), true)
}

// interleaveRapid: the state machine.
func interleaveRapid(t *testing.T, n, checks int) {
	all, short := ilvPool()
	for _, p := range all { // every solo run is made before any history starts
		if _, err := soloOf(p.src, p.in, n); err != nil {
			t.Fatalf("interleave pool %q: %v", p.src, err)
		}
	}
	rec.Rapid(t, "interleave", checks, func(t *rapid.T) {
		c := ilvCase{N: n}
		s := &ilvState{n: n}
		defer s.release()
		fail := func(msg string) {
			ilvRecord(s, c)
			t.Fatalf("%s", rec.Fail("interleave", c, "%s", msg))
		}
		do := func(st ilvStep) {
			c.Steps = append(c.Steps, st)
			msg, skipped := s.apply(st, &c)
			if skipped {
				c.Steps = c.Steps[:len(c.Steps)-1]
			}
			if msg != "" {
				fail(msg)
			}
		}
		start := func(t *rapid.T) {
			pool := all
			if rapid.IntRange(0, 2).Draw(t, "short") > 0 {
				pool = short
			}
			p := rapid.SampledFrom(pool).Draw(t, "prog")
			solo, _ := soloOf(p.src, p.in, n)
			st := ilvStep{Op: "start", Prog: p.src, In: p.in,
				Ctx: rapid.SampledFrom(ilvCtxKinds).Draw(t, "ctx"),
				Via: rapid.SampledFrom([]string{"code", "query"}).Draw(t, "via")}
			if st.Ctx == "count" || st.Ctx == "sentinel" || st.Ctx == "custom" {
				st.K = rapid.IntRange(1, min(n, solo.total)+1).Draw(t, "k")
			}
			do(st)
		}
		which := func(f func(*liveIter) bool) []int {
			var is []int
			for i, li := range s.iters {
				if f(li) {
					is = append(is, i)
				}
			}
			return is
		}
		start(t)
		// one total action: the kind of step is drawn among those that are
		// applicable in the current state (no skipped actions)
		t.Repeat(map[string]func(*rapid.T){
			"step": func(t *rapid.T) {
				adv := which(func(li *liveIter) bool { return !li.terminal && li.canAdvance() })
				can := which(func(li *liveIter) bool { rc, ok := li.ctx.(*realCtx); return ok && !rc.fired })
				term := which(func(li *liveIter) bool { return li.terminal })
				var kinds []string
				if len(s.iters) < 6 {
					kinds = append(kinds, "start")
				}
				if len(adv) > 0 {
					kinds = append(kinds, "next", "next", "next")
				}
				if len(can) > 0 {
					kinds = append(kinds, "cancel")
				}
				if len(term) > 0 {
					kinds = append(kinds, "poll-terminal")
				}
				if len(kinds) == 0 {
					return // six iterators, every one waiting for nothing: the history is over
				}
				switch rapid.SampledFrom(kinds).Draw(t, "kind") {
				case "start":
					start(t)
				case "next":
					do(ilvStep{Op: "next", It: rapid.SampledFrom(adv).Draw(t, "it")})
				case "cancel":
					do(ilvStep{Op: "cancel", It: rapid.SampledFrom(can).Draw(t, "it")})
				default:
					do(ilvStep{Op: "next", It: rapid.SampledFrom(term).Draw(t, "it")})
				}
			},
		})
		if msg := s.finish(&c); msg != "" {
			fail(msg)
		}
		ilvRecord(s, c)
		if len(c.Steps) > 8 {
			rec.Sample(map[string]any{"sub": "interleave", "steps": c.Steps})
		}
	})
}
