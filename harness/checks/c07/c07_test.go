// C07 — cancellation is prompt, prefix-consistent and terminal.
//
// Oracle: deterministic fault injection.  A context whose Done() counts the
// interpreter's polls is cancelled at the k-th poll (run.CountCtx; no clock).
// One uncancelled reference run of the same program records, for every item
// it emits, the poll count at emission; the run cancelled at poll k must emit
// exactly the reference items with poll count < k, then the context's own
// error from the very Next call in which poll k happened (no further poll),
// then (nil, false) for ever.  A second injector cancels a real context from
// inside the n-th call of a Go function the program calls: not one further
// native call, emission or second poll may happen before the error comes
// back.  Independently: Next after a natural end stays false; Next after an
// emitted error value never panics; one-shot error iterators (compile error,
// variable-count mismatch) emit once and then end, whatever the context.
package c07

import (
	"context"
	"encoding/json"
	"errors"
	"fmt"
	"sort"
	"strconv"
	"strings"
	"testing"

	"github.com/itchyny/gojq"
	"pgregory.net/rapid"

	"verif/internal/evid"
	"verif/internal/gen"
	"verif/internal/refjq"
	"verif/internal/run"
	"verif/internal/univ"
)

var (
	rec   *evid.Rec
	model *refjq.Interp
)

const (
	classAfterEnd = "C07/next-after-end"           // C07.F1
	classPathIter = "C07/invalid-path-iter-resume" // C07.F2
)

// ---------------------------------------------------------------------------
// inputs

// mkInput builds the input named by spec: "null", "json:<text>", "ints:N"
// ([0..N-1]), "obj:N" ({"k000":0,..}), "str:N" ("ab," N times), "tree:D" (a
// full binary tree of arrays and objects of depth D), "num:<n>".
func mkInput(spec string) (any, error) {
	arg := func() (int, error) { return strconv.Atoi(spec[strings.IndexByte(spec, ':')+1:]) }
	switch {
	case spec == "" || spec == "null":
		return nil, nil
	case strings.HasPrefix(spec, "json:"):
		d := json.NewDecoder(strings.NewReader(spec[5:]))
		d.UseNumber()
		var x any
		if err := d.Decode(&x); err != nil {
			return nil, err
		}
		return normJSON(x), nil
	case strings.HasPrefix(spec, "num:"):
		n, err := arg()
		return n, err
	case strings.HasPrefix(spec, "ints:"):
		n, err := arg()
		a := make([]any, n)
		for i := range a {
			a[i] = i
		}
		return a, err
	case strings.HasPrefix(spec, "obj:"):
		n, err := arg()
		m := make(map[string]any, n)
		for i := 0; i < n; i++ {
			m[fmt.Sprintf("k%03d", i)] = i
		}
		return m, err
	case strings.HasPrefix(spec, "str:"):
		n, err := arg()
		return strings.Repeat("ab,", n), err
	case strings.HasPrefix(spec, "tree:"):
		d, err := arg()
		ctr := 0
		return mkTree(d, &ctr), err
	}
	return nil, fmt.Errorf("unknown input spec %q", spec)
}

func mkTree(d int, ctr *int) any {
	if d <= 0 {
		*ctr++
		return *ctr
	}
	if d%2 == 0 {
		return map[string]any{"a": mkTree(d-1, ctr), "b": mkTree(d-1, ctr)}
	}
	return []any{mkTree(d-1, ctr), mkTree(d-1, ctr)}
}

func normJSON(x any) any {
	switch x := x.(type) {
	case json.Number:
		if i, err := strconv.Atoi(string(x)); err == nil {
			return i
		}
		f, _ := x.Float64()
		return f
	case []any:
		for i := range x {
			x[i] = normJSON(x[i])
		}
	case map[string]any:
		for k := range x {
			x[k] = normJSON(x[k])
		}
	}
	return x
}

// inputOf resolves the input of a case: an explicit value wins over a spec.
func inputOf(spec string, v *univ.V) (any, error) {
	if v != nil {
		return v.X, nil
	}
	return mkInput(spec)
}

func showShort(v any) string {
	s := univ.Show(v)
	if len(s) > 160 {
		s = s[:160] + "..."
	}
	return s
}

// ---------------------------------------------------------------------------
// the reference run

type item struct {
	v     any
	isErr bool
	etype string
	emsg  string
	polls int // polls of Done() when the item was returned
	ticks int // calls of tick when the item was returned
}

func (it item) String() string {
	if it.isErr {
		return fmt.Sprintf("error %s(%q)", it.etype, it.emsg)
	}
	return showShort(it.v)
}

const errorPanicked = "PANIC in Error(): "

// errText renders an error value returned by Next; a panic inside its Error
// method is part of the observation (and a violation where it is judged).
func errText(err error) (s string) {
	defer func() {
		if r := recover(); r != nil {
			s = errorPanicked + fmt.Sprint(r)
		}
	}()
	return err.Error()
}

func mkItem(v any, polls, ticks int) item {
	if err, ok := v.(error); ok {
		return item{isErr: true, etype: fmt.Sprintf("%T", err), emsg: errText(err), polls: polls, ticks: ticks}
	}
	return item{v: v, polls: polls, ticks: ticks}
}

func sameItem(a, b item) bool {
	if a.isErr != b.isErr {
		return false
	}
	if a.isErr {
		return a.etype == b.etype && a.emsg == b.emsg
	}
	return univ.Same(a.v, b.v)
}

type refRun struct {
	items []item
	total int  // polls when the run ended naturally, or the cap n
	ended bool // the iterator returned false within n polls
	ticks int  // tick calls within the run
	pan   string
}

// before counts the reference items emitted with fewer than k polls / n ticks.
func (r *refRun) beforePoll(k int) int {
	return sort.Search(len(r.items), func(i int) bool { return r.items[i].polls >= k })
}
func (r *refRun) beforeTick(n int) int {
	return sort.Search(len(r.items), func(i int) bool { return r.items[i].ticks >= n })
}

// reference runs the program uncancelled for at most n polls.
func reference(p *prepared, input any, n int) (r refRun) {
	ctx := run.NewCountCtx(n + 1)
	p.hold.reset(0, nil)
	it := p.start(ctx, "code", univ.Copy(input))
	for {
		before := ctx.Polls
		v, ok, pan := safeNext(it)
		if pan != "" {
			r.pan = fmt.Sprintf("gojq panicked in the uncancelled run after %d items (last: %s): %s", len(r.items), lastItem(r.items), pan)
			return r
		}
		if ok && ctx.Polls == before {
			// every step polls: a Next call that executes at least the
			// returning instruction cannot leave the poll count unchanged
			r.pan = fmt.Sprintf("promptness: Next returned item #%d %s without polling Done() once (polls stay at %d): steps that do not poll cannot be cancelled", len(r.items), mkItem(v, 0, 0), before)
			return r
		}
		if !ok {
			r.ended, r.total, r.ticks = true, ctx.Polls, p.hold.ticks
			return r
		}
		if err, isErr := v.(error); isErr && ctx.Fired() && err == context.Canceled {
			r.total, r.ticks = n, p.hold.ticks
			return r
		}
		r.items = append(r.items, mkItem(v, ctx.Polls, p.hold.ticks))
	}
}

func lastItem(items []item) string {
	if len(items) == 0 {
		return "none"
	}
	return items[len(items)-1].String()
}

// ---------------------------------------------------------------------------
// sub-check "cancel": cancellation at the k-th poll

type cancelCase struct {
	Prog  string  `json:"prog"`
	In    string  `json:"in,omitempty"`
	Input *univ.V `json:"input,omitempty"`
	Vars  int     `json:"vars,omitempty"`
	N     int     `json:"n"`             // poll cap of the reference run
	K     int     `json:"k"`             // the context is cancelled at the K-th poll of Done()
	Ctx   string  `json:"ctx,omitempty"` // at poll K: count (run.CountCtx) | sentinel | custom | cause | cause-child | cause-value; K = 0: one of preDoneKinds ("raw:" = unwrapped) or noDoneKinds; between[:kind] (K = items taken before cancel())
	Via   string  `json:"via,omitempty"` // code (Code.RunWithContext) | query (Query.RunWithContext)
}

func mkCtx(kind string, k int) fctx {
	switch kind {
	case "sentinel":
		return newPollCtx(k, errSentinel)
	case "custom":
		return newPollCtx(k, errCustom)
	case "precancelled", "deadline":
		return newPreCancelled(kind)
	}
	if isStdKind(kind) {
		return newStdCtx(kind, k) // a standard context that gets cancelled (with its cause) at its k-th poll
	}
	return cctx{run.NewCountCtx(k)}
}

// cancelAt is the oracle for one cancellation point.
func cancelAt(p *prepared, c cancelCase, input any, ref *refRun, k int) string {
	ctx := mkCtx(c.Ctx, k)
	p.hold.reset(0, nil)
	it := p.start(ctx, c.Via, univ.Copy(input))
	idx := 0
	for {
		start := ctx.N()
		v, ok, pan := safeNext(it)
		if pan != "" {
			return fmt.Sprintf("cancelled at poll %d: gojq panicked after %d items and %d polls: %s", k, idx, ctx.N(), pan)
		}
		if !ok {
			if ref.ended && k > ref.total {
				if idx != len(ref.items) {
					return fmt.Sprintf("context never cancelled (k=%d beyond the %d polls of the run): %d items emitted, the reference run emitted %d", k, ref.total, idx, len(ref.items))
				}
				return ""
			}
			return fmt.Sprintf("cancelled at poll %d: Next returned false after %d polls and %d items; the context's error was never returned", k, ctx.N(), idx)
		}
		if err, isErr := v.(error); isErr && ctx.Err() != nil && err == ctx.Err() {
			if ctx.N() != k {
				return fmt.Sprintf("promptness: the context's error came back after %d polls of Done(), cancellation happened at poll %d (that Next call started at poll %d)", ctx.N(), k, start)
			}
			if want := ref.beforePoll(k); idx != want {
				return fmt.Sprintf("prefix: cancelled at poll %d, %d items were emitted before the context's error; the uncancelled run emits %d items before its poll %d", k, idx, want, k)
			}
			break
		}
		got := mkItem(v, ctx.N(), 0)
		if ctx.N() >= k {
			return fmt.Sprintf("promptness: Next returned %s after %d polls although the context was cancelled at poll %d; the next step must return the context's error (ctx.Err() = %v)%s", got, ctx.N(), k, ctx.Err(), causeNote(ctx, v))
		}
		if idx >= len(ref.items) {
			return fmt.Sprintf("prefix: cancelled at poll %d, item #%d %s is not emitted by the uncancelled run (%d items in %d polls)", k, idx, got, len(ref.items), ref.total)
		}
		if !sameItem(ref.items[idx], got) {
			return fmt.Sprintf("prefix: cancelled at poll %d, item #%d is %s, the uncancelled run emits %s", k, idx, got, ref.items[idx])
		}
		idx++
	}
	for j := 1; j <= 3; j++ {
		v, ok, pan := safeNext(it)
		if pan != "" {
			return fmt.Sprintf("terminal: cancelled at poll %d, call #%d of Next after the context's error panicked: %s", k, j, pan)
		}
		if ok || v != nil {
			return fmt.Sprintf("terminal: cancelled at poll %d, call #%d of Next after the context's error returned (%s, %v); want (nil, false)", k, j, mkItem(v, 0, 0), ok)
		}
	}
	return ""
}

// checkCancel judges one stored case (replay, shrinking): reference + one k.
func checkCancel(sub string, c cancelCase) string {
	input, err := inputOf(c.In, c.Input)
	if err != nil {
		return "bad case: " + err.Error()
	}
	p, err := prepare(c.Prog, c.Vars)
	if err != nil {
		return "bad case: " + err.Error()
	}
	arm(sub, c, "the reference run (cancelled at poll n+1)")
	ref := reference(p, input, c.N)
	disarm()
	if ref.pan != "" {
		return ref.pan
	}
	switch {
	case isNoDone(c.Ctx):
		arm(sub, c, "the run under a context that cannot be cancelled, as far as the reference run shows it to be bounded")
		defer disarm()
		return neverDoneAt(p, c, input, &ref)
	case isPreDone(c.Ctx) && c.K == 0:
		arm(sub, c, "the run under a context that is already done")
		defer disarm()
		return preDoneAt(p, c, input)
	case c.K < 1:
		return ""
	}
	arm(sub, c, "the run cancelled at poll k")
	defer disarm()
	return cancelAt(p, c, input, &ref, c.K)
}

// preDoneAt: the context is already done when RunWithContext is called (K = 0).
// The first Next must deliver exactly ctx.Err() - not the cause a user gave to
// the cancellation, not a copy - and the iterator is exhausted afterwards.
func preDoneAt(p *prepared, c cancelCase, input any) string {
	var ctx context.Context
	if strings.TrimPrefix(c.Ctx, "raw:") == "pre-custom" {
		pc := newPollCtx(0, errCustom)
		pc.fire()
		ctx = pc
	} else {
		rc := newPreCancelled(c.Ctx)
		defer rc.cancel()
		ctx = rc
	}
	want := ctx.Err()
	if want == nil {
		return "bad case: the context is not done"
	}
	p.hold.reset(0, nil)
	it := p.start(ctx, c.Via, univ.Copy(input))
	v, ok, pan := safeNext(it)
	if pan != "" {
		return fmt.Sprintf("context %s already done: the first Next panicked: %s", c.Ctx, pan)
	}
	err, isErr := v.(error)
	if !ok || !isErr || err != want || !errors.Is(err, want) {
		return fmt.Sprintf("context %s is already done when RunWithContext (%s) is called: the first Next returned (%s, %v); want exactly ctx.Err() = %v%s", c.Ctx, c.Via, mkItem(v, 0, 0), ok, want, causeNote(ctx, v))
	}
	for j := 1; j <= 3; j++ {
		v, ok, pan := safeNext(it)
		if pan != "" {
			return fmt.Sprintf("terminal: context %s already done, call #%d of Next after the context's error panicked: %s", c.Ctx, j, pan)
		}
		if ok || v != nil {
			return fmt.Sprintf("terminal: context %s already done, call #%d of Next after the context's error returned (%s, %v); want (nil, false)", c.Ctx, j, mkItem(v, 0, 0), ok)
		}
	}
	return ""
}

// neverDoneAt: a context whose Done() is nil can never be cancelled; the run
// is the uncancelled run (as far as the reference shows each Next to return).
func neverDoneAt(p *prepared, c cancelCase, input any, ref *refRun) string {
	ctx := newNoDone(c.Ctx)
	p.hold.reset(0, nil)
	it := p.start(ctx, c.Via, univ.Copy(input))
	for idx := range ref.items {
		v, ok, pan := safeNext(it)
		if pan != "" {
			return fmt.Sprintf("context %s: Next panicked at item #%d: %s", c.Ctx, idx, pan)
		}
		if got := mkItem(v, 0, 0); !ok || !sameItem(ref.items[idx], got) {
			return fmt.Sprintf("prefix: context %s (Done() == nil, never cancelled): item #%d is (%s, %v), the reference run emits %s", c.Ctx, idx, got, ok, ref.items[idx])
		}
	}
	if !ref.ended {
		return "" // an endless run: the iterator is abandoned
	}
	for j := 1; j <= 3; j++ {
		v, ok, pan := safeNext(it)
		if pan != "" {
			return fmt.Sprintf("context %s: call #%d of Next at the end panicked: %s", c.Ctx, j, pan)
		}
		if ok || v != nil {
			return fmt.Sprintf("context %s (Done() == nil): call #%d of Next after the %d items of the reference run returned (%s, %v); want (nil, false)", c.Ctx, j, len(ref.items), mkItem(v, 0, 0), ok)
		}
	}
	return ""
}

// ksFor lists the cancellation points examined for a reference run: all of
// 1..min(n,total) in the thorough tier; in the quick tier all k <= dense,
// then every stride-th, plus the last few.
func ksFor(ref *refRun, n int, dense, stride int) []int {
	limit := n
	if ref.total < limit {
		limit = ref.total
	}
	var ks []int
	for k := 1; k <= limit; k++ {
		if k <= dense || stride <= 1 || k%stride == 0 || k > limit-6 {
			ks = append(ks, k)
		}
	}
	if ref.ended && ref.total < n {
		ks = append(ks, ref.total+1) // beyond the end: never fires
	}
	return ks
}

func ctxKindFor(k int) string {
	switch {
	case k%8 == 3:
		return "sentinel"
	case k%8 == 7:
		return "custom" // own context type, own error type
	case k%16 == 1:
		return "cause" // context.WithCancelCause cancelled with a cause at its k-th poll
	case k%32 == 9:
		return "cause-child"
	case k%32 == 25:
		return "cause-value"
	}
	return "count"
}

func tickKindFor(n int) string {
	return []string{"real", "sentinel", "cause", "sentinel", "cause-child", "sentinel", "cause-value", "sentinel"}[n%8]
}

// ---------------------------------------------------------------------------
// sub-check "tick": cancellation from inside the n-th call of a Go function

type tickCase struct {
	Prog  string  `json:"prog"`
	In    string  `json:"in,omitempty"`
	Input *univ.V `json:"input,omitempty"`
	N     int     `json:"n"`   // poll cap of the reference run
	Nth   int     `json:"nth"` // cancel() is called inside the Nth call of tick / Next of ticks
	Ctx   string  `json:"ctx"` // sentinel | real
}

func tickAt(p *prepared, c tickCase, input any, ref *refRun, n int) string {
	var ctx fctx
	if isStdKind(c.Ctx) {
		rc := newStdCtx(c.Ctx, 0)
		defer rc.cancel()
		p.hold.reset(n, rc.fire)
		ctx = rc
	} else {
		pc := newPollCtx(c.N+2, errSentinel) // the cap only guards against a run that loses the n-th tick
		p.hold.reset(n, pc.fire)
		ctx = pc
	}
	h := p.hold
	it := p.start(ctx, "code", univ.Copy(input))
	idx := 0
	for {
		v, ok, pan := safeNext(it)
		if pan != "" {
			return fmt.Sprintf("cancel() inside tick #%d: gojq panicked after %d items: %s", n, idx, pan)
		}
		if !ok {
			return fmt.Sprintf("cancel() inside tick #%d: Next returned false after %d items (%d ticks); the context's error was never returned", n, idx, h.ticks)
		}
		if err, isErr := v.(error); isErr && ctx.Err() != nil && err == ctx.Err() {
			if h.ticks < n {
				return fmt.Sprintf("prefix: tick #%d was never reached within %d polls (%d ticks), the uncancelled run reaches it", n, ctx.N(), h.ticks)
			}
			if h.ticks != n {
				return fmt.Sprintf("promptness: cancel() was called inside tick #%d, yet %d further native calls ran before the context's error came back", n, h.ticks-n)
			}
			if d := ctx.N() - ctx.HitAt(); d != 1 {
				return fmt.Sprintf("promptness: %d polls of Done() happened between cancel() (inside tick #%d) and the return of the context's error; the next step must return it (want exactly 1)", d, n)
			}
			if want := ref.beforeTick(n); idx != want {
				return fmt.Sprintf("prefix: cancel() inside tick #%d: %d items were emitted before the context's error, the uncancelled run emits %d items before its tick #%d", n, idx, want, n)
			}
			break
		}
		got := mkItem(v, 0, h.ticks)
		if ctx.Hit() {
			return fmt.Sprintf("promptness: Next returned %s although cancel() had been called inside tick #%d; the next step must return the context's error (ctx.Err() = %v)%s", got, n, ctx.Err(), causeNote(ctx, v))
		}
		if idx >= len(ref.items) {
			return fmt.Sprintf("prefix: cancel() inside tick #%d: item #%d %s is not emitted by the uncancelled run", n, idx, got)
		}
		if !sameItem(ref.items[idx], got) {
			return fmt.Sprintf("prefix: cancel() inside tick #%d: item #%d is %s, the uncancelled run emits %s", n, idx, got, ref.items[idx])
		}
		idx++
	}
	for j := 1; j <= 3; j++ {
		v, ok, pan := safeNext(it)
		if pan != "" {
			return fmt.Sprintf("terminal: call #%d of Next after the context's error panicked: %s", j, pan)
		}
		if ok || v != nil {
			return fmt.Sprintf("terminal: call #%d of Next after the context's error returned (%s, %v); want (nil, false)", j, mkItem(v, 0, 0), ok)
		}
		if h.ticks != n {
			return fmt.Sprintf("terminal: call #%d of Next after the context's error ran the program further (%d native calls)", j, h.ticks-n)
		}
	}
	return ""
}

func checkTick(sub string, c tickCase) string {
	input, err := inputOf(c.In, c.Input)
	if err != nil {
		return "bad case: " + err.Error()
	}
	p, err := prepare(c.Prog, 0)
	if err != nil {
		return "bad case: " + err.Error()
	}
	arm(sub, c, "the reference run (cancelled at poll n+1)")
	ref := reference(p, input, c.N)
	disarm()
	if ref.pan != "" {
		return ref.pan
	}
	if c.Nth < 1 || c.Nth > ref.ticks {
		return ""
	}
	arm(sub, c, "the run cancelled inside tick #nth")
	defer disarm()
	return tickAt(p, c, input, &ref, c.Nth)
}

// ---------------------------------------------------------------------------
// sub-check "one-shot": compile errors and variable-count mismatches

type oneCase struct {
	Kind   string `json:"kind"`  // compile | vars
	Prog   string `json:"prog"`  // compile: a query that does not compile; vars: any query
	Names  int    `json:"names"` // vars: number of declared variables $v0..
	Values int    `json:"values"`
	Ctx    string `json:"ctx"` // background | count-never | count-1 | sentinel-1 | precancelled | deadline
}

func oneCtx(kind string) (context.Context, bool) {
	switch kind {
	case "count-never":
		return run.NewCountCtx(0), false
	case "count-1":
		return run.NewCountCtx(1), false // would fire at its first poll (it is never polled)
	case "sentinel-1":
		return newPollCtx(1, errSentinel), false
	case "precancelled", "deadline", "pre-cause", "deadline-cause", "raw:pre-cause-child":
		return newPreCancelled(kind).arg(), true
	}
	return context.Background(), false
}

func checkOne(c oneCase) string {
	ctx, cancelled := oneCtx(c.Ctx)
	q, err := gojq.Parse(c.Prog)
	if err != nil {
		return "bad case: parse: " + err.Error()
	}
	var it gojq.Iter
	var wantSub string
	switch c.Kind {
	case "compile":
		_, cerr := gojq.Compile(q)
		if cerr == nil {
			return "bad case: the query compiles"
		}
		wantSub = cerr.Error()
		it = q.RunWithContext(ctx, nil)
	case "vars":
		names := make([]string, c.Names)
		for i := range names {
			names[i] = fmt.Sprintf("$v%d", i)
		}
		code, cerr := gojq.Compile(q, gojq.WithVariables(names))
		if cerr != nil {
			return "bad case: compile: " + cerr.Error()
		}
		if c.Values == c.Names {
			return "bad case: no mismatch"
		}
		if c.Values < c.Names {
			wantSub = names[c.Values] // the first unbound variable is named
		}
		vals := make([]any, c.Values)
		for i := range vals {
			vals[i] = i
		}
		it = code.RunWithContext(ctx, nil, vals...)
	default:
		return "bad case: kind"
	}
	arm("one-shot", c, "the first call of Next on a one-shot error iterator (it must return its error without running the program)")
	v, ok, pan := safeNext(it)
	disarm()
	if pan != "" {
		return "first Next panicked: " + pan
	}
	err, isErr := v.(error)
	if !ok || !isErr || err == nil {
		return fmt.Sprintf("first Next returned (%s, %v); want the %s error", mkItem(v, 0, 0), ok, c.Kind)
	}
	isCtxErr := ctx.Err() != nil && err == ctx.Err()
	if isCtxErr && !cancelled {
		return fmt.Sprintf("first Next returned the context's error %q although the context is not cancelled", err)
	}
	if !isCtxErr && wantSub != "" && !strings.Contains(err.Error(), wantSub) {
		return fmt.Sprintf("first Next returned error %q; want the %s error mentioning %q", err, c.Kind, wantSub)
	}
	arm("one-shot", c, "a further call of Next on a one-shot error iterator")
	defer disarm()
	for j := 1; j <= 5; j++ {
		v, ok, pan := safeNext(it)
		if pan != "" {
			return fmt.Sprintf("call #%d of Next after the one-shot error panicked: %s", j, pan)
		}
		if ok || v != nil {
			return fmt.Sprintf("call #%d of Next after the one-shot error %q returned (%s, %v); want (nil, false): the error must be emitted once", j, err, mkItem(v, 0, 0), ok)
		}
	}
	return ""
}

// ---------------------------------------------------------------------------
// sub-checks "after-end" / "after-error": advancing an iterator past its
// natural end and past emitted error values

type advCase struct {
	Prog   string  `json:"prog"`
	In     string  `json:"in,omitempty"`
	Input  *univ.V `json:"input,omitempty"`
	Guard  string  `json:"guard"`          // raw | comma-empty | array
	Extra  int     `json:"extra"`          // further Next calls after the first false
	Budget int     `json:"budget"`         // poll budget (CountCtx); exhausted => not judged
	Site   string  `json:"site,omitempty"` // kind of the error-raising instruction (generator label)
	Via    string  `json:"via,omitempty"`
}

func (c advCase) text() string {
	switch c.Guard {
	case "comma-empty":
		return "(" + c.Prog + "), empty"
	case "array":
		return "[" + c.Prog + "]"
	}
	return c.Prog
}

type advInfo struct {
	discard string
	ended   bool
	errs    int
	vals    int
	resumed bool // an item came after an error value
	loop    bool // the run took a loop (see loops)
}

func checkAdvance(sub string, c advCase) (string, advInfo) {
	var info advInfo
	input, err := inputOf(c.In, c.Input)
	if err != nil {
		return "bad case: " + err.Error(), info
	}
	p, err := prepare(c.text(), 0)
	if err != nil {
		info.discard = "compile-error"
		return "", info
	}
	ctx := run.NewCountCtx(c.Budget + 1)
	p.hold.reset(0, nil)
	arm(sub, c, "a run under a poll budget")
	defer disarm()
	it := p.start(ctx, c.Via, univ.Copy(input))
	last := "none"
	for {
		v, ok, pan := safeNext(it)
		if pan != "" {
			return fmt.Sprintf("Next panicked after %d values and %d error values (previous item: %s): %s", info.vals, info.errs, last, pan), info
		}
		if !ok {
			if v != nil {
				return fmt.Sprintf("Next returned (%s, false)", mkItem(v, 0, 0)), info
			}
			info.ended, info.loop = true, loops(p, ctx.Polls)
			break
		}
		if err, isErr := v.(error); isErr {
			if ctx.Fired() && err == context.Canceled {
				info.discard = "budget"
				return "", info
			}
			info.resumed = info.resumed || info.errs > 0
			info.errs++
		} else {
			info.resumed = info.resumed || info.errs > 0
			info.vals++
		}
		last = mkItem(v, 0, 0).String()
		if strings.Contains(last, errorPanicked) {
			return fmt.Sprintf("the Error method of error value #%d returned by Next panicked (after %d values): %s", info.errs, info.vals, last), info
		}
		if info.vals+info.errs > 5000 {
			info.discard = "outputs"
			return "", info
		}
	}
	for j := 1; j <= c.Extra; j++ {
		v, ok, pan := safeNext(it)
		if pan != "" {
			return fmt.Sprintf("call #%d of Next after it had returned false panicked (the run emitted %d values, %d error values): %s", j, info.vals, info.errs, pan), info
		}
		if ok || v != nil {
			return fmt.Sprintf("call #%d of Next after it had returned false returned (%s, %v); want (nil, false) for ever", j, mkItem(v, 0, 0), ok), info
		}
	}
	return "", info
}

// ---------------------------------------------------------------------------
// replay

func replayCase(sub string, raw json.RawMessage) string {
	bad := func(err error) string { return "bad replay: " + err.Error() }
	switch sub {
	case "cancel", "cancel-gen":
		var c cancelCase
		if err := json.Unmarshal(raw, &c); err != nil {
			return bad(err)
		}
		return checkCancel(sub, c)
	case "between":
		var c cancelCase
		if err := json.Unmarshal(raw, &c); err != nil {
			return bad(err)
		}
		return checkBetween(sub, c)
	case "tick", "tick-gen":
		var c tickCase
		if err := json.Unmarshal(raw, &c); err != nil {
			return bad(err)
		}
		return checkTick(sub, c)
	case "one-shot":
		var c oneCase
		if err := json.Unmarshal(raw, &c); err != nil {
			return bad(err)
		}
		return checkOne(c)
	case "iterfn":
		var c itfCase
		if err := json.Unmarshal(raw, &c); err != nil {
			return bad(err)
		}
		return checkIterFn(c)
	case "interleave":
		var c ilvCase
		if err := json.Unmarshal(raw, &c); err != nil {
			return bad(err)
		}
		return checkInterleave(c)
	case "after-end", "after-error", "advance-gen":
		var c advCase
		if err := json.Unmarshal(raw, &c); err != nil {
			return bad(err)
		}
		msg, _ := checkAdvance(sub, c)
		return msg
	}
	return "unknown sub " + sub
}

// ---------------------------------------------------------------------------
// sub-check "between": the consumer cancels a standard context between two
// calls of Next (after having taken i items)

func betweenAt(p *prepared, c cancelCase, input any, ref *refRun, i int) string {
	kind := strings.TrimPrefix(strings.TrimPrefix(c.Ctx, "between"), ":")
	rc := newStdCtx(kind, 0) // "" = context.WithCancel
	defer rc.cancel()
	p.hold.reset(0, nil)
	it := p.start(rc, c.Via, univ.Copy(input))
	for idx := 0; idx < i; idx++ {
		v, ok, pan := safeNext(it)
		if pan != "" {
			return fmt.Sprintf("gojq panicked at item #%d of an uncancelled run: %s", idx, pan)
		}
		if !ok || idx >= len(ref.items) || !sameItem(ref.items[idx], mkItem(v, 0, 0)) {
			return fmt.Sprintf("two uncancelled runs differ at item #%d: (%s, %v)", idx, mkItem(v, 0, 0), ok)
		}
	}
	rc.fire()
	before := rc.N()
	v, ok, pan := safeNext(it)
	if pan != "" {
		return fmt.Sprintf("cancelled after %d items: Next panicked: %s", i, pan)
	}
	if err, isErr := v.(error); !ok || !isErr || err != rc.Err() {
		return fmt.Sprintf("promptness: the context (%s) was cancelled after %d items had been taken; the next call of Next returned (%s, %v) after %d polls, want the context's error%s", c.Ctx, i, mkItem(v, 0, 0), ok, rc.N()-before, causeNote(rc, v))
	}
	if d := rc.N() - before; d != 1 {
		return fmt.Sprintf("promptness: the context was cancelled after %d items had been taken; the next call of Next polled Done() %d times before returning the context's error (want 1: its first step)", i, d)
	}
	for j := 1; j <= 3; j++ {
		v, ok, pan := safeNext(it)
		if pan != "" {
			return fmt.Sprintf("terminal: cancelled after %d items, call #%d of Next after the context's error panicked: %s", i, j, pan)
		}
		if ok || v != nil {
			return fmt.Sprintf("terminal: cancelled after %d items, call #%d of Next after the context's error returned (%s, %v); want (nil, false)", i, j, mkItem(v, 0, 0), ok)
		}
	}
	return ""
}

func checkBetween(sub string, c cancelCase) string {
	input, err := inputOf(c.In, c.Input)
	if err != nil {
		return "bad case: " + err.Error()
	}
	p, err := prepare(c.Prog, c.Vars)
	if err != nil {
		return "bad case: " + err.Error()
	}
	arm(sub, c, "the reference run (cancelled at poll n+1)")
	ref := reference(p, input, c.N)
	disarm()
	if ref.pan != "" {
		return ref.pan
	}
	if c.K < 0 || c.K > len(ref.items) {
		return ""
	}
	arm(sub, c, "the run cancelled after k items")
	defer disarm()
	return betweenAt(p, c, input, &ref, c.K)
}

// ---------------------------------------------------------------------------
// drivers shared by the enumerations and the rapid sub-checks

func posClass(ref *refRun, k int) string {
	switch {
	case k == 1:
		return "first-poll"
	case ref.ended && k > ref.total:
		return "beyond-end"
	case ref.ended && len(ref.items) > 0 && k > ref.items[len(ref.items)-1].polls:
		return "after-last-item"
	case len(ref.items) > 0 && k <= ref.items[0].polls:
		return "before-first-item"
	case len(ref.items) == 0:
		return "no-items"
	}
	return "between-items"
}

// ntCancel: 0 < k < total polls of a run that took a loop.
func ntCancel(loop bool, ref *refRun, k int) bool {
	if !loop || k < 1 {
		return false
	}
	if ref.ended {
		return k < ref.total
	}
	return true // the run is longer than the cap: every k <= n is strictly inside
}

// loops reports whether a run of `polls` interpreter steps over the compiled
// program must have executed some instruction more than once (pigeonhole):
// the measured, conservative meaning of "a program with at least one loop".
func loops(p *prepared, polls int) bool { return polls > len(gojq.VerifCodes(p.code)) }

func family(form string) string {
	if i := strings.IndexByte(form, '/'); i >= 0 {
		return form[:i]
	}
	return form
}

func inputKey(v *univ.V) string {
	if v == nil {
		return ""
	}
	return univ.Show(v.X)
}

// enumCancel runs every cancellation point of ks that belongs to this shard
// (shardOff < 0: all of them).  It returns the first failing case.
func enumCancel(sub string, p *prepared, base cancelCase, input any, ref *refRun, ks []int, shardOff int, form string) (cancelCase, string) {
	loop := loops(p, ref.total)
	key := "c|" + base.Prog + "|" + base.In + "|" + inputKey(base.Input) + "|"
	// generated programs, thorough tier: only every ntStride-th k enters the
	// set of distinct cases (the set would not fit otherwise); all are judged
	ntStride, ntOff := 1, 0
	if shardOff < 0 && rec.Thorough() {
		ntStride = 32
		ntOff = int(evid.Hash(key) % 32)
	}
	for _, k := range ks {
		if shardOff >= 0 && !rec.Mine(shardOff+k) {
			continue
		}
		c := base
		c.K = k
		c.Ctx = ctxKindFor(k)
		c.Via = "code"
		if p.query != nil && k%8 == 5 {
			c.Via = "query"
		}
		rec.Eval()
		if ntCancel(loop, ref, k) && k%ntStride == ntOff {
			rec.NT(key + strconv.Itoa(k))
		}
		rec.Class("cancel/at/" + posClass(ref, k))
		rec.Class("cancel/ctx/" + c.Ctx)
		rec.Class("cancel/via/" + c.Via)
		if form != "" {
			rec.Class("cancel/form/" + family(form))
		}
		arm(sub, c, "the run cancelled at poll k")
		msg := cancelAt(p, c, input, ref, k)
		disarm()
		if msg != "" {
			return c, msg
		}
	}
	return cancelCase{}, ""
}

// ---------------------------------------------------------------------------

func TestC07(t *testing.T) {
	rec = evid.Open("C07")
	defer rec.Close()
	var err error
	if model, err = refjq.New(); err != nil {
		t.Fatal(err)
	}
	rec.Replays(replayCase)
	if rec.ReplayPath() != "" {
		return
	}
	tooMany := func() bool { return rec.Violations() > 6 }
	mustInput := func(fp fixedProg) (any, *prepared) {
		input, err := mkInput(fp.in)
		if err != nil {
			t.Fatalf("fixed program %q: %v", fp.src, err)
		}
		p, err := prepareCached(fp.src, fp.vars)
		if err != nil {
			t.Fatalf("fixed program %q: %v", fp.src, err)
		}
		return input, p
	}

	// ------------------------------------------------------------------
	// (E1) one-shot iterators: every (declared, given) variable count pair,
	// every non-compiling query of the list, under every kind of context
	oneCtxs := []string{"background", "count-never", "count-1", "sentinel-1", "precancelled", "deadline", "pre-cause", "deadline-cause", "raw:pre-cause-child"}
	idx := 0
	for _, ck := range oneCtxs {
		for _, q := range []string{".", "$v0", "range(3)", "def f: f; f"} {
			for names := 0; names <= 4; names++ {
				if q == "$v0" && names == 0 {
					continue
				}
				for values := 0; values <= 6; values++ {
					if values == names {
						continue
					}
					idx++
					if !rec.Mine(idx) {
						continue
					}
					c := oneCase{Kind: "vars", Prog: q, Names: names, Values: values, Ctx: ck}
					rec.Eval()
					rec.Class("one-shot/vars/" + map[bool]string{true: "too-few", false: "too-many"}[values < names])
					rec.Class("one-shot/ctx/" + ck)
					if msg := checkOne(c); msg != "" {
						rec.Direct("one-shot", c, "%s", msg)
					}
				}
			}
		}
		for _, q := range badQueries {
			idx++
			if !rec.Mine(idx) {
				continue
			}
			c := oneCase{Kind: "compile", Prog: q, Ctx: ck}
			rec.Eval()
			rec.Class("one-shot/compile")
			rec.Class("one-shot/ctx/" + ck)
			if msg := checkOne(c); msg != "" {
				rec.Direct("one-shot", c, "%s", msg)
			}
		}
	}
	rec.Exhaustive("one-shot iterators: 4 queries x declared 0..4 x given 0..6 variable values (unequal) and the non-compiling queries, x 9 kinds of context", true)

	if tooMany() {
		return
	}

	// ------------------------------------------------------------------
	// (E2) fixed programs calling tick/ticks x cancel() inside every call n
	tickCap := rec.Scale(3000, 12000)
	maxNth := rec.Scale(400, 2500)
	completeT := true
	for pi, fp := range tickProgs {
		if tooMany() {
			return
		}
		input, p := mustInput(fp)
		base := tickCase{Prog: fp.src, In: fp.in, N: tickCap}
		rec.Journal("tick", base)
		arm("tick", base, "the reference run (cancelled at poll n+1)")
		ref := reference(p, input, tickCap)
		disarm()
		if ref.pan != "" {
			if rec.Mine(pi) {
				rec.Direct("tick", base, "%s", ref.pan)
			}
			completeT = false
			continue
		}
		if rec.Mine(pi) && pi%9 == 0 {
			rec.Sample(map[string]any{"sub": "tick", "prog": fp.src, "in": fp.in, "polls": ref.total, "ticks": ref.ticks, "items": len(ref.items)})
		}
		top := ref.ticks
		if top > maxNth {
			top = maxNth
		}
		for n := 1; n <= top; n++ {
			if !rec.Mine(pi + n) {
				continue
			}
			c := base
			c.Nth = n
			c.Ctx = tickKindFor(n)
			rec.Eval()
			rec.NT("t|" + c.Prog + "|" + c.In + "|" + strconv.Itoa(n))
			rec.Class("tick/ctx/" + c.Ctx)
			rec.Class("tick/form/" + family(fp.form))
			arm("tick", c, "the run cancelled inside tick #nth")
			msg := tickAt(p, c, input, &ref, n)
			disarm()
			if msg != "" {
				rec.Direct("tick", c, "%s", msg)
				completeT = false
				break
			}
		}
	}
	rec.Exhaustive(fmt.Sprintf("%d fixed programs calling a Go function x cancel() inside every call n <= min(%d, calls within %d polls)", len(tickProgs), maxNth, tickCap), completeT)

	// ------------------------------------------------------------------
	// (E3) Next after the natural end: fixed programs x guard forms
	knownEnd := rec.KnownClass(classAfterEnd)
	knownPathIter := rec.KnownClass(classPathIter)
	extra := rec.Scale(6, 40)
	advBudget := rec.Scale(20000, 100000)
	doAdv := func(sub string, c advCase) (string, advInfo) {
		if c.Guard == "raw" && knownEnd {
			c.Extra = 0 // known class C07.F1: no further Next after a natural end of an unguarded program
			rec.Excluded(classAfterEnd)
		}
		rec.Eval()
		msg, info := checkAdvance(sub, c)
		if info.discard != "" {
			rec.Discard("advance/" + info.discard)
			return msg, info
		}
		if info.loop && (info.ended && c.Extra > 0 || info.errs > 0) {
			rec.NT("a|" + c.text() + "|" + c.In + "|" + inputKey(c.Input))
		}
		rec.Class(sub + "/guard/" + c.Guard)
		switch {
		case info.errs > 0 && info.vals > 0:
			rec.Class(sub + "/stream/values+errors")
		case info.errs > 0:
			rec.Class(sub + "/stream/errors")
		case info.vals > 0:
			rec.Class(sub + "/stream/values")
		default:
			rec.Class(sub + "/stream/empty")
		}
		if info.resumed {
			rec.Class(sub + "/items-after-an-error")
		}
		return msg, info
	}
	guards := []string{"raw", "comma-empty", "array"}
	idx = 0
	for _, fp := range fixedProgs {
		for _, g := range guards {
			idx++
			if !rec.Mine(idx) || fp.vars > 0 {
				continue
			}
			c := advCase{Prog: fp.src, In: fp.in, Guard: g, Extra: extra, Budget: advBudget, Via: "code"}
			if msg, _ := doAdv("after-end", c); msg != "" {
				rec.Direct("after-end", c, "%s", msg)
			}
		}
	}

	// (E4) Next after an emitted error: every error site x every context x guard
	if tooMany() {
		return
	}
	idx = 0
	for _, site := range errorSites {
		for _, e := range site.exprs {
			for ci, cx := range errorContexts {
				for _, g := range guards {
					idx++
					if !rec.Mine(idx) {
						continue
					}
					if site.name == "path-iter" && g == "raw" && knownPathIter {
						rec.Excluded(classPathIter) // known class C07.F2
						continue
					}
					c := advCase{Prog: strings.ReplaceAll(cx, "%s", e), In: "json:[1,[2,3],{\"a\":4}]", Guard: g, Extra: extra, Budget: advBudget, Site: site.name,
						Via: map[bool]string{true: "query", false: "code"}[ci%3 == 0]}
					msg, info := doAdv("after-error", c)
					if info.errs > 0 {
						rec.Class("after-error/site/" + site.name)
					}
					if msg != "" {
						rec.Direct("after-error", c, "%s", msg)
					}
				}
			}
		}
	}
	rec.Exhaustive("Next past the end / past an error value: fixed programs and error sites x contexts x guard forms", true)

	if tooMany() {
		return
	}

	// ------------------------------------------------------------------
	// (E4a) Go iterator functions (WithIterFunction + NewIter) that yield
	// error values, in every context, advanced past every error and the end
	iterFnEnum()
	if tooMany() {
		return
	}

	// ------------------------------------------------------------------
	// (E4b, R) several iterators alive at once: scripted three-step
	// histories for every pair of short programs, then the state machine
	ilvCap := rec.Scale(300, 1000)
	interleaveScripted(ilvCap)
	if tooMany() {
		return
	}
	interleaveRapid(t, ilvCap, rec.Scale(12000, 200000))
	if tooMany() {
		return
	}

	// ------------------------------------------------------------------
	// (E5) fixed looping programs x every cancellation poll, and x every
	// number of items taken before the consumer cancels
	capN := rec.Scale(4000, 20000)
	complete := true
	for pi, fp := range fixedProgs {
		input, p := mustInput(fp)
		base := cancelCase{Prog: fp.src, In: fp.in, Vars: fp.vars, N: capN}
		rec.Journal("cancel", base)
		arm("cancel", base, "the reference run (cancelled at poll n+1)")
		ref := reference(p, input, capN)
		disarm()
		if ref.pan != "" {
			if rec.Mine(pi) {
				rec.Direct("cancel", base, "%s", ref.pan)
			}
			complete = false
			continue
		}
		if rec.Mine(pi) {
			rec.Class("cancel/run/" + map[bool]string{true: "finite", false: "longer-than-cap"}[ref.ended])
			if pi%16 == 3 {
				rec.Sample(map[string]any{"sub": "cancel", "prog": fp.src, "in": fp.in, "polls": ref.total, "ended": ref.ended, "items": len(ref.items)})
			}
			// k = 0: contexts of the standard library cancelled before the run
			for _, kind := range []string{"precancelled", "deadline"} {
				c := base
				c.K, c.Ctx, c.Via = 1, kind, "code"
				rec.Eval()
				rec.Class("cancel/ctx/" + kind)
				arm("cancel", c, "the run under a context cancelled beforehand")
				msg := cancelAt(p, c, input, &ref, 1)
				disarm()
				if msg != "" {
					rec.Direct("cancel", c, "%s", msg)
					complete = false
				}
			}
			// every kind of context that is already done (with and without
			// a cause, children, own type; wrapped for counting and as it
			// is), and every kind whose Done() is nil, through both entries
			vias := []string{"code"}
			if p.query != nil {
				vias = append(vias, "query")
			}
			for _, via := range vias {
				for _, kind := range preDoneKinds {
					for _, raw := range []string{"", "raw:"} {
						if raw != "" && kind == "pre-custom" {
							continue
						}
						c := base
						c.K, c.Ctx, c.Via = 0, raw+kind, via
						rec.Eval()
						rec.Class("cancel/ctx/already-done/" + kind)
						arm("cancel", c, "the run under a context that is already done")
						msg := preDoneAt(p, c, input)
						disarm()
						if msg != "" {
							rec.Direct("cancel", c, "%s", msg)
							complete = false
						}
					}
				}
				for _, kind := range noDoneKinds {
					c := base
					c.K, c.Ctx, c.Via = 0, kind, via
					rec.Eval()
					rec.Class("cancel/ctx/" + kind)
					arm("cancel", c, "the run under a context that cannot be cancelled, as far as the reference run shows it to be bounded")
					msg := neverDoneAt(p, c, input, &ref)
					disarm()
					if msg != "" {
						rec.Direct("cancel", c, "%s", msg)
						complete = false
					}
				}
			}
		}
		// the consumer cancels after i items
		loop := loops(p, ref.total)
		for i := 0; i <= len(ref.items); i++ {
			if !rec.Mine(pi+i) || (i == len(ref.items) && !ref.ended && i > 0) {
				continue
			}
			c := base
			c.K, c.Ctx, c.Via = i, []string{"between", "between:cause", "between", "between:cause-child", "between:cause-value"}[i%5], map[bool]string{true: "query", false: "code"}[p.query != nil && i%3 == 1]
			rec.Eval()
			if loop {
				rec.NT("b|" + c.Prog + "|" + c.In + "|" + strconv.Itoa(i))
			}
			rec.Class("cancel/ctx/between-calls")
			arm("between", c, "the run cancelled after k items")
			msg := betweenAt(p, c, input, &ref, i)
			disarm()
			if msg != "" {
				rec.Direct("between", c, "%s", msg)
				complete = false
				break
			}
		}
		ks := ksFor(&ref, capN, capN, 1)
		if c, msg := enumCancel("cancel", p, base, input, &ref, ks, pi, fp.form); msg != "" {
			rec.Direct("cancel", c, "%s", msg)
			complete = false
		}
		if tooMany() {
			return
		}
	}
	rec.Exhaustive(fmt.Sprintf("%d fixed looping programs x every cancellation poll k in 1..min(%d, length of the run)+1, x every number of items taken before a cancel between calls", len(fixedProgs), capN), complete)
	rec.Extra("fixed_programs", len(fixedProgs))
	rec.Extra("poll_cap", capN)

	// ------------------------------------------------------------------
	// (R) generated programs
	confs := []gen.Conf{
		{Builtins: true, MaxNodes: 30},
		{Builtins: true, Paths: true, AltPat: true, AltPatFree: true, MaxNodes: 40},
		{Builtins: true, Paths: true, Update: true, MaxNodes: 30},
		{Update: true, Paths: true, MaxNodes: 20},
	}
	progGens := make([]*rapid.Generator[gen.Prog], len(confs))
	for i, cf := range confs {
		progGens[i] = gen.Program(cf)
	}
	inputs := inputGen()
	genCap := rec.Scale(500, 1500)
	wrapCap := rec.Scale(260, 700)

	// drawProgram draws P and an input on which the reference model says P is
	// finite and resource-benign (value sizes, allocation-sized numbers).
	drawProgram := func(t *rapid.T) (gen.Prog, any, bool) {
		p := progGens[rapid.IntRange(0, len(progGens)-1).Draw(t, "conf")].Draw(t, "prog")
		in := inputs.Draw(t, "input")
		q, err := gojq.Parse(p.Src)
		if err != nil {
			rec.Discard("gen/parse-error")
			return p, in, false
		}
		if _, err := gojq.Compile(q); err != nil {
			rec.Discard("gen/compile-error")
			return p, in, false
		}
		want := model.Run(q, univ.Copy(in), nil, 20000, 200)
		if d := want.Discard(); d != "" {
			rec.Discard("gen/model:" + strings.SplitN(d, ":", 2)[0])
			return p, in, false
		}
		return p, in, true
	}

	rec.Rapid(t, "tick-gen", rec.Scale(18000, 300000), func(t *rapid.T) {
		gp, in, ok := drawProgram(t)
		if !ok {
			return
		}
		w := rapid.IntRange(0, len(tickWrappers)-1).Draw(t, "wrapper")
		src := strings.ReplaceAll(tickWrappers[w], "%s", gp.Src)
		p, err := prepare(src, 0)
		if err != nil {
			rec.Discard("gen/wrapper-compile-error")
			return
		}
		base := tickCase{Prog: src, Input: &univ.V{X: in}, N: wrapCap * 2}
		rec.Journal("tick-gen", base)
		arm("tick-gen", base, "the reference run (cancelled at poll n+1)")
		ref := reference(p, in, base.N)
		disarm()
		if ref.pan != "" {
			t.Fatalf("%s", rec.Fail("tick-gen", base, "%s", ref.pan))
		}
		rec.Class(fmt.Sprintf("tick-gen/wrapper/%02d", w))
		if ref.ticks == 0 {
			rec.Discard("tick-gen/no-tick-reached")
			return
		}
		rec.Sample(map[string]any{"sub": "tick-gen", "prog": src, "input": univ.Show(in), "polls": ref.total, "ticks": ref.ticks, "items": len(ref.items)})
		top := ref.ticks
		if top > 40 {
			top = 40
		}
		for n := 1; n <= top; n++ {
			c := base
			c.Nth = n
			c.Ctx = tickKindFor(n)
			rec.Eval()
			if !rec.Thorough() || n%4 == 1 {
				rec.NT("t|" + src + "|" + inputKey(c.Input) + "|" + strconv.Itoa(n))
			}
			rec.Class("tick/ctx/" + c.Ctx)
			arm("tick-gen", c, "the run cancelled inside tick #nth")
			msg := tickAt(p, c, in, &ref, n)
			disarm()
			if msg != "" {
				t.Fatalf("%s", rec.Fail("tick-gen", c, "%s", msg))
			}
		}
	})

	rec.Rapid(t, "advance-gen", rec.Scale(45000, 800000), func(t *rapid.T) {
		gp, in, ok := drawProgram(t)
		if !ok {
			return
		}
		g := rapid.SampledFrom(guards).Draw(t, "guard")
		c := advCase{Prog: gp.Src, Input: &univ.V{X: in}, Guard: g, Extra: extra, Budget: advBudget,
			Via: rapid.SampledFrom([]string{"code", "query"}).Draw(t, "via")}
		rec.Journal("advance-gen", c)
		msg, info := doAdv("advance-gen", c)
		if info.discard == "" {
			rec.Sample(map[string]any{"sub": "advance-gen", "prog": c.text(), "input": univ.Show(in), "values": info.vals, "errors": info.errs})
		}
		if msg != "" {
			t.Fatalf("%s", rec.Fail("advance-gen", c, "%s", msg))
		}
	})

	rec.Rapid(t, "one-shot", rec.Scale(12000, 150000), func(t *rapid.T) {
		gp := progGens[rapid.IntRange(0, len(progGens)-1).Draw(t, "conf")].Draw(t, "prog")
		ck := rapid.SampledFrom(oneCtxs).Draw(t, "ctx")
		var c oneCase
		if rapid.Bool().Draw(t, "compile") {
			bad := rapid.SampledFrom(badSuffixes).Draw(t, "bad")
			c = oneCase{Kind: "compile", Prog: strings.ReplaceAll(bad, "%s", gp.Src), Ctx: ck}
			rec.Class("one-shot/compile")
		} else {
			names := rapid.IntRange(0, 5).Draw(t, "names")
			values := rapid.IntRange(0, 7).Draw(t, "values")
			if values == names {
				values = names + 1
			}
			c = oneCase{Kind: "vars", Prog: gp.Src, Names: names, Values: values, Ctx: ck}
			rec.Class("one-shot/vars/" + map[bool]string{true: "too-few", false: "too-many"}[values < names])
		}
		if q, err := gojq.Parse(c.Prog); err != nil {
			rec.Discard("one-shot/parse-error")
			return
		} else if c.Kind == "vars" {
			if _, err := gojq.Compile(q); err != nil {
				rec.Discard("one-shot/compile-error")
				return
			}
		}
		rec.Eval()
		rec.Journal("one-shot", c)
		rec.Class("one-shot/ctx/" + ck)
		if msg := checkOne(c); msg != "" {
			t.Fatalf("%s", rec.Fail("one-shot", c, "%s", msg))
		}
	})

	rec.Rapid(t, "cancel-gen", rec.Scale(45000, 700000), func(t *rapid.T) {
		gp, in, ok := drawProgram(t)
		if !ok {
			return
		}
		w := rapid.IntRange(0, len(cancelWrappers)-1).Draw(t, "wrapper")
		if rapid.IntRange(0, 2).Draw(t, "bare") == 0 {
			w = 0
		}
		src := strings.ReplaceAll(cancelWrappers[w], "%s", gp.Src)
		p, err := prepare(src, 0)
		if err != nil {
			rec.Discard("gen/wrapper-compile-error")
			return
		}
		n := genCap
		base := cancelCase{Prog: src, Input: &univ.V{X: in}, N: n}
		rec.Journal("cancel-gen", base)
		if w != 0 {
			// the loop re-applies P to the same input: three periods are enough
			bp, err := prepare(gp.Src, 0)
			if err != nil {
				return
			}
			arm("cancel-gen", cancelCase{Prog: gp.Src, Input: base.Input, N: genCap}, "the reference run (cancelled at poll n+1)")
			br := reference(bp, in, genCap)
			disarm()
			if n = 3*br.total + 60; n > wrapCap {
				n = wrapCap
			}
			base.N = n
		}
		arm("cancel-gen", base, "the reference run (cancelled at poll n+1)")
		ref := reference(p, in, n)
		disarm()
		if ref.pan != "" {
			t.Fatalf("%s", rec.Fail("cancel-gen", base, "%s", ref.pan))
		}
		rec.Class(fmt.Sprintf("cancel-gen/wrapper/%02d", w))
		rec.Class("cancel-gen/run/" + map[bool]string{true: "finite", false: "longer-than-cap"}[ref.ended])
		if loops(p, ref.total) {
			rec.Class("cancel-gen/run/took-a-loop")
		}
		for _, it := range ref.items {
			if it.isErr {
				rec.Class("cancel-gen/run/emits-error-values")
				break
			}
		}
		rec.Sample(map[string]any{"sub": "cancel-gen", "prog": src, "input": univ.Show(in), "polls": ref.total, "items": len(ref.items)})
		ks := ksFor(&ref, n, n, 1)
		if c, msg := enumCancel("cancel-gen", p, base, in, &ref, ks, -1, ""); msg != "" {
			t.Fatalf("%s", rec.Fail("cancel-gen", c, "%s", msg))
		}
	})
}

// inputGen: inputs biased to the field names the program grammar uses.
func inputGen() *rapid.Generator[any] {
	fixed := []any{
		nil, 0, 1, 2, "a", "ab", true, false, []any{}, map[string]any{},
		[]any{1, 2, 3}, []any{0, []any{1, 2}, map[string]any{"a": 1}}, []any{[]any{1}, []any{2, 3}}, []any{"a", "b"}, []any{nil, false, 1},
		map[string]any{"a": 1, "b": 2}, map[string]any{"a": []any{1, 2, map[string]any{"b": nil}}, "b": "x", "c": map[string]any{"a": 1}},
		map[string]any{"a": map[string]any{"a": map[string]any{"a": 0}}}, map[string]any{"a": []any{}, "b": map[string]any{}}, map[string]any{"a": nil, "b": false, "c": 0},
		[]any{map[string]any{"a": 1, "b": 2}, map[string]any{"a": 3, "b": 4}}, map[string]any{"a": []any{[]any{0, 1}, []any{2}}},
		[]any{3, 1, 2}, map[string]any{"a": 2, "b": []any{1, 2}}, 1.5, "1", []any{[]any{}}, []any{map[string]any{}}, "a,b", "aXbXc",
	}
	return rapid.OneOf(
		rapid.SampledFrom(fixed),
		rapid.SampledFrom(fixed),
		gen.Value(gen.Opt{Reps: true, MaxDepth: 3, MaxWidth: 3, SmallInts: true}),
		rapid.Custom(func(t *rapid.T) any {
			m := map[string]any{}
			for _, k := range []string{"a", "b", "c"} {
				if rapid.IntRange(0, 3).Draw(t, "has") > 0 {
					m[k] = gen.Value(gen.Opt{Reps: true, MaxDepth: 2, MaxWidth: 3, SmallInts: true}).Draw(t, "field")
				}
			}
			return m
		}),
	)
}
