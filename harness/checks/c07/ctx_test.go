package c07

import (
	"context"
	"errors"
	"fmt"
	"os"
	"runtime/debug"
	"runtime/metrics"
	"strings"
	"sync"
	"time"

	"github.com/itchyny/gojq"

	"verif/internal/run"
)

// ---------------------------------------------------------------------------
// Fault-injection contexts.  None of them involves a clock: they fire at a
// chosen poll of Done() or when the program under test calls a Go function.

// fctx is a context that counts how often the interpreter polls Done().
type fctx interface {
	context.Context
	N() int     // polls so far
	Hit() bool  // cancellation has happened
	HitAt() int // value of N() when it happened
	Kind() string
}

// cctx adapts run.CountCtx (fires at the Limit-th poll, Err() == context.Canceled).
type cctx struct{ *run.CountCtx }

func (c cctx) N() int       { return c.CountCtx.Polls }
func (c cctx) Hit() bool    { return c.CountCtx.Fired() }
func (c cctx) HitAt() int   { return c.CountCtx.Limit }
func (c cctx) Kind() string { return "count" }

var errSentinel = errors.New("c07: sentinel context error")

// pollCtx behaves like a real cancellable context (one channel, closed once)
// but is cancelled either at its limit-th poll or by an explicit fire(), and
// reports an error of its own so that a hard-wired context.Canceled shows.
type pollCtx struct {
	polls, limit int
	fired        bool
	firedAt      int
	done         chan struct{}
	err          error
}

func newPollCtx(limit int, err error) *pollCtx {
	return &pollCtx{limit: limit, done: make(chan struct{}), err: err}
}

func (c *pollCtx) Deadline() (time.Time, bool) { return time.Time{}, false }
func (c *pollCtx) Value(any) any               { return nil }
func (c *pollCtx) Done() <-chan struct{} {
	c.polls++
	if !c.fired && c.limit > 0 && c.polls >= c.limit {
		c.fire()
	}
	return c.done
}
func (c *pollCtx) fire() {
	if !c.fired {
		c.fired, c.firedAt = true, c.polls
		close(c.done)
	}
}
func (c *pollCtx) Err() error {
	if c.fired {
		return c.err
	}
	return nil
}
func (c *pollCtx) N() int       { return c.polls }
func (c *pollCtx) Hit() bool    { return c.fired }
func (c *pollCtx) HitAt() int   { return c.firedAt }
func (c *pollCtx) Kind() string { return "sentinel" }

// realCtx wraps a context of the standard library and counts the polls.  It
// can cancel the wrapped context by itself at its limit-th poll (limit > 0).
type realCtx struct {
	context.Context
	polls   int
	limit   int
	fired   bool
	firedAt int
	cancel  func() // cancels the wrapped context the way its kind prescribes (with a cause where there is one)
	kind    string
	raw     bool // hand the wrapped context itself to gojq (polls are not counted then)
}

func (c *realCtx) Done() <-chan struct{} {
	c.polls++
	if c.limit > 0 && c.polls >= c.limit {
		c.fire()
	}
	return c.Context.Done()
}
func (c *realCtx) fire() {
	if !c.fired {
		c.fired, c.firedAt = true, c.polls
		c.cancel()
	}
}
func (c *realCtx) N() int       { return c.polls }
func (c *realCtx) Hit() bool    { return c.fired }
func (c *realCtx) HitAt() int   { return c.firedAt }
func (c *realCtx) Kind() string { return c.kind }

// arg is what RunWithContext receives.
func (c *realCtx) arg() context.Context {
	if c.raw {
		return c.Context
	}
	return c
}

// ctxArg: the context handed to gojq for an injector.
func ctxArg(ctx context.Context) context.Context {
	if rc, ok := ctx.(*realCtx); ok {
		return rc.arg()
	}
	return ctx
}

// causeErr is the cause a user attaches to a cancellation; gojq must never
// deliver it in place of ctx.Err().
type causeErr struct{ s string }

func (e *causeErr) Error() string { return e.s }

var errCause = &causeErr{"c07: the cause given by the user"}

// customErr: an error type of its own for the custom context.
type customErr struct{ s string }

func (e *customErr) Error() string { return e.s }

var errCustom = &customErr{"c07: custom context error type"}

type ctxKey struct{}

// stdKinds are the cancellable kinds of standard-library contexts.
var stdKinds = []string{"real", "cause", "cause-child", "cause-value"}

func isStdKind(kind string) bool {
	for _, k := range stdKinds {
		if k == kind {
			return true
		}
	}
	return false
}

// newStdCtx builds a standard-library context of the given kind, not yet
// cancelled: real (WithCancel), cause (WithCancelCause, cancelled with
// errCause), cause-child (WithCancel on top of a WithCancelCause parent; the
// parent gets cancelled with the cause), cause-value (WithValue on top of it).
func newStdCtx(kind string, limit int) *realCtx {
	rc := &realCtx{kind: kind, limit: limit}
	switch kind {
	case "cause":
		ctx, cancel := context.WithCancelCause(context.Background())
		rc.Context, rc.cancel = ctx, func() { cancel(errCause) }
	case "cause-child":
		parent, cancel := context.WithCancelCause(context.Background())
		ctx, cancelChild := context.WithCancel(parent)
		_ = cancelChild // released through the parent
		rc.Context, rc.cancel = ctx, func() { cancel(errCause) }
	case "cause-value":
		parent, cancel := context.WithCancelCause(context.Background())
		rc.Context, rc.cancel = context.WithValue(parent, ctxKey{}, 1), func() { cancel(errCause) }
	default:
		ctx, cancel := context.WithCancel(context.Background())
		rc.Context, rc.cancel = ctx, cancel
	}
	return rc
}

func newRealCtx() *realCtx { return newStdCtx("real", 0) }

// preDoneKinds: contexts that are already done when RunWithContext is called
// (k = 0).  No clock: deadlines lie in the past at creation.
var preDoneKinds = []string{"precancelled", "deadline", "pre-cause", "pre-cause-child", "pre-cause-value", "deadline-cause", "timeout-cause", "deadline-cause-child", "deadline-cause-value", "pre-custom"}

func isPreDone(kind string) bool {
	kind = strings.TrimPrefix(kind, "raw:")
	for _, k := range preDoneKinds {
		if k == kind {
			return true
		}
	}
	return false
}

// newPreCancelled: a context cancelled or expired before RunWithContext.
// "raw:<kind>" hands the standard context itself to gojq.
func newPreCancelled(kind string) *realCtx {
	raw := strings.HasPrefix(kind, "raw:")
	k := strings.TrimPrefix(kind, "raw:")
	var rc *realCtx
	past := time.Unix(0, 0)
	switch k {
	case "deadline":
		ctx, cancel := context.WithDeadline(context.Background(), past)
		rc = &realCtx{Context: ctx, cancel: cancel}
	case "deadline-cause":
		ctx, cancel := context.WithDeadlineCause(context.Background(), past, errCause)
		rc = &realCtx{Context: ctx, cancel: cancel}
	case "timeout-cause":
		ctx, cancel := context.WithTimeoutCause(context.Background(), -time.Hour, errCause)
		rc = &realCtx{Context: ctx, cancel: cancel}
	case "deadline-cause-child":
		parent, cancel := context.WithDeadlineCause(context.Background(), past, errCause)
		ctx, cancelChild := context.WithCancel(parent)
		rc = &realCtx{Context: ctx, cancel: func() { cancelChild(); cancel() }}
	case "deadline-cause-value":
		parent, cancel := context.WithTimeoutCause(context.Background(), -time.Hour, errCause)
		rc = &realCtx{Context: context.WithValue(parent, ctxKey{}, 1), cancel: cancel}
	case "pre-cause", "pre-cause-child", "pre-cause-value":
		rc = newStdCtx(strings.TrimPrefix(k, "pre-"), 0)
		rc.cancel()
	default: // precancelled
		rc = newStdCtx("real", 0)
		rc.cancel()
	}
	rc.kind, rc.raw, rc.fired, rc.firedAt = kind, raw, true, 0
	return rc
}

// neverCtx: a custom context type that can never be cancelled (Done() nil).
type neverCtx struct{ polls int }

func (c *neverCtx) Deadline() (time.Time, bool) { return time.Time{}, false }
func (c *neverCtx) Value(any) any               { return nil }
func (c *neverCtx) Done() <-chan struct{}       { c.polls++; return nil }
func (c *neverCtx) Err() error                  { return nil }

// noDoneKinds: contexts whose Done() is nil.
var noDoneKinds = []string{"nodone-background", "nodone-todo", "nodone-value", "nodone-custom"}

func isNoDone(kind string) bool { return strings.HasPrefix(kind, "nodone-") }

func newNoDone(kind string) context.Context {
	switch kind {
	case "nodone-todo":
		return context.TODO()
	case "nodone-value":
		return context.WithValue(context.Background(), ctxKey{}, 1)
	case "nodone-custom":
		return &neverCtx{}
	}
	return context.Background()
}

// causeNote explains an item that is the context's cause instead of its error.
func causeNote(ctx context.Context, v any) string {
	if e, ok := v.(error); ok && ctx.Err() != nil && e != ctx.Err() && e == context.Cause(ctx) {
		return fmt.Sprintf(" - that is context.Cause(ctx), not ctx.Err() (%v): errors.Is(err, ctx.Err()) = %v", ctx.Err(), errors.Is(e, ctx.Err()))
	}
	return ""
}

// ---------------------------------------------------------------------------
// Go functions given to the programs: tick (identity, counts its calls, can
// cancel the context from inside the n-th call), ticks (an endless native
// iterator doing the same in its Next) and an endless input iterator (0, 1,
// ...) whose Next counts as a tick as well.

type holder struct {
	ticks    int
	cancelAt int
	cancel   func()
	inputs   int
}

func (h *holder) reset(cancelAt int, cancel func()) {
	h.ticks, h.cancelAt, h.cancel, h.inputs = 0, cancelAt, cancel, 0
}

func (h *holder) tick() {
	h.ticks++
	if h.ticks == h.cancelAt && h.cancel != nil {
		h.cancel()
	}
}

type tickIter struct {
	h *holder
	i int
}

func (it *tickIter) Next() (any, bool) {
	it.h.tick()
	v := it.i
	it.i++
	return v, true
}

type inIter struct{ h *holder }

func (it inIter) Next() (any, bool) {
	it.h.tick()
	v := it.h.inputs
	it.h.inputs++
	return v, true
}

// prepared is a compiled program with its per-run state holder.
type prepared struct {
	src   string
	nvars int
	code  *gojq.Code
	query *gojq.Query // non-nil when the program also compiles without options (Query.RunWithContext)
	hold  *holder
}

func prepare(src string, nvars int) (*prepared, error) {
	q, err := gojq.Parse(src)
	if err != nil {
		return nil, fmt.Errorf("parse: %w", err)
	}
	h := &holder{}
	opts := []gojq.CompilerOption{
		gojq.WithFunction("tick", 0, 0, func(x any, _ []any) any { h.tick(); return x }),
		gojq.WithIterFunction("ticks", 0, 0, func(any, []any) gojq.Iter { return &tickIter{h: h} }),
		gojq.WithInputIter(inIter{h}),
	}
	opts = append(opts, iterFnOpts()...)
	if nvars > 0 {
		names := make([]string, nvars)
		for i := range names {
			names[i] = fmt.Sprintf("$v%d", i)
		}
		opts = append(opts, gojq.WithVariables(names))
	}
	code, err := gojq.Compile(q, opts...)
	if err != nil {
		return nil, fmt.Errorf("compile: %w", err)
	}
	p := &prepared{src: src, nvars: nvars, code: code, hold: h}
	if nvars == 0 {
		if _, err := gojq.Compile(q); err == nil {
			p.query = q
		}
	}
	return p, nil
}

var prepCache = map[string]*prepared{}

func prepareCached(src string, nvars int) (*prepared, error) {
	key := fmt.Sprintf("%d|%s", nvars, src)
	if p, ok := prepCache[key]; ok {
		return p, nil
	}
	p, err := prepare(src, nvars)
	if err != nil {
		return nil, err
	}
	prepCache[key] = p
	return p, nil
}

func (p *prepared) start(ctx context.Context, via string, input any) gojq.Iter {
	ctx = ctxArg(ctx)
	if via == "query" && p.query != nil {
		return p.query.RunWithContext(ctx, input)
	}
	vars := make([]any, p.nvars)
	for i := range vars {
		vars[i] = i * 10
	}
	return p.code.RunWithContext(ctx, input, vars...)
}

// safeNext advances the iterator; a panic inside gojq is returned as text.
func safeNext(it gojq.Iter) (v any, ok bool, pan string) {
	defer func() {
		if r := recover(); r != nil {
			st := string(debug.Stack())
			if i := strings.Index(st, "panic("); i >= 0 {
				st = st[i:]
			}
			if i := strings.Index(st, "\nverif/checks/c07.safeNext"); i >= 0 {
				st = st[:i] // keep the frames inside gojq only
			}
			if len(st) > 900 {
				st = st[:900]
			}
			pan = fmt.Sprintf("panic: %v\n%s", r, st)
		}
	}()
	v, ok = it.Next()
	return
}

// ---------------------------------------------------------------------------
// The watchdog: the only wall-clock element.  Every single run below executes
// a bounded number of interpreter steps (at most a few ten thousand polls,
// microseconds to milliseconds, a few megabytes); a monitor goroutine looks
// every 100 ms at the run in flight.  If the same run is still in flight
// after `watchdog`, or has grown the heap by more than `heapSlack` (a loop
// that never polls while it piles up forks or scopes), the loop is not
// reaching a cancellation check: that is reported as a violation and the
// process ends (the stuck goroutine cannot be stopped).

const (
	watchdog  = 60 * time.Second
	heapSlack = 1500 << 20
)

var wd struct {
	mu      sync.Mutex
	started bool
	seq     uint64
	sub     string
	c       any
	what    string
}

func heapBytes() uint64 {
	s := []metrics.Sample{{Name: "/memory/classes/heap/objects:bytes"}}
	metrics.Read(s)
	if s[0].Value.Kind() == metrics.KindUint64 {
		return s[0].Value.Uint64()
	}
	return 0
}

func wdMonitor() {
	var seen uint64
	var since time.Time
	var heap0 uint64
	for range time.Tick(100 * time.Millisecond) {
		wd.mu.Lock()
		seq, sub, c, what := wd.seq, wd.sub, wd.c, wd.what
		wd.mu.Unlock()
		if sub == "" || seq != seen {
			seen, since, heap0 = seq, time.Now(), 0
			continue
		}
		// the same bounded run has been in flight for at least 100 ms
		h := heapBytes()
		if heap0 == 0 {
			heap0 = h
		}
		var why string
		switch {
		case time.Since(since) > watchdog:
			why = fmt.Sprintf("has not returned %v after it started", watchdog)
		case h > heap0+heapSlack:
			why = fmt.Sprintf("has not returned after %v and has grown the heap by %d MiB", time.Since(since).Round(time.Millisecond), (h-heap0)>>20)
		default:
			continue
		}
		rec.Direct(sub, c, "promptness: %s %s, although it is bounded (the context is cancelled after a bounded number of polls of Done(), every instruction of the program takes microseconds): the interpreter is looping without reaching a cancellation check", what, why)
		rec.Close()
		os.Exit(1)
	}
}

// arm declares one bounded run in flight.
func arm(sub string, c any, what string) {
	wd.mu.Lock()
	wd.seq++
	wd.sub, wd.c, wd.what = sub, c, what
	if !wd.started {
		wd.started = true
		go wdMonitor()
	}
	wd.mu.Unlock()
}

func disarm() {
	wd.mu.Lock()
	wd.seq++
	wd.sub = ""
	wd.mu.Unlock()
}
