package c07

import (
	"context"
	"errors"
	"fmt"
	"os"
	"runtime/debug"
	"runtime/metrics"
	"strings"
	"sync"
	"time"

	"github.com/itchyny/gojq"

	"verif/internal/run"
)

// ---------------------------------------------------------------------------
// Fault-injection contexts.  None of them involves a clock: they fire at a
// chosen poll of Done() or when the program under test calls a Go function.

// fctx is a context that counts how often the interpreter polls Done().
type fctx interface {
	context.Context
	N() int     // polls so far
	Hit() bool  // cancellation has happened
	HitAt() int // value of N() when it happened
	Kind() string
}

// cctx adapts run.CountCtx (fires at the Limit-th poll, Err() == context.Canceled).
type cctx struct{ *run.CountCtx }

func (c cctx) N() int       { return c.CountCtx.Polls }
func (c cctx) Hit() bool    { return c.CountCtx.Fired() }
func (c cctx) HitAt() int   { return c.CountCtx.Limit }
func (c cctx) Kind() string { return "count" }

var errSentinel = errors.New("c07: sentinel context error")

// pollCtx behaves like a real cancellable context (one channel, closed once)
// but is cancelled either at its limit-th poll or by an explicit fire(), and
// reports an error of its own so that a hard-wired context.Canceled shows.
type pollCtx struct {
	polls, limit int
	fired        bool
	firedAt      int
	done         chan struct{}
	err          error
}

func newPollCtx(limit int, err error) *pollCtx {
	return &pollCtx{limit: limit, done: make(chan struct{}), err: err}
}

func (c *pollCtx) Deadline() (time.Time, bool) { return time.Time{}, false }
func (c *pollCtx) Value(any) any               { return nil }
func (c *pollCtx) Done() <-chan struct{} {
	c.polls++
	if !c.fired && c.limit > 0 && c.polls >= c.limit {
		c.fire()
	}
	return c.done
}
func (c *pollCtx) fire() {
	if !c.fired {
		c.fired, c.firedAt = true, c.polls
		close(c.done)
	}
}
func (c *pollCtx) Err() error {
	if c.fired {
		return c.err
	}
	return nil
}
func (c *pollCtx) N() int       { return c.polls }
func (c *pollCtx) Hit() bool    { return c.fired }
func (c *pollCtx) HitAt() int   { return c.firedAt }
func (c *pollCtx) Kind() string { return "sentinel" }

// realCtx wraps a context of the standard library and counts the polls.
type realCtx struct {
	context.Context
	polls   int
	fired   bool
	firedAt int
	cancel  context.CancelFunc
	kind    string
}

func (c *realCtx) Done() <-chan struct{} { c.polls++; return c.Context.Done() }
func (c *realCtx) fire() {
	if !c.fired {
		c.fired, c.firedAt = true, c.polls
		c.cancel()
	}
}
func (c *realCtx) N() int       { return c.polls }
func (c *realCtx) Hit() bool    { return c.fired }
func (c *realCtx) HitAt() int   { return c.firedAt }
func (c *realCtx) Kind() string { return c.kind }

func newRealCtx() *realCtx {
	ctx, cancel := context.WithCancel(context.Background())
	return &realCtx{Context: ctx, cancel: cancel, kind: "real"}
}

// newPreCancelled: a standard context cancelled before RunWithContext (k = 0).
func newPreCancelled(kind string) *realCtx {
	var ctx context.Context
	var cancel context.CancelFunc
	if kind == "deadline" {
		// a deadline in the past: expired at creation, no clock dependence
		ctx, cancel = context.WithDeadline(context.Background(), time.Unix(0, 0))
	} else {
		ctx, cancel = context.WithCancel(context.Background())
		cancel()
	}
	return &realCtx{Context: ctx, cancel: cancel, kind: kind, fired: true, firedAt: 0}
}

// ---------------------------------------------------------------------------
// Go functions given to the programs: tick (identity, counts its calls, can
// cancel the context from inside the n-th call), ticks (an endless native
// iterator doing the same in its Next) and an endless input iterator (0, 1,
// ...) whose Next counts as a tick as well.

type holder struct {
	ticks    int
	cancelAt int
	cancel   func()
	inputs   int
}

func (h *holder) reset(cancelAt int, cancel func()) {
	h.ticks, h.cancelAt, h.cancel, h.inputs = 0, cancelAt, cancel, 0
}

func (h *holder) tick() {
	h.ticks++
	if h.ticks == h.cancelAt && h.cancel != nil {
		h.cancel()
	}
}

type tickIter struct {
	h *holder
	i int
}

func (it *tickIter) Next() (any, bool) {
	it.h.tick()
	v := it.i
	it.i++
	return v, true
}

type inIter struct{ h *holder }

func (it inIter) Next() (any, bool) {
	it.h.tick()
	v := it.h.inputs
	it.h.inputs++
	return v, true
}

// prepared is a compiled program with its per-run state holder.
type prepared struct {
	src   string
	nvars int
	code  *gojq.Code
	query *gojq.Query // non-nil when the program also compiles without options (Query.RunWithContext)
	hold  *holder
}

func prepare(src string, nvars int) (*prepared, error) {
	q, err := gojq.Parse(src)
	if err != nil {
		return nil, fmt.Errorf("parse: %w", err)
	}
	h := &holder{}
	opts := []gojq.CompilerOption{
		gojq.WithFunction("tick", 0, 0, func(x any, _ []any) any { h.tick(); return x }),
		gojq.WithIterFunction("ticks", 0, 0, func(any, []any) gojq.Iter { return &tickIter{h: h} }),
		gojq.WithInputIter(inIter{h}),
	}
	if nvars > 0 {
		names := make([]string, nvars)
		for i := range names {
			names[i] = fmt.Sprintf("$v%d", i)
		}
		opts = append(opts, gojq.WithVariables(names))
	}
	code, err := gojq.Compile(q, opts...)
	if err != nil {
		return nil, fmt.Errorf("compile: %w", err)
	}
	p := &prepared{src: src, nvars: nvars, code: code, hold: h}
	if nvars == 0 {
		if _, err := gojq.Compile(q); err == nil {
			p.query = q
		}
	}
	return p, nil
}

var prepCache = map[string]*prepared{}

func prepareCached(src string, nvars int) (*prepared, error) {
	key := fmt.Sprintf("%d|%s", nvars, src)
	if p, ok := prepCache[key]; ok {
		return p, nil
	}
	p, err := prepare(src, nvars)
	if err != nil {
		return nil, err
	}
	prepCache[key] = p
	return p, nil
}

func (p *prepared) start(ctx context.Context, via string, input any) gojq.Iter {
	if via == "query" && p.query != nil {
		return p.query.RunWithContext(ctx, input)
	}
	vars := make([]any, p.nvars)
	for i := range vars {
		vars[i] = i * 10
	}
	return p.code.RunWithContext(ctx, input, vars...)
}

// safeNext advances the iterator; a panic inside gojq is returned as text.
func safeNext(it gojq.Iter) (v any, ok bool, pan string) {
	defer func() {
		if r := recover(); r != nil {
			st := string(debug.Stack())
			if i := strings.Index(st, "panic("); i >= 0 {
				st = st[i:]
			}
			if i := strings.Index(st, "\nverif/checks/c07.safeNext"); i >= 0 {
				st = st[:i] // keep the frames inside gojq only
			}
			if len(st) > 900 {
				st = st[:900]
			}
			pan = fmt.Sprintf("panic: %v\n%s", r, st)
		}
	}()
	v, ok = it.Next()
	return
}

// ---------------------------------------------------------------------------
// The watchdog: the only wall-clock element.  Every single run below executes
// a bounded number of interpreter steps (at most a few ten thousand polls,
// microseconds to milliseconds, a few megabytes); a monitor goroutine looks
// every 100 ms at the run in flight.  If the same run is still in flight
// after `watchdog`, or has grown the heap by more than `heapSlack` (a loop
// that never polls while it piles up forks or scopes), the loop is not
// reaching a cancellation check: that is reported as a violation and the
// process ends (the stuck goroutine cannot be stopped).

const (
	watchdog  = 60 * time.Second
	heapSlack = 1500 << 20
)

var wd struct {
	mu      sync.Mutex
	started bool
	seq     uint64
	sub     string
	c       any
	what    string
}

func heapBytes() uint64 {
	s := []metrics.Sample{{Name: "/memory/classes/heap/objects:bytes"}}
	metrics.Read(s)
	if s[0].Value.Kind() == metrics.KindUint64 {
		return s[0].Value.Uint64()
	}
	return 0
}

func wdMonitor() {
	var seen uint64
	var since time.Time
	var heap0 uint64
	for range time.Tick(100 * time.Millisecond) {
		wd.mu.Lock()
		seq, sub, c, what := wd.seq, wd.sub, wd.c, wd.what
		wd.mu.Unlock()
		if sub == "" || seq != seen {
			seen, since, heap0 = seq, time.Now(), 0
			continue
		}
		// the same bounded run has been in flight for at least 100 ms
		h := heapBytes()
		if heap0 == 0 {
			heap0 = h
		}
		var why string
		switch {
		case time.Since(since) > watchdog:
			why = fmt.Sprintf("has not returned %v after it started", watchdog)
		case h > heap0+heapSlack:
			why = fmt.Sprintf("has not returned after %v and has grown the heap by %d MiB", time.Since(since).Round(time.Millisecond), (h-heap0)>>20)
		default:
			continue
		}
		rec.Direct(sub, c, "promptness: %s %s, although it is bounded (the context is cancelled after a bounded number of polls of Done(), every instruction of the program takes microseconds): the interpreter is looping without reaching a cancellation check", what, why)
		rec.Close()
		os.Exit(1)
	}
}

// arm declares one bounded run in flight.
func arm(sub string, c any, what string) {
	wd.mu.Lock()
	wd.seq++
	wd.sub, wd.c, wd.what = sub, c, what
	if !wd.started {
		wd.started = true
		go wdMonitor()
	}
	wd.mu.Unlock()
}

func disarm() {
	wd.mu.Lock()
	wd.seq++
	wd.sub = ""
	wd.mu.Unlock()
}
