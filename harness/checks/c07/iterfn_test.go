package c07

import (
	"context"
	"fmt"
	"strings"

	"github.com/itchyny/gojq"

	"verif/internal/run"
	"verif/internal/univ"
)

// ---------------------------------------------------------------------------
// sub-check "iterfn": iterator-valued Go functions (gojq.WithIterFunction)
// that report errors the documented way, as elements of gojq.NewIter(...):
// nothing, one value, several values, an error only, values then an error
// last, an error first, two errors, an error in the middle; arities 0..2.
// The consumer keeps calling Next past every error value and three more times
// after the final false - without a context (Run), under
// context.Background(), under a counting context that never fires, and under
// a counting context cancelled at every poll k (the existing scheme).
// Oracle: no panic ever; after false always (nil, false); the three
// uncancelled modes emit the same items; the items up to the first error are
// those of the jq-defined equivalent (`1, error("e1")` style).

type itErr struct{ s string }

func (e *itErr) Error() string { return e.s }

var (
	errIt1 = &itErr{"e1"}
	errIt2 = &itErr{"e2"}
)

func iterFnOpts() []gojq.CompilerOption {
	f := func(name string, min, max int, mk func(x any, args []any) gojq.Iter) gojq.CompilerOption {
		return gojq.WithIterFunction(name, min, max, mk)
	}
	return []gojq.CompilerOption{
		f("itnone", 0, 0, func(any, []any) gojq.Iter { return gojq.NewIter[any]() }),
		f("itone", 0, 0, func(any, []any) gojq.Iter { return gojq.NewIter[any](7) }),
		f("itmany", 0, 0, func(any, []any) gojq.Iter { return gojq.NewIter[any](1, 2, 3) }),
		f("iterr", 0, 0, func(any, []any) gojq.Iter { return gojq.NewIter[error](errIt1) }),
		f("iterrany", 0, 0, func(any, []any) gojq.Iter { return gojq.NewIter[any](errIt1) }),
		f("itvalserr", 0, 0, func(any, []any) gojq.Iter { return gojq.NewIter[any](1, 2, errIt1) }),
		f("itvalerr", 0, 0, func(any, []any) gojq.Iter { return gojq.NewIter[any](1, errIt1) }),
		f("iterrvals", 0, 0, func(any, []any) gojq.Iter { return gojq.NewIter[any](errIt1, 1, 2) }),
		f("ittwoerrs", 0, 0, func(any, []any) gojq.Iter { return gojq.NewIter[error](errIt1, errIt2) }),
		f("itmiderr", 0, 0, func(any, []any) gojq.Iter { return gojq.NewIter[any](1, errIt1, 2) }),
		f("itin", 0, 0, func(x any, _ []any) gojq.Iter { return gojq.NewIter[any](x, errIt1) }),
		f("itarg", 1, 2, func(_ any, args []any) gojq.Iter {
			if len(args) == 1 {
				return gojq.NewIter[any](args[0], errIt1)
			}
			return gojq.NewIter[any](args[0], errIt1, args[1], errIt2)
		}),
	}
}

// the functions with their jq-defined equivalents
var iterFns = []struct{ native, jq string }{
	{"itnone", "(empty)"},
	{"itone", "(7)"},
	{"itmany", "(1, 2, 3)"},
	{"iterr", "(error(\"e1\"))"},
	{"iterrany", "(error(\"e1\"))"},
	{"itvalserr", "(1, 2, error(\"e1\"))"},
	{"itvalerr", "(1, error(\"e1\"))"},
	{"iterrvals", "(error(\"e1\"), 1, 2)"},
	{"ittwoerrs", "(error(\"e1\"), error(\"e2\"))"},
	{"itmiderr", "(1, error(\"e1\"), 2)"},
	{"itin", "(., error(\"e1\"))"},
	{"itarg(5)", "(5, error(\"e1\"))"},
	{"itarg(5; 6)", "(5, error(\"e1\"), 6, error(\"e2\"))"},
	{"itarg(.; [.])", "(., error(\"e1\"), [.], error(\"e2\"))"},
}

var iterFnContexts = []string{
	"%s", "1, %s", "%s, 1", ". as $x | %s", "[%s]", "try %s catch .", "(%s)?", "first(%s)", "limit(2; %s)", "%s | %s",
	"reduce %s as $x (0; . + 1)", "path(%s)?", "label $l | %s, break $l", "%s | .", "1 as $x | 2 as $y | %s", "def g: %s; g", "def g: %s; g, g",
	"foreach %s as $x (0; . + 1)", "(%s) as $v | $v", "{a: %s}", "%s // 9", "if %s then 1 else 2 end", "limit(1; %s)", "isempty(%s)",
	"[limit(3; repeat(%s, 0))]", "range(2) as $i | %s", "(1, 2) | %s", "%s as [$a] ?// $a | $a", "label $l | %s", "first(%s), 1", "(%s), (%s)",
}

type itfCase struct {
	Prog  string `json:"prog"`
	Equiv string `json:"equiv"` // the same program over the jq-defined equivalent of the function
	In    string `json:"in"`
}

// runIterFn drives one uncancelled run to its end and three calls further.
func runIterFn(p *prepared, mode string, input any) ([]item, string) {
	var it gojq.Iter
	p.hold.reset(0, nil)
	switch mode {
	case "run":
		it = p.code.Run(univ.Copy(input))
	case "background":
		it = p.code.RunWithContext(context.Background(), univ.Copy(input))
	case "query":
		if p.query != nil {
			return nil, "" // (never: the functions need the options)
		}
		it = p.code.RunWithContext(context.TODO(), univ.Copy(input))
	default:
		it = p.code.RunWithContext(run.NewCountCtx(0), univ.Copy(input))
	}
	var items []item
	for {
		v, ok, pan := safeNext(it)
		if pan != "" {
			return items, fmt.Sprintf("mode %s: Next panicked after %d items (previous item: %s): %s", mode, len(items), lastItem(items), pan)
		}
		if !ok {
			if v != nil {
				return items, fmt.Sprintf("mode %s: Next returned (%s, false)", mode, mkItem(v, 0, 0))
			}
			break
		}
		items = append(items, mkItem(v, 0, 0))
		if len(items) > 2000 {
			return items, fmt.Sprintf("mode %s: more than 2000 items", mode)
		}
	}
	for j := 1; j <= 3; j++ {
		v, ok, pan := safeNext(it)
		if pan != "" {
			return items, fmt.Sprintf("mode %s: call #%d of Next after it had returned false panicked (items: %s): %s", mode, j, showItems(items), pan)
		}
		if ok || v != nil {
			return items, fmt.Sprintf("mode %s: call #%d of Next after it had returned false returned (%s, %v); want (nil, false) for ever", mode, j, mkItem(v, 0, 0), ok)
		}
	}
	return items, ""
}

func showItems(items []item) string {
	ss := make([]string, len(items))
	for i, it := range items {
		ss[i] = it.String()
	}
	return "(" + strings.Join(ss, " ; ") + ")"
}

func checkIterFn(c itfCase) string {
	input, err := mkInput(c.In)
	if err != nil {
		return "bad case: " + err.Error()
	}
	p, err := prepare(c.Prog, 0)
	if err != nil {
		return "bad case: " + err.Error()
	}
	arm("iterfn", c, "a finite run over Go iterator functions")
	defer disarm()
	var first []item
	for i, mode := range []string{"run", "background", "count-never", "query"} {
		items, msg := runIterFn(p, mode, input)
		if msg != "" {
			return msg
		}
		if i == 0 {
			first = items
			continue
		}
		if len(items) != len(first) {
			return fmt.Sprintf("mode %s emits %s, mode run emits %s", mode, showItems(items), showItems(first))
		}
		for j := range items {
			if !sameItem(items[j], first[j]) {
				return fmt.Sprintf("mode %s emits %s, mode run emits %s", mode, showItems(items), showItems(first))
			}
		}
	}
	if c.Equiv == "" {
		return ""
	}
	q, err := prepare(c.Equiv, 0)
	if err != nil {
		return "bad case: equivalent: " + err.Error()
	}
	want, msg := runIterFn(q, "run", input)
	if msg != "" {
		return "jq-defined equivalent " + c.Equiv + ": " + msg
	}
	// the items up to the first error: same values, then an error in both (or the end in both)
	for j := 0; ; j++ {
		ge, we := j >= len(first), j >= len(want)
		if ge || we {
			if ge != we {
				return fmt.Sprintf("before any error the program emits %s, its jq-defined equivalent %s emits %s", showItems(first), c.Equiv, showItems(want))
			}
			return ""
		}
		if first[j].isErr || want[j].isErr {
			if first[j].isErr != want[j].isErr {
				return fmt.Sprintf("item #%d: the program emits %s, its jq-defined equivalent %s emits %s", j, showItems(first), c.Equiv, showItems(want))
			}
			return ""
		}
		if !univ.Same(first[j].v, want[j].v) {
			return fmt.Sprintf("item #%d: the program emits %s, its jq-defined equivalent %s emits %s", j, showItems(first), c.Equiv, showItems(want))
		}
	}
}

// iterFnEnum: every function x every context: the uncancelled modes, then
// cancellation at every poll k.
func iterFnEnum() {
	idx := 0
	complete := true
	for _, f := range iterFns {
		for _, cx := range iterFnContexts {
			idx++
			if !rec.Mine(idx) {
				continue
			}
			c := itfCase{Prog: strings.ReplaceAll(cx, "%s", f.native), Equiv: strings.ReplaceAll(cx, "%s", f.jq), In: "num:3"}
			rec.Eval()
			rec.Class("iterfn/function/" + strings.SplitN(f.native, "(", 2)[0])
			if msg := checkIterFn(c); msg != "" {
				rec.Direct("iterfn", c, "%s", msg)
				complete = false
				if rec.Violations() > 6 {
					return
				}
				continue
			}
			// cancellation at every poll (prefix, promptness, terminal: three further calls)
			p, err := prepareCached(c.Prog, 0)
			if err != nil {
				continue
			}
			input, _ := mkInput(c.In)
			base := cancelCase{Prog: c.Prog, In: c.In, N: 2000}
			arm("cancel", base, "the reference run (cancelled at poll n+1)")
			ref := reference(p, input, base.N)
			disarm()
			if ref.pan != "" {
				rec.Direct("cancel", base, "%s", ref.pan)
				complete = false
				continue
			}
			errs := 0
			for _, it := range ref.items {
				if it.isErr {
					errs++
				}
			}
			rec.NT("f|" + c.Prog)
			rec.Class(fmt.Sprintf("iterfn/error-values/%d", min(errs, 3)))
			if cc, msg := enumCancel("cancel", p, base, input, &ref, ksFor(&ref, base.N, base.N, 1), -1, "go-iterator-function"); msg != "" {
				rec.Direct("cancel", cc, "%s", msg)
				complete = false
			}
		}
	}
	rec.Exhaustive(fmt.Sprintf("Go iterator functions: %d functions/arities x %d contexts x {Run, Background, never-firing context, TODO} + every cancellation poll", len(iterFns), len(iterFnContexts)), complete)
}
