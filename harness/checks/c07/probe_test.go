package c07

import (
	"fmt"
	"testing"

	"github.com/itchyny/gojq"
	"verif/internal/run"
	"verif/internal/univ"
)

func probe(src string, in any, n int) {
	defer func() {
		if r := recover(); r != nil {
			fmt.Printf("  PANIC %v\n", r)
		}
	}()
	q, err := gojq.Parse(src)
	if err != nil {
		fmt.Println(src, "parse error", err)
		return
	}
	ctx := run.NewCountCtx(0)
	it := q.RunWithContext(ctx, in)
	fmt.Printf("%s\n", src)
	for i := 0; i < n; i++ {
		v, ok := it.Next()
		if e, isE := v.(error); isE {
			fmt.Printf("  err(%v) ok=%v polls=%d\n", e, ok, ctx.Polls)
		} else {
			fmt.Printf("  %s ok=%v polls=%d\n", univ.Show(v), ok, ctx.Polls)
		}
	}
}

func TestProbe(t *testing.T) {
	probe(`range(3)`, nil, 8)
	probe(`.[]`, []any{1,2}, 8)
	probe(`.[]`, []any{}, 8)
	probe(`first(range(5))`, nil, 8)
	probe(`limit(2; range(5))`, nil, 8)
	probe(`until(. > 3; . + 1)`, 0, 8)
	probe(`[range(3)]`, nil, 8)
	probe(`label $f | 1`, nil, 8)
	probe(`1 as $x | 2 as $y | label $f | 1`, nil, 12)
	probe(`empty`, nil, 8)
	probe(`1`, nil, 8)
	probe(`1,2`, nil, 8)
	probe(`try error catch .`, nil, 8)
	probe(`.a // 3`, nil, 8)
	probe(`.[]?`, 1, 8)
	probe(`isempty(empty)`, 1, 8)
	probe(`limit(0; 1)`, 1, 8)
	probe(`recurse`, []any{[]any{1}}, 8)
	probe(`reduce range(4) as $x (0; .+$x)`, 1, 8)
	probe(`foreach range(2) as $x (0; .+$x)`, 1, 8)
	probe(`.[] |= .+1`, []any{1,2}, 8)
	probe(`"abc" | match("b")`, nil, 8)
	probe(`"a,b" | splits(",")`, nil, 8)
	probe(`path(..)`, []any{1}, 8)
	probe(`(range(3)), empty`, nil, 8)
}
